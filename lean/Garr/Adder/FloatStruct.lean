import Garr.Adder.Inv
/-!
# Structural invariant of the striped adder for an arbitrary value algebra

`Garr.Adder.Inv` proves `AInv` for `M intAlg mc`; its heap component `GInv` contains the integer
conservation law, which is meaningless for the float algebra (the heap holds bit patterns).  This file
re-proves the *structural* part — table well-formedness `TInv` (= `GInv` without `conserve`), thread-local
invariants `LInv`, lock discipline, maintenance discipline — for `M alg mc` with **any** `alg`
(in particular `floatAlg`, whose steps differ from the integer ones by the two private-cell stores `c2f`, `k3f`
and by which CASes succeed).  The definitions `LInv`, `Frame`, `Mono`, `LockTr`, `GhostTr`, `holds`, `isMnt`
are reused from `Garr.Adder.Inv`; the proofs are adapted copies.  Core-only.
-/
namespace Garr.Adder.Float
open Garr.Conc Garr.Adder

/-- table well-formedness: `GInv` without the (integer) conservation law -/
structure TInv (g : G) : Prop where
  tbl_wf : ∀ a len, g.tbl = some (a, len) → a < g.narr ∧ 2 ≤ len ∧ len ≤ (g.arr a).cap ∧
            (∀ j, len ≤ j → (g.arr a).slot j = none)
  slot_valid : ∀ a j c, a < g.narr → (g.arr a).slot j = some c → c < g.ncell
  all_in : ∀ c, c < g.ncell → inTable g c
  inj : ∀ a len j1 j2 c, g.tbl = some (a, len) → (g.arr a).slot j1 = some c → (g.arr a).slot j2 = some c → j1 = j2

theorem TInv.ofGInv {g : G} (h : GInv g) : TInv g := ⟨h.tbl_wf, h.slot_valid, h.all_in, h.inj⟩

/-- `TInv` only reads `narr`, `arr`, `tbl`, `ncell` -/
theorem TInv.congr {g g' : G} (h : TInv g) (hn : g'.narr = g.narr) (ha : g'.arr = g.arr)
    (ht : g'.tbl = g.tbl) (hc : g'.ncell = g.ncell) : TInv g' := by
  obtain ⟨b, bu, n, ar, tb, nc, ce, ap, ac, ma⟩ := g'
  simp only at hn ha ht hc
  subst hn ha ht hc
  exact ⟨h.tbl_wf, h.slot_valid, h.all_in, h.inj⟩

theorem tinv_leave {g : G} (h : TInv g) (t : Tid) (v : V) : TInv (leave t g v) :=
  h.congr (by simp) (by simp) (by simp) (by simp)

theorem tinv_ncell0 {g : G} (h : TInv g) (ht : g.tbl = none) : g.ncell = 0 := by
  cases hn : g.ncell with
  | zero => rfl
  | succ m =>
    obtain ⟨a, len, i, ht', _, _⟩ := h.all_in 0 (by omega)
    rw [ht] at ht'; cases ht'

theorem tinv_attach {g : G} (h : TInv g) (a len j : Nat) (x : Int)
    (ht : g.tbl = some (a, len)) (hj : j < len) (hnone : (g.arr a).slot j = none) : TInv (attach g a j x) := by
  obtain ⟨ha, h2, hcap, hbeyond⟩ := h.tbl_wf a len ht
  refine ⟨?_, ?_, ?_, ?_⟩
  · intro a' len' ht'
    simp only [attach] at ht' ⊢
    rw [ht] at ht'; cases ht'
    simp only [ite_true, setSlot]
    refine ⟨ha, h2, hcap, fun i hi => ?_⟩
    have : i ≠ j := by omega
    simp [this]; exact hbeyond i hi
  · intro a' i c ha' hs
    simp only [attach] at ha' hs ⊢
    by_cases haa : a' = a
    · subst haa
      simp only [ite_true, setSlot] at hs
      by_cases hij : i = j
      · subst hij; simp at hs; omega
      · simp [hij] at hs; have := h.slot_valid a' i c ha hs; omega
    · simp [haa] at hs; have := h.slot_valid a' i c ha' hs; omega
  · intro c hc
    simp only [attach] at hc
    by_cases hcn : c = g.ncell
    · subst hcn
      exact ⟨a, len, j, by simp [attach, ht], hj, by simp [attach, setSlot]⟩
    · obtain ⟨a', len', i, ht', hi, hs⟩ := h.all_in c (by omega)
      rw [ht] at ht'; cases ht'
      refine ⟨a, len, i, by simp [attach, ht], hi, ?_⟩
      have : i ≠ j := fun hij => by subst hij; rw [hnone] at hs; cases hs
      simp [attach, setSlot, this, hs]
  · intro a' len' j1 j2 c ht' h1 h2'
    simp only [attach] at ht' h1 h2'
    rw [ht] at ht'; cases ht'
    simp only [ite_true, setSlot] at h1 h2'
    by_cases e1 : j1 = j <;> by_cases e2 : j2 = j
    · omega
    · simp [e1, e2] at h1 h2'
      have := h.slot_valid a j2 c ha h2'; omega
    · simp [e1, e2] at h1 h2'
      have := h.slot_valid a j1 c ha h1; omega
    · simp [e1, e2] at h1 h2'
      exact h.inj a len j1 j2 c ht h1 h2'

theorem tinv_growReslice {g : G} (h : TInv g) (a len : Nat) (ht : g.tbl = some (a, len)) :
    TInv (growReslice g a) := by
  obtain ⟨ha, h2, hcap, hbeyond⟩ := h.tbl_wf a len ht
  refine ⟨?_, h.slot_valid, ?_, ?_⟩
  · intro a' len' ht'
    simp only [growReslice] at ht' ⊢
    cases ht'
    exact ⟨ha, by omega, Nat.le_refl _, fun j hj => hbeyond j (by omega)⟩
  · intro c hc
    obtain ⟨a', len', i, ht', hi, hs⟩ := h.all_in c hc
    rw [ht] at ht'; cases ht'
    exact ⟨a, (g.arr a).cap, i, rfl, by omega, hs⟩
  · intro a' len' j1 j2 c ht' h1 h2'
    simp only [growReslice] at ht' h1 h2'
    cases ht'
    exact h.inj a len j1 j2 c ht h1 h2'

/-- growth by reallocation copying `n ≥ len` slots (those beyond `len` are empty) -/
theorem tinv_growRealloc {g : G} (h : TInv g) (a len n : Nat) (ht : g.tbl = some (a, len)) (hn : len ≤ n) :
    TInv (growRealloc g a n) := by
  obtain ⟨ha, h2, hcap, hbeyond⟩ := h.tbl_wf a len ht
  refine ⟨?_, ?_, ?_, ?_⟩
  · intro a' len' ht'
    simp only [growRealloc] at ht' ⊢
    cases ht'
    simp only [ite_true]
    refine ⟨by omega, by omega, by omega, fun j hj => ?_⟩
    have : ¬ j < n := by omega
    simp [this]
  · intro a' j c ha' hs
    simp only [growRealloc] at ha' hs ⊢
    by_cases haa : a' = g.narr
    · subst haa
      simp only [ite_true] at hs
      split at hs
      · exact h.slot_valid a j c ha hs
      · cases hs
    · simp [haa] at hs; exact h.slot_valid a' j c (by omega) hs
  · intro c hc
    obtain ⟨a', len', i, ht', hi, hs⟩ := h.all_in c hc
    rw [ht] at ht'; cases ht'
    have hin : i < n := by omega
    exact ⟨g.narr, 2*n, i, rfl, by omega, by simp [growRealloc, hin, hs]⟩
  · intro a' len' j1 j2 c ht' h1 h2'
    simp only [growRealloc] at ht' h1 h2'
    cases ht'
    simp only [ite_true] at h1 h2'
    split at h1 <;> split at h2' <;> try contradiction
    exact h.inj a len j1 j2 c ht h1 h2'

theorem tinv_initTable {g : G} (h : TInv g) (j : Nat) (x : Int) (ht : g.tbl = none) (hj : j < 2) :
    TInv (initTable g j x) := by
  have hn0 : g.ncell = 0 := tinv_ncell0 h ht
  refine ⟨?_, ?_, ?_, ?_⟩
  · intro a' len' ht'
    simp only [initTable] at ht' ⊢
    cases ht'
    simp only [ite_true]
    refine ⟨by omega, by omega, by omega, fun i hi => ?_⟩
    have : i ≠ j := by omega
    simp [this]
  · intro a' i c ha' hs
    simp only [initTable] at ha' hs ⊢
    by_cases haa : a' = g.narr
    · subst haa
      simp only [ite_true] at hs
      split at hs
      · cases hs; omega
      · cases hs
    · simp [haa] at hs; have := h.slot_valid a' i c (by omega) hs; omega
  · intro c hc
    simp only [initTable] at hc
    have : c = g.ncell := by omega
    subst this
    exact ⟨g.narr, 2, j, rfl, hj, by simp [initTable]⟩
  · intro a' len' j1 j2 c ht' h1 h2'
    simp only [initTable] at ht' h1 h2'
    cases ht'
    simp only [ite_true] at h1 h2'
    split at h1 <;> split at h2' <;> try contradiction
    omega

theorem tinv_storeTable {g : G} (len : Nat) (h2 : 2 ≤ len) : TInv (storeTable g len) := by
  refine ⟨?_, ?_, ?_, ?_⟩
  · intro a l ht
    simp only [storeTable] at ht ⊢
    cases ht
    refine ⟨by omega, h2, Nat.le_refl _, fun j hj => ?_⟩
    have : ¬ j < len := by omega
    simp [this]
  · intro a j c _ hs
    simp only [storeTable] at hs ⊢
    split at hs
    · cases hs; assumption
    · cases hs
  · intro c hc
    simp only [storeTable] at hc
    exact ⟨0, len, c, rfl, hc, by simp [storeTable, hc]⟩
  · intro a l j1 j2 c _ h1 h2'
    simp only [storeTable] at h1 h2'
    split at h1 <;> split at h2' <;> try contradiction
    cases h1; cases h2'; rfl

/-! ## One `stepRun` step, any algebra -/

/-- what one `stepRun` step guarantees about the heap structure and the acting thread -/
structure SOK (g : G) (pc : PC) (v : V) (g' : G) (l' : L) : Prop where
  tinv : TInv g'
  linv : LInv g' l'
  mono : v.mnt = false → Mono g g'
  frame : v.mnt = false → holdsPC pc = false → Frame g g'

theorem SOK.ofSame {g : G} {pc : PC} {v : V} {l' : L} (hG : TInv g) (hl : LInv g l') : SOK g pc v g l' :=
  ⟨hG, hl, fun _ => Mono.refl _, fun _ _ => Frame.refl _⟩

theorem SOK.ofFrame {g g' : G} {pc : PC} {v : V} {l' : L} (hG : TInv g') (hF : Frame g g') (hl : LInv g' l') :
    SOK g pc v g' l' :=
  ⟨hG, hl, fun _ => hF.mono, fun _ _ => hF⟩

theorem SOK.ofHolder {g g' : G} {pc : PC} {v : V} {l' : L} (hh : holdsPC pc = true) (hG : TInv g')
    (hM : Mono g g') (hl : LInv g' l') : SOK g pc v g' l' :=
  ⟨hG, hl, fun _ => hM, fun _ h => by rw [hh] at h; cases h⟩

theorem frame_casBaseA (alg : Alg) (g : G) (x : Int) : Frame g (casBaseA alg g x) := ⟨rfl, rfl, rfl, rfl⟩
theorem frame_casCellA (alg : Alg) (g : G) (c : Nat) (x : Int) : Frame g (casCellA alg g c x) := ⟨rfl, rfl, rfl, rfl⟩

theorem tinv_frame {g g' : G} (h : TInv g) (hF : Frame g g') : TInv g' :=
  h.congr hF.narr hF.arr hF.tbl hF.ncell

theorem linv_float_c (alg : Alg) (g : G) (v : V) : LInv g (.run (if alg.float then .c2f else .c3) v) := by
  cases alg.float <;> trivial

theorem linv_float_k (alg : Alg) (g : G) (v : V) (h : g.tbl = none ∧ v.j < 2) :
    LInv g (.run (if alg.float then .k3f else .k4a) v) := by
  cases alg.float <;> exact h

local macro "fin " h:ident : tactic =>
  `(tactic| (simp only [Prod.mk.injEq] at $h:ident; obtain ⟨h1, h2, h3⟩ := $h:ident; subst h1 h2 h3))

set_option maxHeartbeats 400000 in
theorem stepRun_struct {alg : Alg} {mc : Nat} {t : Tid} {g : G} {pc : PC} {v : V} {w : Nat} {g' : G} {l' : L}
    {obs : List Obs}
    (hG : TInv g) (hL : LInvPC g v pc) (hs : stepRun alg mc t g pc v w = (g', l', obs)) :
    SOK g pc v g' l' := by
  cases pc <;> simp only [LInvPC] at hL <;>
    simp only [stepRun, retAdd, slotAt] at hs
  case a0 =>
    split at hs <;> fin hs
    · exact .ofSame hG trivial
    · rename_i tb htb; exact .ofSame hG (hG.tbl_wf tb.1 tb.2 htb).1
  case a1 => fin hs; exact .ofSame hG trivial
  case a2 =>
    split at hs <;> fin hs
    · exact .ofFrame (tinv_leave (tinv_frame hG (frame_casBaseA _ _ _)) _ _)
        (Frame.leave (frame_casBaseA _ _ _) _ _) trivial
    · exact .ofSame hG trivial
  case ar => fin hs; exact .ofSame hG hL
  case a3 =>
    split at hs <;> fin hs
    · exact .ofSame hG (by split <;> trivial)
    · rename_i c hc; exact .ofSame hG (hG.slot_valid _ _ c hL hc)
  case a4 => fin hs; exact .ofSame hG hL
  case a5 =>
    split at hs <;> fin hs
    · exact .ofFrame (tinv_leave (tinv_frame hG (frame_casCellA _ _ _ _)) _ _)
        (Frame.leave (frame_casCellA _ _ _ _) _ _) trivial
    · exact .ofSame hG (by split <;> trivial)
  case enter1 => fin hs; exact .ofSame hG (by split <;> trivial)
  case enter2 => fin hs; exact .ofSame hG trivial
  case c0 =>
    split at hs <;> fin hs
    · exact .ofSame hG trivial
    · rename_i tb htb; exact .ofSame hG (hG.tbl_wf tb.1 tb.2 htb).1
  case c1 =>
    split at hs
    · fin hs; exact .ofSame hG trivial
    · rename_i c hc
      split at hs <;> fin hs
      · exact .ofSame hG trivial
      · exact .ofSame hG (hG.slot_valid _ _ c hL hc)
  case c2 =>
    split at hs <;> fin hs
    · exact .ofSame hG trivial
    · exact .ofSame hG (linv_float_c _ _ _)
  case c2f => fin hs; exact .ofSame hG trivial
  case c3 => split at hs <;> fin hs <;> exact .ofSame hG trivial
  case c4 =>
    split at hs <;> fin hs
    · exact .ofSame hG trivial
    · exact .ofFrame (tinv_frame hG (Frame.busy _ _)) (Frame.busy _ _) trivial
  case c5a =>
    split at hs <;> fin hs
    · exact .ofSame hG trivial
    · rename_i tb htb
      exact .ofSame hG ⟨htb, mask_lt _ _ (hG.tbl_wf tb.1 tb.2 htb).2.1⟩
  case c5b =>
    split at hs <;> fin hs
    · rename_i hn; exact .ofSame hG ⟨hL.1, hL.2, hn⟩
    · exact .ofSame hG trivial
  case c5c =>
    fin hs
    exact .ofHolder rfl (tinv_attach hG v.rs.1 v.rs.2 v.j v.x hL.1 hL.2.1 hL.2.2)
      ⟨Nat.le_refl _, Nat.le_succ _⟩ trivial
  case c5d =>
    fin hs
    exact .ofFrame (tinv_leave (tinv_frame hG (Frame.busy _ _)) _ _) (Frame.leave (Frame.busy _ _) _ _) trivial
  case c5e => fin hs; exact .ofFrame (tinv_frame hG (Frame.busy _ _)) (Frame.busy _ _) trivial
  case c6 => fin hs; exact .ofSame hG hL
  case c7 =>
    split at hs
    · fin hs
      exact .ofFrame (tinv_leave (tinv_frame hG (frame_casCellA _ _ _ _)) _ _)
        (Frame.leave (frame_casCellA _ _ _ _) _ _) trivial
    · split at hs <;> fin hs <;> exact .ofSame hG trivial
  case c8 => (repeat' split at hs) <;> fin hs <;> exact .ofSame hG trivial
  case c9 => split at hs <;> fin hs <;> exact .ofSame hG trivial
  case c10 =>
    split at hs <;> fin hs
    · exact .ofSame hG trivial
    · exact .ofFrame (tinv_frame hG (Frame.busy _ _)) (Frame.busy _ _) trivial
  case c11 =>
    split at hs
    · fin hs; exact .ofSame hG trivial
    · rename_i tb htb
      split at hs <;> fin hs
      · rename_i he; exact .ofSame hG ⟨htb, he⟩
      · exact .ofSame hG trivial
  case c12 =>
    have htb : g.tbl = some (v.as.1, v.rs.2) := by rw [hL.1, ← hL.2]
    split at hs <;> fin hs
    · exact .ofHolder rfl (tinv_growReslice hG _ _ htb) ⟨Nat.le_refl _, Nat.le_refl _⟩ trivial
    · exact .ofHolder rfl (tinv_growRealloc hG _ _ _ htb (hG.tbl_wf _ _ htb).2.2.1)
        ⟨Nat.le_succ _, Nat.le_refl _⟩ trivial
  case c13 => fin hs; exact .ofFrame (tinv_frame hG (Frame.busy _ _)) (Frame.busy _ _) trivial
  case k0 => split at hs <;> fin hs <;> exact .ofSame hG trivial
  case k1 => split at hs <;> fin hs <;> exact .ofSame hG trivial
  case k2 =>
    split at hs <;> fin hs
    · exact .ofSame hG trivial
    · exact .ofFrame (tinv_frame hG (Frame.busy _ _)) (Frame.busy _ _) trivial
  case k3 =>
    split at hs <;> fin hs
    · rename_i hn
      exact .ofSame hG (linv_float_k _ _ _ ⟨hn, by have := mask_le v.idx 1; show mask v.idx 1 < 2; omega⟩)
    · exact .ofSame hG trivial
  case k3b => fin hs; exact .ofFrame (tinv_frame hG (Frame.busy _ _)) (Frame.busy _ _) trivial
  case k3f => fin hs; exact .ofSame hG hL
  case k4a => fin hs; exact .ofSame hG hL
  case k4b =>
    fin hs
    exact .ofHolder rfl (tinv_initTable hG v.j v.x hL.1 hL.2) ⟨Nat.le_succ _, Nat.le_succ _⟩ trivial
  case k4c =>
    fin hs
    exact .ofFrame (tinv_leave (tinv_frame hG (Frame.busy _ _)) _ _) (Frame.leave (Frame.busy _ _) _ _) trivial
  case kb => fin hs; exact .ofSame hG trivial
  case kb2 =>
    split at hs <;> fin hs
    · exact .ofFrame (tinv_leave (tinv_frame hG (frame_casBaseA _ _ _)) _ _)
        (Frame.leave (frame_casBaseA _ _ _) _ _) trivial
    · exact .ofSame hG trivial
  case s0 => fin hs; exact .ofSame hG hL
  case s1 =>
    split at hs
    · split at hs <;> fin hs
      · rename_i hsar; exact .ofSame hG (hL hsar)
      · exact .ofFrame (tinv_leave hG _ _) (Frame.leave (Frame.refl _) _ _) trivial
    · rename_i tb htb
      fin hs; exact .ofSame hG ⟨hL, (hG.tbl_wf tb.1 tb.2 htb).1⟩
  case s2 =>
    split at hs
    · split at hs
      · fin hs; exact .ofSame hG hL
      · split at hs <;> fin hs
        · rename_i hsar; exact .ofSame hG (hL.1 hsar)
        · exact .ofFrame (tinv_leave hG _ _) (Frame.leave (Frame.refl _) _ _) trivial
    · rename_i c hc
      fin hs; exact .ofSame hG ⟨hL.1, hL.2, hG.slot_valid _ _ c hL.2 hc⟩
  case s3 =>
    split at hs
    · fin hs; exact .ofSame hG ⟨hL.1, hL.2.1⟩
    · split at hs <;> fin hs
      · rename_i hsar; exact .ofSame hG (hL.1 hsar)
      · exact .ofFrame (tinv_leave hG _ _) (Frame.leave (Frame.refl _) _ _) trivial
  case t0 => fin hs; exact .ofFrame (tinv_frame hG (Frame.storeBase _ _)) (Frame.storeBase _ _) hL
  case t1 =>
    split at hs <;> fin hs
    · exact .ofFrame (tinv_leave hG _ _) (Frame.leave (Frame.refl _) _ _) trivial
    · rename_i tb htb; exact .ofSame hG ⟨hL, (hG.tbl_wf tb.1 tb.2 htb).2.1⟩
  case t2 => split at hs <;> fin hs <;> exact .ofSame hG hL
  case t3 =>
    fin hs
    exact ⟨tinv_leave (tinv_storeTable _ hL.2) _ _, trivial,
      fun h => (by rw [hL.1] at h; cases h), fun h => (by rw [hL.1] at h; cases h)⟩

set_option maxHeartbeats 1000000 in
theorem stepRun_ghostA {alg : Alg} {mc : Nat} {t : Tid} {g : G} {pc : PC} {v : V} {w : Nat} {g' : G} {l' : L}
    {obs : List Obs}
    (hs : stepRun alg mc t g pc v w = (g', l', obs)) : GhostTr t g (.run pc v) g' l' := by
  cases pc <;> simp only [stepRun, retAdd] at hs <;>
    (repeat' split at hs) <;> fin hs <;>
    first
    | exact ghost_stay rfl rfl rfl
    | exact ghost_leave _ rfl rfl

set_option maxHeartbeats 1000000 in
theorem stepRun_lockA {alg : Alg} {mc : Nat} {t : Tid} {g : G} {pc : PC} {v : V} {w : Nat} {g' : G} {l' : L}
    {obs : List Obs}
    (hs : stepRun alg mc t g pc v w = (g', l', obs)) : LockTr g (.run pc v) g' l' := by
  cases pc <;> simp only [stepRun, retAdd] at hs <;>
    (repeat' split at hs) <;> fin hs <;>
    first
    | exact .out rfl rfl rfl
    | exact .out rfl rfl (leave_busy _ _ _)
    | exact .keep rfl rfl rfl
    | exact .release rfl rfl rfl
    | exact .release rfl rfl (leave_busy _ _ _)
    | exact .acquire rfl rfl (by simpa using ‹¬ g.busy = true›) rfl

/-! ## One machine step -/

/-- everything a machine step guarantees (structure only) -/
structure SSum (t : Tid) (g : G) (l : L) (g' : G) (l' : L) : Prop where
  tinv : TInv g'
  linv : LInv g' l'
  mono : isMnt l = false → Mono g g'
  frame : isMnt l = false → holds l = false → Frame g g'
  lock : LockTr g l g' l'
  ghost : GhostTr t g l g' l'

theorem SSum.ofRun {alg : Alg} {mc : Nat} {t : Tid} {g : G} {pc : PC} {v : V} {w : Nat} {g' : G} {l' : L}
    {obs : List Obs}
    (hG : TInv g) (hL : LInv g (.run pc v)) (hs : stepRun alg mc t g pc v w = (g', l', obs)) :
    SSum t g (.run pc v) g' l' :=
  have h := stepRun_struct hG hL hs
  ⟨h.tinv, h.linv, h.mono, h.frame, stepRun_lockA hs, stepRun_ghostA hs⟩

theorem SSum.startN {t : Tid} {g : G} {pc : PC} {v : V} (hm : ¬ g.maint = true) (hv : v.mnt = false)
    (hh : holdsPC pc = false) (hl : LInvPC g v pc) (hG : TInv g) :
    SSum t g .idle { g with actv := t :: g.actv } (.run pc v) :=
  ⟨hG.congr rfl rfl rfl rfl, hl, fun _ => ⟨Nat.le_refl _, Nat.le_refl _⟩, fun _ _ => ⟨rfl, rfl, rfl, rfl⟩,
    .out rfl hh rfl,
    .startN rfl (fun h => by cases h) hv (by simpa using hm) rfl (by simpa using hm)⟩

theorem SSum.startM {t : Tid} {g : G} {pc : PC} {v : V} (hm : ¬ (g.maint || !g.actv.isEmpty) = true)
    (hv : v.mnt = true) (hh : holdsPC pc = false) (hl : LInvPC g v pc) (hG : TInv g) :
    SSum t g .idle { g with actv := [t], maint := true } (.run pc v) :=
  ⟨hG.congr rfl rfl rfl rfl, hl, fun _ => ⟨Nat.le_refl _, Nat.le_refl _⟩, fun _ _ => ⟨rfl, rfl, rfl, rfl⟩,
    .out rfl hh rfl,
    .startM rfl (fun h => by cases h) hv (maint_guard hm).1 (maint_guard hm).2 rfl rfl⟩

theorem step_ssum {alg : Alg} {mc : Nat} {t : Tid} {g : G} {l : L} {a : Act} {g' : G} {l' : L} {obs : List Obs}
    (hG : TInv g) (hL : LInv g l) (hs : step alg mc t g l a = some (g', l', obs)) : SSum t g l g' l' := by
  cases l <;> cases a <;> simp only [step] at hs <;> try contradiction
  case idle.add x =>
    split at hs; · cases hs
    rename_i hm; cases hs
    exact .startN hm rfl rfl trivial hG
  case idle.sum =>
    split at hs; · cases hs
    rename_i hm; cases hs
    exact .startN hm rfl rfl (fun h => by cases h) hG
  case idle.store x =>
    split at hs; · cases hs
    rename_i hm; cases hs
    exact .startM hm rfl rfl rfl hG
  case idle.reset =>
    split at hs; · cases hs
    rename_i hm; cases hs
    exact .startM hm rfl rfl rfl hG
  case idle.sumAndReset =>
    split at hs; · cases hs
    rename_i hm; cases hs
    exact .startM hm rfl rfl (fun _ => rfl) hG
  case run.tau pc v =>
    split at hs; · cases hs
    simp only [Option.some.injEq] at hs
    exact .ofRun hG hL hs
  case run.rnd pc v w =>
    split at hs
    · simp only [Option.some.injEq] at hs
      exact .ofRun hG hL hs
    · cases hs

/-! ## The structural machine invariant -/

/-- `AInvAt` with `TInv` in place of `GInv` -/
structure SInvAt (g : G) (l : Tid → L) : Prop where
  tinv : TInv g
  linv : ∀ t, LInv g (l t)
  lock_busy : ∀ t, holds (l t) = true → g.busy = true
  lock_excl : ∀ t u, holds (l t) = true → holds (l u) = true → t = u
  busy_held : g.busy = true → ∃ t, holds (l t) = true
  actv_iff : ∀ t, t ∈ g.actv ↔ l t ≠ L.idle
  maint_iff : g.maint = true ↔ ∃ t, isMnt (l t) = true
  mnt_excl : ∀ t u, isMnt (l t) = true → u ≠ t → l u = L.idle

theorem sinv_init : SInvAt initG (fun _ => L.idle) := by
  refine ⟨⟨?_, ?_, ?_, ?_⟩, fun _ => trivial, ?_, ?_, ?_, ?_, ?_, ?_⟩
  · intro a len h; cases h
  · intro a j c h; exact absurd h (Nat.not_lt_zero _)
  · intro c h; exact absurd h (Nat.not_lt_zero _)
  · intro a len j1 j2 c h; cases h
  · intro t h; cases h
  · intro t u h; cases h
  · intro h; cases h
  · intro t; constructor
    · intro h; cases h
    · intro h; exact absurd rfl h
  · constructor
    · intro h; cases h
    · intro ⟨t, h⟩; cases h
  · intro t u h; cases h

/-- the invariant is preserved by anything that satisfies the step summary (copy of `ainv_step`) -/
theorem sinv_of_ssum {g : G} {l : Tid → L} {t : Tid} {g' : G} {l' : L}
    (hI : SInvAt g l) (S : SSum t g (l t) g' l') : SInvAt g' (upd l t l') := by
  refine ⟨S.tinv, ?_, ?_, ?_, ?_, ?_, ?_, ?_⟩
  · intro u
    by_cases hut : u = t
    · subst hut; simp only [upd_same]; exact S.linv
    · simp only [upd_other _ _ _ _ hut]
      cases hm : isMnt (l t)
      · cases hh : holds (l t)
        · exact LInv_frame (S.frame hm hh) _ (hI.linv u)
        · refine LInv_mono (S.mono hm) _ ?_ (hI.linv u)
          cases hu : holds (l u)
          · rfl
          · exact absurd (hI.lock_excl u t hu hh) hut
      · rw [hI.mnt_excl t u hm hut]; trivial
  · intro u hu
    show g'.busy = true
    by_cases hut : u = t
    · subst hut; simp only [upd_same] at hu
      cases S.lock with
      | keep h1 h2 h3 => rw [h3]; exact hI.lock_busy u h1
      | release h1 h2 h3 => rw [h2] at hu; cases hu
      | out h1 h2 h3 => rw [h2] at hu; cases hu
      | acquire h1 h2 h3 h4 => exact h4
    · simp only [upd_other _ _ _ _ hut] at hu
      cases S.lock with
      | keep h1 h2 h3 => rw [h3]; exact hI.lock_busy u hu
      | release h1 h2 h3 => exact absurd (hI.lock_excl u t hu h1) hut
      | out h1 h2 h3 => rw [h3]; exact hI.lock_busy u hu
      | acquire h1 h2 h3 h4 => exact h4
  · intro u w hu hw
    have key : ∀ x, x ≠ t → holds (l x) = true → holds (l t) = true ∨ g.busy = false → False := by
      intro x hx hhx hor
      rcases hor with h | h
      · exact hx (hI.lock_excl x t hhx h)
      · have := hI.lock_busy x hhx; rw [h] at this; cases this
    have hpost : holds l' = true → holds (l t) = true ∨ g.busy = false := by
      intro h
      cases S.lock with
      | keep h1 h2 h3 => exact Or.inl h1
      | release h1 h2 h3 => rw [h2] at h; cases h
      | out h1 h2 h3 => rw [h2] at h; cases h
      | acquire h1 h2 h3 h4 => exact Or.inr h3
    by_cases hut : u = t <;> by_cases hwt : w = t
    · rw [hut, hwt]
    · subst hut; simp only [upd_same] at hu; simp only [upd_other _ _ _ _ hwt] at hw
      exact absurd (hpost hu) (fun h => key w hwt hw h)
    · subst hwt; simp only [upd_same] at hw; simp only [upd_other _ _ _ _ hut] at hu
      exact absurd (hpost hw) (fun h => key u hut hu h)
    · simp only [upd_other _ _ _ _ hut] at hu; simp only [upd_other _ _ _ _ hwt] at hw
      exact hI.lock_excl u w hu hw
  · intro hb
    have hb : g'.busy = true := hb
    cases S.lock with
    | keep h1 h2 h3 => exact ⟨t, by simp only [upd_same]; exact h2⟩
    | release h1 h2 h3 => rw [h3] at hb; cases hb
    | out h1 h2 h3 =>
      rw [h3] at hb
      obtain ⟨u, hu⟩ := hI.busy_held hb
      have hut : u ≠ t := fun h => by subst h; rw [h1] at hu; cases hu
      exact ⟨u, by simp only [upd_other _ _ _ _ hut]; exact hu⟩
    | acquire h1 h2 h3 h4 => exact ⟨t, by simp only [upd_same]; exact h2⟩
  · intro u
    show u ∈ g'.actv ↔ _
    have hA := hI.actv_iff
    by_cases hut : u = t
    · subst hut; simp only [upd_same]
      cases S.ghost with
      | stay h1 h2 h3 h4 h5 => rw [h4]; exact ⟨fun _ => h2, fun _ => (hA u).2 h1⟩
      | leaveM h1 h2 h3 h4 => rw [h3, h2]; simp
      | leaveN h1 h2 h3 h4 h5 => rw [h4, h3]; simp
      | startN h1 h2 h3 h4 h5 h6 => rw [h5]; simp [h2]
      | startM h1 h2 h3 h4 h5 h6 h7 => rw [h6]; simp [h2]
    · simp only [upd_other _ _ _ _ hut]
      cases S.ghost with
      | stay h1 h2 h3 h4 h5 => rw [h4]; exact hA u
      | leaveM h1 h2 h3 h4 => rw [h3, hI.mnt_excl t u h1 hut]; simp
      | leaveN h1 h2 h3 h4 h5 => rw [h4]; simp [hut, hA u]
      | startN h1 h2 h3 h4 h5 h6 => rw [h5]; simp [hut, hA u]
      | startM h1 h2 h3 h4 h5 h6 h7 =>
        rw [h6]
        have : l u = L.idle := by
          have := (hA u); rw [h5] at this
          cases hl : l u with
          | idle => rfl
          | run pc v => exact absurd (this.2 (by rw [hl]; intro h; cases h)) (by simp)
        simp [hut, this]
  · show g'.maint = true ↔ _
    have hM := hI.maint_iff
    have same : isMnt l' = isMnt (l t) →
        ((∃ u, isMnt (upd l t l' u) = true) ↔ ∃ u, isMnt (l u) = true) := by
      intro he
      constructor
      · intro ⟨u, hu⟩
        by_cases hut : u = t
        · subst hut; simp only [upd_same] at hu; exact ⟨u, by rw [← he]; exact hu⟩
        · simp only [upd_other _ _ _ _ hut] at hu; exact ⟨u, hu⟩
      · intro ⟨u, hu⟩
        by_cases hut : u = t
        · subst hut; exact ⟨u, by simp only [upd_same]; rw [he]; exact hu⟩
        · exact ⟨u, by simp only [upd_other _ _ _ _ hut]; exact hu⟩
    cases S.ghost with
    | stay h1 h2 h3 h4 h5 => rw [h5, same h3]; exact hM
    | leaveM h1 h2 h3 h4 =>
      rw [h4]
      constructor
      · intro h; cases h
      · intro ⟨u, hu⟩
        by_cases hut : u = t
        · subst hut; simp only [upd_same] at hu; rw [h2] at hu; cases hu
        · simp only [upd_other _ _ _ _ hut] at hu; rw [hI.mnt_excl t u h1 hut] at hu; cases hu
    | leaveN h1 h2 h3 h4 h5 => rw [h5, same (by rw [h3, h1]; rfl)]; exact hM
    | startN h1 h2 h3 h4 h5 h6 =>
      rw [h6, same (by rw [h3, h1]; rfl), ← hM, h4]
    | startM h1 h2 h3 h4 h5 h6 h7 =>
      rw [h7]
      exact ⟨fun _ => ⟨t, by simp only [upd_same]; exact h3⟩, fun _ => rfl⟩
  · intro u w hu hwu
    have hA := hI.actv_iff
    have nomnt : g.maint = false → ∀ x, isMnt (l x) = true → False := by
      intro hf x hx
      have := hI.maint_iff.2 ⟨x, hx⟩
      rw [hf] at this; cases this
    by_cases hut : u = t
    · subst hut; simp only [upd_same] at hu; simp only [upd_other _ _ _ _ hwu]
      cases S.ghost with
      | stay h1 h2 h3 h4 h5 => exact hI.mnt_excl u w (by rw [← h3]; exact hu) hwu
      | leaveM h1 h2 h3 h4 => rw [h2] at hu; cases hu
      | leaveN h1 h2 h3 h4 h5 => rw [h3] at hu; cases hu
      | startN h1 h2 h3 h4 h5 h6 => rw [h3] at hu; cases hu
      | startM h1 h2 h3 h4 h5 h6 h7 =>
        cases hl : l w with
        | idle => rfl
        | run pc v =>
          have := (hA w).2 (by rw [hl]; intro h; cases h)
          rw [h5] at this; cases this
    · simp only [upd_other _ _ _ _ hut] at hu
      have htidle : l t = L.idle := hI.mnt_excl u t hu (fun h => hut h.symm)
      cases S.ghost with
      | stay h1 h2 h3 h4 h5 => exact absurd htidle h1
      | leaveM h1 h2 h3 h4 => rw [htidle] at h1; cases h1
      | leaveN h1 h2 h3 h4 h5 => exact absurd htidle h2
      | startN h1 h2 h3 h4 h5 h6 => exact absurd hu (fun h => nomnt h4 u h)
      | startM h1 h2 h3 h4 h5 h6 h7 => exact absurd hu (fun h => nomnt h4 u h)

theorem sinv_step {alg : Alg} {mc : Nat} {g : G} {l : Tid → L} {t : Tid} {a : Act} {g' : G} {l' : L} {obs : List Obs}
    (hI : SInvAt g l) (hs : step alg mc t g (l t) a = some (g', l', obs)) :
    SInvAt g' (upd l t l') :=
  sinv_of_ssum hI (step_ssum hI.tinv (hI.linv t) hs)

/-- the structural invariant of `M alg mc`, any algebra -/
def SInv {alg : Alg} {mc : Nat} (c : Config (M alg mc)) : Prop := SInvAt c.g c.l

/-- **Every reachable configuration of the striped adder satisfies the structural invariant, whatever the
    value algebra** (integer or float). -/
theorem sinv_reach (alg : Alg) (mc : Nat) : ∀ (c : Config (M alg mc)), Reach (M alg mc) c → SInv c := by
  apply inv_of_reach
  · exact sinv_init
  · intro c t a g' l' obs hI hs
    exact sinv_step (alg := alg) (mc := mc) hI hs

/-- in a reachable configuration with every thread idle the ghost maintenance state is clear -/
theorem squiet_of_idle {g : G} {l : Tid → L} (hI : SInvAt g l) (hidle : ∀ u, l u = L.idle) :
    g.actv = [] ∧ g.maint = false := by
  constructor
  · apply List.eq_nil_iff_forall_not_mem.2
    intro u hu
    exact (hI.actv_iff u).1 hu (hidle u)
  · cases hm : g.maint
    · rfl
    · obtain ⟨u, hu⟩ := hI.maint_iff.1 hm
      rw [hidle u] at hu; cases hu

/-- no maintenance operation in progress: no thread is a maintainer -/
theorem SInvAt.no_mnt {g : G} {l : Tid → L} (hI : SInvAt g l) (hm : g.maint = false) (t : Tid) :
    isMnt (l t) = false := by
  cases h : isMnt (l t)
  · rfl
  · have := hI.maint_iff.2 ⟨t, h⟩
    rw [hm] at this; cases this

end Garr.Adder.Float
