import Garr.Conc
import Garr.Num.Wrap
import Garr.Num.F64Bits
import Garr.Adder.Heap
/-!
# pc-level model of the striped adders (`adder/jdkAdder.go`, `striped64.go`; float twin `jdkF64Adder.go`, `stripedF64.go`)

One shared-memory access (or one random draw) per step, in the order the code performs them:
`JDKAdder.Add` (`a*`), `striped64.accumulate` (`enter*`, `c*` table present, `k*` table absent),
`Sum` (`s*`), `Store` (`t*`; `Reset = Store 0`, `SumAndReset = Sum; Store 0`).
The value domain is a parameter `Alg`: for int64 the heap holds the exact (unwrapped, ghost) `Int`
total of each location and a load returns its two's-complement `view`; for float64 the heap
holds the bit pattern and `add` is IEEE addition.  `maxCells` is a parameter.
Maintenance operations are enabled only at quiescence (ghost `actv`/`maint`): they are
documented as not safe against concurrent updates.
-/
namespace Garr.Adder
open Garr.Conc

structure Alg where
  add : Int → Int → Int      -- new stored value from stored value and operand
  view : Int → Int           -- what an atomic load of a stored value returns
  float : Bool               -- float twin: pre-filled cells are written with an atomic store of the bit pattern

def intAlg : Alg := ⟨(· + ·), wrap64, false⟩

/-- float64: stored values are bit patterns; addition is IEEE addition of the exact model -/
def floatAlg : Alg :=
  ⟨fun a b => (F64.toBits (F64.add (F64.ofBits a.toNat) (F64.ofBits b.toNat)) : Nat), id, true⟩

abbrev Tbl := Nat × Nat            -- (backing array id, len)

inductive PC
  | a0 | a1 | a2 | ar | a3 | a4 | a5
  | enter1 | enter2            -- accumulate entry: draw for the argument (nil-table path) / draw when index == 0
  | c0 | c1 | c2 | c2f | c3 | c4 | c5a | c5b | c5c | c5d | c5e
  | c6 | c7 | c8 | c9 | c10 | c11 | c12 | c13
  | k0 | k1 | k2 | k3 | k3b | k3f | k4a | k4b | k4c | kb | kb2
  | s0 | s1 | s2 | s3
  | t0 | t1 | t2 | t3
deriving DecidableEq, Repr

structure V where
  x : Int := 0
  idx : BitVec 64 := 0
  unc : Bool := false
  col : Bool := false
  as : Tbl := (0, 0)
  a : Nat := 0
  v : Int := 0
  rs : Tbl := (0, 0)
  j : Nat := 0
  i : Nat := 0               -- loop index of Sum / Store
  acc : Int := 0             -- Sum accumulator
  sar : Bool := false        -- this is SumAndReset
  mnt : Bool := false        -- this is a maintenance operation
deriving Repr

inductive L
  | idle
  | run (pc : PC) (v : V)
deriving Repr

inductive Act
  | add (x : Int) | sum | store (v : Int) | reset | sumAndReset
  | tau | rnd (w : Nat)
deriving Repr

inductive Obs
  | lp (x : Int)                 -- linearization point of an update by x
  | ret (v : Option Int)         -- response (Sum / SumAndReset carry the value)
deriving Repr, DecidableEq

def rehash (i : BitVec 64) : BitVec 64 :=
  let i := i ^^^ (i <<< 13)
  let i := i ^^^ (i.sshiftRight 17)
  i ^^^ (i <<< 5)

def mask (i : BitVec 64) (n : Nat) : Nat := (i &&& BitVec.ofNat 64 n).toNat

def slotAt (g : G) (t : Tbl) (j : Nat) : Option Nat := (g.arr t.1).slot j

def casBaseA (alg : Alg) (g : G) (x : Int) : G := { g with base := alg.add g.base x, applied := g.applied + x }
def casCellA (alg : Alg) (g : G) (c : Nat) (x : Int) : G :=
  { g with cell := fun k => if k = c then alg.add (g.cell k) x else g.cell k, applied := g.applied + x }

/-- leave the operation -/
def leave (t : Tid) (g : G) (v : V) : G :=
  if v.mnt then { g with actv := [], maint := false } else { g with actv := g.actv.filter (· ≠ t) }

def retAdd (t : Tid) (g : G) (v : V) (x : Int) : G × L × List Obs := (leave t g v, .idle, [.lp x, .ret none])

/-- `getRandomInt()`: the 32-bit word masked to 31 bits -/
def rint (w : Nat) : Nat := w % 2147483648

/-- One step of a running operation: performs the access on `g` (`w` = the random word if the step is a
draw) and the local computation up to the next access. -/
def stepRun (alg : Alg) (maxCells : Nat) (t : Tid) (g : G) (pc : PC) (v : V) (w : Nat) : G × L × List Obs :=
  let rehashed := { v with idx := rehash v.idx }
  let enterAcc (v : V) (idx : BitVec 64) (unc : Bool) : L :=
    if idx == 0 then .run .enter2 { v with col := false } else .run .c0 { v with idx := idx, unc := unc, col := false }
  match pc with
  -- JDKAdder.Add
  | .a0 =>
      match g.tbl with
      | none => (g, .run .a1 v, [])
      | some t => (g, .run .ar { v with as := t }, [])
  | .a1 => (g, .run .a2 { v with v := alg.view g.base }, [])
  | .a2 =>
      if alg.view g.base = v.v then retAdd t (casBaseA alg g v.x) v v.x
      else (g, .run .enter1 v, [])
  | .ar => (g, .run .a3 { v with j := rint w &&& (v.as.2 - 1) }, [])
  | .a3 =>
      match slotAt g v.as v.j with
      | none => (g, enterAcc v (BitVec.ofNat 64 v.j) true, [])
      | some c => (g, .run .a4 { v with a := c }, [])
  | .a4 => (g, .run .a5 { v with v := alg.view (g.cell v.a) }, [])
  | .a5 =>
      if alg.view (g.cell v.a) = v.v then retAdd t (casCellA alg g v.a v.x) v v.x
      else (g, enterAcc v (BitVec.ofNat 64 v.j) false, [])
  | .enter1 => (g, enterAcc v (BitVec.ofNat 64 (rint w)) true, [])
  | .enter2 => (g, .run .c0 { v with idx := BitVec.ofNat 64 (rint w), unc := true, col := false }, [])
  -- accumulate loop, table present
  | .c0 =>
      match g.tbl with
      | none => (g, .run .k0 v, [])
      | some t => (g, .run .c1 { v with as := t }, [])
  | .c1 =>
      let n := v.as.2 - 1
      match slotAt g v.as (mask v.idx n) with
      | none => (g, .run .c2 v, [])
      | some c =>
        if !v.unc then (g, .run .c0 { rehashed with unc := true }, [])
        else (g, .run .c6 { v with a := c, idx := BitVec.ofNat 64 (mask v.idx n) }, [])
  | .c2 => if g.busy then (g, .run .c0 { rehashed with col := false }, [])
           else (g, .run (if alg.float then .c2f else .c3) v, [])
  | .c2f => (g, .run .c3 v, [])                                   -- float: r.store(x) on the private cell
  | .c3 => if g.busy then (g, .run .c0 { rehashed with col := false }, []) else (g, .run .c4 v, [])
  | .c4 =>
      if g.busy then (g, .run .c0 { rehashed with col := false }, [])
      else ({ g with busy := true }, .run .c5a v, [])
  | .c5a =>
      match g.tbl with
      | none => (g, .run .c5e v, [])       -- unreachable
      | some t => (g, .run .c5b { v with rs := t, j := mask v.idx (t.2 - 1) }, [])
  | .c5b =>
      match slotAt g v.rs v.j with
      | none => (g, .run .c5c v, [])
      | some _ => (g, .run .c5e v, [])
  | .c5c => (attach g v.rs.1 v.j v.x, .run .c5d v, [.lp v.x])
  | .c5d => (leave t { g with busy := false } v, .idle, [.ret none])
  | .c5e => ({ g with busy := false }, .run .c0 v, [])
  | .c6 => (g, .run .c7 { v with v := alg.view (g.cell v.a) }, [])
  | .c7 =>
      if alg.view (g.cell v.a) = v.v then retAdd t (casCellA alg g v.a v.x) v v.x
      else if v.as.2 - 1 ≥ maxCells then (g, .run .c0 { rehashed with col := false }, [])
      else (g, .run .c8 v, [])
  | .c8 =>
      let stale := match g.tbl with | none => true | some t => t.1 != v.as.1
      if stale then (g, .run .c0 { rehashed with col := false }, [])
      else if !v.col then (g, .run .c0 { rehashed with col := true }, [])
      else (g, .run .c9 v, [])
  | .c9 => if g.busy then (g, .run .c0 rehashed, []) else (g, .run .c10 v, [])
  | .c10 =>
      if g.busy then (g, .run .c0 rehashed, [])
      else ({ g with busy := true }, .run .c11 v, [])
  | .c11 =>
      match g.tbl with
      | none => (g, .run .c13 v, [])
      | some t => if t.1 = v.as.1 then (g, .run .c12 { v with rs := t }, [])
                  else (g, .run .c13 v, [])
  | .c12 =>
      let cap := (g.arr v.as.1).cap
      if v.as.2 < cap then (growReslice g v.as.1, .run .c13 v, [])
      else (growRealloc g v.as.1 cap, .run .c13 v, [])
  | .c13 => ({ g with busy := false }, .run .c0 { v with col := false }, [])
  -- table absent
  | .k0 => if g.busy then (g, .run .kb v, []) else (g, .run .k1 v, [])
  | .k1 => match g.tbl with
      | none => (g, .run .k2 v, [])
      | some _ => (g, .run .kb v, [])
  | .k2 => if g.busy then (g, .run .kb v, []) else ({ g with busy := true }, .run .k3 v, [])
  | .k3 => match g.tbl with
      | none => (g, .run (if alg.float then .k3f else .k4a) { v with j := mask v.idx 1 }, [])
      | some _ => (g, .run .k3b v, [])
  | .k3b => ({ g with busy := false }, .run .c0 v, [])
  | .k3f => (g, .run .k4a v, [])                                  -- float: r.store(x) on the private cell
  | .k4a => (g, .run .k4b v, [])                                  -- store into the still private array
  | .k4b => (initTable g v.j v.x, .run .k4c v, [.lp v.x])
  | .k4c => (leave t { g with busy := false } v, .idle, [.ret none])
  | .kb => (g, .run .kb2 { v with v := alg.view g.base }, [])
  | .kb2 =>
      if alg.view g.base = v.v then retAdd t (casBaseA alg g v.x) v v.x
      else (g, .run .c0 v, [])
  -- Sum (and the first half of SumAndReset)
  | .s0 => (g, .run .s1 { v with acc := alg.view g.base }, [])
  | .s1 =>
      match g.tbl with
      | none => if v.sar then (g, .run .t0 { v with x := 0 }, []) else (leave t g v, .idle, [.ret (some (alg.view v.acc))])
      | some t => (g, .run .s2 { v with as := t, i := 0 }, [])
  | .s2 =>
      match slotAt g v.as v.i with
      | none =>
        if v.i + 1 < v.as.2 then (g, .run .s2 { v with i := v.i + 1 }, [])
        else if v.sar then (g, .run .t0 { v with x := 0 }, []) else (leave t g v, .idle, [.ret (some (alg.view v.acc))])
      | some c => (g, .run .s3 { v with a := c }, [])
  | .s3 =>
      let v' := { v with acc := alg.add v.acc (alg.view (g.cell v.a)) }
      if v'.i + 1 < v'.as.2 then (g, .run .s2 { v' with i := v'.i + 1 }, [])
      else if v.sar then (g, .run .t0 { v' with x := 0 }, []) else (leave t g v, .idle, [.ret (some (alg.view v'.acc))])
  -- Store(x) (Reset = Store 0; second half of SumAndReset)
  | .t0 => (storeBase g v.x, .run .t1 v, [])
  | .t1 =>
      let out : Option Int := if v.sar then some (alg.view v.acc) else none
      match g.tbl with
      | none => (leave t g v, .idle, [.ret out])
      | some t => (g, .run .t2 { v with as := t, i := 0 }, [])
  | .t2 => if v.i + 1 < v.as.2 then (g, .run .t2 { v with i := v.i + 1 }, []) else (g, .run .t3 v, [])
  | .t3 =>
      let out : Option Int := if v.sar then some (alg.view v.acc) else none
      (leave t (storeTable g v.as.2) v, .idle, [.ret out])

/-- does this pc draw a random word? -/
def draws : PC → Bool
  | .ar | .enter1 | .enter2 => true
  | _ => false

def step (alg : Alg) (maxCells : Nat) (t : Tid) (g : G) : L → Act → Option (G × L × List Obs)
  | .idle, .add x => if g.maint then none else some ({ g with actv := t :: g.actv }, .run .a0 { x := x }, [])
  | .idle, .sum => if g.maint then none else some ({ g with actv := t :: g.actv }, .run .s0 {}, [])
  | .idle, .store x =>
      if g.maint || !g.actv.isEmpty then none
      else some ({ g with actv := [t], maint := true }, .run .t0 { x := x, mnt := true }, [])
  | .idle, .reset =>
      if g.maint || !g.actv.isEmpty then none
      else some ({ g with actv := [t], maint := true }, .run .t0 { x := 0, mnt := true }, [])
  | .idle, .sumAndReset =>
      if g.maint || !g.actv.isEmpty then none
      else some ({ g with actv := [t], maint := true }, .run .s0 { sar := true, mnt := true }, [])
  | .run pc v, .tau => if draws pc then none else some (stepRun alg maxCells t g pc v 0)
  | .run pc v, .rnd w => if draws pc then some (stepRun alg maxCells t g pc v w) else none
  | _, _ => none

def initG : G := { base := 0, busy := false, narr := 0, arr := fun _ => { cap := 0, slot := fun _ => none },
                   tbl := none, ncell := 0, cell := fun _ => 0, applied := 0 }

def M (alg : Alg) (maxCells : Nat) : Machine where
  G := G
  L := L
  Act := Act
  Obs := Obs
  init := initG
  idle := .idle
  step := step alg maxCells

end Garr.Adder
