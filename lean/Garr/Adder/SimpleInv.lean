import Garr.Adder.Simple
import Garr.Adder.Solo
/-!
# Invariants and solo runs of the simple adders (`Garr.Adder.Simple.M P`)

* `sinv_reach`: every reachable configuration has exactly `P.n` cells and every thread's locals are in range.
* `add_once` / `lp_only_add` / `add_once_*`: whatever the value algebra, an `Add x` is a sequence of silent steps
  that leave the shared state untouched, closed by exactly one step that applies `alg.add · x` to one
  cell, bumps the ghost `applied` by `x` and emits `[lp x, ret none]` (for the CAS loop: the step whose CAS succeeds).
* `sconserve_step`: for the integer algebra a step that is not part of a maintenance operation changes
  `total` (the exact sum of the cells) and `applied` by the `lp`s it emits; `sconserve`/`applied_eq_total`
  lift this to schedules in which no maintenance operation is invoked.
* `sum_solo_simple`, `store_solo_simple`, `reset_solo_simple`, `sumAndReset_solo_simple`: the four
  read/maintenance operations run alone from a reachable all-idle configuration.

The ghost `applied` tracks updates only: maintenance steps do not touch it, so everything about
`Store`/`Reset`/`SumAndReset` is phrased with `total`.
-/
namespace Garr.Adder.Simple
open Garr.Conc Garr.Adder

/-! ## Sums -/

/-- the exact (unwrapped) sum of all cells -/
def total (g : SG) : Int := g.cells.sum

theorem ssum_set (l : List Int) (j : Nat) (v : Int) (h : j < l.length) :
    (l.set j v).sum = l.sum - (l[j]?).getD 0 + v := by
  induction l generalizing j with
  | nil => simp at h
  | cons a l ih =>
    cases j with
    | zero => simp only [List.set_cons_zero, List.sum_cons, List.getElem?_cons_zero, Option.getD_some]; omega
    | succ j =>
      have hj : j < l.length := by simpa using h
      simp only [List.set_cons_succ, List.sum_cons, List.getElem?_cons_succ, ih j hj]; omega

theorem ssum_take_succ (l : List Int) (i : Nat) :
    (l.take (i + 1)).sum = (l.take i).sum + (l[i]?).getD 0 := by
  induction l generalizing i with
  | nil => simp
  | cons a l ih =>
    cases i with
    | zero => simp
    | succ i => simp only [List.take_succ_cons, List.sum_cons, List.getElem?_cons_succ, ih i]; omega

theorem ssum_replicate_zero (n : Nat) : (List.replicate n (0 : Int)).sum = 0 := by
  induction n with
  | zero => rfl
  | succ n ih => simp [List.replicate_succ, ih]

/-- the value carried by an `lp` marker -/
def lpVal : Obs → Int
  | .lp x => x
  | .ret _ => 0

/-- Σ x over the `lp x` markers of one step's observations -/
def lpSum : List Obs → Int
  | [] => 0
  | o :: r => lpVal o + lpSum r

/-- Σ x over the `lp x` markers of a log -/
def lpSumLog : List (Tid × Obs) → Int
  | [] => 0
  | e :: r => lpVal e.2 + lpSumLog r

theorem lpSumLog_append (a b : List (Tid × Obs)) : lpSumLog (a ++ b) = lpSumLog a + lpSumLog b := by
  induction a with
  | nil => simp [lpSumLog]
  | cons e r ih => simp only [List.cons_append, lpSumLog, ih]; omega

theorem lpSumLog_tag (t : Tid) (obs : List Obs) : lpSumLog (obs.map (fun o => (t, o))) = lpSum obs := by
  induction obs with
  | nil => rfl
  | cons o r ih => simp only [List.map_cons, lpSumLog, lpSum, ih]

/-! ## The structural invariant -/

/-- locals are in range and consistent with the parameters -/
def sWf (P : Params) : SL → Prop
  | .idle => True
  | .addDraw _ => P.draws = true
  | .addAt _ j => j < P.n ∧ P.casLoop = false
  | .addLd _ j => j < P.n ∧ P.casLoop = true
  | .addCas _ j _ => j < P.n ∧ P.casLoop = true
  | .sum i _ => i < P.n
  | .reset i => i < P.n
  | .sarLd i _ => i < P.n
  | .sarSt i _ => i < P.n
  | .store i _ => i < P.n

structure SInv (P : Params) (c : Config (M P)) : Prop where
  len : c.g.cells.length = P.n
  wf : ∀ t, sWf P (c.l t)

theorem length_setCell (g : SG) (j : Nat) (v : Int) : (setCell g j v).cells.length = g.cells.length := by
  simp [setCell]

theorem ite_some_eq {α : Type} {c : Prop} [Decidable c] {a b r : α}
    (h : (if c then some a else some b) = some r) : (c ∧ a = r) ∨ (¬ c ∧ b = r) := by
  split at h
  · exact Or.inl ⟨‹c›, Option.some.inj h⟩
  · exact Or.inr ⟨‹¬ c›, Option.some.inj h⟩

/-- the accumulator after reading cell `i` (the first read initialises it) -/
def sacc (P : Params) (g : SG) (i : Nat) (acc : Int) : Int :=
  if i = 0 then P.alg.view (cellAt g i) else P.alg.add acc (P.alg.view (cellAt g i))

/-- the effect of an update by `x` on cell `j` -/
def applyAdd (P : Params) (g : SG) (j : Nat) (x : Int) : SG :=
  { (setCell g j (P.alg.add (cellAt g j) x)) with applied := g.applied + x }

/-- the transition relation of `step P`, one constructor per kind of step -/
inductive SStep (P : Params) (g : SG) : SL → SAct → SG → SL → List Obs → Prop
  | invAdd (x : Int) : SStep P g .idle (.add x) g
      (if P.draws then .addDraw x else (if P.casLoop then .addLd x 0 else .addAt x 0)) []
  | invSum : SStep P g .idle .sum g (.sum 0 0) []
  | invReset : SStep P g .idle .reset g (.reset 0) []
  | invSar : SStep P g .idle .sumAndReset g (.sarLd 0 0) []
  | invStore (v : Int) : SStep P g .idle (.store v) g (.store 0 v) []
  | draw (x : Int) (w : Nat) : SStep P g (.addDraw x) (.rnd w) g
      (if P.casLoop then .addLd x (rint w % P.n) else .addAt x (rint w % P.n)) []
  | addAt (x : Int) (j : Nat) : SStep P g (.addAt x j) .tau (applyAdd P g j x) .idle [.lp x, .ret none]
  | addLd (x : Int) (j : Nat) : SStep P g (.addLd x j) .tau g (.addCas x j (P.alg.view (cellAt g j))) []
  | casOk (x : Int) (j : Nat) (old : Int) : P.alg.view (cellAt g j) = old →
      SStep P g (.addCas x j old) .tau (applyAdd P g j x) .idle [.lp x, .ret none]
  | casFail (x : Int) (j : Nat) (old : Int) : P.alg.view (cellAt g j) ≠ old →
      SStep P g (.addCas x j old) .tau g (.addLd x j) []
  | sumNext (i : Nat) (acc : Int) : i + 1 < P.n → SStep P g (.sum i acc) .tau g (.sum (i + 1) (sacc P g i acc)) []
  | sumRet (i : Nat) (acc : Int) : ¬ i + 1 < P.n →
      SStep P g (.sum i acc) .tau g .idle [.ret (some (P.alg.view (sacc P g i acc)))]
  | resetNext (i : Nat) : i + 1 < P.n → SStep P g (.reset i) .tau (setCell g i 0) (.reset (i + 1)) []
  | resetRet (i : Nat) : ¬ i + 1 < P.n → SStep P g (.reset i) .tau (setCell g i 0) .idle [.ret none]
  | sarLd (i : Nat) (acc : Int) : SStep P g (.sarLd i acc) .tau g (.sarSt i (sacc P g i acc)) []
  | sarStNext (i : Nat) (acc : Int) : i + 1 < P.n →
      SStep P g (.sarSt i acc) .tau (setCell g i 0) (.sarLd (i + 1) acc) []
  | sarStRet (i : Nat) (acc : Int) : ¬ i + 1 < P.n →
      SStep P g (.sarSt i acc) .tau (setCell g i 0) .idle [.ret (some (P.alg.view acc))]
  | storeNext (i : Nat) (v : Int) : i + 1 < P.n →
      SStep P g (.store i v) .tau (setCell g i (if i = 0 then v else 0)) (.store (i + 1) v) []
  | storeRet (i : Nat) (v : Int) : ¬ i + 1 < P.n →
      SStep P g (.store i v) .tau (setCell g i (if i = 0 then v else 0)) .idle [.ret none]

theorem sstep_of_step {P : Params} {t : Tid} {g : SG} {l : SL} {a : SAct} {g' : SG} {l' : SL} {obs : List Obs}
    (hs : step P t g l a = some (g', l', obs)) : SStep P g l a g' l' obs := by
  cases l <;> cases a <;> simp only [step, Option.some.injEq, Prod.mk.injEq, reduceCtorEq] at hs
  case idle.add => obtain ⟨rfl, rfl, rfl⟩ := hs; exact .invAdd _
  case idle.sum => obtain ⟨rfl, rfl, rfl⟩ := hs; exact .invSum
  case idle.reset => obtain ⟨rfl, rfl, rfl⟩ := hs; exact .invReset
  case idle.sumAndReset => obtain ⟨rfl, rfl, rfl⟩ := hs; exact .invSar
  case idle.store => obtain ⟨rfl, rfl, rfl⟩ := hs; exact .invStore _
  case addDraw.rnd => obtain ⟨rfl, rfl, rfl⟩ := hs; exact .draw _ _
  case addAt.tau => obtain ⟨rfl, rfl, rfl⟩ := hs; exact .addAt _ _
  case addLd.tau => obtain ⟨rfl, rfl, rfl⟩ := hs; exact .addLd _ _
  case addCas.tau =>
    rcases ite_some_eq hs with ⟨hc, h⟩ | ⟨hc, h⟩ <;> simp only [Prod.mk.injEq] at h <;> obtain ⟨rfl, rfl, rfl⟩ := h
    · exact .casOk _ _ _ hc
    · exact .casFail _ _ _ hc
  case sum.tau =>
    rcases ite_some_eq hs with ⟨hc, h⟩ | ⟨hc, h⟩ <;> simp only [Prod.mk.injEq] at h <;> obtain ⟨rfl, rfl, rfl⟩ := h
    · exact .sumNext _ _ hc
    · exact .sumRet _ _ hc
  case reset.tau =>
    rcases ite_some_eq hs with ⟨hc, h⟩ | ⟨hc, h⟩ <;> simp only [Prod.mk.injEq] at h <;> obtain ⟨rfl, rfl, rfl⟩ := h
    · exact .resetNext _ hc
    · exact .resetRet _ hc
  case sarLd.tau => obtain ⟨rfl, rfl, rfl⟩ := hs; exact .sarLd _ _
  case sarSt.tau =>
    rcases ite_some_eq hs with ⟨hc, h⟩ | ⟨hc, h⟩ <;> simp only [Prod.mk.injEq] at h <;> obtain ⟨rfl, rfl, rfl⟩ := h
    · exact .sarStNext _ _ hc
    · exact .sarStRet _ _ hc
  case store.tau =>
    rcases ite_some_eq hs with ⟨hc, h⟩ | ⟨hc, h⟩ <;> simp only [Prod.mk.injEq] at h <;> obtain ⟨rfl, rfl, rfl⟩ := h
    · exact .storeNext _ _ hc
    · exact .storeRet _ _ hc

theorem step_of_sstep {P : Params} (t : Tid) {g : SG} {l : SL} {a : SAct} {g' : SG} {l' : SL} {obs : List Obs}
    (h : SStep P g l a g' l' obs) : step P t g l a = some (g', l', obs) := by
  cases h <;> simp [step, sacc, applyAdd, *]

theorem sstep_iff {P : Params} {t : Tid} {g : SG} {l : SL} {a : SAct} {g' : SG} {l' : SL} {obs : List Obs} :
    (M P).step t g l a = some (g', l', obs) ↔ SStep P g l a g' l' obs :=
  ⟨fun h => sstep_of_step (t := t) h, step_of_sstep t⟩

/-- one step preserves the number of cells and well-formed locals -/
theorem step_sinv (P : Params) (hn : 0 < P.n) {t : Tid} {g : SG} {l : SL} {a : SAct} {g' : SG} {l' : SL}
    {obs : List Obs} (hlen : g.cells.length = P.n) (hwf : sWf P l)
    (hs : step P t g l a = some (g', l', obs)) : g'.cells.length = P.n ∧ sWf P l' := by
  have hmod : ∀ w : Nat, rint w % P.n < P.n := fun w => Nat.mod_lt _ hn
  cases sstep_of_step hs
  all_goals refine ⟨by simpa [applyAdd, setCell] using hlen, ?_⟩
  all_goals repeat' split
  all_goals simp_all [sWf]

/-- **Structural invariant**: every reachable configuration has exactly `P.n` cells (`length_cells`)
    and every thread's cell / loop index is in range. -/
theorem sinv_reach (P : Params) (hn : 0 < P.n) : ∀ c, Reach (M P) c → SInv P c := by
  apply inv_of_reach
  · exact ⟨by simp [Config.init, M], fun _ => trivial⟩
  · intro c t a g' l' obs hI hs
    obtain ⟨h1, h2⟩ := step_sinv P hn (t := t) hI.len (hI.wf t) hs
    refine ⟨h1, fun u => ?_⟩
    by_cases hu : u = t
    · subst hu; simpa using h2
    · simpa [upd_other _ _ _ _ hu] using hI.wf u

theorem length_cells (P : Params) (hn : 0 < P.n) {c : Config (M P)} (hr : Reach (M P) c) :
    c.g.cells.length = P.n := (sinv_reach P hn c hr).len

/-! ## Every `Add` takes effect exactly once (any value algebra) -/

/-- the operand of the `Add` a thread is executing, if any -/
def addArg : SL → Option Int
  | .addDraw x => some x
  | .addAt x _ => some x
  | .addLd x _ => some x
  | .addCas x _ _ => some x
  | _ => none

theorem addArg_entry (P : Params) (x : Int) :
    addArg (if P.draws then .addDraw x else (if P.casLoop then .addLd x 0 else .addAt x 0)) = some x := by
  cases P.draws <;> cases P.casLoop <;> rfl

theorem addArg_drawn (P : Params) (x : Int) (j : Nat) :
    addArg (if P.casLoop then .addLd x j else .addAt x j) = some x := by
  cases P.casLoop <;> rfl

/-- A step of a thread inside `Add x` is either silent — shared state untouched, still inside `Add x` —
    or it is the effect step: the `atomic.AddInt64`, or the CAS that succeeds (the value it loaded is still
    there).  The effect step applies `alg.add · x` to cell `j`, adds `x` to the ghost `applied`, and
    emits `lp x` together with the response. -/
theorem add_once {P : Params} {t : Tid} {g : SG} {l : SL} {a : SAct} {g' : SG} {l' : SL} {obs : List Obs} {x : Int}
    (hx : addArg l = some x) (hs : (M P).step t g l a = some (g', l', obs)) :
    (obs = [] ∧ g' = g ∧ addArg l' = some x) ∨
    (obs = [.lp x, .ret none] ∧ l' = .idle ∧
      ∃ j, (l = .addAt x j ∨ l = .addCas x j (P.alg.view (cellAt g j))) ∧
        g'.cells = g.cells.set j (P.alg.add (cellAt g j) x) ∧ g'.applied = g.applied + x) := by
  cases sstep_of_step (t := t) hs <;> simp only [addArg, Option.some.injEq, reduceCtorEq] at hx
  case draw => subst hx; exact Or.inl ⟨rfl, rfl, addArg_drawn _ _ _⟩
  case addAt x' j => subst hx; exact Or.inr ⟨rfl, rfl, j, Or.inl rfl, rfl, rfl⟩
  case addLd => subst hx; exact Or.inl ⟨rfl, rfl, rfl⟩
  case casOk x' j old hc => subst hx; subst hc; exact Or.inr ⟨rfl, rfl, j, Or.inr rfl, rfl, rfl⟩
  case casFail => subst hx; exact Or.inl ⟨rfl, rfl, rfl⟩

/-- only a step of an `Add x` emits `lp x` -/
theorem lp_only_add {P : Params} {t : Tid} {g : SG} {l : SL} {a : SAct} {g' : SG} {l' : SL} {obs : List Obs} {x : Int}
    (hs : (M P).step t g l a = some (g', l', obs)) (hlp : Obs.lp x ∈ obs) : addArg l = some x := by
  cases sstep_of_step (t := t) hs <;> simp at hlp <;> subst hlp <;> rfl

/-- an operation that is not an `Add` never changes `applied`, and an `Add` is entered only by invoking it -/
theorem addArg_enter {P : Params} {t : Tid} {g : SG} {l : SL} {a : SAct} {g' : SG} {l' : SL} {obs : List Obs} {x : Int}
    (hs : (M P).step t g l a = some (g', l', obs)) (hl : addArg l = none) (hx : addArg l' = some x) :
    l = .idle ∧ a = .add x ∧ g' = g ∧ obs = [] := by
  cases sstep_of_step (t := t) hs
  case invAdd x' =>
    rw [addArg_entry] at hx
    cases hx; exact ⟨rfl, rfl, rfl, rfl⟩
  all_goals simp [addArg] at hl hx

/-- `atomic.AddInt64`: the one step of `addAt` is the effect step -/
theorem add_once_at {P : Params} {t : Tid} {g : SG} {x : Int} {j : Nat} :
    (M P).step t g (.addAt x j) .tau = some (applyAdd P g j x, .idle, [.lp x, .ret none]) := rfl

/-- CAS loop: the CAS succeeds iff the cell still shows the loaded value, and then it is the effect step -/
theorem add_once_cas_ok {P : Params} {t : Tid} {g : SG} {x : Int} {j : Nat} {old : Int}
    (h : P.alg.view (cellAt g j) = old) :
    (M P).step t g (.addCas x j old) .tau = some (applyAdd P g j x, .idle, [.lp x, .ret none]) :=
  step_of_sstep t (.casOk x j old h)

/-- CAS loop: a failed CAS changes nothing and goes back to the load -/
theorem add_once_cas_fail {P : Params} {t : Tid} {g : SG} {x : Int} {j : Nat} {old : Int}
    (h : P.alg.view (cellAt g j) ≠ old) :
    (M P).step t g (.addCas x j old) .tau = some (g, .addLd x j, []) :=
  step_of_sstep t (.casFail x j old h)

/-- every step changes the ghost `applied` by exactly the `lp`s it emits (any algebra, any operation) -/
theorem step_applied {P : Params} {t : Tid} {g : SG} {l : SL} {a : SAct} {g' : SG} {l' : SL} {obs : List Obs}
    (hs : (M P).step t g l a = some (g', l', obs)) : g'.applied = g.applied + lpSum obs := by
  cases sstep_of_step (t := t) hs <;> simp [lpSum, lpVal, applyAdd, setCell]

/-! ## Conservation for the integer algebra -/

/-- actions that invoke a maintenance operation -/
def isMaintAct : SAct → Bool
  | .reset | .sumAndReset | .store _ => true
  | _ => false

/-- program counters inside a maintenance operation -/
def inMaint : SL → Bool
  | .reset _ | .sarLd _ _ | .sarSt _ _ | .store _ _ => true
  | _ => false

theorem inMaint_entry (P : Params) (x : Int) :
    inMaint (if P.draws then .addDraw x else (if P.casLoop then .addLd x 0 else .addAt x 0)) = false := by
  cases P.draws <;> cases P.casLoop <;> rfl

theorem inMaint_drawn (P : Params) (x : Int) (j : Nat) :
    inMaint (if P.casLoop then .addLd x j else .addAt x j) = false := by
  cases P.casLoop <;> rfl

theorem total_applyAdd {P : Params} (hA : P.alg = intAlg) {g : SG} {j : Nat} (x : Int) (hj : j < g.cells.length) :
    total (applyAdd P g j x) = total g + x := by
  have hget : cellAt g j = (g.cells[j]?).getD 0 := rfl
  simp only [total, applyAdd, setCell, hA, intAlg]
  rw [ssum_set _ _ _ hj, hget]; omega

/-- **`sconserve`, one step.**  A step of an `Add` or a `Sum` (and the invocation of either) changes the
    exact cell total and the ghost `applied` by exactly the `lp`s it emits, and does not enter a
    maintenance operation.  Holds with `atomic.AddInt64` and with the CAS loop alike. -/
theorem sconserve_step {P : Params} (hA : P.alg = intAlg) {t : Tid} {g : SG} {l : SL} {a : SAct}
    {g' : SG} {l' : SL} {obs : List Obs} (hlen : g.cells.length = P.n) (hwf : sWf P l)
    (hm : inMaint l = false) (ha : isMaintAct a = false)
    (hs : (M P).step t g l a = some (g', l', obs)) :
    total g' = total g + lpSum obs ∧ g'.applied = g.applied + lpSum obs ∧ inMaint l' = false := by
  refine ⟨?_, step_applied hs, ?_⟩
  · cases sstep_of_step (t := t) hs <;> simp only [inMaint, isMaintAct, reduceCtorEq] at hm ha <;>
      simp only [lpSum, lpVal, Int.add_zero]
    case addAt x j => exact total_applyAdd hA x (by rw [hlen]; exact hwf.1)
    case casOk x j old _ => exact total_applyAdd hA x (by rw [hlen]; exact hwf.1)
  · cases sstep_of_step (t := t) hs
    case invAdd => exact inMaint_entry _ _
    case draw => exact inMaint_drawn _ _ _
    all_goals first | rfl | simp [inMaint, isMaintAct] at hm ha

/-! ### Along runs -/

theorem srun_cons_none {Mch : Machine} {c : Config Mch} {t : Tid} {a : Mch.Act} {rest : List (Tid × Mch.Act)}
    (h : Mch.step t c.g (c.l t) a = none) : run Mch c ((t, a) :: rest) = run Mch c rest := by
  simp only [run, h]

theorem srun_cons_some {Mch : Machine} {c : Config Mch} {t : Tid} {a : Mch.Act} {rest : List (Tid × Mch.Act)}
    {g' : Mch.G} {l' : Mch.L} {obs : List Mch.Obs} (h : Mch.step t c.g (c.l t) a = some (g', l', obs)) :
    run Mch c ((t, a) :: rest) =
      ((run Mch ⟨g', upd c.l t l'⟩ rest).1, obs.map (fun o => (t, o)) ++ (run Mch ⟨g', upd c.l t l'⟩ rest).2) := by
  simp only [run, h]

/-- forward induction along a run, for any machine: `Q lg c` relates the log emitted so far to the current
    configuration; `A` restricts the scheduled actions (same as `Garr.Queue.run_ind_gen`) -/
theorem srun_ind (Mch : Machine) (A : Tid → Mch.Act → Prop) (Q : List (Tid × Mch.Obs) → Config Mch → Prop)
    (hstep : ∀ lg c t a g' l' obs, Reach Mch c → Q lg c → A t a → Mch.step t c.g (c.l t) a = some (g', l', obs) →
      Q (lg ++ obs.map (fun o => (t, o))) ⟨g', upd c.l t l'⟩) :
    ∀ (s : List (Tid × Mch.Act)) (c : Config Mch) (lg : List (Tid × Mch.Obs)), Reach Mch c → Q lg c →
      (∀ e ∈ s, A e.1 e.2) → Q (lg ++ (run Mch c s).2) (run Mch c s).1 := by
  intro s
  induction s with
  | nil => intro c lg _ hP _; simpa [run] using hP
  | cons ta rest ih =>
    intro c lg hc hP hA
    obtain ⟨t, a⟩ := ta
    cases h : Mch.step t c.g (c.l t) a with
    | none =>
      rw [srun_cons_none h]
      exact ih c lg hc hP (fun e he => hA e (List.mem_cons_of_mem _ he))
    | some r =>
      obtain ⟨g', l', obs⟩ := r
      rw [srun_cons_some h]
      have h1 := hstep lg c t a g' l' obs hc hP (hA (t, a) (List.mem_cons_self ..)) h
      have h2 := ih _ _ (Reach.step hc h) h1 (fun e he => hA e (List.mem_cons_of_mem _ he))
      simpa [List.append_assoc] using h2

/-- the same for the simple-adder machine, with the types unfolded -/
theorem srun_ind' (P : Params) (A : Tid → SAct → Prop) (Q : List (Tid × Obs) → SG → (Tid → SL) → Prop)
    (hstep : ∀ (lg : List (Tid × Obs)) (g : SG) (ls : Tid → SL) (t : Tid) (a : SAct) (g' : SG) (l' : SL)
      (obs : List Obs), Reach (M P) ⟨g, ls⟩ → Q lg g ls → A t a → step P t g (ls t) a = some (g', l', obs) →
      Q (lg ++ obs.map (fun o => (t, o))) g' (upd ls t l'))
    (s : List (Tid × SAct)) (c : Config (M P)) (hc : Reach (M P) c) (hQ : Q [] c.g c.l) (hA : ∀ e ∈ s, A e.1 e.2) :
    Q (run (M P) c s).2 (run (M P) c s).1.g (run (M P) c s).1.l :=
  srun_ind (M P) A (fun lg c => Q lg c.g c.l)
    (fun lg c t a g' l' obs hr hp ha hs => hstep lg c.g c.l t a g' l' obs hr hp ha hs) s c [] hc hQ hA

theorem log_grow {a a' b : Int} {lg : List (Tid × Obs)} {obs : List Obs} (t : Tid)
    (hQ : a = b + lpSumLog lg) (h : a' = a + lpSum obs) :
    a' = b + lpSumLog (lg ++ obs.map (fun o => (t, o))) := by
  rw [lpSumLog_append, lpSumLog_tag]; omega

/-- the ghost `applied` is the sum of the `lp`s of the log: any parameters, any schedule (maintenance
    operations included — they do not touch `applied`) -/
theorem applied_run {P : Params} {c0 : Config (M P)} (hr : Reach (M P) c0) (s : List (Tid × SAct)) :
    SG.applied (run (M P) c0 s).1.g = SG.applied c0.g + lpSumLog (run (M P) c0 s).2 :=
  srun_ind' P (fun _ _ => True) (fun lg g _ => g.applied = SG.applied c0.g + lpSumLog lg)
    (fun _ _ _ t _ _ _ _ _ hQ _ hs => log_grow t hQ (step_applied (t := t) hs))
    s c0 hr (by simp [lpSumLog]) (fun _ _ => trivial)

/-- **`sconserve`, runs.**  From a reachable configuration in which no thread is inside a maintenance
    operation, along any schedule that invokes none, the exact cell total and the ghost `applied` both grow
    by exactly the sum of the `lp`s emitted — whatever the interleaving and every outcome of the random
    draws; and still no thread is inside a maintenance operation. -/
theorem sconserve {P : Params} (hA : P.alg = intAlg) (hn : 0 < P.n) {c0 : Config (M P)}
    (hr : Reach (M P) c0) (hq : ∀ t, inMaint (c0.l t) = false)
    (s : List (Tid × SAct)) (hs : ∀ e ∈ s, isMaintAct e.2 = false) :
    total (run (M P) c0 s).1.g = total c0.g + lpSumLog (run (M P) c0 s).2 ∧
    SG.applied (run (M P) c0 s).1.g = SG.applied c0.g + lpSumLog (run (M P) c0 s).2 ∧
    ∀ t, inMaint ((run (M P) c0 s).1.l t) = false :=
  srun_ind' P (fun _ a => isMaintAct a = false)
    (fun lg g ls => total g = total c0.g + lpSumLog lg ∧ g.applied = SG.applied c0.g + lpSumLog lg ∧
      ∀ t, inMaint (ls t) = false)
    (by
      intro lg g ls t a g' l' obs hrc hQ ha hst
      obtain ⟨h1, h2, h3⟩ := hQ
      have hI := sinv_reach P hn _ hrc
      obtain ⟨k1, k2, k3⟩ := sconserve_step hA (t := t) hI.len (hI.wf t) (h3 t) ha hst
      refine ⟨log_grow t h1 k1, log_grow t h2 k2, fun u => ?_⟩
      by_cases hu : u = t
      · subst hu; rw [upd_same]; exact k3
      · rw [upd_other _ _ _ _ hu]; exact h3 u)
    s c0 hr ⟨by simp [lpSumLog], by simp [lpSumLog], hq⟩ hs

/-- **`applied_eq_total`.**  As long as no maintenance operation has ever been invoked, the exact sum of the
    cells is the ghost `applied`, and both are the sum of the `lp`s of the log. -/
theorem applied_eq_total {P : Params} (hA : P.alg = intAlg) (hn : 0 < P.n)
    (s : List (Tid × SAct)) (hs : ∀ e ∈ s, isMaintAct e.2 = false) :
    total (run (M P) (Config.init (M P)) s).1.g = SG.applied (run (M P) (Config.init (M P)) s).1.g ∧
    SG.applied (run (M P) (Config.init (M P)) s).1.g = lpSumLog (run (M P) (Config.init (M P)) s).2 := by
  obtain ⟨h1, h2, _⟩ := sconserve hA hn Reach.init (fun _ => rfl) s hs
  have ht : total (Config.init (M P)).g = 0 := ssum_replicate_zero P.n
  have ha : SG.applied (Config.init (M P)).g = 0 := rfl
  rw [ht] at h1; rw [ha] at h2
  omega

/-! ### Invocation accounting: the `lp`s are the accepted `Add` invocations minus the pending ones -/

/-- the value contributed by an invocation step -/
def invVal : SL → SAct → Int
  | .idle, .add x => x
  | _, _ => 0

/-- the operand of a pending `Add` (0 if the thread is not inside one) -/
def pendX (l : SL) : Int := (addArg l).getD 0

/-- Σ x over the `Add x` invocations accepted along the schedule (from shared state `g`, locals `ls`) -/
def invokedSum (P : Params) : SG → (Tid → SL) → List (Tid × SAct) → Int
  | _, _, [] => 0
  | g, ls, (t, a) :: rest =>
    match step P t g (ls t) a with
    | none => invokedSum P g ls rest
    | some (g', l', _) => invVal (ls t) a + invokedSum P g' (upd ls t l') rest

/-- Σ of the pending operands of threads `< N` -/
def pendTo (l : Tid → SL) (N : Nat) : Int := sumTo (fun u => pendX (l u)) N

theorem pendX_entry (P : Params) (x : Int) :
    pendX (if P.draws then .addDraw x else (if P.casLoop then .addLd x 0 else .addAt x 0)) = x := by
  simp [pendX, addArg_entry]

theorem pendX_drawn (P : Params) (x : Int) (j : Nat) :
    pendX (if P.casLoop then .addLd x j else .addAt x j) = x := by
  simp [pendX, addArg_drawn]

theorem step_pending {P : Params} {t : Tid} {g : SG} {l : SL} {a : SAct} {g' : SG} {l' : SL} {obs : List Obs}
    (hs : (M P).step t g l a = some (g', l', obs)) : invVal l a + pendX l = lpSum obs + pendX l' := by
  cases sstep_of_step (t := t) hs
  case invAdd x => rw [pendX_entry]; simp [invVal, pendX, addArg, lpSum]
  case draw x w => rw [pendX_drawn]; simp [invVal, pendX, addArg, lpSum]
  all_goals simp [invVal, pendX, addArg, lpSum, lpVal]

theorem pendTo_upd (l : Tid → SL) (t : Tid) (l' : SL) (N : Nat) (ht : t < N) :
    pendTo (upd l t l') N = pendTo l N + (pendX l' - pendX (l t)) := by
  unfold pendTo
  rw [← sumTo_update (fun u => pendX (l u)) N t (pendX l' - pendX (l t)) ht]
  apply sumTo_congr
  intro k _
  unfold upd
  split
  · rename_i h; subst h; omega
  · rfl

theorem srun_none_eq {Mch : Machine} {c : Config Mch} {t : Tid} {a : Mch.Act} {rest : List (Tid × Mch.Act)}
    {r : Config Mch × List (Tid × Mch.Obs)}
    (h : Mch.step t c.g (c.l t) a = none) (hrun : run Mch c rest = r) : run Mch c ((t, a) :: rest) = r := by
  rw [srun_cons_none h, hrun]

theorem srun_some_eq {Mch : Machine} {c : Config Mch} {t : Tid} {a : Mch.Act} {rest : List (Tid × Mch.Act)}
    {g' : Mch.G} {l' : Mch.L} {obs : List Mch.Obs} {c2 : Config Mch} {lg2 : List (Tid × Mch.Obs)}
    (h : Mch.step t c.g (c.l t) a = some (g', l', obs)) (hrun : run Mch ⟨g', upd c.l t l'⟩ rest = (c2, lg2)) :
    run Mch c ((t, a) :: rest) = (c2, obs.map (fun o => (t, o)) ++ lg2) := by
  rw [srun_cons_some h, hrun]

/-- accounting along a run: accepted invocations + initially pending = `lp`s + finally pending -/
theorem invoked_run_raw {P : Params} (N : Nat) : ∀ (s : List (Tid × SAct)) (g : SG) (ls : Tid → SL),
    (∀ e ∈ s, e.1 < N) →
    ∃ (g' : SG) (ls' : Tid → SL) (lg : List (Tid × Obs)), run (M P) ⟨g, ls⟩ s = (⟨g', ls'⟩, lg) ∧
      invokedSum P g ls s + pendTo ls N = lpSumLog lg + pendTo ls' N := by
  intro s
  induction s with
  | nil => intro g ls _; exact ⟨g, ls, [], rfl, by simp [invokedSum, lpSumLog]⟩
  | cons ta rest ih =>
    intro g ls hN
    obtain ⟨t, a⟩ := ta
    have ht : t < N := hN (t, a) (List.mem_cons_self ..)
    have hrest : ∀ e ∈ rest, e.1 < N := fun e he => hN e (List.mem_cons_of_mem _ he)
    cases h : step P t g (ls t) a with
    | none =>
      obtain ⟨g2, ls2, lg2, hrun, hacc⟩ := ih g ls hrest
      refine ⟨g2, ls2, lg2, srun_none_eq (Mch := M P) (c := ⟨g, ls⟩) h hrun, ?_⟩
      simp only [invokedSum, h]
      exact hacc
    | some r =>
      obtain ⟨g', l', obs⟩ := r
      obtain ⟨g2, ls2, lg2, hrun, hacc⟩ := ih g' (upd ls t l') hrest
      refine ⟨g2, ls2, obs.map (fun o => (t, o)) ++ lg2, srun_some_eq (Mch := M P) (c := ⟨g, ls⟩) h hrun, ?_⟩
      simp only [invokedSum, h]
      have h2 := step_pending (t := t) h
      have h3 := pendTo_upd ls t l' N ht
      rw [lpSumLog_append, lpSumLog_tag]
      omega

theorem invoked_run {P : Params} (N : Nat) (s : List (Tid × SAct)) (c : Config (M P)) (hN : ∀ e ∈ s, e.1 < N) :
    invokedSum P c.g c.l s + pendTo c.l N = lpSumLog (run (M P) c s).2 + pendTo (run (M P) c s).1.l N := by
  obtain ⟨g', ls', lg, hrun, hacc⟩ := invoked_run_raw (P := P) N s c.g c.l hN
  have hrun' : run (M P) c s = (⟨g', ls'⟩, lg) := hrun
  rw [hrun']
  exact hacc

theorem exists_tid_bound (s : List (Tid × SAct)) : ∃ N, ∀ e ∈ s, e.1 < N := by
  induction s with
  | nil => exact ⟨0, fun _ h => by simp at h⟩
  | cons e r ih =>
    obtain ⟨N, hN⟩ := ih
    refine ⟨max N (e.1 + 1), fun e' he' => ?_⟩
    rcases List.mem_cons.mp he' with rfl | h
    · exact Nat.lt_of_lt_of_le (Nat.lt_succ_self _) (Nat.le_max_right _ _)
    · exact Nat.lt_of_lt_of_le (hN e' h) (Nat.le_max_left _ _)

theorem pendTo_noadd (l : Tid → SL) (N : Nat) (h : ∀ u, addArg (l u) = none) : pendTo l N = 0 := by
  unfold pendTo
  induction N with
  | zero => rfl
  | succ N ih =>
    have hN : pendX (l N) = 0 := by unfold pendX; rw [h N]; rfl
    simp only [sumTo, ih, hN]; rfl

/-- between two configurations in which no `Add` is in flight, the `lp`s of the log add up to exactly the
    operands of the `Add` invocations that were accepted in between: every `Add` took effect exactly once -/
theorem lp_eq_invoked_from {P : Params} (c0 : Config (M P)) (s : List (Tid × SAct))
    (hq0 : ∀ u, addArg (c0.l u) = none) (hq : ∀ u, addArg ((run (M P) c0 s).1.l u) = none) :
    lpSumLog (run (M P) c0 s).2 = invokedSum P c0.g c0.l s := by
  obtain ⟨N, hN⟩ := exists_tid_bound s
  have h := invoked_run (P := P) N s c0 hN
  have h1 : pendTo (run (M P) c0 s).1.l N = 0 := pendTo_noadd _ N hq
  have h2 : pendTo c0.l N = 0 := pendTo_noadd _ N hq0
  rw [h1, h2] at h
  omega

/-- Σ x over the `Add x` invocations accepted along a schedule run from the initial configuration -/
def invoked (P : Params) (s : List (Tid × SAct)) : Int :=
  invokedSum P { cells := List.replicate P.n 0 } (fun _ => SL.idle) s

/-- … in particular from the initial configuration -/
theorem lp_eq_invoked {P : Params} (s : List (Tid × SAct))
    (hq : ∀ u, addArg ((run (M P) (Config.init (M P)) s).1.l u) = none) :
    lpSumLog (run (M P) (Config.init (M P)) s).2 = invoked P s :=
  lp_eq_invoked_from (Config.init (M P)) s (fun _ => rfl) hq

/-! ## Solo runs from an all-idle configuration (C02 read, C16 maintenance) -/

/-- `k` `.tau` steps of thread `t` of the simple adder -/
abbrev STau (P : Params) (t : Tid) (k : Nat) (g : SG) (l : SL) (g' : SG) (l' : SL) (obs : List Obs) : Prop :=
  TauN (M P) SAct.tau t k g l g' l' obs

theorem STau.step1 {P : Params} {t : Tid} {g g1 : SG} {l l1 : SL} {o1 : List Obs}
    (h : SStep P g l .tau g1 l1 o1) : STau P t 1 g l g1 l1 o1 :=
  TauN.one (Mch := M P) (step_of_sstep t h)

/-- prepend a silent step -/
theorem STau.cons {P : Params} {t : Tid} {k : Nat} {g g1 g2 : SG} {l l1 l2 : SL} {o2 : List Obs}
    (h : SStep P g l .tau g1 l1 []) (h2 : STau P t k g1 l1 g2 l2 o2) : STau P t (k + 1) g l g2 l2 o2 :=
  TauN.succ (Mch := M P) (o1 := []) (step_of_sstep t h) h2

theorem wrap_sacc {P : Params} (hA : P.alg = intAlg) (g : SG) (cells0 : List Int) (i : Nat) (acc : Int)
    (hcell : cellAt g i = (cells0[i]?).getD 0)
    (h : i = 0 ∨ wrap64 acc = wrap64 (cells0.take i).sum) :
    wrap64 (sacc P g i acc) = wrap64 (cells0.take (i + 1)).sum := by
  unfold sacc
  rw [hA, ssum_take_succ, ← hcell]
  simp only [intAlg]
  split
  · rename_i h0; subst h0
    rw [wrap64_idem]; simp
  · rename_i h0
    rcases h with h | h
    · exact absurd h h0
    · rw [wrap64_add']; exact wrap64_congr_add h _

theorem view_int {P : Params} (hA : P.alg = intAlg) (x : Int) : P.alg.view x = wrap64 x := by rw [hA]; rfl

theorem sum_loop_simple {P : Params} (hA : P.alg = intAlg) (t : Tid) (g : SG) (hlen : g.cells.length = P.n) :
    ∀ (k i : Nat) (acc : Int), i + k + 1 = P.n → (i = 0 ∨ wrap64 acc = wrap64 (g.cells.take i).sum) →
      STau P t (k + 1) g (.sum i acc) g .idle [.ret (some (wrap64 (total g)))] := by
  intro k
  induction k with
  | zero =>
    intro i acc hi hacc
    have h := STau.step1 (t := t) (SStep.sumRet (P := P) (g := g) i acc (by omega))
    have e : P.alg.view (sacc P g i acc) = wrap64 (total g) := by
      rw [view_int hA, wrap_sacc hA g g.cells i acc rfl hacc,
        List.take_of_length_le (by omega)]
      rfl
    rw [e] at h
    exact h
  | succ k ih =>
    intro i acc hi hacc
    exact STau.cons (SStep.sumNext i acc (by omega))
      (ih (i + 1) _ (by omega) (Or.inr (wrap_sacc hA g g.cells i acc rfl hacc)))

/-- a thread that was idle, ran an operation alone and is idle again: the locals are as they were -/
theorem solo_back {P : Params} {l : Tid → SL} (t : Tid) (hidle : l t = .idle)
    {g1 g' : SG} {l1 : SL} {k : Nat} {obs : List Obs} (hrun : STau P t k g1 l1 g' .idle obs) :
    soloRun (M P) SAct.tau t k ⟨g1, upd l t l1⟩ = (⟨g', l⟩, obs) := by
  rw [soloRun_of_TauN hrun g1 (upd l t l1) rfl (upd_same _ _ _)]
  exact solo_result_eq rfl (upd_back l t _ _ hidle) rfl

theorem sum_solo_raw_simple {P : Params} (hA : P.alg = intAlg) (hn : 0 < P.n) {g : SG} {l : Tid → SL}
    (hlen : g.cells.length = P.n) (t : Tid) (hidle : l t = .idle) :
    step P t g (l t) .sum = some (g, .sum 0 0, []) ∧
      soloRun (M P) SAct.tau t P.n ⟨g, upd l t (.sum 0 0)⟩ = (⟨g, l⟩, [.ret (some (wrap64 (total g)))]) := by
  refine ⟨by rw [hidle]; rfl, ?_⟩
  have h := sum_loop_simple hA t g hlen (P.n - 1) 0 0 (by omega) (Or.inl rfl)
  have e : P.n - 1 + 1 = P.n := by omega
  rw [e] at h
  exact solo_back t hidle h

/-- **C02 / C16, `Sum`.**  From a reachable configuration, `Sum` run alone by an idle thread `t` (whatever the
    other threads are in the middle of — they do not move) returns `wrap64 (total g)` after exactly `n`
    steps and restores the configuration. -/
theorem sum_solo_simple {P : Params} (hA : P.alg = intAlg) (hn : 0 < P.n) {c : Config (M P)}
    (hr : Reach (M P) c) (t : Tid) (hidle : c.l t = SL.idle) :
    (M P).step t c.g (c.l t) SAct.sum = some (c.g, SL.sum 0 0, []) ∧
      soloRun (M P) SAct.tau t P.n ⟨c.g, upd c.l t (SL.sum 0 0)⟩ =
        (c, [Obs.ret (some (wrap64 (total c.g)))]) :=
  sum_solo_raw_simple hA hn (sinv_reach P hn c hr).len t hidle

/-! ### Maintenance loops -/

/-- cells `< i` hold `f` -/
def filled (f : Nat → Int) (g : SG) (i : Nat) : Prop := ∀ j, j < i → g.cells[j]? = some (f j)

theorem filled_set {f : Nat → Int} {g : SG} {i : Nat} (hi : i < g.cells.length) (h : filled f g i) :
    filled f (setCell g i (f i)) (i + 1) := by
  intro j hj
  show (g.cells.set i (f i))[j]? = _
  by_cases e : i = j
  · subst e; exact List.getElem?_set_self hi
  · rw [List.getElem?_set_ne e]; exact h j (by omega)

theorem cells_of_filled {f : Nat → Int} {l T : List Int} (hl : l.length = T.length)
    (h : ∀ j, j < T.length → l[j]? = some (f j)) (hT : ∀ j, j < T.length → T[j]? = some (f j)) : l = T := by
  apply List.ext_getElem?
  intro j
  by_cases hj : j < T.length
  · rw [h j hj, hT j hj]
  · rw [List.getElem?_eq_none (by omega), List.getElem?_eq_none (by omega)]

/-- what `Store v` leaves in cell `j` -/
def storeVal (v : Int) (j : Nat) : Int := if j = 0 then v else 0

theorem store_cells {n : Nat} (hn : 0 < n) (v : Int) {l : List Int} (hl : l.length = n)
    (h : ∀ j, j < n → l[j]? = some (storeVal v j)) : l = v :: List.replicate (n - 1) 0 := by
  have hT : (v :: List.replicate (n - 1) (0 : Int)).length = n := by simp; omega
  refine cells_of_filled (f := storeVal v) (by rw [hl, hT]) (by rw [hT]; exact h) ?_
  rw [hT]
  intro j hj
  cases j with
  | zero => rfl
  | succ j => simp [storeVal, List.getElem?_replicate]; omega

theorem zero_cells {n : Nat} {l : List Int} (hl : l.length = n)
    (h : ∀ j, j < n → l[j]? = some ((fun _ => (0 : Int)) j)) : l = List.replicate n 0 := by
  have hT : (List.replicate n (0 : Int)).length = n := by simp
  refine cells_of_filled (f := fun _ => 0) (by rw [hl, hT]) (by rw [hT]; exact h) ?_
  rw [hT]
  intro j hj
  simp [hj]

theorem store_loop_simple {P : Params} (t : Tid) (v : Int) :
    ∀ (k i : Nat) (g : SG), i + k + 1 = P.n → g.cells.length = P.n → filled (storeVal v) g i →
      ∃ g', STau P t (k + 1) g (.store i v) g' .idle [.ret none] ∧ g'.cells.length = P.n ∧
        filled (storeVal v) g' P.n ∧ g'.applied = g.applied := by
  intro k
  induction k with
  | zero =>
    intro i g hi hlen hf
    refine ⟨setCell g i (storeVal v i), STau.step1 (SStep.storeRet i v (by omega)), ?_, ?_, rfl⟩
    · rw [length_setCell, hlen]
    · have := filled_set (f := storeVal v) (i := i) (by omega) hf
      rwa [show i + 1 = P.n by omega] at this
  | succ k ih =>
    intro i g hi hlen hf
    obtain ⟨g', h1, h2, h3, h4⟩ := ih (i + 1) (setCell g i (storeVal v i)) (by omega)
      (by rw [length_setCell, hlen]) (filled_set (by omega) hf)
    exact ⟨g', STau.cons (SStep.storeNext i v (by omega)) h1, h2, h3, h4⟩

theorem reset_loop_simple {P : Params} (t : Tid) :
    ∀ (k i : Nat) (g : SG), i + k + 1 = P.n → g.cells.length = P.n → filled (fun _ => 0) g i →
      ∃ g', STau P t (k + 1) g (.reset i) g' .idle [.ret none] ∧ g'.cells.length = P.n ∧
        filled (fun _ => 0) g' P.n ∧ g'.applied = g.applied := by
  intro k
  induction k with
  | zero =>
    intro i g hi hlen hf
    refine ⟨setCell g i 0, STau.step1 (SStep.resetRet i (by omega)), ?_, ?_, rfl⟩
    · rw [length_setCell, hlen]
    · have := filled_set (f := fun _ => 0) (i := i) (by omega) hf
      rwa [show i + 1 = P.n by omega] at this
  | succ k ih =>
    intro i g hi hlen hf
    obtain ⟨g', h1, h2, h3, h4⟩ := ih (i + 1) (setCell g i 0) (by omega)
      (by rw [length_setCell, hlen]) (filled_set (f := fun _ => 0) (by omega) hf)
    exact ⟨g', STau.cons (SStep.resetNext i (by omega)) h1, h2, h3, h4⟩

theorem cellAt_setCell_ne (g : SG) {i j : Nat} (v : Int) (h : i ≠ j) : (setCell g i v).cells[j]? = g.cells[j]? :=
  List.getElem?_set_ne h

theorem sar_loop_simple {P : Params} (hA : P.alg = intAlg) (t : Tid) (g0 : SG) :
    ∀ (k i : Nat) (acc : Int) (g : SG), i + k + 1 = P.n → g.cells.length = P.n → filled (fun _ => 0) g i →
      (∀ j, i ≤ j → g.cells[j]? = g0.cells[j]?) → (i = 0 ∨ wrap64 acc = wrap64 (g0.cells.take i).sum) →
      ∃ g', STau P t (2 * (k + 1)) g (.sarLd i acc) g' .idle
          [.ret (some (wrap64 (g0.cells.take P.n).sum))] ∧
        g'.cells.length = P.n ∧ filled (fun _ => 0) g' P.n ∧ g'.applied = g.applied := by
  intro k
  induction k with
  | zero =>
    intro i acc g hi hlen hf hrest hacc
    have hcell : cellAt g i = (g0.cells[i]?).getD 0 := by unfold cellAt; rw [hrest i (Nat.le_refl _)]
    have h1 : SStep P g (.sarLd i acc) .tau g (.sarSt i (sacc P g i acc)) [] := .sarLd i acc
    have h2 := STau.step1 (t := t) (SStep.sarStRet (P := P) (g := g) i (sacc P g i acc) (by omega))
    have e : P.alg.view (sacc P g i acc) = wrap64 (g0.cells.take P.n).sum := by
      rw [view_int hA, wrap_sacc hA g g0.cells i acc hcell hacc, show i + 1 = P.n by omega]
    rw [e] at h2
    refine ⟨setCell g i 0, STau.cons h1 h2, ?_, ?_, rfl⟩
    · rw [length_setCell, hlen]
    · have := filled_set (f := fun _ => 0) (i := i) (by omega) hf
      rwa [show i + 1 = P.n by omega] at this
  | succ k ih =>
    intro i acc g hi hlen hf hrest hacc
    have hcell : cellAt g i = (g0.cells[i]?).getD 0 := by unfold cellAt; rw [hrest i (Nat.le_refl _)]
    have h1 : SStep P g (.sarLd i acc) .tau g (.sarSt i (sacc P g i acc)) [] := .sarLd i acc
    have h2 : SStep P g (.sarSt i (sacc P g i acc)) .tau (setCell g i 0) (.sarLd (i + 1) (sacc P g i acc)) [] :=
      .sarStNext i _ (by omega)
    obtain ⟨g', k1, k2, k3, k4⟩ := ih (i + 1) (sacc P g i acc) (setCell g i 0) (by omega)
      (by rw [length_setCell, hlen]) (filled_set (f := fun _ => 0) (by omega) hf)
      (fun j hj => by rw [cellAt_setCell_ne g 0 (by omega)]; exact hrest j (by omega))
      (Or.inr (wrap_sacc hA g g0.cells i acc hcell hacc))
    have e : 2 * (k + 1 + 1) = 2 * (k + 1) + 1 + 1 := by omega
    rw [e]
    exact ⟨g', STau.cons h1 (STau.cons h2 k1), k2, k3, k4⟩

/-- a solo run that ends all-idle ends in a reachable configuration -/
theorem solo_end_reach {P : Params} {c : Config (M P)} (hr : Reach (M P) c) {t : Tid} {a : SAct} {l1 : SL}
    {k : Nat} {g' : SG} {obs : List Obs}
    (hs : (M P).step t c.g (c.l t) a = some (c.g, l1, []))
    (hrun : soloRun (M P) SAct.tau t k ⟨c.g, upd c.l t l1⟩ = (⟨g', c.l⟩, obs)) : Reach (M P) ⟨g', c.l⟩ := by
  have h1 : Reach (M P) ⟨c.g, upd c.l t l1⟩ := Reach.step hr hs
  have := reach_soloRun (M P) SAct.tau (t := t) k h1
  rw [hrun] at this
  exact this

theorem total_store_cells (n : Nat) (v : Int) : (v :: List.replicate n (0 : Int)).sum = v := by
  rw [List.sum_cons, ssum_replicate_zero]; omega

theorem store_solo_raw_simple {P : Params} (hn : 0 < P.n) {g : SG} {l : Tid → SL}
    (hlen : g.cells.length = P.n) (hidle : ∀ u, l u = .idle) (t : Tid) (v : Int) :
    step P t g (l t) (.store v) = some (g, .store 0 v, []) ∧
      ∃ g', soloRun (M P) SAct.tau t P.n ⟨g, upd l t (.store 0 v)⟩ = (⟨g', l⟩, [.ret none]) ∧
        g'.cells = v :: List.replicate (P.n - 1) 0 ∧ total g' = v ∧ g'.applied = g.applied := by
  refine ⟨by rw [hidle t]; rfl, ?_⟩
  obtain ⟨g', h1, h2, h3, h4⟩ := store_loop_simple (P := P) t v (P.n - 1) 0 g (by omega) hlen
    (fun j hj => absurd hj (Nat.not_lt_zero j))
  rw [show P.n - 1 + 1 = P.n by omega] at h1
  have hc := store_cells hn v h2 h3
  exact ⟨g', solo_back t (hidle t) h1, hc, by unfold total; rw [hc, total_store_cells], h4⟩

theorem reset_solo_raw_simple {P : Params} (hn : 0 < P.n) {g : SG} {l : Tid → SL}
    (hlen : g.cells.length = P.n) (hidle : ∀ u, l u = .idle) (t : Tid) :
    step P t g (l t) .reset = some (g, .reset 0, []) ∧
      ∃ g', soloRun (M P) SAct.tau t P.n ⟨g, upd l t (.reset 0)⟩ = (⟨g', l⟩, [.ret none]) ∧
        g'.cells = List.replicate P.n 0 ∧ total g' = 0 ∧ g'.applied = g.applied := by
  refine ⟨by rw [hidle t]; rfl, ?_⟩
  obtain ⟨g', h1, h2, h3, h4⟩ := reset_loop_simple (P := P) t (P.n - 1) 0 g (by omega) hlen
    (fun j hj => absurd hj (Nat.not_lt_zero j))
  rw [show P.n - 1 + 1 = P.n by omega] at h1
  have hc := zero_cells h2 h3
  exact ⟨g', solo_back t (hidle t) h1, hc, by unfold total; rw [hc, ssum_replicate_zero], h4⟩

theorem sumAndReset_solo_raw_simple {P : Params} (hA : P.alg = intAlg) (hn : 0 < P.n) {g : SG} {l : Tid → SL}
    (hlen : g.cells.length = P.n) (hidle : ∀ u, l u = .idle) (t : Tid) :
    step P t g (l t) .sumAndReset = some (g, .sarLd 0 0, []) ∧
      ∃ g', soloRun (M P) SAct.tau t (2 * P.n) ⟨g, upd l t (.sarLd 0 0)⟩ =
          (⟨g', l⟩, [.ret (some (wrap64 (total g)))]) ∧
        g'.cells = List.replicate P.n 0 ∧ total g' = 0 ∧ g'.applied = g.applied := by
  refine ⟨by rw [hidle t]; rfl, ?_⟩
  obtain ⟨g', h1, h2, h3, h4⟩ := sar_loop_simple hA t g (P.n - 1) 0 0 g (by omega) hlen
    (fun j hj => absurd hj (Nat.not_lt_zero j)) (fun _ _ => rfl) (Or.inl rfl)
  rw [show P.n - 1 + 1 = P.n by omega, List.take_of_length_le (by omega)] at h1
  have hc := zero_cells h2 h3
  exact ⟨g', solo_back t (hidle t) h1, hc, by unfold total; rw [hc, ssum_replicate_zero], h4⟩

/-- **C16, `Store`.**  From a reachable all-idle configuration, `Store v` run alone takes exactly `n` steps
    and ends in a reachable all-idle configuration whose cells are `v, 0, …, 0` — exact total `v`.
    (The ghost `applied` tracks updates only and is not touched.) -/
theorem store_solo_simple {P : Params} (hn : 0 < P.n) {c : Config (M P)} (hr : Reach (M P) c)
    (hidle : ∀ u, c.l u = SL.idle) (t : Tid) (v : Int) :
    (M P).step t c.g (c.l t) (SAct.store v) = some (c.g, SL.store 0 v, []) ∧
      ∃ c', soloRun (M P) SAct.tau t P.n ⟨c.g, upd c.l t (SL.store 0 v)⟩ = (c', [Obs.ret none]) ∧
        Reach (M P) c' ∧ (∀ u, c'.l u = SL.idle) ∧
        SG.cells c'.g = v :: List.replicate (P.n - 1) 0 ∧ total c'.g = v ∧ SG.applied c'.g = SG.applied c.g := by
  obtain ⟨hs, g', hrun, h1, h2, h3⟩ := store_solo_raw_simple hn (sinv_reach P hn c hr).len hidle t v
  exact ⟨hs, ⟨g', c.l⟩, hrun, solo_end_reach hr hs hrun, hidle, h1, h2, h3⟩

/-- **C16, `Reset`.**  Run alone from a reachable all-idle configuration: `n` steps, all cells zero afterwards. -/
theorem reset_solo_simple {P : Params} (hn : 0 < P.n) {c : Config (M P)} (hr : Reach (M P) c)
    (hidle : ∀ u, c.l u = SL.idle) (t : Tid) :
    (M P).step t c.g (c.l t) SAct.reset = some (c.g, SL.reset 0, []) ∧
      ∃ c', soloRun (M P) SAct.tau t P.n ⟨c.g, upd c.l t (SL.reset 0)⟩ = (c', [Obs.ret none]) ∧
        Reach (M P) c' ∧ (∀ u, c'.l u = SL.idle) ∧
        SG.cells c'.g = List.replicate P.n 0 ∧ total c'.g = 0 ∧ SG.applied c'.g = SG.applied c.g := by
  obtain ⟨hs, g', hrun, h1, h2, h3⟩ := reset_solo_raw_simple hn (sinv_reach P hn c hr).len hidle t
  exact ⟨hs, ⟨g', c.l⟩, hrun, solo_end_reach hr hs hrun, hidle, h1, h2, h3⟩

/-- **C16, `SumAndReset`.**  Run alone from a reachable all-idle configuration: `2n` steps, returns
    `wrap64 (total g)` and leaves all cells zero. -/
theorem sumAndReset_solo_simple {P : Params} (hA : P.alg = intAlg) (hn : 0 < P.n) {c : Config (M P)}
    (hr : Reach (M P) c) (hidle : ∀ u, c.l u = SL.idle) (t : Tid) :
    (M P).step t c.g (c.l t) SAct.sumAndReset = some (c.g, SL.sarLd 0 0, []) ∧
      ∃ c', soloRun (M P) SAct.tau t (2 * P.n) ⟨c.g, upd c.l t (SL.sarLd 0 0)⟩ =
          (c', [Obs.ret (some (wrap64 (total c.g)))]) ∧
        Reach (M P) c' ∧ (∀ u, c'.l u = SL.idle) ∧
        SG.cells c'.g = List.replicate P.n 0 ∧ total c'.g = 0 ∧ SG.applied c'.g = SG.applied c.g := by
  obtain ⟨hs, g', hrun, h1, h2, h3⟩ := sumAndReset_solo_raw_simple hA hn (sinv_reach P hn c hr).len hidle t
  exact ⟨hs, ⟨g', c.l⟩, hrun, solo_end_reach hr hs hrun, hidle, h1, h2, h3⟩

/-! ### `Add` run alone, and solo runs as schedules -/

/-- the schedule of one `Add x` by thread `t` running alone: invocation, the random draw (outcome `w`) if the
    variant draws, then the `atomic.AddInt64` — or, for the CAS loop, the load and the CAS -/
def addSched (P : Params) (t : Tid) (x : Int) (w : Nat) : List (Tid × SAct) :=
  (t, .add x) :: ((if P.draws then [(t, .rnd w)] else []) ++
    (if P.casLoop then [(t, .tau), (t, .tau)] else [(t, .tau)]))

theorem srun_step {P : Params} {g : SG} {ls : Tid → SL} {t : Tid} {a : SAct} {rest : List (Tid × SAct)}
    {g' : SG} {l' : SL} {obs : List Obs} {c2 : Config (M P)} {lg2 : List (Tid × Obs)}
    (h : SStep P g (ls t) a g' l' obs) (hrun : run (M P) ⟨g', upd ls t l'⟩ rest = (c2, lg2)) :
    run (M P) ⟨g, ls⟩ ((t, a) :: rest) = (c2, obs.map (fun o => (t, o)) ++ lg2) :=
  srun_some_eq (Mch := M P) (c := ⟨g, ls⟩) (step_of_sstep t h) hrun

theorem cfg_pair_eq {Mch : Machine} {β : Type} {g g' : Mch.G} {l l' : Tid → Mch.L} {o o' : β}
    (hg : g = g') (hl : l = l') (ho : o = o') : ((⟨g, l⟩ : Config Mch), o) = (⟨g', l'⟩, o') := by
  subst hg hl ho; rfl

/-- from the state reached after the invocation (and the draw): the effect phase of an `Add` run alone -/
theorem add_effect_solo {P : Params} (g : SG) (ls : Tid → SL) (t : Tid) (x : Int) (j : Nat)
    (hl : ls t = if P.casLoop then .addLd x j else .addAt x j) :
    run (M P) ⟨g, ls⟩ (if P.casLoop then [(t, .tau), (t, .tau)] else [(t, .tau)]) =
      (⟨applyAdd P g j x, upd ls t .idle⟩, [(t, .lp x), (t, .ret none)]) := by
  cases hc : P.casLoop
  · rw [hc] at hl
    have e : SStep P g (ls t) .tau (applyAdd P g j x) .idle [.lp x, .ret none] := by
      rw [hl]; exact .addAt x j
    exact srun_step (rest := []) e rfl
  · rw [hc] at hl
    have e1 : SStep P g (ls t) .tau g (.addCas x j (P.alg.view (cellAt g j))) [] := by
      rw [hl]; exact .addLd x j
    have e2 : SStep P g (upd ls t (.addCas x j (P.alg.view (cellAt g j))) t) .tau (applyAdd P g j x) .idle
        [.lp x, .ret none] := by
      rw [upd_same]; exact .casOk x j _ rfl
    have h2 : run (M P) ⟨g, upd ls t (.addCas x j (P.alg.view (cellAt g j)))⟩ [(t, .tau)] = _ :=
      srun_step (rest := []) e2 rfl
    exact (srun_step e1 h2).trans (cfg_pair_eq rfl (upd_upd _ _ _ _) rfl)

theorem add_solo_raw {P : Params} (hn : 0 < P.n) (g : SG) (ls : Tid → SL) (t : Tid) (ht : ls t = SL.idle)
    (x : Int) (w : Nat) :
    ∃ j, j < P.n ∧
      run (M P) ⟨g, ls⟩ (addSched P t x w) = (⟨applyAdd P g j x, ls⟩, [(t, Obs.lp x), (t, Obs.ret none)]) := by
  unfold addSched
  cases hd : P.draws
  · refine ⟨0, hn, ?_⟩
    have e1 : SStep P g (ls t) (.add x) g (if P.casLoop then .addLd x 0 else .addAt x 0) [] := by
      rw [ht]; have := SStep.invAdd (P := P) (g := g) x; rw [hd] at this; exact this
    have h2 := add_effect_solo (P := P) g (upd ls t (if P.casLoop then .addLd x 0 else .addAt x 0)) t x 0
      (upd_same _ _ _)
    exact (srun_step e1 h2).trans (cfg_pair_eq rfl (upd_back _ _ _ _ ht) rfl)
  · refine ⟨rint w % P.n, Nat.mod_lt _ hn, ?_⟩
    have e1 : SStep P g (ls t) (.add x) g (.addDraw x) [] := by
      rw [ht]; have := SStep.invAdd (P := P) (g := g) x; rw [hd] at this; exact this
    have e2 : SStep P g (upd ls t (.addDraw x) t) (.rnd w) g
        (if P.casLoop then .addLd x (rint w % P.n) else .addAt x (rint w % P.n)) [] := by
      rw [upd_same]; exact .draw x w
    have h3 := add_effect_solo (P := P) g
      (upd (upd ls t (.addDraw x)) t (if P.casLoop then .addLd x (rint w % P.n) else .addAt x (rint w % P.n)))
      t x (rint w % P.n) (upd_same _ _ _)
    have hb : ∀ (a b : SL), upd (upd (upd ls t a) t b) t SL.idle = ls := by
      intro a b; rw [upd_upd, upd_back _ _ _ _ ht]
    exact (srun_step e1 (srun_step e2 h3)).trans (cfg_pair_eq rfl (hb _ _) rfl)

/-- **`Add` run alone** (any value algebra): from a configuration in which `t` is idle, the schedule
    `addSched P t x w` applies `alg.add · x` to one cell `j < n` (cell `rint w % n` if the variant draws, cell 0
    otherwise), emits `lp x` and the response, and leaves every thread's locals as they were. -/
theorem add_solo_simple {P : Params} (hn : 0 < P.n) (c : Config (M P)) (t : Tid) (ht : c.l t = SL.idle)
    (x : Int) (w : Nat) :
    ∃ j, j < P.n ∧
      run (M P) c (addSched P t x w) = (⟨applyAdd P c.g j x, c.l⟩, [(t, Obs.lp x), (t, Obs.ret none)]) :=
  add_solo_raw hn c.g c.l t ht x w

/-- a solo run is the run of the schedule that gives `t` `k` consecutive `tau`s (any machine) -/
theorem run_replicate_tau (Mch : Machine) (tau : Mch.Act) (t : Tid) : ∀ (k : Nat) (c : Config Mch),
    run Mch c (List.replicate k (t, tau)) =
      ((soloRun Mch tau t k c).1, (soloRun Mch tau t k c).2.map (fun o => (t, o))) := by
  intro k
  induction k with
  | zero => intro c; rfl
  | succ k ih =>
    intro c
    rw [List.replicate_succ]
    cases h : Mch.step t c.g (c.l t) tau with
    | none =>
      have e : soloTau Mch tau t c = (c, []) := by simp only [soloTau, h]
      rw [srun_cons_none h, ih c]
      simp only [soloRun, e, List.nil_append]
    | some r =>
      obtain ⟨g', l', obs⟩ := r
      have e : soloTau Mch tau t c = (⟨g', upd c.l t l'⟩, obs) := by simp only [soloTau, h]
      rw [srun_cons_some h, ih _]
      simp only [soloRun, e, List.map_append]

/-- an operation invoked by `t` (silent invocation step) followed by `k` solo steps, as a schedule -/
theorem run_invoke_solo {P : Params} {c : Config (M P)} {t : Tid} {a : SAct} {l1 : SL} {k : Nat}
    {c' : Config (M P)} {obs : List Obs}
    (hs : (M P).step t c.g (c.l t) a = some (c.g, l1, []))
    (hrun : soloRun (M P) SAct.tau t k ⟨c.g, upd c.l t l1⟩ = (c', obs)) :
    run (M P) c ((t, a) :: List.replicate k (t, SAct.tau)) = (c', obs.map (fun o => (t, o))) := by
  have h := run_replicate_tau (M P) SAct.tau t k ⟨c.g, upd c.l t l1⟩
  rw [hrun] at h
  exact srun_some_eq (Mch := M P) hs h

end Garr.Adder.Simple
