import Garr.Adder.Model
/-!
# The simple adder variants: `AtomicAdder`, `RandomCellAdder`, `AtomicF64Adder` (adder/*.go)

One machine, parametrised: `n` cells (1 or 128), whether `Add` draws a random cell index, whether `Add` is an
`atomic.AddInt64` or a load/CAS retry loop (float twin), and the value algebra `Alg` (see `Garr.Adder.Alg`).
`Sum` reads every cell, `Reset` stores 0 in every cell, `SumAndReset` reads then zeroes each cell in turn,
`Store v` stores `v` in cell 0 and 0 elsewhere — exactly the loops of the Go code, one atomic access per step.
-/
namespace Garr.Adder.Simple
open Garr.Conc Garr.Adder

structure Params where
  n : Nat
  draws : Bool
  casLoop : Bool
  alg : Alg

def atomicP : Params := ⟨1, false, false, intAlg⟩
def randomCellP : Params := ⟨128, true, false, intAlg⟩
def atomicF64P : Params := ⟨1, false, true, floatAlg⟩

structure SG where
  cells : List Int
  applied : Int := 0        -- ghost: Σ x over updates that have taken effect

inductive SL
  | idle
  | addDraw (x : Int)                       -- about to draw the cell index
  | addAt (x : Int) (j : Nat)               -- atomic.AddInt64(&cells[j], x)
  | addLd (x : Int) (j : Nat)               -- CAS loop: load
  | addCas (x : Int) (j : Nat) (old : Int)  -- CAS loop: compare-and-swap
  | sum (i : Nat) (acc : Int)
  | reset (i : Nat)
  | sarLd (i : Nat) (acc : Int) | sarSt (i : Nat) (acc : Int)
  | store (i : Nat) (v : Int)
deriving Repr

inductive SAct | add (x : Int) | sum | reset | sumAndReset | store (v : Int) | tau | rnd (w : Nat)
deriving Repr

def cellAt (g : SG) (j : Nat) : Int := (g.cells[j]?).getD 0
def setCell (g : SG) (j : Nat) (v : Int) : SG := { g with cells := g.cells.set j v }

def step (P : Params) (_t : Tid) (g : SG) : SL → SAct → Option (SG × SL × List Obs)
  | .idle, .add x => some (g, if P.draws then .addDraw x else (if P.casLoop then .addLd x 0 else .addAt x 0), [])
  | .idle, .sum => some (g, .sum 0 0, [])
  | .idle, .reset => some (g, .reset 0, [])
  | .idle, .sumAndReset => some (g, .sarLd 0 0, [])
  | .idle, .store v => some (g, .store 0 v, [])
  | .addDraw x, .rnd w => some (g, (if P.casLoop then .addLd x (rint w % P.n) else .addAt x (rint w % P.n)), [])
  | .addAt x j, .tau =>
      some ({ (setCell g j (P.alg.add (cellAt g j) x)) with applied := g.applied + x }, .idle, [.lp x, .ret none])
  | .addLd x j, .tau => some (g, .addCas x j (P.alg.view (cellAt g j)), [])
  | .addCas x j old, .tau =>
      if P.alg.view (cellAt g j) = old then
        some ({ (setCell g j (P.alg.add (cellAt g j) x)) with applied := g.applied + x }, .idle, [.lp x, .ret none])
      else some (g, .addLd x j, [])
  | .sum i acc, .tau =>
      let acc' := if i = 0 then P.alg.view (cellAt g i) else P.alg.add acc (P.alg.view (cellAt g i))
      if i + 1 < P.n then some (g, .sum (i + 1) acc', []) else some (g, .idle, [.ret (some (P.alg.view acc'))])
  | .reset i, .tau =>
      let g' := setCell g i 0
      if i + 1 < P.n then some (g', .reset (i + 1), []) else some (g', .idle, [.ret none])
  | .sarLd i acc, .tau =>
      let acc' := if i = 0 then P.alg.view (cellAt g i) else P.alg.add acc (P.alg.view (cellAt g i))
      some (g, .sarSt i acc', [])
  | .sarSt i acc, .tau =>
      let g' := setCell g i 0
      if i + 1 < P.n then some (g', .sarLd (i + 1) acc, []) else some (g', .idle, [.ret (some (P.alg.view acc))])
  | .store i v, .tau =>
      let g' := setCell g i (if i = 0 then v else 0)
      if i + 1 < P.n then some (g', .store (i + 1) v, []) else some (g', .idle, [.ret none])
  | _, _ => none

def M (P : Params) : Machine where
  G := SG
  L := SL
  Act := SAct
  Obs := Obs
  init := { cells := List.replicate P.n 0 }
  idle := .idle
  step := step P

end Garr.Adder.Simple
