import Garr.Adder.FloatStruct
import Garr.Adder.Solo
import Garr.Adder.SimpleInv
import Garr.Num.F64Exact
import Mathlib.Algebra.BigOperators.Group.Multiset.Basic
/-!
# The float adders are exact when all partial sums are representable (C02, float clause)

`AllPartialSumsExact xs`: every operand of `xs` (a list of binary64 bit patterns) is finite and the exact
rational sum of every sublist (hence of every sub-multiset) of `xs` is the value of a finite binary64.

Ghost state is carried by an *existential* invariant, not by changing the model: `ExactHeap g live` says that
the multiset `live` of operands applied so far can be split into one sub-multiset per location (base, each
cell) such that every location holds a finite float whose rational value is the exact sum of its share
(`Holds`).  `Eff` classifies what a non-maintenance step does to base / cells together with the `lp` markers it
emits; `exact_eff` shows that `ExactHeap` follows the `lp`s as long as the hypothesis holds.

* simple float adder (`Simple.M P`, `P.alg = floatAlg`, one cell — `atomicF64P`): `simple_exact_run`,
  `simple_sum_solo`;
* striped float adder (`M floatAlg mc`, any `mc`; structural invariant from `Garr.Adder.FloatStruct`):
  `exact_run` (conservation along every schedule of `Add`s and `Sum`s, from any exact start),
  `ExactHeap.conservation` (the ℚ-valued conservation law), `fsum_solo` (a `Sum` running alone returns a float
  whose value is the exact total; its own left-to-right additions are partial sums again),
  `fstore_solo` / `freset_solo` / `fsumAndReset_solo` (the maintenance operations run alone re-establish exactness);
* `lps_invoked` / `simple_lps_invoked`: when no `Add` is in flight the `lp` operands are, as a multiset, the
  operands of the accepted `Add` invocations (`acct_run`: generic multiset accounting along a run);
* `allPartialSumsExact_of_quantum`: bounded integer multiples of a common quantum satisfy the hypothesis.

(Proof file: imports single Mathlib modules.)
-/
namespace Garr.Adder.Float
open Garr.Conc Garr.Adder Garr.F64Exact

/-! ## Operand lists, the hypothesis -/

/-- operands of the linearization points among one step's observations -/
def lps : List Obs → List Int
  | [] => []
  | .lp x :: r => x :: lps r
  | .ret _ :: r => lps r

/-- operands of the linearization points of a log, oldest first -/
def lpsLog : List (Tid × Obs) → List Int
  | [] => []
  | (_, .lp x) :: r => x :: lpsLog r
  | (_, .ret _) :: r => lpsLog r

theorem lpsLog_append (a b : List (Tid × Obs)) : lpsLog (a ++ b) = lpsLog a ++ lpsLog b := by
  induction a with
  | nil => rfl
  | cons e r ih =>
    obtain ⟨t, o⟩ := e
    cases o <;> simp [lpsLog, ih]

theorem lpsLog_tag (t : Tid) (obs : List Obs) : lpsLog (obs.map (fun o => (t, o))) = lps obs := by
  induction obs with
  | nil => rfl
  | cons o r ih => cases o <;> simp [lpsLog, lps, ih]

/-- exact rational total of a list of operand bit patterns -/
def qsumL (xs : List Int) : ℚ := (xs.map fval).sum

/-- exact rational total of a multiset of operand bit patterns -/
def qsum (s : Multiset Int) : ℚ := (s.map fval).sum

/-- **The hypothesis of the float clause of C02**: all operands are finite floats and every partial sum —
    the exact rational sum of any sublist, i.e. of any sub-multiset, of the operands — is the value of a
    finite binary64.  (Decidable in principle: finitely many sublists, and representability of a given
    dyadic rational is a bounded search.) -/
def AllPartialSumsExact (xs : List Int) : Prop :=
  (∀ x ∈ xs, IsFinBits x) ∧ ∀ s : List Int, s.Sublist xs → Representable (qsumL s)

/-- multiset form of the hypothesis -/
def PSE (m : Multiset Int) : Prop :=
  (∀ x ∈ m, IsFinBits x) ∧ ∀ s : Multiset Int, s ≤ m → Representable (qsum s)

theorem qsum_coe (xs : List Int) : qsum (xs : Multiset Int) = qsumL xs := by
  unfold qsum qsumL
  rw [Multiset.map_coe, Multiset.sum_coe]

theorem qsum_zero : qsum 0 = 0 := by simp [qsum]

theorem qsum_add (s t : Multiset Int) : qsum (s + t) = qsum s + qsum t := by
  unfold qsum; rw [Multiset.map_add, Multiset.sum_add]

theorem qsum_singleton (x : Int) : qsum {x} = fval x := by
  unfold qsum; rw [Multiset.map_singleton, Multiset.sum_singleton]

theorem qsumL_perm {l1 l2 : List Int} (h : l1.Perm l2) : qsumL l1 = qsumL l2 :=
  (h.map fval).sum_eq

/-- the list form implies the multiset form (sums do not depend on the order) -/
theorem pse_of_list {xs : List Int} (h : AllPartialSumsExact xs) : PSE (xs : Multiset Int) := by
  refine ⟨fun x hx => h.1 x (Multiset.mem_coe.1 hx), fun s hs => ?_⟩
  induction s using Quot.inductionOn with
  | h l =>
    have hs' : (l : Multiset Int) ≤ (xs : Multiset Int) := hs
    rw [Multiset.coe_le] at hs'
    obtain ⟨l', hp, hsub⟩ := hs'
    show Representable (qsum (l : Multiset Int))
    rw [qsum_coe, ← qsumL_perm hp]
    exact h.2 l' hsub

/-- … and conversely -/
theorem list_of_pse {xs : List Int} (h : PSE (xs : Multiset Int)) : AllPartialSumsExact xs := by
  refine ⟨fun x hx => h.1 x (Multiset.mem_coe.2 hx), fun s hs => ?_⟩
  rw [← qsum_coe]
  exact h.2 _ (Multiset.coe_le.2 hs.subperm)

theorem PSE.mono {m m' : Multiset Int} (h : PSE m) (hle : m' ≤ m) : PSE m' :=
  ⟨fun x hx => h.1 x (Multiset.mem_of_le hle hx), fun s hs => h.2 s (le_trans hs hle)⟩

theorem AllPartialSumsExact.sublist {xs ys : List Int} (h : AllPartialSumsExact xs) (hs : ys.Sublist xs) :
    AllPartialSumsExact ys :=
  ⟨fun x hx => h.1 x (hs.subset hx), fun s hsy => h.2 s (hsy.trans hs)⟩

theorem pse_zero : PSE 0 := by
  refine ⟨fun x hx => by simp at hx, fun s hs => ?_⟩
  have : s = 0 := by simpa using hs
  rw [this, qsum_zero]; exact representable_zero

/-! ## A location that holds an exact sum -/

/-- the stored bit pattern `b` is a finite float whose rational value is the exact total of the operands `s` -/
def Holds (b : Int) (s : Multiset Int) : Prop := IsFinBits b ∧ fval b = qsum s

theorem floatAlg_float : floatAlg.float = true := rfl
theorem floatAlg_view (x : Int) : floatAlg.view x = x := rfl
theorem floatAlg_add (a b : Int) : floatAlg.add a b = addBits a b := rfl

theorem holds_zero : Holds 0 0 := ⟨isFinBits_zero, by rw [fval_zero, qsum_zero]⟩

theorem holds_single {x : Int} (h : IsFinBits x) : Holds x {x} := ⟨h, (qsum_singleton x).symm⟩

/-- adding the contents of two exact locations is exact when the combined total is representable -/
theorem Holds.add {a b : Int} {s u : Multiset Int} (ha : Holds a s) (hb : Holds b u)
    (hr : Representable (qsum (s + u))) : Holds (floatAlg.add a b) (s + u) := by
  rw [qsum_add, ← ha.2, ← hb.2] at hr
  obtain ⟨h1, h2⟩ := addBits_exact ha.1 hb.1 hr
  exact ⟨h1, by rw [floatAlg_add, h2, qsum_add, ha.2, hb.2]⟩

/-- adding an operand to an exact location is exact when the new share is within the hypothesis -/
theorem Holds.addOp {b x : Int} {s m : Multiset Int} (h : Holds b s) (hm : PSE m) (hle : s + {x} ≤ m) :
    Holds (floatAlg.add b x) (s + {x}) := by
  have hx : IsFinBits x := hm.1 x (Multiset.mem_of_le hle (by simp))
  exact h.add (holds_single hx) (hm.2 _ hle)

/-! ## Sums over `k < n` in a commutative monoid -/

/-- `f 0 + … + f (n-1)` -/
def sumN {α : Type} [AddCommMonoid α] (f : Nat → α) : Nat → α
  | 0 => 0
  | n+1 => sumN f n + f n

section SumN
variable {α : Type} [AddCommMonoid α]

theorem sumN_congr {f g : Nat → α} {n : Nat} (h : ∀ k, k < n → f k = g k) : sumN f n = sumN g n := by
  induction n with
  | zero => rfl
  | succ n ih =>
    simp only [sumN]
    rw [ih (fun k hk => h k (by omega)), h n (by omega)]

theorem sumN_zero (n : Nat) : sumN (fun _ => (0 : α)) n = 0 := by
  induction n with
  | zero => rfl
  | succ n ih => simp [sumN, ih]

/-- replacing the summand at `c < n` -/
theorem sumN_replace (f : Nat → α) (n c : Nat) (a : α) (hc : c < n) :
    sumN (fun k => if k = c then a else f k) n + f c = sumN f n + a := by
  induction n with
  | zero => omega
  | succ n ih =>
    simp only [sumN]
    by_cases hcn : c = n
    · subst hcn
      have : sumN (fun k => if k = c then a else f k) c = sumN f c :=
        sumN_congr (fun k hk => by
          have : k ≠ c := by omega
          simp [this])
      rw [this]; simp [add_right_comm]
    · have hne : n ≠ c := fun h => hcn h.symm
      have := ih (by omega)
      simp only [hne, if_false]
      rw [add_right_comm, this, add_right_comm]

/-- adding `d` to the summand at `c < n` -/
theorem sumN_update (f : Nat → α) (n c : Nat) (d : α) (hc : c < n) :
    sumN (fun k => if k = c then f k + d else f k) n = sumN f n + d := by
  induction n with
  | zero => omega
  | succ n ih =>
    simp only [sumN]
    by_cases hcn : c = n
    · subst hcn
      have : sumN (fun k => if k = c then f k + d else f k) c = sumN f c :=
        sumN_congr (fun k hk => by
          have : k ≠ c := by omega
          simp [this])
      rw [this]; simp [add_assoc]
    · have hne : n ≠ c := fun h => hcn h.symm
      rw [ih (by omega)]
      simp only [hne, if_false]
      rw [add_right_comm]

theorem sumN_add (f g : Nat → α) (n : Nat) : sumN (fun k => f k + g k) n = sumN f n + sumN g n := by
  induction n with
  | zero => simp [sumN]
  | succ n ih => simp only [sumN, ih]; rw [add_add_add_comm]

/-- value of slot `j`: the summand of the cell attached there, `0` for an empty slot -/
def slotG (s : Nat → Option Nat) (f : Nat → α) (j : Nat) : α :=
  match s j with | none => 0 | some c => f c

/-- Summing slot by slot equals summing over all cell ids, when the slots form a bijection between the
    occupied indices below `len` and the ids below `n` (generic copy of `Garr.Adder.sum_slots_eq`). -/
theorem sumN_slots_eq (f : Nat → α) : ∀ (n : Nat) (s : Nat → Option Nat) (len : Nat),
    (∀ j c, s j = some c → c < n) →
    (∀ j1 j2 c, s j1 = some c → s j2 = some c → j1 = j2) →
    (∀ c, c < n → ∃ j, j < len ∧ s j = some c) →
    sumN (slotG s f) len = sumN f n := by
  intro n
  induction n with
  | zero =>
    intro s len hv _ _
    have : ∀ j, j < len → slotG s f j = (fun _ => (0:α)) j := by
      intro j _
      unfold slotG
      cases hs : s j with
      | none => rfl
      | some c => exact absurd (hv j c hs) (by omega)
    rw [sumN_congr this, sumN_zero]
    rfl
  | succ n ih =>
    intro s len hv hinj hsurj
    obtain ⟨j0, hj0, hs0⟩ := hsurj n (by omega)
    let s' : Nat → Option Nat := fun j => if j = j0 then none else s j
    have hv' : ∀ j c, s' j = some c → c < n := by
      intro j c hs
      simp only [s'] at hs
      split at hs
      · cases hs
      · rename_i hne
        have h1 := hv j c hs
        have : c ≠ n := fun hcn => by subst hcn; exact hne (hinj j j0 _ hs hs0)
        omega
    have hinj' : ∀ j1 j2 c, s' j1 = some c → s' j2 = some c → j1 = j2 := by
      intro j1 j2 c h1 h2
      simp only [s'] at h1 h2
      split at h1
      · cases h1
      · split at h2
        · cases h2
        · exact hinj j1 j2 c h1 h2
    have hsurj' : ∀ c, c < n → ∃ j, j < len ∧ s' j = some c := by
      intro c hc
      obtain ⟨j, hj, hs⟩ := hsurj c (by omega)
      refine ⟨j, hj, ?_⟩
      have : j ≠ j0 := fun h => by subst h; rw [hs0] at hs; cases hs; omega
      simp [s', this, hs]
    have ih' := ih s' len hv' hinj' hsurj'
    have hrel : sumN (slotG s f) len = sumN (slotG s' f) len + f n := by
      have : ∀ k, k < len → slotG s f k = (fun k => if k = j0 then slotG s' f k + f n else slotG s' f k) k := by
        intro k _
        by_cases hk : k = j0
        · subst hk; simp [slotG, s', hs0]
        · simp [slotG, s', hk]
      rw [sumN_congr this, sumN_update (slotG s' f) len j0 (f n) hj0]
    rw [hrel, ih']
    rfl

end SumN

theorem sumN_le {f : Nat → Multiset Int} {i n : Nat} (h : i ≤ n) : sumN f i ≤ sumN f n := by
  induction n with
  | zero =>
    have : i = 0 := by omega
    subst this; exact le_refl _
  | succ n ih =>
    by_cases hi : i = n + 1
    · subst hi; exact le_refl _
    · exact le_trans (ih (by omega)) (Multiset.le_add_right _ _)

theorem qsum_sumN (cm : Nat → Multiset Int) (n : Nat) : qsum (sumN cm n) = sumN (fun k => qsum (cm k)) n := by
  induction n with
  | zero => exact qsum_zero
  | succ n ih => simp only [sumN, qsum_add, ih]

/-! ## The simple float adder: one cell, load / CAS retry loop (`AtomicF64Adder`) -/

section SimpleFloat
open Garr.Adder.Simple

/-- the float instances of the simple adder: float algebra, one cell (`atomicF64P`) -/
structure FloatInst (P : Params) : Prop where
  alg : P.alg = floatAlg
  one : P.n = 1

theorem atomicF64_inst : FloatInst atomicF64P := ⟨rfl, rfl⟩

/-- the single cell holds the exact total of `live`, and no maintenance operation is in progress -/
def SExact (P : Params) (c : Config (Simple.M P)) (live : Multiset Int) : Prop :=
  Holds (cellAt c.g 0) live ∧ ∀ t, inMaint (c.l t) = false

theorem cellAt_applyAdd0 (P : Params) (g : SG) (x : Int) (h : 0 < g.cells.length) :
    cellAt (applyAdd P g 0 x) 0 = P.alg.add (cellAt g 0) x := by
  simp only [cellAt, applyAdd, setCell]
  rw [List.getElem?_set_self h]; rfl

theorem coe_lps_one (x : Int) (r : Option Int) : ((lps [.lp x, .ret r] : List Int) : Multiset Int) = {x} := rfl

/-- one step of an `Add` or a `Sum`: the cell follows the `lp`s as long as the hypothesis covers them -/
theorem simple_exact_step {P : Params} (hP : FloatInst P) {t : Tid} {g : SG} {l : SL} {a : SAct}
    {g' : SG} {l' : SL} {obs : List Obs} (hlen : g.cells.length = P.n) (hwf : sWf P l)
    (hm : inMaint l = false) (ha : isMaintAct a = false)
    (hs : (Simple.M P).step t g l a = some (g', l', obs)) {live : Multiset Int}
    (hH : Holds (cellAt g 0) live) (hpse : PSE (live + (lps obs : Multiset Int))) :
    Holds (cellAt g' 0) (live + (lps obs : Multiset Int)) ∧ inMaint l' = false := by
  have hlen0 : 0 < g.cells.length := by rw [hlen, hP.one]; exact Nat.one_pos
  have eff : ∀ (x : Int) (j : Nat), j < P.n → PSE (live + ({x} : Multiset Int)) →
      Holds (cellAt (applyAdd P g j x) 0) (live + {x}) := by
    intro x j hj hp
    have hj0 : j = 0 := by rw [hP.one] at hj; omega
    subst hj0
    rw [cellAt_applyAdd0 P g x hlen0, hP.alg]
    exact hH.addOp hp (le_refl _)
  constructor
  · cases sstep_of_step (t := t) hs <;> simp only [inMaint, isMaintAct, reduceCtorEq] at hm ha <;>
      first
      | (simp only [lps, Multiset.coe_nil, add_zero]; exact hH)
      | skip
    case addAt x j =>
      rw [coe_lps_one] at hpse ⊢
      exact eff x j hwf.1 hpse
    case casOk x j old _ =>
      rw [coe_lps_one] at hpse ⊢
      exact eff x j hwf.1 hpse
  · cases sstep_of_step (t := t) hs
    case invAdd => exact inMaint_entry _ _
    case draw => exact inMaint_drawn _ _ _
    all_goals first | rfl | simp [inMaint, isMaintAct] at hm ha

theorem coe_lpsLog_step (lg : List (Tid × Obs)) (t : Tid) (obs : List Obs) :
    ((lpsLog (lg ++ obs.map (fun o => (t, o))) : List Int) : Multiset Int) =
      (lpsLog lg : Multiset Int) + (lps obs : Multiset Int) := by
  rw [lpsLog_append, lpsLog_tag, Multiset.coe_add]

/-- **Simple float adder, conservation.**  From a reachable configuration whose cell holds the exact total
    of `live0` and in which no maintenance operation is in progress, along any schedule that invokes none:
    if the operands applied so far (`live0` plus the `lp`s of the log) satisfy the hypothesis, the cell is a
    finite float whose rational value is their exact total. -/
theorem simple_exact_run {P : Params} (hP : FloatInst P) {c0 : Config (Simple.M P)} (hr : Reach (Simple.M P) c0)
    {live0 : Multiset Int} (h0 : SExact P c0 live0)
    (s : List (Tid × SAct)) (hs : ∀ e ∈ s, isMaintAct e.2 = false)
    (hpse : PSE (live0 + (lpsLog (run (Simple.M P) c0 s).2 : Multiset Int))) :
    SExact P (run (Simple.M P) c0 s).1 (live0 + (lpsLog (run (Simple.M P) c0 s).2 : Multiset Int)) := by
  have hn : 0 < P.n := by rw [hP.one]; exact Nat.one_pos
  have key := srun_ind' P (fun _ a => isMaintAct a = false)
    (fun lg g ls => PSE (live0 + (lpsLog lg : Multiset Int)) →
      (Holds (cellAt g 0) (live0 + (lpsLog lg : Multiset Int)) ∧ ∀ t, inMaint (ls t) = false))
    (by
      intro lg g ls t a g' l' obs hrc hQ ha hst hp
      rw [coe_lpsLog_step, ← add_assoc] at hp ⊢
      obtain ⟨h1, h2⟩ := hQ (hp.mono (Multiset.le_add_right _ _))
      have hI := Simple.sinv_reach P hn _ hrc
      obtain ⟨k1, k2⟩ := simple_exact_step hP (t := t) hI.len (hI.wf t) (h2 t) ha hst h1 hp
      refine ⟨k1, fun u => ?_⟩
      by_cases hu : u = t
      · subst hu; rw [upd_same]; exact k2
      · rw [upd_other _ _ _ _ hu]; exact h2 u)
    s c0 hr (fun _ => by simpa [lpsLog, SExact] using h0) hs
  exact key hpse

theorem simple_exact_init {P : Params} (hP : FloatInst P) : SExact P (Config.init (Simple.M P)) 0 := by
  refine ⟨?_, fun _ => rfl⟩
  show Holds (cellAt { cells := List.replicate P.n 0 } 0) 0
  rw [hP.one]
  exact holds_zero

/-- **Simple float adder, `Sum`.**  `Sum` run by an idle thread returns, after one step, the content of the
    cell and leaves the configuration as it was. -/
theorem simple_sum_solo {P : Params} (hP : FloatInst P) {c : Config (Simple.M P)} (t : Tid)
    (hidle : c.l t = SL.idle) :
    (Simple.M P).step t c.g (c.l t) SAct.sum = some (c.g, SL.sum 0 0, []) ∧
      soloRun (Simple.M P) SAct.tau t 1 ⟨c.g, upd c.l t (SL.sum 0 0)⟩ =
        (c, [Obs.ret (some (cellAt c.g 0))]) := by
  refine ⟨by rw [hidle]; rfl, ?_⟩
  have h := STau.step1 (t := t) (SStep.sumRet (P := P) (g := c.g) 0 0 (by rw [hP.one]; omega))
  have e : P.alg.view (sacc P c.g 0 0) = cellAt c.g 0 := by
    unfold sacc; rw [hP.alg]; rfl
  rw [e] at h
  exact solo_back t hidle h

end SimpleFloat

/-! ## The striped float adder: the exact-heap invariant -/

/-- **Ghost assignment, existentially.**  The operands `live` applied so far split into one share for
    `base` and one per materialised cell; every location is a finite float whose rational value is the
    exact total of its share. -/
def ExactHeap (g : G) (live : Multiset Int) : Prop :=
  ∃ (b : Multiset Int) (cm : Nat → Multiset Int), b + sumN cm g.ncell = live ∧ Holds g.base b ∧
    ∀ k, k < g.ncell → Holds (g.cell k) (cm k)

/-- `ExactHeap` only reads `base`, `cell`, `ncell` -/
theorem ExactHeap.congr {g g' : G} {live : Multiset Int} (h : ExactHeap g live) (hb : g'.base = g.base)
    (hc : g'.cell = g.cell) (hn : g'.ncell = g.ncell) : ExactHeap g' live := by
  obtain ⟨b, cm, hsplit, hb', hc'⟩ := h
  exact ⟨b, cm, by rw [hn]; exact hsplit, by rw [hb]; exact hb', fun k hk => by rw [hc]; exact hc' k (by omega)⟩

/-- what a step that is not part of a maintenance operation does to the values, indexed by the operands of
    the `lp`s it emits: nothing; a successful CAS on `base`; a successful CAS on an existing cell; the
    attachment of a fresh cell pre-filled with the operand -/
inductive Eff (g g' : G) : List Int → Prop
  | same : g'.base = g.base → g'.cell = g.cell → g'.ncell = g.ncell → Eff g g' []
  | base (x : Int) : g'.base = floatAlg.add g.base x → g'.cell = g.cell → g'.ncell = g.ncell → Eff g g' [x]
  | cell (x : Int) (c : Nat) : c < g.ncell → g'.base = g.base →
      g'.cell = (fun k => if k = c then floatAlg.add (g.cell k) x else g.cell k) → g'.ncell = g.ncell → Eff g g' [x]
  | fresh (x : Int) : g'.base = g.base → g'.cell = (fun k => if k = g.ncell then x else g.cell k) →
      g'.ncell = g.ncell + 1 → Eff g g' [x]

theorem coe_single (x : Int) : (([x] : List Int) : Multiset Int) = {x} := rfl

/-- the exact-heap invariant follows the effects, as long as the hypothesis covers the new operand -/
theorem exact_eff {g g' : G} {live : Multiset Int} {xs : List Int} (hE : ExactHeap g live) (he : Eff g g' xs)
    (hp : PSE (live + (xs : Multiset Int))) : ExactHeap g' (live + (xs : Multiset Int)) := by
  cases he with
  | same h1 h2 h3 =>
    rw [Multiset.coe_nil, add_zero]
    exact hE.congr h1 h2 h3
  | base x h1 h2 h3 =>
    obtain ⟨b, cm, hsplit, hb, hc⟩ := hE
    rw [coe_single] at hp ⊢
    refine ⟨b + {x}, cm, ?_, ?_, ?_⟩
    · rw [h3, ← hsplit]; exact add_right_comm _ _ _
    · rw [h1]
      refine hb.addOp hp ?_
      rw [← hsplit, add_right_comm]
      exact Multiset.le_add_right _ _
    · intro k hk; rw [h2]; exact hc k (by omega)
  | cell x c hcn h1 h2 h3 =>
    obtain ⟨b, cm, hsplit, hb, hc⟩ := hE
    rw [coe_single] at hp ⊢
    refine ⟨b, fun k => if k = c then cm k + {x} else cm k, ?_, ?_, ?_⟩
    · rw [h3, sumN_update cm g.ncell c {x} hcn, ← add_assoc, hsplit]
    · rw [h1]; exact hb
    · intro k hk
      rw [h2]
      by_cases hkc : k = c
      · subst hkc
        simp only [if_true]
        refine (hc k hcn).addOp hp ?_
        have h1 : cm k ≤ sumN cm g.ncell := by
          have := sumN_replace cm g.ncell k 0 hcn
          rw [add_zero] at this
          rw [← this]
          exact Multiset.le_add_left _ _
        have h2 : cm k ≤ live := by rw [← hsplit]; exact le_trans h1 (Multiset.le_add_left _ _)
        exact Multiset.add_le_add_right h2
      · simp only [hkc, if_false]
        exact hc k (by omega)
  | fresh x h1 h2 h3 =>
    obtain ⟨b, cm, hsplit, hb, hc⟩ := hE
    rw [coe_single] at hp ⊢
    have hx : IsFinBits x := hp.1 x (by simp)
    refine ⟨b, fun k => if k = g.ncell then {x} else cm k, ?_, ?_, ?_⟩
    · rw [h3]
      simp only [sumN, if_true]
      have : sumN (fun k => if k = g.ncell then ({x} : Multiset Int) else cm k) g.ncell = sumN cm g.ncell :=
        sumN_congr (fun k hk => by
          have : k ≠ g.ncell := by omega
          simp [this])
      rw [this, ← add_assoc, hsplit]
    · rw [h1]; exact hb
    · intro k hk
      rw [h2]
      by_cases hkc : k = g.ncell
      · subst hkc
        simp only [if_true]
        exact holds_single hx
      · simp only [hkc, if_false]
        exact hc k (by omega)

/-- **Conservation over ℚ.**  `value(base) + Σ value(cell k) = Σ value(applied operands)`, every term
    being the value of a finite float. -/
theorem ExactHeap.conservation {g : G} {live : Multiset Int} (h : ExactHeap g live) :
    fval g.base + sumN (fun k => fval (g.cell k)) g.ncell = qsum live := by
  obtain ⟨b, cm, hsplit, hb, hc⟩ := h
  rw [← hsplit, qsum_add, qsum_sumN, hb.2]
  congr 1
  exact sumN_congr (fun k hk => (hc k hk).2)

theorem ExactHeap.finite {g : G} {live : Multiset Int} (h : ExactHeap g live) :
    IsFinBits g.base ∧ ∀ k, k < g.ncell → IsFinBits (g.cell k) := by
  obtain ⟨b, cm, _, hb, hc⟩ := h
  exact ⟨hb.1, fun k hk => (hc k hk).1⟩

theorem exactHeap_init : ExactHeap initG 0 :=
  ⟨0, fun _ => 0, by simp [initG, sumN], holds_zero, fun k hk => absurd hk (Nat.not_lt_zero _)⟩

/-! ## Steps of the striped float adder -/

theorem eff_leave (t : Tid) (g : G) (v : V) : Eff g (leave t g v) [] :=
  .same (leave_base _ _ _) (leave_cell _ _ _) (leave_ncell _ _ _)

theorem eff_busy (g : G) (b : Bool) : Eff g { g with busy := b } [] := .same rfl rfl rfl

theorem eff_leave_busy (t : Tid) (g : G) (b : Bool) (v : V) : Eff g (leave t { g with busy := b } v) [] :=
  .same (leave_base _ _ _) (leave_cell _ _ _) (leave_ncell _ _ _)

theorem eff_casBase (t : Tid) (g : G) (v : V) (x : Int) : Eff g (leave t (casBaseA floatAlg g x) v) [x] :=
  .base x (leave_base _ _ _) (leave_cell _ _ _) (leave_ncell _ _ _)

theorem eff_casCell (t : Tid) (g : G) (v : V) (c : Nat) (x : Int) (hc : c < g.ncell) :
    Eff g (leave t (casCellA floatAlg g c x) v) [x] :=
  .cell x c hc (leave_base _ _ _) (leave_cell _ _ _) (leave_ncell _ _ _)

theorem eff_attach (g : G) (a j : Nat) (x : Int) : Eff g (attach g a j x) [x] := .fresh x rfl rfl rfl

theorem eff_initTable (g : G) (j : Nat) (x : Int) : Eff g (initTable g j x) [x] := .fresh x rfl rfl rfl

local macro "fin " h:ident : tactic =>
  `(tactic| (simp only [Prod.mk.injEq] at $h:ident; obtain ⟨h1, h2, h3⟩ := $h:ident; subst h1 h2 h3))

set_option maxHeartbeats 1000000 in
/-- a `stepRun` step of a thread that is not a maintainer has one of the four effects -/
theorem stepRun_eff {mc : Nat} {t : Tid} {g : G} {pc : PC} {v : V} {w : Nat} {g' : G} {l' : L} {obs : List Obs}
    (hL : LInvPC g v pc) (hm : v.mnt = false) (hs : stepRun floatAlg mc t g pc v w = (g', l', obs)) :
    Eff g g' (lps obs) := by
  cases pc <;> simp only [LInvPC] at hL <;>
    simp only [stepRun, floatAlg_float, retAdd, ↓reduceIte] at hs <;>
    (repeat' split at hs) <;> fin hs <;>
    first
    | exact .same rfl rfl rfl
    | exact eff_leave _ _ _
    | exact eff_busy _ _
    | exact eff_leave_busy _ _ _ _
    | exact eff_casBase _ _ _ _
    | exact eff_casCell _ _ _ _ _ hL
    | exact eff_attach _ _ _ _
    | exact eff_initTable _ _ _
    | exact absurd hL (by simp [hm])

/-- actions that invoke a maintenance operation -/
def isMaintActA : Act → Bool
  | .store _ | .reset | .sumAndReset => true
  | _ => false

theorem stepRun_maint {mc : Nat} {t : Tid} {g : G} {pc : PC} {v : V} {w : Nat} {g' : G} {l' : L} {obs : List Obs}
    (hm : g.maint = false) (hs : stepRun floatAlg mc t g pc v w = (g', l', obs)) : g'.maint = false := by
  cases stepRun_ghostA hs with
  | stay _ _ _ _ h5 => rw [h5]; exact hm
  | leaveM _ _ _ h4 => exact h4
  | leaveN _ _ _ _ h5 => rw [h5]; exact hm
  | startN h1 => cases h1
  | startM h1 => cases h1

/-- a machine step outside maintenance: one of the four effects, and still no maintenance -/
theorem step_eff {mc : Nat} {t : Tid} {g : G} {l : L} {a : Act} {g' : G} {l' : L} {obs : List Obs}
    (hL : LInv g l) (hnm : isMnt l = false) (hm : g.maint = false) (ha : isMaintActA a = false)
    (hs : step floatAlg mc t g l a = some (g', l', obs)) : Eff g g' (lps obs) ∧ g'.maint = false := by
  cases l <;> cases a <;> simp only [step] at hs <;> try contradiction
  case idle.add x => split at hs <;> cases hs; exact ⟨.same rfl rfl rfl, hm⟩
  case idle.sum => split at hs <;> cases hs; exact ⟨.same rfl rfl rfl, hm⟩
  case run.tau pc v =>
    split at hs; · cases hs
    simp only [Option.some.injEq] at hs
    exact ⟨stepRun_eff hL hnm hs, stepRun_maint hm hs⟩
  case run.rnd pc v w =>
    split at hs
    · simp only [Option.some.injEq] at hs
      exact ⟨stepRun_eff hL hnm hs, stepRun_maint hm hs⟩
    · cases hs

/-! ## Conservation along every schedule -/

/-- the configuration is reachable, no maintenance operation is in progress, and the heap holds exactly the
    operands `live` -/
def FExact {mc : Nat} (c : Config (M floatAlg mc)) (live : Multiset Int) : Prop :=
  Reach (M floatAlg mc) c ∧ G.maint c.g = false ∧ ExactHeap c.g live

theorem fexact_init (mc : Nat) : FExact (Config.init (M floatAlg mc)) 0 :=
  ⟨Reach.init, rfl, exactHeap_init⟩

/-- one step -/
theorem fexact_step {mc : Nat} {g : G} {l : Tid → L} {t : Tid} {a : Act} {g' : G} {l' : L} {obs : List Obs}
    {live : Multiset Int} (hI : SInvAt g l) (hm : g.maint = false) (hE : ExactHeap g live)
    (ha : isMaintActA a = false) (hs : step floatAlg mc t g (l t) a = some (g', l', obs))
    (hp : PSE (live + (lps obs : Multiset Int))) :
    g'.maint = false ∧ ExactHeap g' (live + (lps obs : Multiset Int)) := by
  obtain ⟨he, hm'⟩ := step_eff (hI.linv t) (hI.no_mnt hm t) hm ha hs
  exact ⟨hm', exact_eff hE he hp⟩

/-- forward induction along a run of the striped float adder, with the types unfolded -/
theorem frun_ind (mc : Nat) (A : Tid → Act → Prop) (Q : List (Tid × Obs) → G → (Tid → L) → Prop)
    (hstep : ∀ (lg : List (Tid × Obs)) (g : G) (ls : Tid → L) (t : Tid) (a : Act) (g' : G) (l' : L)
      (obs : List Obs), Reach (M floatAlg mc) ⟨g, ls⟩ → Q lg g ls → A t a →
      step floatAlg mc t g (ls t) a = some (g', l', obs) →
      Q (lg ++ obs.map (fun o => (t, o))) g' (upd ls t l'))
    (s : List (Tid × Act)) (c : Config (M floatAlg mc)) (hc : Reach (M floatAlg mc) c) (hQ : Q [] c.g c.l)
    (hA : ∀ e ∈ s, A e.1 e.2) :
    Q (run (M floatAlg mc) c s).2 (run (M floatAlg mc) c s).1.g (run (M floatAlg mc) c s).1.l :=
  Simple.srun_ind (M floatAlg mc) A (fun lg c => Q lg c.g c.l)
    (fun lg c t a g' l' obs hr hp ha hs => hstep lg c.g c.l t a g' l' obs hr hp ha hs) s c [] hc hQ hA

/-- **Striped float adder, conservation.**  From a reachable configuration, with no maintenance operation
    in progress, whose heap holds exactly `live0` — for instance the initial configuration with `live0 = 0` —
    run any schedule that invokes no maintenance operation: any number of threads, any interleaving, every
    outcome of the probes, table creation and growth included.  If the operands applied so far (`live0` plus
    the `lp`s of the log) satisfy the hypothesis, the heap holds exactly these operands. -/
theorem exact_run {mc : Nat} {c0 : Config (M floatAlg mc)} {live0 : Multiset Int} (h0 : FExact c0 live0)
    (s : List (Tid × Act)) (hs : ∀ e ∈ s, isMaintActA e.2 = false)
    (hp : PSE (live0 + (lpsLog (run (M floatAlg mc) c0 s).2 : Multiset Int))) :
    FExact (run (M floatAlg mc) c0 s).1 (live0 + (lpsLog (run (M floatAlg mc) c0 s).2 : Multiset Int)) := by
  obtain ⟨hr, hm0, hE0⟩ := h0
  have key := frun_ind mc (fun _ a => isMaintActA a = false)
    (fun lg g _ => PSE (live0 + (lpsLog lg : Multiset Int)) →
      (g.maint = false ∧ ExactHeap g (live0 + (lpsLog lg : Multiset Int))))
    (by
      intro lg g ls t a g' l' obs hrc hQ ha hst hp
      rw [coe_lpsLog_step, ← add_assoc] at hp ⊢
      obtain ⟨h1, h2⟩ := hQ (hp.mono (Multiset.le_add_right _ _))
      have hI : SInvAt g ls := sinv_reach floatAlg mc ⟨g, ls⟩ hrc
      exact fexact_step hI h1 h2 ha hst hp)
    s c0 hr (fun _ => by simpa [lpsLog] using And.intro hm0 hE0) hs
  exact ⟨reach_run _ _ hr s, key hp⟩

/-! ## `Sum` running alone: its left-to-right additions are partial sums again -/

/-- `k` `.tau` steps of thread `t` of the striped float adder -/
abbrev FTau (mc : Nat) (t : Tid) (k : Nat) (g : G) (l : L) (g' : G) (l' : L) (obs : List Obs) : Prop :=
  TauN (M floatAlg mc) Act.tau t k g l g' l' obs

theorem fstep_tau {mc : Nat} {t : Tid} {g : G} {pc : PC} {v : V} (h : draws pc = false) :
    (M floatAlg mc).step t g (.run pc v) Act.tau = some (stepRun floatAlg mc t g pc v 0) := by
  show step floatAlg mc t g (.run pc v) Act.tau = _
  simp [step, h]

/-- the accumulator of `Sum` after the `n` slots starting at slot `i` of backing array `a` -/
def accFrom (g : G) (a : Nat) : Nat → Nat → Int → Int
  | 0, _, acc => acc
  | n+1, i, acc =>
    accFrom g a n (i+1) (match (g.arr a).slot i with | none => acc | some c => floatAlg.add acc (g.cell c))

/-- what `Sum` running alone computes: `base`, then the cell of every occupied slot of the published table
    added from left to right with IEEE addition -/
def fsumRes (g : G) : Int :=
  match g.tbl with
  | none => g.base
  | some tb => accFrom g tb.1 tb.2 0 g.base

theorem accFrom_congr {g g' : G} (ha : g'.arr = g.arr) (hc : g'.cell = g.cell) (a : Nat) :
    ∀ (n i : Nat) (acc : Int), accFrom g' a n i acc = accFrom g a n i acc := by
  intro n
  induction n with
  | zero => intro i acc; rfl
  | succ n ih => intro i acc; simp only [accFrom, ha, hc, ih]

/-- `fsumRes` only reads `base`, `tbl`, `arr`, `cell` -/
theorem fsumRes_congr {g g' : G} (hb : g'.base = g.base) (ht : g'.tbl = g.tbl) (ha : g'.arr = g.arr)
    (hc : g'.cell = g.cell) : fsumRes g' = fsumRes g := by
  unfold fsumRes
  rw [ht, hb]
  cases g.tbl with
  | none => rfl
  | some tb => exact accFrom_congr ha hc _ _ _ _

/-- how the `Sum` phase ends: the response of `Sum`, or the hand-over to the `Store 0` half of `SumAndReset` -/
inductive FSumExit (t : Tid) (g : G) (sar mnt : Bool) (acc : Int) : G → L → List Obs → Prop
  | ret (v' : V) : sar = false → v'.mnt = mnt →
      FSumExit t g sar mnt acc (leave t g v') .idle [.ret (some acc)]
  | cont (v' : V) : sar = true → v'.x = 0 → v'.acc = acc → v'.sar = true → v'.mnt = mnt →
      FSumExit t g sar mnt acc g (.run .t0 v') []

/-- the `Sum` phase from local state `l`: at most `K` steps to an exit with accumulator `acc` -/
def FSumRuns (mc : Nat) (t : Tid) (g : G) (K : Nat) (l : L) (sar mnt : Bool) (acc : Int) : Prop :=
  ∃ k g' l' obs, k ≤ K ∧ FTau mc t k g l g' l' obs ∧ FSumExit t g sar mnt acc g' l' obs

/-- what happens after slot `u.i` has been accounted for -/
def fsumNext (t : Tid) (g : G) (u : V) : G × L × List Obs :=
  if u.i + 1 < u.as.2 then (g, .run .s2 { u with i := u.i + 1 }, [])
  else if u.sar then (g, .run .t0 { u with x := 0 }, [])
  else (leave t g u, .idle, [.ret (some u.acc)])

theorem fstepRun_s2_none {mc : Nat} {t : Tid} {g : G} {v : V} (h : (g.arr v.as.1).slot v.i = none) :
    stepRun floatAlg mc t g .s2 v 0 = fsumNext t g v := by
  simp only [stepRun, slotAt, h, fsumNext, floatAlg_view]

theorem fstepRun_s2_some {mc : Nat} {t : Tid} {g : G} {v : V} {c : Nat} (h : (g.arr v.as.1).slot v.i = some c) :
    stepRun floatAlg mc t g .s2 v 0 = (g, .run .s3 { v with a := c }, []) := by
  simp only [stepRun, slotAt, h]

theorem fstepRun_s3 {mc : Nat} {t : Tid} {g : G} {v : V} :
    stepRun floatAlg mc t g .s3 v 0 = fsumNext t g { v with acc := floatAlg.add v.acc (g.cell v.a) } := by
  simp only [stepRun, fsumNext, floatAlg_view, leave]

theorem FSumRuns.prepend {mc : Nat} {t : Tid} {g : G} {K : Nat} {l l1 : L} {sar mnt : Bool} {acc : Int}
    (hs : (M floatAlg mc).step t g l Act.tau = some (g, l1, [])) (h : FSumRuns mc t g K l1 sar mnt acc) :
    FSumRuns mc t g (K + 1) l sar mnt acc := by
  obtain ⟨k, g', l', obs, hk, hr, he⟩ := h
  exact ⟨k + 1, g', l', obs, by omega, TauN.succ hs hr, he⟩

theorem FSumRuns.weaken {mc : Nat} {t : Tid} {g : G} {K K' : Nat} {l : L} {sar mnt : Bool} {acc : Int}
    (h : FSumRuns mc t g K l sar mnt acc) (hK : K ≤ K') : FSumRuns mc t g K' l sar mnt acc := by
  obtain ⟨k, g', l', obs, hk, hr, he⟩ := h
  exact ⟨k, g', l', obs, by omega, hr, he⟩

/-- after slot `u.i`: exit if it was the last one -/
theorem fsum_after_last {mc : Nat} {t : Tid} {g : G} {u : V} {l0 : L} (hlast : u.i + 1 = u.as.2)
    (hs : (M floatAlg mc).step t g l0 Act.tau = some (fsumNext t g u)) :
    FSumRuns mc t g 1 l0 u.sar u.mnt u.acc := by
  have hn : ¬ u.i + 1 < u.as.2 := by omega
  unfold fsumNext at hs
  rw [if_neg hn] at hs
  cases hsar : u.sar
  · have hf : ¬ u.sar = true := by rw [hsar]; exact Bool.false_ne_true
    rw [if_neg hf] at hs
    exact ⟨1, _, _, _, Nat.le_refl _, TauN.one hs, .ret u rfl rfl⟩
  · rw [if_pos hsar] at hs
    exact ⟨1, _, _, _, Nat.le_refl _, TauN.one hs, .cont { u with x := 0 } rfl rfl rfl hsar rfl⟩

/-- the `s2`/`s3` loop: from slot `v.i` with `n + 1` slots to go -/
theorem fsum_loop (mc : Nat) (t : Tid) (g : G) : ∀ (n : Nat) (v : V), v.i + n + 1 = v.as.2 →
    FSumRuns mc t g (2 * n + 2) (.run .s2 v) v.sar v.mnt (accFrom g v.as.1 (n + 1) v.i v.acc) := by
  -- after slot `u.i` has been accounted for, `n` slots remaining
  have after : ∀ (n : Nat), (∀ (v : V), v.i + n + 1 = v.as.2 →
        FSumRuns mc t g (2 * n + 2) (.run .s2 v) v.sar v.mnt (accFrom g v.as.1 (n + 1) v.i v.acc)) →
      ∀ (u : V) (l0 : L), u.i + (n + 1) + 1 = u.as.2 →
        (M floatAlg mc).step t g l0 Act.tau = some (fsumNext t g u) →
        FSumRuns mc t g (2 * n + 3) l0 u.sar u.mnt (accFrom g u.as.1 (n + 1) (u.i + 1) u.acc) := by
    intro n ih u l0 hlen hs
    have hlt : u.i + 1 < u.as.2 := by omega
    unfold fsumNext at hs
    rw [if_pos hlt] at hs
    exact FSumRuns.prepend hs (ih { u with i := u.i + 1 } (by show u.i + 1 + n + 1 = u.as.2; omega))
  have after0 : ∀ (u : V) (l0 : L), u.i + 0 + 1 = u.as.2 →
        (M floatAlg mc).step t g l0 Act.tau = some (fsumNext t g u) →
        FSumRuns mc t g 1 l0 u.sar u.mnt (accFrom g u.as.1 0 (u.i + 1) u.acc) := by
    intro u l0 hlen hs
    exact fsum_after_last (by omega) hs
  -- one slot: `s2` (and `s3` if it is occupied), then `after`
  have slot : ∀ (n K : Nat), (∀ (u : V) (l0 : L), u.i + n + 1 = u.as.2 →
        (M floatAlg mc).step t g l0 Act.tau = some (fsumNext t g u) →
        FSumRuns mc t g K l0 u.sar u.mnt (accFrom g u.as.1 n (u.i + 1) u.acc)) →
      ∀ (v : V), v.i + n + 1 = v.as.2 →
        FSumRuns mc t g (K + 1) (.run .s2 v) v.sar v.mnt (accFrom g v.as.1 (n + 1) v.i v.acc) := by
    intro n K hafter v hlen
    cases hsl : (g.arr v.as.1).slot v.i with
    | none =>
      have hacc : accFrom g v.as.1 (n + 1) v.i v.acc = accFrom g v.as.1 n (v.i + 1) v.acc := by
        simp only [accFrom, hsl]
      have hstep : (M floatAlg mc).step t g (.run .s2 v) Act.tau = some (fsumNext t g v) :=
        (fstep_tau rfl).trans (congrArg some (fstepRun_s2_none hsl))
      rw [hacc]
      exact (hafter v _ hlen hstep).weaken (by omega)
    | some c =>
      have hacc : accFrom g v.as.1 (n + 1) v.i v.acc =
          accFrom g v.as.1 n (v.i + 1) (floatAlg.add v.acc (g.cell c)) := by
        simp only [accFrom, hsl]
      have hstep : (M floatAlg mc).step t g (.run .s2 v) Act.tau = some (g, .run .s3 { v with a := c }, []) :=
        (fstep_tau rfl).trans (congrArg some (fstepRun_s2_some hsl))
      have hstep3 : (M floatAlg mc).step t g (.run .s3 { v with a := c }) Act.tau =
          some (fsumNext t g { v with a := c, acc := floatAlg.add v.acc (g.cell c) }) :=
        (fstep_tau rfl).trans (congrArg some fstepRun_s3)
      rw [hacc]
      exact FSumRuns.prepend hstep
        (hafter { v with a := c, acc := floatAlg.add v.acc (g.cell c) } _ hlen hstep3)
  intro n
  induction n with
  | zero => intro v hlen; exact slot 0 1 after0 v hlen
  | succ n ih =>
    intro v hlen
    exact slot (n + 1) (2 * n + 3) (after n ih) v hlen

theorem fstepRun_s0 {mc : Nat} {t : Tid} {g : G} {v : V} :
    stepRun floatAlg mc t g .s0 v 0 = (g, .run .s1 { v with acc := g.base }, []) := by
  simp only [stepRun, floatAlg_view]

theorem fstepRun_s1_none {mc : Nat} {t : Tid} {g : G} {v : V} (h : g.tbl = none) :
    stepRun floatAlg mc t g .s1 v 0 =
      if v.sar then (g, .run .t0 { v with x := 0 }, []) else (leave t g v, .idle, [.ret (some v.acc)]) := by
  simp only [stepRun, h, floatAlg_view]

theorem fstepRun_s1_some {mc : Nat} {t : Tid} {g : G} {v : V} {tb : Tbl} (h : g.tbl = some tb) :
    stepRun floatAlg mc t g .s1 v 0 = (g, .run .s2 { v with as := tb, i := 0 }, []) := by
  simp only [stepRun, h]

/-- the whole `Sum` phase: at most `2·len + 2` steps, computing `fsumRes g` -/
theorem fsum_phase {mc : Nat} {t : Tid} {g : G} (hG : TInv g) (v : V) :
    FSumRuns mc t g (2 * tlen g + 2) (.run .s0 v) v.sar v.mnt (fsumRes g) := by
  have h0 : (M floatAlg mc).step t g (.run .s0 v) Act.tau = some (g, .run .s1 { v with acc := g.base }, []) :=
    (fstep_tau rfl).trans (congrArg some fstepRun_s0)
  cases htb : g.tbl with
  | none =>
    have hw : fsumRes g = g.base := by unfold fsumRes; rw [htb]
    have hl : tlen g = 0 := by unfold tlen; rw [htb]
    rw [hw, hl]
    have h1 := (fstep_tau (mc := mc) (t := t) (g := g) (pc := .s1) (v := { v with acc := g.base }) rfl).trans
      (congrArg some (fstepRun_s1_none htb))
    cases hsar : v.sar
    · have hf : ¬ ({ v with acc := g.base } : V).sar = true := by
        show ¬ v.sar = true; rw [hsar]; exact Bool.false_ne_true
      rw [if_neg hf] at h1
      exact ⟨2, _, _, _, Nat.le_refl _, TauN.succ h0 (TauN.one h1), .ret _ rfl rfl⟩
    · rw [if_pos (show ({ v with acc := g.base } : V).sar = true from hsar)] at h1
      exact ⟨2, _, _, _, Nat.le_refl _, TauN.succ h0 (TauN.one h1), .cont _ rfl rfl rfl hsar rfl⟩
  | some tb =>
    have h1 := (fstep_tau (mc := mc) (t := t) (g := g) (pc := .s1) (v := { v with acc := g.base }) rfl).trans
      (congrArg some (fstepRun_s1_some htb))
    have hlen := (hG.tbl_wf tb.1 tb.2 htb).2.1
    have hw : fsumRes g = accFrom g tb.1 tb.2 0 g.base := by unfold fsumRes; rw [htb]
    have hl : tlen g = tb.2 := by unfold tlen; rw [htb]
    have hloop := fsum_loop mc t g (tb.2 - 1) { v with acc := g.base, as := tb, i := 0 }
      (by show 0 + (tb.2 - 1) + 1 = tb.2; omega)
    have e : tb.2 - 1 + 1 = tb.2 := by omega
    have hloop' : FSumRuns mc t g (2 * (tb.2 - 1) + 2) (.run .s2 { v with acc := g.base, as := tb, i := 0 })
        v.sar v.mnt (fsumRes g) := by
      rw [hw, ← e]; exact hloop
    have := FSumRuns.prepend h0 (FSumRuns.prepend h1 hloop')
    exact this.weaken (by rw [hl]; omega)

/-! ### The result of a solo `Sum` is exact -/

/-- share of slot `j`: the share of the cell attached there -/
abbrev slotShare (g : G) (a : Nat) (cm : Nat → Multiset Int) (j : Nat) : Multiset Int :=
  slotG (g.arr a).slot cm j

theorem accFrom_exact {g : G} {a : Nat} {live b : Multiset Int} {cm : Nat → Multiset Int}
    (hp : PSE live) (hvalid : ∀ j c, (g.arr a).slot j = some c → c < g.ncell)
    (hc : ∀ k, k < g.ncell → Holds (g.cell k) (cm k)) :
    ∀ (n i : Nat) (acc : Int), b + sumN (slotShare g a cm) (i + n) ≤ live →
      Holds acc (b + sumN (slotShare g a cm) i) →
      Holds (accFrom g a n i acc) (b + sumN (slotShare g a cm) (i + n)) := by
  intro n
  induction n with
  | zero => intro i acc _ h; exact h
  | succ n ih =>
    intro i acc hle h
    have e : i + (n + 1) = (i + 1) + n := by omega
    rw [e] at hle ⊢
    simp only [accFrom]
    apply ih (i + 1) _ hle
    have hle1 : b + sumN (slotShare g a cm) (i + 1) ≤ live :=
      le_trans (Multiset.add_le_add_left (sumN_le (by omega))) hle
    cases hsl : (g.arr a).slot i with
    | none =>
      have : slotShare g a cm i = 0 := by simp only [slotShare, slotG, hsl]
      simp only [sumN, this, add_zero]
      exact h
    | some c =>
      have hs : slotShare g a cm i = cm c := by simp only [slotShare, slotG, hsl]
      have hadd := h.add (hc c (hvalid i c hsl)) (by
        have := hp.2 _ hle1
        simp only [sumN, hs, ← add_assoc] at this
        exact this)
      simp only [sumN, hs, ← add_assoc]
      exact hadd

/-- **The value computed by a solo `Sum` is exact**: if the heap holds exactly `live` and the hypothesis
    holds for `live`, `fsumRes g` is a finite float whose rational value is the exact total of `live`. -/
theorem fsumRes_exact {g : G} {live : Multiset Int} (hG : TInv g) (hE : ExactHeap g live) (hp : PSE live) :
    Holds (fsumRes g) live := by
  obtain ⟨b, cm, hsplit, hb, hc⟩ := hE
  unfold fsumRes
  cases htb : g.tbl with
  | none =>
    have hn0 := tinv_ncell0 hG htb
    rw [hn0] at hsplit
    simp only [sumN, add_zero] at hsplit
    rw [← hsplit]; exact hb
  | some tb =>
    obtain ⟨a, len⟩ := tb
    obtain ⟨ha, _, _, _⟩ := hG.tbl_wf a len htb
    have hslots : sumN (slotShare g a cm) len = sumN cm g.ncell := by
      apply sumN_slots_eq
      · intro j c hs; exact hG.slot_valid a j c ha hs
      · intro j1 j2 c h1 h2; exact hG.inj a len j1 j2 c htb h1 h2
      · intro c hc'
        obtain ⟨a', len', i, ht', hi, hs⟩ := hG.all_in c hc'
        rw [htb] at ht'; cases ht'
        exact ⟨i, hi, hs⟩
    have key := accFrom_exact (g := g) (a := a) (b := b) hp (fun j c hs => hG.slot_valid a j c ha hs) hc
      len 0 g.base (by rw [Nat.zero_add, hslots, hsplit]) (by simpa [sumN] using hb)
    rw [Nat.zero_add, hslots, hsplit] at key
    exact key

/-! ### Solo `Sum` from a quiescent configuration -/

theorem fsum_solo_raw {mc : Nat} {g : G} {l : Tid → L} (hI : SInvAt g l) (hidle : ∀ u, l u = L.idle) (t : Tid) :
    ∃ g1 l1, step floatAlg mc t g (l t) Act.sum = some (g1, l1, []) ∧
      ∃ k, k ≤ 2 * tlen g + 2 ∧
        soloRun (M floatAlg mc) Act.tau t k ⟨g1, upd l t l1⟩ = (⟨g, l⟩, [Obs.ret (some (fsumRes g))]) := by
  obtain ⟨ha, hm⟩ := squiet_of_idle hI hidle
  refine ⟨{ g with actv := t :: g.actv }, .run .s0 {}, ?_, ?_⟩
  · rw [hidle t]; simp [step, hm]
  · have hG1 : TInv { g with actv := t :: g.actv } := hI.tinv.congr rfl rfl rfl rfl
    obtain ⟨k, g', l', obs, hk, hrun, hexit⟩ := fsum_phase (mc := mc) (t := t) hG1 {}
    refine ⟨k, hk, ?_⟩
    have hsolo := soloRun_of_TauN hrun { g with actv := t :: g.actv } (upd l t (.run .s0 {})) rfl (upd_same _ _ _)
    cases hexit with
    | ret v' _ hv' =>
      rw [hsolo]
      exact solo_result_eq (leave_after_start ha hv') (upd_back l t _ _ (hidle t))
        (congrArg (fun z => [Obs.ret (some z)]) (fsumRes_congr rfl rfl rfl rfl))
    | cont v' h => cases h

/-- **Striped float adder, quiescent read.**  From a configuration with every thread idle whose heap holds
    exactly `live`, with the hypothesis on `live`: `Sum` run alone by any thread returns, in at most
    `2·len + 2` steps, a finite float `r` whose rational value is the exact total of `live`, and restores the
    configuration. -/
theorem fsum_solo {mc : Nat} {c : Config (M floatAlg mc)} {live : Multiset Int} (hE : FExact c live)
    (hp : PSE live) (hidle : ∀ u, c.l u = L.idle) (t : Tid) :
    ∃ g1 l1, (M floatAlg mc).step t c.g (c.l t) Act.sum = some (g1, l1, []) ∧
      ∃ k r, k ≤ 2 * tlen c.g + 2 ∧
        soloRun (M floatAlg mc) Act.tau t k ⟨g1, upd c.l t l1⟩ = (c, [Obs.ret (some r)]) ∧
        IsFinBits r ∧ fval r = qsum live := by
  have hI : SInvAt c.g c.l := sinv_reach floatAlg mc c hE.1
  obtain ⟨g1, l1, hs, k, hk, hrun⟩ := fsum_solo_raw (mc := mc) hI hidle t
  have hr := fsumRes_exact hI.tinv hE.2.2 hp
  exact ⟨g1, l1, hs, k, fsumRes c.g, hk, hrun, hr.1, hr.2⟩

/-! ## Maintenance operations running alone (float `Store` / `Reset` / `SumAndReset`) -/

theorem fstepRun_t0 {mc : Nat} {t : Tid} {g : G} {v : V} :
    stepRun floatAlg mc t g .t0 v 0 = (storeBase g v.x, .run .t1 v, []) := by
  simp only [stepRun]

theorem fstepRun_t1_none {mc : Nat} {t : Tid} {g : G} {v : V} (h : g.tbl = none) :
    stepRun floatAlg mc t g .t1 v 0 =
      (leave t g v, .idle, [.ret (if v.sar then some v.acc else none)]) := by
  simp only [stepRun, h, floatAlg_view]

theorem fstepRun_t1_some {mc : Nat} {t : Tid} {g : G} {v : V} {tb : Tbl} (h : g.tbl = some tb) :
    stepRun floatAlg mc t g .t1 v 0 = (g, .run .t2 { v with as := tb, i := 0 }, []) := by
  simp only [stepRun, h]

theorem fstepRun_t2_lt {mc : Nat} {t : Tid} {g : G} {v : V} (h : v.i + 1 < v.as.2) :
    stepRun floatAlg mc t g .t2 v 0 = (g, .run .t2 { v with i := v.i + 1 }, []) := by
  simp only [stepRun, if_pos h]

theorem fstepRun_t2_ge {mc : Nat} {t : Tid} {g : G} {v : V} (h : ¬ v.i + 1 < v.as.2) :
    stepRun floatAlg mc t g .t2 v 0 = (g, .run .t3 v, []) := by
  simp only [stepRun, if_neg h]

theorem fstepRun_t3 {mc : Nat} {t : Tid} {g : G} {v : V} :
    stepRun floatAlg mc t g .t3 v 0 =
      (leave t (storeTable g v.as.2) v, .idle, [.ret (if v.sar then some v.acc else none)]) := by
  simp only [stepRun, floatAlg_view]

/-- the `t2` loop walks the `len` slots -/
theorem fstore_loop (mc : Nat) (t : Tid) (g : G) : ∀ (n : Nat) (v : V), v.i + n + 1 = v.as.2 →
    ∃ v', v'.as = v.as ∧ v'.sar = v.sar ∧ v'.acc = v.acc ∧ v'.mnt = v.mnt ∧
      FTau mc t (n + 1) g (.run .t2 v) g (.run .t3 v') [] := by
  intro n
  induction n with
  | zero =>
    intro v h
    have hn : ¬ v.i + 1 < v.as.2 := by omega
    exact ⟨v, rfl, rfl, rfl, rfl, TauN.one ((fstep_tau rfl).trans (congrArg some (fstepRun_t2_ge hn)))⟩
  | succ n ih =>
    intro v h
    have hlt : v.i + 1 < v.as.2 := by omega
    obtain ⟨v', h1, h2, h3, h4, hr⟩ := ih { v with i := v.i + 1 } (by show v.i + 1 + n + 1 = v.as.2; omega)
    exact ⟨v', h1, h2, h3, h4, TauN.succ ((fstep_tau rfl).trans (congrArg some (fstepRun_t2_lt hlt))) hr⟩

/-- the whole `Store` phase (also the second half of `SumAndReset`): at most `len + 3` steps, ending outside
    the operation with `base = v.x` and every cell of the (fresh) table zero -/
theorem fstore_phase {mc : Nat} {t : Tid} {g : G} (hG : TInv g) (v : V) (hm : v.mnt = true) :
    ∃ k g', k ≤ tlen g + 3 ∧
      FTau mc t k g (.run .t0 v) g' .idle [.ret (if v.sar then some v.acc else none)] ∧
      g'.base = v.x ∧ (∀ k, k < g'.ncell → g'.cell k = 0) ∧ g'.actv = [] ∧ g'.maint = false := by
  have h0 : (M floatAlg mc).step t g (.run .t0 v) Act.tau = some (storeBase g v.x, .run .t1 v, []) :=
    (fstep_tau rfl).trans (congrArg some fstepRun_t0)
  cases htb : g.tbl with
  | none =>
    have htb' : (storeBase g v.x).tbl = none := htb
    have h1 := (fstep_tau (mc := mc) (t := t) (g := storeBase g v.x) (pc := .t1) (v := v) rfl).trans
      (congrArg some (fstepRun_t1_none htb'))
    refine ⟨2, _, by omega, TauN.succ h0 (TauN.one h1), ?_, ?_, ?_, ?_⟩
    · simp only [leave_base, storeBase]
    · intro k hk
      have hn0 := tinv_ncell0 hG htb
      simp only [leave_ncell, storeBase] at hk
      omega
    · simp [leave, hm]
    · simp [leave, hm]
  | some tb =>
    have htb' : (storeBase g v.x).tbl = some tb := htb
    have hlen := (hG.tbl_wf tb.1 tb.2 htb).2.1
    have hl : tlen g = tb.2 := by unfold tlen; rw [htb]
    have h1 := (fstep_tau (mc := mc) (t := t) (g := storeBase g v.x) (pc := .t1) (v := v) rfl).trans
      (congrArg some (fstepRun_t1_some htb'))
    obtain ⟨v', e1, e2, e3, e4, hloop⟩ := fstore_loop mc t (storeBase g v.x) (tb.2 - 1) { v with as := tb, i := 0 }
      (by show 0 + (tb.2 - 1) + 1 = tb.2; omega)
    have h3 := (fstep_tau (mc := mc) (t := t) (g := storeBase g v.x) (pc := .t3) (v := v') rfl).trans
      (congrArg some fstepRun_t3)
    have e2' : v'.sar = v.sar := e2
    have e3' : v'.acc = v.acc := e3
    have e4' : v'.mnt = true := by rw [e4]; exact hm
    rw [e2', e3'] at h3
    have hrun := TauN.succ h0 (TauN.succ h1 (TauN.trans hloop (TauN.one h3)))
    refine ⟨_, _, ?_, hrun, ?_, ?_, ?_, ?_⟩
    · rw [hl]; omega
    · simp only [leave_base, storeTable, storeBase]
    · intro k _; simp only [leave_cell, storeTable]
    · simp [leave, e4']
    · simp [leave, e4']

/-- a heap left by `Store x`: `base = x`, all cells zero -/
theorem exactHeap_stored {g : G} {x : Int} (hb : g.base = x) (hc : ∀ k, k < g.ncell → g.cell k = 0)
    (hx : IsFinBits x) : ExactHeap g {x} :=
  ⟨{x}, fun _ => 0, by rw [sumN_zero, add_zero], by rw [hb]; exact holds_single hx,
    fun k hk => by rw [hc k hk]; exact holds_zero⟩

/-- a heap left by `Reset` / `SumAndReset`: everything zero -/
theorem exactHeap_reset {g : G} (hb : g.base = 0) (hc : ∀ k, k < g.ncell → g.cell k = 0) : ExactHeap g 0 :=
  ⟨0, fun _ => 0, by rw [sumN_zero, add_zero], by rw [hb]; exact holds_zero,
    fun k hk => by rw [hc k hk]; exact holds_zero⟩

/-- common part: a maintenance run from a quiescent configuration, given its thread-level run -/
theorem fmaint_solo_raw {mc : Nat} {l : Tid → L} (hidle : ∀ u, l u = L.idle) (t : Tid)
    {g1 g' : G} {l1 : L} {k : Nat} {obs : List Obs} (hrun : FTau mc t k g1 l1 g' L.idle obs) :
    soloRun (M floatAlg mc) Act.tau t k ⟨g1, upd l t l1⟩ = (⟨g', l⟩, obs) := by
  rw [soloRun_of_TauN hrun g1 (upd l t l1) rfl (upd_same _ _ _)]
  exact solo_result_eq rfl (upd_back l t _ _ (hidle t)) rfl

theorem fstore_solo_raw {mc : Nat} {g : G} {l : Tid → L} (hI : SInvAt g l) (hidle : ∀ u, l u = L.idle) (t : Tid)
    (w : Int) :
    ∃ g1 l1, step floatAlg mc t g (l t) (Act.store w) = some (g1, l1, []) ∧
      ∃ k g', k ≤ tlen g + 3 ∧
        soloRun (M floatAlg mc) Act.tau t k ⟨g1, upd l t l1⟩ = (⟨g', l⟩, [Obs.ret none]) ∧
        g'.base = w ∧ (∀ k, k < g'.ncell → g'.cell k = 0) ∧ g'.maint = false := by
  obtain ⟨ha, hm⟩ := squiet_of_idle hI hidle
  refine ⟨{ g with actv := [t], maint := true }, .run .t0 { x := w, mnt := true }, ?_, ?_⟩
  · rw [hidle t]; simp [step, ha, hm]
  · have hG1 : TInv { g with actv := [t], maint := true } := hI.tinv.congr rfl rfl rfl rfl
    obtain ⟨k, g', hk, hrun, hb, hc, _, hm'⟩ := fstore_phase (mc := mc) (t := t) hG1 { x := w, mnt := true } rfl
    exact ⟨k, g', hk, fmaint_solo_raw hidle t hrun, hb, hc, hm'⟩

theorem freset_solo_raw {mc : Nat} {g : G} {l : Tid → L} (hI : SInvAt g l) (hidle : ∀ u, l u = L.idle) (t : Tid) :
    ∃ g1 l1, step floatAlg mc t g (l t) Act.reset = some (g1, l1, []) ∧
      ∃ k g', k ≤ tlen g + 3 ∧
        soloRun (M floatAlg mc) Act.tau t k ⟨g1, upd l t l1⟩ = (⟨g', l⟩, [Obs.ret none]) ∧
        g'.base = 0 ∧ (∀ k, k < g'.ncell → g'.cell k = 0) ∧ g'.maint = false := by
  obtain ⟨ha, hm⟩ := squiet_of_idle hI hidle
  refine ⟨{ g with actv := [t], maint := true }, .run .t0 { x := 0, mnt := true }, ?_, ?_⟩
  · rw [hidle t]; simp [step, ha, hm]
  · have hG1 : TInv { g with actv := [t], maint := true } := hI.tinv.congr rfl rfl rfl rfl
    obtain ⟨k, g', hk, hrun, hb, hc, _, hm'⟩ := fstore_phase (mc := mc) (t := t) hG1 { x := 0, mnt := true } rfl
    exact ⟨k, g', hk, fmaint_solo_raw hidle t hrun, hb, hc, hm'⟩

theorem fsumAndReset_solo_raw {mc : Nat} {g : G} {l : Tid → L} (hI : SInvAt g l) (hidle : ∀ u, l u = L.idle)
    (t : Tid) :
    ∃ g1 l1, step floatAlg mc t g (l t) Act.sumAndReset = some (g1, l1, []) ∧
      ∃ k g', k ≤ 3 * tlen g + 5 ∧
        soloRun (M floatAlg mc) Act.tau t k ⟨g1, upd l t l1⟩ = (⟨g', l⟩, [Obs.ret (some (fsumRes g))]) ∧
        g'.base = 0 ∧ (∀ k, k < g'.ncell → g'.cell k = 0) ∧ g'.maint = false := by
  obtain ⟨ha, hm⟩ := squiet_of_idle hI hidle
  refine ⟨{ g with actv := [t], maint := true }, .run .s0 { sar := true, mnt := true }, ?_, ?_⟩
  · rw [hidle t]; simp [step, ha, hm]
  · have hG1 : TInv { g with actv := [t], maint := true } := hI.tinv.congr rfl rfl rfl rfl
    obtain ⟨k1, g', l', obs, hk1, hrun1, hexit⟩ :=
      fsum_phase (mc := mc) (t := t) hG1 { sar := true, mnt := true }
    have hval : fsumRes { g with actv := [t], maint := true } = fsumRes g := fsumRes_congr rfl rfl rfl rfl
    cases hexit with
    | ret v' h => cases h
    | cont v' _ hx hacc hsar hmnt =>
      obtain ⟨k2, g2, hk2, hrun2, hb, hc, _, hm'⟩ := fstore_phase (mc := mc) (t := t) hG1 v' hmnt
      rw [if_pos hsar, hacc] at hrun2
      have hrun := TauN.trans hrun1 hrun2
      have hlen : tlen { g with actv := [t], maint := true } = tlen g := rfl
      refine ⟨k2 + k1, g2, by rw [hlen] at hk1 hk2; omega, ?_, by rw [hb, hx], hc, hm'⟩
      rw [fmaint_solo_raw hidle t hrun]
      exact solo_result_eq rfl rfl (congrArg (fun z => [Obs.ret (some z)]) hval)

/-- a solo run that ends in `⟨g', c.l⟩` from a reachable configuration: that configuration is reachable -/
theorem fsolo_reach {mc : Nat} {c : Config (M floatAlg mc)} (hr : Reach (M floatAlg mc) c)
    {t : Tid} {a : Act} {g1 : G} {l1 : L} {k : Nat} {g' : G} {obs : List Obs}
    (hs : (M floatAlg mc).step t c.g (c.l t) a = some (g1, l1, []))
    (hrun : soloRun (M floatAlg mc) Act.tau t k ⟨g1, upd c.l t l1⟩ = (⟨g', c.l⟩, obs)) :
    Reach (M floatAlg mc) ⟨g', c.l⟩ := by
  have h1 : Reach (M floatAlg mc) ⟨g1, upd c.l t l1⟩ := Reach.step hr hs
  have := reach_soloRun (M floatAlg mc) Act.tau (t := t) k h1
  rw [hrun] at this
  exact this

/-- **Float `Store w`, alone** from a reachable all-idle configuration (`w` a finite float): ends, after at
    most `len + 3` steps, in an all-idle configuration whose heap holds exactly `{w}`. -/
theorem fstore_solo {mc : Nat} {c : Config (M floatAlg mc)} (hr : Reach (M floatAlg mc) c)
    (hidle : ∀ u, c.l u = L.idle) (t : Tid) (w : Int) (hw : IsFinBits w) :
    ∃ g1 l1, (M floatAlg mc).step t c.g (c.l t) (Act.store w) = some (g1, l1, []) ∧
      ∃ k c', k ≤ tlen c.g + 3 ∧
        soloRun (M floatAlg mc) Act.tau t k ⟨g1, upd c.l t l1⟩ = (c', [Obs.ret none]) ∧
        (∀ u, c'.l u = L.idle) ∧ FExact c' {w} := by
  obtain ⟨g1, l1, hs, k, g', hk, hrun, hb, hc, hm⟩ :=
    fstore_solo_raw (mc := mc) (sinv_reach floatAlg mc c hr) hidle t w
  exact ⟨g1, l1, hs, k, ⟨g', c.l⟩, hk, hrun, hidle, fsolo_reach hr hs hrun, hm, exactHeap_stored hb hc hw⟩

/-- **Float `Reset`, alone**: ends in an all-idle configuration whose heap holds exactly nothing. -/
theorem freset_solo {mc : Nat} {c : Config (M floatAlg mc)} (hr : Reach (M floatAlg mc) c)
    (hidle : ∀ u, c.l u = L.idle) (t : Tid) :
    ∃ g1 l1, (M floatAlg mc).step t c.g (c.l t) Act.reset = some (g1, l1, []) ∧
      ∃ k c', k ≤ tlen c.g + 3 ∧
        soloRun (M floatAlg mc) Act.tau t k ⟨g1, upd c.l t l1⟩ = (c', [Obs.ret none]) ∧
        (∀ u, c'.l u = L.idle) ∧ FExact c' 0 := by
  obtain ⟨g1, l1, hs, k, g', hk, hrun, hb, hc, hm⟩ :=
    freset_solo_raw (mc := mc) (sinv_reach floatAlg mc c hr) hidle t
  exact ⟨g1, l1, hs, k, ⟨g', c.l⟩, hk, hrun, hidle, fsolo_reach hr hs hrun, hm, exactHeap_reset hb hc⟩

/-- **Float `SumAndReset`, alone** from an all-idle configuration whose heap holds exactly `live` (hypothesis
    on `live`): returns a finite float whose rational value is the exact total of `live`, and ends in an
    all-idle configuration whose heap holds exactly nothing. -/
theorem fsumAndReset_solo {mc : Nat} {c : Config (M floatAlg mc)} {live : Multiset Int} (hE : FExact c live)
    (hp : PSE live) (hidle : ∀ u, c.l u = L.idle) (t : Tid) :
    ∃ g1 l1, (M floatAlg mc).step t c.g (c.l t) Act.sumAndReset = some (g1, l1, []) ∧
      ∃ k c' r, k ≤ 3 * tlen c.g + 5 ∧
        soloRun (M floatAlg mc) Act.tau t k ⟨g1, upd c.l t l1⟩ = (c', [Obs.ret (some r)]) ∧
        IsFinBits r ∧ fval r = qsum live ∧ (∀ u, c'.l u = L.idle) ∧ FExact c' 0 := by
  have hI : SInvAt c.g c.l := sinv_reach floatAlg mc c hE.1
  obtain ⟨g1, l1, hs, k, g', hk, hrun, hb, hc, hm⟩ := fsumAndReset_solo_raw (mc := mc) hI hidle t
  have hr := fsumRes_exact hI.tinv hE.2.2 hp
  exact ⟨g1, l1, hs, k, ⟨g', c.l⟩, fsumRes c.g, hk, hrun, hr.1, hr.2, hidle, fsolo_reach hE.1 hs hrun, hm,
    exactHeap_reset hb hc⟩

/-! ## Invocation accounting with multisets: the `lp` operands are the operands of the accepted `Add`s -/

section Acct
variable (Mch : Machine) (inv : Mch.L → Mch.Act → Multiset Int) (pend : Mch.L → Multiset Int)
  (lpOf : Mch.Obs → Multiset Int)

/-- operands of the `lp`s among one step's observations, as a multiset -/
def obsOps : List Mch.Obs → Multiset Int
  | [] => 0
  | o :: r => lpOf o + obsOps r

/-- operands of the `lp`s of a log, as a multiset -/
def logOps : List (Tid × Mch.Obs) → Multiset Int
  | [] => 0
  | e :: r => lpOf e.2 + logOps r

/-- operands of the invocations accepted along a schedule (`inv l a` = what the invocation `a` from local
    state `l` contributes) -/
def invokedM : Mch.G → (Tid → Mch.L) → List (Tid × Mch.Act) → Multiset Int
  | _, _, [] => 0
  | g, ls, (t, a) :: rest =>
    match Mch.step t g (ls t) a with
    | none => invokedM g ls rest
    | some (g', l', _) => inv (ls t) a + invokedM g' (upd ls t l') rest

/-- the same as a list, in schedule order (`invl l a` = the operands the invocation contributes) -/
def invokedL (invl : Mch.L → Mch.Act → List Int) : Mch.G → (Tid → Mch.L) → List (Tid × Mch.Act) → List Int
  | _, _, [] => []
  | g, ls, (t, a) :: rest =>
    match Mch.step t g (ls t) a with
    | none => invokedL invl g ls rest
    | some (g', l', _) => invl (ls t) a ++ invokedL invl g' (upd ls t l') rest

theorem coe_invokedL (invl : Mch.L → Mch.Act → List Int) :
    ∀ (s : List (Tid × Mch.Act)) (g : Mch.G) (ls : Tid → Mch.L),
      (invokedL Mch invl g ls s : Multiset Int) = invokedM Mch (fun l a => (invl l a : Multiset Int)) g ls s := by
  intro s
  induction s with
  | nil => intro g ls; rfl
  | cons ta rest ih =>
    intro g ls
    obtain ⟨t, a⟩ := ta
    cases h : Mch.step t g (ls t) a with
    | none => simp only [invokedL, invokedM, h]; exact ih g ls
    | some r =>
      obtain ⟨g', l', obs⟩ := r
      simp only [invokedL, invokedM, h]
      rw [← Multiset.coe_add, ih]

variable {Mch inv pend lpOf}

theorem logOps_append (a b : List (Tid × Mch.Obs)) :
    logOps Mch lpOf (a ++ b) = logOps Mch lpOf a + logOps Mch lpOf b := by
  induction a with
  | nil => simp [logOps]
  | cons e r ih => simp only [List.cons_append, logOps, ih, add_assoc]

theorem logOps_tag (t : Tid) (obs : List Mch.Obs) :
    logOps Mch lpOf (obs.map (fun o => (t, o))) = obsOps Mch lpOf obs := by
  induction obs with
  | nil => rfl
  | cons o r ih => simp only [List.map_cons, logOps, obsOps, ih]

theorem sumN_pend_upd (l : Tid → Mch.L) (t : Tid) (l' : Mch.L) (N : Nat) (ht : t < N) :
    sumN (fun u => pend (upd l t l' u)) N + pend (l t) = sumN (fun u => pend (l u)) N + pend l' := by
  rw [← sumN_replace (fun u => pend (l u)) N t (pend l') ht]
  congr 1
  apply sumN_congr
  intro k _
  unfold upd
  split <;> rfl

/-- accounting along a run: accepted invocations + initially pending = `lp`s + finally pending -/
theorem acct_run (hlaw : ∀ t g l a g' l' obs, Mch.step t g l a = some (g', l', obs) →
      inv l a + pend l = obsOps Mch lpOf obs + pend l') (N : Nat) :
    ∀ (s : List (Tid × Mch.Act)) (c : Config Mch), (∀ e ∈ s, e.1 < N) →
      invokedM Mch inv c.g c.l s + sumN (fun u => pend (c.l u)) N =
        logOps Mch lpOf (run Mch c s).2 + sumN (fun u => pend ((run Mch c s).1.l u)) N := by
  intro s
  induction s with
  | nil => intro c _; simp [invokedM, logOps, run]
  | cons ta rest ih =>
    intro c hN
    obtain ⟨t, a⟩ := ta
    have ht : t < N := hN (t, a) (List.mem_cons_self ..)
    have hrest : ∀ e ∈ rest, e.1 < N := fun e he => hN e (List.mem_cons_of_mem _ he)
    cases h : Mch.step t c.g (c.l t) a with
    | none =>
      rw [Simple.srun_cons_none h]
      simp only [invokedM, h]
      exact ih c hrest
    | some r =>
      obtain ⟨g', l', obs⟩ := r
      rw [Simple.srun_cons_some h]
      simp only [invokedM, h]
      have hIH := ih ⟨g', upd c.l t l'⟩ hrest
      have hL := hlaw t c.g (c.l t) a g' l' obs h
      have hR := sumN_pend_upd (pend := pend) c.l t l' N ht
      simp only at hIH ⊢
      rw [logOps_append, logOps_tag]
      generalize invokedM Mch inv g' (upd c.l t l') rest = I' at hIH ⊢
      generalize logOps Mch lpOf (run Mch ⟨g', upd c.l t l'⟩ rest).2 = Lr at hIH ⊢
      generalize sumN (fun u => pend ((run Mch ⟨g', upd c.l t l'⟩ rest).1.l u)) N = Sf at hIH ⊢
      generalize sumN (fun u => pend (upd c.l t l' u)) N = S' at hIH hR
      generalize sumN (fun u => pend (c.l u)) N = S at hR ⊢
      generalize inv (c.l t) a = I0 at hL ⊢
      generalize obsOps Mch lpOf obs = O at hL ⊢
      generalize pend (c.l t) = P at hL hR
      generalize pend l' = P' at hL hR
      apply add_right_cancel (b := P')
      calc I0 + I' + S + P' = I0 + I' + (S + P') := by rw [add_assoc]
        _ = I0 + I' + (S' + P) := by rw [hR]
        _ = (I0 + P) + (I' + S') := by simp only [add_comm, add_left_comm]
        _ = (O + P') + (Lr + Sf) := by rw [hL, hIH]
        _ = O + Lr + Sf + P' := by simp only [add_comm, add_left_comm]

theorem exists_tid_bound_gen {α : Type} (s : List (Tid × α)) : ∃ N, ∀ e ∈ s, e.1 < N := by
  induction s with
  | nil => exact ⟨0, fun _ h => by simp at h⟩
  | cons e r ih =>
    obtain ⟨N, hN⟩ := ih
    refine ⟨max N (e.1 + 1), fun e' he' => ?_⟩
    rcases List.mem_cons.mp he' with rfl | h
    · exact Nat.lt_of_lt_of_le (Nat.lt_succ_self _) (Nat.le_max_right _ _)
    · exact Nat.lt_of_lt_of_le (hN e' h) (Nat.le_max_left _ _)

theorem sumN_pend_zero (l : Tid → Mch.L) (N : Nat) (h : ∀ u, pend (l u) = 0) :
    sumN (fun u => pend (l u)) N = 0 := by
  rw [sumN_congr (g := fun _ => (0 : Multiset Int)) (fun k _ => h k), sumN_zero]

/-- between two configurations with nothing pending, the `lp` operands of the log are exactly (as a multiset)
    the operands of the invocations accepted in between -/
theorem acct_quiescent (hlaw : ∀ t g l a g' l' obs, Mch.step t g l a = some (g', l', obs) →
      inv l a + pend l = obsOps Mch lpOf obs + pend l')
    (c0 : Config Mch) (s : List (Tid × Mch.Act)) (hq0 : ∀ u, pend (c0.l u) = 0)
    (hq : ∀ u, pend ((run Mch c0 s).1.l u) = 0) :
    logOps Mch lpOf (run Mch c0 s).2 = invokedM Mch inv c0.g c0.l s := by
  obtain ⟨N, hN⟩ := exists_tid_bound_gen s
  have h := acct_run hlaw N s c0 hN
  rw [sumN_pend_zero _ N hq, sumN_pend_zero _ N hq0, add_zero, add_zero] at h
  exact h.symm

end Acct

/-- the operand carried by an `lp` marker, as a multiset -/
def lpM : Obs → Multiset Int
  | .lp x => {x}
  | .ret _ => 0

theorem logOps_lpsLog (G' L' Act' : Type) (init : G') (idle : L')
    (step : Tid → G' → L' → Act' → Option (G' × L' × List Obs)) (lg : List (Tid × Obs)) :
    logOps ⟨G', L', Act', Obs, init, idle, step⟩ lpM lg = (lpsLog lg : Multiset Int) := by
  induction lg with
  | nil => rfl
  | cons e r ih =>
    obtain ⟨t, o⟩ := e
    cases o
    · simp only [logOps, lpsLog, lpM] at ih ⊢
      rw [ih, Multiset.singleton_add]; rfl
    · simp only [logOps, lpsLog, lpM, zero_add] at ih ⊢
      exact ih

theorem obsOps_lps (G' L' Act' : Type) (init : G') (idle : L')
    (step : Tid → G' → L' → Act' → Option (G' × L' × List Obs)) (obs : List Obs) :
    obsOps ⟨G', L', Act', Obs, init, idle, step⟩ lpM obs = (lps obs : Multiset Int) := by
  induction obs with
  | nil => rfl
  | cons o r ih =>
    cases o
    · simp only [obsOps, lps, lpM] at ih ⊢
      rw [ih, Multiset.singleton_add]; rfl
    · simp only [obsOps, lps, lpM, zero_add] at ih ⊢
      exact ih

/-! ### Striped float adder -/

/-- the operand of an `Add` that has not reached its linearization point yet -/
def pendA : L → Multiset Int
  | .idle => 0
  | .run pc v => if preLP pc then {v.x} else 0

/-- the operand contributed by an invocation -/
def invAL : L → Act → List Int
  | .idle, .add x => [x]
  | _, _ => []

/-- the same as a multiset -/
def invA (l : L) (a : Act) : Multiset Int := (invAL l a : Multiset Int)

/-- the operands (bit patterns, in schedule order) of the `Add` invocations accepted along schedule `s`, run
    from heap `g` and locals `ls` -/
def invokedAdds (mc : Nat) (g : G) (ls : Tid → L) (s : List (Tid × Act)) : List Int :=
  invokedL (M floatAlg mc) invAL g ls s

set_option maxHeartbeats 1000000 in
theorem stepRun_pendA {mc : Nat} {t : Tid} {g : G} {pc : PC} {v : V} {w : Nat} {g' : G} {l' : L} {obs : List Obs}
    (hs : stepRun floatAlg mc t g pc v w = (g', l', obs)) :
    pendA (.run pc v) = (lps obs : Multiset Int) + pendA l' := by
  cases pc <;> simp only [stepRun, floatAlg_float, retAdd, ↓reduceIte] at hs <;>
    (repeat' split at hs) <;> fin hs <;>
    simp [pendA, preLP, lps]

theorem step_lawA {mc : Nat} (t : Tid) (g : G) (l : L) (a : Act) (g' : G) (l' : L) (obs : List Obs)
    (hs : step floatAlg mc t g l a = some (g', l', obs)) :
    invA l a + pendA l = (lps obs : Multiset Int) + pendA l' := by
  cases l <;> cases a <;> simp only [step] at hs <;> try contradiction
  case idle.add x => split at hs <;> cases hs; simp [invA, invAL, pendA, preLP, lps]
  case idle.sum => split at hs <;> cases hs; simp [invA, invAL, pendA, preLP, lps]
  case idle.store x => split at hs <;> cases hs; simp [invA, invAL, pendA, preLP, lps]
  case idle.reset => split at hs <;> cases hs; simp [invA, invAL, pendA, preLP, lps]
  case idle.sumAndReset => split at hs <;> cases hs; simp [invA, invAL, pendA, preLP, lps]
  case run.tau pc v =>
    split at hs; · cases hs
    simp only [Option.some.injEq] at hs
    rw [stepRun_pendA hs]; simp [invA, invAL]
  case run.rnd pc v w =>
    split at hs
    · simp only [Option.some.injEq] at hs
      rw [stepRun_pendA hs]; simp [invA, invAL]
    · cases hs

/-- **Every `Add` takes effect exactly once (striped float adder).**  Between two configurations in which no
    `Add` is waiting for its linearization point (e.g. every thread idle), the operands of the `lp`s of the log
    are — as a multiset — exactly the operands of the `Add` invocations accepted in between. -/
theorem lps_invoked {mc : Nat} (c0 : Config (M floatAlg mc)) (s : List (Tid × Act))
    (hq0 : ∀ u, pendA (c0.l u) = 0) (hq : ∀ u, pendA ((run (M floatAlg mc) c0 s).1.l u) = 0) :
    (lpsLog (run (M floatAlg mc) c0 s).2 : Multiset Int) = (invokedAdds mc c0.g c0.l s : Multiset Int) := by
  have e1 : (invokedAdds mc c0.g c0.l s : Multiset Int) = invokedM (M floatAlg mc) invA c0.g c0.l s :=
    coe_invokedL (M floatAlg mc) invAL s c0.g c0.l
  have h := acct_quiescent (Mch := M floatAlg mc) (inv := invA) (pend := pendA) (lpOf := lpM)
    (by
      intro t g l a g' l' obs hs
      have e : obsOps (M floatAlg mc) lpM obs = (lps obs : Multiset Int) := obsOps_lps _ _ _ _ _ _ obs
      rw [e]
      exact step_lawA t g l a g' l' obs hs)
    c0 s hq0 hq
  have e : logOps (M floatAlg mc) lpM (run (M floatAlg mc) c0 s).2 =
      (lpsLog (run (M floatAlg mc) c0 s).2 : Multiset Int) := logOps_lpsLog _ _ _ _ _ _ _
  exact (e.symm.trans h).trans e1.symm

theorem pendA_idle {l : L} (h : l = L.idle) : pendA l = 0 := by rw [h]; rfl

/-! ### Simple float adder -/

section SimpleAcct
open Garr.Adder.Simple

/-- the operand of the `Add` a thread is executing -/
def pendS (l : SL) : Multiset Int :=
  match addArg l with
  | some x => {x}
  | none => 0

def invSL : SL → SAct → List Int
  | .idle, .add x => [x]
  | _, _ => []

def invS (l : SL) (a : SAct) : Multiset Int := (invSL l a : Multiset Int)

/-- the operands (in schedule order) of the `Add` invocations accepted along schedule `s` -/
def invokedAddsS (P : Params) (g : SG) (ls : Tid → SL) (s : List (Tid × SAct)) : List Int :=
  invokedL (Simple.M P) invSL g ls s

theorem pendS_entry (P : Params) (x : Int) :
    pendS (if P.draws then .addDraw x else (if P.casLoop then .addLd x 0 else .addAt x 0)) = {x} := by
  simp [pendS, addArg_entry]

theorem pendS_drawn (P : Params) (x : Int) (j : Nat) :
    pendS (if P.casLoop then .addLd x j else .addAt x j) = {x} := by
  simp [pendS, addArg_drawn]

theorem step_lawS {P : Params} (t : Tid) (g : SG) (l : SL) (a : SAct) (g' : SG) (l' : SL) (obs : List Obs)
    (hs : (Simple.M P).step t g l a = some (g', l', obs)) :
    invS l a + pendS l = (lps obs : Multiset Int) + pendS l' := by
  cases sstep_of_step (t := t) hs
  case invAdd x => rw [pendS_entry]; simp [invS, invSL, pendS, addArg, lps]
  case draw x w => rw [pendS_drawn]; simp [invS, invSL, pendS, addArg, lps]
  all_goals simp [invS, invSL, pendS, addArg, lps]

/-- **Every `Add` takes effect exactly once (simple adders, any parameters).** -/
theorem simple_lps_invoked {P : Params} (c0 : Config (Simple.M P)) (s : List (Tid × SAct))
    (hq0 : ∀ u, addArg (c0.l u) = none) (hq : ∀ u, addArg ((run (Simple.M P) c0 s).1.l u) = none) :
    (lpsLog (run (Simple.M P) c0 s).2 : Multiset Int) = (invokedAddsS P c0.g c0.l s : Multiset Int) := by
  have e1 : (invokedAddsS P c0.g c0.l s : Multiset Int) = invokedM (Simple.M P) invS c0.g c0.l s :=
    coe_invokedL (Simple.M P) invSL s c0.g c0.l
  have h := acct_quiescent (Mch := Simple.M P) (inv := invS) (pend := pendS) (lpOf := lpM)
    (by
      intro t g l a g' l' obs hs
      have e : obsOps (Simple.M P) lpM obs = (lps obs : Multiset Int) := obsOps_lps _ _ _ _ _ _ obs
      rw [e]
      exact step_lawS t g l a g' l' obs hs)
    c0 s (fun u => by unfold pendS; rw [hq0 u]) (fun u => by unfold pendS; rw [hq u])
  have e : logOps (Simple.M P) lpM (run (Simple.M P) c0 s).2 =
      (lpsLog (run (Simple.M P) c0 s).2 : Multiset Int) := logOps_lpsLog _ _ _ _ _ _ _
  exact (e.symm.trans h).trans e1.symm

end SimpleAcct

/-! ## A sufficient condition for the hypothesis: bounded multiples of a common quantum -/

/-- every operand of `xs` is a finite float of the form `k x · 2^e` (`k x` an integer, `2^e` a common quantum in
    the binary64 exponent range) and the magnitudes `|k x|` add up to less than `2^53`.  Typical instance:
    integer-valued increments (`e = 0`) whose absolute values sum to less than `2^53`. -/
def QuantumBounded (e : ℤ) (k : Int → ℤ) (xs : List Int) : Prop :=
  -1074 ≤ e ∧ e ≤ 971 ∧ (∀ x ∈ xs, IsFinBits x ∧ fval x = (k x : ℚ) * (2:ℚ)^e) ∧
    (xs.map (fun x => (k x).natAbs)).sum < 2^53

theorem natAbs_sum_map_le (k : Int → ℤ) (s : List Int) :
    ((s.map k).sum).natAbs ≤ (s.map (fun x => (k x).natAbs)).sum := by
  induction s with
  | nil => simp
  | cons a r ih =>
    simp only [List.map_cons, List.sum_cons]
    exact le_trans (Int.natAbs_add_le _ _) (Nat.add_le_add_left ih _)

theorem sublist_sum_map_le (f : Int → ℕ) {s xs : List Int} (h : s.Sublist xs) :
    (s.map f).sum ≤ (xs.map f).sum := by
  induction h with
  | slnil => exact le_refl _
  | cons a _ ih => simp only [List.map_cons, List.sum_cons]; omega
  | cons_cons a _ ih => simp only [List.map_cons, List.sum_cons]; omega

theorem qsumL_quantum (e : ℤ) (k : Int → ℤ) (s : List Int) (h : ∀ x ∈ s, fval x = (k x : ℚ) * (2:ℚ)^e) :
    qsumL s = (((s.map k).sum : ℤ) : ℚ) * (2:ℚ)^e := by
  induction s with
  | nil => simp [qsumL]
  | cons a r ih =>
    have h1 := h a (List.mem_cons_self ..)
    have h2 := ih (fun x hx => h x (List.mem_cons_of_mem _ hx))
    unfold qsumL at h2 ⊢
    simp only [List.map_cons, List.sum_cons, h1, h2]
    push_cast; ring

/-- **Sufficient condition.**  Bounded multiples of a common quantum satisfy the hypothesis: every partial
    sum is `K·2^e` with `|K| < 2^53`, hence a finite binary64. -/
theorem allPartialSumsExact_of_quantum {e : ℤ} {k : Int → ℤ} {xs : List Int} (h : QuantumBounded e k xs) :
    AllPartialSumsExact xs := by
  obtain ⟨he1, he2, hx, hsum⟩ := h
  refine ⟨fun x hxm => (hx x hxm).1, fun s hs => ?_⟩
  rw [qsumL_quantum e k s (fun x hxs => (hx x (hs.subset hxs)).2)]
  apply representable_int_mul_pow _ he1 he2
  calc ((s.map k).sum).natAbs ≤ (s.map (fun x => (k x).natAbs)).sum := natAbs_sum_map_le k s
    _ ≤ (xs.map (fun x => (k x).natAbs)).sum := sublist_sum_map_le _ hs
    _ < 2^53 := hsum

/-! ## Solo runs as schedules -/

/-- an operation invoked by `t` (silent invocation step) followed by `k` solo steps, as a schedule (any machine) -/
theorem run_invoke_solo_gen {Mch : Machine} {tau : Mch.Act} {c : Config Mch} {t : Tid} {a : Mch.Act}
    {g1 : Mch.G} {l1 : Mch.L} {k : Nat} {c' : Config Mch} {obs : List Mch.Obs}
    (hs : Mch.step t c.g (c.l t) a = some (g1, l1, []))
    (hrun : soloRun Mch tau t k ⟨g1, upd c.l t l1⟩ = (c', obs)) :
    run Mch c ((t, a) :: List.replicate k (t, tau)) = (c', obs.map (fun o => (t, o))) := by
  have h := Simple.run_replicate_tau Mch tau t k ⟨g1, upd c.l t l1⟩
  rw [hrun] at h
  exact Simple.srun_some_eq (Mch := Mch) hs h

end Garr.Adder.Float
