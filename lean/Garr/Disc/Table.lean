import Garr.Disc.Model
/-! Hand-written classification of every struct field of the five packages (the only hand-written input of C14/C19's tie). -/
namespace Garr.Disc

def builderWhy := "builder objects are configured by one goroutine before Build (documentation: builder pattern); not part of the concurrent-safe surface"
def iterWhy := "queue iterators are documented as not safe for concurrent use: an iterator belongs to one goroutine"

def table : List (String × Class) := [
  -- queue
  ("queue/JDKLinkedQueue.h", .atomicOnly), ("queue/JDKLinkedQueue.t", .atomicOnly),
  ("queue/linkedListNode._i", .atomicOnly), ("queue/linkedListNode._n", .atomicOnly), ("queue/linkedListNode._v", .immutable),
  ("queue/MutexLinkedQueue.l", .locked "mutex"), ("queue/MutexLinkedQueue.mutex", .sync),
  ("queue/jdkLinkedQueueIter.q", .confined iterWhy), ("queue/jdkLinkedQueueIter.nextNode", .confined iterWhy),
  ("queue/jdkLinkedQueueIter.nextItem", .confined iterWhy), ("queue/jdkLinkedQueueIter.nextVal", .confined iterWhy),
  ("queue/jdkLinkedQueueIter.lastRet", .confined iterWhy),
  -- adder
  ("adder/AtomicAdder.value", .atomicOnly), ("adder/AtomicF64Adder.value", .atomicOnly),
  ("adder/JDKAdder.base", .atomicOnly), ("adder/JDKAdder.cells", .atomicOnly),
  ("adder/JDKF64Adder.base", .receiver), ("adder/JDKF64Adder.cells", .atomicOnly),
  ("adder/striped64.base", .atomicOnly), ("adder/striped64.cells", .atomicOnly), ("adder/striped64.cellsBusy", .atomicOnly),
  ("adder/stripedF64.base", .receiver), ("adder/stripedF64.cells", .atomicOnly), ("adder/stripedF64.cellsBusy", .atomicOnly),
  ("adder/cell.val", .atomicOnly), ("adder/cellf64.val", .atomicOnly),
  ("adder/RandomCellAdder.cells", .immutable),
  ("adder/MutexAdder.value", .locked "lock"), ("adder/MutexAdder.lock", .sync),
  -- circuit breaker
  ("circuit-breaker/NonBlockingCircuitBreaker.s", .atomicOnly), ("circuit-breaker/NonBlockingCircuitBreaker.name", .immutable),
  ("circuit-breaker/NonBlockingCircuitBreaker.config", .immutable), ("circuit-breaker/NonBlockingCircuitBreaker.ticker", .immutable),
  ("circuit-breaker/nonBlockingCircuitBreakerState.cs", .immutable), ("circuit-breaker/nonBlockingCircuitBreakerState.counter", .immutable),
  ("circuit-breaker/nonBlockingCircuitBreakerState.timeout", .immutable), ("circuit-breaker/nonBlockingCircuitBreakerState.timedOutTimeNanos", .immutable),
  ("circuit-breaker/nonBlockingCircuitBreakerState.ticker", .immutable),
  ("circuit-breaker/SlidingWindowCounter.cur", .atomicOnly), ("circuit-breaker/SlidingWindowCounter.snapshot", .atomicOnly),
  ("circuit-breaker/SlidingWindowCounter.reservoir", .immutable), ("circuit-breaker/SlidingWindowCounter.ticker", .immutable),
  ("circuit-breaker/SlidingWindowCounter.slidingWindowNanos", .immutable), ("circuit-breaker/SlidingWindowCounter.updateIntervalNanos", .immutable),
  ("circuit-breaker/bucket.timestamp", .immutable), ("circuit-breaker/bucket.s", .immutable), ("circuit-breaker/bucket.f", .immutable),
  ("circuit-breaker/EventCount.success", .immutable), ("circuit-breaker/EventCount.failure", .immutable),
  ("circuit-breaker/Name.Name", .immutable), ("circuit-breaker/Name.Namespace", .immutable), ("circuit-breaker/Name.Subsystem", .immutable),
  ("circuit-breaker/CircuitBreakerConfig.name", .immutable), ("circuit-breaker/CircuitBreakerConfig.failureRateThreshold", .immutable),
  ("circuit-breaker/CircuitBreakerConfig.minimumRequestThreshold", .immutable), ("circuit-breaker/CircuitBreakerConfig.trialRequestInterval", .immutable),
  ("circuit-breaker/CircuitBreakerConfig.circuitOpenWindow", .immutable), ("circuit-breaker/CircuitBreakerConfig.counterSlidingWindow", .immutable),
  ("circuit-breaker/CircuitBreakerConfig.counterUpdateInterval", .immutable), ("circuit-breaker/CircuitBreakerConfig.listeners", .immutable),
  ("circuit-breaker/CircuitBreakerBuilder.name", .confined builderWhy), ("circuit-breaker/CircuitBreakerBuilder.ticker", .confined builderWhy),
  ("circuit-breaker/CircuitBreakerBuilder.failureRateThreshold", .confined builderWhy), ("circuit-breaker/CircuitBreakerBuilder.minimumRequestThreshold", .confined builderWhy),
  ("circuit-breaker/CircuitBreakerBuilder.trialRequestInterval", .confined builderWhy), ("circuit-breaker/CircuitBreakerBuilder.circuitOpenWindow", .confined builderWhy),
  ("circuit-breaker/CircuitBreakerBuilder.counterSlidingWindow", .confined builderWhy), ("circuit-breaker/CircuitBreakerBuilder.counterUpdateInterval", .confined builderWhy),
  ("circuit-breaker/CircuitBreakerBuilder.listeners", .confined builderWhy),
  -- worker pool
  ("worker-pool/Pool.state", .atomicOnly), ("worker-pool/Pool.expanded", .atomicOnly),
  ("worker-pool/Pool.ctx", .immutable), ("worker-pool/Pool.cancel", .immutable), ("worker-pool/Pool.opt", .immutable),
  ("worker-pool/Pool.taskQueue", .immutable), ("worker-pool/Pool.wg", .sync), ("worker-pool/Pool.submitLock", .sync),
  ("worker-pool/Option.NumberWorker", .prePublication ["*Option.normalize"] "normalize runs on NewPool's private copy of the Option"),
  ("worker-pool/Option.ExpandableLimit", .prePublication ["*Option.normalize"] "normalize runs on NewPool's private copy of the Option"),
  ("worker-pool/Option.ExpandedLifetime", .prePublication ["*Option.normalize"] "normalize runs on NewPool's private copy of the Option"),
  ("worker-pool/Option.DisableAutoStart", .immutable),
  ("worker-pool/Task.ctx", .prePublication ["*Pool.Do", "*Pool.TryDo"] "written by the submitting goroutine before the task is sent on the queue channel (send happens-before receive)"),
  ("worker-pool/Task.executor", .immutable), ("worker-pool/Task.future", .immutable),
  -- retry (back-off objects are immutable after construction; the builder caches its base atomically)
  ("retry/FixedBackoff.delayMillis", .immutable), ("retry/RandomBackoff.minDelayMillis", .immutable), ("retry/RandomBackoff.maxDelayMillis", .immutable),
  ("retry/RandomBackoff.bound", .immutable), ("retry/ExponentialBackoff.initialDelayMillis", .immutable), ("retry/ExponentialBackoff.maxDelayMillis", .immutable),
  ("retry/ExponentialBackoff.multiplier", .immutable), ("retry/JitterAddingBackoff.minJitterRate", .immutable), ("retry/JitterAddingBackoff.maxJitterRate", .immutable),
  ("retry/JitterAddingBackoff.delegate", .immutable), ("retry/AttemptLimitingBackoff.delegate", .immutable), ("retry/AttemptLimitingBackoff.limit", .immutable),
  ("retry/BackoffBuilder.base", .atomicOnly), ("retry/BackoffBuilder.layer", .confined builderWhy), ("retry/BackoffBuilder.spec", .confined builderWhy),
  ("retry/withLimit.limit", .immutable), ("retry/withJitter.minJitterRate", .immutable), ("retry/withJitter.maxJitterRate", .immutable)
]

end Garr.Disc
