/-!
# Access discipline of the concurrent-safe API surface (C14, C19)

`Fact`s are regenerated from `/repo`'s source on every run by `harness/facts` (go/types): one per syntactic
access to a struct field of the package, with its kind and the locks syntactically held.  The hand-written
`table` declares the synchronisation class of every field; `Disciplined` is the decidable predicate the
regenerated facts must satisfy.  `Garr/Disc/Theory.lean` proves, in an abstract happens-before model, that
programs whose accesses satisfy it are data-race free.
-/
namespace Garr.Disc

inductive Kind | atomic | read | write | init | addr
deriving Repr, DecidableEq

inductive Mode | R | W
deriving Repr, DecidableEq

structure Fact where
  field : String          -- "pkg/Type.field"
  fn : String             -- enclosing function
  kind : Kind
  locks : List (String × Mode)
  pos : String
deriving Repr

inductive Class
  | atomicOnly                       -- every access is a sync/atomic operation (or an initialising write)
  | locked (m : String)              -- every access holds lock `m`; writes in write mode
  | immutable                        -- written only while the object is private (constructors), read-only afterwards
  | confined (why : String)          -- objects documented as NOT shareable between goroutines
  | prePublication (fns : List String) (why : String)   -- plain writes only in these functions, before the object is published
  | sync                             -- a synchronisation object itself (mutex, wait group, channel, context): used through its methods
  | receiver                         -- embedded value used only as method receiver; its own fields are classified separately
deriving Repr

/-- functions that run while the object under construction is still private -/
def isCtor (fn : String) : Bool :=
  fn.startsWith "New" || fn.startsWith "new" || fn.startsWith "Default" || fn == "init"

def holds (f : Fact) (m : String) (needW : Bool) : Bool :=
  f.locks.any (fun (l, md) => l.endsWith m && (!needW || md == .W))

def okFact (c : Class) (f : Fact) : Bool :=
  match c with
  | .atomicOnly => f.kind == .atomic || f.kind == .init || (isCtor f.fn)
  | .locked m =>
      isCtor f.fn || f.kind == .init ||
      (match f.kind with
       | .write => holds f m true
       | .read => holds f m false
       | .atomic => true
       | _ => false)
  | .immutable => f.kind == .read || f.kind == .init || f.kind == .atomic || isCtor f.fn
  | .confined _ => true
  | .prePublication fns _ => f.kind == .read || f.kind == .init || isCtor f.fn || (f.kind == .write && fns.contains f.fn)
  | .sync => f.kind == .read || f.kind == .init || f.kind == .addr || isCtor f.fn
  | .receiver => f.kind == .read || f.kind == .addr || f.kind == .init || isCtor f.fn

def classOf (table : List (String × Class)) (field : String) : Option Class := table.lookup field

/-- every regenerated fact is about a classified field and obeys its class -/
def offending (table : List (String × Class)) (facts : List Fact) : List Fact :=
  facts.filter (fun f => match classOf table f.field with | none => true | some c => !okFact c f)

def Disciplined (table : List (String × Class)) (facts : List Fact) : Bool := (offending table facts).isEmpty

/-- every field the extractor must see (so that a field cannot silently disappear from the check) -/
def Covered (table : List (String × Class)) (facts : List Fact) : Bool :=
  table.all (fun (fld, c) => match c with
    | .confined _ => true
    | _ => facts.any (fun f => f.field == fld))

end Garr.Disc
