import Garr.Disc.Model
/-!
# Disciplined accesses are data-race free (abstract happens-before model)

An abstract execution (`Exec`) is a finite trace of memory accesses (`Ev`: thread, location, access
kind, the locks held with their mode, and whether the access happens while the object is still
private to its creating thread) with a happens-before relation `hb` on trace indices.  The FIELDS of
`Exec` (not axioms) are the guarantees of the Go memory model that the argument uses:

* `hb_lt`, `hb_trans`, `hb_po` — `hb` is a strict partial order, compatible with the trace order
  (the trace is a linearisation of `hb`), containing program order;
* `lock_edge` — two accesses made inside critical sections of the same `RWMutex`, by different
  threads, at least one of them in write mode, are ordered (conflicting critical sections do not
  overlap and "the n-th `Unlock` is synchronized before the m-th `Lock` returns, n < m", likewise
  `RUnlock` → `Lock` and `Unlock` → `RLock`): the earlier one in the trace happens before the later one;
* `publish_edge` — an access made while the object is private happens before every access to it by
  another thread made after publication (the reference reached the other thread through a
  synchronising operation — atomic store/CAS → load, channel send → receive, `Unlock` → `Lock`,
  `go` statement — executed after the private access and observed before the other thread's access);
  together with `hb_lt` this says in particular that no `priv` access comes after a published access
  of another thread;
* `priv_owner` — while private, an object is accessed by one thread only (its creator).

`Race` is the Go memory model's data race: two accesses of different threads to the same location,
at least one a write, at least one non-atomic, unordered by `hb`.

`Discipline`/`Obeys` are the per-location synchronisation classes and the per-access obligations
(mirroring `okFact`); `disciplined_drf`: if every access obeys the class of its location, there is
no race.  `racyAtomicOnly`, `racyLockedR` show that the obligations are not vacuous (violating
them admits executions with a race) and `lockedExec` that the theorem's hypotheses are satisfiable
by an execution with real conflicts.
-/
namespace Garr.Disc

inductive Acc | plainR | plainW | atomicR | atomicW
deriving Repr, DecidableEq

def Acc.isWrite : Acc → Bool
  | .plainW => true
  | .atomicW => true
  | _ => false

def Acc.isPlain : Acc → Bool
  | .plainR => true
  | .plainW => true
  | _ => false

/-- one memory access of an execution -/
structure Ev where
  tid : Nat
  loc : Nat
  acc : Acc
  /-- locks held (critical sections the access lies in), with the mode they are held in -/
  held : List (Nat × Mode) := []
  /-- the access happens before the object is published (it is private to its creating thread) -/
  priv : Bool := false

/-- an abstract execution: a trace of accesses and a happens-before relation on trace indices -/
structure Exec where
  evs : List Ev
  hb : Nat → Nat → Prop
  /-- the trace order is a linearisation of happens-before -/
  hb_lt : ∀ i j, hb i j → i < j
  hb_trans : ∀ i j k, hb i j → hb j k → hb i k
  /-- program order -/
  hb_po : ∀ (i j : Nat) (ei ej : Ev), evs[i]? = some ei → evs[j]? = some ej → i < j → ei.tid = ej.tid → hb i j
  /-- conflicting critical sections of one `RWMutex` are ordered -/
  lock_edge : ∀ (i j : Nat) (ei ej : Ev) (m : Nat) (mi mj : Mode), evs[i]? = some ei → evs[j]? = some ej → i < j → ei.tid ≠ ej.tid →
    (m, mi) ∈ ei.held → (m, mj) ∈ ej.held → (mi = .W ∨ mj = .W) → hb i j
  /-- safe publication -/
  publish_edge : ∀ (i j : Nat) (ei ej : Ev), evs[i]? = some ei → evs[j]? = some ej → ei.loc = ej.loc →
    ei.tid ≠ ej.tid → ei.priv = true → ej.priv = false → hb i j
  /-- a private object is accessed by its creator only -/
  priv_owner : ∀ (i j : Nat) (ei ej : Ev), evs[i]? = some ei → evs[j]? = some ej → ei.loc = ej.loc →
    ei.priv = true → ej.priv = true → ei.tid = ej.tid

theorem Exec.hb_irrefl (E : Exec) (i : Nat) : ¬ E.hb i i :=
  fun h => Nat.lt_irrefl _ (E.hb_lt i i h)

/-- a data race between the accesses at trace indices `i` and `j` -/
def Race (E : Exec) (i j : Nat) : Prop :=
  ∃ ei ej, E.evs[i]? = some ei ∧ E.evs[j]? = some ej ∧ i ≠ j ∧ ei.tid ≠ ej.tid ∧ ei.loc = ej.loc ∧
    (ei.acc.isWrite = true ∨ ej.acc.isWrite = true) ∧
    (ei.acc.isPlain = true ∨ ej.acc.isPlain = true) ∧
    ¬ E.hb i j ∧ ¬ E.hb j i

theorem Race.symm {E : Exec} {i j : Nat} : Race E i j → Race E j i := by
  rintro ⟨ei, ej, hi, hj, hne, ht, hl, hw, hp, h1, h2⟩
  exact ⟨ej, ei, hj, hi, hne.symm, ht.symm, hl.symm, hw.symm, hp.symm, h2, h1⟩

/-- the synchronisation class of a location -/
inductive LocClass
  | atomicOnly          -- after publication, accessed by sync/atomic operations only
  | locked (m : Nat)    -- after publication, accessed only while holding lock `m`; writes in write mode
  | immutable           -- after publication, only read
  | confined            -- all accesses by one thread (the object is not shared)
deriving Repr, DecidableEq

/-- the class of every location, and the owning thread of the confined ones -/
structure Discipline where
  cls : Nat → LocClass
  owner : Nat → Nat

/-- the obligation of one access w.r.t. the class of its location -/
def Obeys (D : Discipline) (e : Ev) : Prop :=
  match D.cls e.loc with
  | .atomicOnly => e.priv = true ∨ e.acc.isPlain = false
  | .locked m => e.priv = true ∨ ∃ md, (m, md) ∈ e.held ∧ (e.acc.isWrite = true → md = .W)
  | .immutable => e.priv = true ∨ e.acc.isWrite = false
  | .confined => e.tid = D.owner e.loc

/-- the two accesses of a race are both made after publication -/
theorem Race.published {E : Exec} {i j : Nat} {ei ej : Ev} (hi : E.evs[i]? = some ei)
    (hj : E.evs[j]? = some ej) (hl : ei.loc = ej.loc) (ht : ei.tid ≠ ej.tid)
    (h1 : ¬ E.hb i j) (h2 : ¬ E.hb j i) : ei.priv = false ∧ ej.priv = false := by
  cases hpi : ei.priv <;> cases hpj : ej.priv
  · exact ⟨rfl, rfl⟩
  · exact absurd (E.publish_edge j i ej ei hj hi hl.symm (Ne.symm ht) hpj hpi) h2
  · exact absurd (E.publish_edge i j ei ej hi hj hl ht hpi hpj) h1
  · exact absurd (E.priv_owner i j ei ej hi hj hl hpi hpj) ht

/-- **Disciplined programs are data-race free**: if every access of an execution obeys the
synchronisation class of its location, no two accesses race. -/
theorem disciplined_drf (E : Exec) (D : Discipline) (h : ∀ e ∈ E.evs, Obeys D e) :
    ∀ i j, ¬ Race E i j := by
  rintro i j ⟨ei, ej, hi, hj, hne, ht, hl, hw, hp, h1, h2⟩
  have oi := h ei (List.mem_of_getElem? hi)
  have oj := h ej (List.mem_of_getElem? hj)
  obtain ⟨hpi, hpj⟩ := Race.published hi hj hl ht h1 h2
  unfold Obeys at oi oj
  rw [← hl] at oj
  cases hc : D.cls ei.loc with
  | atomicOnly =>
    rw [hc] at oi oj
    simp only [hpi, hpj, Bool.false_eq_true, false_or] at oi oj
    rcases hp with hp | hp
    · rw [oi] at hp; cases hp
    · rw [oj] at hp; cases hp
  | locked m =>
    rw [hc] at oi oj
    simp only [hpi, hpj, Bool.false_eq_true, false_or] at oi oj
    obtain ⟨mi, hmi, hwi⟩ := oi
    obtain ⟨mj, hmj, hwj⟩ := oj
    have hW : mi = .W ∨ mj = .W := hw.elim (fun x => Or.inl (hwi x)) (fun x => Or.inr (hwj x))
    rcases Nat.lt_or_gt_of_ne hne with hlt | hlt
    · exact h1 (E.lock_edge i j ei ej m mi mj hi hj hlt ht hmi hmj hW)
    · exact h2 (E.lock_edge j i ej ei m mj mi hj hi hlt (Ne.symm ht) hmj hmi hW.symm)
  | immutable =>
    rw [hc] at oi oj
    simp only [hpi, hpj, Bool.false_eq_true, false_or] at oi oj
    rcases hw with hw | hw
    · rw [oi] at hw; cases hw
    · rw [oj] at hw; cases hw
  | confined =>
    rw [hc] at oi oj
    exact ht (oi.trans (by rw [oj, hl]))

/-! ## Non-vacuity -/

/-- a two-event trace with no synchronisation at all -/
def twoEvents (e0 e1 : Ev) (ht : e0.tid ≠ e1.tid)
    (hlock : ∀ m mi mj, (m, mi) ∈ e0.held → (m, mj) ∈ e1.held → ¬ (mi = .W ∨ mj = .W))
    (hp0 : e0.priv = false) (hp1 : e1.priv = false) : Exec where
  evs := [e0, e1]
  hb := fun _ _ => False
  hb_lt := by intro _ _ h; exact h.elim
  hb_trans := by intro _ _ _ h; exact h.elim
  hb_po := by
    intro i j ei ej hi hj hlt htid
    match i, j with
    | 0, 0 => omega
    | 0, 1 => simp at hi hj; subst hi hj; exact ht htid
    | 1, 0 => omega
    | 1, 1 => omega
    | _ + 2, _ => simp at hi
    | _, _ + 2 => simp at hj
  lock_edge := by
    intro i j ei ej m mi mj hi hj hlt _ h0 h1 hW
    match i, j with
    | 0, 0 => omega
    | 0, 1 => simp at hi hj; subst hi hj; exact hlock m mi mj h0 h1 hW
    | 1, 0 => omega
    | 1, 1 => omega
    | _ + 2, _ => simp at hi
    | _, _ + 2 => simp at hj
  publish_edge := by
    intro i j ei ej hi hj _ _ hpi _
    match i with
    | 0 => simp at hi; subst hi; rw [hp0] at hpi; cases hpi
    | 1 => simp at hi; subst hi; rw [hp1] at hpi; cases hpi
    | _ + 2 => simp at hi
  priv_owner := by
    intro i j ei ej hi hj _ hpi _
    match i with
    | 0 => simp at hi; subst hi; rw [hp0] at hpi; cases hpi
    | 1 => simp at hi; subst hi; rw [hp1] at hpi; cases hpi
    | _ + 2 => simp at hi

/-- a plain write and a plain read of the same published location by two threads, unsynchronised -/
def racyAtomicOnly : Exec :=
  twoEvents ⟨0, 0, .plainW, [], false⟩ ⟨1, 0, .plainR, [], false⟩ (by decide)
    (by intro m mi mj h; cases h) rfl rfl

/-- it has a race … -/
theorem racyAtomicOnly_race : Race racyAtomicOnly 0 1 :=
  ⟨⟨0, 0, .plainW, [], false⟩, ⟨1, 0, .plainR, [], false⟩, rfl, rfl, by decide, by decide, rfl,
    Or.inl rfl, Or.inl rfl, fun h => h, fun h => h⟩

/-- … and indeed its plain accesses violate the class `atomicOnly` of the location (the obligation
is not vacuous: replacing an atomic access by a plain one is what `Obeys` forbids) -/
example : ¬ ∀ e ∈ racyAtomicOnly.evs, Obeys ⟨fun _ => .atomicOnly, fun _ => 0⟩ e := by
  intro h
  exact disciplined_drf racyAtomicOnly _ h 0 1 racyAtomicOnly_race

example : ¬ Obeys ⟨fun _ => .atomicOnly, fun _ => 0⟩ ⟨0, 0, .plainW, [], false⟩ := by
  simp [Obeys, Acc.isPlain]

/-- a plain write made under the READ lock and a plain read under the read lock: read-mode critical
sections are not ordered w.r.t. each other, so this races — "writes in write mode" is needed -/
def racyLockedR : Exec :=
  twoEvents ⟨0, 0, .plainW, [(7, .R)], false⟩ ⟨1, 0, .plainR, [(7, .R)], false⟩ (by decide)
    (by intro m mi mj h0 h1; simp at h0 h1; rw [h0.2, h1.2]; simp) rfl rfl

theorem racyLockedR_race : Race racyLockedR 0 1 :=
  ⟨⟨0, 0, .plainW, [(7, .R)], false⟩, ⟨1, 0, .plainR, [(7, .R)], false⟩, rfl, rfl, by decide,
    by decide, rfl, Or.inl rfl, Or.inl rfl, fun h => h, fun h => h⟩

example : ¬ Obeys ⟨fun _ => .locked 7, fun _ => 0⟩ ⟨0, 0, .plainW, [(7, .R)], false⟩ := by
  simp [Obeys, Acc.isWrite]

/-- a disciplined execution with real conflicts: thread 0 initialises location 0 while it is private,
then threads 1 and 2 write and read it under lock 7 (write mode / read mode); happens-before is the
trace order (publication edge, then lock edges) -/
def lockedExec : Exec where
  evs := [⟨0, 0, .plainW, [], true⟩, ⟨1, 0, .plainW, [(7, .W)], false⟩, ⟨2, 0, .plainR, [(7, .R)], false⟩]
  hb := fun i j => i < j
  hb_lt := fun _ _ h => h
  hb_trans := fun _ _ _ => Nat.lt_trans
  hb_po := by intro i j _ _ _ _ h _; exact h
  lock_edge := by intro i j _ _ _ _ _ _ _ h _ _ _ _; exact h
  publish_edge := by
    intro i j ei ej hi hj _ _ hpi hpj
    match i, j with
    | 0, 0 => simp at hi hj; subst hi hj; simp at hpj
    | 0, _ + 1 => exact Nat.succ_pos _
    | 1, _ => simp at hi; subst hi; simp at hpi
    | 2, _ => simp at hi; subst hi; simp at hpi
    | _ + 3, _ => simp at hi
  priv_owner := by
    intro i j ei ej hi hj _ hpi hpj
    match i, j with
    | 0, 0 => simp at hi hj; subst hi hj; rfl
    | _, 1 => simp at hj; subst hj; simp at hpj
    | _, 2 => simp at hj; subst hj; simp at hpj
    | _, _ + 3 => simp at hj
    | 1, _ => simp at hi; subst hi; simp at hpi
    | 2, _ => simp at hi; subst hi; simp at hpi
    | _ + 3, _ => simp at hi

theorem lockedExec_obeys : ∀ e ∈ lockedExec.evs, Obeys ⟨fun _ => .locked 7, fun _ => 0⟩ e := by
  intro e he
  simp only [lockedExec, List.mem_cons, List.not_mem_nil, or_false] at he
  rcases he with rfl | rfl | rfl <;> simp [Obeys, Acc.isWrite]

/-- the theorem applies to it: three pairwise conflicting accesses, no race -/
example : ∀ i j, ¬ Race lockedExec i j := disciplined_drf _ _ lockedExec_obeys

end Garr.Disc
