import Garr.Breaker.WindowInv
/-!
# C10 — the sliding-window counter neither invents, double-counts nor loses events (breaker layer)

*Every count the sliding-window counter reports is bounded above by the successes and failures reported so far in
update intervals that began within the sliding window, so no event is invented or counted twice; once concurrent
reporters have returned, the next interval roll reports exactly those events — including events recorded while the
ticker stepped backwards or by reporters that lost the race to roll the bucket — and excludes everything older than
the window.*

**What is proved here, and at which layer.**  The theorems are about `Garr.Breaker.M` (`Garr/Breaker/Conc.lean`), in
which the lower layers (the lock-free queue with its iterator/`Remove` as reservoir, the striped adders as bucket
counters) are used through their sequential specifications, atomically with the breaker-layer access that precedes
them in program order (layered proof; their linearizability is C01/C13 and C02/C09).  AT THIS LAYER equality holds
at *every* roll, quiescent or not (`roll_exact`): the count is exactly the number of events *recorded* so far in
buckets whose interval began within the window; the upper bound (`no_invention`) is its corollary, and "once
reporters have returned" enters only through `report_records_exactly_once` (a report that has returned has recorded
exactly once, so at quiescence recorded = reported).  The full-stack behaviour of the real code is weaker: the roller
can be delayed between swapping the bucket and archiving it, and a concurrent `Sum` may miss in-flight increments —
that is why the property's first sentence is only an upper bound.  The upper bound and the equality after
quiescence for the full stack are checked on the real code by monitors; they are NOT consequences of this file.

**Guard.**  `WNoWrap cfg` (`0 < interval ≤ 2^61`, `0 < window ≤ 2^61`) and `SchedOK t1 t2 s` (the constructor's
readings and every `tick` of the schedule within `±2^61`, fewer than `2^61` schedule entries): under it `wrap64` is
the identity on every sum the model forms.  Outside the guard the model (like the code) wraps — finding F7.

**Log.**  `recS w x lg` / `recF w x lg`: number of entries `recorded w stamp true` / `false` of `lg` with
`stamp ≥ x`.  A `rolled w t s f` entry is emitted in the same step as, and BEFORE, the roller's own
`recorded w t succ`; "the log before the roll" therefore excludes the triggering event.

* `roll_exact` — every roll reports exactly the events recorded so far in its window with stamp `≥ t - window`.
* `roll_ticks_increase`, `roll_ticks_strictly_increase` — roll ticks (hence trim limits) of one window increase.
* `no_invention`, `step_emits_at_most_one_recorded`, `report_records_exactly_once` — nothing invented, nothing twice.
* `window_holds_recorded` — the counting invariant: the buckets of a window hold exactly the recorded events at or
  above the last trim limit (all of them before the first roll).
* `recorded_counted_by_later_roll`, `loser_recorded`, `backstep_recorded` — CAS losers and back-in-time reporters.
* `bucket_at_most_once`, `windows_disjoint`, `buckets_wellformed` — structure.
* `snapshot_is_last_roll` — the stored snapshot is the count of the same operation's roll.
* non-vacuity examples at the end (two reporters, a lost race, a ticker step back, two rolls, trimming).
-/
namespace Garr.Props.C10
open Garr Garr.Conc Garr.Breaker

/-- the run of schedule `s` from the constructor's state (`t1`, `t2`: the constructor's two ticker readings) -/
abbrev runOf (cfg : Config) (t1 t2 : Int) (s : List (Tid × Act)) :=
  run (M cfg t1 t2) (Conc.Config.init (M cfg t1 t2)) s

/-! ## Exactness of every roll -/

/-- **Every roll is exact.**  In every guarded run, for every entry `rolled w t sc fc` of the log, with `pre` the log
strictly before it: the reported count is exactly the number of successes / failures recorded so far in window `w`
in buckets with timestamp `≥ t - window` — the triggering event excluded (its `recorded` entry comes after),
everything older excluded, nothing else missing. -/
theorem roll_exact (cfg : Config) (t1 t2 : Int) (s : List (Tid × Act)) (hcfg : WNoWrap cfg) (hs : SchedOK t1 t2 s)
    (pre post : List (Tid × Obs)) (tid : Tid) (w : Nat) (t sc fc : Int)
    (hlog : (runOf cfg t1 t2 s).2 = pre ++ (tid, Obs.rolled w t sc fc) :: post) :
    sc = recS w (t - cfg.window) pre ∧ fc = recF w (t - cfg.window) pre := by
  obtain ⟨n, _, _, hG, _⟩ := winv_run cfg t1 t2 s hcfg hs
  have := hG.rolls pre tid w t sc fc post hlog
  exact ⟨this.1, this.2.1⟩

/-- **Roll ticks of one window increase by at least one interval** (consecutive rolls), so the new trim limit is
above the previous one and the counting invariant applies to it -/
theorem roll_ticks_increase (cfg : Config) (t1 t2 : Int) (s : List (Tid × Act)) (hcfg : WNoWrap cfg)
    (hs : SchedOK t1 t2 s) (pre post : List (Tid × Obs)) (tid : Tid) (w : Nat) (t sc fc : Int)
    (hlog : (runOf cfg t1 t2 s).2 = pre ++ (tid, Obs.rolled w t sc fc) :: post) :
    ∀ t', lastRoll w pre = some t' → t' + cfg.interval ≤ t ∧ t' - cfg.window < t - cfg.window := by
  obtain ⟨n, _, _, hG, _⟩ := winv_run cfg t1 t2 s hcfg hs
  have := (hG.rolls pre tid w t sc fc post hlog).2.2
  intro t' ht'
  have := this t' ht'
  have := hcfg.1
  omega

theorem rollsOK_prefix {cfg : Config} {lg l2 : List (Tid × Obs)} (h : RollsOK cfg (lg ++ l2)) : RollsOK cfg lg :=
  fun pre tid w t s f post he => h pre tid w t s f (post ++ l2) (by rw [he]; simp)

theorem rollTick_some {w : Nat} {e : Tid × Obs} {t : Int} (h : rollTick w e = some t) :
    ∃ tid s f, e = (tid, Obs.rolled w t s f) := by
  obtain ⟨tid, o⟩ := e
  cases o <;> simp [rollTick] at h
  obtain ⟨rfl, rfl⟩ := h
  exact ⟨_, _, _, rfl⟩

theorem lastRoll_snoc (w : Nat) (lg : List (Tid × Obs)) (e : Tid × Obs) :
    lastRoll w (lg ++ [e]) = (rollTick w e).or (lastRoll w lg) := by
  rw [lastRoll_append]
  congr 1
  unfold lastRoll
  cases h : rollTick w e <;> simp [h]

/-- every roll tick of window `w` in the log is at most the last one -/
theorem ticks_le_last {cfg : Config} (hi : 0 < cfg.interval) (w : Nat) :
    ∀ (n : Nat) (lg : List (Tid × Obs)), lg.length = n → RollsOK cfg lg → ∀ t' ∈ lg.filterMap (rollTick w),
      ∃ tl, lastRoll w lg = some tl ∧ t' ≤ tl := by
  intro n
  induction n with
  | zero =>
    intro lg hl _ t' ht'
    have : lg = [] := List.length_eq_zero_iff.mp hl
    subst this; simp at ht'
  | succ n ih =>
    intro lg hl hR t' ht'
    rcases List.eq_nil_or_concat lg with h | ⟨l, e, h⟩
    · subst h; simp at hl
    · rw [List.concat_eq_append] at h
      subst h
      have hl' : l.length = n := by simpa using hl
      rw [List.filterMap_append, List.mem_append] at ht'
      rw [lastRoll_snoc]
      cases hr : rollTick w e with
      | none =>
        rw [Option.none_or]
        rcases ht' with ht' | ht'
        · exact ih l hl' (rollsOK_prefix hR) t' ht'
        · simp [hr] at ht'
      | some t =>
        refine ⟨t, rfl, ?_⟩
        rcases ht' with ht' | ht'
        · obtain ⟨tl, h1, h2⟩ := ih l hl' (rollsOK_prefix hR) t' ht'
          obtain ⟨tid, s, f, rfl⟩ := rollTick_some hr
          have := (hR l tid w t s f [] rfl).2.2 tl h1
          omega
        · simp [hr] at ht'
          omega

/-- **The roll ticks of one window strictly increase** (any two rolls, not only consecutive ones), hence so do the
trim limits `t - window`: the last limit is the largest -/
theorem roll_ticks_strictly_increase (cfg : Config) (t1 t2 : Int) (s : List (Tid × Act)) (hcfg : WNoWrap cfg)
    (hs : SchedOK t1 t2 s) (a b c : List (Tid × Obs)) (x y : Tid) (w : Nat) (ta sa fa tb sb fb : Int)
    (hlog : (runOf cfg t1 t2 s).2 = a ++ (x, Obs.rolled w ta sa fa) :: (b ++ (y, Obs.rolled w tb sb fb) :: c)) :
    ta + cfg.interval ≤ tb := by
  obtain ⟨n, _, _, hG, _⟩ := winv_run cfg t1 t2 s hcfg hs
  have hlog' : (runOf cfg t1 t2 s).2 = (a ++ (x, Obs.rolled w ta sa fa) :: b) ++ (y, Obs.rolled w tb sb fb) :: c := by
    rw [hlog, List.append_assoc]; rfl
  have hR : RollsOK cfg ((a ++ (x, Obs.rolled w ta sa fa) :: b) ++ (y, Obs.rolled w tb sb fb) :: c) := by
    rw [← hlog']; exact hG.rolls
  have hmem : ta ∈ (a ++ (x, Obs.rolled w ta sa fa) :: b).filterMap (rollTick w) := by
    rw [List.filterMap_append, List.mem_append]
    right
    simp [rollTick]
  obtain ⟨tl, h1, h2⟩ := ticks_le_last hcfg.1 w _ _ rfl (rollsOK_prefix hR) ta hmem
  have := (hR _ y w tb sb fb c rfl).2.2 tl h1
  omega

/-! ## No event is invented or counted twice -/

theorem recN_anti (w : Nat) (k : Bool) {x y : Int} (h : x ≤ y) (lg : List (Tid × Obs)) : recN w k y lg ≤ recN w k x lg := by
  unfold recN
  apply Int.ofNat_le.mpr
  apply List.countP_mono_left
  intro e _ he
  obtain ⟨t, o⟩ := e
  cases o <;> simp_all [recHit]
  omega

theorem rec_tf_le (w : Nat) (x : Int) (lg : List (Tid × Obs)) :
    lg.countP (recHit w true x) + lg.countP (recHit w false x) ≤ lg.countP (fun e => e.2.isRec) := by
  induction lg with
  | nil => simp
  | cons e l ih =>
    simp only [List.countP_cons]
    have h1 : recHit w true x e = true → e.2.isRec = true := recHit_isRec
    have h2 : recHit w false x e = true → e.2.isRec = true := recHit_isRec
    have h3 : recHit w true x e = true → recHit w false x e = true → False := by
      obtain ⟨t, o⟩ := e
      cases o <;> simp [recHit]
      intro _ h _ _ h'; rw [h] at h'; cases h'
    cases ha : recHit w true x e <;> cases hb : recHit w false x e <;> cases hc : e.2.isRec <;> simp_all <;> omega

/-- **No invention.**  Every reported count is non-negative and bounded by the number of `recorded` entries so far
in the window with stamp `≥ t - window`; successes and failures together by the number of `recorded` entries at
all.  With `step_emits_at_most_one_recorded` and `report_records_exactly_once` (each `recorded` entry belongs to
exactly one report operation, each report contributes exactly one) no event is invented or counted twice. -/
theorem no_invention (cfg : Config) (t1 t2 : Int) (s : List (Tid × Act)) (hcfg : WNoWrap cfg) (hs : SchedOK t1 t2 s)
    (pre post : List (Tid × Obs)) (tid : Tid) (w : Nat) (t sc fc : Int)
    (hlog : (runOf cfg t1 t2 s).2 = pre ++ (tid, Obs.rolled w t sc fc) :: post) :
    0 ≤ sc ∧ sc ≤ recS w (t - cfg.window) pre ∧ 0 ≤ fc ∧ fc ≤ recF w (t - cfg.window) pre ∧
    sc + fc ≤ nrec pre := by
  obtain ⟨h1, h2⟩ := roll_exact cfg t1 t2 s hcfg hs pre post tid w t sc fc hlog
  subst h1 h2
  refine ⟨recN_nonneg _ _ _ _, Int.le_refl _, recN_nonneg _ _ _ _, Int.le_refl _, ?_⟩
  have := rec_tf_le w (t - cfg.window) pre
  unfold recS recF recN nrec
  omega

/-- **Every step emits at most one `recorded`.** -/
theorem step_emits_at_most_one_recorded {cfg : Config} {t : Tid} {g g' : CG} {l l' : L} {a : Act} {obs : List Obs}
    (hs : step cfg t g l a = some (g', l', obs)) : nrecObs obs ≤ 1 :=
  (recorded_once_step hs).1

/-- **Every report records exactly once.**  Per-thread control flow: along the own steps of one operation (whatever
other threads do to the shared state in between), from the entry `w0` of the window report every path to `idle`
emits exactly one `recorded`. -/
theorem report_records_exactly_once {cfg : Config} {c : Call} {o w : Nat} {obs : List Obs}
    (h : OpPath cfg (.w0 c o w) obs .idle) : nrecObs obs = 1 := by
  have := opPath_conserves h rfl
  simpa [pend] using this

/-- the same for any point of the report: a thread that has not recorded yet (`w0`, `w1`, `w2`) records exactly
once before it is idle again; one that has recorded (`w3`, tripping) records nothing more -/
theorem report_records_rest {cfg : Config} {l : L} {obs : List Obs} (hl : l.isB0 = false)
    (h : OpPath cfg l obs .idle) : nrecObs obs = pend l := by
  have := opPath_conserves h hl
  simpa [pend] using this

/-! ## Nothing recorded is lost: the buckets of a window hold exactly the untrimmed recorded events -/

/-- **The counting invariant** at the end of every guarded run (every prefix of a schedule is a schedule, so: at
every moment): for every limit `x` at or above the window's last trim limit, the buckets of the window (reservoir
and current) with timestamp `≥ x` hold exactly the `recorded` events with stamp `≥ x` — nothing recorded is missing,
nothing is there twice. -/
theorem window_holds_recorded (cfg : Config) (t1 t2 : Int) (s : List (Tid × Act)) (hcfg : WNoWrap cfg)
    (hs : SchedOK t1 t2 s) :
    let g := (runOf cfg t1 t2 s).1.g
    let lg := (runOf cfg t1 t2 s).2
    ∀ w, w < g.wins.length → ∀ x : Int, (∀ L, lim cfg w lg = some L → L ≤ x) →
      bktS g (inWin g w) x = recS w x lg ∧ bktF g (inWin g w) x = recF w x lg := by
  intro g lg w hw x hx
  obtain ⟨n, _, _, hG, _⟩ := winv_run cfg t1 t2 s hcfg hs
  have hx' : ∀ t, lastRoll w lg = some t → t - cfg.window ≤ x := by
    intro t ht
    exact hx (t - cfg.window) (by simp [lim, lg, ht])
  exact ⟨hG.count w hw true x hx', hG.count w hw false x hx'⟩

/-- before the first roll of a window nothing was trimmed: its buckets hold every recorded event -/
theorem window_holds_all_before_first_roll (cfg : Config) (t1 t2 : Int) (s : List (Tid × Act)) (hcfg : WNoWrap cfg)
    (hs : SchedOK t1 t2 s) :
    let g := (runOf cfg t1 t2 s).1.g
    let lg := (runOf cfg t1 t2 s).2
    ∀ w, w < g.wins.length → lastRoll w lg = none → ∀ x : Int,
      bktS g (inWin g w) x = recS w x lg ∧ bktF g (inWin g w) x = recF w x lg := by
  intro g lg w hw hnone x
  exact window_holds_recorded cfg t1 t2 s hcfg hs w hw x (by simp [lim, lg, hnone])

/-- **Structure**, guarded part: counters are non-negative, timestamps are guarded readings, the current bucket's
timestamp is the tick of the window's last roll -/
theorem buckets_wellformed (cfg : Config) (t1 t2 : Int) (s : List (Tid × Act)) (hcfg : WNoWrap cfg)
    (hs : SchedOK t1 t2 s) :
    let g := (runOf cfg t1 t2 s).1.g
    let lg := (runOf cfg t1 t2 s).2
    (∀ b, 0 ≤ (g.bucket b).s ∧ 0 ≤ (g.bucket b).f ∧ TB (g.bucket b).ts) ∧
    (∀ w, w < g.wins.length → ∀ t, lastRoll w lg = some t → (g.bucket (g.win w).cur).ts = t) := by
  intro g lg
  obtain ⟨n, _, _, hG, _⟩ := winv_run cfg t1 t2 s hcfg hs
  exact ⟨fun b => ⟨(hG.cnt b true).1, (hG.cnt b false).1, hG.ts b⟩, hG.curts⟩

/-! ## Losers of the roll race and back-in-time reporters are recorded and counted -/

/-- **A recorded event is counted by every later roll of its window whose limit does not exceed its stamp**, whoever
recorded it -/
theorem recorded_counted_by_later_roll (cfg : Config) (t1 t2 : Int) (s : List (Tid × Act)) (hcfg : WNoWrap cfg)
    (hs : SchedOK t1 t2 s) (pre mid post : List (Tid × Obs)) (tid tid' : Tid) (w : Nat) (stamp : Int) (k : Bool)
    (t sc fc : Int)
    (hlog : (runOf cfg t1 t2 s).2 = pre ++ (tid, Obs.recorded w stamp k) :: (mid ++ (tid', Obs.rolled w t sc fc) :: post))
    (hin : t - cfg.window ≤ stamp) :
    (if k then sc else fc) = recN w k (t - cfg.window) pre + 1 + recN w k (t - cfg.window) mid ∧
    (if k then fc else sc) = recN w (!k) (t - cfg.window) pre + recN w (!k) (t - cfg.window) mid := by
  have hlog' : (runOf cfg t1 t2 s).2 = (pre ++ (tid, Obs.recorded w stamp k) :: mid) ++ (tid', Obs.rolled w t sc fc) :: post := by
    rw [hlog, List.append_assoc]; rfl
  obtain ⟨h1, h2⟩ := roll_exact cfg t1 t2 s hcfg hs _ post tid' w t sc fc hlog'
  have e1 : ∀ k', recN w k' (t - cfg.window) (pre ++ (tid, Obs.recorded w stamp k) :: mid) =
      recN w k' (t - cfg.window) pre + (if k = k' then 1 else 0) + recN w k' (t - cfg.window) mid := by
    intro k'
    have : (tid, Obs.recorded w stamp k) :: mid = [(tid, Obs.recorded w stamp k)] ++ mid := rfl
    rw [this, recN_append, recN_append]
    have : recN w k' (t - cfg.window) [(tid, Obs.recorded w stamp k)] = if k = k' then 1 else 0 := by
      by_cases e : k = k' <;> simp [recN, recHit, e, hin]
    rw [this]; omega
  simp only [recS, recF] at h1 h2
  rw [e1] at h1 h2
  cases k <;> simp at h1 h2 ⊢ <;> omega

/-- **Losers and back-in-time reporters are counted.**  `loser_recorded` and `backstep_recorded` below show that a
reporter that loses the CAS at `w2`, or that read a tick before the current bucket's timestamp at `w1`, emits
`recorded w (its own tick) succ` and leaves its fresh bucket in the reservoir (`inWin`); by this theorem (which does
not care who emitted the entry) every later roll of the window whose limit is `≤` that stamp counts it, exactly
once. -/
theorem losers_and_backsteps_counted (cfg : Config) (t1 t2 : Int) (s : List (Tid × Act)) (hcfg : WNoWrap cfg)
    (hs : SchedOK t1 t2 s) (pre mid post : List (Tid × Obs)) (tid tid' : Tid) (w : Nat) (stamp : Int) (k : Bool)
    (t sc fc : Int)
    (hlog : (runOf cfg t1 t2 s).2 = pre ++ (tid, Obs.recorded w stamp k) :: (mid ++ (tid', Obs.rolled w t sc fc) :: post))
    (hin : t - cfg.window ≤ stamp) :
    (if k then sc else fc) = recN w k (t - cfg.window) pre + 1 + recN w k (t - cfg.window) mid ∧
    (if k then fc else sc) = recN w (!k) (t - cfg.window) pre + recN w (!k) (t - cfg.window) mid :=
  recorded_counted_by_later_roll cfg t1 t2 s hcfg hs pre mid post tid tid' w stamp k t sc fc hlog hin

/-- a reporter in a guarded run that is about to lose the CAS (`w2`, the window's current bucket is no longer the
one it loaded) records its event with its own tick as stamp, in a fresh bucket that sits in the reservoir -/
theorem loser_recorded (cfg : Config) (t1 t2 : Int) (s : List (Tid × Act)) (hcfg : WNoWrap cfg) (hs : SchedOK t1 t2 s)
    (tid : Tid) (c : Call) (o w : Nat) (tt : Int) (b : Nat) (g' : CG) (l' : L) (obs : List Obs) :
    let g := (runOf cfg t1 t2 s).1.g
    (runOf cfg t1 t2 s).1.l tid = .w2 c o w tt b → (g.win w).cur ≠ b →
    step cfg tid g (.w2 c o w tt b) .tau = some (g', l', obs) →
    l' = .idle ∧ obs = [.recorded w tt (decide (c = .succ)), .ret none] ∧
    g.buckets.length ∈ inWin g' w ∧ g'.bucket g.buckets.length = mkBucket tt (decide (c = .succ)) := by
  intro g hl hne hstep
  obtain ⟨n, _, _, _, hL⟩ := winv_run cfg t1 t2 s hcfg hs
  have hlok := hL tid
  rw [show (run (M cfg t1 t2) (Conc.Config.init _) s).1.l tid = .w2 c o w tt b from hl] at hlok
  obtain ⟨h1, h2, h3, h4, _⟩ := loser_step hlok.1 hne hstep
  exact ⟨h1, h2, by rw [inWin, h4]; exact List.mem_append_left _ (List.mem_append_right _ (List.mem_singleton.mpr rfl)), h3⟩

/-- a reporter in a guarded run whose tick is before the current bucket's timestamp (the ticker stepped back)
records its event with its own tick as stamp, in a fresh bucket that sits in the reservoir -/
theorem backstep_recorded (cfg : Config) (t1 t2 : Int) (s : List (Tid × Act)) (hcfg : WNoWrap cfg)
    (hs : SchedOK t1 t2 s) (tid : Tid) (c : Call) (o w : Nat) (tt : Int) (g' : CG) (l' : L) (obs : List Obs) :
    let g := (runOf cfg t1 t2 s).1.g
    (runOf cfg t1 t2 s).1.l tid = .w1 c o w tt → tt < (g.bucket (g.win w).cur).ts →
    step cfg tid g (.w1 c o w tt) .tau = some (g', l', obs) →
    l' = .idle ∧ obs = [.recorded w tt (decide (c = .succ)), .ret none] ∧
    g.buckets.length ∈ inWin g' w ∧ g'.bucket g.buckets.length = mkBucket tt (decide (c = .succ)) := by
  intro g hl hlt hstep
  obtain ⟨n, _, _, _, hL⟩ := winv_run cfg t1 t2 s hcfg hs
  have hlok := hL tid
  rw [show (run (M cfg t1 t2) (Conc.Config.init _) s).1.l tid = .w1 c o w tt from hl] at hlok
  obtain ⟨h1, h2, h3, h4, _⟩ := backstep_step hlok.1 hlt hstep
  exact ⟨h1, h2, by rw [inWin, h4]; exact List.mem_append_left _ (List.mem_append_right _ (List.mem_singleton.mpr rfl)), h3⟩

/-! ## Each bucket is in at most one window, at most once -/

/-- **Each bucket is in the reservoir at most once, and the current bucket is not in the reservoir** -/
theorem bucket_at_most_once (cfg : Config) (t1 t2 : Int) (c : Conc.Config (M cfg t1 t2)) (h : Reach (M cfg t1 t2) c)
    (w : Nat) : (c.g.win w).res.Nodup ∧ (c.g.win w).cur ∉ (c.g.win w).res := by
  by_cases hw : w < c.g.wins.length
  · have := (sinv_reach cfg t1 t2 c h).nodup w hw
    simp only [inWin] at this
    rw [List.nodup_append] at this
    exact ⟨this.1, fun hm => this.2.2 _ hm _ (by simp) rfl⟩
  · have : c.g.win w = dfltWin := getD'_ge _ _ _ (by omega)
    rw [this]; simp [dfltWin]

/-- the buckets of a window exist, and different windows share no bucket -/
theorem windows_disjoint (cfg : Config) (t1 t2 : Int) (c : Conc.Config (M cfg t1 t2)) (h : Reach (M cfg t1 t2) c) :
    (∀ w, w < c.g.wins.length → ∀ b ∈ inWin c.g w, b < c.g.buckets.length) ∧
    (∀ w1 w2, w1 < c.g.wins.length → w2 < c.g.wins.length → w1 ≠ w2 → ∀ b, b ∈ inWin c.g w1 → b ∉ inWin c.g w2) :=
  ⟨(sinv_reach cfg t1 t2 c h).rng, (sinv_reach cfg t1 t2 c h).disj⟩

/-- the same for the configurations of runs -/
theorem bucket_at_most_once_run (cfg : Config) (t1 t2 : Int) (s : List (Tid × Act)) (w : Nat) :
    ((runOf cfg t1 t2 s).1.g.win w).res.Nodup ∧
    ((runOf cfg t1 t2 s).1.g.win w).cur ∉ ((runOf cfg t1 t2 s).1.g.win w).res :=
  bucket_at_most_once cfg t1 t2 _ (reach_run _ _ Reach.init s) w

/-! ## The stored snapshot is the count of the same operation's roll -/

/-- **The snapshot is the roll's count.**  A thread about to store a snapshot (`w3`) carries the count of the last
`rolled` entry it emitted (the roll of the same operation), and its next step stores exactly that count in the
window's `snap`. -/
theorem snapshot_is_last_roll (cfg : Config) (t1 t2 : Int) (s : List (Tid × Act)) (hcfg : WNoWrap cfg)
    (hs : SchedOK t1 t2 s) (tid : Tid) (c : Call) (o w : Nat) (e : Int × Int)
    (hl : (runOf cfg t1 t2 s).1.l tid = .w3 c o w e) :
    lastRollBy tid (runOf cfg t1 t2 s).2 = some (w, e.1, e.2) ∧
    ∀ a g' l' obs, step cfg tid (runOf cfg t1 t2 s).1.g (.w3 c o w e) a = some (g', l', obs) →
      (g'.win w).snap = e := by
  refine ⟨snapInv_run cfg t1 t2 s tid c o w e hl, ?_⟩
  intro a g' l' obs hstep
  obtain ⟨n, _, _, _, hL⟩ := winv_run cfg t1 t2 s hcfg hs
  have hlok := hL tid
  rw [show (run (M cfg t1 t2) (Conc.Config.init _) s).1.l tid = .w3 c o w e from hl] at hlok
  exact w3_step_snap hlok hstep

/-! ## Non-vacuity -/

def cfgEx (window : Int) : Config :=
  { thr := .fin false (2^52) (-53), minReq := 10, trial := 3, openW := 10, window := window, interval := 10,
    listeners := 0 }

/-- threads 1 and 2 report on window 0 (first bucket at tick 0): two reports into the first bucket, a race for the
roll at ticks 12/13 (thread 1 wins, thread 2 loses and archives its own bucket), a report by thread 2 whose
ticker reading (4) is before the current bucket's timestamp (12), and a second roll at tick 25 -/
def schedEx : List (Tid × Act) :=
  [ (1, .call .succ), (1, .tau), (1, .tick 5), (1, .tau),        -- success, tick 5: added to the first bucket
    (2, .call .fail), (2, .tau), (2, .tick 3), (2, .tau),        -- failure, tick 3: added to the first bucket
    (1, .call .succ), (1, .tau), (1, .tick 12), (1, .tau),       -- success, tick 12: interval over, now at w2
    (2, .call .fail), (2, .tau), (2, .tick 13), (2, .tau),       -- failure, tick 13: interval over, now at w2
    (1, .tau),                                                   -- thread 1 wins the CAS: the first roll
    (2, .tau),                                                   -- thread 2 loses: own bucket into the reservoir
    (1, .tau),                                                   -- thread 1 stores the snapshot
    (2, .call .fail), (2, .tau), (2, .tick 4), (2, .tau),        -- ticker stepped back: instant bucket
    (1, .call .succ), (1, .tau), (1, .tick 25), (1, .tau), (1, .tau) ]   -- the second roll

def isW (e : Tid × Obs) : Bool := e.2.isRec || e.2.isRolled

/-- window 100: nothing is trimmed; the second roll counts the loser's event (stamp 13) and the back-in-time
event (stamp 4), but not its own triggering event -/
example : (runOf (cfgEx 100) 0 0 schedEx).2.filter isW =
    [ (1, .recorded 0 0 true), (2, .recorded 0 0 false),
      (1, .rolled 0 12 1 1), (1, .recorded 0 12 true),
      (2, .recorded 0 13 false), (2, .recorded 0 4 false),
      (1, .rolled 0 25 2 3), (1, .recorded 0 25 true) ] := by decide

/-- window 15: the second roll (limit `25 - 15 = 10`) drops the first bucket (stamp 0) and the back-in-time bucket
(stamp 4) and keeps the roller's (12) and the loser's (13) -/
example : (runOf (cfgEx 15) 0 0 schedEx).2.filter isW =
    [ (1, .recorded 0 0 true), (2, .recorded 0 0 false),
      (1, .rolled 0 12 1 1), (1, .recorded 0 12 true),
      (2, .recorded 0 13 false), (2, .recorded 0 4 false),
      (1, .rolled 0 25 1 1), (1, .recorded 0 25 true) ] := by decide

instance : DecidablePred TB := fun t => by unfold TB; infer_instance

def tickOKb : Act → Bool
  | .tick t => decide (TB t)
  | _ => true

theorem tickOK_of_b {a : Act} (h : tickOKb a = true) : TickOK a := by
  cases a <;> simp [tickOKb, TickOK] at h ⊢
  exact h

theorem noWrap_ex (window : Int) (h : 0 < window ∧ window ≤ 2^61) : WNoWrap (cfgEx window) :=
  ⟨by show (0 : Int) < 10; decide, by show (10 : Int) ≤ 2^61; decide, h.1, h.2⟩

theorem schedOK_ex : SchedOK 0 0 schedEx :=
  ⟨by decide, by decide,
   fun e he => tickOK_of_b (List.all_eq_true.mp (by decide : schedEx.all (fun e => tickOKb e.2) = true) e he),
   by decide⟩

def logEx : List (Tid × Obs) := (runOf (cfgEx 100) 0 0 schedEx).2

/-- the guard is satisfiable and `roll_exact` applies to the example: the second roll's count `2/3` is the number of
`recorded` entries before it with stamp `≥ 25 - 100` -/
example : ∃ pre post, (runOf (cfgEx 100) 0 0 schedEx).2 = pre ++ (1, Obs.rolled 0 25 2 3) :: post ∧
    (2 : Int) = recS 0 (25 - (cfgEx 100).window) pre ∧ (3 : Int) = recF 0 (25 - (cfgEx 100).window) pre := by
  have h : ∃ pre post, logEx = pre ++ (1, Obs.rolled 0 25 2 3) :: post :=
    List.append_of_mem (by decide : (1, Obs.rolled 0 25 2 3) ∈ logEx)
  obtain ⟨pre, post, h⟩ := h
  exact ⟨pre, post, h, roll_exact (cfgEx 100) 0 0 schedEx (noWrap_ex 100 (by decide)) schedOK_ex pre post 1 0 25 2 3 h⟩

/-- the final state of the example: the reservoir of window 0 holds the old first bucket (id 0), the loser's bucket
(id 2), the back-in-time bucket (id 3) and the first roller's bucket (id 1) once each; the current bucket is the
second roller's (id 4) -/
example : ((runOf (cfgEx 100) 0 0 schedEx).1.g.win 0).res = [0, 2, 3, 1] ∧
    ((runOf (cfgEx 100) 0 0 schedEx).1.g.win 0).cur = 4 := by decide

#print axioms roll_exact
#print axioms roll_ticks_strictly_increase
#print axioms no_invention
#print axioms report_records_exactly_once
#print axioms window_holds_recorded
#print axioms recorded_counted_by_later_roll
#print axioms losers_and_backsteps_counted
#print axioms loser_recorded
#print axioms backstep_recorded
#print axioms bucket_at_most_once
#print axioms windows_disjoint
#print axioms buckets_wellformed
#print axioms snapshot_is_last_roll
#print axioms Garr.Breaker.bucket_ts_is_reading
end Garr.Props.C10
