import Garr.Retry.Model
import Garr.Validate.Model
/-!
# C20 — constructors accept exactly their documented parameter domain

`F64.lt`/`F64.le` are the IEEE comparisons of the exact binary64 model (false whenever an operand is NaN).
The domain predicates below are explicit about NaN.
-/
namespace Garr.Props.C20
open Garr Garr.Retry Garr.Validate

theorem lt_nan_left (x : F64) : F64.lt .nan x = false := by cases x <;> rfl
theorem lt_nan_right (x : F64) : F64.lt x .nan = false := by cases x <;> rfl
theorem le_nan_left (x : F64) : F64.le .nan x = false := by cases x <;> rfl
theorem le_nan_right (x : F64) : F64.le x .nan = false := by cases x <;> rfl

/-- fixed: accepted ⇔ delay ≥ 0 -/
theorem fixed_accept_iff (d : Int) : (mkFixed d).isSome ↔ 0 ≤ d := by
  unfold mkFixed; split <;> simp <;> omega

/-- random: accepted ⇔ 0 ≤ min ≤ max -/
theorem random_accept_iff (lo hi : Int) : (mkRandom lo hi).isSome ↔ (0 ≤ lo ∧ lo ≤ hi) := by
  unfold mkRandom
  split
  · simp; omega
  · split <;> simp <;> omega

/-- exponential: accepted ⇔ multiplier is a number > 1, initial ≥ 0, initial ≤ max -/
theorem expo_accept_iff (i m : Int) (mu : F64) :
    (mkExpo i m mu).isSome ↔ (mu ≠ .nan ∧ F64.lt F64.one mu = true ∧ 0 ≤ i ∧ i ≤ m) := by
  unfold mkExpo
  by_cases hnan : mu = .nan
  · subst hnan; simp [lt_nan_right]
  · by_cases hlt : F64.lt F64.one mu = true
    · simp only [hlt, Bool.not_true, Bool.false_eq_true, if_false]
      split
      · simp; omega
      · split <;> simp [hnan] <;> omega
    · simp [hlt]

/-- NaN multiplier is rejected (the defect repaired by the `fix:` commit) -/
theorem expo_rejects_nan (i m : Int) : mkExpo i m .nan = none := by
  simp [mkExpo, lt_nan_right]

/-- jitter: accepted ⇔ delegate present, both rates are numbers in [-1, 1], min ≤ max -/
theorem jitter_accept_iff (b : Option Backoff) (lo hi : F64) :
    (mkJitter b lo hi).isSome ↔
      (b.isSome ∧ lo ≠ .nan ∧ hi ≠ .nan ∧
       F64.le (F64.neg F64.one) lo = true ∧ F64.le lo F64.one = true ∧
       F64.le (F64.neg F64.one) hi = true ∧ F64.le hi F64.one = true ∧ F64.lt hi lo = false) := by
  unfold mkJitter
  cases b with
  | none => simp
  | some bb =>
    by_cases h1 : lo = .nan
    · subst h1; simp [le_nan_left, le_nan_right]
    · by_cases h2 : hi = .nan
      · subst h2; simp [le_nan_left, le_nan_right]
      · simp only [Option.isSome_some, true_and, ne_eq, h1, not_false_eq_true, h2]
        cases ha : F64.le (F64.neg F64.one) lo <;> cases hb : F64.le lo F64.one <;>
          cases hc : F64.le (F64.neg F64.one) hi <;> cases hd : F64.le hi F64.one <;>
          cases he : F64.lt hi lo <;> simp

theorem jitter_rejects_nan (b : Option Backoff) (x : F64) :
    mkJitter b .nan x = none ∧ mkJitter b x .nan = none := by
  constructor
  · cases b <;> simp [mkJitter, le_nan_left, le_nan_right]
  · cases b with
    | none => simp [mkJitter]
    | some bb =>
      simp only [mkJitter, le_nan_left, le_nan_right]
      cases F64.le (F64.neg F64.one) x && F64.le x F64.one <;> simp

/-- limit: accepted ⇔ delegate present and limit > 0 -/
theorem limit_accept_iff (b : Option Backoff) (k : Int) : (mkLimit b k).isSome ↔ (b.isSome ∧ 0 < k) := by
  unfold mkLimit
  cases b with
  | none => simp
  | some bb => simp only; split <;> simp <;> omega

/-- breaker configuration: accepted ⇔ threshold is a number with 0 < thr ≤ 1, every duration positive,
window longer than the update interval -/
theorem config_accept_iff (c : Config) :
    valid c = true ↔ (c.thr ≠ .nan ∧ F64.lt (F64.zero false) c.thr = true ∧ F64.le c.thr F64.one = true ∧
      0 < c.trial ∧ 0 < c.openW ∧ 0 < c.window ∧ 0 < c.interval ∧ c.interval < c.window) := by
  unfold valid
  by_cases hnan : c.thr = .nan
  · simp [hnan, lt_nan_right]
  · cases h1 : F64.lt (F64.zero false) c.thr <;> cases h2 : F64.le c.thr F64.one <;> simp [hnan]
    repeat' split
    all_goals simp
    all_goals omega

theorem config_rejects_nan (c : Config) (h : c.thr = .nan) : valid c = false := by
  simp [valid, h, lt_nan_right]

-- non-vacuity: a concrete valid configuration (threshold 0.5) and a concrete accepted multiplier (2.0)
example : valid { thr := .fin false (2^52) (-53), minReq := 10, trial := 3, openW := 10, window := 20, interval := 1 } = true := by
  decide +kernel
example : (mkExpo 200 10000 (.fin false (2^52) (-51))).isSome = true := by decide +kernel

end Garr.Props.C20
