import Garr.Retry.Model
import Garr.Validate.Model
import Garr.Num.F64Order
/-!
# C20 — constructors accept exactly their documented parameter domain

`F64.lt`/`F64.le` are the IEEE comparisons of the exact binary64 model (false whenever an operand is NaN).
The domain predicates below are explicit about NaN.

The first group of theorems phrases the float part of each domain with the model's own `F64.lt`/`F64.le`.
The second group (suffix `_sem`, section "Documented domains") restates them with the *mathematical*
order of the represented extended reals (`Garr/Num/F64Order.lean`): `F64.ext x` is `value x · 2^1074`
in `ℤ ∪ {-∞,+∞}` (an order embedding, independent of how `lt`/`le` are computed), and
`EInt.ofInt n` is the integer `n` on that scale (`F64.ext F64.one = EInt.ofInt 1`, etc.).
-/
namespace Garr.Props.C20
open Garr Garr.Retry Garr.Validate

theorem lt_nan_left (x : F64) : F64.lt .nan x = false := by cases x <;> rfl
theorem lt_nan_right (x : F64) : F64.lt x .nan = false := by cases x <;> rfl
theorem le_nan_left (x : F64) : F64.le .nan x = false := by cases x <;> rfl
theorem le_nan_right (x : F64) : F64.le x .nan = false := by cases x <;> rfl

/-- fixed: accepted ⇔ delay ≥ 0 -/
theorem fixed_accept_iff (d : Int) : (mkFixed d).isSome ↔ 0 ≤ d := by
  unfold mkFixed; split <;> simp <;> omega

/-- random: accepted ⇔ 0 ≤ min ≤ max -/
theorem random_accept_iff (lo hi : Int) : (mkRandom lo hi).isSome ↔ (0 ≤ lo ∧ lo ≤ hi) := by
  unfold mkRandom
  split
  · simp; omega
  · split <;> simp <;> omega

/-- exponential: accepted ⇔ multiplier is a number > 1, initial ≥ 0, initial ≤ max -/
theorem expo_accept_iff (i m : Int) (mu : F64) :
    (mkExpo i m mu).isSome ↔ (mu ≠ .nan ∧ F64.lt F64.one mu = true ∧ 0 ≤ i ∧ i ≤ m) := by
  unfold mkExpo
  by_cases hnan : mu = .nan
  · subst hnan; simp [lt_nan_right]
  · by_cases hlt : F64.lt F64.one mu = true
    · simp only [hlt, Bool.not_true, Bool.false_eq_true, if_false]
      split
      · simp; omega
      · split <;> simp [hnan] <;> omega
    · simp [hlt]

/-- NaN multiplier is rejected (the defect repaired by the `fix:` commit) -/
theorem expo_rejects_nan (i m : Int) : mkExpo i m .nan = none := by
  simp [mkExpo, lt_nan_right]

/-- jitter: accepted ⇔ delegate present, both rates are numbers in [-1, 1], min ≤ max -/
theorem jitter_accept_iff (b : Option Backoff) (lo hi : F64) :
    (mkJitter b lo hi).isSome ↔
      (b.isSome ∧ lo ≠ .nan ∧ hi ≠ .nan ∧
       F64.le (F64.neg F64.one) lo = true ∧ F64.le lo F64.one = true ∧
       F64.le (F64.neg F64.one) hi = true ∧ F64.le hi F64.one = true ∧ F64.lt hi lo = false) := by
  unfold mkJitter
  cases b with
  | none => simp
  | some bb =>
    by_cases h1 : lo = .nan
    · subst h1; simp [le_nan_left, le_nan_right]
    · by_cases h2 : hi = .nan
      · subst h2; simp [le_nan_left, le_nan_right]
      · simp only [Option.isSome_some, true_and, ne_eq, h1, not_false_eq_true, h2]
        cases ha : F64.le (F64.neg F64.one) lo <;> cases hb : F64.le lo F64.one <;>
          cases hc : F64.le (F64.neg F64.one) hi <;> cases hd : F64.le hi F64.one <;>
          cases he : F64.lt hi lo <;> simp

theorem jitter_rejects_nan (b : Option Backoff) (x : F64) :
    mkJitter b .nan x = none ∧ mkJitter b x .nan = none := by
  constructor
  · cases b <;> simp [mkJitter, le_nan_left, le_nan_right]
  · cases b with
    | none => simp [mkJitter]
    | some bb =>
      simp only [mkJitter, le_nan_left, le_nan_right]
      cases F64.le (F64.neg F64.one) x && F64.le x F64.one <;> simp

/-- limit: accepted ⇔ delegate present and limit > 0 -/
theorem limit_accept_iff (b : Option Backoff) (k : Int) : (mkLimit b k).isSome ↔ (b.isSome ∧ 0 < k) := by
  unfold mkLimit
  cases b with
  | none => simp
  | some bb => simp only; split <;> simp <;> omega

/-- breaker configuration: accepted ⇔ threshold is a number with 0 < thr ≤ 1, every duration positive,
window longer than the update interval -/
theorem config_accept_iff (c : Config) :
    valid c = true ↔ (c.thr ≠ .nan ∧ F64.lt (F64.zero false) c.thr = true ∧ F64.le c.thr F64.one = true ∧
      0 < c.trial ∧ 0 < c.openW ∧ 0 < c.window ∧ 0 < c.interval ∧ c.interval < c.window) := by
  unfold valid
  by_cases hnan : c.thr = .nan
  · simp [hnan, lt_nan_right]
  · cases h1 : F64.lt (F64.zero false) c.thr <;> cases h2 : F64.le c.thr F64.one <;> simp [hnan]
    repeat' split
    all_goals simp
    all_goals omega

theorem config_rejects_nan (c : Config) (h : c.thr = .nan) : valid c = false := by
  simp [valid, h, lt_nan_right]

-- non-vacuity: a concrete valid configuration (threshold 0.5) and a concrete accepted multiplier (2.0)
example : valid { thr := .fin false (2^52) (-53), minReq := 10, trial := 3, openW := 10, window := 20, interval := 1 } = true := by
  decide +kernel
example : (mkExpo 200 10000 (.fin false (2^52) (-51))).isSome = true := by decide +kernel

/-! ## Documented domains, with the mathematical order (`_sem`)

Inputs are canonical (`F64.IsF64`: what decoding any 64 raw bits gives).  Reading guide:
`EInt.ofInt 1 < F64.ext mu` is "value(mu) > 1", `F64.ext x ≤ EInt.ofInt 1` is "value(x) ≤ 1", ...;
`x ≠ .nan` is "x is a number". -/
section Sem
open Garr.F64 (ext EInt IsF64)

/-- exponential: accepted ⇔ the multiplier is a number with value > 1 (this includes `+∞`, which the Go
constructor `!(multiplier > 1)` also accepts), initial ≥ 0, initial ≤ max -/
theorem expo_accept_iff_sem (i m : Int) (mu : F64) (hmu : IsF64 mu) :
    (mkExpo i m mu).isSome ↔ (mu ≠ .nan ∧ EInt.ofInt 1 < ext mu ∧ 0 ≤ i ∧ i ≤ m) := by
  rw [expo_accept_iff]
  by_cases n : mu = .nan
  · simp [n]
  · rw [F64.lt_iff_ext F64.isF64_one hmu (by decide) n, F64.ext_one_eq_ofInt]

/-- the same, with the constant written as the model's `1.0` -/
theorem expo_accept_iff_sem' (i m : Int) (mu : F64) (hmu : IsF64 mu) :
    (mkExpo i m mu).isSome ↔ (mu ≠ .nan ∧ ext F64.one < ext mu ∧ 0 ≤ i ∧ i ≤ m) := by
  rw [expo_accept_iff_sem i m mu hmu, F64.ext_one_eq_ofInt]

/-- jitter: accepted ⇔ delegate present, both rates are numbers, -1 ≤ min ≤ 1, -1 ≤ max ≤ 1, min ≤ max -/
theorem jitter_accept_iff_sem (b : Option Backoff) (lo hi : F64) (hlo : IsF64 lo) (hhi : IsF64 hi) :
    (mkJitter b lo hi).isSome ↔
      (b.isSome ∧ lo ≠ .nan ∧ hi ≠ .nan ∧
       EInt.ofInt (-1) ≤ ext lo ∧ ext lo ≤ EInt.ofInt 1 ∧
       EInt.ofInt (-1) ≤ ext hi ∧ ext hi ≤ EInt.ofInt 1 ∧ ext lo ≤ ext hi) := by
  rw [jitter_accept_iff]
  by_cases n1 : lo = .nan
  · simp [n1]
  by_cases n2 : hi = .nan
  · simp [n2]
  have nm1 : F64.neg F64.one ≠ .nan := by decide
  have n1' : F64.one ≠ .nan := by decide
  rw [F64.le_iff_ext F64.isF64_neg_one hlo nm1 n1, F64.le_iff_ext hlo F64.isF64_one n1 n1',
    F64.le_iff_ext F64.isF64_neg_one hhi nm1 n2, F64.le_iff_ext hhi F64.isF64_one n2 n1',
    F64.lt_eq_false_iff hhi hlo n2 n1, F64.ext_neg_one_eq_ofInt, F64.ext_one_eq_ofInt]

/-- breaker configuration: accepted ⇔ the threshold is a number with 0 < value ≤ 1, every duration
positive, window longer than the update interval -/
theorem config_accept_iff_sem (c : Config) (hthr : IsF64 c.thr) :
    valid c = true ↔ (c.thr ≠ .nan ∧ EInt.ofInt 0 < ext c.thr ∧ ext c.thr ≤ EInt.ofInt 1 ∧
      0 < c.trial ∧ 0 < c.openW ∧ 0 < c.window ∧ 0 < c.interval ∧ c.interval < c.window) := by
  rw [config_accept_iff]
  by_cases n : c.thr = .nan
  · simp [n]
  · rw [F64.lt_iff_ext (F64.isF64_zero false) hthr (by decide) n,
      F64.le_iff_ext hthr F64.isF64_one n (by decide), F64.ext_zero_eq_ofInt, F64.ext_one_eq_ofInt]

/-! ### Corollaries at the boundary of each domain -/

/-- `±∞` threshold is rejected -/
theorem config_rejects_inf (c : Config) (s : Bool) (h : c.thr = .inf s) : valid c = false := by
  cases hv : valid c
  · rfl
  · have := (config_accept_iff_sem c (by rw [h]; trivial)).1 hv
    rw [h] at this
    cases s
    · exact absurd this.2.2.1 (by simp [ext])
    · exact absurd this.2.1 (by simp [ext])

/-- `+0` and `-0` thresholds are rejected -/
theorem config_rejects_zero (c : Config) (s : Bool) (h : c.thr = F64.zero s) : valid c = false := by
  cases hv : valid c
  · rfl
  · have := (config_accept_iff_sem c (by rw [h]; exact F64.isF64_zero s)).1 hv
    rw [h, F64.ext_zero_eq_ofInt] at this
    exact absurd this.2.1 (EInt.lt_irrefl _)

/-- a negative threshold (any negative finite number, `-0` included) is rejected -/
theorem config_rejects_negative (c : Config) (m : Nat) (e : Int) (h : c.thr = .fin true m e)
    (hc : F64.Canon m e) : valid c = false := by
  cases hv : valid c
  · rfl
  · have := (config_accept_iff_sem c (by rw [h]; exact hc)).1 hv
    rw [h] at this
    have h0 := this.2.1
    simp only [ext, EInt.ofInt, F64.num, EInt.fin_lt_fin, Int.zero_mul, if_true] at h0
    have hp : (0 : Int) < 2 ^ (e + 1074).toNat := Int.pow_pos (by decide)
    have : -(m : Int) * 2 ^ (e + 1074).toNat ≤ 0 :=
      Int.mul_nonpos_of_nonpos_of_nonneg (by omega) (Int.le_of_lt hp)
    omega

/-- the smallest positive subnormal `2^-1074` is an accepted threshold (given the integer conditions) -/
theorem config_accepts_min_subnormal (c : Config) (h : c.thr = .fin false 1 (-1074)) :
    valid c = true ↔
      (0 < c.trial ∧ 0 < c.openW ∧ 0 < c.window ∧ 0 < c.interval ∧ c.interval < c.window) := by
  rw [config_accept_iff_sem c (by rw [h]; decide), h]
  have h1 : EInt.ofInt 0 < ext (.fin false 1 (-1074)) := by decide +kernel
  have h2 : ext (.fin false 1 (-1074)) ≤ EInt.ofInt 1 := by decide +kernel
  simp [h1, h2]

/-- threshold exactly `1.0` is accepted (given the integer conditions); `nextUp(1.0)` is rejected -/
theorem config_accepts_one (c : Config) (h : c.thr = F64.one) :
    valid c = true ↔
      (0 < c.trial ∧ 0 < c.openW ∧ 0 < c.window ∧ 0 < c.interval ∧ c.interval < c.window) := by
  rw [config_accept_iff_sem c (by rw [h]; exact F64.isF64_one), h, F64.ext_one_eq_ofInt]
  have h1 : EInt.ofInt 0 < EInt.ofInt 1 := (EInt.ofInt_lt_ofInt 0 1).2 (by decide)
  simp [h1, EInt.le_refl, F64.one]

theorem config_rejects_above_one (c : Config) (h : c.thr = .fin false (2^52 + 1) (-52)) :
    valid c = false := by
  cases hv : valid c
  · rfl
  · have := (config_accept_iff_sem c (by rw [h]; decide)).1 hv
    rw [h] at this
    exact absurd this.2.2.1 (by decide +kernel)

/-- multiplier exactly `1.0` is rejected -/
theorem expo_rejects_one (i m : Int) : mkExpo i m F64.one = none := by
  cases hv : mkExpo i m F64.one
  · rfl
  · have h : (mkExpo i m F64.one).isSome := by rw [hv]; rfl
    have := (expo_accept_iff_sem i m F64.one F64.isF64_one).1 h
    rw [F64.ext_one_eq_ofInt] at this
    exact absurd this.2.1 (EInt.lt_irrefl _)

/-- multiplier `nextUp(1.0) = 1 + 2^-52` is accepted (given the integer conditions) -/
theorem expo_accepts_next_up_one (i m : Int) :
    (mkExpo i m (.fin false (2^52 + 1) (-52))).isSome ↔ (0 ≤ i ∧ i ≤ m) := by
  rw [expo_accept_iff_sem i m _ (by decide)]
  have h1 : EInt.ofInt 1 < ext (.fin false (2^52 + 1) (-52)) := by decide +kernel
  simp [h1]

/-- multiplier `+∞` is accepted (as by the Go code: `+Inf > 1`), `-∞` is rejected -/
theorem expo_accepts_pos_inf (i m : Int) : (mkExpo i m (.inf false)).isSome ↔ (0 ≤ i ∧ i ≤ m) := by
  rw [expo_accept_iff_sem i m (.inf false) trivial]
  simp [ext]

theorem expo_rejects_neg_inf (i m : Int) : mkExpo i m (.inf true) = none := by
  cases hv : mkExpo i m (.inf true)
  · rfl
  · have h : (mkExpo i m (.inf true)).isSome := by rw [hv]; rfl
    exact absurd ((expo_accept_iff_sem i m (.inf true) trivial).1 h).2.1 (by simp [ext])

/-- an infinite jitter rate is rejected -/
theorem jitter_rejects_inf (b : Option Backoff) (x : F64) (hx : IsF64 x) (s : Bool) :
    mkJitter b (.inf s) x = none ∧ mkJitter b x (.inf s) = none := by
  constructor
  · cases hv : mkJitter b (.inf s) x
    · rfl
    · have h : (mkJitter b (.inf s) x).isSome := by rw [hv]; rfl
      have := (jitter_accept_iff_sem b (.inf s) x trivial hx).1 h
      cases s
      · exact absurd this.2.2.2.2.1 (by simp [ext])
      · exact absurd this.2.2.2.1 (by simp [ext])
  · cases hv : mkJitter b x (.inf s)
    · rfl
    · have h : (mkJitter b x (.inf s)).isSome := by rw [hv]; rfl
      have := (jitter_accept_iff_sem b x (.inf s) hx trivial).1 h
      cases s
      · exact absurd this.2.2.2.2.2.2.1 (by simp [ext])
      · exact absurd this.2.2.2.2.2.1 (by simp [ext])

-- concrete instances, evaluated by the kernel on the executable model
example : valid { thr := .nan, minReq := 10, trial := 3, openW := 10, window := 20, interval := 1 } = false := by
  decide +kernel
example : valid { thr := .inf false, minReq := 10, trial := 3, openW := 10, window := 20, interval := 1 } = false := by
  decide +kernel
example : valid { thr := .inf true, minReq := 10, trial := 3, openW := 10, window := 20, interval := 1 } = false := by
  decide +kernel
example : valid { thr := F64.zero false, minReq := 10, trial := 3, openW := 10, window := 20, interval := 1 } = false := by
  decide +kernel
example : valid { thr := F64.zero true, minReq := 10, trial := 3, openW := 10, window := 20, interval := 1 } = false := by
  decide +kernel
example : valid { thr := .fin false 1 (-1074), minReq := 10, trial := 3, openW := 10, window := 20, interval := 1 } = true := by
  decide +kernel
example : valid { thr := F64.one, minReq := 10, trial := 3, openW := 10, window := 20, interval := 1 } = true := by
  decide +kernel
example : valid { thr := .fin false (2^52 + 1) (-52), minReq := 10, trial := 3, openW := 10, window := 20, interval := 1 } = false := by
  decide +kernel
example : mkExpo 200 10000 F64.one = none := by decide +kernel
example : (mkExpo 200 10000 (.fin false (2^52 + 1) (-52))).isSome = true := by decide +kernel
example : (mkExpo 200 10000 (.inf false)).isSome = true := by decide +kernel
-- jitter rates -1 and 1 (the closed ends) are accepted, nextUp(1) is not
example : (mkJitter (some (.fixed 5)) (F64.neg F64.one) F64.one).isSome = true := by decide +kernel
example : mkJitter (some (.fixed 5)) (F64.neg F64.one) (.fin false (2^52 + 1) (-52)) = none := by decide +kernel
example : mkJitter (some (.fixed 5)) F64.one (F64.neg F64.one) = none := by decide +kernel

end Sem

end Garr.Props.C20
