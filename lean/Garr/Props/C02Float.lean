import Garr.Adder.FloatInv
/-!
# C02, float clause: "For the float64 adders the same holds whenever all partial sums are exactly representable"

"The same" = *once all concurrent `Add` calls have returned, `Sum` equals the exact total of every value added*
(and `SumAndReset` returns that total and leaves the adder at zero).

Models: `Garr.Adder.Simple.M atomicF64P` (`AtomicF64Adder`: one cell, load/CAS loop) and `Garr.Adder.M floatAlg mc`
(`JDKF64Adder` / `stripedF64`: base + lazily created, growing table of cells; every `mc`, unboundedly many
threads, every schedule, every probe outcome).  The heaps hold binary64 **bit patterns** (`Int`); `fval b : ℚ` is
the rational value of the float with bit pattern `b`, `IsFinBits b` says it is finite, `floatAlg.add` is IEEE-754
addition (exact result, one round-to-nearest-even) on bit patterns through the soft-float model `Garr.F64`.

Hypothesis: `AllPartialSumsExact xs` — every operand in `xs` is finite and the exact rational sum of every
sublist (equivalently: sub-multiset) of `xs` is the value of a finite binary64.

Contents
* §1 arithmetic core: `ieee_add_exact`, `float_add_exact`.
* §2 `AtomicF64Adder`: `atomicF64_conservation`, `atomicF64_sum_after_adds`.
* §3 striped adder: `striped_conservation` (ghost split: every location holds the exact sum of its share),
  `striped_phase`, `striped_sum_after_adds`, `striped_sumAndReset_after_adds`, `striped_store_solo`,
  `striped_reset_solo`, `striped_lps_are_invocations`, `striped_store_phase_sum` (composition).
* §4 the hypothesis is satisfiable (`hypothesis_example`, `hypothesis_of_quantum`) and needed
  (`order_matters`, `atomicF64_inexact_run`, `striped_inexact_run`, `hypothesis_needed`).
-/
namespace Garr.Props.C02Float
open Garr Garr.Conc Garr.Adder Garr.F64Exact Garr.Adder.Float
open Garr.Adder.Simple (SAct SL SG atomicF64P cellAt addArg isMaintAct)

/-! ## 1. Arithmetic core -/

/-- **IEEE-754 addition is exact whenever the exact result is representable.**  For finite `x`, `y` (any
    significand/exponent form): if the rational `val x + val y` is the value of some finite binary64, then
    `F64.add x y` is a finite canonical float — not NaN, not ±∞ — and `val (add x y) = val x + val y`.
    (Stated on `val`, where `+0` and `-0` coincide.) -/
theorem ieee_add_exact {x y : F64} (hx : IsFin x) (hy : IsFin y) (hr : Representable (F64.val x + F64.val y)) :
    FinCanon (F64.add x y) ∧ F64.val (F64.add x y) = F64.val x + F64.val y :=
  add_exact hx hy hr

/-- the same for the adders' float algebra, on bit patterns -/
theorem float_add_exact {a b : Int} (ha : IsFinBits a) (hb : IsFinBits b) (hr : Representable (fval a + fval b)) :
    IsFinBits (floatAlg.add a b) ∧ fval (floatAlg.add a b) = fval a + fval b :=
  addBits_exact ha hb hr

/-! ## 2. `AtomicF64Adder` -/

/-- the schedule invokes no `Store` / `Reset` / `SumAndReset` (simple adder) -/
def UpdatesOnlyS (s : List (Tid × SAct)) : Prop := ∀ e ∈ s, isMaintAct e.2 = false

/-- operands, in schedule order, of the `Add` invocations that schedule `s` makes from the initial configuration -/
def atomicF64Adds (s : List (Tid × SAct)) : List Int :=
  invokedAddsS atomicF64P (Config.init (Simple.M atomicF64P)).g (Config.init (Simple.M atomicF64P)).l s

/-- **`AtomicF64Adder`, conservation.**  Run any schedule of `Add`s and `Sum`s from the initial configuration
    (any threads, any interleaving, any number of CAS retries).  If the operands applied so far — those of the
    `lp` markers of the log — satisfy the hypothesis, the cell holds a finite float whose rational value is
    their exact total. -/
theorem atomicF64_conservation (s : List (Tid × SAct)) (hs : UpdatesOnlyS s)
    (hx : AllPartialSumsExact (lpsLog (run (Simple.M atomicF64P) (Config.init (Simple.M atomicF64P)) s).2)) :
    IsFinBits (cellAt (run (Simple.M atomicF64P) (Config.init (Simple.M atomicF64P)) s).1.g 0) ∧
    fval (cellAt (run (Simple.M atomicF64P) (Config.init (Simple.M atomicF64P)) s).1.g 0) =
      qsumL (lpsLog (run (Simple.M atomicF64P) (Config.init (Simple.M atomicF64P)) s).2) := by
  have h := simple_exact_run atomicF64_inst Reach.init (simple_exact_init atomicF64_inst) s hs
    (by rw [zero_add]; exact pse_of_list hx)
  rw [zero_add] at h
  exact ⟨h.1.1, by rw [h.1.2, qsum_coe]⟩

/-- **C02 for `AtomicF64Adder`.**  Run any schedule `s` of `Add`s and `Sum`s from the initial configuration.  If
    every `Add` call has returned in the configuration reached, `t` is idle, and the operands of the `Add`s that
    were invoked satisfy the hypothesis, then `Sum` run by `t` returns — after one step, leaving the
    configuration as it was — a finite float whose rational value is the exact total of all values added. -/
theorem atomicF64_sum_after_adds (s : List (Tid × SAct)) (hs : UpdatesOnlyS s)
    (hq : ∀ u, addArg ((run (Simple.M atomicF64P) (Config.init (Simple.M atomicF64P)) s).1.l u) = none)
    (hx : AllPartialSumsExact (atomicF64Adds s))
    (t : Tid) (ht : (run (Simple.M atomicF64P) (Config.init (Simple.M atomicF64P)) s).1.l t = SL.idle) :
    ∃ r : Int,
      run (Simple.M atomicF64P) (run (Simple.M atomicF64P) (Config.init (Simple.M atomicF64P)) s).1
          [(t, SAct.sum), (t, SAct.tau)] =
        ((run (Simple.M atomicF64P) (Config.init (Simple.M atomicF64P)) s).1, [(t, Obs.ret (some r))]) ∧
      IsFinBits r ∧ fval r = qsumL (atomicF64Adds s) := by
  have hinv := simple_lps_invoked (P := atomicF64P) (Config.init (Simple.M atomicF64P)) s (fun _ => rfl) hq
  have hp : PSE (lpsLog (run (Simple.M atomicF64P) (Config.init (Simple.M atomicF64P)) s).2 : Multiset Int) := by
    rw [hinv]; exact pse_of_list hx
  have h := simple_exact_run atomicF64_inst Reach.init (simple_exact_init atomicF64_inst) s hs
    (by rw [zero_add]; exact hp)
  rw [zero_add, hinv] at h
  obtain ⟨h1, h2⟩ := simple_sum_solo atomicF64_inst (c := (run (Simple.M atomicF64P) _ s).1) t ht
  have hrun := run_invoke_solo_gen (tau := SAct.tau) h1 h2
  refine ⟨cellAt (run (Simple.M atomicF64P) (Config.init (Simple.M atomicF64P)) s).1.g 0, hrun, h.1.1, ?_⟩
  rw [h.1.2, qsum_coe]; rfl

/-! ## 3. The striped float adder -/

/-- the schedule invokes no `Store` / `Reset` / `SumAndReset` -/
def UpdatesOnly (s : List (Tid × Act)) : Prop := ∀ e ∈ s, isMaintActA e.2 = false

/-- operands, in schedule order, of the `Add` invocations that schedule `s` makes from the initial configuration -/
def stripedAdds (mc : Nat) (s : List (Tid × Act)) : List Int :=
  invokedAdds mc (Config.init (M floatAlg mc)).g (Config.init (M floatAlg mc)).l s

/-- **Striped float adder, conservation with ghost split.**  Run any schedule of `Add`s and `Sum`s from the
    initial configuration: every `mc`, any number of threads, every interleaving, every probe outcome, table
    creation and both growth forms included.  If the operands applied so far (the `lp` markers of the log) satisfy
    the hypothesis then they can be distributed over the locations — a share `b` for `base`, a share `cm k` for
    every materialised cell `k`, `b + Σ cm k` being all of them — such that every location holds a finite float
    whose rational value is the exact total of its share; consequently
    `value(base) + Σ_k value(cell k) = Σ value(applied operands)` in ℚ. -/
theorem striped_conservation (mc : Nat) (s : List (Tid × Act)) (hs : UpdatesOnly s)
    (hx : AllPartialSumsExact (lpsLog (run (M floatAlg mc) (Config.init (M floatAlg mc)) s).2)) :
    (∃ (b : Multiset Int) (cm : Nat → Multiset Int),
      b + sumN cm (G.ncell (run (M floatAlg mc) (Config.init (M floatAlg mc)) s).1.g) =
        (lpsLog (run (M floatAlg mc) (Config.init (M floatAlg mc)) s).2 : Multiset Int) ∧
      (IsFinBits (G.base (run (M floatAlg mc) (Config.init (M floatAlg mc)) s).1.g) ∧
        fval (G.base (run (M floatAlg mc) (Config.init (M floatAlg mc)) s).1.g) = qsum b) ∧
      ∀ k, k < G.ncell (run (M floatAlg mc) (Config.init (M floatAlg mc)) s).1.g →
        IsFinBits (G.cell (run (M floatAlg mc) (Config.init (M floatAlg mc)) s).1.g k) ∧
        fval (G.cell (run (M floatAlg mc) (Config.init (M floatAlg mc)) s).1.g k) = qsum (cm k)) ∧
    fval (G.base (run (M floatAlg mc) (Config.init (M floatAlg mc)) s).1.g) +
        sumN (fun k => fval (G.cell (run (M floatAlg mc) (Config.init (M floatAlg mc)) s).1.g k))
          (G.ncell (run (M floatAlg mc) (Config.init (M floatAlg mc)) s).1.g) =
      qsumL (lpsLog (run (M floatAlg mc) (Config.init (M floatAlg mc)) s).2) := by
  have h := exact_run (fexact_init mc) s hs (by rw [zero_add]; exact pse_of_list hx)
  rw [zero_add] at h
  refine ⟨h.2.2, ?_⟩
  rw [← qsum_coe]
  exact h.2.2.conservation

/-- **A phase of concurrent updates accumulates exactly on top.**  From any reachable configuration with no
    maintenance operation in progress whose heap holds exactly the operands `live0` (`FExact`: e.g. the initial
    configuration, or the configuration left by `Store` / `Reset` / `SumAndReset`), along any schedule of `Add`s
    and `Sum`s: if `live0` plus the operands applied during the phase satisfy the hypothesis, the heap holds
    exactly these. -/
theorem striped_phase {mc : Nat} {c0 : Config (M floatAlg mc)} {live0 : Multiset Int} (h0 : FExact c0 live0)
    (s : List (Tid × Act)) (hs : UpdatesOnly s)
    (hp : PSE (live0 + (lpsLog (run (M floatAlg mc) c0 s).2 : Multiset Int))) :
    FExact (run (M floatAlg mc) c0 s).1 (live0 + (lpsLog (run (M floatAlg mc) c0 s).2 : Multiset Int)) :=
  exact_run h0 s hs hp

/-- **Every `Add` takes effect exactly once**: when every thread is idle again, the operands of the `lp`
    markers are, as a multiset, the operands of the `Add` invocations made. -/
theorem striped_lps_are_invocations (mc : Nat) (s : List (Tid × Act))
    (hidle : ∀ u, (run (M floatAlg mc) (Config.init (M floatAlg mc)) s).1.l u = L.idle) :
    (lpsLog (run (M floatAlg mc) (Config.init (M floatAlg mc)) s).2 : Multiset Int) =
      (stripedAdds mc s : Multiset Int) :=
  lps_invoked (Config.init (M floatAlg mc)) s (fun _ => rfl) (fun u => pendA_idle (hidle u))

/-- the exact state reached after a quiescent phase from the initial configuration -/
theorem striped_exact_after_adds (mc : Nat) (s : List (Tid × Act)) (hs : UpdatesOnly s)
    (hidle : ∀ u, (run (M floatAlg mc) (Config.init (M floatAlg mc)) s).1.l u = L.idle)
    (hx : AllPartialSumsExact (stripedAdds mc s)) :
    FExact (run (M floatAlg mc) (Config.init (M floatAlg mc)) s).1 (stripedAdds mc s : Multiset Int) := by
  have hinv := striped_lps_are_invocations mc s hidle
  have h := exact_run (fexact_init mc) s hs (by rw [zero_add, hinv]; exact pse_of_list hx)
  rw [zero_add, hinv] at h
  exact h

/-- **C02 for the striped float adder.**  Run any schedule `s` of `Add`s and `Sum`s from the initial
    configuration.  If every call has returned in the configuration `c` reached (all threads idle) and the operands
    of the `Add`s invoked satisfy the hypothesis, then `Sum` run alone by any thread `t` returns — in at most
    `2·len + 2` steps, restoring `c` — a finite float `r` whose rational value is the exact total of all values
    added.  (`Sum`'s own left-to-right IEEE additions over base and cells are partial sums again, hence exact.) -/
theorem striped_sum_after_adds (mc : Nat) (s : List (Tid × Act)) (hs : UpdatesOnly s)
    (hidle : ∀ u, (run (M floatAlg mc) (Config.init (M floatAlg mc)) s).1.l u = L.idle)
    (hx : AllPartialSumsExact (stripedAdds mc s)) (t : Tid) :
    ∃ (k : Nat) (r : Int), k ≤ 2 * tlen (run (M floatAlg mc) (Config.init (M floatAlg mc)) s).1.g + 2 ∧
      run (M floatAlg mc) (run (M floatAlg mc) (Config.init (M floatAlg mc)) s).1
          ((t, Act.sum) :: List.replicate k (t, Act.tau)) =
        ((run (M floatAlg mc) (Config.init (M floatAlg mc)) s).1, [(t, Obs.ret (some r))]) ∧
      IsFinBits r ∧ fval r = qsumL (stripedAdds mc s) := by
  have hE := striped_exact_after_adds mc s hs hidle hx
  obtain ⟨g1, l1, hst, k, r, hk, hrun, hr1, hr2⟩ := fsum_solo hE (pse_of_list hx) hidle t
  refine ⟨k, r, hk, run_invoke_solo_gen (tau := Act.tau) hst hrun, hr1, ?_⟩
  rw [hr2, qsum_coe]

/-- **`SumAndReset` after a quiescent phase** returns a finite float whose rational value is the exact total of
    all values added, and leaves an all-idle configuration `c'` whose heap holds exactly nothing (`FExact c' 0`:
    base and all cells are `+0`), from which `striped_phase` applies again: no update lost or double-counted. -/
theorem striped_sumAndReset_after_adds (mc : Nat) (s : List (Tid × Act)) (hs : UpdatesOnly s)
    (hidle : ∀ u, (run (M floatAlg mc) (Config.init (M floatAlg mc)) s).1.l u = L.idle)
    (hx : AllPartialSumsExact (stripedAdds mc s)) (t : Tid) :
    ∃ (k : Nat) (r : Int) (c' : Config (M floatAlg mc)),
      k ≤ 3 * tlen (run (M floatAlg mc) (Config.init (M floatAlg mc)) s).1.g + 5 ∧
      run (M floatAlg mc) (run (M floatAlg mc) (Config.init (M floatAlg mc)) s).1
          ((t, Act.sumAndReset) :: List.replicate k (t, Act.tau)) = (c', [(t, Obs.ret (some r))]) ∧
      IsFinBits r ∧ fval r = qsumL (stripedAdds mc s) ∧ (∀ u, c'.l u = L.idle) ∧ FExact c' 0 := by
  have hE := striped_exact_after_adds mc s hs hidle hx
  obtain ⟨g1, l1, hst, k, c', r, hk, hrun, hr1, hr2, hi', hE'⟩ :=
    fsumAndReset_solo hE (pse_of_list hx) hidle t
  refine ⟨k, r, c', hk, run_invoke_solo_gen (tau := Act.tau) hst hrun, hr1, ?_, hi', hE'⟩
  rw [hr2, qsum_coe]

/-- a quiescent exact configuration answers `Sum` exactly (general form: any exact start, e.g. after `Store`) -/
theorem striped_sum_solo {mc : Nat} {c : Config (M floatAlg mc)} {live : Multiset Int} (hE : FExact c live)
    (hp : PSE live) (hidle : ∀ u, c.l u = L.idle) (t : Tid) :
    ∃ (k : Nat) (r : Int), k ≤ 2 * tlen c.g + 2 ∧
      run (M floatAlg mc) c ((t, Act.sum) :: List.replicate k (t, Act.tau)) = (c, [(t, Obs.ret (some r))]) ∧
      IsFinBits r ∧ fval r = qsum live := by
  obtain ⟨g1, l1, hst, k, r, hk, hrun, hr1, hr2⟩ := fsum_solo hE hp hidle t
  exact ⟨k, r, hk, run_invoke_solo_gen (tau := Act.tau) hst hrun, hr1, hr2⟩

/-- `Store w` (a finite float) run alone from a reachable all-idle configuration leaves exactly `{w}` -/
theorem striped_store_solo {mc : Nat} {c : Config (M floatAlg mc)} (hr : Reach (M floatAlg mc) c)
    (hidle : ∀ u, c.l u = L.idle) (t : Tid) (w : Int) (hw : IsFinBits w) :
    ∃ (k : Nat) (c' : Config (M floatAlg mc)), k ≤ tlen c.g + 3 ∧
      run (M floatAlg mc) c ((t, Act.store w) :: List.replicate k (t, Act.tau)) = (c', [(t, Obs.ret none)]) ∧
      (∀ u, c'.l u = L.idle) ∧ FExact c' {w} := by
  obtain ⟨g1, l1, hst, k, c', hk, hrun, hi', hE'⟩ := fstore_solo hr hidle t w hw
  exact ⟨k, c', hk, run_invoke_solo_gen (tau := Act.tau) hst hrun, hi', hE'⟩

/-- `Reset` run alone from a reachable all-idle configuration leaves exactly nothing -/
theorem striped_reset_solo {mc : Nat} {c : Config (M floatAlg mc)} (hr : Reach (M floatAlg mc) c)
    (hidle : ∀ u, c.l u = L.idle) (t : Tid) :
    ∃ (k : Nat) (c' : Config (M floatAlg mc)), k ≤ tlen c.g + 3 ∧
      run (M floatAlg mc) c ((t, Act.reset) :: List.replicate k (t, Act.tau)) = (c', [(t, Obs.ret none)]) ∧
      (∀ u, c'.l u = L.idle) ∧ FExact c' 0 := by
  obtain ⟨g1, l1, hst, k, c', hk, hrun, hi', hE'⟩ := freset_solo hr hidle t
  exact ⟨k, c', hk, run_invoke_solo_gen (tau := Act.tau) hst hrun, hi', hE'⟩

/-- `striped_phase` with the hypothesis in list form -/
theorem striped_phase_list {mc : Nat} {c0 : Config (M floatAlg mc)} {xs0 : List Int}
    (h0 : FExact c0 (xs0 : Multiset Int)) (s : List (Tid × Act)) (hs : UpdatesOnly s)
    (hx : AllPartialSumsExact (xs0 ++ lpsLog (run (M floatAlg mc) c0 s).2)) :
    FExact (run (M floatAlg mc) c0 s).1 ((xs0 ++ lpsLog (run (M floatAlg mc) c0 s).2 : List Int) : Multiset Int) := by
  rw [← Multiset.coe_add]
  exact exact_run h0 s hs (by rw [Multiset.coe_add]; exact pse_of_list hx)

/-- **The pieces compose**: `Store w` alone, then any phase of concurrent `Add`s and `Sum`s that ends with every
    thread idle, then `Sum`: it returns a finite float whose rational value is exactly `w` plus everything added
    during the phase — provided `w` together with the operands applied satisfies the hypothesis. -/
theorem striped_store_phase_sum {mc : Nat} {c : Config (M floatAlg mc)} (hr : Reach (M floatAlg mc) c)
    (hidle : ∀ u, c.l u = L.idle) (t : Tid) (w : Int) (hw : IsFinBits w) :
    ∃ (k : Nat) (c' : Config (M floatAlg mc)),
      run (M floatAlg mc) c ((t, Act.store w) :: List.replicate k (t, Act.tau)) = (c', [(t, Obs.ret none)]) ∧
      ∀ (s : List (Tid × Act)), UpdatesOnly s → (∀ u, (run (M floatAlg mc) c' s).1.l u = L.idle) →
        AllPartialSumsExact (w :: lpsLog (run (M floatAlg mc) c' s).2) → ∀ u : Tid,
        ∃ (k2 : Nat) (r : Int),
          run (M floatAlg mc) (run (M floatAlg mc) c' s).1 ((u, Act.sum) :: List.replicate k2 (u, Act.tau)) =
            ((run (M floatAlg mc) c' s).1, [(u, Obs.ret (some r))]) ∧
          IsFinBits r ∧ fval r = qsumL (w :: lpsLog (run (M floatAlg mc) c' s).2) := by
  obtain ⟨k, c', _, hrun, _, hE'⟩ := striped_store_solo hr hidle t w hw
  refine ⟨k, c', hrun, fun s hs hq hx u => ?_⟩
  have hE'' : FExact c' (([w] : List Int) : Multiset Int) := hE'
  have hph := striped_phase_list hE'' s hs hx
  obtain ⟨k2, r, _, hrun2, hr1, hr2⟩ := striped_sum_solo hph (pse_of_list hx) hq u
  exact ⟨k2, r, hrun2, hr1, by rw [hr2, qsum_coe]; rfl⟩

/-! ## 4. The hypothesis is satisfiable, and it is needed -/

/-- bit patterns of `1.0`, `2.0`, `0.5`, `-4.0`, `2^53`, `2^53 + 2` -/
def b1 : Int := 0x3FF0000000000000
def b2 : Int := 0x4000000000000000
def bHalf : Int := 0x3FE0000000000000
def bNeg4 : Int := 0xC010000000000000
def b2p53 : Int := 0x4340000000000000
def b2p53plus2 : Int := 0x4340000000000001

theorem bval_b1 : bval b1 = .fin false (2^52) (-52) := by decide +kernel
theorem bval_b2 : bval b2 = .fin false (2^52) (-51) := by decide +kernel
theorem bval_bHalf : bval bHalf = .fin false (2^52) (-53) := by decide +kernel
theorem bval_bNeg4 : bval bNeg4 = .fin true (2^52) (-50) := by decide +kernel
theorem bval_b2p53 : bval b2p53 = .fin false (2^52) 1 := by decide +kernel
theorem bval_b2p53plus2 : bval b2p53plus2 = .fin false (2^52 + 1) 1 := by decide +kernel

theorem fval_b1 : fval b1 = 1 := by unfold fval; rw [bval_b1]; norm_num [F64.val]
theorem fval_b2 : fval b2 = 2 := by unfold fval; rw [bval_b2]; norm_num [F64.val]
theorem fval_bHalf : fval bHalf = 1/2 := by unfold fval; rw [bval_bHalf]; norm_num [F64.val]
theorem fval_bNeg4 : fval bNeg4 = -4 := by unfold fval; rw [bval_bNeg4]; norm_num [F64.val]
theorem fval_b2p53 : fval b2p53 = 2^53 := by unfold fval; rw [bval_b2p53]; norm_num [F64.val]
theorem fval_b2p53plus2 : fval b2p53plus2 = 2^53 + 2 := by unfold fval; rw [bval_b2p53plus2]; norm_num [F64.val]

/-- **Sufficient condition** (restated): finite operands that are integer multiples `k x · 2^e` of a common
    quantum with `Σ |k x| < 2^53` satisfy the hypothesis — e.g. integer-valued increments whose magnitudes add
    up to less than `2^53`. -/
theorem hypothesis_of_quantum {e : ℤ} {k : Int → ℤ} {xs : List Int} (h : QuantumBounded e k xs) :
    AllPartialSumsExact xs :=
  allPartialSumsExact_of_quantum h

/-- **The hypothesis is satisfiable by a non-trivial operand list**: `1.0, 2.0, 0.5, -4.0` (all sixteen partial
    sums are multiples of `2^-1` of magnitude at most `15·2^-1`). -/
theorem hypothesis_example : AllPartialSumsExact [b1, b2, bHalf, bNeg4] := by
  apply hypothesis_of_quantum (e := -1)
    (k := fun x => if x = b1 then 2 else if x = b2 then 4 else if x = bHalf then 1 else if x = bNeg4 then -8 else 0)
  refine ⟨by decide, by decide, ?_, by decide⟩
  intro x hx
  simp only [List.mem_cons, List.not_mem_nil, or_false] at hx
  rcases hx with rfl | rfl | rfl | rfl
  · exact ⟨⟨_, _, _, bval_b1⟩, by rw [fval_b1]; norm_num [b1]⟩
  · exact ⟨⟨_, _, _, bval_b2⟩, by rw [fval_b2]; norm_num [b1, b2]⟩
  · exact ⟨⟨_, _, _, bval_bHalf⟩, by rw [fval_bHalf]; norm_num [b1, b2, bHalf]⟩
  · exact ⟨⟨_, _, _, bval_bNeg4⟩, by rw [fval_bNeg4]; norm_num [b1, b2, bHalf, bNeg4]⟩

example : AllPartialSumsExact [b1, b2, bHalf, bNeg4] := hypothesis_example

/-- hence any run that adds exactly these four values, in any order and on any number of threads, ends with
    `Sum = -0.5` exactly: -/
example : qsumL [b1, b2, bHalf, bNeg4] = -1/2 := by
  simp only [qsumL, List.map_cons, List.map_nil, List.sum_cons, List.sum_nil, fval_b1, fval_b2, fval_bHalf, fval_bNeg4]
  norm_num

/-- **Order matters without the hypothesis** (kernel-evaluated IEEE additions on bit patterns):
    `(2^53 + 1) + 1 = 2^53` but `(1 + 1) + 2^53 = 2^53 + 2`, although the exact total `2^53 + 2` *is* a binary64:
    the partial sum `2^53 + 1` is not. -/
theorem order_matters :
    floatAlg.add (floatAlg.add b2p53 b1) b1 = b2p53 ∧
    floatAlg.add (floatAlg.add b1 b1) b2p53 = b2p53plus2 ∧
    fval b2p53 + fval b1 + fval b1 = fval b2p53plus2 ∧ fval b2p53 ≠ fval b2p53plus2 := by
  refine ⟨by decide +kernel, by decide +kernel, ?_, ?_⟩
  · rw [fval_b2p53, fval_b1, fval_b2p53plus2]; norm_num
  · rw [fval_b2p53, fval_b2p53plus2]; norm_num

/-- one thread performs `Add x` on `AtomicF64Adder` (invoke, load, CAS) -/
def addS (t : Tid) (x : Int) : List (Tid × SAct) := [(t, .add x), (t, .tau), (t, .tau)]

/-- the observation log of a schedule run from the initial configuration (`AtomicF64Adder`) -/
def atomicF64Log (s : List (Tid × SAct)) : List (Tid × Obs) :=
  (run (Simple.M atomicF64P) (Config.init (Simple.M atomicF64P)) s).2

/-- the observation log of a schedule run from the initial configuration (striped float adder) -/
def stripedLog (mc : Nat) (s : List (Tid × Act)) : List (Tid × Obs) :=
  (run (M floatAlg mc) (Config.init (M floatAlg mc)) s).2

/-- **`AtomicF64Adder` without the hypothesis**: thread 0 adds `2^53`, `1.0`, `1.0` (all calls return), then
    `Sum` returns `2^53`, not the exact (and representable) total `2^53 + 2`.  Kernel-evaluated run of the model. -/
theorem atomicF64_inexact_run :
    atomicF64Log (addS 0 b2p53 ++ addS 0 b1 ++ addS 0 b1 ++ [(0, .sum), (0, .tau)]) =
      [(0, .lp b2p53), (0, .ret none), (0, .lp b1), (0, .ret none), (0, .lp b1), (0, .ret none),
       (0, .ret (some b2p53))] := by
  decide +kernel

/-- in the other order the same three values are summed exactly -/
theorem atomicF64_exact_run_other_order :
    atomicF64Log (addS 0 b1 ++ addS 0 b1 ++ addS 0 b2p53 ++ [(0, .sum), (0, .tau)]) =
      [(0, .lp b1), (0, .ret none), (0, .lp b1), (0, .ret none), (0, .lp b2p53), (0, .ret none),
       (0, .ret (some b2p53plus2))] := by
  decide +kernel

/-- one thread performs an uncontended `Add x` on the striped adder before any table exists
    (invoke, read `cells`, load `base`, CAS `base`) -/
def addA (t : Tid) (x : Int) : List (Tid × Act) := [(t, .add x), (t, .tau), (t, .tau), (t, .tau)]

/-- **Striped float adder without the hypothesis**: the same three `Add`s, then `Sum` (invoke, load `base`, read
    `cells`) returns `2^53`. -/
theorem striped_inexact_run :
    stripedLog 4 (addA 0 b2p53 ++ addA 0 b1 ++ addA 0 b1 ++ [(0, .sum), (0, .tau), (0, .tau)]) =
      [(0, .lp b2p53), (0, .ret none), (0, .lp b1), (0, .ret none), (0, .lp b1), (0, .ret none),
       (0, .ret (some b2p53))] := by
  decide +kernel

/-- drive thread `t` for `n` steps whatever it is doing (of `tau` / `rnd 5` exactly one is enabled at each pc) -/
def drive (t : Tid) (n : Nat) : List (Tid × Act) := (List.replicate n [(t, Act.tau), (t, Act.rnd 5)]).flatten

/-- a contended schedule: threads 0 and 1 race on `base` with `1.0` and `2.0`; thread 1 loses the CAS, finds no
    table, creates it and attaches a cell pre-filled with `2.0`; then `0.5` and `-4.0` are added concurrently (both
    land in that cell); finally thread 0 runs `Sum` -/
def contended : List (Tid × Act) :=
  [(0, .add b1), (0, .tau), (0, .tau), (1, .add b2), (1, .tau), (1, .tau), (0, .tau)] ++ drive 1 14 ++
  [(0, .add bHalf), (1, .add bNeg4)] ++ drive 0 3 ++ drive 1 3 ++ drive 0 20 ++ drive 1 20 ++
  [(0, .sum)] ++ drive 0 8

/-- bit pattern of `-0.5` -/
def bNegHalf : Int := 0xBFE0000000000000

/-- **Sanity check of the positive result on a concrete contended run** (kernel-evaluated): the operands
    `1.0, 2.0, 0.5, -4.0` of `hypothesis_example` end up split over `base` (`1.0`) and one cell (`-1.5`), and `Sum`
    returns `-0.5`, their exact total. -/
theorem striped_exact_run_example :
    stripedLog 4 contended =
      [(0, .lp b1), (0, .ret none), (1, .lp b2), (1, .ret none), (0, .lp bHalf), (0, .ret none),
       (1, .lp bNeg4), (1, .ret none), (0, .ret (some bNegHalf))] := by
  decide +kernel

/-- **The hypothesis is needed**, and it indeed fails for `2^53, 1.0, 1.0`: by `atomicF64_conservation` it would
    force the cell to hold the exact total, but the kernel-evaluated run above leaves `2^53` in the cell. -/
theorem hypothesis_needed : ¬ AllPartialSumsExact [b2p53, b1, b1] := by
  intro h
  have hlog : lpsLog (run (Simple.M atomicF64P) (Config.init (Simple.M atomicF64P))
      (addS 0 b2p53 ++ addS 0 b1 ++ addS 0 b1)).2 = [b2p53, b1, b1] := by decide +kernel
  have hcell : cellAt (run (Simple.M atomicF64P) (Config.init (Simple.M atomicF64P))
      (addS 0 b2p53 ++ addS 0 b1 ++ addS 0 b1)).1.g 0 = b2p53 := by decide +kernel
  have hs : UpdatesOnlyS (addS 0 b2p53 ++ addS 0 b1 ++ addS 0 b1) := by
    intro e he
    simp only [addS, List.cons_append, List.nil_append, List.mem_cons, List.not_mem_nil, or_false] at he
    rcases he with rfl | rfl | rfl | rfl | rfl | rfl | rfl | rfl | rfl <;> rfl
  have := (atomicF64_conservation _ hs (by rw [hlog]; exact h)).2
  rw [hlog, hcell] at this
  simp only [qsumL, List.map_cons, List.map_nil, List.sum_cons, List.sum_nil, fval_b2p53, fval_b1] at this
  norm_num at this

end Garr.Props.C02Float

#print axioms Garr.Props.C02Float.ieee_add_exact
#print axioms Garr.Props.C02Float.float_add_exact
#print axioms Garr.Props.C02Float.atomicF64_conservation
#print axioms Garr.Props.C02Float.atomicF64_sum_after_adds
#print axioms Garr.Props.C02Float.striped_conservation
#print axioms Garr.Props.C02Float.striped_phase
#print axioms Garr.Props.C02Float.striped_lps_are_invocations
#print axioms Garr.Props.C02Float.striped_exact_after_adds
#print axioms Garr.Props.C02Float.striped_sum_after_adds
#print axioms Garr.Props.C02Float.striped_sumAndReset_after_adds
#print axioms Garr.Props.C02Float.striped_sum_solo
#print axioms Garr.Props.C02Float.striped_store_solo
#print axioms Garr.Props.C02Float.striped_reset_solo
#print axioms Garr.Props.C02Float.striped_phase_list
#print axioms Garr.Props.C02Float.striped_store_phase_sum
#print axioms Garr.Props.C02Float.hypothesis_of_quantum
#print axioms Garr.Props.C02Float.hypothesis_example
#print axioms Garr.Props.C02Float.order_matters
#print axioms Garr.Props.C02Float.atomicF64_inexact_run
#print axioms Garr.Props.C02Float.atomicF64_exact_run_other_order
#print axioms Garr.Props.C02Float.striped_inexact_run
#print axioms Garr.Props.C02Float.striped_exact_run_example
#print axioms Garr.Props.C02Float.hypothesis_needed
