import Garr.Lin
import Garr.Queue.LP
/-!
# C01 — the lock-free queue is linearizable w.r.t. a sequential FIFO queue

Under any interleaving of concurrent `Offer`, `Poll`, `Peek` and `IsEmpty` calls (and iterator
`Remove`), each call appears to take effect atomically at one instant between its invocation and
its return, and the results are those of a single sequential FIFO queue.

* `queueSpec`: the sequential specification (`Garr.Queue.specApply` from the empty queue).
* `queueView`: how the steps of the machine `Garr.Queue.M` are read as history events
  (invocation / linearization point / response).
* `queue_disciplined`, `queue_refines`: the two hypotheses of the generic theorem
  `Garr.Lin.linearizable_of_refines`, discharged from the lemmas of `Garr/Queue/LP.lean`.
* `C01_linearizable_lockfree`: every history of every schedule (every client program over the whole
  API, every number of threads, every interleaving) is Herlihy–Wing linearizable.
* `spec_poll_fifo`, `spec_nil_only_if_empty`: what the sequential specification says, in readable form.
* non-vacuity examples at the end.
-/
namespace Garr.Props.C01
open Garr.Conc Garr.Lin Garr.Queue

instance : Inhabited Op := ⟨.poll⟩
instance : Inhabited Ret := ⟨.unit⟩

/-- the sequential specification: a FIFO queue (elements carry stable handles for the iterator's
`Remove`), initially empty; handle 0 is the dummy node, so the first handle handed out is 1 -/
def queueSpec : Spec Op Ret SpecSt := ⟨⟨[], 1⟩, specApply⟩

/-- how steps of the queue machine are read as history events -/
def queueView : View Garr.Queue.M Op Ret where
  invOf := invOp
  lpOf := fun _ o => lpRet o
  resOf := fun _ o => retOf o
  ph := fun l =>
    match doneRet l with
    | some r => .done r
    | none =>
      match curOp l with
      | some _ => .pending
      | none => .idle
  curOp := curOp

/-! ## The phase of a thread, the markers of a step -/

theorem ph_idle {l : L} : queueView.ph l = .idle ↔ doneRet l = none ∧ curOp l = none := by
  show (match doneRet l with
    | some r => Phase.done r
    | none => match curOp l with | some _ => Phase.pending | none => Phase.idle) = Phase.idle ↔ _
  cases doneRet l <;> cases curOp l <;> simp

theorem ph_pending {l : L} :
    queueView.ph l = .pending ↔ doneRet l = none ∧ ∃ op, curOp l = some op := by
  show (match doneRet l with
    | some r => Phase.done r
    | none => match curOp l with | some _ => Phase.pending | none => Phase.idle) = Phase.pending ↔ _
  cases doneRet l <;> cases curOp l <;> simp

theorem ph_done {l : L} {r : Ret} : queueView.ph l = .done r ↔ doneRet l = some r := by
  show (match doneRet l with
    | some r => Phase.done r
    | none => match curOp l with | some _ => Phase.pending | none => Phase.idle) = Phase.done r ↔ _
  cases doneRet l <;> cases curOp l <;> simp

/-- the queue model's marker classification, as a marker of the generic theory -/
def toMk : Mark → Mk Ret
  | .lp r => .lp r
  | .res r => .res r

theorem mk?_eq (l : L) (o : Obs) : queueView.mk? l o = (markOf o).map toMk := by
  cases o <;> rfl

set_option backward.isDefEq.respectTransparency false in
/-- the generic theory's markers of a step are the queue model's `marks` -/
theorem evs_eq (l : L) (obs : List Obs) : queueView.evs l obs = (marks obs).map toMk := by
  rw [View.evs_eq_filterMap]
  unfold marks
  rw [List.map_filterMap]
  congr 1
  funext o
  exact mk?_eq l o

set_option backward.isDefEq.respectTransparency false in
theorem lp_mem_evs {l : L} {obs : List Obs} {r : Ret} :
    Mk.lp r ∈ queueView.evs l obs ↔ Mark.lp r ∈ marks obs := by
  rw [evs_eq, List.mem_map]
  constructor
  · rintro ⟨m, hm, hmr⟩
    cases m with
    | lp r' => simp only [toMk, Mk.lp.injEq] at hmr; subst hmr; exact hm
    | res r' => simp [toMk] at hmr
  · intro hm
    exact ⟨_, hm, rfl⟩

/-! ## The two hypotheses of the generic theorem -/

set_option backward.isDefEq.respectTransparency false in
/-- the linearization-point discipline: every specification operation emits exactly one LP marker,
in one of its own steps between its invocation and its response, and responds with the result
fixed there -/
theorem queue_disciplined : Disciplined Garr.Queue.M queueView where
  idle0 := rfl
  not_both := fun _ o => lpRet_retOf_not_both o
  idle_step := by
    intro t g l a g' l' obs hs hph
    obtain ⟨hd, hc⟩ := ph_idle.mp hph
    obtain ⟨hm, hc', hd'⟩ := disc_idle_marks (t := t) (g := g) (l := l) hs hc hd
    refine ⟨by rw [evs_eq, hm]; rfl, ?_, ?_⟩
    · intro hinv
      exact ph_idle.mpr ⟨hd', hc'.trans hinv⟩
    · intro op hinv
      exact ⟨ph_pending.mpr ⟨hd', op, hc'.trans hinv⟩, hc'.trans hinv⟩
  pending_step := by
    intro t g l a g' l' obs hs hph
    obtain ⟨_, op, hc⟩ := ph_pending.mp hph
    obtain ⟨hinv, hcase⟩ := disc_pending_marks (t := t) (g := g) (l := l) hs hc
    refine ⟨hinv, ?_⟩
    rcases hcase with ⟨hm, hc'⟩ | ⟨r, hm, hd', _⟩ | ⟨r, hm, hc', hd'⟩
    · exact Or.inl ⟨by rw [evs_eq, hm]; rfl,
        ph_pending.mpr ⟨doneRet_none_of_curOp hc', op, hc'⟩, hc'.trans hc.symm⟩
    · exact Or.inr (Or.inl ⟨r, by rw [evs_eq, hm]; rfl, ph_done.mpr hd'⟩)
    · exact Or.inr (Or.inr ⟨r, by rw [evs_eq, hm]; rfl, ph_idle.mpr ⟨hd', hc'⟩⟩)
  done_step := by
    intro t g l a g' l' obs r hs hph
    have hd := ph_done.mp hph
    obtain ⟨hinv, hcase⟩ := disc_done_marks (t := t) (g := g) (l := l) hs hd
    refine ⟨hinv, ?_⟩
    rcases hcase with ⟨hm, hd', _⟩ | ⟨hm, hc', hd'⟩
    · exact Or.inl ⟨by rw [evs_eq, hm]; rfl, ph_done.mpr hd'⟩
    · exact Or.inr ⟨by rw [evs_eq, hm]; rfl, ph_idle.mpr ⟨hd', hc'⟩⟩

set_option backward.isDefEq.respectTransparency false in
/-- forward simulation at the linearization points: a step without LP marker leaves the abstract
queue unchanged; a step with an LP marker carrying `r` acts on the abstract queue exactly as the
sequential specification does for the operation the thread is executing, with result `r` -/
theorem queue_refines : Refines Garr.Queue.M queueView queueSpec absS Garr.Queue.Inv where
  init := absS_init
  no_lp := by
    intro c t a g' l' obs hI hs hno
    exact refines_no_lp (t := t) hI.1 (hI.2 t) hs (fun r hm => hno r (lp_mem_evs.mpr hm))
  lp := by
    intro c t a g' l' obs r op hI hs hlp hcur
    exact refines_lp (t := t) hI.1 (hI.2 t) hs (lp_mem_evs.mp hlp) hcur

/-! ## Main theorem -/

/-- **C01.**  For every schedule `s` — every client program over the whole API (including `Size`
and iterators), every number of threads, every interleaving — the history of invocations and
responses of `Offer`/`Poll`/`Peek`/`IsEmpty`/iterator-`Remove` is linearizable w.r.t. the sequential
FIFO queue `queueSpec`. -/
theorem C01_linearizable_lockfree (s : List (Tid × Act)) :
    Linearizable queueSpec (hist queueView (Config.init Garr.Queue.M) (fun _ => 0) s) :=
  linearizable_of_refines queue_disciplined queue_refines inv_reach s

/-! ## What the sequential specification says -/

/-- run a sequence of operations through the sequential specification; returns the final state
and the (operation, result) pairs in order -/
def runSpec : SpecSt → List Op → SpecSt × List (Op × Ret)
  | st, [] => (st, [])
  | st, op :: ops =>
    ((runSpec (specApply st op).1 ops).1, (op, (specApply st op).2) :: (runSpec (specApply st op).1 ops).2)

/-- the offered values, in order -/
def offeredVals : List Op → List Nat
  | [] => []
  | .offer v :: ops => v :: offeredVals ops
  | _ :: ops => offeredVals ops

/-- the values returned by successful polls, in order -/
def polledVals : List (Op × Ret) → List Nat
  | [] => []
  | (.poll, .val v) :: tr => v :: polledVals tr
  | _ :: tr => polledVals tr

/-- a plain queue operation (not the iterator's handle-based `Remove`) -/
def plain : Op → Prop
  | .removeAt _ => False
  | _ => True

/-- `runSpec` produces exactly the legal traces of `queueSpec` -/
theorem runSpec_legal (st : SpecSt) (ops : List Op) :
    legal queueSpec st (runSpec st ops).2 ∧ exec queueSpec st (runSpec st ops).2 = (runSpec st ops).1 ∧
    (runSpec st ops).2.map (·.1) = ops := by
  induction ops generalizing st with
  | nil => simp [runSpec, legal, exec]
  | cons op ops ih =>
    obtain ⟨h1, h2, h3⟩ := ih (specApply st op).1
    exact ⟨⟨rfl, h1⟩, h2, by simp only [runSpec, List.map_cons, h3]⟩

theorem legal_eq_runSpec (st : SpecSt) (tr : List (Op × Ret)) (h : legal queueSpec st tr) :
    tr = (runSpec st (tr.map (·.1))).2 := by
  induction tr generalizing st with
  | nil => rfl
  | cons x tr ih =>
    obtain ⟨op, r⟩ := x
    obtain ⟨h1, h2⟩ := h
    simp only [List.map_cons, runSpec]
    have h1' : (specApply st op).2 = r := h1
    have h2' : legal queueSpec (specApply st op).1 tr := h2
    rw [h1', ← ih _ h2']

/-- FIFO, general form (from any state): the values polled, followed by the values still queued,
are the values initially queued followed by the values offered — in order -/
theorem spec_poll_fifo_from (st : SpecSt) (ops : List Op) (hp : ∀ op ∈ ops, plain op) :
    polledVals (runSpec st ops).2 ++ (runSpec st ops).1.items.map (·.2) =
      st.items.map (·.2) ++ offeredVals ops := by
  induction ops generalizing st with
  | nil => simp [runSpec, polledVals, offeredVals]
  | cons op ops ih =>
    have ih' := fun st' => ih st' (fun o ho => hp o (List.mem_cons_of_mem _ ho))
    have hop := hp op (List.mem_cons_self ..)
    cases op with
    | offer v =>
      simp only [runSpec, specApply, polledVals, offeredVals]
      rw [ih']
      simp
    | poll =>
      obtain ⟨items, nx⟩ := st
      cases items with
      | nil =>
        simp only [runSpec, specApply, polledVals, offeredVals]
        rw [ih']
      | cons x q =>
        obtain ⟨p, v⟩ := x
        simp only [runSpec, specApply, polledVals, offeredVals]
        rw [List.cons_append, ih']
        simp
    | peek =>
      obtain ⟨items, nx⟩ := st
      cases items with
      | nil =>
        simp only [runSpec, specApply, polledVals, offeredVals]
        rw [ih']
      | cons x q =>
        obtain ⟨p, v⟩ := x
        simp only [runSpec, specApply, polledVals, offeredVals]
        rw [ih']
    | isEmpty =>
      simp only [runSpec, specApply, polledVals, offeredVals]
      rw [ih']
    | removeAt p => exact hop.elim

/-- **FIFO.**  Run any sequence of `offer`/`poll`/`peek`/`isEmpty` operations from the empty queue:
the values returned by the successful polls, followed by the values still in the queue, are exactly
the offered values, in the order they were offered.  Hence every offered value is polled at most
once, nothing is polled that was not offered, and values leave in the order they entered. -/
theorem spec_poll_fifo (ops : List Op) (hp : ∀ op ∈ ops, plain op) :
    polledVals (runSpec queueSpec.init ops).2 ++ (runSpec queueSpec.init ops).1.items.map (·.2) =
      offeredVals ops := by
  have := spec_poll_fifo_from queueSpec.init ops hp
  simpa [queueSpec] using this

/-- the same for any legal sequential trace of `queueSpec` (such as the one a linearization
provides): polled values ++ remaining values = offered values -/
theorem spec_poll_fifo_legal (tr : List (Op × Ret)) (hl : legal queueSpec queueSpec.init tr)
    (hp : ∀ x ∈ tr, plain x.1) :
    polledVals tr ++ (exec queueSpec queueSpec.init tr).items.map (·.2) =
      offeredVals (tr.map (·.1)) := by
  have hp' : ∀ op ∈ tr.map (·.1), plain op := by
    intro op hop
    obtain ⟨x, hx, rfl⟩ := List.mem_map.mp hop
    exact hp x hx
  have h := spec_poll_fifo (tr.map (·.1)) hp'
  have htr := legal_eq_runSpec _ tr hl
  have hex := (runSpec_legal queueSpec.init (tr.map (·.1))).2.1
  rw [← htr] at h hex
  rw [hex]
  exact h

/-- in particular, the polled values are a prefix of the offered values -/
theorem spec_polled_prefix (ops : List Op) (hp : ∀ op ∈ ops, plain op) :
    polledVals (runSpec queueSpec.init ops).2 <+: offeredVals ops :=
  ⟨_, spec_poll_fifo ops hp⟩

/-- `Poll`/`Peek` return nil and `IsEmpty` returns true exactly when the queue is empty -/
theorem spec_nil_only_if_empty (st : SpecSt) :
    ((specApply st .poll).2 = .nil ↔ st.items = []) ∧
    ((specApply st .peek).2 = .nil ↔ st.items = []) ∧
    ((specApply st .isEmpty).2 = .bool true ↔ st.items = []) := by
  obtain ⟨items, nx⟩ := st
  cases items with
  | nil => simp [specApply]
  | cons x q => obtain ⟨p, v⟩ := x; simp [specApply]

/-! ## Non-vacuity -/

deriving instance DecidableEq for Garr.Lin.Ev

/-- thread 0 performs a complete `Offer(7)`, then thread 1 performs a complete `Poll` -/
def demo : List (Tid × Act) :=
  [(0, .offer 7), (0, .tau), (0, .tau), (0, .tau),
   (1, .poll), (1, .tau), (1, .tau), (1, .tau), (1, .tau), (1, .tau), (1, .tau), (1, .tau), (1, .tau)]

/-- the same two calls overlapping: the poll starts and reads `head` before the offer links its
node, and still obtains 7 -/
def demoOverlap : List (Tid × Act) :=
  [(0, .offer 7), (1, .poll), (0, .tau), (1, .tau), (0, .tau), (0, .tau),
   (1, .tau), (1, .tau), (1, .tau), (1, .tau), (1, .tau), (1, .tau), (1, .tau)]

example : hist queueView (Config.init Garr.Queue.M) (fun _ => 0) demo =
    [.inv (0, 0) (.offer 7), .lp (0, 0) .unit, .res (0, 0) .unit,
     .inv (1, 0) .poll, .lp (1, 0) (.val 7), .res (1, 0) (.val 7)] := by decide

example : hist queueView (Config.init Garr.Queue.M) (fun _ => 0) demoOverlap =
    [.inv (0, 0) (.offer 7), .inv (1, 0) .poll, .lp (0, 0) .unit, .res (0, 0) .unit,
     .lp (1, 0) (.val 7), .res (1, 0) (.val 7)] := by decide

/-- the abstract queue after the first four steps of `demo` (the offer alone) is `[(1, 7)]` -/
example : (absS (run Garr.Queue.M (Config.init Garr.Queue.M) (demo.take 4)).1.g).items = [(1, 7)] := by
  decide

end Garr.Props.C01
