import Garr.Disc.Theory
import Garr.Disc.Table
/-!
# C14 — concurrent-safe APIs are free of data races

The argument has three layers.

1. **Decidable check, per run** (`harness/facts` + `Garr/Disc/Model.lean`): every syntactic access to a
   struct field of the five packages is extracted from the CURRENT source (`Fact`), and Lean decides
   `Disciplined table facts = true` against the hand-written class `table`.  `disciplined_iff` says
   what that Boolean means: every fact is about a classified field and satisfies `okFact` for its class.

2. **Bridge** (this file; assumptions stated as definitions, nothing is axiomatised).  A dynamic memory
   access `e : Garr.Disc.Ev` of an execution *realizes* a syntactic fact `f` (`Realizes`) when
   * `f.kind = atomic` ↦ `e` is an atomic access (`sync/atomic` load/store/CAS/add);
     `read` ↦ plain read; `write` ↦ plain write; `addr` ↦ not a write of the field
     (taking the address of a field / using it as a method receiver does not store to it);
   * `f.kind = init` (field of a composite literal / of an object allocated in the same function) or
     `isCtor f.fn` (the enclosing function is a constructor) ↦ `e.priv`: the object is still private;
   * every lock that is syntactically held at the access (`f.locks`, e.g. `("q.mutex", W)`) whose
     expression ends in the lock name `m` the table gives for the field is dynamically held in that
     mode: `(lockId m, md) ∈ e.held`.  (`holds f m needW` is exactly "some syntactically held lock
     ends in `m`, in write mode if `needW`".)  This is where "the `mutex` field of the same object as
     the accessed field" is assumed; both mutex variants have one lock field per object.
   `absClass` maps the table's classes to the abstract ones (`prePublication`, `sync` and `receiver`
   are `immutable` after publication: the pre-publication writers run while the object is private;
   a sync object / embedded receiver field is never re-assigned, its internal words belong to the
   `sync` package resp. are classified separately).
   `Side` lists what `okFact` does NOT check and must come from elsewhere:
   * `confined` — the documentation's "one goroutine only" (iterators, builders);
   * `prePub` — the listed pre-publication functions really run before publication;
   * `locked_no_atomic` — `okFact (.locked m)` accepts an `atomic`-kind access without the lock; the
     abstract class does not (mixing it with plain locked writes would race).  No regenerated fact
     uses this case (the two locked fields `MutexLinkedQueue.l`, `MutexAdder.value` have only plain
     accesses); `strictOK` is the corresponding decidable side check;
   * `atomic_is_read` — an `atomic`-kind fact about a NON-`atomicOnly` field (in the regenerated facts
     only `RandomCellAdder.cells`: `atomic.AddInt64(&a.cells[i].v, x)`) reads the field (the slice
     header) to compute the address of the word that is accessed atomically; it does not store to
     the field.
   `obeys_of_okFact`: `okFact c f` + `Realizes` + `Side` ⟹ the per-access obligation `Obeys`.

3. **Theory** (`Garr/Disc/Theory.lean`): `disciplined_drf` — in every abstract execution (happens-before
   with program order, lock edges, publication edges), accesses that all obey their location's class
   never race.  `C14_drf_of_table` chains 1–3.

What remains outside Lean: the extractor sees every access (go/types; `Covered` guards against
fields silently disappearing), every dynamic access is an instance of a syntactic one, and the abstract
`Exec` fields are a faithful reading of the Go memory model.  The harness complements this with
race-detector workloads.
-/
namespace Garr.Props.C14
open Garr.Disc

/-! ## 1. What the decidable check says -/

theorem disciplined_iff (table : List (String × Class)) (facts : List Fact) :
    Disciplined table facts = true ↔
      ∀ f ∈ facts, ∃ c, classOf table f.field = some c ∧ okFact c f = true := by
  unfold Disciplined offending
  rw [List.isEmpty_iff, List.filter_eq_nil_iff]
  constructor
  · intro h f hf
    have := h f hf
    cases hc : classOf table f.field with
    | none => rw [hc] at this; simp at this
    | some c => rw [hc] at this; exact ⟨c, rfl, by simpa using this⟩
  · intro h f hf
    obtain ⟨c, hc, hok⟩ := h f hf
    rw [hc]; simp [hok]

/-! ## 2. The bridge from facts to per-access obligations -/

/-- the abstract class of a table class; `lockId` names the abstract lock a lock field denotes -/
def absClass (lockId : String → Nat) : Class → LocClass
  | .atomicOnly => .atomicOnly
  | .locked m => .locked (lockId m)
  | .immutable => .immutable
  | .confined _ => .confined
  | .prePublication _ _ => .immutable
  | .sync => .immutable
  | .receiver => .immutable

/-- the dynamic access `e` is an execution instance of the syntactic fact `f` -/
structure Realizes (lockId : String → Nat) (f : Fact) (e : Ev) : Prop where
  kind_atomic : f.kind = .atomic → e.acc.isPlain = false
  kind_read : f.kind = .read → e.acc = .plainR
  kind_write : f.kind = .write → e.acc = .plainW
  kind_addr : f.kind = .addr → e.acc.isWrite = false
  kind_init : f.kind = .init → e.priv = true
  ctor : isCtor f.fn = true → e.priv = true
  locks : ∀ l md m, (l, md) ∈ f.locks → l.endsWith m = true → (lockId m, md) ∈ e.held

/-- what `okFact` does not check (see the module docstring) -/
structure Side (D : Discipline) (c : Class) (f : Fact) (e : Ev) : Prop where
  confined : ∀ why, c = .confined why → e.tid = D.owner e.loc
  prePub : ∀ fns why, c = .prePublication fns why → fns.contains f.fn = true → e.priv = true
  locked_no_atomic : ∀ m, c = .locked m → f.kind ≠ .atomic
  atomic_is_read : c ≠ .atomicOnly → f.kind = .atomic → e.acc.isWrite = false

/-- decidable form of `Side.locked_no_atomic` -/
def strictOK (c : Class) (f : Fact) : Bool :=
  match c with
  | .locked _ => f.kind != .atomic
  | _ => true

theorem locked_no_atomic_of_strictOK {c : Class} {f : Fact} (h : strictOK c f = true) :
    ∀ m, c = .locked m → f.kind ≠ .atomic := by
  intro m hc hk
  subst hc
  simp [strictOK, hk] at h

theorem holds_elim {lockId : String → Nat} {f : Fact} {e : Ev} (hr : Realizes lockId f e) {m : String}
    {needW : Bool} (h : holds f m needW = true) :
    ∃ md, (lockId m, md) ∈ e.held ∧ (needW = true → md = .W) := by
  unfold holds at h
  rw [List.any_eq_true] at h
  obtain ⟨⟨l, md⟩, hmem, hp⟩ := h
  simp only [Bool.and_eq_true, Bool.or_eq_true, Bool.not_eq_eq_eq_not, Bool.not_true,
    beq_iff_eq] at hp
  refine ⟨md, hr.locks l md m hmem hp.1, fun hn => ?_⟩
  rcases hp.2 with h2 | h2
  · rw [hn] at h2; cases h2
  · exact h2

/-- **Bridge**: a fact that passes the table check, realized by a dynamic access, yields the
abstract obligation of that access -/
theorem obeys_of_okFact (lockId : String → Nat) (D : Discipline) (c : Class) (f : Fact) (e : Ev)
    (hc : D.cls e.loc = absClass lockId c) (hr : Realizes lockId f e) (hs : Side D c f e)
    (hok : okFact c f = true) : Obeys D e := by
  unfold Obeys
  rw [hc]
  cases c with
  | atomicOnly =>
    simp only [okFact, Bool.or_eq_true, beq_iff_eq] at hok
    show e.priv = true ∨ e.acc.isPlain = false
    rcases hok with (hk | hk) | hk
    · exact Or.inr (hr.kind_atomic hk)
    · exact Or.inl (hr.kind_init hk)
    · exact Or.inl (hr.ctor hk)
  | locked m =>
    simp only [okFact, Bool.or_eq_true, beq_iff_eq] at hok
    show e.priv = true ∨ ∃ md, (lockId m, md) ∈ e.held ∧ (e.acc.isWrite = true → md = .W)
    rcases hok with (hk | hk) | hk
    · exact Or.inl (hr.ctor hk)
    · exact Or.inl (hr.kind_init hk)
    · right
      cases hkind : f.kind with
      | write =>
        rw [hkind] at hk
        obtain ⟨md, hmem, hW⟩ := holds_elim hr hk
        exact ⟨md, hmem, fun _ => hW rfl⟩
      | read =>
        rw [hkind] at hk
        obtain ⟨md, hmem, _⟩ := holds_elim hr hk
        refine ⟨md, hmem, fun hw => ?_⟩
        rw [hr.kind_read hkind] at hw; cases hw
      | atomic => exact absurd hkind (hs.locked_no_atomic m rfl)
      | init => rw [hkind] at hk; cases hk
      | addr => rw [hkind] at hk; cases hk
  | immutable =>
    simp only [okFact, Bool.or_eq_true, beq_iff_eq] at hok
    show e.priv = true ∨ e.acc.isWrite = false
    rcases hok with ((hk | hk) | hk) | hk
    · right; rw [hr.kind_read hk]; rfl
    · exact Or.inl (hr.kind_init hk)
    · exact Or.inr (hs.atomic_is_read (by intro h; cases h) hk)
    · exact Or.inl (hr.ctor hk)
  | confined why =>
    show e.tid = D.owner e.loc
    exact hs.confined why rfl
  | prePublication fns why =>
    simp only [okFact, Bool.or_eq_true, Bool.and_eq_true, beq_iff_eq] at hok
    show e.priv = true ∨ e.acc.isWrite = false
    rcases hok with ((hk | hk) | hk) | hk
    · right; rw [hr.kind_read hk]; rfl
    · exact Or.inl (hr.kind_init hk)
    · exact Or.inl (hr.ctor hk)
    · exact Or.inl (hs.prePub fns why rfl hk.2)
  | sync =>
    simp only [okFact, Bool.or_eq_true, beq_iff_eq] at hok
    show e.priv = true ∨ e.acc.isWrite = false
    rcases hok with ((hk | hk) | hk) | hk
    · right; rw [hr.kind_read hk]; rfl
    · exact Or.inl (hr.kind_init hk)
    · exact Or.inr (hr.kind_addr hk)
    · exact Or.inl (hr.ctor hk)
  | receiver =>
    simp only [okFact, Bool.or_eq_true, beq_iff_eq] at hok
    show e.priv = true ∨ e.acc.isWrite = false
    rcases hok with ((hk | hk) | hk) | hk
    · right; rw [hr.kind_read hk]; rfl
    · exact Or.inr (hr.kind_addr hk)
    · exact Or.inl (hr.kind_init hk)
    · exact Or.inl (hr.ctor hk)

/-! ## 3. The theorem -/

/-- **C14 (abstract model).**  In every abstract execution — any number of threads, any happens-before
relation satisfying the `Exec` fields — whose accesses all obey the synchronisation class of their
location, there is no data race. -/
theorem C14_disciplined_drf (E : Exec) (D : Discipline) (h : ∀ e ∈ E.evs, Obeys D e) :
    ∀ i j, ¬ Race E i j :=
  disciplined_drf E D h

/-- **C14 (chained).**  If the regenerated facts pass the table check, and every access of an
execution realizes one of the facts (about a field whose table class is the class of the accessed
location, with the side conditions), the execution has no data race. -/
theorem C14_drf_of_table (lockId : String → Nat) (table : List (String × Class)) (facts : List Fact)
    (hdisc : Disciplined table facts = true) (E : Exec) (D : Discipline)
    (hreal : ∀ e ∈ E.evs, ∃ f ∈ facts, ∃ c, classOf table f.field = some c ∧
      D.cls e.loc = absClass lockId c ∧ Realizes lockId f e ∧ Side D c f e) :
    ∀ i j, ¬ Race E i j := by
  apply disciplined_drf E D
  intro e he
  obtain ⟨f, hf, c, hcls, hc, hr, hs⟩ := hreal e he
  obtain ⟨c', hcls', hok⟩ := (disciplined_iff table facts).mp hdisc f hf
  rw [hcls] at hcls'
  cases hcls'
  exact obeys_of_okFact lockId D c f e hc hr hs hok

/-! ## Non-vacuity of the bridge -/

/-- the write of `MutexAdder.value` in `Add`, as the extractor reports it -/
def sampleFact : Fact :=
  ⟨"adder/MutexAdder.value", "*MutexAdder.Add", .write, [("a.lock", .W)], "adder/mutexAdder.go"⟩

example : (match classOf table sampleFact.field with | some (.locked "lock") => true | _ => false) = true := by
  decide +kernel
example : okFact (.locked "lock") sampleFact = true := by decide +kernel
/-- the same write without the lock, or under the read lock, is rejected -/
example : okFact (.locked "lock") { sampleFact with locks := [] } = false := by decide +kernel
example : okFact (.locked "lock") { sampleFact with locks := [("a.lock", .R)] } = false := by decide +kernel
/-- a plain read of an `atomicOnly` field outside constructors is rejected -/
example : okFact .atomicOnly ⟨"queue/JDKLinkedQueue.h", "*JDKLinkedQueue.Poll", .read, [], ""⟩ = false := by
  decide +kernel

end Garr.Props.C14
