import Garr.Lin
import Garr.Locked.Inv
/-!
# C19 — the mutex-based queue and adder are linearizable over their whole API

`Garr.Locked.M P` models an object whose every method is ONE critical section of an `RWMutex`
(`acq → rd → (wr) → rel → retn`, the read of the guarded state and the write-back being separate
steps).  For every program table `P` whose read-locked methods are pure (`Prog.ReadsPure`):

* `locked_disciplined`, `locked_refines`: the two hypotheses of `Garr.Lin.linearizable_of_refines`
  (linearization point of a writer = its write-back step, where `loc = g.st` by the lock invariant
  `Garr.Locked.lockInv_reach`; linearization point of a reader = its read step);
* `locked_linearizable`: every history of every schedule is Herlihy–Wing linearizable w.r.t. the
  sequential object `⟨P.init, P.apply⟩`;
* `C19_mutex_queue_linearizable`, `C19_mutex_adder_linearizable`: the two instances (whole API);
* `sar_conservation`: in the sequential adder, the values returned by `sumAndReset` plus the final
  value equal the total added (mod 2^64) — with linearizability: "the values returned by concurrent
  `SumAndReset` calls plus the final `Sum` add up to exactly the total added";
* a negative witness: `Sum(); Reset()` (two critical sections) is NOT an atomic `SumAndReset`;
* non-vacuity: concrete schedules evaluated by `decide`.
-/
namespace Garr.Props.C19
open Garr.Conc Garr.Lin Garr.Locked

variable {S Op Ret : Type}

/-- how steps of the locked machine are read as history events: `call op` from `idle` is the
invocation, the `lp` observation the linearization point, the `ret` observation the response -/
def lockedView (P : Prog S Op Ret) : View (M P) Op Ret where
  invOf := fun (l : LL S Op Ret) (a : LAct Op) =>
    match l, a with
    | .idle, .call op => some op
    | _, _ => none
  lpOf := fun (_ : LL S Op Ret) (o : LObs Ret) => match o with | .lp r => some r | _ => none
  resOf := fun (_ : LL S Op Ret) (o : LObs Ret) => match o with | .ret r => some r | _ => none
  ph := fun (l : LL S Op Ret) =>
    match l with
    | .idle => .idle
    | .acq _ => .pending
    | .rd _ => .pending
    | .wr _ _ => .pending
    | .rel _ r => .done r
    | .retn r => .done r
  curOp := fun (l : LL S Op Ret) =>
    match l with
    | .acq op => some op
    | .rd op => some op
    | .wr op _ => some op
    | _ => none

/-! ## The two hypotheses of the generic theorem -/

set_option backward.isDefEq.respectTransparency false in
/-- the linearization-point discipline: one LP marker per call, between invocation and response,
and the response carries the result fixed at the LP -/
theorem locked_disciplined (P : Prog S Op Ret) : Disciplined (M P) (lockedView P) where
  idle0 := rfl
  not_both := by
    intro l o
    cases o <;> simp [lockedView]
  idle_step := by
    intro t g l a g' l' obs hs hph
    have hk : StepK P g l a g' l' obs := stepK_of_step (t := t) hs
    cases hk <;> simp [lockedView, View.evs] at hph ⊢
  pending_step := by
    intro t g l a g' l' obs hs hph
    have hk : StepK P g l a g' l' obs := stepK_of_step (t := t) hs
    cases hk <;> simp [lockedView, View.evs, View.mk?] at hph ⊢
  done_step := by
    intro t g l a g' l' obs r hs hph
    have hk : StepK P g l a g' l' obs := stepK_of_step (t := t) hs
    cases hk <;> simp [lockedView, View.evs, View.mk?] at hph ⊢ <;> exact hph

set_option backward.isDefEq.respectTransparency false in
/-- forward simulation with `abs g = g.st`: only the LP steps change the guarded state, and they
change it as the sequential method does — for a writer because its copy `loc` is still `g.st`
(mutual exclusion), for a reader because read-locked methods are pure -/
theorem locked_refines (P : Prog S Op Ret) (hP : P.ReadsPure) :
    Refines (M P) (lockedView P) ⟨P.init, P.apply⟩ (fun (g : LG S) => g.st) (Inv P) where
  init := rfl
  no_lp := by
    intro c t a g' l' obs hI hs hno
    have hk : StepK P c.g (c.l t) a g' l' obs := stepK_of_step (t := t) hs
    generalize hx : c.l t = x at hk hno
    cases hk <;> first | rfl | (exfalso; simp [lockedView, View.evs, View.mk?] at hno)
  lp := by
    intro c t a g' l' obs r op hI hs hlp hcur
    have hk : StepK P c.g (c.l t) a g' l' obs := stepK_of_step (t := t) hs
    generalize hx : c.l t = x at hk hlp hcur
    cases hk <;> simp [lockedView, View.evs, View.mk?] at hlp hcur
    · -- reader: LP at its read step
      rename_i op' hwop
      subst hcur hlp
      show P.apply c.g.st op' = (c.g.st, (P.apply c.g.st op').2)
      exact Prod.ext (hP c.g.st op' hwop) rfl
    · -- writer: LP at its write-back step; `loc = g.st` by the lock invariant
      rename_i op' loc
      subst hcur hlp
      obtain ⟨_, hloc⟩ := LockInv.wr_ok hI t op' loc hx
      subst hloc
      rfl

/-! ## Main theorem -/

/-- **C19 (generic).**  For every program table `P` whose read-locked methods are pure, every history
of every schedule of `M P` — every client program over all of `P`'s operations, every number of
threads, every interleaving of the individual lock/read/write/unlock steps — is linearizable w.r.t.
the sequential object `⟨P.init, P.apply⟩`. -/
theorem locked_linearizable (P : Prog S Op Ret) (hP : P.ReadsPure) [Inhabited Op] [Inhabited Ret]
    (s : List (Tid × LAct Op)) :
    Garr.Lin.Linearizable ⟨P.init, P.apply⟩
      (Garr.Lin.hist (lockedView P) (Config.init (M P)) (fun _ => 0) s) :=
  linearizable_of_refines (locked_disciplined P) (locked_refines P hP) (lockInv_reach P) s

/-! ## The two instances -/

instance : Inhabited QOp := ⟨.poll⟩
instance : Inhabited QRet := ⟨.unit⟩
instance : Inhabited AOp := ⟨.sum⟩

/-- the sequential queue: `offer`/`poll`/`peek`/`size`/`isEmpty` on a list -/
def mutexQueueSpec : Spec QOp QRet (List Nat) := ⟨queueProg.init, queueProg.apply⟩

/-- the sequential int64 counter: `add`/`sum`/`reset`/`sumAndReset`/`store` -/
def mutexAdderSpec : Spec AOp (Option Int) Int := ⟨adderProg.init, adderProg.apply⟩

/-- **C19, queue** (also the mutex half of C01).  Every history of `MutexLinkedQueue` — any client
program mixing `Offer`, `Poll`, `Peek`, `Size` and `IsEmpty` from any number of goroutines, any
interleaving — is linearizable w.r.t. the sequential FIFO queue; in particular `Size` and `IsEmpty`
are as atomic as the other three. -/
theorem C19_mutex_queue_linearizable (s : List (Tid × LAct QOp)) :
    Linearizable mutexQueueSpec
      (hist (lockedView queueProg) (Config.init (M queueProg)) (fun _ => 0) s) :=
  locked_linearizable queueProg queueProg_readsPure s

/-- **C19, adder.**  Every history of `MutexAdder` — any client program mixing `Add`, `Sum`, `Reset`,
`SumAndReset` and `Store` from any number of goroutines, any interleaving — is linearizable w.r.t.
the sequential wrapping int64 counter. -/
theorem C19_mutex_adder_linearizable (s : List (Tid × LAct AOp)) :
    Linearizable mutexAdderSpec
      (hist (lockedView adderProg) (Config.init (M adderProg)) (fun _ => 0) s) :=
  locked_linearizable adderProg adderProg_readsPure s

/-! ## What the sequential specifications say -/

/-- the offered values of a trace, in order -/
def offered : List (QOp × QRet) → List Nat
  | [] => []
  | (.offer v, _) :: tr => v :: offered tr
  | _ :: tr => offered tr

/-- the values returned by successful polls, in order -/
def polled : List (QOp × QRet) → List Nat
  | [] => []
  | (.poll, .val v) :: tr => v :: polled tr
  | _ :: tr => polled tr

/-- FIFO for the sequential queue, from any state: polled values ++ remaining = initial ++ offered -/
theorem queue_fifo_from (q : List Nat) (tr : List (QOp × QRet)) (hl : legal mutexQueueSpec q tr) :
    polled tr ++ exec mutexQueueSpec q tr = q ++ offered tr := by
  induction tr generalizing q with
  | nil => simp [polled, offered, exec]
  | cons x tr ih =>
    obtain ⟨op, r⟩ := x
    obtain ⟨h1, h2⟩ := hl
    have ih' := ih _ h2
    cases op with
    | offer v =>
      simp only [exec, polled, offered]
      rw [ih']; simp [mutexQueueSpec, queueProg]
    | poll =>
      cases q with
      | nil =>
        have : r = .nil := h1.symm
        subst this
        simp only [exec, polled, offered]
        rw [ih']; simp [mutexQueueSpec, queueProg]
      | cons v q =>
        have : r = .val v := h1.symm
        subst this
        simp only [exec, polled, offered]
        rw [List.cons_append, ih']; simp [mutexQueueSpec, queueProg]
    | peek =>
      cases q with
      | nil =>
        simp only [exec, polled, offered]
        rw [ih']; simp [mutexQueueSpec, queueProg]
      | cons v q =>
        simp only [exec, polled, offered]
        rw [ih']; simp [mutexQueueSpec, queueProg]
    | size =>
      simp only [exec, polled, offered]
      rw [ih']; simp [mutexQueueSpec, queueProg]
    | isEmpty =>
      simp only [exec, polled, offered]
      rw [ih']; simp [mutexQueueSpec, queueProg]

/-- **FIFO.**  Along any legal sequential trace of the mutex queue's specification (such as the one
a linearization provides), the polled values followed by the values still queued are exactly the
offered values, in order. -/
theorem queue_fifo (tr : List (QOp × QRet)) (hl : legal mutexQueueSpec mutexQueueSpec.init tr) :
    polled tr ++ exec mutexQueueSpec mutexQueueSpec.init tr = offered tr := by
  have := queue_fifo_from _ tr hl
  simpa [mutexQueueSpec, queueProg] using this

/-- `Size` returns the number of queued values and `IsEmpty` says whether there are none, in the
very state in which they take effect -/
theorem queue_size_isEmpty (q : List Nat) :
    mutexQueueSpec.apply q .size = (q, .int q.length) ∧
    mutexQueueSpec.apply q .isEmpty = (q, .bool q.isEmpty) := ⟨rfl, rfl⟩

/-- Σ of the values added in a trace -/
def addedSum : List (AOp × Option Int) → Int
  | [] => 0
  | (.add x, _) :: tr => x + addedSum tr
  | _ :: tr => addedSum tr

/-- Σ of the values returned by the `sumAndReset` calls of a trace -/
def sarSum : List (AOp × Option Int) → Int
  | [] => 0
  | (.sumAndReset, some v) :: tr => v + sarSum tr
  | _ :: tr => sarSum tr

/-- `add`, `sumAndReset`, `sum` (no `store`/`reset`, which discard value on purpose) -/
def conserving : AOp → Prop
  | .add _ => True
  | .sumAndReset => True
  | .sum => True
  | _ => False

theorem wrap64_congr_add (s a b : Int) (h : wrap64 a = wrap64 b) : wrap64 (s + a) = wrap64 (s + b) := by
  unfold wrap64 at *; omega

/-- conservation from any start value `s` -/
theorem sar_conservation_from (s : Int) (tr : List (AOp × Option Int))
    (hl : legal mutexAdderSpec s tr) (hc : ∀ x ∈ tr, conserving x.1) :
    wrap64 (sarSum tr + exec mutexAdderSpec s tr) = wrap64 (s + addedSum tr) := by
  induction tr generalizing s with
  | nil => simp [sarSum, addedSum, exec]
  | cons x tr ih =>
    obtain ⟨op, r⟩ := x
    obtain ⟨h1, h2⟩ := hl
    have ih' := ih _ h2 (fun y hy => hc y (List.mem_cons_of_mem _ hy))
    have hop := hc _ (List.mem_cons_self ..)
    cases op with
    | add x =>
      have hst : (mutexAdderSpec.apply s (.add x)).1 = wrap64 (s + x) := rfl
      simp only [exec, sarSum, addedSum]
      rw [hst] at ih' ⊢
      rw [ih', wrap64_add, Int.add_assoc]
    | sum =>
      have hst : (mutexAdderSpec.apply s .sum).1 = s := rfl
      have hr : r = some s := h1.symm
      subst hr
      simp only [exec, sarSum, addedSum]
      rw [hst] at ih' ⊢
      exact ih'
    | sumAndReset =>
      have hst : (mutexAdderSpec.apply s .sumAndReset).1 = 0 := rfl
      have hr : r = some s := h1.symm
      subst hr
      simp only [exec, sarSum, addedSum]
      rw [hst] at ih' ⊢
      rw [Int.add_assoc]
      apply wrap64_congr_add
      rw [ih', Int.zero_add]
    | reset => exact hop.elim
    | store v => exact hop.elim

/-- **Conservation.**  Along any legal sequential trace of `add x` / `sumAndReset` / `sum`
operations of the adder (from 0), the values returned by the `sumAndReset` calls plus the final value
equal the total added, modulo 2^64 (both sides wrapped into int64). -/
theorem sar_conservation (tr : List (AOp × Option Int))
    (hl : legal mutexAdderSpec mutexAdderSpec.init tr) (hc : ∀ x ∈ tr, conserving x.1) :
    wrap64 (sarSum tr + exec mutexAdderSpec mutexAdderSpec.init tr) = wrap64 (addedSum tr) := by
  have := sar_conservation_from _ tr hl hc
  simpa [mutexAdderSpec, adderProg] using this

/-- Linearizability + conservation: every concurrent history of `MutexAdder` has a linearization
(`l`, with `opOf`/`retOf` agreeing with every invocation and response of the history and respecting
real-time order) along which — if the history uses only `Add`/`SumAndReset`/`Sum` — the values
returned by the `SumAndReset` calls plus the final value are exactly the total added (mod 2^64). -/
theorem C19_adder_concurrent_conservation (s : List (Tid × LAct AOp)) :
    ∃ (l : List (Nat × Nat)) (opOf : Nat × Nat → AOp) (retOf : Nat × Nat → Option Int),
      let h := hist (lockedView adderProg) (Config.init (M adderProg)) (fun _ => 0) s
      let tr := l.map (fun k => (opOf k, retOf k))
      l.Nodup ∧ (∀ k, k ∈ l → Ev.inv k (opOf k) ∈ h) ∧
      (∀ k r, Ev.res k r ∈ h → k ∈ l ∧ retOf k = r) ∧
      (∀ k1 k2, k1 ∈ l → k2 ∈ l → precedes h k1 k2 → before l k1 k2) ∧
      legal mutexAdderSpec mutexAdderSpec.init tr ∧
      ((∀ k op, Ev.inv k op ∈ h → conserving op) →
        wrap64 (sarSum tr + exec mutexAdderSpec mutexAdderSpec.init tr) = wrap64 (addedSum tr)) := by
  obtain ⟨l, opOf, retOf, h1, h2, h3, h4, h5⟩ := C19_mutex_adder_linearizable s
  refine ⟨l, opOf, retOf, h1, h2, h3, h4, h5, fun hc => sar_conservation _ h5 ?_⟩
  intro x hx
  obtain ⟨k, hk, rfl⟩ := List.mem_map.mp hx
  exact hc k (opOf k) (h2 k hk)

/-! ## Negative witness: "ONE critical section" matters

`Sum(); Reset()` — a read-locked section followed by a write-locked section — is not an atomic
`SumAndReset`: an `Add(5)` that slips between the two sections is lost. -/

deriving instance DecidableEq for Garr.Lin.Ev

instance decLegal {Op Ret S : Type} [DecidableEq Ret] (sp : Spec Op Ret S) :
    ∀ (s : S) (tr : List (Op × Ret)), Decidable (legal sp s tr)
  | _, [] => isTrue trivial
  | s, (op, r) :: rest =>
    have := decLegal sp (sp.apply s op).1 rest
    inferInstanceAs (Decidable ((sp.apply s op).2 = r ∧ legal sp (sp.apply s op).1 rest))

/-- the broken composite, at the level of the sequential object: `sum` (first critical section),
then the operations `between` of other threads, then `reset` (second critical section); returns
the composite's result and the final state -/
def brokenSumAndReset (s : Int) (between : List AOp) : Option Int × Int :=
  let r := (adderProg.apply s .sum).2
  let s1 := between.foldl (fun st op => (adderProg.apply st op).1) (adderProg.apply s .sum).1
  (r, (adderProg.apply s1 .reset).1)

/-- with `add 5` in between: the composite returns 0 and the final value is 0 — the 5 is lost -/
example : brokenSumAndReset 0 [.add 5] = (some 0, 0) := by decide

/-- no sequential run of the atomic adder explains these results (`sumAndReset ↦ 0`, `add 5`,
final `sum ↦ 0`), in either order of the two calls … -/
example :
    ¬ legal mutexAdderSpec 0 [(.sumAndReset, some 0), (.add 5, none), (.sum, some 0)] ∧
    ¬ legal mutexAdderSpec 0 [(.add 5, none), (.sumAndReset, some 0), (.sum, some 0)] := by decide

/-- … and conservation fails: (Σ sumAndReset results) + final = 0 + 0 ≠ 5 = Σ added -/
example : wrap64 (0 + (brokenSumAndReset 0 [.add 5]).2) ≠ wrap64 5 := by decide

/-- the same at the level of the machine: thread 0 calls `Sum()` and then `Reset()` (two critical
sections of `M adderProg`), thread 1's complete `Add(5)` runs in between, thread 2 reads the final sum -/
def brokenSchedule : List (Tid × LAct AOp) :=
  [(0, .call .sum), (0, .tau), (0, .tau), (0, .tau), (0, .tau),
   (1, .call (.add 5)), (1, .tau), (1, .tau), (1, .tau), (1, .tau), (1, .tau),
   (0, .call .reset), (0, .tau), (0, .tau), (0, .tau), (0, .tau), (0, .tau),
   (2, .call .sum), (2, .tau), (2, .tau), (2, .tau), (2, .tau)]

/-- `Sum()` returned 0, `Add(5)` completed, `Reset()` completed, and the final `Sum()` is 0: as a
history of four atomic calls this is linearizable (by `C19_mutex_adder_linearizable`), but read as
"`SumAndReset` returned 0" it violates conservation — the 5 was added and never reported -/
example : hist (lockedView adderProg) (Config.init (M adderProg)) (fun _ => 0) brokenSchedule =
    [.inv (0, 0) .sum, .lp (0, 0) (some 0), .res (0, 0) (some 0),
     .inv (1, 0) (.add 5), .lp (1, 0) none, .res (1, 0) none,
     .inv (0, 1) .reset, .lp (0, 1) none, .res (0, 1) none,
     .inv (2, 0) .sum, .lp (2, 0) (some 0), .res (2, 0) (some 0)] := by decide

/-! ## Non-vacuity -/

/-- `Add(5)` (thread 0) ∥ `SumAndReset()` (thread 1), overlapping: both are invoked, thread 0 takes
the lock, thread 1's `Lock` attempt (4th entry) is disabled and skipped, thread 0 copies, writes back
(LP) and unlocks, thread 1 locks, copies 5, writes back 0 (LP, result 5), unlocks and returns -/
def demo : List (Tid × LAct AOp) :=
  [(0, .call (.add 5)), (1, .call .sumAndReset), (0, .tau), (1, .tau), (0, .tau), (0, .tau), (0, .tau),
   (1, .tau), (0, .tau), (1, .tau), (1, .tau), (1, .tau), (1, .tau)]

example : hist (lockedView adderProg) (Config.init (M adderProg)) (fun _ => 0) demo =
    [.inv (0, 0) (.add 5), .inv (1, 0) .sumAndReset, .lp (0, 0) none, .res (0, 0) none,
     .lp (1, 0) (some 5), .res (1, 0) (some 5)] := by decide

/-- the final guarded value is 0, the lock is free -/
example : (run (M adderProg) (Config.init (M adderProg)) demo).1.g.st = 0 ∧
    (run (M adderProg) (Config.init (M adderProg)) demo).1.g.writer = false ∧
    (run (M adderProg) (Config.init (M adderProg)) demo).1.g.readers = 0 := by decide

/-- while thread 0 holds the write lock (after the first three entries), thread 1's `Lock` is disabled -/
example :
    let c := (run (M adderProg) (Config.init (M adderProg)) (demo.take 3)).1
    c.g.writer = true ∧ (M adderProg).step 1 c.g (c.l 1) .tau = none := by decide

/-- mutex queue: `Offer(7)` ∥ `Size()` ∥ `Poll()` — the read-locked `Size` runs between the two writers -/
def demoQueue : List (Tid × LAct QOp) :=
  [(0, .call (.offer 7)), (1, .call .size), (2, .call .poll),
   (0, .tau), (0, .tau), (0, .tau), (0, .tau), (0, .tau),
   (1, .tau), (2, .tau), (1, .tau), (1, .tau), (1, .tau),
   (2, .tau), (2, .tau), (2, .tau), (2, .tau), (2, .tau)]

example : hist (lockedView queueProg) (Config.init (M queueProg)) (fun _ => 0) demoQueue =
    [.inv (0, 0) (.offer 7), .inv (1, 0) .size, .inv (2, 0) .poll,
     .lp (0, 0) .unit, .res (0, 0) .unit,
     .lp (1, 0) (.int 1), .res (1, 0) (.int 1),
     .lp (2, 0) (.val 7), .res (2, 0) (.val 7)] := by decide

end Garr.Props.C19
