import Garr.Pool.Progress
import Garr.Props.Pool
/-!
# Worker pool: the "never hangs" half of C12 / C08, back-pressure (C17, C11) and bounded internal work

The theorems of `Garr/Props/Pool.lean` are safety and enabledness facts; `stop_drains` says what holds IF `Stop` has
returned.  This file excludes deadlocks and internal livelocks of `Garr.Pool.M P` (for every parameter set, every client
program and every schedule).  Lemmas and invariants: `Garr/Pool/Progress.lean`.

Internal steps = what the pool does on its own (`tau`, `choose k`, a spawned goroutine starting to run); environment =
new calls, `finish` (the harness releases an executor's gate), cancellation, time.  `Stuck c` = no internal step is
enabled for any thread.

1. After `Stop`:
   * `stuck_after_stop` – in a stuck reachable configuration with `state = 2` the only threads not at rest are workers
     inside an unreleased executor and the `Stop` caller in `wg.Wait()` (which waits iff there is such a worker);
   * `no_deadlock_after_stop` – if moreover no worker sits in an unreleased executor, EVERY thread is at rest: `Stop` has
     returned, every `Do`/`TryDo`/`Start` has returned, every worker has exited, and (`stop_drains`) every accepted task
     has exactly one result;
   * `stop_returns`, `stuck_after_stop_call` – the same from the point of view of a `Stop` call, for arbitrary executions;
     `stop_never_hangs` – for the pool running on its own after the call (existence of the final state + its shape);
   * `do_outcome`, `do_never_hangs` – a `Do` call always hands its task over or answers it; after `Stop` the waiter on the
     result channel is released;
   * `readers_enabled_while_stop_waits` – the seeded bug excluded directly: while `Stop` waits for the write lock, every
     reader can move; `nobody_waits_for_lock`; `trydo_start_stop_never_hang`.
2. Before `Stop`: `stuck_before_stop`, `stuck_threads` (who may be blocked, and why), `blocked_do_backpressure` (a `Do`
   parked in `push`: queue full, every live worker inside an unreleased executor, all `NumberWorker` fixed workers busy
   unless the pool was never started).
3. No internal livelock: `internal_steps_bounded` (explicit bound), `internal_steps_potential` (the ranking function),
   `stuck_reachable` (every reachable configuration can run, by internal steps within the bound, into a stuck one),
   `finitely_many_threads`, `maximal_run_stuck`.
4. Kernel-checked runs: `parked_do_before_stop`, `parked_do_midpoint`, `parked_do_released_by_stop` (the model) and
   `lock_before_cancel_deadlocks` (the seeded bug "`Stop` takes the write lock before cancelling the context": `Do` and
   `Stop` block each other for ever); `blocked_do_limit_not_exhausted` (why the back-pressure theorem cannot say that
   the expansion limit is exhausted).

What is NOT proved: anything under a fairness assumption with an active environment (e.g. "if clients keep submitting,
`Stop` still returns"); the statements are about stuck configurations and about runs of internal steps.
-/
namespace Garr.Props.PoolProgress
open Garr.Conc Garr.Pool Garr.Pool.Progress Garr.Props.Pool

variable {P : Params}

/-- not inside any call and not a live goroutine -/
def atRest (l : L) : Prop := l = .idle ∨ l = .exited

/-- thread `t` is a worker (fixed or expanded) inside the executor of a task whose gate has not been released -/
def inUnreleasedExec (c : Config (M P)) (t : Tid) : Prop :=
  ∃ u, (c.l t = .wexec u ∨ c.l t = .eexec u) ∧ (c.g.task u).released = false

/-- `Stuck`, thread by thread: a reachable configuration is stuck iff every thread sits at a program counter whose
guard is false — `blockedAt`: an idle thread with no spawned goroutine to become; `d1`/`st0`/`sp3a` with the write lock
held or awaited; `push` with neither context done, the queue open and full; `w0`/`e0` with the queue open and empty
(and the timer running); `wexec`/`eexec` with the gate closed; `sp3b` with readers; `sp4` with `wg ≠ 0`; `exited`.  Every
other program counter always has an enabled step. -/
theorem stuck_iff (c : Config (M P)) (h : Reach (M P) c) : Stuck c ↔ ∀ t, blockedAt c.g (c.l t) = true :=
  ⟨fun hs t => stuck_blocked (pinv_reach P c h) hs t, fun hb => blocked_stuck hb⟩

/-! ## 1. Deadlock freedom after `Stop` -/

/-- A stuck reachable configuration of a stopped pool (some `Stop` call won the state CAS).  The only threads that are
not at rest are workers inside an unreleased executor and the `Stop` caller waiting for them in `wg.Wait()` (`sp4`) —
and the latter waits if and only if there is such a worker.  In particular no submitter (`Do`, `TryDo`), no `Start` and
no second `Stop` is blocked, nobody holds or awaits `submitLock`, the context is cancelled and the queue is closed. -/
theorem stuck_after_stop (c : Config (M P)) (h : Reach (M P) c) (hs : Stuck c) (h2 : c.g.state = 2) :
    (∀ t, atRest (c.l t) ∨ c.l t = .sp4 ∨ inUnreleasedExec c t) ∧
    ((∃ t, c.l t = .sp4) ↔ ∃ t, inUnreleasedExec c t) ∧
    c.g.ctxDone = true ∧ c.g.closed = true ∧ c.g.writer = false ∧ c.g.wpending = false ∧ c.g.readers = 0 ∧
    c.g.spawnFixed = 0 ∧ c.g.spawnExp = 0 := by
  have hx := xinv_reach P c h
  obtain ⟨hc, hd, hw, hwp⟩ := stuck_stopped_globals hx hs h2
  obtain ⟨hsf, hse⟩ := spawn_zero_of_stuck hx hs
  have hcl := stuck_stopped_threads hx hs h2
  have hwait := stuck_stopped_wait hx hs h2
  refine ⟨fun t => ?_, ⟨fun h4 => ?_, fun ⟨t, u, hl, _⟩ => hwait.2 ⟨t, u, hl⟩⟩, hd, hc, hw, hwp, ?_, hsf, hse⟩
  · rcases hcl t with h1 | h1 | h1 | h1
    · exact Or.inl (Or.inl h1)
    · exact Or.inl (Or.inr h1)
    · exact Or.inr (Or.inl h1)
    · exact Or.inr (Or.inr h1)
  · obtain ⟨t, u, hl⟩ := hwait.1 h4
    rcases hcl t with h1 | h1 | h1 | ⟨v, h1, hr⟩
    · rcases hl with hl | hl <;> rw [hl] at h1 <;> cases h1
    · rcases hl with hl | hl <;> rw [hl] at h1 <;> cases h1
    · rcases hl with hl | hl <;> rw [hl] at h1 <;> cases h1
    · exact ⟨t, v, h1, hr⟩
  · refine counts_eq_zero hx.pinv.lock.readers (fun t => ?_)
    rcases hcl t with h1 | h1 | h1 | ⟨v, h1 | h1, _⟩ <;> rw [h1] <;> rfl

/-- Deadlock freedom after `Stop`: in a stuck reachable configuration of a stopped pool in which every task whose
executor is running has been released, EVERY thread is at rest.  So the `Stop` call has returned, every `Do`, `TryDo`
and `Start` has returned, every worker has exited; and with `stop_drains` every accepted task has exactly one
result, the wait group is at zero, the queue is closed and empty. -/
theorem no_deadlock_after_stop (c : Config (M P)) (h : Reach (M P) c) (hs : Stuck c) (h2 : c.g.state = 2)
    (hrel : ∀ t u, c.l t = .wexec u ∨ c.l t = .eexec u → (c.g.task u).released = true) :
    (∀ t, atRest (c.l t)) ∧ stopReturned c ∧
    (∀ u, (c.g.task u).enq = true → (c.g.task u).results.length = 1) ∧
    c.g.wg = 0 ∧ c.g.q = [] ∧ c.g.closed = true ∧ c.g.readers = 0 ∧ c.g.writer = false ∧ c.g.wpending = false := by
  obtain ⟨hcl, hwait, _, _, hw, hwp, hr, _, _⟩ := stuck_after_stop c h hs h2
  have hnone : ∀ t, ¬ inUnreleasedExec c t := by
    rintro t ⟨u, hl, hu⟩
    rw [hrel t u hl] at hu; cases hu
  have hrest : ∀ t, atRest (c.l t) := by
    intro t
    rcases hcl t with h1 | h1 | h1
    · exact h1
    · obtain ⟨t', ht'⟩ := hwait.1 ⟨t, h1⟩
      exact absurd ht' (hnone t')
    · exact absurd h1 (hnone t)
  have hret : stopReturned c := by
    refine ⟨h2, fun t => ?_⟩
    rcases hrest t with h1 | h1 <;> rw [h1] <;> rfl
  obtain ⟨h3, h4, _, _, _, _, h5, h6⟩ := stop_drains c h hret
  exact ⟨hrest, hret, h3, h4, h5, h6, hr, hw, hwp⟩

/-- the same for every stuck configuration that an execution (any steps, including environment actions) reaches after
a `Stop` call: a thread at `sp0`/`sp1` is never blocked, and a `Stop` whose two CASes both fail found `state = 2` -/
theorem stuck_after_stop_call (c : Config (M P)) (h : Reach (M P) c) (t : Tid)
    (hcall : c.g.state = 2 ∨ c.l t = .sp0 ∨ c.l t = .sp1) (c' : Config (M P)) (hsteps : Steps (M P) c c')
    (hs : Stuck c') : c'.g.state = 2 :=
  (StopCalled.steps h hcall hsteps).stuck (pinv_reach P c' (hsteps.reach h)) hs

/-- The seeded bug, excluded directly (no stuckness assumption): whenever the `Stop` caller waits for the readers of
`submitLock` to drain (`sp3b`), EVERY thread holding the read side has an enabled internal step — in particular a `Do`
parked in `push` can take the `ctx.Done()` case, because `Stop` cancelled the context before asking for the lock.  (All
other read-side sections are straight-line code.) -/
theorem readers_enabled_while_stop_waits (c : Config (M P)) (h : Reach (M P) c) (t0 : Tid) (hl0 : c.l t0 = .sp3b)
    (t : Tid) (hr : holdsR (c.l t) = true) :
    c.g.ctxDone = true ∧ ∃ a g' l' obs, internal a = true ∧ (M P).step t c.g (c.l t) a = some (g', l', obs) := by
  have hx := xinv_reach P c h
  have hp := hx.pinv
  have hst0 : stopper (c.l t0) = true := by rw [hl0]; rfl
  have hctx : c.g.ctxDone = true := by
    refine hx.ctx (hp.lock.stop_state t0 hst0) (fun t' => ?_)
    cases hh : isSp2 (c.l t') with
    | false => rfl
    | true =>
      have hst : stopper (c.l t') = true := by
        cases hl : c.l t' <;> rw [hl] at hh <;> simp [isSp2] at hh <;> rfl
      have := hp.lock.stop_uniq t' t0 hst hst0
      subst this; rw [hl0] at hh; cases hh
  refine ⟨hctx, enabled_of_not_blocked hp t ?_⟩
  cases hl : c.l t <;> rw [hl] at hr <;> simp [holdsR, blockedAt, hctx] at hr ⊢

/-- in a stuck reachable configuration nobody waits for `submitLock`, neither for the read side (`Do` at `d1`, `Start`
at `st0`) nor for the write side (`Stop` at `sp3a`, `sp3b`) -/
theorem nobody_waits_for_lock (c : Config (M P)) (h : Reach (M P) c) (hs : Stuck c) (t : Tid) :
    (∀ u, c.l t ≠ .d1 u) ∧ c.l t ≠ .st0 ∧ c.l t ≠ .sp3a ∧ c.l t ≠ .sp3b := by
  have hx := xinv_reach P c h
  have hp := hx.pinv
  have hb := stuck_blocked hp hs t
  have hlock : c.g.writer = false ∧ c.g.wpending = false := by
    by_cases h2 : c.g.state = 2
    · obtain ⟨_, _, hw, hwp⟩ := stuck_stopped_globals hx hs h2
      exact ⟨hw, hwp⟩
    · obtain ⟨_, hw, hwp, _⟩ := running_globals hp h2
      exact ⟨hw, hwp⟩
  refine ⟨fun u hl => ?_, fun hl => ?_, fun hl => ?_, fun hl => ?_⟩
  · rw [hl] at hb; simp [blockedAt, hlock.1, hlock.2] at hb
  · rw [hl] at hb; simp [blockedAt, hlock.1, hlock.2] at hb
  · rw [hl] at hb; simp [blockedAt, hlock.1, hlock.2] at hb
  · have := stuck_stopper_sp4 hx hs t (by rw [hl]; rfl)
    rw [hl] at this; cases this

/-! ## 2. Before `Stop`: who may be blocked, and why -/

/-- A stuck reachable configuration of a pool that has not been stopped.  Nobody holds or awaits the write lock, so no
`Do`/`TryDo`/`Start` waits for `submitLock`; a thread is at rest, or a worker waiting for a task (fixed: `w0`; expanded:
`e0` with its idle timer still running — time is an environment action) and then the queue is empty, or a worker inside
an unreleased executor, or a `Do` parked in `push` and then the queue is full and neither its context nor the pool's
is done. -/
theorem stuck_before_stop (c : Config (M P)) (h : Reach (M P) c) (hs : Stuck c) (h2 : c.g.state ≠ 2) :
    c.g.closed = false ∧ c.g.writer = false ∧ c.g.wpending = false ∧ c.g.spawnFixed = 0 ∧ c.g.spawnExp = 0 ∧
    ∀ t, atRest (c.l t) ∨ (c.l t = .w0 ∧ c.g.q = []) ∨ (∃ dl, c.l t = .e0 dl ∧ c.g.q = [] ∧ c.g.now < dl) ∨
      inUnreleasedExec c t ∨
      (∃ u, c.l t = .push u ∧ c.g.ctxDone = false ∧ taskCtxDone c.g u = false ∧ c.g.q ≠ []) := by
  have hx := xinv_reach P c h
  obtain ⟨hc, hw, hwp, _, _⟩ := running_globals hx.pinv h2
  obtain ⟨hsf, hse⟩ := spawn_zero_of_stuck hx hs
  refine ⟨hc, hw, hwp, hsf, hse, fun t => ?_⟩
  rcases stuck_running_threads hx hs h2 t with h1 | h1 | h1 | h1 | h1 | h1
  · exact Or.inl (Or.inl h1)
  · exact Or.inl (Or.inr h1)
  · exact Or.inr (Or.inl h1)
  · exact Or.inr (Or.inr (Or.inl h1))
  · exact Or.inr (Or.inr (Or.inr (Or.inl h1)))
  · exact Or.inr (Or.inr (Or.inr (Or.inr h1)))

/-- Back-pressure (C17) and saturation (C11) as a stuck-state characterisation: if a `Do` is blocked in `push` in a
stuck reachable configuration, then the pool has not been stopped, the queue is full, neither the pool context nor the
task context is done, no spawned goroutine is pending, every live fixed worker and every live expanded worker is
inside an unreleased executor, and either the pool was never started (no fixed worker exists) or ALL `NumberWorker`
fixed workers are inside unreleased executors.  (The number of expanded workers may be below `ExpandableLimit`: see
`blocked_do_limit_not_exhausted`.) -/
theorem blocked_do_backpressure (c : Config (M P)) (h : Reach (M P) c) (hs : Stuck c) (t : Tid) (u : Nat)
    (hl : c.l t = .push u) :
    c.g.state ≠ 2 ∧ c.g.q.length = 1 ∧ c.g.ctxDone = false ∧ taskCtxDone c.g u = false ∧ c.g.closed = false ∧
    c.g.spawnFixed = 0 ∧ c.g.spawnExp = 0 ∧
    (∀ t', fixedLive (c.l t') = true → ∃ v, c.l t' = .wexec v ∧ (c.g.task v).released = false) ∧
    (∀ t', expPre (c.l t') = true → ∃ v, c.l t' = .eexec v ∧ (c.g.task v).released = false) ∧
    ((c.g.state = 0 ∧ ∀ t', fixedLive (c.l t') = false) ∨ (c.g.state = 1 ∧ Counts isWexec c.l P.nworker)) := by
  have hx := xinv_reach P c h
  have h2 : c.g.state ≠ 2 := by
    intro h2
    rcases stuck_stopped_threads hx hs h2 t with h1 | h1 | h1 | ⟨v, h1 | h1, _⟩ <;> rw [hl] at h1 <;> cases h1
  exact ⟨h2, stuck_push hx hs h2 t u hl⟩

/-- Both cases together: where a thread can be in ANY stuck reachable configuration.  The only calls that can be in
progress are the winning `Stop` in `wg.Wait()` and (before `Stop`) a `Do` parked in `push`. -/
theorem stuck_threads (c : Config (M P)) (h : Reach (M P) c) (hs : Stuck c) (t : Tid) :
    atRest (c.l t) ∨ inUnreleasedExec c t ∨ (c.g.state = 2 ∧ c.l t = .sp4) ∨
    (c.g.state ≠ 2 ∧ (c.l t = .w0 ∨ (∃ dl, c.l t = .e0 dl ∧ c.g.now < dl) ∨ ∃ u, c.l t = .push u)) := by
  by_cases h2 : c.g.state = 2
  · rcases (stuck_after_stop c h hs h2).1 t with h1 | h1 | h1
    · exact Or.inl h1
    · exact Or.inr (Or.inr (Or.inl ⟨h2, h1⟩))
    · exact Or.inr (Or.inl h1)
  · rcases (stuck_before_stop c h hs h2).2.2.2.2.2 t with h1 | h1 | ⟨dl, h1, _, h3⟩ | h1 | ⟨u, h1, _⟩
    · exact Or.inl h1
    · exact Or.inr (Or.inr (Or.inr ⟨h2, Or.inl h1.1⟩))
    · exact Or.inr (Or.inr (Or.inr ⟨h2, Or.inr (Or.inl ⟨dl, h1, h3⟩)⟩))
    · exact Or.inr (Or.inl h1)
    · exact Or.inr (Or.inr (Or.inr ⟨h2, Or.inr (Or.inr ⟨u, h1⟩)⟩))

def inStart : L → Bool
  | .st0 | .st0c | .st1 | .st2 => true
  | _ => false

/-- a `Stop` call that is not (or not yet) the winner of the state CAS -/
def inStopCas : L → Bool
  | .sp0 | .sp1 => true
  | _ => false

/-- `TryDo`, `Start` and a `Stop` that loses the CAS never hang: in a stuck reachable configuration no thread is inside
one of them.  (C17 "`TryDo` never blocks", C08 "further `Stop`/`Start` calls are no-ops that return".) -/
theorem trydo_start_stop_never_hang (c : Config (M P)) (h : Reach (M P) c) (hs : Stuck c) (t : Tid) :
    inTry (c.l t) = false ∧ inStart (c.l t) = false ∧ inStopCas (c.l t) = false := by
  have hb := stuck_blocked (pinv_reach P c h) hs t
  have hn := nobody_waits_for_lock c h hs t
  cases hl : c.l t <;> rw [hl] at hb <;> simp [blockedAt, inTry, inStart, inStopCas] at hb ⊢
  exact hn.2.1 hl

/-! ## 3. No internal livelock -/

/-- Bounded internal work: from a reachable configuration with `k` threads that are not idle, every sequence of internal
steps (no new calls, no `finish`, no cancellation, no passing of time) has length at most
`(3·NumberWorker + 14)·k + 3·|queue| + 3·spawnFixed + 4·spawnExp`.  (`Garr.Pool.Progress.rank` is the ranking function: each
call is a straight-line program, the drain loop and the worker loops consume queued tasks, tasks enter the queue only
from submitters, each at most once.) -/
theorem internal_steps_bounded (c : Config (M P)) (h : Reach (M P) c) (k : Nat) (hk : Counts nonIdle c.l k)
    (n : Nat) (c' : Config (M P)) (hrun : ISteps P n c c') :
    n ≤ (3 * P.nworker + 14) * k + 3 * c.g.q.length + 3 * c.g.spawnFixed + 4 * c.g.spawnExp := by
  obtain ⟨N, hN⟩ := (xinv_reach P c h).sup
  obtain ⟨N', _, hle⟩ := isteps_pot hN hrun
  have := pot_le_counts hk N
  unfold gpot at this
  omega

/-- the same with the exact potential (`pot` = sum of the ranks of the threads below `N` + `gpot`): it decreases by at
least one with every internal step -/
theorem internal_steps_potential (c : Config (M P)) (N : Nat) (hN : Support N c.l) (n : Nat) (c' : Config (M P))
    (hrun : ISteps P n c c') : ∃ N', Support N' c'.l ∧ n + pot P N' c' ≤ pot P N c :=
  isteps_pot hN hrun

/-- every reachable configuration has only finitely many threads that are not idle -/
theorem finitely_many_threads (c : Config (M P)) (h : Reach (M P) c) : ∃ k, Counts nonIdle c.l k := by
  obtain ⟨N, hN⟩ := (xinv_reach P c h).sup
  refine ⟨_, ((List.range N).filter (fun t => nonIdle (c.l t))), List.nodup_range.filter _, rfl, fun t => ?_⟩
  simp only [List.mem_filter, List.mem_range]
  constructor
  · exact fun h => h.2
  · intro ht
    refine ⟨?_, ht⟩
    rcases Nat.lt_or_ge t N with h1 | h1
    · exact h1
    · rw [hN t h1] at ht; cases ht

/-- from every reachable configuration a stuck configuration is reachable by internal steps alone (within the bound of
`internal_steps_bounded`); since internal runs are bounded, every maximal internal run ends in a stuck configuration -/
theorem stuck_reachable (c : Config (M P)) (h : Reach (M P) c) :
    ∃ n c', ISteps P n c c' ∧ Stuck c' ∧ Reach (M P) c' ∧
      ∀ k, Counts nonIdle c.l k →
        n ≤ (3 * P.nworker + 14) * k + 3 * c.g.q.length + 3 * c.g.spawnFixed + 4 * c.g.spawnExp := by
  obtain ⟨N, hN⟩ := (xinv_reach P c h).sup
  obtain ⟨n, c', hrun, hstuck⟩ := exists_stuck c N hN
  exact ⟨n, c', hrun, hstuck, hrun.steps.reach h, fun k hk => internal_steps_bounded c h k hk n c' hrun⟩

/-- an internal run that cannot be extended ends in a stuck configuration (by definition), and a run that is as long
as the bound cannot be extended -/
theorem maximal_run_stuck (c : Config (M P)) (h : Reach (M P) c) (k : Nat) (hk : Counts nonIdle c.l k)
    (n : Nat) (c' : Config (M P)) (hrun : ISteps P n c c')
    (hn : n = (3 * P.nworker + 14) * k + 3 * c.g.q.length + 3 * c.g.spawnFixed + 4 * c.g.spawnExp) : Stuck c' := by
  intro t a ha
  cases hstep : step P t c'.g (c'.l t) a with
  | none => rfl
  | some r =>
    obtain ⟨g', l', obs⟩ := r
    have hstep' : (M P).step t c'.g (c'.l t) a = some (g', l', obs) := hstep
    have := internal_steps_bounded c h k hk (n + 1) _ (ISteps.step hrun ha hstep')
    omega

/-! ## `Stop` never hangs, `Do` never hangs -/

/-- C08/C12, termination of `Stop`: take a reachable configuration in which a `Stop` call is under way (thread `t` is at
one of its two CASes) or has already won the CAS, and in which every task submitted so far has been released by the
harness.  Then, whatever the pool does on its own: (1) it does so for a bounded number of steps and can always reach
a stuck configuration, and (2) in EVERY stuck configuration it reaches, every thread is at rest — `Stop` has
returned, every `Do`/`TryDo`/`Start` has returned, every worker has exited — and every accepted task has exactly one
result. -/
theorem stop_never_hangs (c : Config (M P)) (h : Reach (M P) c) (t : Tid)
    (hcall : c.g.state = 2 ∨ c.l t = .sp0 ∨ c.l t = .sp1)
    (hrel : ∀ u, u < c.g.tasks.length → (c.g.task u).released = true) :
    (∃ n c', ISteps P n c c' ∧ Stuck c') ∧
    ∀ n c', ISteps P n c c' → Stuck c' →
      (∀ t, atRest (c'.l t)) ∧ stopReturned c' ∧
      (∀ u, (c'.g.task u).enq = true → (c'.g.task u).results.length = 1) ∧
      c'.g.wg = 0 ∧ c'.g.q = [] ∧ c'.g.closed = true := by
  refine ⟨?_, fun n c' hrun hstuck => ?_⟩
  · obtain ⟨n, c', h1, h2, _⟩ := stuck_reachable c h
    exact ⟨n, c', h1, h2⟩
  · have hr' : Reach (M P) c' := hrun.steps.reach h
    have hp' := pinv_reach P c' hr'
    have hcalled : StopCalled c' t := StopCalled.steps h hcall hrun.steps
    have h2 : c'.g.state = 2 := hcalled.stuck hp' hstuck
    obtain ⟨hlen, hsame⟩ := isteps_released hrun
    have hrel' : ∀ t u, c'.l t = .wexec u ∨ c'.l t = .eexec u → (c'.g.task u).released = true := by
      intro t u hl
      have hrole : role (c'.l t) = some (.run, u) := by rcases hl with hl | hl <;> rw [hl] <;> rfl
      have hu := (hp'.task.ok u).len (Or.inr ⟨t, _, hrole⟩)
      rw [hsame u]
      exact hrel u (by omega)
    obtain ⟨a1, a2, a3, a4, a5, a6, _⟩ := no_deadlock_after_stop c' hr' hstuck h2 hrel'
    exact ⟨a1, a2, a3, a4, a5, a6⟩

/-- C08, `Stop` never hangs, in general: follow ANY execution (internal steps, further calls, `finish`, cancellation,
time) from a `Stop` call to a stuck configuration in which no worker sits in an unreleased executor.  There every
thread is at rest: the `Stop` call has returned (so the premise of `stop_drains` is always eventually met), every other
call has returned, every worker has exited, every accepted task has exactly one result. -/
theorem stop_returns (c : Config (M P)) (h : Reach (M P) c) (t : Tid)
    (hcall : c.g.state = 2 ∨ c.l t = .sp0 ∨ c.l t = .sp1) (c' : Config (M P)) (hsteps : Steps (M P) c c')
    (hstuck : Stuck c')
    (hrel : ∀ t u, c'.l t = .wexec u ∨ c'.l t = .eexec u → (c'.g.task u).released = true) :
    (∀ t, atRest (c'.l t)) ∧ stopReturned c' ∧
    (∀ u, (c'.g.task u).enq = true → (c'.g.task u).results.length = 1) ∧
    c'.g.wg = 0 ∧ c'.g.q = [] ∧ c'.g.closed = true := by
  have h2 := stuck_after_stop_call c h t hcall c' hsteps hstuck
  obtain ⟨a1, a2, a3, a4, a5, a6, _⟩ := no_deadlock_after_stop c' (hsteps.reach h) hstuck h2 hrel
  exact ⟨a1, a2, a3, a4, a5, a6⟩

/-- C12, outcome of a `Do(u)` call: follow the execution (ANY steps: internal ones, further calls, `finish`,
cancellation, time) from a configuration in which thread `t` is inside `Do(u)` to a stuck configuration.  There, either
task `u` has exactly one result; or it has been accepted and is waiting in the queue or inside an unreleased executor;
or the call is still parked in `push` — which happens only if the pool has not been stopped (back-pressure, see
`blocked_do_backpressure`).  The call is never blocked on `submitLock`, and never parked once `Stop` has won its CAS. -/
theorem do_outcome (c : Config (M P)) (h : Reach (M P) c) (t : Tid) (u : Nat) (hdo : inDo u (c.l t) = true)
    (c' : Config (M P)) (hsteps : Steps (M P) c c') (hstuck : Stuck c') :
    (c'.g.task u).results.length = 1 ∨
    ((c'.g.task u).enq = true ∧ (c'.g.task u).results = [] ∧
      (u ∈ c'.g.q ∨ ∃ t', (c'.l t' = .wexec u ∨ c'.l t' = .eexec u) ∧ (c'.g.task u).released = false)) ∨
    (c'.l t = .push u ∧ c'.g.state ≠ 2) := by
  have hr' : Reach (M P) c' := hsteps.reach h
  have hx' := xinv_reach P c' hr'
  have hp' := hx'.pinv
  have hB := stuck_blocked hp' hstuck
  have hone : (c'.g.task u).results ≠ [] → (c'.g.task u).results.length = 1 := by
    intro hne
    have := result_at_most_once c' hr' u
    cases hres : (c'.g.task u).results with
    | nil => exact absurd hres hne
    | cons a as => rw [hres] at this; simp at this ⊢; exact this
  rcases DoAnswered.steps h (Or.inl hdo) hsteps with hin | he | hne
  · right; right
    have hb := hB t
    have hlock : c'.g.writer = false ∧ c'.g.wpending = false := by
      by_cases h2 : c'.g.state = 2
      · obtain ⟨_, _, hw, hwp⟩ := stuck_stopped_globals hx' hstuck h2
        exact ⟨hw, hwp⟩
      · obtain ⟨_, hw, hwp, _⟩ := running_globals hp' h2
        exact ⟨hw, hwp⟩
    cases hl : c'.l t <;> rw [hl] at hin hb <;> simp [inDo, blockedAt, hlock.1, hlock.2] at hin hb
    subst hin
    exact ⟨rfl, (blocked_do_backpressure c' hr' hstuck t _ hl).1⟩
  · by_cases hres : (c'.g.task u).results = []
    · right; left
      refine ⟨he, hres, ?_⟩
      rcases (hp'.task.ok u).located he with h1 | ⟨t', h1⟩ | ⟨t', h1⟩ | h1
      · exact Or.inl h1
      · right
        have hb := hB t'
        cases hl : c'.l t' <;> rw [hl] at h1 hb <;> simp [role, blockedAt] at h1 hb
        · subst h1; exact ⟨t', Or.inl hl, hb⟩
        · subst h1; exact ⟨t', Or.inr hl, hb⟩
      · exfalso
        have hb := hB t'
        cases hl : c'.l t' <;> rw [hl] at h1 hb <;> simp [role, blockedAt] at h1 hb
      · exact absurd hres h1
    · exact Or.inl (hone hres)
  · exact Or.inl (hone hne)

/-- C12, "never hangs": a `Do(u)` call made before, concurrently with or after `Stop` (or before a deferred `Start`).
In every stuck configuration of the stopped pool that the execution reaches, with no worker inside an unreleased
executor, the call has returned (every thread is at rest) and the waiter on the task's result channel has been
released: the task has exactly one result. -/
theorem do_never_hangs (c : Config (M P)) (h : Reach (M P) c) (t : Tid) (u : Nat) (hdo : inDo u (c.l t) = true)
    (c' : Config (M P)) (hsteps : Steps (M P) c c') (hstuck : Stuck c') (h2 : c'.g.state = 2)
    (hrel : ∀ t v, c'.l t = .wexec v ∨ c'.l t = .eexec v → (c'.g.task v).released = true) :
    (c'.g.task u).results.length = 1 ∧ ∀ t, atRest (c'.l t) := by
  have hr' : Reach (M P) c' := hsteps.reach h
  obtain ⟨hrest, _, _, _, hq, _⟩ := no_deadlock_after_stop c' hr' hstuck h2 hrel
  refine ⟨?_, hrest⟩
  rcases do_outcome c h t u hdo c' hsteps hstuck with h1 | ⟨_, _, h1 | ⟨t', h1, _⟩⟩ | ⟨_, h1⟩
  · exact h1
  · rw [hq] at h1; cases h1
  · rcases hrest t' with h3 | h3 <;> rcases h1 with h1 | h1 <;> rw [h1] at h3 <;> cases h3
  · exact absurd h2 h1

/-! ## 4. Non-vacuity: kernel-checked runs -/

/-- (a) `Do(task 0)` is accepted into the buffer of a pool that was never started; `Do(task 1)` finds the queue full and
parks in `push`, holding the read side of `submitLock`; then `Stop`.  `Stop` cancels the context first, announces itself
as a writer and has to wait for the reader; the parked `Do` sees `ctx.Done()`, answers its task and releases the lock;
`Stop` closes the queue, passes `wg.Wait()`, drains task 0 and returns. -/
def parkedTrace : List (Tid × Act) :=
  [ (1, .callDo .never), (1, .tau), (1, .tau), (1, .choose 2), (1, .tau),   -- Do(task 0): buffered, returns
    (2, .callDo .never), (2, .tau), (2, .tau),                               -- Do(task 1): RLock, not stopped, parked in push
    (0, .callStop), (0, .tau), (0, .tau), (0, .tau),                         -- Stop: CAS 0→2, cancel(), Lock: writer pending
    (0, .tau),                                                               -- (disabled, skipped: Stop waits for the reader)
    (2, .choose 0), (2, .tau),                                               -- the parked Do sees ctx.Done(), answers task 1, RUnlock
    (0, .tau), (0, .tau), (0, .tau), (0, .tau),                              -- Stop: Lock acquired, close, Unlock, wg.Wait() (no workers)
    (0, .tau), (0, .tau), (0, .tau) ]                                        -- Stop: drains task 0, answers it, returns

def logOf (P : Params) (r : Config (M P) × List (Tid × (M P).Obs)) : List (Tid × Obs) := r.2

def parkedFinal : Config (M P10) := (run (M P10) (Config.init (M P10)) parkedTrace).1

theorem parkedFinal_support : Support 3 parkedFinal.l :=
  run_support (M P10) parkedTrace 3 _ (fun _ _ => rfl) (by decide)

def parkedEarly : Config (M P10) := (run (M P10) (Config.init (M P10)) (parkedTrace.take 8)).1

theorem parkedEarly_support : Support 3 parkedEarly.l :=
  run_support (M P10) (parkedTrace.take 8) 3 _ (fun _ _ => rfl) (by decide)

/-- before `Stop` is called (after 8 events) the configuration is stuck as well: the `Do` is parked in `push` because
the queue is full and the pool was never started (the `state = 0` case of `blocked_do_backpressure`) -/
theorem parked_do_before_stop :
    Reach (M P10) parkedEarly ∧ Stuck parkedEarly ∧ lOf P10 parkedEarly 2 = .push 1 ∧
    (gOf P10 parkedEarly).state = 0 ∧ (gOf P10 parkedEarly).q = [0] ∧ (gOf P10 parkedEarly).readers = 1 := by
  refine ⟨reach_run (M P10) _ Reach.init _, ?_, by decide, by decide, by decide, by decide⟩
  refine blocked_stuck ?_
  exact forall_threads (ls := lOf P10 parkedEarly) parkedEarly_support
    (fun l => blockedAt (gOf P10 parkedEarly) l = true) (by decide) (by decide)

/-- the configuration in the middle of `parkedTrace` (after 12 events): the `Do` is parked holding the read lock, `Stop`
has cancelled and is waiting for the write lock -/
theorem parked_do_midpoint :
    let c := (run (M P10) (Config.init (M P10)) (parkedTrace.take 12)).1
    lOf P10 c 2 = .push 1 ∧ lOf P10 c 0 = .sp3b ∧ (gOf P10 c).readers = 1 ∧ (gOf P10 c).wpending = true ∧
    (gOf P10 c).ctxDone = true ∧ (gOf P10 c).q = [0] ∧ (gOf P10 c).state = 2 := by
  decide

/-- … and the end of the run: a stuck configuration, reachable, in which everybody is at rest, `Stop` and both `Do`s have
returned, and both tasks have exactly one (error) result, neither was executed -/
theorem parked_do_released_by_stop :
    Reach (M P10) parkedFinal ∧ Stuck parkedFinal ∧ (∀ t, atRest (parkedFinal.l t)) ∧
    (gOf P10 parkedFinal).state = 2 ∧
    ((gOf P10 parkedFinal).task 0).results = [.errPool] ∧ ((gOf P10 parkedFinal).task 0).exec = 0 ∧
    ((gOf P10 parkedFinal).task 1).results = [.errPool] ∧ ((gOf P10 parkedFinal).task 1).exec = 0 ∧
    logOf P10 (run (M P10) (Config.init (M P10)) parkedTrace) = [(1, .retDo 0), (2, .retDo 1), (0, .retStop)] := by
  have hidle : ∀ t, lOf P10 parkedFinal t = .idle :=
    forall_threads (ls := lOf P10 parkedFinal) parkedFinal_support (fun l => l = .idle) rfl (by decide)
  refine ⟨reach_run (M P10) _ Reach.init _, ?_, fun t => Or.inl (hidle t), by decide, by decide, by decide, by decide,
    by decide, by decide⟩
  refine blocked_stuck (fun t => ?_)
  show blockedAt (gOf P10 parkedFinal) (lOf P10 parkedFinal t) = true
  rw [hidle t]
  decide

/-! ### (b) The seeded bug: `Stop` takes the write lock before cancelling the context

`stepBadCore` is `Garr.Pool.step` with the two `Stop` steps swapped: CAS; `submitLock.Lock()` (`sp2`, `sp3a`); `cancel()`
(`sp3b`); close; unlock; `wg.Wait()`; drain.  Everything else is copied verbatim. -/

def stepBadCore (P : Params) (g : G) : L → Act → Option (G × L × List Obs)
  | .idle, .callDo c => some (newTask g c, .d1 g.tasks.length, [])
  | .idle, .callTry c => some (newTask g c, .t1 g.tasks.length, [])
  | .idle, .callStart => some (g, .st0, [])
  | .idle, .callStop => some (g, .sp0, [])
  | .idle, .beFixed => if 0 < g.spawnFixed then some ({ g with spawnFixed := g.spawnFixed - 1 }, .w0, []) else none
  | .idle, .beExp => if 0 < g.spawnExp then some ({ g with spawnExp := g.spawnExp - 1 }, .e0 (g.now + P.lifetime), []) else none
  | .idle, .cancelTask u => some (g.setTask u { g.task u with tdone := true }, .idle, [])
  | .idle, .cancelParent => some ({ g with ctxDone := true }, .idle, [])
  | .idle, .advance d => some ({ g with now := g.now + d }, .idle, [])
  | .idle, .finish u => if (g.task u).released then none else some (g.setTask u { g.task u with released := true }, .idle, [])
  -- Do
  | .d1 u, .tau => if g.writer || g.wpending then none else some ({ g with readers := g.readers + 1 }, .d2 u, [])
  | .d2 u, .tau =>
      if g.state = 2 then some (g, .d3 u, [])
      else if P.limit = 0 then some (g, .push u, []) else some (g, .dsel u, [])
  | .d3 u, .tau => (sendRes g u .errPool).map (·, .d9 u, [])
  | .dsel u, .tau =>
      if g.closed then some ({ g with panics := g.panics + 1 }, .panicked, [])
      else if g.q.length < 1 then some (enqueue g u, .d9 u, [])
      else some (g, .dres u, [])
  | .dres u, .tau =>
      let g' := { g with expanded := g.expanded + 1 }
      if g'.expanded ≤ (P.limit : Int) then some (g', .dspawn u, []) else some (g', .dundo u, [])
  | .dspawn u, .tau => some ({ g with wg := g.wg + 1, spawnExp := g.spawnExp + 1 }, .push u, [])
  | .dundo u, .tau => some ({ g with expanded := g.expanded - 1 }, .push u, [])
  | .push u, .choose k =>
      match selCase g u k with
      | some (g', true) => some (g', .panicked, [])
      | some (g', false) => some (g', .d9 u, [])
      | none => none
  | .d9 u, .tau => some ({ g with readers := g.readers - 1 }, .idle, [.retDo u])
  -- TryDo
  | .t1 u, .tau =>
      if g.writer || g.wpending then some (g, .t3 u false, []) else some ({ g with readers := g.readers + 1 }, .t2 u, [])
  | .t2 u, .tau => if g.state = 2 then some (g, .t3 u true, []) else some (g, .tsel u, [])
  | .t3 u locked, .tau =>
      (sendRes g u .errPool).map (fun g' => (g', if locked then .t9 u false else .idle, if locked then [] else [.retTry u false]))
  | .tsel u, .choose k =>
      if k = 3 then
        if (selCase g u 0).isNone && (selCase g u 1).isNone && (selCase g u 2).isNone
        then some (g, .t9 u false, []) else none
      else match selCase g u k with
        | some (g', true) => some (g', .panicked, [])
        | some (g', false) => some (g', .t9 u (k == 2), [])
        | none => none
  | .t9 u r, .tau => some ({ g with readers := g.readers - 1 }, .idle, [.retTry u r])
  -- fixed worker
  | .w0, .tau =>
      match g.q with
      | u :: rest => some (runTask g u rest, .wexec u, [.execStart u])
      | [] => if g.closed then some ({ g with wg := g.wg - 1 }, .wdone, []) else none
  | .wexec u, .tau => if (g.task u).released then some (g, .wsend u, []) else none
  | .wsend u, .tau => (sendRes g u .val).map (·, .w0, [])
  | .wdone, .tau => some (g, .exited, [])
  -- expanded worker
  | .e0 dl, .choose k =>
      if k = 0 then
        match g.q with
        | u :: rest => some (runTask g u rest, .eexec u, [.execStart u])
        | [] => if g.closed then some (g, .eexit, []) else none
      else if k = 1 then (if dl ≤ g.now then some (g, .eexit, []) else none)
      else none
  | .eexec u, .tau => if (g.task u).released then some (g, .esend u, []) else none
  | .esend u, .tau => (sendRes g u .val).map (·, .e0 (g.now + P.lifetime), [])
  | .eexit, .tau => some ({ g with wg := g.wg - 1 }, .eexit2, [])
  | .eexit2, .tau => some ({ g with expanded := g.expanded - 1 }, .exited, [])
  -- Start
  | .st0, .tau => if g.writer || g.wpending then none else some ({ g with readers := g.readers + 1 }, .st0c, [])
  | .st0c, .tau =>
      if g.state = 0 then some ({ g with state := 1 }, .st1, []) else some (g, .st2, [])
  | .st1, .tau => some ({ g with wg := g.wg + P.nworker, spawnFixed := g.spawnFixed + P.nworker }, .st2, [])
  | .st2, .tau => some ({ g with readers := g.readers - 1 }, .idle, [.retStart])
  -- Stop, with `Lock()` BEFORE `cancel()`
  | .sp0, .tau => if g.state = 0 then some ({ g with state := 2 }, .sp2, []) else some (g, .sp1, [])
  | .sp1, .tau => if g.state = 1 then some ({ g with state := 2 }, .sp2, []) else some (g, .idle, [.retStop])
  | .sp2, .tau => if g.writer || g.wpending then none else some ({ g with wpending := true }, .sp3a, [])      -- Lock (1)
  | .sp3a, .tau => if g.readers = 0 then some ({ g with wpending := false, writer := true }, .sp3b, []) else none  -- Lock (2)
  | .sp3b, .tau => some ({ g with ctxDone := true }, .sp3c, [])                                                -- cancel()
  | .sp3c, .tau => if g.closed then some ({ g with panics := g.panics + 1 }, .panicked, []) else some ({ g with closed := true }, .sp3d, [])
  | .sp3d, .tau => some ({ g with writer := false }, .sp4, [])
  | .sp4, .tau => if g.wg = 0 then some (g, .sp5, []) else none
  | .sp5, .tau =>
      match g.q with
      | u :: rest => some ({ g with q := rest }, .sp5s u, [])
      | [] => some (g, .idle, [.retStop])
  | .sp5s u, .tau => (sendRes g u .errPool).map (·, .sp5, [])
  | _, _ => none

def stepBad (P : Params) (_t : Tid) (g : G) (l : L) (a : Act) : Option (G × L × List Obs) := stepBadCore P g l a

def MBad (P : Params) : Machine where
  G := G
  L := L
  Act := Act
  Obs := Obs
  init := {}
  idle := .idle
  step := stepBad P

theorem selCase_ge (g : G) (u k : Nat) (hk : 3 ≤ k) : selCase g u k = none := by
  match k with
  | 0 | 1 | 2 => omega
  | k + 3 => rfl

theorem stepBad_choose_ge (P : Params) (g : G) (l : L) (k : Nat) (hk : 4 ≤ k) :
    stepBad P 0 g l (.choose k) = none := by
  have h3 : ¬ k = 3 := by omega
  have h0 : ¬ k = 0 := by omega
  have h1 : ¬ k = 1 := by omega
  cases l <;> simp [stepBad, stepBadCore, selCase_ge g _ k (by omega), h3, h0, h1]

def lOfB (P : Params) (c : Config (MBad P)) (t : Tid) : L := c.l t
def gOfB (P : Params) (c : Config (MBad P)) : G := c.g

/-- the interleaving of `parkedTrace` up to the point where `Stop` asks for the lock -/
def deadlockTrace : List (Tid × Act) :=
  [ (1, .callDo .never), (1, .tau), (1, .tau), (1, .choose 2), (1, .tau),   -- Do(task 0): buffered, returns
    (2, .callDo .never), (2, .tau), (2, .tau),                               -- Do(task 1): RLock, not stopped, parked in push
    (0, .callStop), (0, .tau), (0, .tau) ]                                   -- Stop: CAS 0→2, Lock: writer pending, waits for the reader

def deadlockFinal : Config (MBad P10) := (run (MBad P10) (Config.init (MBad P10)) deadlockTrace).1

theorem deadlockFinal_support : Support 3 (lOfB P10 deadlockFinal) :=
  run_support (MBad P10) deadlockTrace 3 _ (fun _ _ => rfl) (by decide)

/-- (b) On the variant in which `Stop` takes the write lock before it cancels the context, the same interleaving ends in
a stuck configuration of a stopped pool (`state = 2`) in which the `Do` is parked in `push` — holding the read lock,
with nobody to drain the queue and the context not cancelled — and `Stop` waits for the write lock: a deadlock.  No
environment action other than cancelling the parent context can ever release them.  `stuck_after_stop` proves that
this cannot happen in `Garr.Pool.M P`. -/
theorem lock_before_cancel_deadlocks :
    Reach (MBad P10) deadlockFinal ∧
    StuckStep (stepBad P10) (gOfB P10 deadlockFinal) (lOfB P10 deadlockFinal) ∧
    (gOfB P10 deadlockFinal).state = 2 ∧
    lOfB P10 deadlockFinal 2 = .push 1 ∧ lOfB P10 deadlockFinal 0 = .sp3a ∧
    (gOfB P10 deadlockFinal).readers = 1 ∧ (gOfB P10 deadlockFinal).wpending = true ∧
    (gOfB P10 deadlockFinal).ctxDone = false ∧ (gOfB P10 deadlockFinal).q = [0] ∧
    ((gOfB P10 deadlockFinal).task 0).results = [] ∧ ((gOfB P10 deadlockFinal).task 1).results = [] := by
  refine ⟨reach_run (MBad P10) _ Reach.init _, ?_, by decide, by decide, by decide, by decide, by decide, by decide,
    by decide, by decide, by decide⟩
  refine stuck_of_local (fun _ _ _ _ => rfl) (stepBad_choose_ge P10) ?_
  exact forall_threads deadlockFinal_support
    (fun l => localStuck (stepBad P10) (gOfB P10 deadlockFinal) l = true) (by decide) (by decide)

/-! ### The expansion limit need not be exhausted when a `Do` is blocked

1 fixed + 1 expandable worker.  The fixed worker runs task 0 (not released), task 1 is queued, `Do(task 2)` finds the
queue full, spawns the expanded worker and parks in `push`.  Time passes; the expanded worker's `select` has both cases
ready (a queued task, the expired timer) and Go picks one at random: the timer.  The worker leaves.  The `Do` stays
parked although no expanded worker exists and `expanded = 0 < ExpandableLimit`. -/

def PX : Params := { nworker := 1, limit := 1, lifetime := 1 }

def expiryTrace : List (Tid × Act) :=
  [ (0, .callStart), (0, .tau), (0, .tau), (0, .tau), (0, .tau),            -- Start
    (1, .beFixed),
    (2, .callDo .never), (2, .tau), (2, .tau), (2, .tau), (2, .tau),        -- task 0 queued
    (1, .tau),                                                              -- the fixed worker runs task 0
    (2, .callDo .never), (2, .tau), (2, .tau), (2, .tau), (2, .tau),        -- task 1 queued
    (3, .callDo .never), (3, .tau), (3, .tau), (3, .tau),                   -- task 2: queue full → reserve
    (3, .tau), (3, .tau),                                                   -- reservation within the limit → spawn, park in push
    (4, .beExp),                                                            -- the expanded worker starts, deadline 1
    (5, .advance 1),                                                        -- time passes
    (4, .choose 1), (4, .tau), (4, .tau) ]                                  -- the timer case is chosen: wg.Done, expanded-1, gone

def expiryFinal : Config (M PX) := (run (M PX) (Config.init (M PX)) expiryTrace).1

theorem expiryFinal_support : Support 6 expiryFinal.l :=
  run_support (M PX) expiryTrace 6 _ (fun _ _ => rfl) (by decide)

theorem blocked_do_limit_not_exhausted :
    Reach (M PX) expiryFinal ∧ Stuck expiryFinal ∧
    lOf PX expiryFinal 3 = .push 2 ∧ lOf PX expiryFinal 1 = .wexec 0 ∧ lOf PX expiryFinal 4 = .exited ∧
    (gOf PX expiryFinal).q = [1] ∧ (gOf PX expiryFinal).state = 1 ∧ (gOf PX expiryFinal).expanded = 0 ∧
    (∀ t, expPre (expiryFinal.l t) = false) := by
  refine ⟨reach_run (M PX) _ Reach.init _, ?_, by decide, by decide, by decide, by decide, by decide, by decide, ?_⟩
  · refine blocked_stuck ?_
    exact forall_threads (ls := lOf PX expiryFinal) expiryFinal_support
      (fun l => blockedAt (gOf PX expiryFinal) l = true) (by decide) (by decide)
  · exact forall_threads (ls := lOf PX expiryFinal) expiryFinal_support (fun l => expPre l = false) rfl (by decide)

end Garr.Props.PoolProgress

#print axioms Garr.Props.PoolProgress.stuck_iff
#print axioms Garr.Props.PoolProgress.stuck_after_stop
#print axioms Garr.Props.PoolProgress.no_deadlock_after_stop
#print axioms Garr.Props.PoolProgress.stuck_after_stop_call
#print axioms Garr.Props.PoolProgress.readers_enabled_while_stop_waits
#print axioms Garr.Props.PoolProgress.nobody_waits_for_lock
#print axioms Garr.Props.PoolProgress.stuck_before_stop
#print axioms Garr.Props.PoolProgress.stuck_threads
#print axioms Garr.Props.PoolProgress.trydo_start_stop_never_hang
#print axioms Garr.Props.PoolProgress.stop_returns
#print axioms Garr.Props.PoolProgress.blocked_do_backpressure
#print axioms Garr.Props.PoolProgress.internal_steps_bounded
#print axioms Garr.Props.PoolProgress.internal_steps_potential
#print axioms Garr.Props.PoolProgress.finitely_many_threads
#print axioms Garr.Props.PoolProgress.stuck_reachable
#print axioms Garr.Props.PoolProgress.maximal_run_stuck
#print axioms Garr.Props.PoolProgress.stop_never_hangs
#print axioms Garr.Props.PoolProgress.do_outcome
#print axioms Garr.Props.PoolProgress.do_never_hangs
#print axioms Garr.Props.PoolProgress.parked_do_before_stop
#print axioms Garr.Props.PoolProgress.parked_do_midpoint
#print axioms Garr.Props.PoolProgress.parked_do_released_by_stop
#print axioms Garr.Props.PoolProgress.lock_before_cancel_deadlocks
#print axioms Garr.Props.PoolProgress.blocked_do_limit_not_exhausted
