import Garr.Adder.UnitSum
/-!
# C09 (unit increments) — a concurrent `Sum` of the striped adder is linearizable as an atomic read

The breaker models (`Garr/Breaker/Conc.lean`, `Garr/Breaker/Fine.lean`) treat the two counters of a bucket as
atomic numbers, arguing that "the buckets receive unit increments only; for those a striped `Sum` is
equivalent to an atomic read, because the exact total passes through every integer between the bounds".
This file states that argument as theorems about the runs of the pc-level model `M intAlg mc` of the striped
`JDKAdder` (`Garr/Adder/Model.lean`).  Property theorems only; definitions and proofs live in
`Garr/Adder/UnitSum.lean` (on top of `Garr/Adder/SumBounds.lean`).

Vocabulary (all of `Garr.Adder.UnitSum`):

* `s : List (Tid × Act)` is a schedule; `NoMaint s`: no `Store` / `Reset` / `SumAndReset` invocation (as in
  `sum_bounds_run`); `UnitOps s` / `ZeroOneOps s` / `NonNegOps s`: every `Add x` invocation of `s` has
  `x = 1` (the model's `Inc`) / `0 ≤ x ≤ 1` / `0 ≤ x`.
* *Instant `k`* is the literal run prefix `s.take k`: `cfgAt M s k` and `logAt M s k` are the configuration and
  the log of `run M (Config.init M) (s.take k)`; *position `k`* is entry `s[k]`, the step from instant `k` to
  instant `k + 1` (`cfgAt_succ_some`; disabled entries are skipped, `cfgAt_succ_none`).
* `StepAt M s k t a g' l' obs`: position `k` is `(t, a)`, it is enabled at instant `k`, and its effect is
  `(g', l', obs)`.
* `SumSpan mc s t i j r`: position `i` is `t`'s invocation of `Sum`, met while `t` is idle; `t` is inside the
  operation at every instant in `(i, j]`; position `j` is a step of `t` that emits the response
  `Obs.ret (some r)`.  `SumSpanG mc s t i j r counted must` is the same on the instrumented machine
  `MG mc`, the response carrying the `Sum` ghosts.
* The *exact abstract total* at an instant is the ghost field `G.applied` of the heap
  (`= base + Σ cells`, `conservation`; `= Σ` operands of the linearization-point markers logged so far,
  `applied_log`; under `UnitOps`, `=` the number `nLp` of those markers, `applied_unit`; on the instrumented
  machine `= tot = Σ xOf u, u ∈ lped`, `applied_eq_tot`).
* `ctrOf log`: the abstract atomic int64 counter of the breaker models (`Bucket.add`: `s := wrap64 (s + 1)`),
  replayed over a log: every marker `lp x` performs `ctr := wrap64 (ctr + x)`; `ctrOf (obsOf (logAt … k))` is
  what an atomic read of that counter returns at instant `k`.

Results: `sum_counts_between` (1), `sum_total_at_instant` (2), `sum_is_atomic_read`,
`every_sum_response_has_span`, `every_sum_response_is_atomic_read`, `every_logged_sum_is_atomic_read`,
`sum_reads_monotone`, `same_thread_sums_monotone`, `sum_counted_monotone` (3); generalisations
`nonneg_sum_between` (operands `≥ 0`: between the bounds) and `zero_one_sum_is_atomic_read` (operands in
`{0, 1}`: still an atomic read); kernel-checked runs `unit_demo` (a `Sum` overlapping two `Inc`s on different
cells returns the intermediate value; the witness instant) and `signed_demo`, `plus2_minus1_demo`,
`plus2_demo` (the hypotheses are needed).
-/
namespace Garr.Props.C09Unit
open Garr Garr.Conc Garr.Adder Garr.Adder.UnitSum

-- `(MG mc).Act` / `(M intAlg mc).Act` are `Act` (etc.) only after unfolding `MG` / `M`
set_option backward.isDefEq.respectTransparency false

variable {mc : Nat}

/-! ## 0. Instants, and the exact total at an instant -/

/-- "Instant `k`" is literally the run on the prefix `s.take k`. -/
theorem instant_is_prefix (M : Machine) (s : List (Tid × M.Act)) (k : Nat) :
    cfgAt M s k = (run M (Config.init M) (s.take k)).1 ∧ logAt M s k = (run M (Config.init M) (s.take k)).2 ∧
    (s.length ≤ k → cfgAt M s k = (run M (Config.init M) s).1 ∧ logAt M s k = (run M (Config.init M) s).2) :=
  ⟨rfl, rfl, fun h => ⟨cfgAt_length s h, logAt_length s h⟩⟩

/-- The plain and the instrumented notion of a `Sum` span agree. -/
theorem span_plain_iff_instrumented {s : List (Tid × Act)} (hm : NoMaint s) {t : Tid} {i j : Nat} {r : Int} :
    SumSpan mc s t i j r ↔ ∃ counted must, SumSpanG mc s t i j r counted must :=
  span_iff hm

/-- The exact total `applied` of instant `k` is `base + Σ cells` of that prefix (`conservation`), the sum of
    the operands of the linearization points logged so far, and what the abstract atomic counter holds
    (modulo 2^64). -/
theorem total_at_instant {s : List (Tid × Act)} (hm : NoMaint s) (k : Nat) :
    G.base (cfgAt (M intAlg mc) s k).g + tableSum (cfgAt (M intAlg mc) s k).g =
      G.applied (cfgAt (M intAlg mc) s k).g ∧
    G.applied (cfgAt (M intAlg mc) s k).g = lpSum (obsOf (logAt (M intAlg mc) s k)) ∧
    ctrOf (obsOf (logAt (M intAlg mc) s k)) = wrap64 (G.applied (cfgAt (M intAlg mc) s k).g) :=
  ⟨conserved_cfgAt s k, applied_log hm k, ctr_cfgAt hm k⟩

/-- Under unit increments the exact total is the number of updates linearized so far. -/
theorem total_is_count {s : List (Tid × Act)} (hm : NoMaint s) (hu : UnitOps s) (k : Nat) :
    G.applied (cfgAt (M intAlg mc) s k).g = (nLp (obsOf (logAt (M intAlg mc) s k)) : Int) :=
  applied_unit hm hu k

/-- On the instrumented machine: the exact total is `Σ xOf u` over the linearized updates, under unit
    increments their number; the plain run is its projection. -/
theorem total_instrumented {s : List (Tid × Act)} (hm : NoMaint s) (k : Nat) :
    projC (cfgAt (MG mc) s k) = cfgAt (M intAlg mc) s k ∧
    G.applied (cfgAt (M intAlg mc) s k).g = tot (cfgAt (MG mc) s k) ∧
    (UnitOps s → tot (cfgAt (MG mc) s k) = ((ghostOf (cfgAt (MG mc) s k)).lped.length : Int)) ∧
    (ghostOf (cfgAt (MG mc) s k)).lped.length = nLp (obsOf (logAt (M intAlg mc) s k)) := by
  refine ⟨proj_cfgAt hm k, applied_cfgAt hm k, fun hu => tot_unit hu k, ?_⟩
  rw [(tot_log s k).2, ← proj_logAt hm k, obsOf, List.map_map]; rfl

/-- One step changes the exact total by the operand of the (at most one) linearization point it emits: from
    one instant to the next the total is unchanged or grows by the operand of one allocated update. -/
theorem total_step (s : List (Tid × Act)) (k : Nat) :
    tot (cfgAt (MG mc) s (k + 1)) = tot (cfgAt (MG mc) s k) ∨
    ∃ u, u < (ghostOf (cfgAt (MG mc) s k)).nupd ∧
      tot (cfgAt (MG mc) s (k + 1)) = tot (cfgAt (MG mc) s k) + (ghostOf (cfgAt (MG mc) s k)).xOf u :=
  tot_succ s k

/-! ## 1. Between the counts -/

/-- **(1), instrumented form.**  Unit increments.  The response of a `Sum` span is `wrap64 n`, where
    `n = counted.length` satisfies
    `(number of updates linearized before position i) ≤ n ≤ (number of updates linearized before position j)`;
    `must` is the list of the former (`sum_bounds` with cardinalities). -/
theorem sum_counts_between_ghost {s : List (Tid × Act)} (hu : UnitOps s) {t : Tid} {i j : Nat} {r : Int}
    {counted must : List Nat} (h : SumSpanG mc s t i j r counted must) :
    must = (ghostOf (cfgAt (MG mc) s i)).lped ∧
    r = wrap64 (counted.length : Int) ∧
    (ghostOf (cfgAt (MG mc) s i)).lped.length ≤ counted.length ∧
    counted.length ≤ (ghostOf (cfgAt (MG mc) s j)).lped.length :=
  ⟨span_must h, sum_card hu h⟩

/-- **(1).**  Unit increments, plain machine.  The response `r` of a `Sum` invoked at position `i` and
    returning at position `j` is `wrap64 n` for some `n` with
    `(number of updates linearized before position i) ≤ n ≤ (number of updates linearized before position j)`. -/
theorem sum_counts_between {s : List (Tid × Act)} (hm : NoMaint s) (hu : UnitOps s) {t : Tid} {i j : Nat}
    {r : Int} (h : SumSpan mc s t i j r) :
    ∃ n : Nat, r = wrap64 (n : Int) ∧
      nLp (obsOf (logAt (M intAlg mc) s i)) ≤ n ∧ n ≤ nLp (obsOf (logAt (M intAlg mc) s j)) := by
  obtain ⟨n, _, h1, h2, h3, _⟩ := sum_atomic_unit hm hu h
  exact ⟨n, h1, h2, h3⟩

/-! ## 2. The instant -/

/-- **Discrete intermediate value.**  A sequence of integers that grows by at most one per step takes every
    value between an earlier and a later term. -/
theorem discrete_intermediate_value (f : Nat → Int) {i j : Nat} (hij : i ≤ j)
    (hstep : ∀ k, i ≤ k → k < j → f (k + 1) ≤ f k + 1) {n : Int} (hlo : f i ≤ n) (hhi : n ≤ f j) :
    ∃ k, i ≤ k ∧ k ≤ j ∧ f k = n :=
  discrete_ivt f hij hstep hlo hhi

/-- **(2).**  Unit increments.  With `n` as in (1), there is a position `k`, `i < k ≤ j` (so in particular
    `i ≤ k ≤ j`), such that the exact abstract total after the first `k` steps of the run -- the number of
    linearized updates, `applied`, `base + Σ cells` of the prefix `s.take k` -- equals `n`. -/
theorem sum_total_at_instant {s : List (Tid × Act)} (hm : NoMaint s) (hu : UnitOps s) {t : Tid} {i j : Nat}
    {r : Int} (h : SumSpan mc s t i j r) :
    ∃ n k : Nat, r = wrap64 (n : Int) ∧
      nLp (obsOf (logAt (M intAlg mc) s i)) ≤ n ∧ n ≤ nLp (obsOf (logAt (M intAlg mc) s j)) ∧
      i < k ∧ k ≤ j ∧
      nLp (obsOf (logAt (M intAlg mc) s k)) = n ∧
      G.applied (cfgAt (M intAlg mc) s k).g = (n : Int) ∧
      G.base (cfgAt (M intAlg mc) s k).g + tableSum (cfgAt (M intAlg mc) s k).g = (n : Int) := by
  obtain ⟨n, k, h1, h2, h3, h4, h5, h6, h7, _⟩ := sum_atomic_unit hm hu h
  exact ⟨n, k, h1, h2, h3, h4, h5, h6, h7, by rw [conserved_cfgAt, h7]⟩

/-- **(2), instrumented form**: the number of linearized updates `lped.length` at instant `k` is `n`. -/
theorem sum_total_at_instant_ghost {s : List (Tid × Act)} (hu : UnitOps s) {t : Tid} {i j : Nat} {r : Int}
    {counted must : List Nat} (h : SumSpanG mc s t i j r counted must) :
    ∃ n k : Nat, r = wrap64 (n : Int) ∧ (ghostOf (cfgAt (MG mc) s i)).lped.length ≤ n ∧
      n ≤ (ghostOf (cfgAt (MG mc) s j)).lped.length ∧
      i < k ∧ k ≤ j ∧ (ghostOf (cfgAt (MG mc) s k)).lped.length = n :=
  sum_instant_unit hu h

/-! ## 3. An atomic read; monotone reads -/

/-- **(3).**  Unit increments.  The response of a `Sum` span equals an atomic read of the abstract counter
    performed at an instant `k` between the invocation and the response: `i < k ≤ j`. -/
theorem sum_is_atomic_read {s : List (Tid × Act)} (hm : NoMaint s) (hu : UnitOps s) {t : Tid} {i j : Nat}
    {r : Int} (h : SumSpan mc s t i j r) :
    ∃ k, i < k ∧ k ≤ j ∧ r = ctrOf (obsOf (logAt (M intAlg mc) s k)) := by
  obtain ⟨_, k, _, _, _, h4, h5, _, _, h8⟩ := sum_atomic_unit hm hu h
  exact ⟨k, h4, h5, h8⟩

/-- **Coverage.**  Every value-carrying response logged at position `j` by thread `t` closes exactly one `Sum`
    span: there is a unique earlier position `i` at which `t`, idle, invoked this `Sum`. -/
theorem every_sum_response_has_span {s : List (Tid × Act)} (hm : NoMaint s) {t : Tid} {j : Nat} {r : Int}
    (h : ∃ a g' l' obs, StepAt (M intAlg mc) s j t a g' l' obs ∧ Obs.ret (some r) ∈ obs) :
    ∃ i, SumSpan mc s t i j r ∧ ∀ i' r', SumSpan mc s t i' j r' → i' = i := by
  obtain ⟨i, hi⟩ := span_exists_plain hm h
  exact ⟨i, hi, fun i' r' h' => span_unique h' hi⟩

/-- **(3), every response.**  Unit increments.  In every run (no maintenance operations), every `Sum` response
    `r`, logged at any position `j` by any thread `t`, has its invocation at a position `i < j` and equals an
    atomic read of the abstract counter at an instant `k`, `i < k ≤ j`, at which exactly `n` updates have been
    linearized, `r = wrap64 n`. -/
theorem every_sum_response_is_atomic_read {s : List (Tid × Act)} (hm : NoMaint s) (hu : UnitOps s) {t : Tid}
    {j : Nat} {r : Int}
    (h : ∃ a g' l' obs, StepAt (M intAlg mc) s j t a g' l' obs ∧ Obs.ret (some r) ∈ obs) :
    ∃ i, SumSpan mc s t i j r ∧ ∃ n k : Nat, i < k ∧ k ≤ j ∧ r = wrap64 (n : Int) ∧
      nLp (obsOf (logAt (M intAlg mc) s k)) = n ∧ G.applied (cfgAt (M intAlg mc) s k).g = (n : Int) ∧
      r = ctrOf (obsOf (logAt (M intAlg mc) s k)) := by
  obtain ⟨i, hi⟩ := span_exists_plain hm h
  obtain ⟨n, k, h1, _, _, h4, h5, h6, h7, h8⟩ := sum_atomic_unit hm hu hi
  exact ⟨i, hi, n, k, h4, h5, h1, h6, h7, h8⟩

/-- **(3), every response in the log of the run.**  Unit increments.  Every `Sum` response `(t, ret (some r))` in
    the log of the run of the plain machine on `s` was logged at some position `j` by a `Sum` invoked at some
    position `i < j`, and equals an atomic read of the abstract counter at an instant `k`, `i < k ≤ j`. -/
theorem every_logged_sum_is_atomic_read {s : List (Tid × Act)} (hm : NoMaint s) (hu : UnitOps s) {t : Tid}
    {r : Int} (h : (t, Obs.ret (some r)) ∈ (run (M intAlg mc) (Config.init (M intAlg mc)) s).2) :
    ∃ i j k, SumSpan mc s t i j r ∧ i < k ∧ k ≤ j ∧ j < s.length ∧
      r = ctrOf (obsOf (logAt (M intAlg mc) s k)) ∧
      r = wrap64 (nLp (obsOf (logAt (M intAlg mc) s k)) : Int) := by
  obtain ⟨j, a, g', l', obs, hj, hst, ho⟩ := mem_run_log (M := M intAlg mc) h
  obtain ⟨i, hi, n, k, h1, h2, h3, h4, _, h6⟩ := every_sum_response_is_atomic_read hm hu ⟨a, g', l', obs, hst, ho⟩
  exact ⟨i, j, k, hi, h1, h2, hj, h6, by rw [h4]; exact h3⟩

/-- **(3), monotone reads.**  Unit increments.  If a `Sum` returns (position `j₁`) before another is invoked
    (position `i₂`), they are atomic reads at ordered instants `k₁ < k₂`, each inside its own span, and the
    exact totals read are ordered. -/
theorem sum_reads_monotone {s : List (Tid × Act)} (hm : NoMaint s) (hu : UnitOps s)
    {t1 t2 : Tid} {i1 j1 i2 j2 : Nat} {r1 r2 : Int}
    (h1 : SumSpan mc s t1 i1 j1 r1) (h2 : SumSpan mc s t2 i2 j2 r2) (h12 : j1 < i2) :
    ∃ k1 k2, i1 < k1 ∧ k1 ≤ j1 ∧ i2 < k2 ∧ k2 ≤ j2 ∧ k1 < k2 ∧
      r1 = ctrOf (obsOf (logAt (M intAlg mc) s k1)) ∧ r2 = ctrOf (obsOf (logAt (M intAlg mc) s k2)) ∧
      r1 = wrap64 (G.applied (cfgAt (M intAlg mc) s k1).g) ∧
      r2 = wrap64 (G.applied (cfgAt (M intAlg mc) s k2).g) ∧
      G.applied (cfgAt (M intAlg mc) s k1).g ≤ G.applied (cfgAt (M intAlg mc) s k2).g :=
  UnitSum.sum_reads_monotone hm (hu.mono (fun x hx => by subst hx; omega)) h1 h2 h12

/-- ... in particular two `Sum`s of the same thread: the one invoked first has returned before the other is
    invoked, so they read at ordered instants. -/
theorem same_thread_sums_monotone {s : List (Tid × Act)} (hm : NoMaint s) (hu : UnitOps s)
    {t : Tid} {i1 j1 i2 j2 : Nat} {r1 r2 : Int}
    (h1 : SumSpan mc s t i1 j1 r1) (h2 : SumSpan mc s t i2 j2 r2) (h12 : i1 < i2) :
    j1 < i2 ∧ ∃ k1 k2, i1 < k1 ∧ k1 ≤ j1 ∧ i2 < k2 ∧ k2 ≤ j2 ∧ k1 < k2 ∧
      r1 = ctrOf (obsOf (logAt (M intAlg mc) s k1)) ∧ r2 = ctrOf (obsOf (logAt (M intAlg mc) s k2)) ∧
      G.applied (cfgAt (M intAlg mc) s k1).g ≤ G.applied (cfgAt (M intAlg mc) s k2).g := by
  have hd := same_thread_disjoint h1 h2 h12
  obtain ⟨k1, k2, a1, a2, a3, a4, a5, a6, a7, _, _, a10⟩ := sum_reads_monotone hm hu h1 h2 hd
  exact ⟨hd, k1, k2, a1, a2, a3, a4, a5, a6, a7, a10⟩

/-- **(3), monotone reads, instrumented form**, reusing `sum_monotone`: the later `Sum` counts every update
    the earlier one counted. -/
theorem sum_counted_monotone {s : List (Tid × Act)} (hu : UnitOps s)
    {t1 t2 : Tid} {i1 j1 i2 j2 : Nat} {r1 r2 : Int} {counted1 must1 counted2 must2 : List Nat}
    (h1 : SumSpanG mc s t1 i1 j1 r1 counted1 must1) (h2 : SumSpanG mc s t2 i2 j2 r2 counted2 must2)
    (h12 : j1 < i2) :
    (∀ u ∈ counted1, u ∈ counted2) ∧
    ∃ k1 k2, i1 < k1 ∧ k1 ≤ j1 ∧ i2 < k2 ∧ k2 ≤ j2 ∧ k1 < k2 ∧
      r1 = wrap64 (tot (cfgAt (MG mc) s k1)) ∧ r2 = wrap64 (tot (cfgAt (MG mc) s k2)) ∧
      tot (cfgAt (MG mc) s k1) ≤ tot (cfgAt (MG mc) s k2) :=
  sum_reads_monotoneG (hu.mono (fun x hx => by subst hx; omega)) h1 h2 h12

/-! ## 4. Generalisations -/

/-- **Non-negative operands: between the bounds.**  The response is `wrap64 n` with `n` between the exact
    total at the invocation instant and the exact total at the response instant.  (No instant in general:
    `plus2_demo`.) -/
theorem nonneg_sum_between {s : List (Tid × Act)} (hm : NoMaint s) (hs : NonNegOps s) {t : Tid} {i j : Nat}
    {r : Int} (h : SumSpan mc s t i j r) :
    ∃ n : Int, r = wrap64 n ∧ G.applied (cfgAt (M intAlg mc) s i).g ≤ n ∧
      n ≤ G.applied (cfgAt (M intAlg mc) s j).g :=
  sum_between_plain hm hs h

/-- **Operands in `{0, 1}`: still an atomic read.**  The response equals an atomic read of the abstract counter
    at an instant `k`, `i < k ≤ j`; the counter then holds the wrapped exact total, which lies between the
    totals at the invocation and at the response instant. -/
theorem zero_one_sum_is_atomic_read {s : List (Tid × Act)} (hm : NoMaint s) (hs : ZeroOneOps s) {t : Tid}
    {i j : Nat} {r : Int} (h : SumSpan mc s t i j r) :
    ∃ k, i < k ∧ k ≤ j ∧ r = ctrOf (obsOf (logAt (M intAlg mc) s k)) ∧
      r = wrap64 (G.applied (cfgAt (M intAlg mc) s k).g) ∧
      G.applied (cfgAt (M intAlg mc) s i).g ≤ G.applied (cfgAt (M intAlg mc) s k).g ∧
      G.applied (cfgAt (M intAlg mc) s k).g ≤ G.applied (cfgAt (M intAlg mc) s j).g :=
  sum_atomic hm hs h

/-- Non-negative operands: the exact total never decreases along the run. -/
theorem nonneg_total_monotone {s : List (Tid × Act)} (hm : NoMaint s) (hs : NonNegOps s) {k k' : Nat}
    (h : k ≤ k') : G.applied (cfgAt (M intAlg mc) s k).g ≤ G.applied (cfgAt (M intAlg mc) s k').g := by
  rw [applied_cfgAt hm k, applied_cfgAt hm k']; exact tot_mono hs h

/-! ## 5. Kernel-checked runs -/

/-- Five threads, `maxCells = 4`.  Positions `0–16`: `T1` reads `base = 0`; `T0`'s `Inc` lands on `base`; `T1`'s
    CAS fails, it creates the table and lands its `Inc` in a new cell (cell `0`, slot `1`).  Total `2`.
    Position `17`: `T2` invokes `Sum`; positions `18–20`: it reads `base = 1` and slot `0` (empty).
    Positions `21–34`: `T3` runs `Add y`: slot `0` is empty, it attaches a new cell (cell `1`) holding `y`
    (linearization point at position `33`).  Positions `35–40`: `T4` runs `Add x` on slot `1` (cell `0`,
    linearization point at position `40`).  Positions `41–42`: `T2` reads slot `1` and returns: it has seen
    `x` but not `y`, although `y` was linearized first. -/
def demo (y x : Int) : List (Tid × Act) :=
  [ (1, .add 1), (1, .tau), (1, .tau),
    (0, .add 1), (0, .tau), (0, .tau), (0, .tau),
    (1, .tau), (1, .rnd 1),
    (1, .tau), (1, .tau), (1, .tau), (1, .tau), (1, .tau), (1, .tau), (1, .tau), (1, .tau),
    (2, .sum), (2, .tau), (2, .tau), (2, .tau),
    (3, .add y), (3, .tau), (3, .rnd 0), (3, .tau), (3, .rnd 2), (3, .tau), (3, .tau), (3, .tau), (3, .tau),
    (3, .tau), (3, .tau), (3, .tau), (3, .tau), (3, .tau),
    (4, .add x), (4, .tau), (4, .rnd 1), (4, .tau), (4, .tau), (4, .tau),
    (2, .tau), (2, .tau) ]

/-- the exact total at instant `k` of the demo -/
abbrev totalAt (y x : Int) (k : Nat) : Int := G.applied (cfgAt (M intAlg 4) (demo y x) k).g

/-- an atomic read of the abstract counter at instant `k` of the demo -/
abbrev readAt (y x : Int) (k : Nat) : Int := ctrOf (obsOf (logAt (M intAlg 4) (demo y x) k))

/-- the log at instant `k` of the demo -/
abbrev logOf (y x : Int) (k : Nat) : List (Tid × Obs) := logAt (M intAlg 4) (demo y x) k

/-- **Non-vacuity.**  `demo 1 1` is a run of unit increments in which the `Sum` of `T2` (invoked at position
    `17`, returning at position `42`) overlaps the two `Inc`s of `T3` (positions `21–34`) and `T4` (positions
    `35–40`), which land on different cells (`T3` creates cell `1`, `T4` bumps cell `0`); the exact total is `2`
    when the `Sum` is invoked and `4` when it returns, the `Sum` returns the intermediate value `3`, and `3`
    is the exact total -- and the value of an atomic read -- exactly at the instants `34 … 40`, between `T3`'s
    and `T4`'s linearization points. -/
theorem unit_demo :
    NoMaint (demo 1 1) ∧ UnitOps (demo 1 1) ∧ SumSpan 4 (demo 1 1) 2 17 42 3 ∧
    -- the two overlapping `Inc`s: invoked after the `Sum`, both return before it; different cells
    (demo 1 1)[21]? = some (3, .add 1) ∧ (demo 1 1)[35]? = some (4, .add 1) ∧
    logOf 1 1 17 = [(0, .lp 1), (0, .ret none), (1, .lp 1), (1, .ret none)] ∧
    logOf 1 1 43 =
      [(0, .lp 1), (0, .ret none), (1, .lp 1), (1, .ret none), (3, .lp 1), (3, .ret none), (4, .lp 1),
       (4, .ret none), (2, .ret (some 3))] ∧
    (let g := (cfgAt (M intAlg 4) (demo 1 1) 17).g; (g.base, g.ncell, g.cell 0) = (1, 1, 1)) ∧
    (let g := (cfgAt (M intAlg 4) (demo 1 1) 43).g; (g.base, g.ncell, g.cell 0, g.cell 1) = (1, 2, 2, 1)) ∧
    -- the bounds, and the witness instant
    totalAt 1 1 17 = 2 ∧ totalAt 1 1 42 = 4 ∧ totalAt 1 1 34 = 3 ∧ readAt 1 1 34 = 3 ∧
    (∀ k, k < 44 → (totalAt 1 1 k = 3 ↔ 34 ≤ k ∧ k ≤ 40)) := by
  refine ⟨noMaint_of_all (by decide +kernel), opsP_of_all (fun x => decide (x = 1)) (fun x hx => by simpa using hx)
    (by decide +kernel), spanB_sound (by decide +kernel), rfl, rfl, by decide +kernel, by decide +kernel,
    by decide +kernel, by decide +kernel, by decide +kernel, by decide +kernel, by decide +kernel,
    by decide +kernel, by decide +kernel⟩

/-- the theorem applied to the demo: it yields an instant, and any such instant is one of `34 … 40` -/
example : ∃ k, 17 < k ∧ k ≤ 42 ∧ (3 : Int) = readAt 1 1 k :=
  sum_is_atomic_read unit_demo.1 unit_demo.2.1 unit_demo.2.2.1

/-- **The unit hypothesis is needed (operands `-1`, `+1`).**  In `demo (-1) 1` (`T3` runs `Add (-1)`, `T4` runs
    `Inc`) the exact total goes `2 → 1 → 2` while the `Sum` runs; the `Sum` returns `3`: a value the exact
    total never has, at any instant of the run, and that no atomic read could return; it is outside the
    bounds `[2, 2]` as well. -/
theorem signed_demo :
    NoMaint (demo (-1) 1) ∧ OpsP (fun x => x = 1 ∨ x = -1) (demo (-1) 1) ∧ SumSpan 4 (demo (-1) 1) 2 17 42 3 ∧
    totalAt (-1) 1 17 = 2 ∧ totalAt (-1) 1 42 = 2 ∧
    (∀ k, totalAt (-1) 1 k ≠ 3) ∧ (∀ k, readAt (-1) 1 k ≠ 3) := by
  refine ⟨noMaint_of_all (by decide +kernel),
    opsP_of_all (fun x => decide (x = 1 ∨ x = -1)) (fun x hx => by simpa using hx) (by decide +kernel),
    spanB_sound (by decide +kernel), by decide +kernel, by decide +kernel, ?_, ?_⟩
  · exact forall_instants (M := M intAlg 4) (s := demo (-1) 1) (fun c _ => G.applied c.g ≠ 3) (by decide +kernel)
  · exact forall_instants (M := M intAlg 4) (s := demo (-1) 1) (fun _ lg => ctrOf (obsOf lg) ≠ 3)
      (by decide +kernel)

/-- **The unit hypothesis is needed (operands `+2`, `-1`).**  In `demo 2 (-1)` the exact total goes
    `2 → 4 → 3` while the `Sum` runs; the `Sum` returns `1`, below both bounds, a value the exact total does
    not have at any instant from the invocation on. -/
theorem plus2_minus1_demo :
    NoMaint (demo 2 (-1)) ∧ SumSpan 4 (demo 2 (-1)) 2 17 42 1 ∧
    totalAt 2 (-1) 17 = 2 ∧ totalAt 2 (-1) 34 = 4 ∧ totalAt 2 (-1) 42 = 3 ∧
    (∀ k, 17 ≤ k → totalAt 2 (-1) k ≠ 1) := by
  refine ⟨noMaint_of_all (by decide +kernel), spanB_sound (by decide +kernel), by decide +kernel,
    by decide +kernel, by decide +kernel, ?_⟩
  have h17 : ∀ k, k < 44 → 17 ≤ k → totalAt 2 (-1) k ≠ 1 := by decide +kernel
  intro k hk
  by_cases hlt : k < 44
  · exact h17 k hlt hk
  · have e : totalAt 2 (-1) k = totalAt 2 (-1) 43 := by
      show G.applied (cfgAt (M intAlg 4) (demo 2 (-1)) k).g = G.applied (cfgAt (M intAlg 4) (demo 2 (-1)) 43).g
      rw [cfgAt_length (M := M intAlg 4) (demo 2 (-1)) (k := k) (by show 43 ≤ k; omega),
        cfgAt_length (M := M intAlg 4) (demo 2 (-1)) (k := 43) (Nat.le_refl _)]
    rw [e]
    exact h17 43 (by omega) (by omega)

/-- **Non-negative operands give the bounds only (operand `+2`).**  In `demo 1 2` (all operands `≥ 0`, one
    is `2`) the exact total goes `2 → 3 → 5` while the `Sum` runs; the `Sum` returns `4`: between the bounds,
    as `nonneg_sum_between` says, but not the exact total at any instant of the run. -/
theorem plus2_demo :
    NoMaint (demo 1 2) ∧ NonNegOps (demo 1 2) ∧ SumSpan 4 (demo 1 2) 2 17 42 4 ∧
    totalAt 1 2 17 = 2 ∧ totalAt 1 2 42 = 5 ∧ (∀ k, totalAt 1 2 k ≠ 4) ∧ (∀ k, readAt 1 2 k ≠ 4) := by
  refine ⟨noMaint_of_all (by decide +kernel),
    opsP_of_all (fun x => decide (0 ≤ x)) (fun x hx => by simpa using hx) (by decide +kernel),
    spanB_sound (by decide +kernel), by decide +kernel, by decide +kernel, ?_, ?_⟩
  · exact forall_instants (M := M intAlg 4) (s := demo 1 2) (fun c _ => G.applied c.g ≠ 4) (by decide +kernel)
  · exact forall_instants (M := M intAlg 4) (s := demo 1 2) (fun _ lg => ctrOf (obsOf lg) ≠ 4) (by decide +kernel)

end Garr.Props.C09Unit

#print axioms Garr.Props.C09Unit.instant_is_prefix
#print axioms Garr.Props.C09Unit.span_plain_iff_instrumented
#print axioms Garr.Props.C09Unit.every_logged_sum_is_atomic_read
#print axioms Garr.Props.C09Unit.total_at_instant
#print axioms Garr.Props.C09Unit.total_is_count
#print axioms Garr.Props.C09Unit.total_instrumented
#print axioms Garr.Props.C09Unit.total_step
#print axioms Garr.Props.C09Unit.sum_counts_between_ghost
#print axioms Garr.Props.C09Unit.sum_counts_between
#print axioms Garr.Props.C09Unit.discrete_intermediate_value
#print axioms Garr.Props.C09Unit.sum_total_at_instant
#print axioms Garr.Props.C09Unit.sum_total_at_instant_ghost
#print axioms Garr.Props.C09Unit.sum_is_atomic_read
#print axioms Garr.Props.C09Unit.every_sum_response_has_span
#print axioms Garr.Props.C09Unit.every_sum_response_is_atomic_read
#print axioms Garr.Props.C09Unit.sum_reads_monotone
#print axioms Garr.Props.C09Unit.same_thread_sums_monotone
#print axioms Garr.Props.C09Unit.sum_counted_monotone
#print axioms Garr.Props.C09Unit.nonneg_sum_between
#print axioms Garr.Props.C09Unit.zero_one_sum_is_atomic_read
#print axioms Garr.Props.C09Unit.nonneg_total_monotone
#print axioms Garr.Props.C09Unit.unit_demo
#print axioms Garr.Props.C09Unit.signed_demo
#print axioms Garr.Props.C09Unit.plus2_minus1_demo
#print axioms Garr.Props.C09Unit.plus2_demo
