import Garr.Breaker.ConcInv
/-!
# C03 — the non-blocking circuit breaker under concurrency

While the circuit is open and its window has not elapsed on the supplied ticker, `CanRequest` returns
false to every caller; when the window (or a later trial interval) has elapsed exactly one of the
concurrent callers is admitted as the trial; one reported success closes the circuit, one reported
failure re-opens it, concurrent reports cause exactly one transition; a closed circuit admits everybody.

All theorems are about the machine `Garr.Breaker.M cfg t1 t2` (any configuration, any constructor
readings), with unboundedly many threads, every schedule, and arbitrary ticker readings per read.
"A step" is `step cfg t c.g (c.l t) a = some (g', l', obs)` from a reachable configuration `c`.
-/
namespace Garr.Props.C03
open Garr Garr.Conc Garr.Breaker

variable {cfg : Breaker.Config} {t1 t2 : Int}

local notation "MM" => M cfg t1 t2

/-! ## 0. The invariant -/

/-- the invariant holds in every reachable configuration -/
theorem invariant (c : Garr.Conc.Config MM) (hc : Reach MM c) : BInv c := binv_reach c hc

/-- state objects are immutable: a step only appends to `objs`, so every existing object keeps its
contents (kind, deadline, duration, window) -/
theorem objects_immutable (c : Garr.Conc.Config MM) (hc : Reach MM c) (t : Tid) (a : Act) (g' : CG) (l' : L)
    (obs : List Obs) (hs : step cfg t c.g (c.l t) a = some (g', l', obs)) :
    (∃ extra, g'.objs = c.g.objs ++ extra) ∧ ∀ o, o ≤ c.g.cur → g'.obj o = c.g.obj o := by
  obtain ⟨hg, _, hr⟩ := reach_step hc hs
  exact ⟨objs_prefix hs, (hr.eff.mono hg).2⟩

/-- … and along any continuation of a run, whatever the other threads do -/
theorem objects_immutable_run (c : Garr.Conc.Config MM) (hc : Reach MM c) (s : List (Tid × Act)) (o : Nat)
    (ho : o ≤ c.g.cur) : (run MM c s).1.g.obj o = c.g.obj o :=
  run_obj_stable s c hc o ho

/-! ## 1. At most one CAS with expected value `o` ever succeeds -/

/-- a step emitting `transition o k` is a successful CAS from the current object `o = cur`, after which
`cur = o + 1`; any other step leaves `cur` alone.  In particular `cur` never decreases. -/
theorem cur_mono (c : Garr.Conc.Config MM) (hc : Reach MM c) (t : Tid) (a : Act) (g' : CG) (l' : L) (obs : List Obs)
    (hs : step cfg t c.g (c.l t) a = some (g', l', obs)) :
    (g'.cur = c.g.cur ∧ ∀ o k, Obs.transition o k ∉ obs) ∨
    (g'.cur = c.g.cur + 1 ∧ ∃ k, transOf obs = [(c.g.cur, k)] ∧ (g'.obj g'.cur).kind = k) := by
  obtain ⟨hg, _, hr⟩ := reach_step hc hs
  cases hr.eff with
  | frame hf ht _ =>
    left
    refine ⟨hf.2.1, fun o k hm => ?_⟩
    have : (o, k) ∈ transOf obs := by
      simp only [transOf, List.mem_filterMap]
      exact ⟨_, hm, rfl⟩
    rw [ht] at this
    exact absurd this (by simp)
  | pub n p1 p2 _ ht =>
    right
    refine ⟨by rw [p2]; exact hg.1.symm, n.kind, ht, ?_⟩
    simp [CG.obj, getD', p1, p2]

/-- **cas_unique**: in every run, the sources of the `transition` observations are pairwise distinct:
at most one CAS with expected value `o` ever succeeds. -/
theorem cas_unique (s : List (Tid × Act)) :
    (transSrcs (run MM (Config.init MM) s).2).Nodup := by
  rw [(run_transitions s _ Reach.init).2.1]
  exact List.nodup_range' 1

/-- sharper: the `k`-th successful CAS of a run replaces object `k`; the log's transition sources are
`0, 1, …, cur - 1` in this order, and the ghost `casWins` is this list (newest first) -/
theorem transitions_in_order (s : List (Tid × Act)) :
    transSrcs (run MM (Config.init MM) s).2 = List.range (run MM (Config.init MM) s).1.g.cur ∧
    (run MM (Config.init MM) s).1.g.casWins = (transSrcs (run MM (Config.init MM) s).2).reverse := by
  obtain ⟨_, h2, h3, _⟩ := run_transitions (cfg := cfg) (t1 := t1) (t2 := t2) s _ Reach.init
  refine ⟨?_, ?_⟩
  · rw [h2, List.range_eq_range']; rfl
  · rw [h3]; exact List.append_nil _

/-! ## 2. A closed circuit admits everybody -/

/-- **closed_admits**: `CanRequest` loading a CLOSED current object returns true, without callback and
without changing anything (and this step is enabled). -/
theorem closed_admits (t : Tid) (g : CG) (hk : (g.obj g.cur).kind = .closed) :
    step cfg t g (.b0 .can) .tau = some (g, .idle, [.ret (some true)]) := by
  simp [step, hk]

/-! ## 3. Fail fast -/

/-- **fail_fast**: a step that returns true from `CanRequest` is either the closed case, or the successful
CAS of a caller that loaded the current non-CLOSED object `o` and whose OWN reading `r1`, taken after
loading `o`, had reached `o`'s deadline; it is the transition `o → HALF_OPEN` with deadline
`wrap64 (r2 + trial)` and it is the admission of the trial. -/
theorem fail_fast (c : Garr.Conc.Config MM) (hc : Reach MM c) (t : Tid) (a : Act) (g' : CG) (l' : L) (obs : List Obs)
    (hs : step cfg t c.g (c.l t) a = some (g', l', obs)) (hadm : Obs.ret (some true) ∈ obs) :
    (c.l t = .b0 .can ∧ (c.g.obj c.g.cur).kind = .closed ∧ g' = c.g ∧ l' = .idle ∧ obs = [.ret (some true)]) ∨
    (∃ o r1 r2, c.l t = .c3 o r1 r2 ∧ c.g.cur = o ∧
      (c.g.obj o).kind ≠ .closed ∧ (c.g.obj o).dur > 0 ∧ (c.g.obj o).timeout ≤ r1 ∧
      obs = [.transition o .half, .admitted o r1, .cbState .half, .ret (some true)] ∧ l' = .idle ∧
      g' = publish c.g o ⟨.half, wrap64 (r2 + cfg.trial), cfg.trial, 0⟩ ∧
      g'.cur = o + 1 ∧ g'.obj g'.cur = ⟨.half, wrap64 (r2 + cfg.trial), cfg.trial, 0⟩) := by
  obtain ⟨hg, hl, hr⟩ := reach_step hc hs
  generalize hlt : c.l t = lt at hl hr
  cases hr
  case b0ClosedCan hk => exact .inl ⟨rfl, hk, rfl, rfl, rfl⟩
  case c3Win o r1 r2 hcur =>
    right
    simp only [LInv] at hl
    refine ⟨o, r1, r2, rfl, hcur, hl.2.1, hl.2.2.1, hl.2.2.2, rfl, rfl, rfl, ?_, obj_publish_cur _ _ _⟩
    show (CG.objs c.g).length = o + 1
    rw [← hcur]; exact hg.1.symm
  all_goals (exfalso; first | (simp at hadm; done) | (have hm := mem_core hadm rfl; simp_all; done))

/-- **open_rejects**: a caller that loaded a non-CLOSED object `o` and then reads a ticker value before
`o`'s deadline is rejected (one `cbRejected`, returns false) and changes nothing — whatever the other
threads do or have done (and this step is enabled). -/
theorem open_rejects (t : Tid) (g : CG) (o : Nat) (r1 : Int) (h : r1 < (g.obj o).timeout) :
    step cfg t g (.c1 o) (.tick r1) = some (g, .idle, [.cbRejected, .ret (some false)]) := by
  have : ¬ (g.obj o).timeout ≤ r1 := by omega
  simp [step, this]

/-- the object a `CanRequest` caller in `c1 o` holds is a timed (OPEN or HALF_OPEN) object whose
immutable deadline is the one it will compare its reading against — no other thread can change it -/
theorem open_rejects_held (c : Garr.Conc.Config MM) (hc : Reach MM c) (t : Tid) (o : Nat) (hl : c.l t = .c1 o) :
    o ≤ c.g.cur ∧ (c.g.obj o).kind ≠ .closed ∧ (c.g.obj o).dur > 0 := by
  have := (binv_reach c hc).2 t
  rw [hl] at this
  exact this

/-- a timed object without duration rejects immediately (`timedOutTimeNanos ≤ 0` never times out) -/
theorem untimed_rejects (t : Tid) (g : CG) (hk : (g.obj g.cur).kind ≠ .closed) (hd : ¬ (g.obj g.cur).dur > 0) :
    step cfg t g (.b0 .can) .tau = some (g, .idle, [.cbRejected, .ret (some false)]) := by
  cases hkk : (g.obj g.cur).kind <;> simp_all [step]

/-! ## 6. A failed trial CAS means somebody else's CAS from the same object succeeded -/

/-- whenever a thread holds an object that is no longer current, a CAS from that object has succeeded -/
theorem stale_replaced (c : Garr.Conc.Config MM) (hc : Reach MM c) (t : Tid) (o : Nat)
    (hh : L.held (c.l t) = some o) (hne : c.g.cur ≠ o) : o < c.g.cur ∧ o ∈ c.g.casWins := by
  obtain ⟨hg, hl⟩ := binv_reach c hc
  have hle := (hl t).held_le hh
  exact ⟨by omega, hg.replaced hle hne⟩

/-- **someone_wins**: if a `CanRequest` caller's CAS fails (it is rejected at `c3`), then the object it
loaded is not current any more and a CAS from that very object has succeeded — some other operation
(a trial admission or a reported result) won. -/
theorem someone_wins (c : Garr.Conc.Config MM) (hc : Reach MM c) (t : Tid) (a : Act) (g' : CG) (l' : L)
    (obs : List Obs) (o : Nat) (r1 r2 : Int) (hl : c.l t = .c3 o r1 r2)
    (hs : step cfg t c.g (c.l t) a = some (g', l', obs)) (hrej : Obs.cbRejected ∈ obs) :
    c.g.cur ≠ o ∧ o < c.g.cur ∧ o ∈ c.g.casWins ∧
    g' = c.g ∧ l' = .idle ∧ obs = [.cbRejected, .ret (some false)] := by
  have hr := step_sound hs
  have hh : L.held (c.l t) = some o := by rw [hl]; rfl
  rw [hl] at hr
  cases hr
  case c3Win => simp at hrej
  case c3Lose hne =>
    obtain ⟨h1, h2⟩ := stale_replaced c hc t o hh hne
    exact ⟨hne, h1, h2, rfl, rfl, rfl⟩

/-- the same, read off the log of a run: the winner's `transition o _` is in the log -/
theorem someone_wins_log (s : List (Tid × Act)) (t : Tid) (a : Act) (g' : CG) (l' : L) (obs : List Obs)
    (o : Nat) (r1 r2 : Int)
    (hl : (run MM (Config.init MM) s).1.l t = .c3 o r1 r2)
    (hs : step cfg t (run MM (Config.init MM) s).1.g ((run MM (Config.init MM) s).1.l t) a = some (g', l', obs))
    (hrej : Obs.cbRejected ∈ obs) :
    o ∈ transSrcs (run MM (Config.init MM) s).2 := by
  have hc := reach_run MM _ Reach.init s
  have h := (someone_wins _ hc t a g' l' obs o r1 r2 hl hs hrej).2.2.1
  rw [(transitions_in_order s).2] at h
  exact List.mem_reverse.mp h

/-! ## 5. Reports -/

/-- **report_once**: a step emitting `transition o k` with `k ≠ HALF_OPEN` is the successful CAS of a
report: a success on the HALF_OPEN object `o` (new CLOSED object with a fresh, empty window), a failure
on the HALF_OPEN object `o` (new OPEN object for a full window from its reading), or the tripping
failure on the CLOSED object `o`.  By `cas_unique`, concurrent reports on one object cause one transition. -/
theorem report_once (c : Garr.Conc.Config MM) (hc : Reach MM c) (t : Tid) (a : Act) (g' : CG) (l' : L)
    (obs : List Obs) (hs : step cfg t c.g (c.l t) a = some (g', l', obs))
    (o : Nat) (k : Kind) (hk : k ≠ .half) (hm : Obs.transition o k ∈ obs) :
    c.g.cur = o ∧ g'.cur = o + 1 ∧ l' = .idle ∧ obs = [.transition o k, .cbState k, .ret none] ∧
    ((∃ r1 r2, c.l t = .h3 .succ o r1 r2 ∧ (c.g.obj o).kind = .half ∧ k = .closed ∧
        g'.obj g'.cur = ⟨.closed, wrap64 (r2 + 0), 0, c.g.wins.length⟩ ∧
        g'.wins = c.g.wins ++ [⟨c.g.buckets.length, [], (0, 0)⟩] ∧
        g'.buckets = c.g.buckets ++ [⟨r1, 0, 0⟩] ∧
        g'.win c.g.wins.length = ⟨c.g.buckets.length, [], (0, 0)⟩ ∧
        g'.bucket c.g.buckets.length = ⟨r1, 0, 0⟩) ∨
     (∃ r1 r2, c.l t = .h3 .fail o r1 r2 ∧ (c.g.obj o).kind = .half ∧ k = .opn ∧
        g'.obj g'.cur = ⟨.opn, wrap64 (r1 + cfg.openW), cfg.openW, 0⟩ ∧
        g'.wins = c.g.wins ∧ g'.buckets = c.g.buckets) ∨
     (∃ e r, c.l t = .f2 o e r ∧ (c.g.obj o).kind = .closed ∧ k = .opn ∧
        g'.obj g'.cur = ⟨.opn, wrap64 (r + cfg.openW), cfg.openW, 0⟩ ∧
        g'.wins = c.g.wins ∧ g'.buckets = c.g.buckets)) := by
  obtain ⟨hg, hl, hr⟩ := reach_step hc hs
  have hlen := hg.1
  generalize hlt : c.l t = lt at hl hr
  cases hr
  case c3Win => simp at hm; exact absurd hm.2 hk
  case f2Win o' e r hcur =>
    simp at hm; obtain ⟨rfl, rfl⟩ := hm
    simp only [LInv] at hl
    refine ⟨hcur, ?_, rfl, rfl, .inr (.inr ⟨e, r, rfl, hl.2, rfl, obj_publish_cur _ _ _, rfl, rfl⟩)⟩
    show (CG.objs c.g).length = o + 1
    omega
  case h3SuccWin o' r1 r2 hcur =>
    simp at hm; obtain ⟨rfl, rfl⟩ := hm
    simp only [LInv] at hl
    refine ⟨hcur, ?_, rfl, rfl, .inl ⟨r1, r2, rfl, hl.2.1, rfl, obj_publish_cur _ _ _, rfl, rfl, ?_, ?_⟩⟩
    · show (CG.objs c.g).length = o + 1
      omega
    · simp [publish, CG.win, getD']
    · simp [publish, CG.bucket, getD']
  case h3OtherWin cl o' r1 r2 hns hcur =>
    simp at hm; obtain ⟨rfl, rfl⟩ := hm
    simp only [LInv] at hl
    have hcl : cl = .fail := by cases cl <;> simp_all
    subst hcl
    refine ⟨hcur, ?_, rfl, rfl, .inr (.inl ⟨r1, r2, rfl, hl.2.1, rfl, obj_publish_cur _ _ _, rfl, rfl⟩)⟩
    show (CG.objs c.g).length = o + 1
    omega
  all_goals (exfalso; first | (simp at hm; done) | (have hm' := mem_core hm rfl; simp_all; done))

/-- **open_ignores_reports**: `OnSuccess`/`OnFailure` loading an OPEN current object return without
notification and without changing anything (and this step is enabled). -/
theorem open_ignores_reports (t : Tid) (g : CG) (cl : Call) (hc : cl ≠ .can) (hk : (g.obj g.cur).kind = .opn) :
    step cfg t g (.b0 cl) .tau = some (g, .idle, [.ret none]) := by
  cases cl <;> simp_all [step]

/-! ## 4. One trial -/

/-- an admission is the successful CAS to HALF_OPEN: `admitted o r` is emitted only together with
`transition o HALF_OPEN`, in the same step -/
theorem admitted_is_transition (t : Tid) (g : CG) (l : L) (a : Act) (g' : CG) (l' : L) (obs : List Obs)
    (hs : step cfg t g l a = some (g', l', obs)) (o : Nat) (r : Int) (hm : Obs.admitted o r ∈ obs) :
    obs = [.transition o .half, .admitted o r, .cbState .half, .ret (some true)] :=
  (step_sound hs).shape.of_admitted hm

/-- conversely a transition to HALF_OPEN is an admission -/
theorem half_transition_is_admitted (t : Tid) (g : CG) (l : L) (a : Act) (g' : CG) (l' : L) (obs : List Obs)
    (hs : step cfg t g l a = some (g', l', obs)) (o : Nat) (hm : Obs.transition o .half ∈ obs) :
    ∃ r, obs = [.transition o .half, .admitted o r, .cbState .half, .ret (some true)] := by
  cases (step_sound hs).shape
  case quiet ho => have := mem_core hm rfl; rw [ho] at this; simp at this
  case retNone ho => have := mem_core hm rfl; rw [ho] at this; simp at this
  case trial o' r' => simp at hm; subst hm; exact ⟨r', rfl⟩
  case moved o' k hk => simp at hm; exact absurd hm.2.symm hk
  all_goals simp at hm

/-- **one_trial** (log form): in every run, each `admitted o r` entry of the log is immediately preceded by
the entry `transition o HALF_OPEN` of the same thread -/
theorem one_trial (s : List (Tid × Act)) (pre post : List (Tid × Obs)) (t : Tid) (o : Nat) (r : Int)
    (h : (run MM (Config.init MM) s).2 = pre ++ (t, Obs.admitted o r) :: post) :
    ∃ pre', pre = pre' ++ [(t, Obs.transition o .half)] :=
  run_admitted_after_transition s _ Reach.init pre post t o r h

/-- hence between two admissions there is a transition: between two consecutive `transition`
observations at most one `admitted` occurs -/
theorem one_trial_between (s : List (Tid × Act)) (pre mid post : List (Tid × Obs))
    (ta tb : Tid) (oa ob : Nat) (ra rb : Int)
    (h : (run MM (Config.init MM) s).2 =
      pre ++ (ta, Obs.admitted oa ra) :: (mid ++ (tb, Obs.admitted ob rb) :: post)) :
    ∃ mid', mid = mid' ++ [(tb, Obs.transition ob .half)] := by
  have e : pre ++ (ta, Obs.admitted oa ra) :: (mid ++ (tb, Obs.admitted ob rb) :: post) =
      (pre ++ (ta, Obs.admitted oa ra) :: mid) ++ (tb, Obs.admitted ob rb) :: post := by simp
  have h' := h.trans e
  obtain ⟨pre', hp⟩ := one_trial s _ post tb ob rb h'
  rcases List.eq_nil_or_concat mid with rfl | ⟨mid', z, rfl⟩
  · have := List.append_inj' hp rfl
    exact absurd this.2 (by simp)
  · have hp' : (pre ++ (ta, Obs.admitted oa ra) :: mid') ++ [z] = pre' ++ [(tb, Obs.transition ob .half)] := by
      rw [← hp]; simp
    have := List.append_inj' hp' rfl
    simp only [List.cons.injEq, and_true] at this
    exact ⟨mid', by rw [this.2]; simp⟩

/-- and at most one caller is admitted per state object: the admission sources of a run are a sublist of
its transition sources, hence pairwise distinct -/
theorem one_admission_per_object (s : List (Tid × Act)) :
    (admSrcs (run MM (Config.init MM) s).2).Sublist (transSrcs (run MM (Config.init MM) s).2) ∧
    (admSrcs (run MM (Config.init MM) s).2).Nodup := by
  have h := (run_transitions (cfg := cfg) (t1 := t1) (t2 := t2) s _ Reach.init).2.2.2
  exact ⟨h, List.Nodup.sublist h (cas_unique s)⟩

/-! ## 7. Notifications -/

/-- **notify_once**: the observations of a step have one of the seven shapes of `Garr.Breaker.Shape`
(the window layer's ghost markers `recorded`/`rolled` are ignored: they are neither callbacks nor responses) -/
theorem notify_once (t : Tid) (g : CG) (l : L) (a : Act) (g' : CG) (l' : L) (obs : List Obs)
    (hs : step cfg t g l a = some (g', l', obs)) : Shape obs :=
  (step_sound hs).shape

/-- a step contains at most one callback observation -/
theorem at_most_one_callback (t : Tid) (g : CG) (l : L) (a : Act) (g' : CG) (l' : L) (obs : List Obs)
    (hs : step cfg t g l a = some (g', l', obs)) : (obs.filter Obs.isCb).length ≤ 1 := by
  cases (step_sound hs).shape
  case quiet ho => rw [← filter_isCb_core, ho]; simp
  case retNone ho => rw [← filter_isCb_core, ho]; simp [List.filter, Obs.isCb]
  all_goals simp [List.filter, Obs.isCb]

/-- a `transition` is followed in the same step by exactly one `cbState` of the same kind, and no other callback -/
theorem transition_notified (t : Tid) (g : CG) (l : L) (a : Act) (g' : CG) (l' : L) (obs : List Obs)
    (hs : step cfg t g l a = some (g', l', obs)) (o : Nat) (k : Kind) (hm : Obs.transition o k ∈ obs) :
    (obs = [.transition o k, .cbState k, .ret none] ∨
      ∃ r, k = .half ∧ obs = [.transition o .half, .admitted o r, .cbState .half, .ret (some true)]) ∧
    obs.filter Obs.isCb = [.cbState k] := by
  cases (step_sound hs).shape
  case quiet ho => have := mem_core hm rfl; rw [ho] at this; simp at this
  case retNone ho => have := mem_core hm rfl; rw [ho] at this; simp at this
  case trial o' r' => simp at hm; obtain ⟨rfl, rfl⟩ := hm; exact ⟨.inr ⟨r', rfl, rfl⟩, rfl⟩
  case moved o' k' hk => simp at hm; obtain ⟨rfl, rfl⟩ := hm; exact ⟨.inl rfl, rfl⟩
  all_goals simp at hm

/-- a `cbState` callback is emitted only by a transition to that kind -/
theorem cbState_only_on_transition (t : Tid) (g : CG) (l : L) (a : Act) (g' : CG) (l' : L) (obs : List Obs)
    (hs : step cfg t g l a = some (g', l', obs)) (k : Kind) (hm : Obs.cbState k ∈ obs) :
    ∃ o, Obs.transition o k ∈ obs := by
  cases (step_sound hs).shape
  case quiet ho => have := mem_core hm rfl; rw [ho] at this; simp at this
  case retNone ho => have := mem_core hm rfl; rw [ho] at this; simp at this
  case trial o' r' => simp at hm; subst hm; exact ⟨o', by simp⟩
  case moved o' k' hk => simp at hm; subst hm; exact ⟨o', by simp⟩
  all_goals simp at hm

/-- a rejection (`ret (some false)`) is preceded in the same step by exactly one `cbRejected`, and
`cbRejected` occurs only with `ret (some false)`: both say the step's observations are exactly these two -/
theorem rejected_notified (t : Tid) (g : CG) (l : L) (a : Act) (g' : CG) (l' : L) (obs : List Obs)
    (hs : step cfg t g l a = some (g', l', obs)) :
    (Obs.ret (some false) ∈ obs → obs = [.cbRejected, .ret (some false)]) ∧
    (Obs.cbRejected ∈ obs → obs = [.cbRejected, .ret (some false)]) := by
  cases (step_sound hs).shape
  case quiet ho =>
    constructor <;> intro hm <;> (have := mem_core hm rfl; rw [ho] at this; simp at this)
  case retNone ho =>
    constructor <;> intro hm <;> (have := mem_core hm rfl; rw [ho] at this; simp at this)
  all_goals (constructor <;> intro hm <;> simp at hm ⊢)

/-! ## 8. Non-vacuity: a concrete race -/

/-- threshold 0, at least one request, trial interval 5, open window 10, counting window 100 in slots of 10 -/
def exCfg : Breaker.Config :=
  { thr := F64.zero false, minReq := 1, trial := 5, openW := 10, window := 100, interval := 10, listeners := 1 }

/-- thread 0 reports two failures; the second one (reading 10) rolls the window, sees 0/1 and trips the
circuit with reading 10: OPEN until 20.  Then threads 1 and 2 race `CanRequest`: both load the OPEN object,
both read an elapsed ticker (20 resp. 21), both reach the CAS; thread 1 goes first. -/
def exRace : List (Tid × Act) :=
  [(0, .call .fail), (0, .tau), (0, .tick 0), (0, .tau),
   (0, .call .fail), (0, .tau), (0, .tick 10), (0, .tau), (0, .tau), (0, .tau), (0, .tick 10), (0, .tau),
   (1, .call .can), (2, .call .can), (1, .tau), (2, .tau),
   (1, .tick 20), (2, .tick 21), (2, .tick 21), (1, .tick 20),
   (1, .tau), (2, .tau)]

/-- afterwards thread 3 asks while the trial is pending (reading 24 < 25: rejected), and again when the
trial interval has elapsed without a report (reading 26: admitted as the next trial) -/
def exMore : List (Tid × Act) :=
  [(3, .call .can), (3, .tau), (3, .tick 24),
   (3, .call .can), (3, .tau), (3, .tick 26), (3, .tick 26), (3, .tau)]

def exLog (s : List (Tid × Act)) : List (Tid × Obs) := (run (M exCfg 0 0) (Config.init _) s).2

/-- exactly one of the two racing callers is admitted, the other is rejected -/
example : exLog exRace =
    [(0, .recorded 0 0 false), (0, .ret none),
     (0, .rolled 0 10 0 1), (0, .recorded 0 10 false),
     (0, .transition 0 .opn), (0, .cbState .opn), (0, .ret none),
     (1, .transition 1 .half), (1, .admitted 1 20), (1, .cbState .half), (1, .ret (some true)),
     (2, .cbRejected), (2, .ret (some false))] := by
  decide +kernel

example : admSrcs (exLog exRace) = [1] ∧ transSrcs (exLog exRace) = [0, 1] := by
  decide +kernel

/-- with the other order of the two CASes the other caller is admitted -/
example : exLog (exRace.take 20 ++ [(2, .tau), (1, .tau)]) =
    [(0, .recorded 0 0 false), (0, .ret none),
     (0, .rolled 0 10 0 1), (0, .recorded 0 10 false),
     (0, .transition 0 .opn), (0, .cbState .opn), (0, .ret none),
     (2, .transition 1 .half), (2, .admitted 1 21), (2, .cbState .half), (2, .ret (some true)),
     (1, .cbRejected), (1, .ret (some false))] := by
  decide +kernel

/-- a caller before the deadline is rejected whatever it interleaves with -/
example : exLog (exRace.take 12 ++ [(1, .call .can), (1, .tau), (1, .tick 19)]) =
    [(0, .recorded 0 0 false), (0, .ret none),
     (0, .rolled 0 10 0 1), (0, .recorded 0 10 false),
     (0, .transition 0 .opn), (0, .cbState .opn), (0, .ret none),
     (1, .cbRejected), (1, .ret (some false))] := by
  decide +kernel

/-- pending trial rejects; elapsed trial interval admits the next single trial -/
example : (exLog (exRace ++ exMore)).drop 13 =
    [(3, .cbRejected), (3, .ret (some false)),
     (3, .transition 2 .half), (3, .admitted 2 26), (3, .cbState .half), (3, .ret (some true))] := by
  decide +kernel

/-- a reported success closes the circuit, a concurrent reported failure on the same HALF_OPEN object
loses its CAS: exactly one transition -/
example : (exLog (exRace ++
      [(4, .call .succ), (5, .call .fail), (4, .tau), (5, .tau), (4, .tick 22), (5, .tick 22),
       (4, .tau), (4, .tick 23), (4, .tau), (5, .tau), (6, .call .can), (6, .tau)])).drop 13 =
    [(4, .transition 2 .closed), (4, .cbState .closed), (4, .ret none),
     (5, .ret none),
     (6, .ret (some true))] := by
  decide +kernel

end Garr.Props.C03
