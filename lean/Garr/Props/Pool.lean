import Garr.Pool.Inv
/-!
# Worker pool: C12 (no panic), C04 (exactly once), C17 (TryDo / cancellation), C08 (Stop drains), C11 (cap)

All statements are about `Garr.Pool.M P` (`Garr/Pool/Model.lean`, the code after commit eaca25b), for every parameter
set `P`, every client program and every schedule (`Reach`).  The invariants are in `Garr/Pool/{Lock,Tasks,Inv}.lean`.

C08 (`stop_drains`) holds unconditionally because `Start` holds the read side of `submitLock` across its CAS and its
`wg.Add`; for the code before that fix the property is false — the kernel-checked counterexample schedule is
`Garr.Pool.Old.start_stop_race_witness` in `Garr/Pool/OldStartRace.lean`.
-/
namespace Garr.Props.Pool
open Garr.Conc Garr.Pool

variable {P : Params}

/-! ## C12: submitting around Start / Stop never panics -/

theorem no_panic (c : Config (M P)) (h : Reach (M P) c) : c.g.panics = 0 ∧ ∀ t, c.l t ≠ .panicked :=
  ⟨(pinv_reach P c h).lock.panics, (pinv_reach P c h).lock.nopanic⟩

/-- the two sending panic sites (`dsel`, case 2 of `push`/`tsel`): a thread that may still send on the task queue
sees it open (`inner` = `dsel dres dspawn dundo push tsel`, and `st1`: a `Start` between its CAS and its `wg.Add`) -/
theorem no_send_on_closed (c : Config (M P)) (h : Reach (M P) c) (t : Tid) (hi : inner (c.l t) = true) :
    c.g.closed = false :=
  (pinv_reach P c h).lock.inner_open t hi

/-- the third panic site (`sp3c`): the queue is closed at most once -/
theorem close_once (c : Config (M P)) (h : Reach (M P) c) (t : Tid) (hl : c.l t = .sp3c) : c.g.closed = false :=
  (pinv_reach P c h).lock.preclose t (by rw [hl]; rfl)

/-- the lock discipline behind it: the read lock is held by exactly `readers` threads, the write lock excludes them,
at most one `Stop` caller ever wins the state CAS -/
theorem lock_discipline (c : Config (M P)) (h : Reach (M P) c) :
    Counts holdsR c.l c.g.readers ∧ (c.g.writer = true → ∀ t, holdsR (c.l t) = false) ∧
    (∀ t t', stopper (c.l t) = true → stopper (c.l t') = true → t = t') :=
  ⟨(pinv_reach P c h).lock.readers, (pinv_reach P c h).lock.writer_excl, (pinv_reach P c h).lock.stop_uniq⟩

/-! ## C04: every task is executed at most once, gets at most one result, executed XOR refused -/

theorem exec_at_most_once (c : Config (M P)) (h : Reach (M P) c) (u : Nat) : (c.g.task u).exec ≤ 1 :=
  ((pinv_reach P c h).task.ok u).exec_le

/-- shape of the result channel history: nothing yet, or the executor's value (then `exec = 1`), or one error
(then `exec = 0`) -/
theorem result_shape (c : Config (M P)) (h : Reach (M P) c) (u : Nat) :
    (c.g.task u).results = [] ∨ ((c.g.task u).results = [.val] ∧ (c.g.task u).exec = 1) ∨
    (∃ r, r ≠ .val ∧ (c.g.task u).results = [r] ∧ (c.g.task u).exec = 0) :=
  ((pinv_reach P c h).task.ok u).res

theorem result_at_most_once (c : Config (M P)) (h : Reach (M P) c) (u : Nat) : (c.g.task u).results.length ≤ 1 := by
  rcases result_shape c h u with h | ⟨h, _⟩ | ⟨r, _, h, _⟩ <;> simp [h]

/-- a worker that has run the executor finds the (capacity-1) result channel empty: its send never blocks -/
theorem worker_send_enabled (c : Config (M P)) (h : Reach (M P) c) (t : Tid) (u : Nat)
    (hl : c.l t = .wsend u ∨ c.l t = .esend u) :
    (c.g.task u).results = [] ∧ ∃ g' l' obs, (M P).step t c.g (c.l t) .tau = some (g', l', obs) := by
  have hr : role (c.l t) = some (.run, u) := by rcases hl with hl | hl <;> rw [hl] <;> rfl
  have h0 := (((pinv_reach P c h).task.ok u).run t hr).2.2
  refine ⟨h0, ?_⟩
  have hs : sendRes c.g u .val = some (c.g.send u .val) := sendRes_eq_some.2 ⟨h0, rfl⟩
  rcases hl with hl | hl <;> rw [hl]
  · exact ⟨_, _, _, by show step P t c.g (.wsend u) .tau = _; simp only [step, hs]; rfl⟩
  · exact ⟨_, _, _, by show step P t c.g (.esend u) .tau = _; simp only [step, hs]; rfl⟩

/-- `exec = 1` exactly when a worker is between taking the task and delivering, or the value was delivered -/
theorem executed_iff (c : Config (M P)) (h : Reach (M P) c) (u : Nat) :
    (c.g.task u).exec = 1 ↔ (∃ t, role (c.l t) = some (.run, u)) ∨ (c.g.task u).results = [.val] := by
  have hk := (pinv_reach P c h).task.ok u
  constructor
  · intro hx; exact (hk.exec_one hx).2
  · rintro (⟨t, ht⟩ | hv)
    · exact (hk.run t ht).2.1
    · rcases hk.res with h | ⟨_, h⟩ | ⟨r, hr, h, _⟩
      · rw [h] at hv; cases hv
      · exact h
      · rw [h] at hv; cases hv; exact absurd rfl hr

/-- an accepted task is somewhere: in the queue, with a worker, being drained by `Stop`, or has its result -/
theorem enq_located (c : Config (M P)) (h : Reach (M P) c) (u : Nat) (he : (c.g.task u).enq = true) :
    u ∈ c.g.q ∨ (∃ t, role (c.l t) = some (.run, u)) ∨ (∃ t, c.l t = .sp5s u) ∨ (c.g.task u).results ≠ [] := by
  rcases ((pinv_reach P c h).task.ok u).located he with h | h | ⟨t, ht⟩ | h
  · exact Or.inl h
  · exact Or.inr (Or.inl h)
  · refine Or.inr (Or.inr (Or.inl ⟨t, ?_⟩))
    cases hl : c.l t <;> rw [hl] at ht <;> simp [role] at ht
    rw [ht]
  · exact Or.inr (Or.inr (Or.inr h))

/-- conversely, whatever is queued, held by a worker, being drained, or has a value result, was accepted -/
theorem enq_of_located (c : Config (M P)) (h : Reach (M P) c) (u : Nat)
    (hl : u ∈ c.g.q ∨ (∃ t, role (c.l t) = some (.run, u)) ∨ (∃ t, role (c.l t) = some (.drain, u)) ∨
      Res.val ∈ (c.g.task u).results) : (c.g.task u).enq = true := by
  have hk := (pinv_reach P c h).task.ok u
  rcases hl with h1 | ⟨t, h1⟩ | ⟨t, h1⟩ | h1
  · exact (hk.queued h1).1
  · exact (hk.run t h1).1
  · exact (hk.drain t h1).1
  · rcases hk.res with h2 | ⟨_, h2⟩ | ⟨r, hr, h2, _⟩
    · rw [h2] at h1; cases h1
    · exact (hk.exec_one h2).1
    · rw [h2] at h1; simp at h1; exact absurd h1.symm hr

theorem queue_nodup (c : Config (M P)) (h : Reach (M P) c) : c.g.q.Nodup := by
  have := (pinv_reach P c h).task.qlen
  cases hq : c.g.q with
  | nil => exact List.nodup_nil
  | cons a as =>
    rw [hq] at this
    cases as with
    | nil => simp
    | cons b bs => simp at this

/-- a submitter before its hand-over owns a fresh task: not accepted, no result, not executed; and it is the only one -/
theorem submitter_owns (c : Config (M P)) (h : Reach (M P) c) (t : Tid) (u : Nat) (hr : role (c.l t) = some (.pre, u)) :
    u < c.g.tasks.length ∧ (c.g.task u).enq = false ∧ (c.g.task u).exec = 0 ∧ (c.g.task u).results = [] ∧
    ∀ t', role (c.l t') = some (.pre, u) → t' = t := by
  have hk := (pinv_reach P c h).task.ok u
  obtain ⟨a, b, d⟩ := hk.pre t hr
  exact ⟨hk.len (Or.inr ⟨t, _, hr⟩), a, b, d, fun t' h' => hk.uniq t' t _ h' hr⟩

/-- executed XOR refused, as a state fact: an error result means not executed, not queued, with no worker -/
theorem exec_xor_refused (c : Config (M P)) (h : Reach (M P) c) (u : Nat) (r : Res)
    (hr : r ∈ (c.g.task u).results) (hne : r ≠ .val) :
    (c.g.task u).exec = 0 ∧ u ∉ c.g.q ∧ ∀ t, role (c.l t) ≠ some (.run, u) := by
  have hk := (pinv_reach P c h).task.ok u
  have hnil : (c.g.task u).results ≠ [] := fun e => by rw [e] at hr; cases hr
  refine ⟨?_, fun hq => hnil (hk.queued hq).2.2, fun t ht => hnil (hk.run t ht).2.2⟩
  rcases hk.res with h | ⟨h, _⟩ | ⟨_, _, _, h⟩
  · exact absurd h hnil
  · rw [h] at hr; simp at hr; exact absurd hr hne
  · exact h

/-- … and for ever: once an error result was delivered, the task is never executed -/
theorem error_result_never_executed (c c' : Config (M P)) (h : Reach (M P) c) (u : Nat) (r : Res)
    (hr : r ∈ (c.g.task u).results) (hne : r ≠ .val) (hs : Steps (M P) c c') : (c'.g.task u).exec = 0 :=
  (exec_xor_refused c' (hs.reach h) u r ((TaskMono.steps hs).results u r hr) hne).1

/-- a task that was not accepted and that no submitter is working on any more (e.g. `TryDo` returned `false`
through `default`) is never accepted and never executed -/
theorem refused_never_executed (c c' : Config (M P)) (h : Reach (M P) c) (u : Nat) (hr : Refused c.g c.l u)
    (hs : Steps (M P) c c') : Refused c'.g c'.l u ∧ (c'.g.task u).exec = 0 :=
  ⟨hr.steps hs, (hr.steps hs).exec (pinv_reach P c' (hs.reach h)).task⟩

/-! ## C17: `TryDo` never blocks; saturation; cancellation releases a blocked `Do` -/

def inTry : L → Bool
  | .t1 _ | .t2 _ | .t3 _ _ | .tsel _ | .t9 _ _ => true
  | _ => false

/-- own steps that `TryDo` still has to take, at most -/
def tryRank : L → Nat
  | .t1 _ => 4 | .t2 _ => 3 | .tsel _ => 2 | .t3 _ true => 2 | .t3 _ false => 1 | .t9 _ _ => 1
  | _ => 0

theorem tryRank_le (l : L) : tryRank l ≤ 4 := by
  cases l <;> simp [tryRank]
  rename_i b; cases b <;> simp

theorem buffer_le_one (c : Config (M P)) (h : Reach (M P) c) : c.g.q.length ≤ 1 :=
  (pinv_reach P c h).task.qlen

/-- a thread inside `TryDo` always has an enabled step (it never waits for anybody) -/
theorem trydo_enabled (c : Config (M P)) (h : Reach (M P) c) (t : Tid) (hin : inTry (c.l t) = true) :
    ∃ a g' l' obs, (M P).step t c.g (c.l t) a = some (g', l', obs) := by
  have hres : ∀ u, role (c.l t) = some (.pre, u) → sendRes c.g u .errPool = some (c.g.send u .errPool) := fun u hr =>
    sendRes_eq_some.2 ⟨(((pinv_reach P c h).task.ok u).pre t hr).2.2, rfl⟩
  cases hl : c.l t <;> rw [hl] at hin hres <;> simp [inTry] at hin
  case t1 u =>
    by_cases hw : (c.g.writer || c.g.wpending) = true
    · exact ⟨.tau, _, _, _, by show step P t c.g (.t1 u) .tau = _; simp only [step, hw]; rfl⟩
    · exact ⟨.tau, _, _, _, by show step P t c.g (.t1 u) .tau = _; simp only [step, hw]; rfl⟩
  case t2 u =>
    by_cases hs : c.g.state = 2
    · exact ⟨.tau, _, _, _, by show step P t c.g (.t2 u) .tau = _; simp only [step, hs]; rfl⟩
    · exact ⟨.tau, _, _, _, by show step P t c.g (.t2 u) .tau = _; simp only [step, hs]; rfl⟩
  case t3 u b =>
    exact ⟨.tau, _, _, _, by show step P t c.g (.t3 u b) .tau = _; simp only [step, hres u rfl]; rfl⟩
  case tsel u =>
    by_cases hd : ((selCase c.g u 0).isNone && (selCase c.g u 1).isNone && (selCase c.g u 2).isNone) = true
    · exact ⟨.choose 3, _, _, _, by show step P t c.g (.tsel u) (.choose 3) = _; simp only [step, hd]; rfl⟩
    · have : ∃ k, k < 3 ∧ ∃ x, selCase c.g u k = some x := by
        cases h0 : selCase c.g u 0 with
        | some x => exact ⟨0, by decide, x, h0⟩
        | none =>
          cases h1 : selCase c.g u 1 with
          | some x => exact ⟨1, by decide, x, h1⟩
          | none =>
            cases h2 : selCase c.g u 2 with
            | some x => exact ⟨2, by decide, x, h2⟩
            | none => simp [h0, h1, h2] at hd
      obtain ⟨k, hk, ⟨g', b⟩, hx⟩ := this
      have hk3 : ¬ k = 3 := by omega
      cases b with
      | true => exact ⟨.choose k, _, _, _, by show step P t c.g (.tsel u) (.choose k) = _; simp only [step, hk3, hx]; rfl⟩
      | false => exact ⟨.choose k, _, _, _, by show step P t c.g (.tsel u) (.choose k) = _; simp only [step, hk3, hx]; rfl⟩
  case t9 u r =>
    exact ⟨.tau, _, _, _, by show step P t c.g (.t9 u r) .tau = _; simp only [step]; rfl⟩

/-- every own step of a thread inside `TryDo` brings it closer to the return (rank ≤ 4, strictly decreasing, never
leaves `TryDo` except by returning): `TryDo` returns within 4 own steps -/
theorem trydo_progress (c : Config (M P)) (h : Reach (M P) c) (t : Tid) (hin : inTry (c.l t) = true)
    (a : Act) (g' : G) (l' : L) (obs : List Obs) (hs : (M P).step t c.g (c.l t) a = some (g', l', obs)) :
    tryRank l' < tryRank (c.l t) ∧ (l' = .idle ∨ inTry l' = true) := by
  have hopen := (pinv_reach P c h).lock.inner_open t
  have ht := step_trans (t := t) hs
  generalize c.l t = l at hin ht hopen
  cases ht <;> simp [inTry] at hin <;> simp [tryRank, inTry]
  case tselPanic u hc => simp [inner, hc] at hopen

/-- saturated queue, nothing cancelled: the only enabled step of `TryDo`'s `select` is `default`; it leaves the
state unchanged and the call returns `false` -/
theorem trydo_false_when_saturated (c : Config (M P)) (h : Reach (M P) c) (t : Tid) (u : Nat)
    (hl : c.l t = .tsel u) (hq : c.g.q.length = 1) (hp : c.g.ctxDone = false) (hd : taskCtxDone c.g u = false) :
    (M P).step t c.g (c.l t) (.choose 3) = some (c.g, .t9 u false, []) ∧
    (∀ a g' l' obs, (M P).step t c.g (c.l t) a = some (g', l', obs) →
      a = .choose 3 ∧ g' = c.g ∧ l' = .t9 u false ∧ obs = []) ∧
    (M P).step t c.g (.t9 u false) .tau = some ({ c.g with readers := c.g.readers - 1 }, .idle, [.retTry u false]) := by
  have hcl : c.g.closed = false := (pinv_reach P c h).lock.inner_open t (by rw [hl]; rfl)
  have hqn : ¬ c.g.q.length < 1 := by omega
  have h0 : selCase c.g u 0 = none := by simp [selCase, hp]
  have h1 : selCase c.g u 1 = none := by simp [selCase, hd]
  have h2 : selCase c.g u 2 = none := by simp [selCase, hcl, hqn]
  have hstep : (M P).step t c.g (c.l t) (.choose 3) = some (c.g, .t9 u false, []) := by
    rw [hl]; show step P t c.g (.tsel u) (.choose 3) = _
    simp only [step, h0, h1, h2]; rfl
  refine ⟨hstep, ?_, rfl⟩
  intro a g' l' obs hs
  rw [hl] at hs hstep
  have ht := step_trans (t := t) hs
  cases ht
  case tselDefault => rw [hstep] at hs; cases hs; exact ⟨rfl, rfl, rfl, rfl⟩
  case tselPool hc _ => rw [hp] at hc; cases hc
  case tselTask hc _ => rw [hd] at hc; cases hc
  case tselPanic hc => rw [hcl] at hc; cases hc
  case tselEnq _ hq' => rw [hq'] at hq; cases hq

/-- … and by C04 a task refused that way is never accepted and never executed -/
theorem trydo_false_never_executed (c c' : Config (M P)) (h : Reach (M P) c) (t : Tid) (u : Nat)
    (hl : c.l t = .tsel u) (g' : G) (l' : L) (obs : List Obs)
    (hs : (M P).step t c.g (c.l t) (.choose 3) = some (g', l', obs))
    (hsteps : Steps (M P) ⟨g', upd c.l t l'⟩ c') :
    (c'.g.task u).enq = false ∧ (c'.g.task u).exec = 0 := by
  revert c; rintro ⟨(g : G), (ls : Tid → L)⟩ h hl hs hsteps
  dsimp only at *
  have hown := submitter_owns _ h t u (by dsimp only; rw [hl]; rfl)
  dsimp only at hown
  have ht := step_trans (t := t) hs
  rw [hl] at ht
  have hreach : Reach (M P) ⟨g', upd ls t l'⟩ := Reach.step h hs
  have hgl : g' = g ∧ l' = .t9 u false := by cases ht; exact ⟨rfl, rfl⟩
  obtain ⟨hg, hl'⟩ := hgl
  subst hg hl'
  have href : Refused g' (upd ls t (.t9 u false)) u := by
    refine ⟨hown.1, hown.2.1, fun a ha => ?_⟩
    rcases upd_eq_or ls t (.t9 u false) a with ⟨_, ea⟩ | ⟨na, ea⟩ <;> rw [ea] at ha
    · simp [role] at ha
    · exact na (hown.2.2.2.2 a ha)
  have := refused_never_executed _ c' hreach u href hsteps
  exact ⟨this.1.2.1, this.2⟩

/-- a `Do` blocked in `push` is released by cancellation: the matching `select` case is enabled, delivers exactly one
error result, and the task was not (and, by `error_result_never_executed`, will never be) executed -/
theorem cancel_releases (c : Config (M P)) (h : Reach (M P) c) (t : Tid) (u : Nat) (hl : c.l t = .push u)
    (hd : c.g.ctxDone = true ∨ taskCtxDone c.g u = true) :
    ∃ k r, (k = 0 ∨ k = 1) ∧ r ≠ Res.val ∧
      (M P).step t c.g (c.l t) (.choose k) = some (c.g.send u r, .d9 u, []) ∧
      ((c.g.send u r).task u).results = [r] ∧ ((c.g.send u r).task u).exec = 0 := by
  revert c; rintro ⟨(g : G), (ls : Tid → L)⟩ h hl hd
  dsimp only at *
  obtain ⟨hlen, _, hx, hr, _⟩ := submitter_owns _ h t u (by dsimp only; rw [hl]; rfl)
  dsimp only at *
  have hres : ∀ r, sendRes g u r = some (g.send u r) := fun r => sendRes_eq_some.2 ⟨hr, rfl⟩
  have hfin : ∀ r, ((g.send u r).task u).results = [r] ∧ ((g.send u r).task u).exec = 0 := fun r =>
    ⟨by simp [send_task, hlen], by rw [send_exec]; exact hx⟩
  rcases hd with hd | hd
  · refine ⟨0, .errPool, Or.inl rfl, by decide, ?_, hfin _⟩
    rw [hl]; show step P t g (.push u) (.choose 0) = _
    simp [step, selCase, hd, hres]; rfl
  · refine ⟨1, .errTask, Or.inr rfl, by decide, ?_, hfin _⟩
    rw [hl]; show step P t g (.push u) (.choose 1) = _
    simp [step, selCase, hd, hres]; rfl

/-! ## C08: `Stop` drains -/

/-- the `Stop` caller that won the state CAS has returned -/
def stopReturned (c : Config (M P)) : Prop := c.g.state = 2 ∧ ∀ t, stopper (c.l t) = false

theorem run_role_worker {l : L} {u : Nat} (h : role l = some (.run, u)) : fixedLive l = true ∨ expPre l = true := by
  cases l <;> simp [role] at h <;> simp [fixedLive, expPre]

/-- first half of C08 (does not need the wait group): after `Stop` returned the queue is closed and empty, no submission
(and no `Start`) is in flight past its not-stopped check, and every accepted task either has its result or is in the
hands of a worker -/
theorem stop_returned_general (c : Config (M P)) (h : Reach (M P) c) (hs : stopReturned c) :
    c.g.q = [] ∧ c.g.closed = true ∧ (∀ t, inner (c.l t) = false) ∧
    ∀ u, (c.g.task u).enq = true →
      (c.g.task u).results.length = 1 ∨ ∃ t, role (c.l t) = some (.run, u) := by
  have hp := pinv_reach P c h
  obtain ⟨hq, hc⟩ := hp.stop hs.1 hs.2
  refine ⟨hq, hc, fun t => ?_, fun u he => ?_⟩
  · cases hi : inner (c.l t) with
    | false => rfl
    | true => have := hp.lock.inner_open t hi; rw [hc] at this; cases this
  · rcases (hp.task.ok u).located he with h1 | h1 | ⟨t, ht⟩ | h1
    · rw [hq] at h1; cases h1
    · exact Or.inr h1
    · have hst : stopper (c.l t) = true := by
        cases hl : c.l t <;> rw [hl] at ht <;> simp [role] at ht <;> rfl
      rw [hs.2 t] at hst; cases hst
    · left
      have := result_at_most_once c h u
      cases hr : (c.g.task u).results with
      | nil => exact absurd hr h1
      | cons a as => rw [hr] at this; simp at this ⊢; exact this

/-- C08: when `Stop` has returned, every accepted task has exactly one result, the wait group is at zero, no worker
(fixed or expanded) is alive before its `wg.Done` (a worker thread can only be at `wdone`, `eexit2` — the deferred
`expanded` decrement after `wg.Done` — or `exited`), no spawned goroutine is pending, nobody holds a task, the queue is
closed and empty -/
theorem stop_drains (c : Config (M P)) (h : Reach (M P) c) (hs : stopReturned c) :
    (∀ u, (c.g.task u).enq = true → (c.g.task u).results.length = 1) ∧ c.g.wg = 0 ∧
    (∀ t, fixedLive (c.l t) = false ∧ expPre (c.l t) = false) ∧ c.g.spawnFixed = 0 ∧ c.g.spawnExp = 0 ∧
    (∀ t u, role (c.l t) ≠ some (.run, u)) ∧ c.g.q = [] ∧ c.g.closed = true := by
  have hp := pinv_reach P c h
  have hnw : ∀ t, preWait (c.l t) = false := by
    intro t
    cases hh : preWait (c.l t) with
    | false => rfl
    | true => have := stopper_of_preWait hh; rw [hs.2 t] at this; cases this
  have hwg : c.g.wg = 0 := hp.wait hs.1 hnw
  obtain ⟨f, e, hf, he, hcount⟩ := hp.count.wg
  rw [hwg] at hcount
  have hf0 : f = 0 := by omega
  have he0 : e = 0 := by omega
  subst hf0 he0
  obtain ⟨hq, hc, _, htasks⟩ := stop_returned_general c h hs
  have hnorun : ∀ t u, role (c.l t) ≠ some (.run, u) := by
    intro t u ht
    rcases run_role_worker ht with h2 | h2
    · rw [hf.zero t] at h2; cases h2
    · rw [he.zero t] at h2; cases h2
  refine ⟨fun u hu => ?_, hwg, fun t => ⟨hf.zero t, he.zero t⟩, by omega, by omega, hnorun, hq, hc⟩
  rcases htasks u hu with h1 | ⟨t, ht⟩
  · exact h1
  · exact absurd ht (hnorun t u)

/-- already while the `Stop` caller is draining (past `wg.Wait()`), the wait group is at zero and stays there -/
theorem wait_passed (c : Config (M P)) (h : Reach (M P) c) (hs : c.g.state = 2)
    (hno : ∀ t, preWait (c.l t) = false) : c.g.wg = 0 ∧ c.g.closed = true :=
  ⟨(pinv_reach P c h).wait hs hno, closed_of_pastWait (pinv_reach P c h).lock (pinv_reach P c h).stop hs hno⟩

def P10 : Params := { nworker := 1, limit := 0, lifetime := 1 }

def lOf (P : Params) (c : Config (M P)) (t : Tid) : L := c.l t
def gOf (P : Params) (c : Config (M P)) : G := c.g

/-- (why the lock invariant is `inner → closed = false` and not "`closed` → nobody holds the read lock"): after `Stop`
has closed the queue and released the write lock, a `Do` takes the read lock, sees `stopped()` and refuses -/
theorem closed_reader_witness :
    let c := (run (M P10) (Config.init (M P10))
      [(0, .callStop), (0, .tau), (0, .tau), (0, .tau), (0, .tau), (0, .tau), (0, .tau), (0, .tau),
       (1, .callDo .never), (1, .tau)]).1
    (gOf P10 c).closed = true ∧ (gOf P10 c).readers = 1 ∧ lOf P10 c 1 = .d2 0 := by
  decide

/-- whenever a `Stop` call returns — as the winner of the state CAS after draining, or because both of its CASes
failed — the pool is in state 2 (stopped): `Stop` never returns from a pool that keeps running.  (The loser's second
CAS 1→2 can only fail on `state ≠ 1`; its first CAS 0→2 failed on `state ≠ 0`, and the state word never returns to 0.) -/
theorem stop_returns_stopped (c : Config (M P)) (h : Reach (M P) c) (t : Tid) (a : Act) (g' : G) (l' : L)
    (obs : List Obs) (hs : (M P).step t c.g (c.l t) a = some (g', l', obs)) (hret : Obs.retStop ∈ obs) :
    g'.state = 2 := by
  have hp := pinv_reach P c h
  obtain ⟨hg, hcase⟩ := retStop_step (t := t) hs hret
  subst hg
  rcases hcase with ⟨hl, hne⟩ | ⟨hl, _⟩
  · have h0 := hp.sp1.2 t (by rw [hl]; rfl)
    have hle := hp.sp1.1
    omega
  · exact hp.lock.stop_state t (by rw [hl]; rfl)

/-- the state word never leaves 2 -/
theorem stopped_stable (c c' : Config (M P)) (hs : c.g.state = 2) (h : Steps (M P) c c') : c'.g.state = 2 := by
  induction h with
  | refl => exact hs
  | @step c' t a g' l' obs _ hstep ih =>
    have ht := step_trans (t := t) hstep
    generalize c'.l t = l at ht
    revert c'; rintro ⟨(g : G), (ls : Tid → L)⟩ _ _ ih ht
    dsimp only at *
    cases ht <;> first | exact ih | rfl | (simp_all; done)

/-- once `Stop` has returned, nobody holds or awaits the write side of `submitLock` -/
theorem write_lock_free (c : Config (M P)) (h : Reach (M P) c) (hs : stopReturned c) :
    c.g.writer = false ∧ c.g.wpending = false := by
  have hp := pinv_reach P c h
  constructor
  · cases hw : c.g.writer with
    | false => rfl
    | true =>
      obtain ⟨t, ht⟩ := hp.wlock.writer hw
      have := stopper_of_hasW ht; rw [hs.2 t] at this; cases this
  · cases hw : c.g.wpending with
    | false => rfl
    | true =>
      obtain ⟨t, ht⟩ := hp.wlock.wpending hw
      have : stopper (c.l t) = true := by cases hl : c.l t <;> rw [hl] at ht <;> simp [isSp3b] at ht <;> rfl
      rw [hs.2 t] at this; cases this

/-- `Stop` on a stopped pool: both CASes fail, the call returns without touching the shared state -/
theorem stop_idempotent (g : G) (t : Tid) (hs : g.state = 2) :
    step P t g .idle .callStop = some (g, .sp0, []) ∧ step P t g .sp0 .tau = some (g, .sp1, []) ∧
    step P t g .sp1 .tau = some (g, .idle, [.retStop]) := by
  simp [step, hs]

/-- `Start` on a stopped pool whose write lock is free (`write_lock_free`): RLock, failing CAS, RUnlock — the call
does not block and returns with the shared state unchanged -/
theorem start_idempotent (g : G) (t : Tid) (hs : g.state = 2) (hw : g.writer = false) (hp : g.wpending = false) :
    step P t g .idle .callStart = some (g, .st0, []) ∧
    step P t g .st0 .tau = some ({ g with readers := g.readers + 1 }, .st0c, []) ∧
    step P t { g with readers := g.readers + 1 } .st0c .tau = some ({ g with readers := g.readers + 1 }, .st2, []) ∧
    step P t { g with readers := g.readers + 1 } .st2 .tau = some (g, .idle, [.retStart]) := by
  refine ⟨rfl, by simp [step, hw, hp], by simp [step, hs], ?_⟩
  simp [step]

theorem run_cons_some {M : Machine} {c : Config M} {t : Tid} {a : M.Act} {rest : List (Tid × M.Act)} {l : M.L}
    {g' : M.G} {l' : M.L} {obs : List M.Obs} (hl : c.l t = l) (h : M.step t c.g l a = some (g', l', obs)) :
    run M c ((t, a) :: rest) =
      ((run M ⟨g', upd c.l t l'⟩ rest).1, obs.map (fun o => (t, o)) ++ (run M ⟨g', upd c.l t l'⟩ rest).2) := by
  subst hl
  simp [run, h]

/-- C08, idempotence: after `Stop` returned, further `Stop` and `Start` calls by an idle thread run to completion on
their own and leave the shared state exactly as it was -/
theorem stop_start_idempotent (c : Config (M P)) (h : Reach (M P) c) (hs : stopReturned c) (t : Tid)
    (hl : c.l t = .idle) :
    (run (M P) c [(t, .callStop), (t, .tau), (t, .tau)]).1.g = c.g ∧
    (run (M P) c [(t, .callStop), (t, .tau), (t, .tau)]).1.l t = .idle ∧
    (run (M P) c [(t, .callStop), (t, .tau), (t, .tau)]).2 = [(t, .retStop)] ∧
    (run (M P) c [(t, .callStart), (t, .tau), (t, .tau), (t, .tau)]).1.g = c.g ∧
    (run (M P) c [(t, .callStart), (t, .tau), (t, .tau), (t, .tau)]).1.l t = .idle ∧
    (run (M P) c [(t, .callStart), (t, .tau), (t, .tau), (t, .tau)]).2 = [(t, .retStart)] := by
  obtain ⟨hw, hp⟩ := write_lock_free c h hs
  have hst := hs.1
  clear h hs
  revert c; rintro ⟨(g : G), (ls : Tid → L)⟩ hl hw hp hst
  dsimp only at *
  obtain ⟨a1, a2, a3⟩ := stop_idempotent (P := P) g t hst
  obtain ⟨b1, b2, b3, b4⟩ := start_idempotent (P := P) g t hst hw hp
  have ha1 : (M P).step t g L.idle .callStop = some (g, .sp0, []) := a1
  have ha2 : (M P).step t g L.sp0 .tau = some (g, .sp1, []) := a2
  have ha3 : (M P).step t g L.sp1 .tau = some (g, .idle, [.retStop]) := a3
  have hb1 : (M P).step t g L.idle .callStart = some (g, .st0, []) := b1
  have hb2 : (M P).step t g L.st0 .tau = some ({ g with readers := g.readers + 1 }, .st0c, []) := b2
  have hb3 : (M P).step t { g with readers := g.readers + 1 } L.st0c .tau =
      some ({ g with readers := g.readers + 1 }, .st2, []) := b3
  have hb4 : (M P).step t { g with readers := g.readers + 1 } L.st2 .tau = some (g, .idle, [.retStart]) := b4
  have e1 := run_cons_some (M := M P) (c := ⟨g, ls⟩) (rest := [(t, .tau), (t, .tau)]) hl ha1
  have e2 := run_cons_some (M := M P) (c := ⟨g, upd ls t .sp0⟩) (rest := [(t, .tau)]) (upd_same _ _ _) ha2
  have e3 := run_cons_some (M := M P) (c := ⟨g, upd (upd ls t .sp0) t .sp1⟩) (rest := []) (upd_same _ _ _) ha3
  have f1 := run_cons_some (M := M P) (c := ⟨g, ls⟩) (rest := [(t, .tau), (t, .tau), (t, .tau)]) hl hb1
  have f2 := run_cons_some (M := M P) (c := ⟨g, upd ls t .st0⟩) (rest := [(t, .tau), (t, .tau)]) (upd_same _ _ _) hb2
  have f3 := run_cons_some (M := M P) (c := ⟨{ g with readers := g.readers + 1 }, upd (upd ls t .st0) t .st0c⟩)
    (rest := [(t, .tau)]) (upd_same _ _ _) hb3
  have f4 := run_cons_some (M := M P)
    (c := ⟨{ g with readers := g.readers + 1 }, upd (upd (upd ls t .st0) t .st0c) t .st2⟩)
    (rest := []) (upd_same _ _ _) hb4
  dsimp only at e1 e2 e3 f1 f2 f3 f4
  rw [e1, e2, e3, f1, f2, f3, f4]
  simp only [run]
  exact ⟨rfl, upd_same _ _ _, rfl, rfl, upd_same _ _ _, rfl⟩

/-! ## C11: number of workers, cap on concurrently executing tasks -/

/-- the meaning of the two counters: `wg` = live workers before their `wg.Done` + spawned-but-not-yet-running
goroutines; `expanded` = expanded workers before their decrement + reservations in flight (`dspawn`, `dundo`) +
spawned-but-not-yet-running expanded workers; and the reservations that lead to a spawn respect the limit -/
theorem counter_meaning (c : Config (M P)) (h : Reach (M P) c) :
    (∃ f e, Counts fixedLive c.l f ∧ Counts expPre c.l e ∧
      c.g.wg = ((f + e + c.g.spawnFixed + c.g.spawnExp : Nat) : Int)) ∧
    (∃ e x s d, Counts expPre c.l e ∧ Counts isEexit2 c.l x ∧ Counts isDspawn c.l s ∧ Counts isDundo c.l d ∧
      c.g.expanded = ((e + x + s + d + c.g.spawnExp : Nat) : Int) ∧ e + x + s + c.g.spawnExp ≤ P.limit) :=
  ⟨(pinv_reach P c h).count.wg, (pinv_reach P c h).count.exp⟩

/-- an expanded worker is spawned only after a reservation within the limit -/
theorem spawn_guard (g g' : G) (t : Tid) (u : Nat) (obs : List Obs)
    (h : step P t g (.dres u) .tau = some (g', .dspawn u, obs)) : g.expanded + 1 ≤ (P.limit : Int) := by
  have := step_trans h
  cases this
  assumption

theorem fixed_workers_le (c : Config (M P)) (h : Reach (M P) c) :
    ∃ f, Counts fixedLive c.l f ∧ f + c.g.spawnFixed ≤ P.nworker := by
  obtain ⟨f, k, hf, _, hd, _⟩ := (pinv_reach P c h).count.fixed
  exact ⟨f, hf, by omega⟩

theorem expanded_workers_le (c : Config (M P)) (h : Reach (M P) c) :
    ∃ e x, Counts expPre c.l e ∧ Counts isEexit2 c.l x ∧ e + x + c.g.spawnExp ≤ P.limit := by
  obtain ⟨e, x, s, d, he, hx, _, _, _, hle⟩ := (pinv_reach P c h).count.exp
  exact ⟨e, x, he, hx, by omega⟩

theorem no_expanded_when_limit_zero (c : Config (M P)) (h : Reach (M P) c) (h0 : P.limit = 0) :
    c.g.spawnExp = 0 ∧ ∀ t, expPre (c.l t) = false ∧ isEexit2 (c.l t) = false := by
  obtain ⟨e, x, he, hx, hle⟩ := expanded_workers_le c h
  have : e = 0 := by omega
  have : x = 0 := by omega
  subst_vars
  exact ⟨by omega, fun t => ⟨he.zero t, hx.zero t⟩⟩

/-- a worker inside the executor -/
def executing : L → Bool
  | .wexec _ | .eexec _ => true
  | _ => false

/-- at most `NumberWorker + ExpandableLimit` workers are inside an executor at any time -/
theorem cap (c : Config (M P)) (h : Reach (M P) c) (ts : List Tid) (hnd : ts.Nodup)
    (hex : ∀ t ∈ ts, executing (c.l t) = true) : ts.length ≤ P.nworker + P.limit := by
  obtain ⟨f, hf, hfle⟩ := fixed_workers_le c h
  obtain ⟨e, x, he, _, hele⟩ := expanded_workers_le c h
  have hor := hf.or he (fun l h1 h2 => by cases l <;> simp [fixedLive, expPre] at h1 h2)
  have := hor.length_le ts hnd (fun t ht => by
    have := hex t ht
    cases hl : c.l t <;> rw [hl] at this <;> simp [executing] at this <;> simp [fixedLive, expPre])
  omega

/-- the same, counting tasks: at most `NumberWorker + ExpandableLimit` tasks are being executed at any time -/
theorem cap_tasks (c : Config (M P)) (h : Reach (M P) c) (us : List Nat) (hnd : us.Nodup)
    (hex : ∀ u ∈ us, ∃ t, c.l t = .wexec u ∨ c.l t = .eexec u) : us.length ≤ P.nworker + P.limit := by
  suffices hts : ∃ ts : List Tid, ts.Nodup ∧ ts.length = us.length ∧
      ∀ t ∈ ts, ∃ u ∈ us, c.l t = .wexec u ∨ c.l t = .eexec u by
    obtain ⟨ts, h1, h2, h3⟩ := hts
    rw [← h2]
    refine cap c h ts h1 (fun t ht => ?_)
    obtain ⟨u, _, hu | hu⟩ := h3 t ht <;> rw [hu] <;> rfl
  clear h
  induction us with
  | nil => exact ⟨[], List.nodup_nil, rfl, fun t ht => by cases ht⟩
  | cons u us ih =>
    obtain ⟨hu, hnd'⟩ := List.nodup_cons.1 hnd
    obtain ⟨ts, h1, h2, h3⟩ := ih hnd' (fun v hv => hex v (List.mem_cons_of_mem _ hv))
    obtain ⟨t, ht⟩ := hex u List.mem_cons_self
    refine ⟨t :: ts, List.nodup_cons.2 ⟨fun hmem => ?_, h1⟩, by simp [h2], fun t' ht' => ?_⟩
    · obtain ⟨v, hv, hv'⟩ := h3 t hmem
      have : v = u := by
        rcases ht with ht | ht <;> rcases hv' with hv' | hv' <;> rw [ht] at hv' <;> cases hv' <;> rfl
      exact hu (this ▸ hv)
    · rcases List.mem_cons.1 ht' with rfl | hm
      · exact ⟨u, List.mem_cons_self, ht⟩
      · obtain ⟨v, hv, hv'⟩ := h3 t' hm
        exact ⟨v, List.mem_cons_of_mem _ hv, hv'⟩

end Garr.Props.Pool
