import Garr.Props.Pool
/-!
# Worker pool, C11 second half: the pool does expand, expansion is temporary, capacity comes back

Safety (`Garr.Props.Pool.cap`) bounds the number of workers from above.  This file proves the enabledness facts behind
"reaches its cap" and "expansion is temporary":

* `expands_below_limit` – a submitter that found the queue full while fewer than `ExpandableLimit` expanded workers,
  reservations and not-yet-finished exits exist takes the *spawn* branch (never the undo branch);
* `spawn_then_take` – the spawned goroutine starts, and takes the queued task as soon as one is there;
* `idle_expiry` – an expanded worker whose deadline has passed can leave: expiry, `wg.Done`, counter decrement are enabled one
  after the other and give the reservation back;
* `deadline_is_lifetime` – the deadline of an expanded worker is re-armed to `now + ExpandedLifetime` when it starts and after
  every task it has run (so it only expires after a full idle `ExpandedLifetime`);
* `capacity_restored` – once no expanded worker, no exit in progress and no reservation is left, the counter is back at 0,
  i.e. the whole `ExpandableLimit` is available again.

What is NOT proved (fairness / liveness proper): that the scheduler eventually runs those enabled steps.
-/
namespace Garr.Props.Pool
open Garr.Conc Garr.Pool

variable {P : Params}

theorem counts_zero_of_none {p : L → Bool} {l : Tid → L} {n : Nat} (h : Counts p l n) (hn : ∀ t, p (l t) = false) :
    n = 0 := by
  obtain ⟨ts, _, hlen, hmem⟩ := h
  cases ts with
  | nil => exact hlen.symm
  | cons a as =>
    have : p (l a) = true := (hmem a).1 List.mem_cons_self
    rw [hn a] at this; cases this

/-- the shared counter is exactly (expanded workers) + (exits between `wg.Done` and the decrement) + (reservations in
flight); a submitter at the reservation step with that total below the limit spawns a worker -/
theorem expands_below_limit (c : Config (M P)) (h : Reach (M P) c) (t : Tid) (u : Nat) (hl : c.l t = .dres u)
    (e x s d : Nat) (he : Counts expPre c.l e) (hx : Counts isEexit2 c.l x) (hs : Counts isDspawn c.l s)
    (hd : Counts isDundo c.l d) (hlt : e + x + s + d + c.g.spawnExp < P.limit) :
    (M P).step t c.g (c.l t) .tau = some ({ c.g with expanded := c.g.expanded + 1 }, .dspawn u, []) := by
  obtain ⟨e', x', s', d', he', hx', hs', hd', heq, _⟩ := (pinv_reach P c h).count.exp
  have h1 := he.unique he'; have h2 := hx.unique hx'; have h3 := hs.unique hs'; have h4 := hd.unique hd'
  subst h1 h2 h3 h4
  rw [hl]
  show step P t c.g (.dres u) .tau = _
  have : c.g.expanded + 1 ≤ (P.limit : Int) := by rw [heq]; omega
  simp only [step, this, if_true]
  rfl

/-- … and conversely the undo branch is taken only when the limit is exhausted by workers and reservations that exist -/
theorem undo_only_at_limit (c : Config (M P)) (h : Reach (M P) c) (t : Tid) (u : Nat) (hl : c.l t = .dres u)
    (g' : G) (obs : List Obs) (hstep : (M P).step t c.g (c.l t) .tau = some (g', .dundo u, obs)) :
    ∃ e x s d, Counts expPre c.l e ∧ Counts isEexit2 c.l x ∧ Counts isDspawn c.l s ∧ Counts isDundo c.l d ∧
      P.limit ≤ e + x + s + d + c.g.spawnExp := by
  obtain ⟨e, x, s, d, he, hx, hs, hd, heq, _⟩ := (pinv_reach P c h).count.exp
  refine ⟨e, x, s, d, he, hx, hs, hd, ?_⟩
  rw [hl] at hstep
  have hstep' : step P t c.g (.dres u) .tau = some (g', .dundo u, obs) := hstep
  by_cases hle : c.g.expanded + 1 ≤ (P.limit : Int)
  · simp only [step, hle, if_true] at hstep'
    cases hstep'
  · rw [heq] at hle; omega

/-- the spawn step registers the goroutine with the wait group; the goroutine can start; with a task in the queue its
first `select` takes that task and runs it -/
theorem spawn_then_take (g : G) (t t' : Tid) (u v : Nat) (rest : List Nat) :
    step P t g (.dspawn u) .tau = some ({ g with wg := g.wg + 1, spawnExp := g.spawnExp + 1 }, .push u, []) ∧
    (0 < g.spawnExp → step P t' g .idle .beExp =
      some ({ g with spawnExp := g.spawnExp - 1 }, .e0 (g.now + P.lifetime), [])) ∧
    (g.q = v :: rest → ∀ dl, step P t' g (.e0 dl) (.choose 0) = some (runTask g v rest, .eexec v, [.execStart v])) := by
  refine ⟨rfl, fun h => by simp [step, h], fun hq dl => by simp [step, hq]⟩

/-- the deadline of an expanded worker is always "a full `ExpandedLifetime` after it last became idle": it is set to
`now + lifetime` when the goroutine starts and again after each delivered result -/
theorem deadline_is_lifetime (g g' : G) (t : Tid) (l : L) (a : Act) (dl : Nat) (obs : List Obs)
    (hstep : step P t g l a = some (g', .e0 dl, obs)) : dl = g.now + P.lifetime ∧ g'.now = g.now := by
  have ht := step_trans hstep
  cases ht <;> first | exact ⟨rfl, rfl⟩ | (constructor <;> first | rfl | simp_all [sendRes_eq_some])

/-- an expanded worker cannot expire before its deadline -/
theorem no_early_expiry (g g' : G) (t : Tid) (dl : Nat) (l' : L) (obs : List Obs)
    (hstep : step P t g (.e0 dl) (.choose 1) = some (g', l', obs)) : dl ≤ g.now := by
  by_cases h : dl ≤ g.now
  · exact h
  · simp [step, h] at hstep

/-- an expanded worker whose deadline has passed leaves in three enabled steps, gives its wait-group slot and its
reservation back -/
theorem idle_expiry (g : G) (t : Tid) (dl : Nat) (hdl : dl ≤ g.now) :
    step P t g (.e0 dl) (.choose 1) = some (g, .eexit, []) ∧
    step P t g .eexit .tau = some ({ g with wg := g.wg - 1 }, .eexit2, []) ∧
    step P t { g with wg := g.wg - 1 } .eexit2 .tau =
      some ({ g with wg := g.wg - 1, expanded := g.expanded - 1 }, .exited, []) := by
  refine ⟨by simp [step, hdl], rfl, rfl⟩

/-- when every expanded worker has left and no reservation is in flight the counter is 0 again: the full expansion
capacity is available (by `expands_below_limit`, the next `ExpandableLimit` saturated submitters all spawn) -/
theorem capacity_restored (c : Config (M P)) (h : Reach (M P) c)
    (hnone : ∀ t, expPre (c.l t) = false ∧ isEexit2 (c.l t) = false ∧ isDspawn (c.l t) = false ∧ isDundo (c.l t) = false)
    (hsp : c.g.spawnExp = 0) : c.g.expanded = 0 := by
  obtain ⟨e, x, s, d, he, hx, hs, hd, heq, _⟩ := (pinv_reach P c h).count.exp
  have := counts_zero_of_none he (fun t => (hnone t).1)
  have := counts_zero_of_none hx (fun t => (hnone t).2.1)
  have := counts_zero_of_none hs (fun t => (hnone t).2.2.1)
  have := counts_zero_of_none hd (fun t => (hnone t).2.2.2)
  subst_vars
  rw [heq, hsp]; rfl

/-- the counter never goes negative and never exceeds limit + (number of submitters about to undo) -/
theorem expanded_bounds (c : Config (M P)) (h : Reach (M P) c) :
    0 ≤ c.g.expanded ∧ ∃ d, Counts isDundo c.l d ∧ c.g.expanded ≤ ((P.limit + d : Nat) : Int) := by
  obtain ⟨e, x, s, d, _, _, _, hd, heq, hle⟩ := (pinv_reach P c h).count.exp
  refine ⟨by rw [heq]; omega, d, hd, by rw [heq]; omega⟩

/-- non-vacuity: 1 fixed + 1 expandable worker; two tasks saturate worker and queue, the third submitter expands, the
expanded worker runs the queued task: two tasks execute at once (the cap is reached) -/
def P11 : Params := { nworker := 1, limit := 1, lifetime := 5 }

theorem cap_reached_witness :
    let c := (run (M P11) (Config.init (M P11))
      [(0, .callStart), (0, .tau), (0, .tau), (0, .tau), (0, .tau),           -- Start
       (1, .beFixed),
       (2, .callDo .never), (2, .tau), (2, .tau), (2, .tau), (2, .tau),       -- task 0 queued
       (1, .tau),                                                             -- fixed worker runs task 0
       (2, .callDo .never), (2, .tau), (2, .tau), (2, .tau), (2, .tau),       -- task 1 queued
       (3, .callDo .never), (3, .tau), (3, .tau), (3, .tau),                  -- task 2: queue full -> reserve
       (3, .tau), (3, .tau),                                                  -- reservation ok -> spawn
       (4, .beExp), (4, .choose 0),                                           -- expanded worker runs task 1
       (3, .choose 2)]).1                                                     -- task 2 queued
    lOf P11 c 1 = .wexec 0 ∧ lOf P11 c 4 = .eexec 1 ∧ (gOf P11 c).q = [2] ∧ (gOf P11 c).expanded = 1 := by
  decide

end Garr.Props.Pool
