import Garr.Breaker.Doc
import Garr.Validate.Model
/-!
# C06 — the circuit breaker follows its documented state machine

Property theorems only (the documented machine, the refinement relation and the proof live in
`Garr/Breaker/Doc.lean`).  All statements quantify over every configuration, every state, every ticker
script (advancing, standing still, stepping backwards) and every number of listeners.
-/
namespace Garr.Props.C06
open Garr Garr.Breaker

/-! ## CLOSED admits everybody (no reading, no callback) -/

theorem closed_admits (cfg : Config) (st : St) (ts : List Int) (h : st.kind = .closed) :
    canRequest cfg st ts = (st, ts, true, []) := by
  simp [canRequest, h]

/-! ## OPEN / HALF_OPEN fail fast until the deadline, then admit one trial request -/

theorem open_fails_fast (cfg : Config) (st : St) (ts : List Int)
    (hk : st.kind ≠ .closed) (hd : st.dur > 0) (ht : (pop ts).1 < st.timeout) :
    canRequest cfg st ts = (st, (pop ts).2, false, fanRejected cfg.listeners) := by
  have hn : ¬ st.timeout ≤ (pop ts).1 := by omega
  unfold canRequest
  cases hkind : st.kind with
  | closed => exact absurd hkind hk
  | opn => simp [hd, hn]
  | half => simp [hd, hn]

theorem open_then_trial (cfg : Config) (st : St) (ts : List Int)
    (hk : st.kind ≠ .closed) (hd : st.dur > 0) (ht : st.timeout ≤ (pop ts).1) :
    canRequest cfg st ts =
      ({ kind := .half, timeout := wrap64 ((pop (pop ts).2).1 + cfg.trial), dur := cfg.trial, win := st.win },
       (pop (pop ts).2).2, true, fanState cfg.listeners .half) := by
  unfold canRequest
  cases hkind : st.kind with
  | closed => exact absurd hkind hk
  | opn => simp [hd, ht, newTimed]
  | half => simp [hd, ht, newTimed]

/-! ## The trial request decides -/

theorem trial_success_closes_empty (cfg : Config) (st : St) (ts : List Int) (h : st.kind = .half) :
    (onSuccess cfg st ts).1.kind = .closed ∧
    (onSuccess cfg st ts).1.win = newWin (pop ts).1 ∧
    (onSuccess cfg st ts).1.win.res = [] ∧
    (onSuccess cfg st ts).1.win.cur = ⟨(pop ts).1, 0, 0⟩ ∧
    (onSuccess cfg st ts).2.1 = (pop (pop ts).2).2 ∧
    (onSuccess cfg st ts).2.2 = fanState cfg.listeners .closed := by
  simp [onSuccess, h, newClosed, newWin]

theorem trial_failure_reopens (cfg : Config) (st : St) (ts : List Int) (h : st.kind = .half) :
    onFailure cfg st ts =
      ({ kind := .opn, timeout := wrap64 ((pop ts).1 + cfg.openW), dur := cfg.openW, win := st.win },
       (pop ts).2, fanState cfg.listeners .opn) := by
  simp [onFailure, h, newTimed]

/-! ## Reports in OPEN do nothing -/

theorem open_ignores_reports (cfg : Config) (st : St) (ts : List Int) (h : st.kind = .opn) :
    onSuccess cfg st ts = (st, ts, []) ∧ onFailure cfg st ts = (st, ts, []) := by
  simp [onSuccess, onFailure, h]

/-! ## CLOSED opens exactly on a failure that completes an update interval with a tripping count -/

theorem opens_iff (cfg : Config) (st : St) (ts : List Int) (h : st.kind = .closed) :
    ((onFailure cfg st ts).1.kind = .opn ↔
      ∃ s f, (onEvent cfg.window cfg.interval st.win (pop ts).1 false).2 = some (s, f) ∧ exceeds cfg s f = true) ∧
    (onSuccess cfg st ts).1.kind = .closed := by
  constructor
  · unfold onFailure
    simp only [h]
    cases he : (onEvent cfg.window cfg.interval st.win (pop ts).1 false).2 with
    | none => simp
    | some sf =>
      obtain ⟨s, f⟩ := sf
      by_cases hx : exceeds cfg s f = true
      · simp only [hx, if_true, newTimed, true_iff]
        exact ⟨s, f, rfl, hx⟩
      · simp [hx]
  · unfold onSuccess
    simp only [h]
    cases he : (onEvent cfg.window cfg.interval st.win (pop ts).1 true).2 with
    | none => simp
    | some sf => simp

/-- the trip rule: non-empty, at least the minimum, rate STRICTLY above the threshold -/
theorem exceeds_iff (cfg : Config) (s f : Int) :
    exceeds cfg s f = true ↔
      0 < wrap64 (s + f) ∧ cfg.minReq ≤ wrap64 (s + f) ∧
      F64.lt cfg.thr (F64.div (F64.ofInt f) (F64.ofInt (wrap64 (s + f)))) = true := by
  unfold exceeds
  by_cases h0 : wrap64 (s + f) = 0
  · simp [h0]
  · simp [h0, and_assoc]

/-! ## Every listener is notified exactly once per event, in registration order -/

theorem fanState_succ (k : Nat) (kd : Kind) :
    fanState (k + 1) kd = fanState k kd ++ [Cb.state k kd, Cb.count k 0 0] := by
  simp [fanState, List.range_succ, List.flatMap_append]

theorem fanCount_succ (k : Nat) (s f : Int) : fanCount (k + 1) s f = fanCount k s f ++ [Cb.count k s f] := by
  simp [fanCount, List.range_succ]

theorem fanRejected_succ (k : Nat) : fanRejected (k + 1) = fanRejected k ++ [Cb.rejected k] := by
  simp [fanRejected, List.range_succ]

theorem fanState_length (k : Nat) (kd : Kind) : (fanState k kd).length = 2 * k := by
  induction k with
  | zero => rfl
  | succ k ih => rw [fanState_succ, List.length_append, ih]; simp; omega

/-- positions `2i`, `2i+1` of the state fan-out hold listener `i`'s `StateChanged` then its `EventCountUpdated(0,0)` -/
theorem fanState_get (k : Nat) (kd : Kind) (i : Nat) (hi : i < k) :
    (fanState k kd)[2 * i]? = some (Cb.state i kd) ∧ (fanState k kd)[2 * i + 1]? = some (Cb.count i 0 0) := by
  induction k with
  | zero => omega
  | succ k ih =>
    rw [fanState_succ]
    by_cases h : i < k
    · have h1 : 2 * i < (fanState k kd).length := by rw [fanState_length]; omega
      have h2 : 2 * i + 1 < (fanState k kd).length := by rw [fanState_length]; omega
      rw [List.getElem?_append_left h1, List.getElem?_append_left h2]
      exact ih h
    · have hik : i = k := by omega
      subst hik
      have h1 : (fanState i kd).length ≤ 2 * i := by rw [fanState_length]; omega
      have h2 : (fanState i kd).length ≤ 2 * i + 1 := by rw [fanState_length]; omega
      rw [List.getElem?_append_right h1, List.getElem?_append_right h2, fanState_length]
      have e1 : 2 * i - 2 * i = 0 := by omega
      have e2 : 2 * i + 1 - 2 * i = 1 := by omega
      rw [e1, e2]
      exact ⟨rfl, rfl⟩

theorem fanState_count_state (k : Nat) (kd kd' : Kind) (i : Nat) :
    (fanState k kd).count (Cb.state i kd') = if i < k ∧ kd' = kd then 1 else 0 := by
  induction k with
  | zero => simp [fanState]
  | succ k ih =>
    rw [fanState_succ, List.count_append, ih]
    by_cases hk : kd' = kd
    · by_cases h : i < k
      · have : ¬ k = i := by omega
        have h' : i < k + 1 := by omega
        simp [h, h', hk, this]
      · by_cases h2 : i = k
        · subst h2; simp [hk]
        · have : ¬ k = i := by omega
          have h' : ¬ i < k + 1 := by omega
          simp [h, h', this]
    · have hk' : ¬ kd = kd' := fun e => hk e.symm
      simp [hk, hk']

theorem fanState_count_count (k : Nat) (kd : Kind) (i : Nat) (s f : Int) :
    (fanState k kd).count (Cb.count i s f) = if i < k ∧ s = 0 ∧ f = 0 then 1 else 0 := by
  induction k with
  | zero => simp [fanState]
  | succ k ih =>
    rw [fanState_succ, List.count_append, ih]
    by_cases hz : s = 0 ∧ f = 0
    · obtain ⟨rfl, rfl⟩ := hz
      by_cases h : i < k
      · have : ¬ k = i := by omega
        have h' : i < k + 1 := by omega
        simp [h, h', this]
      · by_cases h2 : i = k
        · subst h2; simp
        · have : ¬ k = i := by omega
          have h' : ¬ i < k + 1 := by omega
          simp [h, h', this]
    · have hz' : ¬ (0 = s ∧ 0 = f) := fun ⟨a, b⟩ => hz ⟨a.symm, b.symm⟩
      have hz1 : ¬ (i < k ∧ s = 0 ∧ f = 0) := fun ⟨_, b⟩ => hz b
      have hz2 : ¬ (i < k + 1 ∧ s = 0 ∧ f = 0) := fun ⟨_, b⟩ => hz b
      simp only [hz1, hz2, if_false]
      have hne : (Cb.count k 0 0 == Cb.count i s f) = false := by
        simp only [beq_eq_false_iff_ne, ne_eq, Cb.count.injEq, not_and]
        intro _ a b; exact hz ⟨a.symm, b.symm⟩
      simp [List.count_cons, hne]

theorem fanState_count_rejected (k : Nat) (kd : Kind) (i : Nat) : (fanState k kd).count (Cb.rejected i) = 0 := by
  induction k with
  | zero => simp [fanState]
  | succ k ih => rw [fanState_succ, List.count_append, ih]; simp

theorem fanRejected_count (k i : Nat) : (fanRejected k).count (Cb.rejected i) = if i < k then 1 else 0 := by
  induction k with
  | zero => simp [fanRejected]
  | succ k ih =>
    rw [fanRejected_succ, List.count_append, ih]
    by_cases h : i < k
    · have : ¬ k = i := by omega
      have h' : i < k + 1 := by omega
      simp [h, h', this]
    · by_cases h2 : i = k
      · subst h2; simp
      · have : ¬ k = i := by omega
        have h' : ¬ i < k + 1 := by omega
        simp [h, h', this]

theorem fanCount_count (k i : Nat) (s f : Int) : (fanCount k s f).count (Cb.count i s f) = if i < k then 1 else 0 := by
  induction k with
  | zero => simp [fanCount]
  | succ k ih =>
    rw [fanCount_succ, List.count_append, ih]
    by_cases h : i < k
    · have : ¬ k = i := by omega
      have h' : i < k + 1 := by omega
      simp [h, h', this]
    · by_cases h2 : i = k
      · subst h2; simp
      · have : ¬ k = i := by omega
        have h' : ¬ i < k + 1 := by omega
        simp [h, h', this]

/-- each notification reaches every registered listener exactly once, in registration order, and nobody else -/
theorem notify_exactly_once (k : Nat) (kd : Kind) (s f : Int) :
    -- state change: listener `i` gets `StateChanged(kd)` at position `2i` and `EventCountUpdated(0,0)` at `2i+1`,
    -- and these are all the entries
    (fanState k kd).length = 2 * k ∧
    (∀ i, i < k → (fanState k kd)[2 * i]? = some (Cb.state i kd) ∧ (fanState k kd)[2 * i + 1]? = some (Cb.count i 0 0)) ∧
    (∀ i, (fanState k kd).count (Cb.state i kd) = if i < k then 1 else 0) ∧
    (∀ i, (fanState k kd).count (Cb.count i 0 0) = if i < k then 1 else 0) ∧
    -- rejection: position `i` is listener `i`'s `RequestRejected`
    (fanRejected k).length = k ∧
    (∀ i, i < k → (fanRejected k)[i]? = some (Cb.rejected i)) ∧
    (∀ i, (fanRejected k).count (Cb.rejected i) = if i < k then 1 else 0) ∧
    -- count update: position `i` is listener `i`'s `EventCountUpdated(s,f)`
    (fanCount k s f).length = k ∧
    (∀ i, i < k → (fanCount k s f)[i]? = some (Cb.count i s f)) ∧
    (∀ i, (fanCount k s f).count (Cb.count i s f) = if i < k then 1 else 0) := by
  refine ⟨fanState_length k kd, fanState_get k kd, ?_, ?_, ?_, ?_, fanRejected_count k, ?_, ?_, fun i => fanCount_count k i s f⟩
  · intro i; rw [fanState_count_state]; simp
  · intro i; rw [fanState_count_count]; simp
  · simp [fanRejected]
  · intro i hi; simp [fanRejected, hi]
  · simp [fanCount]
  · intro i hi; simp [fanCount, hi]

/-- every call notifies nobody, or performs exactly one of the three fan-outs -/
theorem out_is_fan (cfg : Config) (st : St) (ts : List Int) (op : Op) :
    let cbs := (stepOp cfg st ts op).2.2.cbs
    cbs = [] ∨ (∃ kd, cbs = fanState cfg.listeners kd) ∨ (∃ s f, cbs = fanCount cfg.listeners s f) ∨
      cbs = fanRejected cfg.listeners := by
  cases op with
  | can =>
    simp only [stepOp, canRequest]
    cases st.kind <;> simp only
    · exact Or.inl (by first | rfl | trivial)
    all_goals
      by_cases hd : st.dur > 0
      · by_cases ht : st.timeout ≤ (pop ts).1
        · simp only [hd, ht, if_true]; exact Or.inr (Or.inl ⟨_, rfl⟩)
        · simp only [hd, ht, if_true, if_false]; exact Or.inr (Or.inr (Or.inr (by first | rfl | trivial)))
      · simp only [hd, if_false]; exact Or.inr (Or.inr (Or.inr (by first | rfl | trivial)))
  | succ =>
    simp only [stepOp, onSuccess]
    cases st.kind <;> simp only
    · cases (onEvent cfg.window cfg.interval st.win (pop ts).1 true).2 with
      | none => exact Or.inl (by first | rfl | trivial)
      | some sf => exact Or.inr (Or.inr (Or.inl ⟨_, _, rfl⟩))
    · exact Or.inl (by first | rfl | trivial)
    · exact Or.inr (Or.inl ⟨_, rfl⟩)
  | fail =>
    simp only [stepOp, onFailure]
    cases st.kind <;> simp only
    · cases (onEvent cfg.window cfg.interval st.win (pop ts).1 false).2 with
      | none => exact Or.inl (by first | rfl | trivial)
      | some sf =>
        by_cases hx : exceeds cfg sf.1 sf.2 = true
        · simp only [hx, if_true]; exact Or.inr (Or.inl ⟨_, rfl⟩)
        · simp only [hx]; exact Or.inr (Or.inr (Or.inl ⟨_, _, rfl⟩))
    · exact Or.inl (by first | rfl | trivial)
    · exact Or.inr (Or.inl ⟨_, rfl⟩)

/-! ## Non-vacuity: a concrete run that opens the circuit -/

/-- threshold 0.5, minimum 1 request, update interval 10, window 20, one listener -/
def exCfg : Config :=
  { thr := .fin false (2^52) (-53), minReq := 1, trial := 3, openW := 100, window := 20, interval := 10, listeners := 1 }

/-- constructor reads 0,0; a failure at tick 5 (inside the first interval), a failure at tick 20 completes the
interval with 0 successes / 1 failure in the window: rate 1 > 0.5, the circuit opens until 21+100 -/
example :
    let c := create exCfg [0, 0, 5, 20, 21, 50, 121, 122]
    let r := runOps exCfg c.1 c.2.1 [.fail, .fail, .can, .can]
    r.1 = [⟨none, []⟩, ⟨none, [.state 0 .opn, .count 0 0 0]⟩, ⟨some false, [.rejected 0]⟩,
           ⟨some true, [.state 0 .half, .count 0 0 0]⟩] ∧
    r.2.1.kind = .half ∧ r.2.1.timeout = 125 ∧ r.2.2 = [] := by
  decide +kernel

/-! ## The code follows the documented machine (refinement; proofs in `Garr/Breaker/Doc.lean`) -/

/-- the sliding-window counter represents the event log: same count reported (`trimAndSum` = number of logged
successes / failures stamped inside the window), counting invariant preserved -/
theorem window_refines_log (cfg : Config) (w : Win) (es : List DocEv) (cur t : Int) (succ : Bool)
    (hc : CfgOK cfg) (ht : InRange t) (hn : es.length < 2^62) (hr : WinRel w es cur) :
    (onEvent cfg.window cfg.interval w t succ).2 = (docOnEvent cfg.window cfg.interval es cur t succ).2.2 ∧
    WinRel (onEvent cfg.window cfg.interval w t succ).1 (docOnEvent cfg.window cfg.interval es cur t succ).1
      (docOnEvent cfg.window cfg.interval es cur t succ).2.1 ∧
    (docOnEvent cfg.window cfg.interval es cur t succ).1.length ≤ es.length + 1 :=
  Garr.Breaker.window_refines_log cfg w es cur t succ hc ht hn hr

/-- one call: same result, same callbacks, same readings consumed, related states -/
theorem C06_refines_doc (cfg : Config) (st : St) (d : Doc) (ts : List Int) (op : Op)
    (hg : NoWrap cfg ts) (hn : d.events.length < 2^62) (hr : Rel st d) :
    (stepOp cfg st ts op).2.2 = (docStep cfg d ts op).2.2 ∧
    (stepOp cfg st ts op).2.1 = (docStep cfg d ts op).2.1 ∧
    Rel (stepOp cfg st ts op).1 (docStep cfg d ts op).1 ∧
    (docStep cfg d ts op).1.events.length ≤ d.events.length + 1 ∧
    NoWrap cfg (docStep cfg d ts op).2.1 :=
  Garr.Breaker.C06_refines_doc cfg st d ts op hg hn hr

/-- `Validate` + the `2^61` upper bounds give the configuration part of the guard -/
theorem cfgOK_of_valid (cfg : Config)
    (hv : Validate.valid ⟨cfg.thr, cfg.minReq, cfg.trial, cfg.openW, cfg.window, cfg.interval⟩ = true)
    (hb : cfg.trial ≤ 2^61 ∧ cfg.openW ≤ 2^61 ∧ cfg.window ≤ 2^61 ∧ cfg.interval ≤ 2^61) : CfgOK cfg := by
  unfold Validate.valid at hv
  simp only at hv
  have h1 : ¬ cfg.trial ≤ 0 := by intro h; simp [h] at hv
  have h2 : ¬ cfg.openW ≤ 0 := by intro h; simp [h] at hv
  have h3 : ¬ cfg.window ≤ 0 := by intro h; simp [h] at hv
  have h4 : ¬ cfg.interval ≤ 0 := by intro h; simp [h] at hv
  unfold CfgOK
  omega

/-- **C06**: for every configuration accepted by `Validate` (durations at most `2^61` ns ≈ 73 years), every
ticker trace with readings in `[-2^62, 2^62]` (advancing, standing still or stepping backwards; an exhausted
script reads 0), every number of listeners and every sequence of fewer than `2^62` calls, the breaker built by
the constructor and the documented machine produce the same constructor callbacks, the same result and the
same callback log for every call, and consume the same ticker readings. -/
theorem C06_breaker_follows_doc (cfg : Config) (ts : List Int) (ops : List Op)
    (hv : Validate.valid ⟨cfg.thr, cfg.minReq, cfg.trial, cfg.openW, cfg.window, cfg.interval⟩ = true)
    (hb : cfg.trial ≤ 2^61 ∧ cfg.openW ≤ 2^61 ∧ cfg.window ≤ 2^61 ∧ cfg.interval ≤ 2^61)
    (hts : ∀ t ∈ ts, -(2^62) ≤ t ∧ t ≤ 2^62) (hlen : ops.length < 2^62) :
    (create cfg ts).2.2 = (docCreate cfg ts).2.2 ∧
    (runOps cfg (create cfg ts).1 (create cfg ts).2.1 ops).1 =
      (docRun cfg (docCreate cfg ts).1 (docCreate cfg ts).2.1 ops).1 ∧
    (runOps cfg (create cfg ts).1 (create cfg ts).2.1 ops).2.2 =
      (docRun cfg (docCreate cfg ts).1 (docCreate cfg ts).2.1 ops).2.2 := by
  have hg : NoWrap cfg ts := ⟨cfgOK_of_valid cfg hv hb, hts⟩
  obtain ⟨a, b, c, _⟩ := Garr.Breaker.C06_breaker_follows_doc cfg ts ops hg hlen
  exact ⟨a, b, c⟩

/-- the guard is not vacuous: the example configuration and script satisfy it -/
example : NoWrap exCfg [0, 0, 5, 20, 21, 50, 121, 122] := by decide

/-- the documented machine on the same script: opens on the second failure, rejects, then admits the trial -/
example :
    let c := docCreate exCfg [0, 0, 5, 20, 21, 50, 121, 122]
    let r := docRun exCfg c.1 c.2.1 [.fail, .fail, .can, .can]
    r.1 = [⟨none, []⟩, ⟨none, [.state 0 .opn, .count 0 0 0]⟩, ⟨some false, [.rejected 0]⟩,
           ⟨some true, [.state 0 .half, .count 0 0 0]⟩] ∧
    r.2.1.kind = .half ∧ r.2.1.deadline = 125 ∧ r.2.1.events = [⟨0, false⟩, ⟨20, false⟩] ∧ r.2.2 = [] := by
  decide +kernel

end Garr.Props.C06
