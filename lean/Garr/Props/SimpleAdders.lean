import Garr.Adder.SimpleInv
/-!
# C02 / C16 for the simple adders: `AtomicAdder`, `RandomCellAdder` (and the CAS-loop structure of `AtomicF64Adder`)

All theorems are about the machine `Garr.Adder.Simple.M P` — unboundedly many threads, every schedule,
every outcome of the random draw.  "Integer instance" (`IntInst P`) means `P.alg = intAlg` and `P.n ≥ 1`:
it covers `atomicP` (1 cell, `atomic.AddInt64`), `randomCellP` (128 cells, random cell) and also the
integer CAS-loop variants (`casLoop = true`).

This machine does not gate the maintenance operations (`Reset`, `SumAndReset`, `Store`) by a ghost, so the
statements carry the restriction explicitly: `UpdatesOnly s` — the schedule invokes none of them — and
"no thread is inside a maintenance operation" for the start configuration.

* **C02** `sum_after_adds`: run any `UpdatesOnly` schedule from the initial configuration; once no `Add` is
  in flight, a `Sum` (run by any idle thread) returns `wrap64` of the exact total of the operands of all
  `Add` invocations the schedule made.  `conservation` is the underlying invariant
  `Σ cells = applied = Σ lp`, `add_once` says that every `Add x` takes effect exactly once, at the step
  that emits `lp x` together with its response.
* **C16** `sum_solo`, `add_solo`, `store_solo`, `reset_solo`, `sumAndReset_solo`, `phase`, and the compositions
  `store_then_sum`, `reset_then_sum`, `sumAndReset_then_sum`, `store_phase_sum`: from a reachable all-idle
  configuration the adder behaves like the single number `total g` (the exact sum of the cells):
  `Sum` returns it (wrapped), `Add x` adds `x`, `Store v` makes it `v`, `Reset` makes it `0`,
  `SumAndReset` returns it and leaves `0`, and a following phase of concurrent updates accumulates on top.
  The ghost `applied` tracks updates only (maintenance steps leave it alone), so C16 is phrased with `total`.
-/
namespace Garr.Props.SimpleAdders
open Garr Garr.Conc Garr.Adder.Simple
open Garr.Adder (Obs intAlg floatAlg wrap64_zero)

/-- the integer instances: at least one cell, integer algebra (exact ghost value in the heap, loads wrap) -/
structure IntInst (P : Params) : Prop where
  alg : P.alg = intAlg
  pos : 0 < P.n

theorem atomic_inst : IntInst atomicP := ⟨rfl, by decide⟩
theorem randomCell_inst : IntInst randomCellP := ⟨rfl, by decide⟩
/-- the CAS-loop variants over the integers are covered too -/
theorem casInt_inst (n : Nat) (hn : 0 < n) (d : Bool) : IntInst ⟨n, d, true, intAlg⟩ := ⟨rfl, hn⟩

/-- the schedule invokes no maintenance operation -/
def UpdatesOnly (s : List (Tid × SAct)) : Prop := ∀ e ∈ s, isMaintAct e.2 = false

/-! ## 0. Structure -/

/-- every reachable configuration has exactly `n` cells -/
theorem length_cells {P : Params} (hn : 0 < P.n) {c : Config (M P)} (hr : Reach (M P) c) :
    (SG.cells c.g).length = P.n :=
  Garr.Adder.Simple.length_cells P hn hr

/-- **Every `Add x` takes effect exactly once** (any value algebra — `AtomicF64Adder` included).
    A step of a thread inside `Add x` is either silent (shared state untouched, still inside `Add x`) or it
    is the effect step — the `atomic.AddInt64`, or the CAS that finds the loaded value still in the
    cell — which replaces cell `j` by `alg.add (cell j) x`, emits `lp x` with the response and ends the call. -/
theorem add_once {P : Params} {t : Tid} {g : SG} {l : SL} {a : SAct} {g' : SG} {l' : SL} {obs : List Obs} {x : Int}
    (hx : addArg l = some x) (hs : (M P).step t g l a = some (g', l', obs)) :
    (obs = [] ∧ g' = g ∧ addArg l' = some x) ∨
    (obs = [.lp x, .ret none] ∧ l' = .idle ∧
      ∃ j, (l = .addAt x j ∨ l = .addCas x j (P.alg.view (cellAt g j))) ∧
        g'.cells = g.cells.set j (P.alg.add (cellAt g j) x) ∧ g'.applied = g.applied + x) :=
  Garr.Adder.Simple.add_once hx hs

/-- conversely an `lp x` is emitted only by a thread inside `Add x` … -/
theorem lp_only_in_add {P : Params} {t : Tid} {g : SG} {l : SL} {a : SAct} {g' : SG} {l' : SL} {obs : List Obs}
    {x : Int} (hs : (M P).step t g l a = some (g', l', obs)) (hlp : Obs.lp x ∈ obs) : addArg l = some x :=
  lp_only_add hs hlp

/-- … and a failed CAS changes nothing and retries from the load -/
theorem cas_fail_retries {P : Params} {t : Tid} {g : SG} {x : Int} {j : Nat} {old : Int}
    (h : P.alg.view (cellAt g j) ≠ old) :
    (M P).step t g (.addCas x j old) .tau = some (g, .addLd x j, []) :=
  add_once_cas_fail h

/-- float twin: the successful CAS stores the IEEE sum of the cell and the operand, exactly once per `Add` -/
theorem f64_add_effect {t : Tid} {g : SG} {x : Int} {old : Int} (h : cellAt g 0 = old) :
    (M atomicF64P).step t g (.addCas x 0 old) .tau =
      some ({ cells := g.cells.set 0 (floatAlg.add (cellAt g 0) x), applied := g.applied + x }, .idle,
        [.lp x, .ret none]) :=
  add_once_cas_ok (P := atomicF64P) h

/-! ## 1. C02 — the sum after concurrent adds is exact -/

/-- **Conservation.**  Along every schedule from the initial configuration that invokes no maintenance
    operation — any interleaving, any outcomes of the random draws — the exact sum of the cells equals
    the ghost `applied`, which equals the sum of the `lp` markers of the log. -/
theorem conservation {P : Params} (hP : IntInst P) (s : List (Tid × SAct)) (hs : UpdatesOnly s) :
    total (run (M P) (Config.init (M P)) s).1.g = SG.applied (run (M P) (Config.init (M P)) s).1.g ∧
    SG.applied (run (M P) (Config.init (M P)) s).1.g = lpSumLog (run (M P) (Config.init (M P)) s).2 :=
  applied_eq_total hP.alg hP.pos s hs

/-- once no `Add` is in flight the `lp`s are exactly the accepted `Add` invocations (any parameters) -/
theorem lps_are_invocations {P : Params} (s : List (Tid × SAct))
    (hq : ∀ u, addArg ((run (M P) (Config.init (M P)) s).1.l u) = none) :
    lpSumLog (run (M P) (Config.init (M P)) s).2 = invoked P s :=
  lp_eq_invoked s hq

/-- **C02.**  Run any schedule `s` of `Add`s and `Sum`s from the initial configuration.  If in the
    configuration reached every `Add` call has returned (no thread is inside one) and `t` is idle, then
    `Sum` run by `t` returns — after exactly `n` steps, leaving the configuration as it was —
    `wrap64 (invoked P s)`: the two's-complement wrap of the exact total of all values added. -/
theorem sum_after_adds {P : Params} (hP : IntInst P) (s : List (Tid × SAct)) (hs : UpdatesOnly s)
    (hq : ∀ u, addArg ((run (M P) (Config.init (M P)) s).1.l u) = none)
    (t : Tid) (ht : (run (M P) (Config.init (M P)) s).1.l t = SL.idle) :
    run (M P) (run (M P) (Config.init (M P)) s).1 ((t, SAct.sum) :: List.replicate P.n (t, SAct.tau)) =
      ((run (M P) (Config.init (M P)) s).1, [(t, Obs.ret (some (wrap64 (invoked P s))))]) := by
  have hr : Reach (M P) (run (M P) (Config.init (M P)) s).1 := reach_run (M P) _ Reach.init s
  obtain ⟨h1, h2⟩ := sum_solo_simple hP.alg hP.pos hr t ht
  obtain ⟨k1, k2⟩ := conservation hP s hs
  have e : total (run (M P) (Config.init (M P)) s).1.g = invoked P s := by
    rw [k1, k2, lps_are_invocations s hq]
  rw [e] at h2
  exact run_invoke_solo h1 h2

/-- C02 for `AtomicAdder` -/
theorem sum_after_adds_atomic (s : List (Tid × SAct)) (hs : UpdatesOnly s)
    (hq : ∀ u, addArg ((run (M atomicP) (Config.init (M atomicP)) s).1.l u) = none)
    (t : Tid) (ht : (run (M atomicP) (Config.init (M atomicP)) s).1.l t = SL.idle) :
    run (M atomicP) (run (M atomicP) (Config.init (M atomicP)) s).1 [(t, SAct.sum), (t, SAct.tau)] =
      ((run (M atomicP) (Config.init (M atomicP)) s).1, [(t, Obs.ret (some (wrap64 (invoked atomicP s))))]) :=
  sum_after_adds atomic_inst s hs hq t ht

/-- C02 for `RandomCellAdder`: whatever cells the draws picked -/
theorem sum_after_adds_randomCell (s : List (Tid × SAct)) (hs : UpdatesOnly s)
    (hq : ∀ u, addArg ((run (M randomCellP) (Config.init (M randomCellP)) s).1.l u) = none)
    (t : Tid) (ht : (run (M randomCellP) (Config.init (M randomCellP)) s).1.l t = SL.idle) :
    run (M randomCellP) (run (M randomCellP) (Config.init (M randomCellP)) s).1
        ((t, SAct.sum) :: List.replicate 128 (t, SAct.tau)) =
      ((run (M randomCellP) (Config.init (M randomCellP)) s).1,
        [(t, Obs.ret (some (wrap64 (invoked randomCellP s))))]) :=
  sum_after_adds randomCell_inst s hs hq t ht

/-! ## 2. C16 — one goroutine, or finished phases: the adder is a single number -/

/-- `Sum` by an idle thread, alone: returns `wrap64 (total g)` in `n` steps, configuration unchanged -/
theorem sum_solo {P : Params} (hP : IntInst P) {c : Config (M P)} (hr : Reach (M P) c) (t : Tid)
    (ht : c.l t = SL.idle) :
    run (M P) c ((t, SAct.sum) :: List.replicate P.n (t, SAct.tau)) =
      (c, [(t, Obs.ret (some (wrap64 (total c.g))))]) := by
  obtain ⟨h1, h2⟩ := sum_solo_simple hP.alg hP.pos hr t ht
  exact run_invoke_solo h1 h2

/-- `Add x` by an idle thread, alone: the total grows by exactly `x`, every thread's locals are as before -/
theorem add_solo {P : Params} (hP : IntInst P) {c : Config (M P)} (hr : Reach (M P) c) (t : Tid)
    (ht : c.l t = SL.idle) (x : Int) (w : Nat) :
    ∃ c', run (M P) c (addSched P t x w) = (c', [(t, Obs.lp x), (t, Obs.ret none)]) ∧
      Reach (M P) c' ∧ c'.l = c.l ∧ total c'.g = total c.g + x := by
  obtain ⟨j, hj, hrun⟩ := add_solo_simple hP.pos c t ht x w
  refine ⟨_, hrun, ?_, rfl, ?_⟩
  · have := reach_run (M P) c hr (addSched P t x w)
    rw [hrun] at this
    exact this
  · exact total_applyAdd hP.alg x (by rw [Garr.Adder.Simple.length_cells P hP.pos hr]; exact hj)

/-- `Store v`, alone from an all-idle configuration: `n` steps; afterwards the cells are `v, 0, …, 0` -/
theorem store_solo {P : Params} (hP : IntInst P) {c : Config (M P)} (hr : Reach (M P) c)
    (hidle : ∀ u, c.l u = SL.idle) (t : Tid) (v : Int) :
    ∃ c', run (M P) c ((t, SAct.store v) :: List.replicate P.n (t, SAct.tau)) = (c', [(t, Obs.ret none)]) ∧
      Reach (M P) c' ∧ (∀ u, c'.l u = SL.idle) ∧
      SG.cells c'.g = v :: List.replicate (P.n - 1) 0 ∧ total c'.g = v := by
  obtain ⟨h1, c', h2, h3, h4, h5, h6, _⟩ := store_solo_simple hP.pos hr hidle t v
  exact ⟨c', run_invoke_solo h1 h2, h3, h4, h5, h6⟩

/-- `Reset`, alone from an all-idle configuration: `n` steps; afterwards all cells are zero -/
theorem reset_solo {P : Params} (hP : IntInst P) {c : Config (M P)} (hr : Reach (M P) c)
    (hidle : ∀ u, c.l u = SL.idle) (t : Tid) :
    ∃ c', run (M P) c ((t, SAct.reset) :: List.replicate P.n (t, SAct.tau)) = (c', [(t, Obs.ret none)]) ∧
      Reach (M P) c' ∧ (∀ u, c'.l u = SL.idle) ∧
      SG.cells c'.g = List.replicate P.n 0 ∧ total c'.g = 0 := by
  obtain ⟨h1, c', h2, h3, h4, h5, h6, _⟩ := reset_solo_simple hP.pos hr hidle t
  exact ⟨c', run_invoke_solo h1 h2, h3, h4, h5, h6⟩

/-- `SumAndReset`, alone from an all-idle configuration: `2n` steps, returns `wrap64 (total g)`, afterwards
    all cells are zero -/
theorem sumAndReset_solo {P : Params} (hP : IntInst P) {c : Config (M P)} (hr : Reach (M P) c)
    (hidle : ∀ u, c.l u = SL.idle) (t : Tid) :
    ∃ c', run (M P) c ((t, SAct.sumAndReset) :: List.replicate (2 * P.n) (t, SAct.tau)) =
        (c', [(t, Obs.ret (some (wrap64 (total c.g))))]) ∧
      Reach (M P) c' ∧ (∀ u, c'.l u = SL.idle) ∧
      SG.cells c'.g = List.replicate P.n 0 ∧ total c'.g = 0 := by
  obtain ⟨h1, c', h2, h3, h4, h5, h6, _⟩ := sumAndReset_solo_simple hP.alg hP.pos hr hidle t
  exact ⟨c', run_invoke_solo h1 h2, h3, h4, h5, h6⟩

/-- **A phase of concurrent updates accumulates on top.**  From a reachable configuration in which no thread
    is inside a maintenance operation (e.g. all idle, e.g. right after a `Store`), along any schedule that
    invokes none, the exact total grows by the sum of the `lp`s; and when no `Add` is in flight at either
    end, that is the sum of the operands of the `Add`s invoked in the phase. -/
theorem phase {P : Params} (hP : IntInst P) {c0 : Config (M P)} (hr : Reach (M P) c0)
    (hq0 : ∀ u, inMaint (c0.l u) = false) (s : List (Tid × SAct)) (hs : UpdatesOnly s) :
    total (run (M P) c0 s).1.g = total c0.g + lpSumLog (run (M P) c0 s).2 ∧
    ((∀ u, addArg (c0.l u) = none) → (∀ u, addArg ((run (M P) c0 s).1.l u) = none) →
      total (run (M P) c0 s).1.g = total c0.g + invokedSum P c0.g c0.l s) := by
  obtain ⟨h1, _, _⟩ := sconserve hP.alg hP.pos hr hq0 s hs
  refine ⟨h1, fun ha0 ha => ?_⟩
  rw [h1, lp_eq_invoked_from c0 s ha0 ha]

/-- `Store v` then `Sum` (by any thread): returns `wrap64 v` -/
theorem store_then_sum {P : Params} (hP : IntInst P) {c : Config (M P)} (hr : Reach (M P) c)
    (hidle : ∀ u, c.l u = SL.idle) (t u : Tid) (v : Int) :
    ∃ c', run (M P) c ((t, SAct.store v) :: List.replicate P.n (t, SAct.tau)) = (c', [(t, Obs.ret none)]) ∧
      run (M P) c' ((u, SAct.sum) :: List.replicate P.n (u, SAct.tau)) = (c', [(u, Obs.ret (some (wrap64 v)))]) := by
  obtain ⟨c', h1, h2, h3, _, h5⟩ := store_solo hP hr hidle t v
  have := sum_solo hP h2 u (h3 u)
  rw [h5] at this
  exact ⟨c', h1, this⟩

/-- `Reset` then `Sum`: returns `0` -/
theorem reset_then_sum {P : Params} (hP : IntInst P) {c : Config (M P)} (hr : Reach (M P) c)
    (hidle : ∀ u, c.l u = SL.idle) (t u : Tid) :
    ∃ c', run (M P) c ((t, SAct.reset) :: List.replicate P.n (t, SAct.tau)) = (c', [(t, Obs.ret none)]) ∧
      run (M P) c' ((u, SAct.sum) :: List.replicate P.n (u, SAct.tau)) = (c', [(u, Obs.ret (some 0))]) := by
  obtain ⟨c', h1, h2, h3, _, h5⟩ := reset_solo hP hr hidle t
  have := sum_solo hP h2 u (h3 u)
  rw [h5, wrap64_zero] at this
  exact ⟨c', h1, this⟩

/-- `SumAndReset` returns the current value, a following `Sum` returns `0` -/
theorem sumAndReset_then_sum {P : Params} (hP : IntInst P) {c : Config (M P)} (hr : Reach (M P) c)
    (hidle : ∀ u, c.l u = SL.idle) (t u : Tid) :
    ∃ c', run (M P) c ((t, SAct.sumAndReset) :: List.replicate (2 * P.n) (t, SAct.tau)) =
        (c', [(t, Obs.ret (some (wrap64 (total c.g))))]) ∧
      run (M P) c' ((u, SAct.sum) :: List.replicate P.n (u, SAct.tau)) = (c', [(u, Obs.ret (some 0))]) := by
  obtain ⟨c', h1, h2, h3, _, h5⟩ := sumAndReset_solo hP hr hidle t
  have := sum_solo hP h2 u (h3 u)
  rw [h5, wrap64_zero] at this
  exact ⟨c', h1, this⟩

/-- **C16, composed.**  `Store v`, then any phase `s` of concurrent `Add`s / `Sum`s; once no `Add` is in
    flight, `Sum` returns `wrap64 (v + Σ operands of the Adds of the phase)`. -/
theorem store_phase_sum {P : Params} (hP : IntInst P) {c : Config (M P)} (hr : Reach (M P) c)
    (hidle : ∀ u, c.l u = SL.idle) (t u : Tid) (v : Int) (s : List (Tid × SAct)) (hs : UpdatesOnly s) :
    ∃ c', run (M P) c ((t, SAct.store v) :: List.replicate P.n (t, SAct.tau)) = (c', [(t, Obs.ret none)]) ∧
      ((∀ w, addArg ((run (M P) c' s).1.l w) = none) → (run (M P) c' s).1.l u = SL.idle →
        run (M P) (run (M P) c' s).1 ((u, SAct.sum) :: List.replicate P.n (u, SAct.tau)) =
          ((run (M P) c' s).1, [(u, Obs.ret (some (wrap64 (v + invokedSum P c'.g c'.l s))))])) := by
  obtain ⟨c', h1, h2, h3, _, h5⟩ := store_solo hP hr hidle t v
  refine ⟨c', h1, fun ha hu => ?_⟩
  have hph := (phase hP h2 (fun w => by rw [h3 w]; rfl) s hs).2 (fun w => by rw [h3 w]; rfl) ha
  have := sum_solo hP (reach_run (M P) c' h2 s) u hu
  rw [hph, h5] at this
  exact this

/-! ## 3. Non-vacuity: concrete schedules -/

instance (s : List (Tid × SAct)) : Decidable (UpdatesOnly s) := by unfold UpdatesOnly; infer_instance

/-- the log / the cells / the ghost `applied` after running a schedule from the initial configuration -/
def exLog (P : Params) (s : List (Tid × SAct)) : List (Tid × Obs) := (run (M P) (Config.init (M P)) s).2
def exCells (P : Params) (s : List (Tid × SAct)) : List Int := SG.cells (run (M P) (Config.init (M P)) s).1.g
def exApplied (P : Params) (s : List (Tid × SAct)) : Int := SG.applied (run (M P) (Config.init (M P)) s).1.g

/-- two threads add 5 and 7 concurrently -/
def exAdds : List (Tid × SAct) := [(0, .add 5), (1, .add 7), (1, .tau), (0, .tau)]

/-- `AtomicAdder`: … then a third thread reads 12 -/
example : exLog atomicP (exAdds ++ [(2, .sum), (2, .tau)]) =
    [(1, .lp 7), (1, .ret none), (0, .lp 5), (0, .ret none), (2, .ret (some 12))] := by decide

example : UpdatesOnly exAdds ∧ invoked atomicP exAdds = 12 ∧ exCells atomicP exAdds = [12] ∧
    exApplied atomicP exAdds = 12 := by decide

theorem exAdds_quiet : ∀ u, (run (M atomicP) (Config.init (M atomicP)) exAdds).1.l u = SL.idle := by
  intro u
  simp [exAdds, run, M, step, Config.init, upd, atomicP]
  repeat' split
  all_goals first | rfl | (intros; first | rfl | contradiction)

/-- the hypotheses of `sum_after_adds` are satisfiable: here it yields the read of 12 -/
example : run (M atomicP) (run (M atomicP) (Config.init (M atomicP)) exAdds).1 [(2, SAct.sum), (2, SAct.tau)] =
    ((run (M atomicP) (Config.init (M atomicP)) exAdds).1, [(2, Obs.ret (some 12))]) := by
  have h := sum_after_adds_atomic exAdds (by decide) (fun u => by rw [exAdds_quiet u]; rfl) 2 (exAdds_quiet 2)
  have e : wrap64 (invoked atomicP exAdds) = 12 := by decide
  rw [e] at h
  exact h

/-- two's-complement wrap-around: `MaxInt64 + 1` reads as `MinInt64` while the ghost total stays exact -/
example : exLog atomicP [(0, .add 9223372036854775807), (0, .tau), (0, .add 1), (0, .tau), (0, .sum), (0, .tau)] =
      [(0, .lp 9223372036854775807), (0, .ret none), (0, .lp 1), (0, .ret none),
       (0, .ret (some (-9223372036854775808)))] ∧
    exCells atomicP [(0, .add 9223372036854775807), (0, .tau), (0, .add 1), (0, .tau)] = [9223372036854775808] := by
  decide

/-- `RandomCellAdder`: the draws pick cells 3 and 3 again (`131 % 128`); the 128-cell `Sum` reads 12 -/
example : exLog randomCellP
    ([(0, .add 5), (1, .add 7), (0, .rnd 3), (1, .rnd 131), (1, .tau), (0, .tau), (2, .sum)] ++
      List.replicate 128 (2, .tau)) =
    [(1, .lp 7), (1, .ret none), (0, .lp 5), (0, .ret none), (2, .ret (some 12))] := by decide +kernel

/-- … and distinct cells (3 and 100): the same `Sum` -/
example : exLog randomCellP
    ([(0, .add 5), (1, .add 7), (0, .rnd 3), (1, .rnd 100), (1, .tau), (0, .tau), (2, .sum)] ++
      List.replicate 128 (2, .tau)) =
    [(1, .lp 7), (1, .ret none), (0, .lp 5), (0, .ret none), (2, .ret (some 12))] := by decide +kernel

/-- integer CAS loop: both threads load 0, thread 0's CAS succeeds, thread 1's fails, reloads and succeeds:
    each `Add` takes effect exactly once -/
example : exLog ⟨1, false, true, intAlg⟩
      [(0, .add 5), (1, .add 7), (0, .tau), (1, .tau), (0, .tau), (1, .tau), (1, .tau), (1, .tau), (2, .sum), (2, .tau)] =
      [(0, .lp 5), (0, .ret none), (1, .lp 7), (1, .ret none), (2, .ret (some 12))] ∧
    exLog ⟨1, false, true, intAlg⟩
      [(0, .add 5), (1, .add 7), (0, .tau), (1, .tau), (0, .tau), (1, .tau)] = [(0, .lp 5), (0, .ret none)] := by
  decide

/-- `AtomicF64Adder`: `1.0 + 2.0 = 3.0` on bit patterns (load, CAS per `Add`) -/
example : exLog atomicF64P
    [(0, .add 4607182418800017408), (0, .tau), (0, .tau), (0, .add 4611686018427387904), (0, .tau), (0, .tau),
     (0, .sum), (0, .tau)] =
    [(0, .lp 4607182418800017408), (0, .ret none), (0, .lp 4611686018427387904), (0, .ret none),
     (0, .ret (some 4613937818241073152))] := by decide +kernel

/-- C16 on three cells, one goroutine: `Add 5`, `Store 9`, `Add 1` (cell 2), `SumAndReset` returns 10, `Sum` returns 0 -/
example : exLog ⟨3, true, false, intAlg⟩
    ([(0, .add 5), (0, .rnd 1), (0, .tau), (0, .store 9), (0, .tau), (0, .tau), (0, .tau),
      (0, .add 1), (0, .rnd 2), (0, .tau), (0, .sumAndReset)] ++ List.replicate 6 (0, .tau) ++
      [(0, .sum), (0, .tau), (0, .tau), (0, .tau)]) =
    [(0, .lp 5), (0, .ret none), (0, .ret none), (0, .lp 1), (0, .ret none), (0, .ret (some 10)),
     (0, .ret (some 0))] := by decide

example : exCells ⟨3, true, false, intAlg⟩
    [(0, .add 5), (0, .rnd 1), (0, .tau), (0, .store 9), (0, .tau), (0, .tau), (0, .tau),
      (0, .add 1), (0, .rnd 2), (0, .tau)] = [9, 0, 1] := by decide

/-- why the restriction is needed: an `Add` between the load and the zeroing store of a concurrent
    `SumAndReset` is lost — returned by nobody, kept nowhere (`applied` still counts it) -/
example : exLog atomicP [(0, .sumAndReset), (0, .tau), (1, .add 5), (1, .tau), (0, .tau)] =
      [(1, .lp 5), (1, .ret none), (0, .ret (some 0))] ∧
    exCells atomicP [(0, .sumAndReset), (0, .tau), (1, .add 5), (1, .tau), (0, .tau)] = [0] ∧
    exApplied atomicP [(0, .sumAndReset), (0, .tau), (1, .add 5), (1, .tau), (0, .tau)] = 5 := by decide

#print axioms Garr.Adder.Simple.sinv_reach
#print axioms Garr.Adder.Simple.sconserve_step
#print axioms Garr.Adder.Simple.sconserve
#print axioms Garr.Adder.Simple.applied_eq_total
#print axioms Garr.Adder.Simple.applied_run
#print axioms Garr.Adder.Simple.lp_eq_invoked_from
#print axioms Garr.Adder.Simple.sum_solo_simple
#print axioms Garr.Adder.Simple.add_solo_simple
#print axioms Garr.Adder.Simple.store_solo_simple
#print axioms Garr.Adder.Simple.reset_solo_simple
#print axioms Garr.Adder.Simple.sumAndReset_solo_simple
#print axioms length_cells
#print axioms add_once
#print axioms lp_only_in_add
#print axioms cas_fail_retries
#print axioms f64_add_effect
#print axioms conservation
#print axioms lps_are_invocations
#print axioms sum_after_adds
#print axioms sum_after_adds_atomic
#print axioms sum_after_adds_randomCell
#print axioms sum_solo
#print axioms add_solo
#print axioms store_solo
#print axioms reset_solo
#print axioms sumAndReset_solo
#print axioms phase
#print axioms store_then_sum
#print axioms reset_then_sum
#print axioms sumAndReset_then_sum
#print axioms store_phase_sum

end Garr.Props.SimpleAdders
