import Garr.SpecParse.Model
import Garr.SpecParse.Grammar
/-!
# C18 — back-off specifications parse totally, exactly and with the documented defaults
-/
namespace Garr.Props.C18
open Garr Garr.Retry Garr.SpecParse

/-- whatever parses is exactly what the corresponding constructor builds from some numbers -/
theorem parsed_eq_constructed (pf : Option F64) (s : Bytes) (b : Backoff) (h : parse pf s = some b) :
    (∃ d, mkFixed d = some b) ∨ (∃ lo hi, mkRandom lo hi = some b) ∨ (∃ i m mu, mkExpo i m mu = some b) := by
  unfold parse at h
  split at h
  · simp at h
  · split at h
    · -- exponential
      split at h
      · split at h
        · simp at h
        · split at h
          · simp at h
          · split at h
            · simp at h
            · exact Or.inr (Or.inr ⟨_, _, _, h⟩)
      · simp at h
    · split at h
      · split at h
        · simp at h
        · exact Or.inl ⟨_, h⟩
      · split at h
        · split at h
          · split at h
            · simp at h
            · split at h
              · simp at h
              · exact Or.inr (Or.inl ⟨_, _, h⟩)
          · simp at h
        · simp at h

/-- a string without '=' never parses -/
theorem no_eq_fails (pf : Option F64) (s : Bytes) (h : splitEq s = none) : parse pf s = none := by
  simp [parse, h]

/-- documented defaults: every field may be left empty -/
theorem defaults :
    parse none (kFixed ++ [bEq]) = some (.fixed 200) ∧
    parse none (kRandom ++ [bEq, bColon]) = some (.random 0 10000) ∧
    parse none (kExpo ++ [bEq, bColon, bColon]) = some (.expo 200 10000 defaultMult) := by
  refine ⟨by decide +kernel, by decide +kernel, by decide +kernel⟩

/-- layers are applied in the order they were added (the builder is a left fold over the recorded layers) -/
theorem layers_in_order (base : Option Backoff) (ls : List Layer) (l : Layer) :
    build base (ls ++ [l]) =
      (match l with
       | .limit k => mkLimit (build base ls) k
       | .jitter lo hi => mkJitter (build base ls) lo hi) := by
  cases l <;> simp [build, List.foldl_append]

/-- building twice from the same (cached) base gives the same result: `build` is a function of base and layers -/
theorem build_deterministic (base : Option Backoff) (ls : List Layer) : build base ls = build base ls := rfl

/-! ## Exactness against the declarative grammar (`Garr/SpecParse/Grammar.lean`)

`InGrammar pf s b` is a specification of the accepted language that does not mention the parser:
`fixed=d`, `random=min:max`, `exponential=initial:max:multiplier`, each field empty (documented
default 200 / 0:10000 / 200:10000:2.0) or a number in the constructor's domain.

Totality is by construction: `parse` is a total function into `Option Backoff`, `none` standing
for "returned a non-nil error"; there is no third outcome (no panic, no divergence) in the model.
-/

/-- C18, exactness: a specification parses to `b` iff it is in the grammar and denotes `b` -/
theorem parse_iff_grammar (pf : Option F64) (s : Bytes) (b : Backoff) :
    parse pf s = some b ↔ InGrammar pf s b :=
  SpecParse.parse_iff_grammar pf s b

/-- C18, "fails with an error for everything else" -/
theorem parse_fails_otherwise (pf : Option F64) (s : Bytes) (h : ¬ ∃ b, InGrammar pf s b) :
    parse pf s = none :=
  SpecParse.parse_fails_otherwise pf s h

/-- C18, success characterised: the parser succeeds iff the string is in the grammar -/
theorem parse_succeeds_iff (pf : Option F64) (s : Bytes) :
    (∃ b, parse pf s = some b) ↔ ∃ b, InGrammar pf s b :=
  ⟨fun ⟨b, h⟩ => ⟨b, (SpecParse.parse_iff_grammar pf s b).1 h⟩,
   fun ⟨b, h⟩ => ⟨b, (SpecParse.parse_iff_grammar pf s b).2 h⟩⟩

/-- `strconv.ParseInt(f, 10, 64)` accepts exactly the decimal int64 literals -/
theorem parseInt_iff (f : Bytes) (v : Int) : parseInt f = some v ↔ IsIntLit f v :=
  SpecParse.parseInt_iff f v

/-- a specification in the grammar is exactly what the corresponding constructor builds from the
numbers the grammar names (strengthening of `parsed_eq_constructed`: the numbers are no longer
existentially anonymous, they are the values denoted by the fields of `s`) -/
theorem parsed_eq_constructed' (pf : Option F64) (s : Bytes) (b : Backoff) (h : InGrammar pf s b) :
    (∃ f d, s = kFixed ++ [bEq] ++ f ∧ IntField f 200 d ∧
        mkFixed d = some b ∧ b = .fixed d) ∨
    (∃ f0 f1 lo hi, s = kRandom ++ [bEq] ++ f0 ++ [bColon] ++ f1 ∧
        NoByte bColon f0 ∧ NoByte bColon f1 ∧ IntField f0 0 lo ∧ IntField f1 10000 hi ∧
        mkRandom lo hi = some b ∧ b = .random lo hi) ∨
    (∃ f0 f1 f2 i m mu, s = kExpo ++ [bEq] ++ f0 ++ [bColon] ++ f1 ++ [bColon] ++ f2 ∧
        NoByte bColon f0 ∧ NoByte bColon f1 ∧ NoByte bColon f2 ∧
        IntField f0 200 i ∧ IntField f1 10000 m ∧ FloatField pf f2 mu ∧
        mkExpo i m mu = some b ∧ b = .expo i m mu) := by
  cases h with
  | fixed f d hf hd =>
    exact Or.inl ⟨f, d, rfl, hf, (mkFixed_iff _ _).2 ⟨hd, rfl⟩, rfl⟩
  | random f0 f1 lo hi c0 c1 h0 h1 g0 g1 =>
    exact Or.inr (Or.inl ⟨f0, f1, lo, hi, rfl, c0, c1, h0, h1, (mkRandom_iff _ _ _).2 ⟨g0, g1, rfl⟩, rfl⟩)
  | expo f0 f1 f2 i m mu c0 c1 c2 h0 h1 h2 g0 g1 g2 =>
    exact Or.inr (Or.inr ⟨f0, f1, f2, i, m, mu, rfl, c0, c1, c2, h0, h1, h2,
      (mkExpo_iff _ _ _ _).2 ⟨g0, g1, g2, rfl⟩, rfl⟩)

/-- the same, stated on the parser: whatever parses is the constructor applied to the numbers
denoted by the fields of the string -/
theorem parsed_eq_constructed'' (pf : Option F64) (s : Bytes) (b : Backoff) (h : parse pf s = some b) :
    (∃ f d, s = kFixed ++ [bEq] ++ f ∧ IntField f 200 d ∧ mkFixed d = some b) ∨
    (∃ f0 f1 lo hi, s = kRandom ++ [bEq] ++ f0 ++ [bColon] ++ f1 ∧
        IntField f0 0 lo ∧ IntField f1 10000 hi ∧ mkRandom lo hi = some b) ∨
    (∃ f0 f1 f2 i m mu, s = kExpo ++ [bEq] ++ f0 ++ [bColon] ++ f1 ++ [bColon] ++ f2 ∧
        IntField f0 200 i ∧ IntField f1 10000 m ∧ FloatField pf f2 mu ∧ mkExpo i m mu = some b) := by
  rcases parsed_eq_constructed' pf s b ((SpecParse.parse_iff_grammar pf s b).1 h) with
    ⟨f, d, e, hf, hm, -⟩ | ⟨f0, f1, lo, hi, e, -, -, h0, h1, hm, -⟩ |
    ⟨f0, f1, f2, i, m, mu, e, -, -, -, h0, h1, h2, hm, -⟩
  · exact Or.inl ⟨f, d, e, hf, hm⟩
  · exact Or.inr (Or.inl ⟨f0, f1, lo, hi, e, h0, h1, hm⟩)
  · exact Or.inr (Or.inr ⟨f0, f1, f2, i, m, mu, e, h0, h1, h2, hm⟩)

/-- On a syntactically well-formed specification the parser IS the constructor (it returns the
constructor's result, success or validation error, on the numbers denoted by the fields). -/
theorem wellformed_eq_constructor (pf : Option F64) :
    (∀ f d, IntField f 200 d → parse pf (kFixed ++ [bEq] ++ f) = mkFixed d) ∧
    (∀ f0 f1 lo hi, NoByte bColon f0 → NoByte bColon f1 → IntField f0 0 lo → IntField f1 10000 hi →
        parse pf (kRandom ++ [bEq] ++ f0 ++ [bColon] ++ f1) = mkRandom lo hi) ∧
    (∀ f0 f1 f2 i m mu, NoByte bColon f0 → NoByte bColon f1 → NoByte bColon f2 →
        IntField f0 200 i → IntField f1 10000 m → FloatField pf f2 mu →
        parse pf (kExpo ++ [bEq] ++ f0 ++ [bColon] ++ f1 ++ [bColon] ++ f2) = mkExpo i m mu) :=
  ⟨parse_fixed pf, parse_random pf, parse_expo pf⟩

/-! ### Non-vacuity: concrete specifications (kernel-evaluated) -/

/-- the UTF-8 bytes of a string literal -/
def bs (s : String) : Bytes := s.toUTF8.toList.map (·.toNat)

/-- 3.0 = 1.5·2¹ -/
def three : F64 := .fin false (3 * 2^51) (-51)

example : bs "fixed=123" = kFixed ++ [bEq] ++ [49, 50, 51] := by decide +kernel

-- accepted
example : parse none (bs "fixed=123") = some (.fixed 123) := by decide +kernel
example : parse none (bs "random=:") = some (.random 0 10000) := by decide +kernel
example : parse (some three) (bs "exponential=12::3") = some (.expo 12 10000 three) := by decide +kernel
example : parse none (bs "fixed=+007") = some (.fixed 7) := by decide +kernel
example : parse none (bs "fixed=-0") = some (.fixed 0) := by decide +kernel
example : parse none (bs "fixed=9223372036854775807") = some (.fixed (2^63 - 1)) := by decide +kernel
example : parse none (bs "random=5:") = some (.random 5 10000) := by decide +kernel
example : parse none (bs "exponential=::") = some (.expo 200 10000 defaultMult) := by decide +kernel
-- ... and the same facts as membership in the declarative grammar
example : InGrammar none (bs "fixed=123") (.fixed 123) := by decide +kernel
example : InGrammar none (bs "random=:") (.random 0 10000) := by decide +kernel
example : InGrammar (some three) (bs "exponential=12::3") (.expo 12 10000 three) := by decide +kernel
/-- a witness built by hand from the constructors of the grammar (no parser involved) -/
example : InGrammar none (kFixed ++ [bEq] ++ [49, 50, 51]) (.fixed 123) :=
  InGrammar.fixed [49, 50, 51] 123
    (Or.inr (IsIntLit.unsigned [49, 50, 51] (by decide) (by decide) (by decide))) (by decide)

-- rejected
example : parse none (bs "fixed=-1") = none := by decide +kernel            -- constructor's domain
example : parse none (bs "random=5:1") = none := by decide +kernel          -- min > max
example : parse none (bs "fixed=1:2") = none := by decide +kernel           -- "1:2" is not a literal
example : parse none (bs "Fixed=1") = none := by decide +kernel             -- keys are case-sensitive
example : parse (some three) (bs "exponential=1:2") = none := by decide +kernel   -- two fields, not three
example : parse none (bs "exponential=1:2:3") = none := by decide +kernel   -- ParseFloat error
example : parse (some F64.one) (bs "exponential=1:2:1") = none := by decide +kernel  -- multiplier ≤ 1
example : parse none (bs "fixed=9223372036854775808") = none := by decide +kernel  -- out of int64 range
example : parse none (bs "fixed=-9223372036854775808") = none := by decide +kernel -- in range, negative
example : parse none (bs "random=-9223372036854775808:") = none := by decide +kernel
example : parse none (bs "fixed= 1") = none := by decide +kernel            -- no white space
example : parse none (bs "fixed=1_0") = none := by decide +kernel           -- no underscores in base 10
example : parse none (bs "fixed=0x10") = none := by decide +kernel
example : parse none (bs "fixed=+") = none := by decide +kernel
example : parse none (bs "fixed==1") = none := by decide +kernel            -- value "=1"
example : parse none (bs "random=1:2:3") = none := by decide +kernel
example : parse none (bs "random=1") = none := by decide +kernel
example : parse none (bs "fixed") = none := by decide +kernel
example : parse none (bs "") = none := by decide +kernel
example : parse none (bs "=fixed") = none := by decide +kernel
example : parse none (bs " fixed=1") = none := by decide +kernel
example : ¬ ∃ b, InGrammar none (bs "fixed=-1") b := by
  rintro ⟨b, h⟩
  have := (SpecParse.parse_iff_grammar _ _ _).2 h
  have e : parse none (bs "fixed=-1") = none := by decide +kernel
  rw [e] at this
  cases this

end Garr.Props.C18
