import Garr.SpecParse.Model
/-!
# C18 — back-off specifications parse totally, exactly and with the documented defaults
-/
namespace Garr.Props.C18
open Garr Garr.Retry Garr.SpecParse

/-- whatever parses is exactly what the corresponding constructor builds from some numbers -/
theorem parsed_eq_constructed (pf : Option F64) (s : Bytes) (b : Backoff) (h : parse pf s = some b) :
    (∃ d, mkFixed d = some b) ∨ (∃ lo hi, mkRandom lo hi = some b) ∨ (∃ i m mu, mkExpo i m mu = some b) := by
  unfold parse at h
  split at h
  · simp at h
  · split at h
    · -- exponential
      split at h
      · split at h
        · simp at h
        · split at h
          · simp at h
          · split at h
            · simp at h
            · exact Or.inr (Or.inr ⟨_, _, _, h⟩)
      · simp at h
    · split at h
      · split at h
        · simp at h
        · exact Or.inl ⟨_, h⟩
      · split at h
        · split at h
          · split at h
            · simp at h
            · split at h
              · simp at h
              · exact Or.inr (Or.inl ⟨_, _, h⟩)
          · simp at h
        · simp at h

/-- a string without '=' never parses -/
theorem no_eq_fails (pf : Option F64) (s : Bytes) (h : splitEq s = none) : parse pf s = none := by
  simp [parse, h]

/-- documented defaults: every field may be left empty -/
theorem defaults :
    parse none (kFixed ++ [bEq]) = some (.fixed 200) ∧
    parse none (kRandom ++ [bEq, bColon]) = some (.random 0 10000) ∧
    parse none (kExpo ++ [bEq, bColon, bColon]) = some (.expo 200 10000 defaultMult) := by
  refine ⟨by decide +kernel, by decide +kernel, by decide +kernel⟩

/-- layers are applied in the order they were added (the builder is a left fold over the recorded layers) -/
theorem layers_in_order (base : Option Backoff) (ls : List Layer) (l : Layer) :
    build base (ls ++ [l]) =
      (match l with
       | .limit k => mkLimit (build base ls) k
       | .jitter lo hi => mkJitter (build base ls) lo hi) := by
  cases l <;> simp [build, List.foldl_append]

/-- building twice from the same (cached) base gives the same result: `build` is a function of base and layers -/
theorem build_deterministic (base : Option Backoff) (ls : List Layer) : build base ls = build base ls := rfl

end Garr.Props.C18
