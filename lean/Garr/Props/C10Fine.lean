import Garr.Breaker.FineLower
/-!
# C10 over the full stack: the sliding-window counter with the queue internals visible

Model: `Garr.Breaker.Fine.M cfg t0` (`Garr/Breaker/Fine.lean`) — `onEvent` / `trimAndSum` of
`circuit-breaker/slidingWindowCounter.go`, one step per atomic access, composed with the small-step model `Garr.Queue.M`
of the lock-free queue used as reservoir (every `Offer`, `Iterator()`, `Next`, `Remove` is the unchanged sequence of queue
steps; the traversal is the real weakly consistent iterator).  The CAS winner's `Offer(old)` is a separate sequence of
queue steps after the CAS: **the roller may be delayed arbitrarily between swapping the bucket and archiving it.**
Bucket counters are atomic numbers (unit increments only: `Garr/Adder/SumBounds.lean`).  `Int` timestamps, no wrap-around
(the `int64` wrap is finding F7); the only arithmetic hypothesis used anywhere is `0 ≤ interval`, and only for `solo_roll_exact` and
`removed_only_as_expired`.

Quantifiers: every reachable configuration / every schedule, any number of threads, any ticker readings (advancing,
standing still, stepping back), any window / interval.

Ghost log `c.g.w.log : List (Tid × Ev)` (= the `ev` observations of the run, `ghost_log_is_run_log`):
`added tick succ b stamp` (a report's `add` took effect on bucket `b` with timestamp `stamp`), `swapped old new`,
`lost b`, `linked b pos` (`Offer(b)` linearized: node `pos`), `iterStart tick n0`, `cntS b n` / `cntF b n` (the traversal
read `n` from bucket `b`), `removed b lim`, `rolled tick s f n0 kl` (the count of `trimAndSum(tick)`, emitted by the step
that leaves the loop; `kl` = ghost list of the buckets counted).

* (P) `projection_run`, `projection_reach`, `queue_accounting_transfers` — the queue component of any run is a run of
  `Garr.Queue.M`.
* (U) `roll_upper_bound`, `roll_upper_bound_run`, `bucket_offered_at_most_once`,
  `count_reads_are_atomic_and_of_archived_buckets`, `snapshot_is_some_roll`, `stored_count_is_own_roll`,
  `returned_count_is_stored`.
* (E) `solo_roll_exact` — exactness after quiescence (solo roll; the triggering event is EXCLUDED, as in the code);
  `roll_sandwich`, `roll_exact_if_not_overlapped` — every roll, any concurrency: lower bound and exactness on the counted
  buckets when no add on them overlaps the traversal.
* (D) `swapped_bucket_not_offered_before`, `swapped_bucket_held_or_offered_by_winner`, `swapped_bucket_offered_only_by_winner`,
  `delayed_bucket_in_nobodys_count`, `archived_bucket_counted_by_later_traversal`.
* (L) `nothing_lost`, `removed_only_as_expired`.
* non-vacuity (`decide`): (a) race + back-step + quiescent solo roll; (b) frozen roller.
-/
namespace Garr.Props.C10Fine
open Garr Garr.Conc Garr.Breaker.Fine

/-! ## (P) Projection onto the queue model -/

/-- **Projection (runs).**  The queue component of any run of the composed machine, from any configuration, is a run of
`Garr.Queue.M`: same queue states, same queue pcs, same queue observations in the same order. -/
theorem projection_run {cfg : Cfg} {t0 : Int} (c : Config (M cfg t0)) (s : List (Tid × (M cfg t0).Act)) :
    ∃ s' : List (Tid × Queue.M.Act),
      run Queue.M (proj c) s' = (proj (run (M cfg t0) c s).1, qlog (run (M cfg t0) c s).2) :=
  proj_run s c

/-- **Projection (reachability).** -/
theorem projection_reach {cfg : Cfg} {t0 : Int} (c : Config (M cfg t0)) (h : Reach (M cfg t0) c) :
    Reach Queue.M (proj c) := proj_reach h

/-- a transferred theorem, as an example: the accounting of `Garr/Queue/Iter.lean` for the reservoir of any run —
offered = still queued + polled + removed -/
theorem queue_accounting_transfers {cfg : Cfg} {t0 : Int} (s : List (Tid × (M cfg t0).Act)) :
    let r := run (M cfg t0) (Config.init (M cfg t0)) s
    Queue.offered (qlog r.2) = Queue.liveCount r.1.g.q + Queue.polled (qlog r.2) + Queue.removed (qlog r.2) ∧
    r.1.g.q.n = Queue.offered (qlog r.2) + 1 := by
  intro r
  obtain ⟨s', hs'⟩ := proj_run s (Config.init (M cfg t0))
  have := Queue.accounting s'
  rw [proj_init] at hs'
  simp only at this
  rw [hs'] at this
  exact this

/-- the ghost log of a run is the sequence of its `ev` observations -/
theorem ghost_log_is_run_log {cfg : Cfg} {t0 : Int} (s : List (Tid × (M cfg t0).Act)) :
    (run (M cfg t0) (Config.init (M cfg t0)) s).1.g.w.log = elog (run (M cfg t0) (Config.init (M cfg t0)) s).2 :=
  run_log_init s

/-! ## (U) Upper bound, no invention, no double count -/

/-- **(U) Every count is bounded by the adds that have taken effect so far inside the window.**  For every `rolled`
entry of the log of a reachable configuration, with `pre` the log before it: `s` / `f` are at most the number of success /
failure reports whose `add` has taken effect so far on a bucket with timestamp `≥ t - window`; more precisely at most the
adds so far on the buckets `kl` actually counted, which are pairwise distinct (no bucket contributes twice) and each of
which had been archived (`linked`) before. -/
theorem roll_upper_bound {cfg : Cfg} {t0 : Int} (c : Config (M cfg t0)) (h : Reach (M cfg t0) c)
    (pre post : List (Tid × Ev)) (tid : Tid) (t : Int) (s f n0 : Nat) (kl : List Nat)
    (hlog : c.g.w.log = pre ++ (tid, Ev.rolled t s f n0 kl) :: post) :
    s ≤ cntAdds true (t - cfg.window) pre ∧ f ≤ cntAdds false (t - cfg.window) pre ∧
    s ≤ sumAdds true kl pre ∧ f ≤ sumAdds false kl pre ∧ kl.Nodup ∧
    (∀ b ∈ kl, ∃ u pos, (u, Ev.linked b pos) ∈ pre) := by
  have := (reach_full c h).2.log.entries pre _ post hlog
  exact ⟨this.upperS, this.upperF, this.tightS, this.tightF, this.nodup, this.linked⟩

/-- the same for runs from the constructor's state, on the observation log -/
theorem roll_upper_bound_run {cfg : Cfg} {t0 : Int} (sch : List (Tid × (M cfg t0).Act))
    (pre post : List (Tid × Ev)) (tid : Tid) (t : Int) (s f n0 : Nat) (kl : List Nat)
    (hlog : elog (run (M cfg t0) (Config.init (M cfg t0)) sch).2 = pre ++ (tid, Ev.rolled t s f n0 kl) :: post) :
    s ≤ cntAdds true (t - cfg.window) pre ∧ f ≤ cntAdds false (t - cfg.window) pre := by
  have h := roll_upper_bound _ (reach_run _ _ Reach.init sch) pre post tid t s f n0 kl (by rw [run_log_init]; exact hlog)
  exact ⟨h.1, h.2.1⟩

/-- **(U) A bucket is offered to the reservoir at most once** (by the CAS winner for the swapped-out bucket, by a loser
or a back-stepper for its own fresh bucket — `Own`, `nothing_lost`), and the nodes of the reservoir carry pairwise
different buckets; with `Garr.Queue.traversal_nodup` (one traversal returns each node at most once; here: `kl.Nodup` in
`roll_upper_bound`) no event is counted twice. -/
theorem bucket_offered_at_most_once {cfg : Cfg} {t0 : Int} (c : Config (M cfg t0)) (h : Reach (M cfg t0) c) (b : Nat) :
    c.g.w.log.countP (isLinkOf b) ≤ 1 ∧
    (∀ p p', 1 ≤ p → p < c.g.q.n → 1 ≤ p' → p' < c.g.q.n → c.g.q.val p = c.g.q.val p' → p = p') := by
  obtain ⟨_, hf⟩ := reach_full c h
  refine ⟨?_, hf.own.res_inj⟩
  by_cases hex : ∃ u pos, (u, Ev.linked b pos) ∈ c.g.w.log
  · obtain ⟨u0, pos0, h0⟩ := hex
    obtain ⟨a1, a2, a3⟩ := hf.log.link.sound u0 b pos0 h0
    apply countP_le_one_of_nodup linkPos pos0 (isLinkOf b) _ ?_ hf.log.link.uniq
    intro e he hp
    obtain ⟨u, ev⟩ := e
    cases ev <;> simp [isLinkOf] at hp
    subst hp
    rename_i b' pos
    obtain ⟨b1, b2, b3⟩ := hf.log.link.sound u b' pos he
    have := hf.own.res_inj pos pos0 b1 b2 a1 a2 (by rw [a3, b3])
    simp [linkPos, this]
  · rw [Nat.le_one_iff_eq_zero_or_eq_one]; left
    rw [List.countP_eq_zero]
    intro e he hp
    obtain ⟨u, ev⟩ := e
    cases ev <;> simp [isLinkOf] at hp
    subst hp
    exact hex ⟨_, _, he⟩


/-- **(U) The traversal's reads are atomic reads of archived buckets.**  Every value `n` a traversal reads from the
success (failure) counter of bucket `b` is exactly the number of success (failure) adds on `b` that have taken effect so
far, and `b` had been archived (`linked`) before — a bucket not yet offered is in nobody's count. -/
theorem count_reads_are_atomic_and_of_archived_buckets {cfg : Cfg} {t0 : Int} (c : Config (M cfg t0))
    (h : Reach (M cfg t0) c) (pre post : List (Tid × Ev)) (tid : Tid) (b n : Nat) :
    (c.g.w.log = pre ++ (tid, Ev.cntS b n) :: post →
      n = cntAddsTo true b pre ∧ ∃ u pos, (u, Ev.linked b pos) ∈ pre) ∧
    (c.g.w.log = pre ++ (tid, Ev.cntF b n) :: post →
      n = cntAddsTo false b pre ∧ ∃ u pos, (u, Ev.linked b pos) ∈ pre) :=
  ⟨fun hlog => (reach_full c h).2.log.entries pre _ post hlog, fun hlog => (reach_full c h).2.log.entries pre _ post hlog⟩

/-! ## (E) Exactness after quiescence -/

/-- **(E) Exactness of a solo roll from quiescence** (`Garr.Breaker.Fine.solo_exact`).  `c` reachable with every thread
idle; `tid` alone runs one `onEvent(succ)` with ticker reading `t` (the call, the reading, then any number `rest` of own
steps — every prefix of the operation is covered).  Then nobody else has moved, and

* every `rolled` entry logged since `c` is at tick `t` and its count is EXACTLY the number of success / failure reports
  logged at `c` — all reports so far, whoever made them: the current bucket's, the instant buckets of back-steps and of
  CAS losers — whose bucket timestamp is `≥ t - window`, and nothing older.  The triggering event itself is EXCLUDED: the
  code adds it to `nextBucket`, which becomes `cur` and is not in the reservoir.
* at `snapshot.Store(e)`, `e` is that count, and every live node of the reservoir is inside the window: the older buckets
  have been removed;
* once the operation has returned, either it did not roll, or the snapshot is that count. -/
theorem solo_roll_exact {cfg : Cfg} (h0 : 0 ≤ cfg.interval) {t0 : Int} (c : Config (M cfg t0)) (hc : Reach (M cfg t0) c)
    (hq : ∀ u, (c.l u).w = .idle) (tid : Tid) (succ : Bool) (t : Int)
    (rest : List (Tid × (M cfg t0).Act)) (hrest : ∀ e ∈ rest, e.1 = tid ∧ (e.2 = Act.b ∨ e.2 = Act.q)) :
    let c' := (run (M cfg t0) c ((tid, Act.call succ) :: (tid, Act.tick t) :: rest)).1
    let A := fun k => cntAdds k (t - cfg.window) c.g.w.log
    (∀ u, u ≠ tid → c'.l u = c.l u) ∧
    (∃ ext, c'.g.w.log = c.g.w.log ++ tagE tid ext ∧ ∀ t' s f n0 kl, Ev.rolled t' s f n0 kl ∈ ext →
      t' = t ∧ s = A true ∧ f = A false) ∧
    (∀ e, (c'.l tid).w = .store e → e = (A true, A false) ∧
      ∀ p, 1 ≤ p → p < c'.g.q.n → c'.g.q.live p = true → t - cfg.window ≤ c'.g.w.ts (c'.g.q.val p)) ∧
    ((c'.l tid).w = .idle →
      (∃ ext, c'.g.w.log = c.g.w.log ++ tagE tid ext ∧ ∀ e ∈ ext, e.isRolled = false) ∨
      (c'.g.w.snap = (A true, A false) ∧
        ∀ p, 1 ≤ p → p < c'.g.q.n → c'.g.q.live p = true → t - cfg.window ≤ c'.g.w.ts (c'.g.q.val p))) :=
  solo_exact h0 c hc hq tid succ t rest hrest

/-- **(E, any roll) The sandwich.**  For every `rolled` entry of tid (log before it: `pre`) there is the `iterStart` entry of
its traversal (`pre = p1 ++ iterStart :: p2`) such that, on the buckets `kl` it counts, the count lies between the adds
that had taken effect when the traversal STARTED and the adds that have taken effect when it ENDS; and `kl` contains
every bucket archived before the traversal started that has not been removed as expired by its end. -/
theorem roll_sandwich {cfg : Cfg} {t0 : Int} (c : Config (M cfg t0)) (h : Reach (M cfg t0) c)
    (pre post : List (Tid × Ev)) (tid : Tid) (t : Int) (s f n0 : Nat) (kl : List Nat)
    (hlog : c.g.w.log = pre ++ (tid, Ev.rolled t s f n0 kl) :: post) :
    ∃ p1 p2, pre = p1 ++ (tid, Ev.iterStart t n0) :: p2 ∧
      sumAdds true kl p1 ≤ s ∧ s ≤ sumAdds true kl pre ∧ sumAdds false kl p1 ≤ f ∧ f ≤ sumAdds false kl pre ∧
      (∀ u b pos, (u, Ev.linked b pos) ∈ p1 → (∀ u' lim, (u', Ev.removed b lim) ∉ pre) → b ∈ kl) := by
  obtain ⟨_, hf, hlow⟩ := reach_low c h
  have hr : RollOK cfg pre tid t s f n0 kl := hf.log.entries pre _ post hlog
  obtain ⟨p1, p2, e, l1, l2⟩ : LowEntry pre (tid, Ev.rolled t s f n0 kl) := hlow.entries pre _ post hlog
  refine ⟨p1, p2, e, l1, hr.tightS, l2, hr.tightF, fun u b pos hl hnr => ?_⟩
  have hpos : pos < n0 :=
    hf.log.entries p1 (tid, Ev.iterStart t n0) (p2 ++ (tid, Ev.rolled t s f n0 kl) :: post)
      (by rw [hlog, e]; simp) u b pos hl
  exact hr.compl u b pos (by rw [e]; exact List.mem_append_left _ hl) hpos hnr

/-- **(E, non-overlapped) A roll whose traversal is not overlapped by adds on the buckets it counts is exact on them** —
for any number of concurrent threads doing anything else (offering, rolling, adding to the current bucket). -/
theorem roll_exact_if_not_overlapped {cfg : Cfg} {t0 : Int} (c : Config (M cfg t0)) (h : Reach (M cfg t0) c)
    (pre post : List (Tid × Ev)) (tid : Tid) (t : Int) (s f n0 : Nat) (kl : List Nat)
    (hlog : c.g.w.log = pre ++ (tid, Ev.rolled t s f n0 kl) :: post)
    (hno : ∀ p1 p2, pre = p1 ++ (tid, Ev.iterStart t n0) :: p2 → ∀ b ∈ kl, ∀ k, cntAddsTo k b p1 = cntAddsTo k b pre) :
    s = sumAdds true kl pre ∧ f = sumAdds false kl pre := by
  obtain ⟨p1, p2, e, a1, a2, a3, a4, _⟩ := roll_sandwich c h pre post tid t s f n0 kl hlog
  have hk : ∀ k, sumAdds k kl p1 = sumAdds k kl pre := by
    intro k
    unfold sumAdds; congr 1
    exact List.map_congr_left (fun b hb => hno p1 p2 e b hb k)
  rw [hk] at a1 a3
  omega

/-- **The snapshot (what `Count()` loads) is the initial `0/0` or the count of some roll in the log** — so
`roll_upper_bound` and `roll_sandwich` speak about every count the counter ever reports, through `onEvent` or `Count()`. -/
theorem snapshot_is_some_roll {cfg : Cfg} {t0 : Int} (c : Config (M cfg t0)) (h : Reach (M cfg t0) c) :
    c.g.w.snap = (0, 0) ∨ ∃ u t n0 kl, (u, Ev.rolled t c.g.w.snap.1 c.g.w.snap.2 n0 kl) ∈ c.g.w.log :=
  (reach_snap c h).2.2.snap

/-- … and the count a thread is about to store (and return) is the count of its own roll -/
theorem stored_count_is_own_roll {cfg : Cfg} {t0 : Int} (c : Config (M cfg t0)) (h : Reach (M cfg t0) c) (tid : Tid)
    (e : Nat × Nat) (hw : (c.l tid).w = .store e) : ∃ t n0 kl, (tid, Ev.rolled t e.1 e.2 n0 kl) ∈ c.g.w.log := by
  have := (reach_snap c h).2.2.pcs tid
  simpa [storeOK, hw] using this

/-- the count a roll returns is the one it stores: the only step that responds `some e` is `snapshot.Store(e)` -/
theorem returned_count_is_stored {cfg : Cfg} {tid : Tid} {g g' : G} {l l' : L} {a : Act} {obs : List Obs} {e : Nat × Nat}
    (hs : step cfg tid g l a = some (g', l', obs)) (hm : Obs.ret (some e) ∈ obs) :
    l.w = .store e ∧ g'.w.snap = e ∧ l'.w = .idle :=
  step_ret_some hs hm


/-! ## (D) The delayed roller is harmless -/

/-- **(D) The swapped-out bucket was never offered before the swap.** -/
theorem swapped_bucket_not_offered_before {cfg : Cfg} {t0 : Int} (c : Config (M cfg t0)) (h : Reach (M cfg t0) c)
    (pre post : List (Tid × Ev)) (tid : Tid) (b nw : Nat) (hlog : c.g.w.log = pre ++ (tid, Ev.swapped b nw) :: post) :
    ∀ u pos, (u, Ev.linked b pos) ∉ pre :=
  (reach_full c h).2.log.entries pre _ post hlog

/-- **(D) Whatever happens in between**, the winner `tid` of the CAS that swapped out bucket `b` is either still inside its
`Offer(b)` before the linking CAS, holding `b`, or it has linked `b` itself. -/
theorem swapped_bucket_held_or_offered_by_winner {cfg : Cfg} {t0 : Int} (c : Config (M cfg t0)) (h : Reach (M cfg t0) c)
    (tid : Tid) (b nw : Nat) (hm : (tid, Ev.swapped b nw) ∈ c.g.w.log) :
    (∃ t, (c.l tid).w = .winOffer t b ∧ held (c.l tid) = some b) ∨ ∃ pos, (tid, Ev.linked b pos) ∈ c.g.w.log :=
  (reach_swap c h).2.2 tid b nw hm

/-- **(D) The swapped-out bucket is offered exactly once, by that winner**: every `linked b` entry is the winner's (and
there is at most one: `bucket_offered_at_most_once`; and it comes after the swap: `swapped_bucket_not_offered_before`). -/
theorem swapped_bucket_offered_only_by_winner {cfg : Cfg} {t0 : Int} (c : Config (M cfg t0)) (h : Reach (M cfg t0) c)
    (tid u : Tid) (b nw pos : Nat) (hs : (tid, Ev.swapped b nw) ∈ c.g.w.log) (hl : (u, Ev.linked b pos) ∈ c.g.w.log) :
    u = tid := by
  obtain ⟨_, hf, hsw⟩ := reach_swap c h
  obtain ⟨a1, a2, a3⟩ := hf.log.link.sound u b pos hl
  rcases hsw tid b nw hs with ⟨t, _, hh⟩ | ⟨pos', hl'⟩
  · exact absurd (by rw [a3]; exact hh) ((hf.own.res_lt pos a1 a2).2.2 tid)
  · obtain ⟨b1, b2, b3⟩ := hf.log.link.sound tid b pos' hl'
    have hp := hf.own.res_inj pos pos' a1 a2 b1 b2 (by rw [a3, b3])
    subst hp
    have := nodup_filterMap_inj linkPos pos _ hf.log.link.uniq _ _ hl hl' rfl rfl
    exact (Prod.mk.inj this).1

/-- **(D) Until it is offered, the bucket is in nobody's count.**  While a thread `tid` holds bucket `b` (in particular the
CAS winner between `casCurrent` and the linking CAS of its `Offer`, however long it is delayed there): `b` is not the
current bucket, not a node of the reservoir, nobody else holds it, no traversal has read its counters and no count
computed so far includes it — concurrent rolls can only under-count (consistent with `roll_upper_bound`). -/
theorem delayed_bucket_in_nobodys_count {cfg : Cfg} {t0 : Int} (c : Config (M cfg t0)) (h : Reach (M cfg t0) c)
    (tid : Tid) (b : Nat) (hh : held (c.l tid) = some b) :
    b ≠ c.g.w.cur ∧ ¬ InRes c.g b ∧ (∀ u, held (c.l u) = some b → u = tid) ∧
    (∀ u pos, (u, Ev.linked b pos) ∉ c.g.w.log) ∧
    (∀ u n, (u, Ev.cntS b n) ∉ c.g.w.log ∧ (u, Ev.cntF b n) ∉ c.g.w.log) ∧
    (∀ u t s f n0 kl, (u, Ev.rolled t s f n0 kl) ∈ c.g.w.log → b ∉ kl) := by
  obtain ⟨_, hf⟩ := reach_full c h
  have hnl : ∀ u pos, (u, Ev.linked b pos) ∉ c.g.w.log := by
    intro u pos hm
    obtain ⟨a1, a2, a3⟩ := hf.log.link.sound u b pos hm
    exact (hf.own.res_lt pos a1 a2).2.2 tid (by rw [a3]; exact hh)
  have hpre : ∀ {pre e post}, c.g.w.log = pre ++ e :: post → ∀ u pos, (u, Ev.linked b pos) ∉ pre :=
    fun hlog u pos hm => hnl u pos (by rw [hlog]; exact List.mem_append_left _ hm)
  refine ⟨(hf.own.held_lt tid b hh).2, ?_, fun u hu => hf.own.held_inj u tid b hu hh, hnl, fun u n => ⟨?_, ?_⟩, ?_⟩
  · rintro ⟨p, p1, p2, p3⟩
    exact (hf.own.res_lt p p1 p2).2.2 tid (by rw [p3]; exact hh)
  · intro hm
    obtain ⟨pre, post, hlog⟩ := List.append_of_mem hm
    obtain ⟨_, u', pos, hl⟩ : CntOK pre true b n := hf.log.entries pre _ post hlog
    exact hpre hlog u' pos hl
  · intro hm
    obtain ⟨pre, post, hlog⟩ := List.append_of_mem hm
    obtain ⟨_, u', pos, hl⟩ : CntOK pre false b n := hf.log.entries pre _ post hlog
    exact hpre hlog u' pos hl
  · intro u t s f n0 kl hm hb
    obtain ⟨pre, post, hlog⟩ := List.append_of_mem hm
    have hr : RollOK cfg pre u t s f n0 kl := hf.log.entries pre _ post hlog
    obtain ⟨u', pos, hl⟩ := hr.linked b hb
    exact hpre hlog u' pos hl

/-- **(D) Afterwards it is counted by every later complete traversal while it is in the reservoir.**  If bucket `b` was
linked before a traversal started (before an `iterStart` entry with the traversal's `n0`; the roll's own `iterStart` is
in `pre`: last conjunct) and has not been removed (as expired) when the traversal ends, the traversal counts it. -/
theorem archived_bucket_counted_by_later_traversal {cfg : Cfg} {t0 : Int} (c : Config (M cfg t0)) (h : Reach (M cfg t0) c)
    (pre post : List (Tid × Ev)) (tid : Tid) (t : Int) (s f n0 : Nat) (kl : List Nat)
    (hlog : c.g.w.log = pre ++ (tid, Ev.rolled t s f n0 kl) :: post) :
    (∀ p1 p2 v t' u b pos, pre = p1 ++ (v, Ev.iterStart t' n0) :: p2 → (u, Ev.linked b pos) ∈ p1 →
      (∀ u' lim, (u', Ev.removed b lim) ∉ pre) → b ∈ kl) ∧
    (tid, Ev.iterStart t n0) ∈ pre := by
  obtain ⟨_, hf⟩ := reach_full c h
  have hr : RollOK cfg pre tid t s f n0 kl := hf.log.entries pre _ post hlog
  refine ⟨fun p1 p2 v t' u b pos hpre hl hnr => ?_, hr.started⟩
  have hpos : pos < n0 :=
    hf.log.entries p1 (v, Ev.iterStart t' n0) (p2 ++ (tid, Ev.rolled t s f n0 kl) :: post)
      (by rw [hlog, hpre]; simp) u b pos hl
  exact hr.compl u b pos (by rw [hpre]; exact List.mem_append_left _ hl) hpos hnr

/-! ## (L) Nothing is lost -/

/-- **(L) Nothing is lost.**  In every reachable configuration, for every report whose `add` has taken effect (entry
`added tick succ b stamp`): bucket `b` exists, has timestamp `stamp`, its counter is exactly the number of logged adds on
it (the event is there, once), and `b` is in EXACTLY ONE of these places: it is the current bucket; one thread (exactly
one) holds it and is about to offer it; it is a live node (exactly one) of the reservoir; it is a dead node of the
reservoir, removed as expired by a roll whose limit `t - window` exceeded its timestamp. -/
theorem nothing_lost {cfg : Cfg} {t0 : Int} (c : Config (M cfg t0)) (h : Reach (M cfg t0) c)
    (u : Tid) (tick : Int) (succ : Bool) (b : Nat) (stamp : Int) (hm : (u, Ev.added tick succ b stamp) ∈ c.g.w.log) :
    b < c.g.w.nb ∧ c.g.w.ts b = stamp ∧ c.g.w.sel succ b = cntAddsTo succ b c.g.w.log ∧ 1 ≤ cntAddsTo succ b c.g.w.log ∧
    ((b = c.g.w.cur ∧ (∀ t, held (c.l t) ≠ some b) ∧ ¬ InRes c.g b) ∨
     ((∃ t, held (c.l t) = some b ∧ ∀ t', held (c.l t') = some b → t' = t) ∧ b ≠ c.g.w.cur ∧ ¬ InRes c.g b) ∨
     (∃ p, 1 ≤ p ∧ p < c.g.q.n ∧ c.g.q.val p = b ∧ (∀ p', 1 ≤ p' → p' < c.g.q.n → c.g.q.val p' = b → p' = p) ∧
        b ≠ c.g.w.cur ∧ (∀ t, held (c.l t) ≠ some b) ∧
        (c.g.q.live p = true ∨
         (c.g.q.live p = false ∧ ∃ v lim, (v, Ev.removed b lim) ∈ c.g.w.log ∧ stamp < lim)))) := by
  obtain ⟨_, hf⟩ := reach_full c h
  obtain ⟨hb, hts⟩ := hf.cnt.stamp u tick succ b stamp hm
  have hone : 1 ≤ cntAddsTo succ b c.g.w.log := by
    unfold cntAddsTo
    exact List.countP_pos_iff.2 ⟨_, hm, by simp [isAddTo]⟩
  refine ⟨hb, hts, hf.cnt.per succ b, hone, ?_⟩
  have hres : ∀ p, 1 ≤ p → p < c.g.q.n → c.g.q.val p = b → b ≠ c.g.w.cur ∧ ∀ t, held (c.l t) ≠ some b := by
    intro p p1 p2 p3
    have := hf.own.res_lt p p1 p2
    rw [p3] at this; exact ⟨this.2.1, this.2.2⟩
  rcases hf.own.cover b hb with hc | ⟨t, ht⟩ | ⟨p, p1, p2, p3⟩
  · refine Or.inl ⟨hc, fun t ht => (hf.own.held_lt t b ht).2 hc, ?_⟩
    rintro ⟨p, p1, p2, p3⟩
    exact (hres p p1 p2 p3).1 hc
  · refine Or.inr (Or.inl ⟨⟨t, ht, fun t' ht' => hf.own.held_inj t' t b ht' ht⟩, (hf.own.held_lt t b ht).2, ?_⟩)
    rintro ⟨p, p1, p2, p3⟩
    exact (hres p p1 p2 p3).2 t ht
  · refine Or.inr (Or.inr ⟨p, p1, p2, p3, fun p' q1 q2 q3 => hf.own.res_inj p' p q1 q2 p1 p2 (by rw [q3, p3]),
      (hres p p1 p2 p3).1, (hres p p1 p2 p3).2, ?_⟩)
    cases hl : c.g.q.live p with
    | true => exact Or.inl rfl
    | false =>
      obtain ⟨v, lim, hrm⟩ := hf.log.dead.dead p p1 p2 hl
      rw [p3] at hrm
      have := (hf.log.dead.removed v b lim hrm).1
      exact Or.inr ⟨rfl, v, lim, hrm, by rw [← hts]; exact this⟩

/-- **(L), the removed ones.**  A bucket is removed from the reservoir only as expired: by a roll whose limit exceeded its
timestamp; with `0 ≤ interval` that limit is below every later limit (`≤ cur.timestamp - window`), so no later roll would
have counted it either. -/
theorem removed_only_as_expired {cfg : Cfg} (h0 : 0 ≤ cfg.interval) {t0 : Int} (c : Config (M cfg t0))
    (h : Reach (M cfg t0) c) (u : Tid) (b : Nat) (lim : Int) (hm : (u, Ev.removed b lim) ∈ c.g.w.log) :
    c.g.w.ts b < lim ∧ lim + cfg.window ≤ c.g.w.ts c.g.w.cur ∧
    ∃ p, 1 ≤ p ∧ p < c.g.q.n ∧ c.g.q.val p = b ∧ c.g.q.live p = false := by
  obtain ⟨_, hf, hmono, _⟩ := reach_all h0 c h
  exact ⟨(hf.log.dead.removed u b lim hm).1, hmono.removed u b lim hm, (hf.log.dead.removed u b lim hm).2⟩


/-! ## Non-vacuity -/

/-- window 100, interval 10 -/
def cfgEx : Cfg := ⟨100, 10⟩
/-- the constructor reads tick 0 -/
abbrev MEx := M cfgEx 0
abbrev runEx (s : List (Tid × Act)) := run MEx (Config.init MEx) s

/-- `n` own steps of thread `t`: a window-layer and a queue-layer access alternately (the one that is not enabled is skipped) -/
def own (t : Tid) (n : Nat) : List (Tid × Act) := (List.replicate n [(t, Act.b), (t, Act.q)]).flatten
/-- invocation and ticker reading -/
def start (t : Tid) (succ : Bool) (tick : Int) : List (Tid × Act) := [(t, .call succ), (t, .tick tick)]

def rolls (lg : List (Tid × Ev)) : List (Tid × Ev) := lg.filter (fun e => e.2.isRolled)
def adds (lg : List (Tid × Ev)) : List (Tid × Ev) := lg.filter (fun e => e.2.isAdded)

/-- **(a)** success at tick 5 and failure at tick 3 into the first bucket; threads 1 and 2 race on the roll at ticks
12 / 13 (both load `cur`, both allocate and add, thread 1 wins the CAS, thread 2 loses; the loser's `Offer`, the winner's
`Offer` and traversal interleave); thread 2 reports at tick 4 — the ticker stepped back; everybody returns. -/
def phaseA : List (Tid × Act) :=
  start 1 true 5 ++ own 1 2 ++ start 2 false 3 ++ own 2 2 ++
  start 1 true 12 ++ start 2 false 13 ++ own 1 2 ++ own 2 2 ++
  own 1 1 ++ own 2 1 ++
  own 2 2 ++ own 1 3 ++ own 2 4 ++ own 1 20 ++
  start 2 false 4 ++ own 2 8

/-- … then thread 3 alone reports a success at tick 25 and rolls -/
def soloA : List (Tid × Act) := start 3 true 25 ++ own 3 40

/-- (a): the race was a race (thread 1 `swapped`, thread 2 `lost`), the first roll's count `1/2` already contains the
loser's bucket; after the concurrent phase the threads are idle; five reports have taken effect (2 successes, 3 failures);
the solo roll at tick 25 reports exactly `2/3` — everything, including the loser's bucket (id 2) and the back-step's
instant bucket (id 3) — and the triggering success (tick 25) is not in it -/
example :
    rolls (runEx phaseA).1.g.w.log = [(1, .rolled 12 1 2 3 [0, 2])] ∧
    (1, Ev.swapped 0 1) ∈ (runEx phaseA).1.g.w.log ∧ (2, Ev.lost 2) ∈ (runEx phaseA).1.g.w.log ∧
    [1, 2, 3].map (fun t => ((runEx phaseA).1.l t).w) = [.idle, .idle, .idle] ∧
    adds (runEx phaseA).1.g.w.log =
      [(1, .added 5 true 0 0), (2, .added 3 false 0 0), (1, .added 12 true 1 12), (2, .added 13 false 2 13),
       (2, .added 4 false 3 4)] ∧
    cntAdds true (25 - cfgEx.window) (runEx phaseA).1.g.w.log = 2 ∧
    cntAdds false (25 - cfgEx.window) (runEx phaseA).1.g.w.log = 3 ∧
    rolls (runEx (phaseA ++ soloA)).1.g.w.log = [(1, .rolled 12 1 2 3 [0, 2]), (3, .rolled 25 2 3 5 [1, 3, 0, 2])] ∧
    (runEx (phaseA ++ soloA)).1.g.w.snap = (2, 3) ∧
    ((runEx (phaseA ++ soloA)).1.l 3).w = .idle := by decide

/-- (a): the hypotheses of `solo_roll_exact` are satisfiable — it applies to the configuration after `phaseA` -/
example : ∃ ext, (run MEx (runEx phaseA).1 soloA).1.g.w.log = (runEx phaseA).1.g.w.log ++ tagE 3 ext ∧
    ∀ t' s f n0 kl, Ev.rolled t' s f n0 kl ∈ ext → t' = 25 ∧
      s = cntAdds true (25 - cfgEx.window) (runEx phaseA).1.g.w.log ∧
      f = cntAdds false (25 - cfgEx.window) (runEx phaseA).1.g.w.log := by
  have hq : ∀ u, ((runEx phaseA).1.l u).w = .idle := by
    intro u
    by_cases h1 : u = 1
    · subst h1; decide
    · by_cases h2 : u = 2
      · subst h2; decide
      · have : (runEx phaseA).1.l u = (Config.init MEx).l u := by
          apply run_other
          have : ∀ e ∈ phaseA, e.1 = 1 ∨ e.1 = 2 := by decide
          intro e he
          rcases this e he with h | h
          · rw [h]; exact fun e' => h1 e'.symm
          · rw [h]; exact fun e' => h2 e'.symm
        rw [this]; rfl
  have := solo_roll_exact (cfg := cfgEx) (by decide) (runEx phaseA).1 (reach_run _ _ Reach.init _) hq 3 true 25 (own 3 40)
    (by show ∀ e ∈ (own 3 40 : List (Tid × Act)), e.1 = 3 ∧ (e.2 = Act.b ∨ e.2 = Act.q); decide)
  exact this.2.1

/-- **(b)** two reports into the first bucket; thread 1 rolls at tick 12 and is frozen right after its `casCurrent`,
before the first step of `reservoir.Offer(old)` -/
def freezeB : List (Tid × Act) :=
  start 1 true 5 ++ own 1 2 ++ start 2 false 3 ++ own 2 2 ++
  start 1 true 12 ++ [(1, .b), (1, .b), (1, .b)]
/-- thread 2 rolls the next interval (tick 25) completely while thread 1 is frozen -/
def overtakeB : List (Tid × Act) := start 2 false 25 ++ own 2 30
/-- thread 1 resumes and finishes; then thread 3 rolls at tick 40 -/
def resumeB : List (Tid × Act) := own 1 30 ++ start 3 true 40 ++ own 3 40

/-- (b): thread 1 is frozen holding the swapped-out bucket 0 (1 success, 1 failure in it); thread 2's roll counts only
`1/0` although 2 successes and 1 failure (without its own triggering failure) have taken effect inside the window — an
under-count, allowed by `roll_upper_bound`, bucket 0 is in nobody's count; after thread 1 has resumed, its own (late)
traversal and the later roll at tick 40 count bucket 0: `2/2` is everything -/
example :
    ((runEx freezeB).1.l 1).w = .winOffer 12 0 ∧ held ((runEx freezeB).1.l 1) = some 0 ∧
    (1, Ev.swapped 0 1) ∈ (runEx freezeB).1.g.w.log ∧
    held ((runEx (freezeB ++ overtakeB)).1.l 1) = some 0 ∧
    rolls (runEx (freezeB ++ overtakeB)).1.g.w.log = [(2, .rolled 25 1 0 2 [1])] ∧
    adds (runEx (freezeB ++ overtakeB)).1.g.w.log =
      [(1, .added 5 true 0 0), (2, .added 3 false 0 0), (1, .added 12 true 1 12), (2, .added 25 false 2 25)] ∧
    rolls (runEx (freezeB ++ overtakeB ++ resumeB)).1.g.w.log =
      [(2, .rolled 25 1 0 2 [1]), (1, .rolled 12 2 1 3 [0, 1]), (3, .rolled 40 2 2 4 [2, 0, 1])] ∧
    (1, Ev.linked 0 2) ∈ (runEx (freezeB ++ overtakeB ++ resumeB)).1.g.w.log ∧
    [1, 2, 3].map (fun t => ((runEx (freezeB ++ overtakeB ++ resumeB)).1.l t).w) = [.idle, .idle, .idle] := by decide

/-- (b): the configurations are reachable, so the theorems apply, e.g. (D) to the frozen configuration: bucket 0 is in
nobody's count -/
example : ∀ u t s f n0 kl, (u, Ev.rolled t s f n0 kl) ∈ (runEx (freezeB ++ overtakeB)).1.g.w.log → 0 ∉ kl :=
  (delayed_bucket_in_nobodys_count (runEx (freezeB ++ overtakeB)).1 (reach_run _ _ Reach.init _) 1 0 (by decide)).2.2.2.2.2

#print axioms projection_run
#print axioms projection_reach
#print axioms queue_accounting_transfers
#print axioms ghost_log_is_run_log
#print axioms roll_upper_bound
#print axioms roll_upper_bound_run
#print axioms bucket_offered_at_most_once
#print axioms count_reads_are_atomic_and_of_archived_buckets
#print axioms solo_roll_exact
#print axioms returned_count_is_stored
#print axioms snapshot_is_some_roll
#print axioms stored_count_is_own_roll
#print axioms roll_sandwich
#print axioms roll_exact_if_not_overlapped
#print axioms swapped_bucket_not_offered_before
#print axioms swapped_bucket_held_or_offered_by_winner
#print axioms swapped_bucket_offered_only_by_winner
#print axioms delayed_bucket_in_nobodys_count
#print axioms archived_bucket_counted_by_later_traversal
#print axioms nothing_lost
#print axioms removed_only_as_expired

end Garr.Props.C10Fine
