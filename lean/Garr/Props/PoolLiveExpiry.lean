import Garr.Pool.Fair
import Garr.Props.Pool
/-!
# Worker pool: expanded workers leave after their idle lifetime, and the capacity comes back (C11, liveness half)

`Garr/Props/PoolExpand.lean` has the enabledness facts (`idle_expiry`: the timer case of an idle expanded worker is
ready once `ExpandedLifetime` has passed; `capacity_restored`: its exit gives the reservation back).  Here the same is
shown along infinite executions under weak fairness of the worker thread alone: once the idle timer of an expanded
worker has expired, the worker eventually leaves its `select` – through the timer (or the closed queue) to `eexit`, or,
because Go's `select` may pick any ready case, with a task to `eexec u`; a worker at `eexit`/`eexit2` eventually is
`exited`; the two exit steps do `wg.Done()` and `expanded -= 1`, exactly once each.  No assumption on the
environment or on other threads is needed: virtual time never runs backwards (`Exec.now_mono`), so an expired timer
stays expired.
-/
namespace Garr.Props.PoolLiveExpiry
open Garr.Conc Garr.Pool Garr.Pool.Progress Garr.Pool.Fair

variable {P : Params}

/-! ## Virtual time is monotone -/

theorem trans_now_mono {g g' : G} {l l' : L} {a : Act} (h : Trans P g l a g' l') : g.now ≤ g'.now := by
  cases h
  all_goals first
    | exact Nat.le_refl _
    | exact Nat.le_add_right _ _
    | simp

/-- `now` never decreases along an execution -/
theorem Exec.now_mono (e : Exec P) {n m : Nat} (hnm : n ≤ m) : (e.c n).g.now ≤ (e.c m).g.now := by
  obtain ⟨d, rfl⟩ : ∃ d, m = n + d := ⟨m - n, by omega⟩
  clear hnm
  induction d with
  | zero => exact Nat.le_refl _
  | succ d ih =>
    rcases e.trans (n + d) with hc | ⟨t, a, g', l', _, htr, hg, _⟩
    · rw [show n + (d + 1) = n + d + 1 from rfl, hc]; exact ih
    · rw [show n + (d + 1) = n + d + 1 from rfl, hg]; exact Nat.le_trans ih (trans_now_mono htr)

/-- one position: `now` does not decrease -/
theorem Exec.now_succ (e : Exec P) (m : Nat) : (e.c m).g.now ≤ (e.c (m + 1)).g.now :=
  Exec.now_mono e (Nat.le_succ m)

/-! ## 1. An expanded worker whose idle timer has expired leaves its `select` -/

/-- If at position `n` thread `t` is an idle expanded worker (`e0 dl`) whose timer has expired (`dl ≤ now`), then under
weak fairness of `t` alone it eventually leaves that `select`: at some `m ≥ n` it is at `eexit` (it leaves the pool) or
at `eexec u` (it took task `u` instead – Go's `select` may pick either ready case). -/
theorem expired_worker_eventually_leaves_or_works (e : Exec P) {t : Tid} (hf : WeakFair e t) (n dl : Nat)
    (hl : (e.c n).l t = .e0 dl) (hdl : dl ≤ (e.c n).g.now) :
    ∃ m, n ≤ m ∧ ((e.c m).l t = .eexit ∨ ∃ u, (e.c m).l t = .eexec u) := by
  have hstep : ∀ m, ((e.c m).l t = .e0 dl ∧ dl ≤ (e.c m).g.now) →
      (((e.c (m + 1)).l t = .e0 dl ∧ dl ≤ (e.c (m + 1)).g.now) ∧ ∀ a, e.mover m ≠ some (t, a)) ∨
      ((e.c (m + 1)).l t = .eexit ∨ ∃ u, (e.c (m + 1)).l t = .eexec u) := by
    rintro m ⟨hl, hdl⟩
    rcases e.cases m t with ⟨hsame, hnm, _⟩ | ⟨a, g', l', hmv, htr, hg, _, hl'⟩
    · left
      exact ⟨⟨by rw [hsame]; exact hl, Nat.le_trans hdl (Exec.now_succ e m)⟩, hnm⟩
    · right
      rw [hl']
      rw [hl] at htr
      cases htr
      · exact Or.inr ⟨_, rfl⟩
      · exact Or.inl rfl
      · exact Or.inl rfl
  exact fair_leads e hf
    (fun m => (e.c m).l t = .e0 dl ∧ dl ≤ (e.c m).g.now)
    (fun m => (e.c m).l t = .eexit ∨ ∃ u, (e.c m).l t = .eexec u) n ⟨hl, hdl⟩
    (fun m _ hA _ hnB => by
      rcases hstep m hA with h | h
      · exact h.1
      · exact absurd h hnB)
    (fun m _ hA _ => enabled_of_trans hA.1 (Trans.e0timer _ dl hA.2) rfl)
    (fun m a _ hA _ hmv _ => by
      rcases hstep m hA with h | h
      · exact absurd hmv (h.2 a)
      · exact h)

/-! ## 2. A worker on its way out is eventually gone -/

theorem eexit_to_eexit2 (e : Exec P) {t : Tid} (hf : WeakFair e t) (n : Nat) (hl : (e.c n).l t = .eexit) :
    ∃ m, n ≤ m ∧ (e.c m).l t = .eexit2 := by
  have hstep : ∀ m, (e.c m).l t = .eexit →
      ((e.c (m + 1)).l t = .eexit ∧ ∀ a, e.mover m ≠ some (t, a)) ∨ (e.c (m + 1)).l t = .eexit2 := by
    intro m hl
    rcases e.cases m t with ⟨hsame, hnm, _⟩ | ⟨a, g', l', hmv, htr, hg, _, hl'⟩
    · left; exact ⟨by rw [hsame]; exact hl, hnm⟩
    · right
      rw [hl']
      rw [hl] at htr
      cases htr
      rfl
  exact fair_leads e hf (fun m => (e.c m).l t = .eexit) (fun m => (e.c m).l t = .eexit2) n hl
    (fun m _ hA _ hnB => by
      rcases hstep m hA with h | h
      · exact h.1
      · exact absurd h hnB)
    (fun m _ hA _ => enabled_of_trans hA (Trans.eexit _) rfl)
    (fun m a _ hA _ hmv _ => by
      rcases hstep m hA with h | h
      · exact absurd hmv (h.2 a)
      · exact h)

theorem eexit2_to_exited (e : Exec P) {t : Tid} (hf : WeakFair e t) (n : Nat) (hl : (e.c n).l t = .eexit2) :
    ∃ m, n ≤ m ∧ (e.c m).l t = .exited := by
  have hstep : ∀ m, (e.c m).l t = .eexit2 →
      ((e.c (m + 1)).l t = .eexit2 ∧ ∀ a, e.mover m ≠ some (t, a)) ∨ (e.c (m + 1)).l t = .exited := by
    intro m hl
    rcases e.cases m t with ⟨hsame, hnm, _⟩ | ⟨a, g', l', hmv, htr, hg, _, hl'⟩
    · left; exact ⟨by rw [hsame]; exact hl, hnm⟩
    · right
      rw [hl']
      rw [hl] at htr
      cases htr
      rfl
  exact fair_leads e hf (fun m => (e.c m).l t = .eexit2) (fun m => (e.c m).l t = .exited) n hl
    (fun m _ hA _ hnB => by
      rcases hstep m hA with h | h
      · exact h.1
      · exact absurd h hnB)
    (fun m _ hA _ => enabled_of_trans hA (Trans.eexit2 _) rfl)
    (fun m a _ hA _ hmv _ => by
      rcases hstep m hA with h | h
      · exact absurd hmv (h.2 a)
      · exact h)

/-- If at position `n` thread `t` is an expanded worker on its way out (`eexit`: before `wg.Done()`, or `eexit2`: before
`expanded -= 1`), then under weak fairness of `t` alone it is `exited` at some `m ≥ n` (both steps are always enabled). -/
theorem exiting_worker_eventually_gone (e : Exec P) {t : Tid} (hf : WeakFair e t) (n : Nat)
    (hl : (e.c n).l t = .eexit ∨ (e.c n).l t = .eexit2) :
    ∃ m, n ≤ m ∧ (e.c m).l t = .exited := by
  rcases hl with h | h
  · obtain ⟨m1, hm1, h1⟩ := eexit_to_eexit2 e hf n h
    obtain ⟨m, hm, h2⟩ := eexit2_to_exited e hf m1 h1
    exact ⟨m, by omega, h2⟩
  · exact eexit2_to_exited e hf n h

/-! ## 3. The two exit steps: `wg.Done()`, then `expanded -= 1` – the capacity comes back, exactly one unit -/

/-- the first exit step is `wg.Done()`: it leaves the expansion counter alone -/
theorem exit_step_wg (t : Tid) (g g' : G) (l' : L) (obs : List Obs)
    (h : (M P).step t g L.eexit Act.tau = some (g', l', obs)) :
    g'.wg = g.wg - 1 ∧ g'.expanded = g.expanded ∧ l' = .eexit2 := by
  have h' : some ({ g with wg := g.wg - 1 }, L.eexit2, ([] : List Obs)) = some (g', l', obs) := h
  simp only [Option.some.injEq, Prod.mk.injEq] at h'
  obtain ⟨hg, hl, _⟩ := h'
  subst hg; subst hl
  exact ⟨rfl, rfl, rfl⟩

/-- the second exit step gives the reservation back: `expanded` goes down by exactly one and the worker is gone -/
theorem expiry_gives_capacity_back (t : Tid) (g g' : G) (l' : L) (obs : List Obs)
    (h : (M P).step t g L.eexit2 Act.tau = some (g', l', obs)) :
    g'.expanded = g.expanded - 1 ∧ l' = .exited := by
  have h' : some ({ g with expanded := g.expanded - 1 }, L.exited, ([] : List Obs)) = some (g', l', obs) := h
  simp only [Option.some.injEq, Prod.mk.injEq] at h'
  obtain ⟨hg, hl, _⟩ := h'
  subst hg; subst hl
  exact ⟨rfl, rfl⟩

/-- both steps are always enabled -/
theorem exit_steps_enabled (t : Tid) (g : G) :
    (∃ r, (M P).step t g L.eexit Act.tau = some r) ∧ (∃ r, (M P).step t g L.eexit2 Act.tau = some r) :=
  ⟨⟨_, rfl⟩, ⟨_, rfl⟩⟩

/-- Along an execution: a worker at `eexit`/`eexit2` eventually performs the step that gives the reservation back – there is
a position `m ≥ n` at which `t` is at `eexit2`, at `m + 1` it is `exited`, and across that very step the counter goes
down by exactly one. -/
theorem exiting_worker_eventually_gives_capacity_back (e : Exec P) {t : Tid} (hf : WeakFair e t) (n : Nat)
    (hl : (e.c n).l t = .eexit ∨ (e.c n).l t = .eexit2) :
    ∃ m, n ≤ m ∧ (e.c m).l t = .eexit2 ∧ (e.c (m + 1)).l t = .exited ∧
      (e.c (m + 1)).g.expanded = (e.c m).g.expanded - 1 := by
  have h2 : ∀ n, (e.c n).l t = .eexit2 → ∃ m, n ≤ m ∧ (e.c m).l t = .eexit2 ∧ (e.c (m + 1)).l t = .exited ∧
      (e.c (m + 1)).g.expanded = (e.c m).g.expanded - 1 := by
    intro n hl
    have hstep : ∀ m, (e.c m).l t = .eexit2 →
        ((e.c (m + 1)).l t = .eexit2 ∧ ∀ a, e.mover m ≠ some (t, a)) ∨
        ((e.c (m + 1)).l t = .exited ∧ (e.c (m + 1)).g.expanded = (e.c m).g.expanded - 1) := by
      intro m hl
      rcases e.cases m t with ⟨hsame, hnm, _⟩ | ⟨a, g', l', hmv, htr, hg, _, hl'⟩
      · left; exact ⟨by rw [hsame]; exact hl, hnm⟩
      · right
        rw [hl', hg]
        rw [hl] at htr
        cases htr
        exact ⟨rfl, rfl⟩
    obtain ⟨m, _, k, hk, hnk, h1, h2, h3⟩ := fair_leads e hf (fun m => (e.c m).l t = .eexit2)
      (fun m => ∃ k, k + 1 = m ∧ n ≤ k ∧ (e.c k).l t = .eexit2 ∧ (e.c m).l t = .exited ∧
        (e.c m).g.expanded = (e.c k).g.expanded - 1) n hl
      (fun m hm hA _ hnB => by
        rcases hstep m hA with h | h
        · exact h.1
        · exact absurd ⟨m, rfl, hm, hA, h.1, h.2⟩ hnB)
      (fun m _ hA _ => enabled_of_trans hA (Trans.eexit2 _) rfl)
      (fun m a hm hA _ hmv _ => by
        rcases hstep m hA with h | h
        · exact absurd hmv (h.2 a)
        · exact ⟨m, rfl, hm, hA, h.1, h.2⟩)
    subst hk
    exact ⟨k, hnk, h1, h2, h3⟩
  rcases hl with h | h
  · obtain ⟨m1, hm1, h1⟩ := eexit_to_eexit2 e hf n h
    obtain ⟨m, hm, hr⟩ := h2 m1 h1
    exact ⟨m, by omega, hr⟩
  · exact h2 n h

/-- Combined: an idle expanded worker whose timer has expired is, under weak fairness of its own thread alone, eventually
gone (`exited`: `wg.Done()` and `expanded -= 1` have both happened) or busy with a task it took instead (`eexec u`). -/
theorem idle_expired_worker_eventually_gone_or_busy (e : Exec P) {t : Tid} (hf : WeakFair e t) (n dl : Nat)
    (hl : (e.c n).l t = .e0 dl) (hdl : dl ≤ (e.c n).g.now) :
    ∃ m, n ≤ m ∧ ((e.c m).l t = .exited ∨ ∃ u, (e.c m).l t = .eexec u) := by
  obtain ⟨m1, hm1, h | h⟩ := expired_worker_eventually_leaves_or_works e hf n dl hl hdl
  · obtain ⟨m, hm, h2⟩ := exiting_worker_eventually_gone e hf m1 (Or.inl h)
    exact ⟨m, by omega, Or.inl h2⟩
  · exact ⟨m1, hm1, Or.inr h⟩

/-! ## 4. Non-vacuity: a concrete infinite fair execution in which an expanded worker expires -/

open Garr.Props.Pool (lOf gOf)

/-- 1 fixed worker, `ExpandableLimit = 1`, `ExpandedLifetime = 3` -/
def PE : Params := { nworker := 1, limit := 1, lifetime := 3 }

/-- `Start`; the fixed worker runs task 0; task 1 is queued; `Do(task 2)` finds the queue full, reserves (1 ≤ 1), spawns
the expanded worker (thread 4), which takes task 1; task 2 goes into the queue.  Task 1 is released, the expanded
worker delivers its value and is idle with deadline `0 + 3`.  The fixed worker finishes tasks 0 and 2.  Time advances
by 3: the timer has expired.  The worker takes the timer case, does `wg.Done()`, `expanded -= 1`, and is gone.  After
these 41 events the execution stutters for ever. -/
def expireTrace : List (Tid × Act) :=
  [ (0, .callStart), (0, .tau), (0, .tau), (0, .tau), (0, .tau),            -- 0–4   Start
    (1, .beFixed),                                                          -- 5     the fixed worker starts
    (2, .callDo .never), (2, .tau), (2, .tau), (2, .tau), (2, .tau),        -- 6–10  task 0 queued
    (1, .tau),                                                              -- 11    the fixed worker runs task 0
    (2, .callDo .never), (2, .tau), (2, .tau), (2, .tau), (2, .tau),        -- 12–16 task 1 queued
    (3, .callDo .never), (3, .tau), (3, .tau), (3, .tau),                   -- 17–20 task 2: queue full → reserve
    (3, .tau), (3, .tau),                                                   -- 21–22 1 ≤ 1 → spawn, on to push
    (4, .beExp),                                                            -- 23    the expanded worker starts
    (4, .choose 0),                                                         -- 24    … and takes task 1
    (3, .choose 2), (3, .tau),                                              -- 25–26 task 2 queued, Do returns
    (5, .finish 1), (4, .tau), (4, .tau),                                   -- 27–29 task 1 done: idle, deadline 3
    (5, .finish 0), (1, .tau), (1, .tau),                                   -- 30–32 task 0 done
    (1, .tau), (5, .finish 2), (1, .tau), (1, .tau),                        -- 33–36 the fixed worker runs task 2: done
    (5, .advance 3),                                                        -- 37    ExpandedLifetime passes
    (4, .choose 1), (4, .tau), (4, .tau) ]                                  -- 38–40 timer: wg.Done, expanded -= 1, gone

def expireExec : Exec PE := Exec.ofSchedule PE expireTrace

def expireCfg (n : Nat) : Config (M PE) := schedCfg PE expireTrace n

theorem expireFinal_support : Support 6 (expireCfg 41).l :=
  run_support (M PE) (expireTrace.take 41) 6 _ (fun _ _ => rfl) (by decide)

theorem expireExec_c (n : Nat) : expireExec.c n = expireCfg n := rfl

theorem expireCfg_ge {n : Nat} (h : 41 ≤ n) : expireCfg n = expireCfg 41 := schedCfg_ge PE expireTrace h

set_option maxRecDepth 4000 in
/-- The hypotheses of the theorems above are satisfiable together, and the conclusion is reached through the timer:
`expireExec` is an infinite execution of a pool with one fixed worker and `ExpandableLimit = 1` that is weakly fair for
every thread and satisfies (E1), (E2).  At position 25 the cap is reached (`expanded = 1`, thread 4 runs task 1 as an
expanded worker while the fixed worker runs task 0); at position 30 thread 4 is idle with deadline `3 > now = 0`; at
position 38 it is still idle and the deadline has passed (`3 ≤ now = 3`: the premise of
`expired_worker_eventually_leaves_or_works`); at 39 it is at `eexit`, at 40 at `eexit2` with `expanded` still `1`; from
position 41 on it is `exited`, `expanded = 0`, `wg = 1` (the fixed worker), and every task has its value. -/
theorem expiry_witness :
    Fair expireExec ∧ EnvReleases expireExec ∧ EnvStarts expireExec ∧
    (gOf PE (expireExec.c 25)).expanded = 1 ∧ lOf PE (expireExec.c 25) 4 = .eexec 1 ∧
    lOf PE (expireExec.c 25) 1 = .wexec 0 ∧
    lOf PE (expireExec.c 30) 4 = .e0 3 ∧ (gOf PE (expireExec.c 30)).now = 0 ∧
    lOf PE (expireExec.c 38) 4 = .e0 3 ∧ (gOf PE (expireExec.c 38)).now = 3 ∧
    lOf PE (expireExec.c 39) 4 = .eexit ∧ lOf PE (expireExec.c 40) 4 = .eexit2 ∧
    (gOf PE (expireExec.c 40)).expanded = 1 ∧
    (∀ m, 41 ≤ m → lOf PE (expireExec.c m) 4 = .exited ∧ (gOf PE (expireExec.c m)).expanded = 0 ∧
      (gOf PE (expireExec.c m)).wg = 1 ∧ (gOf PE (expireExec.c m)).q = [] ∧
      ∀ u, u < 3 → ((gOf PE (expireExec.c m)).task u).results = [.val]) := by
  refine ⟨?_, ?_, ⟨?_, ?_⟩, by decide, by decide, by decide, by decide, by decide, by decide, by decide, by decide,
    by decide, by decide, ?_⟩
  · refine ofSchedule_fair PE expireTrace ?_
    exact forall_threads (ls := lOf PE (expireCfg 41)) expireFinal_support
      (fun l => blockedAt (gOf PE (expireCfg 41)) l = true) (by decide) (by decide)
  · refine ofSchedule_releases PE expireTrace ?_
    show ∀ u, u < (gOf PE (expireCfg 41)).tasks.length → ((gOf PE (expireCfg 41)).task u).released = true
    decide
  · intro n h
    have key : ∀ n, n < 41 → 0 < (gOf PE (expireCfg n)).spawnFixed → n ≤ 5 := by decide
    have hfin : (gOf PE (expireCfg 41)).spawnFixed = 0 := by decide
    have hn : n ≤ 5 := by
      rcases Nat.lt_or_ge n 41 with hlt | hge
      · exact key n hlt h
      · rw [expireExec_c, expireCfg_ge hge] at h
        have h' : 0 < (gOf PE (expireCfg 41)).spawnFixed := h
        omega
    exact ⟨5, 1, hn, by decide⟩
  · intro n h
    have key : ∀ n, n < 41 → 0 < (gOf PE (expireCfg n)).spawnExp → n ≤ 23 := by decide
    have hfin : (gOf PE (expireCfg 41)).spawnExp = 0 := by decide
    have hn : n ≤ 23 := by
      rcases Nat.lt_or_ge n 41 with hlt | hge
      · exact key n hlt h
      · rw [expireExec_c, expireCfg_ge hge] at h
        have h' : 0 < (gOf PE (expireCfg 41)).spawnExp := h
        omega
    exact ⟨23, 4, hn, by decide⟩
  · intro m hm
    rw [expireExec_c, expireCfg_ge hm]
    decide

/-- the liveness theorem applied to the witness (its premises hold at position 38) -/
theorem expiry_witness_applies :
    ∃ m, 38 ≤ m ∧ ((expireExec.c m).l 4 = .exited ∨ ∃ u, (expireExec.c m).l 4 = .eexec u) :=
  idle_expired_worker_eventually_gone_or_busy expireExec (expiry_witness.1 4) 38 3
    (by show lOf PE (expireExec.c 38) 4 = .e0 3; decide)
    (by show 3 ≤ (gOf PE (expireExec.c 38)).now; decide)

end Garr.Props.PoolLiveExpiry

#print axioms Garr.Props.PoolLiveExpiry.Exec.now_mono
#print axioms Garr.Props.PoolLiveExpiry.expired_worker_eventually_leaves_or_works
#print axioms Garr.Props.PoolLiveExpiry.exiting_worker_eventually_gone
#print axioms Garr.Props.PoolLiveExpiry.exit_step_wg
#print axioms Garr.Props.PoolLiveExpiry.expiry_gives_capacity_back
#print axioms Garr.Props.PoolLiveExpiry.exit_steps_enabled
#print axioms Garr.Props.PoolLiveExpiry.exiting_worker_eventually_gives_capacity_back
#print axioms Garr.Props.PoolLiveExpiry.idle_expired_worker_eventually_gone_or_busy
#print axioms Garr.Props.PoolLiveExpiry.expiry_witness
#print axioms Garr.Props.PoolLiveExpiry.expiry_witness_applies
