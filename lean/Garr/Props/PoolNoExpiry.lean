import Garr.Props.PoolProgress
/-!
# The expansion limit need not be exhausted when a `Do` is blocked — WITHOUT any expiry

`blocked_do_limit_not_exhausted` (known finding F10) needs an expanded worker's idle timer to fire. The one-shot expansion decision of
`Do` ("reserve, spawn, then push") has a second way to leave the pool below its cap, in which no time passes at all:

1 fixed worker, `ExpandableLimit = 2`. The fixed worker runs task 0 (not released), task 1 is queued. `Do(task 2)` finds the queue
full, reserves (1 ≤ 2), spawns an expanded worker and goes on to `push`. The new worker takes task 1 out of the queue. Before the
first submitter's send happens, another `Do(task 3)` finds the slot free and takes it with its direct send. The first submitter is now
parked in `push` behind a full queue; every worker is busy; `expanded = 1 < 2`; nobody re-evaluates the expansion until a worker
frees up or another submission arrives: four tasks are pending, the cap is three, two run.

(In the Go runtime a sender that is ALREADY parked on the channel is served by the receive itself, so on the real scheduler this needs
the second submission to land between the first one's `go p.expandedWorker()` and its arrival in `push`'s `select`; the model's
`select` semantics — any ready case may be taken — is the specification's.)
-/
namespace Garr.Props.PoolProgress
open Garr.Conc Garr.Pool Garr.Pool.Progress Garr.Props.Pool

def PY : Params := { nworker := 1, limit := 2, lifetime := 100 }

def overtakeTrace : List (Tid × Act) :=
  [ (0, .callStart), (0, .tau), (0, .tau), (0, .tau), (0, .tau),            -- Start
    (1, .beFixed),
    (2, .callDo .never), (2, .tau), (2, .tau), (2, .tau), (2, .tau),        -- task 0 queued
    (1, .tau),                                                              -- the fixed worker runs task 0
    (2, .callDo .never), (2, .tau), (2, .tau), (2, .tau), (2, .tau),        -- task 1 queued
    (3, .callDo .never), (3, .tau), (3, .tau), (3, .tau),                   -- task 2: queue full → reserve
    (3, .tau), (3, .tau),                                                   -- 1 ≤ 2 → spawn, on to push
    (4, .beExp),                                                            -- the expanded worker starts
    (4, .choose 0),                                                         -- … and takes task 1: the slot is free
    (5, .callDo .never), (5, .tau), (5, .tau), (5, .tau), (5, .tau) ]       -- task 3: direct send into the free slot, returns

def overtakeFinal : Config (M PY) := (run (M PY) (Config.init (M PY)) overtakeTrace).1

theorem overtakeFinal_support : Support 6 overtakeFinal.l :=
  run_support (M PY) overtakeTrace 6 _ (fun _ _ => rfl) (by decide)

/-- Stuck below the cap with no expiry involved: the first submitter is parked in `push`, the queue holds the overtaker's task,
both workers are inside unreleased executors, `expanded = 1 < ExpandableLimit = 2`, and no time has passed (`now = 0`). -/
theorem blocked_do_limit_not_exhausted_no_expiry :
    Reach (M PY) overtakeFinal ∧ Stuck overtakeFinal ∧
    lOf PY overtakeFinal 3 = .push 2 ∧ lOf PY overtakeFinal 1 = .wexec 0 ∧ lOf PY overtakeFinal 4 = .eexec 1 ∧
    lOf PY overtakeFinal 5 = .idle ∧
    (gOf PY overtakeFinal).q = [3] ∧ (gOf PY overtakeFinal).state = 1 ∧ (gOf PY overtakeFinal).expanded = 1 ∧
    (gOf PY overtakeFinal).now = 0 := by
  refine ⟨reach_run (M PY) _ Reach.init _, ?_, by decide, by decide, by decide, by decide, by decide, by decide, by decide, by decide⟩
  refine blocked_stuck ?_
  exact forall_threads (ls := lOf PY overtakeFinal) overtakeFinal_support
    (fun l => blockedAt (gOf PY overtakeFinal) l = true) (by decide) (by decide)

end Garr.Props.PoolProgress

#print axioms Garr.Props.PoolProgress.blocked_do_limit_not_exhausted_no_expiry
