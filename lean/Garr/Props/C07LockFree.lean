import Garr.Queue.LockFree
/-!
# C07 (second half) — no interleaving can deadlock or livelock the queue; under every fair schedule
# every operation returns

`Garr/Queue/Term.lean` proves obstruction-freedom (a thread running ALONE finishes within `16·n+15` own
steps, `C07_solo_bound`) and `nonblocking` (a thread inside an operation always has an enabled step).
This file states the interleaved half of the claim; definitions and lemmas live in
`Garr/Queue/LockFree.lean`.

Vocabulary (all from `Garr.Queue.LockFree`):

* `Exec c σ c'` — the schedule `σ : List (Tid × Act)` is *executable* from `c`: every listed step is
  enabled when its turn comes; it leads to `c'`.  (`Exec.run_eq`: then `(run M c σ).1 = c'`;
  `effective c σ` is the executable sub-schedule that `run` extracts from an arbitrary `σ`.)
* `TauOnly σ` — only internal steps `Act.tau`: nothing is invoked during `σ`.  (Every call — `offer`,
  `poll`, `peek`, `isEmpty`, `size`, `iterator`, and the iterator calls `hasNext`/`next`/`remove`/`drop`
  — is a non-`tau` action of a thread at rest; `invs σ` counts them.)
* `atRest l` (`Term.lean`) — the thread is between operations (`idle`, or `idleIt`: owning an iterator).
* `tids σ` — the distinct thread ids occurring in `σ`.
* `F n k = (2(n+k) + k(n+k+2) + 1)·(k(16(n+k)+15) + 1)` — the bound: `n` linked nodes, `k` threads;
  `FI n k m` the bound with at most `m` invocations (`FI n k 0 = F n k`).
* `cfgAt s c i` — the configuration after `i` slots of the infinite schedule `s : Nat → Tid` (in slot
  `j` thread `s j` is offered its next internal step; a thread at rest does nothing);
  `occ s t j` — how often `t` was scheduled in the first `j` slots.

`Tid = Nat`: unboundedly many threads; `c` ranges over ALL reachable configurations (all client
programs, all schedules), so the threads are wherever they happen to be inside their operations.

Nothing here is partial: the clause is proved at full strength (an explicit bound on the TOTAL number
of steps of ALL threads under EVERY schedule, which is stronger than lock-freedom and than termination
under fairness).
-/
namespace Garr.Props.C07LockFree
open Garr.Conc Garr.Queue Garr.Queue.LockFree

set_option backward.isDefEq.respectTransparency false

/-! ## 0. The bounds, written out -/

theorem F_formula (n k : Nat) :
    F n k = (2 * (n + k) + k * (n + k + 2) + 1) * (k * (16 * (n + k) + 15) + 1) :=
  F_eq n k

theorem FI_formula (n k m : Nat) :
    FI n k m =
      (2 * (n + k + m) + k * (n + k + m + 2) + 1) * (k * (16 * (n + k + m) + 15) + 1) +
      m * ((n + k + m + 2) * (k * (16 * (n + k + m) + 15) + 1) + 16 * (n + k + m) + 16) := by
  simp [FI, FN, Bc]

theorem FI_no_invocations (n k : Nat) : FI n k 0 = F n k := rfl

/-! ## 1. No livelock: bounded total work -/

/-- **No livelock / bounded total work.**  From every reachable configuration `c`, every executable
schedule `σ` without new invocations — any interleaving whatsoever of any threads — has fewer than
`F n k` steps, where `n` is the number of linked nodes at `c` and `k` the number of distinct threads
that move in `σ`.  In particular there is no infinite run of internal steps. -/
theorem no_livelock_bounded_total_work {c c' : Config M} {σ : List (Tid × Act)}
    (hc : Reach M c) (hex : Exec c σ c') (hτ : TauOnly σ) :
    σ.length < F c.g.n (tids σ).length :=
  exec_bound_tau (nodup_dedupT _) hc hex hτ (fun _ hx => mem_tids hx)

/-- every reachable configuration has finitely many threads inside an operation: they can be listed -/
theorem active_threads_finite {c : Config M} (hc : Reach M c) :
    ∃ ts : List Tid, ts.Nodup ∧ ∀ t, t ∈ ts ↔ atRest (c.l t) = false :=
  active_finite hc

/-- **The same with `k` = the number of threads that are inside an operation at `c`** (`ts` is any
duplicate-free list containing them; by `active_threads_finite` the exact list exists).  The bound is a
function of `c` alone: it holds for every schedule. -/
theorem no_livelock_active {c c' : Config M} {σ : List (Tid × Act)} {ts : List Tid}
    (hc : Reach M c) (hnd : ts.Nodup) (hts : ∀ t, atRest (c.l t) = false → t ∈ ts)
    (hex : Exec c σ c') (hτ : TauOnly σ) :
    σ.length < F c.g.n ts.length :=
  exec_bound_active hnd hc hts hex hτ

/-- the bound as finite data of `c`: for every reachable `c` there is a `k` — the number of threads
inside an operation — such that every run from `c` without new invocations is shorter than `F n k` -/
theorem no_livelock_uniform {c : Config M} (hc : Reach M c) :
    ∃ ts : List Tid, ts.Nodup ∧ (∀ t, t ∈ ts ↔ atRest (c.l t) = false) ∧
      ∀ (σ : List (Tid × Act)) (c' : Config M), Exec c σ c' → TauOnly σ → σ.length < F c.g.n ts.length := by
  obtain ⟨ts, hnd, hts⟩ := active_finite hc
  exact ⟨ts, hnd, hts, fun σ c' hex hτ => exec_bound_active hnd hc (fun t ht => (hts t).2 ht) hex hτ⟩

/-- **In terms of `run`** (which skips disabled steps): for an ARBITRARY list `σ` of internal-step
attempts, the steps that are actually executed (`effective c σ`, an executable schedule leading to
`(run M c σ).1`) number fewer than `F n k`. -/
theorem no_livelock_run {c : Config M} (hc : Reach M c) (σ : List (Tid × Act)) (hτ : TauOnly σ) :
    Exec c (effective c σ) (run M c σ).1 ∧ (effective c σ).length < F c.g.n (tids σ).length :=
  ⟨exec_effective σ c,
   exec_bound_tau (nodup_dedupT _) hc (exec_effective σ c)
     (fun x hx => hτ x (effective_mem σ c x hx))
     (fun _ hx => mem_tids (effective_mem σ c _ hx))⟩

/-- **With new invocations.**  An executable schedule containing at most `m` invocations (of any
operations, by any threads) has fewer than `FI n k m` steps, `k` the number of distinct threads moving
in `σ`.  So the total work is bounded by a function of the size of the queue, the number of threads and
the number of operations invoked: only a never-ending supply of new operations can keep the queue busy. -/
theorem bounded_total_work_with_invocations {c c' : Config M} {σ : List (Tid × Act)} {m : Nat}
    (hc : Reach M c) (hex : Exec c σ c') (hm : invs σ ≤ m) :
    σ.length < FI c.g.n (tids σ).length m :=
  exec_bound_inv (nodup_dedupT _) hc hex (fun _ hx => mem_tids hx) hm

/-- the same with `k` threads inside an operation at `c`: at most `k + m` threads ever move -/
theorem bounded_total_work_with_invocations_active {c c' : Config M} {σ : List (Tid × Act)} {m : Nat}
    {ts : List Tid} (hc : Reach M c) (hts : ∀ t, atRest (c.l t) = false → t ∈ ts)
    (hex : Exec c σ c') (hm : invs σ ≤ m) :
    σ.length < FI c.g.n (ts.length + m) m :=
  exec_bound_inv_active hc hts hex hm

/-! ## 2. No deadlock; every maximal run is finite and ends with every thread at rest -/

/-- **No deadlock.**  In every configuration, a thread inside an operation has an enabled step: it never
waits for anybody. -/
theorem no_deadlock (c : Config M) (t : Tid) (h : atRest (c.l t) = false) :
    ∃ g' l' obs, step t c.g (c.l t) .tau = some (g', l', obs) :=
  can_step c t h

/-- a run that cannot be extended by an internal step has every thread at rest -/
theorem maximal_run_quiescent {c c' : Config M} {σ : List (Tid × Act)} (_hex : Exec c σ c')
    (hmax : ∀ t, step t c'.g (c'.l t) .tau = none) : ∀ t, atRest (c'.l t) = true :=
  stuck_all_rest c' hmax

/-- **Every run without new invocations is finite, and as long as some operation is pending it can be
extended — by ANY pending thread.**  Hence every maximal such run is finite (`< F n k` steps) and ends
with every thread at rest: every operation has returned. -/
theorem run_finite_and_extendable {c c' : Config M} {σ : List (Tid × Act)} {ts : List Tid}
    (hc : Reach M c) (hnd : ts.Nodup) (hts : ∀ t, atRest (c.l t) = false → t ∈ ts)
    (hex : Exec c σ c') (hτ : TauOnly σ) :
    σ.length < F c.g.n ts.length ∧
    ∀ t, atRest (c'.l t) = false →
      ∃ c'', Exec c (σ ++ [(t, Act.tau)]) c'' ∧ TauOnly (σ ++ [(t, Act.tau)]) := by
  refine ⟨exec_bound_active hnd hc hts hex hτ, fun t ht => ?_⟩
  obtain ⟨g', l', obs, hs⟩ := can_step c' t ht
  refine ⟨⟨g', upd c'.l t l'⟩, hex.append (Exec.single hs), fun x hx => ?_⟩
  rcases List.mem_append.1 hx with h | h
  · exact hτ x h
  · rw [List.mem_singleton.1 h]

/-- **Every maximal run without new invocations is finite and ends with every thread at rest**
("with finitely many invocations every operation returns, under every schedule") -/
theorem maximal_run_finite_and_quiescent {c c' : Config M} {σ : List (Tid × Act)} {ts : List Tid}
    (hc : Reach M c) (hnd : ts.Nodup) (hts : ∀ t, atRest (c.l t) = false → t ∈ ts)
    (hex : Exec c σ c') (hτ : TauOnly σ) (hmax : ∀ t, step t c'.g (c'.l t) .tau = none) :
    σ.length < F c.g.n ts.length ∧ ∀ t, atRest (c'.l t) = true :=
  ⟨exec_bound_active hnd hc hts hex hτ, stuck_all_rest c' hmax⟩

/-- maximal runs exist: from every reachable configuration the pending operations can be run to
completion (so the previous theorem is about something) -/
theorem quiescent_run_exists {c : Config M} (hc : Reach M c) :
    ∃ σ c', Exec c σ c' ∧ TauOnly σ ∧ ∀ u, atRest (c'.l u) = true :=
  exists_quiescent_run hc

/-! ## 3. Lock-freedom and termination under every schedule -/

/-- **Under every schedule every operation returns, within `F n k` slots.**  `s` is an arbitrary
infinite schedule — arbitrarily unfair — whose only obligation is not to waste a slot on a thread at
rest while some operation is still pending.  After `F n k` slots every thread is at rest. -/
theorem every_operation_returns_within {c : Config M} {ts : List Tid} (hc : Reach M c) (hnd : ts.Nodup)
    (hts : ∀ t, atRest (c.l t) = false → t ∈ ts) (s : Nat → Tid)
    (hsched : ∀ i, (∃ u, atRest ((cfgAt s c i).l u) = false) → atRest ((cfgAt s c i).l (s i)) = false) :
    ∀ u, atRest ((cfgAt s c (F c.g.n ts.length)).l u) = true :=
  all_return_within hnd hc hts s hsched

/-- **Lock-freedom.**  If some operation is pending at `c`, then under every such schedule some
operation returns in one of the first `F n k` slots (indeed all of them do, by
`every_operation_returns_within`): system-wide progress cannot be prevented by any interleaving. -/
theorem lock_free_some_operation_returns {c : Config M} {ts : List Tid} (hc : Reach M c) (hnd : ts.Nodup)
    (hts : ∀ t, atRest (c.l t) = false → t ∈ ts) (s : Nat → Tid)
    (hsched : ∀ i, (∃ u, atRest ((cfgAt s c i).l u) = false) → atRest ((cfgAt s c i).l (s i)) = false)
    {t : Tid} (ht : atRest (c.l t) = false) :
    ∃ i u, i < F c.g.n ts.length ∧ atRest ((cfgAt s c i).l u) = false ∧
      atRest ((cfgAt s c (i + 1)).l u) = true := by
  obtain ⟨i, hi, h1, h2⟩ := return_slot s c t ht _ (all_return_within hnd hc hts s hsched t)
  exact ⟨i, t, hi, h1, h2⟩

/-! ## 4. Fair schedules -/

/-- **Bounded fairness suffices, with an explicit bound.**  Under an arbitrary infinite schedule, a
thread that has been scheduled `F n k` times has returned — whatever the other threads did in between
(slots given to threads at rest are simply lost). -/
theorem scheduled_often_enough_returns {c : Config M} {ts : List Tid} (hc : Reach M c) (hnd : ts.Nodup)
    (hts : ∀ t, atRest (c.l t) = false → t ∈ ts) (s : Nat → Tid) (t : Tid) (j : Nat)
    (hocc : F c.g.n ts.length ≤ occ s t j) : atRest ((cfgAt s c j).l t) = true :=
  bounded_fair_returns hnd hc hts s t j hocc

/-- **Under every fair schedule the operation of `t` returns** (fair to `t`: `t` is scheduled again
and again), and `t` stays at rest from then on. -/
theorem fair_schedule_operation_returns {c : Config M} {ts : List Tid} (hc : Reach M c) (hnd : ts.Nodup)
    (hts : ∀ t, atRest (c.l t) = false → t ∈ ts) (s : Nat → Tid) (t : Tid)
    (hfair : ∀ i, ∃ j, i ≤ j ∧ s j = t) :
    ∃ j, ∀ j', j ≤ j' → atRest ((cfgAt s c j').l t) = true :=
  fair_returns hnd hc hts s t hfair

/-- **Under every fair schedule every operation returns**: if the schedule is fair to every thread
that is inside an operation, the system becomes (and stays) quiescent. -/
theorem fair_schedule_every_operation_returns {c : Config M} {ts : List Tid} (hc : Reach M c)
    (hnd : ts.Nodup) (hts : ∀ t, atRest (c.l t) = false → t ∈ ts) (s : Nat → Tid)
    (hfair : ∀ t, t ∈ ts → ∀ i, ∃ j, i ≤ j ∧ s j = t) :
    ∃ j, ∀ j', j ≤ j' → ∀ u, atRest ((cfgAt s c j').l u) = true :=
  fair_all_return hnd hc hts s hfair

/-- the same without mentioning the list: for every reachable `c` and every schedule that is fair to
every thread, the system becomes quiescent -/
theorem fair_schedule_quiescent {c : Config M} (hc : Reach M c) (s : Nat → Tid)
    (hfair : ∀ t i, ∃ j, i ≤ j ∧ s j = t) :
    ∃ j, ∀ j', j ≤ j' → ∀ u, atRest ((cfgAt s c j').l u) = true := by
  obtain ⟨ts, hnd, hts⟩ := active_finite hc
  exact fair_all_return hnd hc (fun t ht => (hts t).2 ht) s (fun t _ => hfair t)

/-! ## 5. Non-vacuity: two `Offer`s and a `Poll` interfering -/

/-- threads 0 and 1 invoke `Offer(7)`, `Offer(8)`, thread 2 invokes `Poll`; each takes one step, so
that both offers have read the same `tail` and the poll has read `head` -/
def demoPrefix : List (Tid × Act) :=
  [(0, .offer 7), (1, .offer 8), (2, .poll), (0, .tau), (1, .tau), (2, .tau)]

/-- a reachable configuration with three threads inside their operations -/
def demoC : Config M := (run M (Config.init M) demoPrefix).1

/-- an interleaving in which the operations interfere: both offers see `next(tail) = nil`, thread 0
wins the link CAS, thread 1's CAS fails and it retries behind thread 0's node; the poll removes
thread 0's element and advances `head` by two while thread 1 links and swings `tail` -/
def demoSched : List (Tid × Act) :=
  [(0, .tau), (1, .tau), (2, .tau), (0, .tau), (1, .tau), (2, .tau), (1, .tau), (2, .tau), (1, .tau),
   (2, .tau), (1, .tau), (2, .tau), (1, .tau), (2, .tau), (2, .tau)]

theorem demoC_reach : Reach M demoC := reach_run M _ Reach.init _

/-- all three threads are inside an operation at `demoC` -/
example : atRest (demoC.l 0) = false ∧ atRest (demoC.l 1) = false ∧ atRest (demoC.l 2) = false := by
  decide

theorem demo_exec : Exec demoC demoSched (run M demoC demoSched).1 :=
  exec_of_enabledAll _ _ (by decide)

theorem demo_tauOnly : TauOnly demoSched := by decide

/-- interference: after five steps thread 1 has lost the link CAS and is back in its read loop (`o1`)
with its stale `tail` snapshot 0, while thread 0 has returned and thread 2 is in mid-traversal -/
example :
    (match (run M demoC (demoSched.take 5)).1.l 1 with | .o1 8 0 0 => true | _ => false) = true ∧
    atRest ((run M demoC (demoSched.take 5)).1.l 0) = true ∧
    (match (run M demoC (demoSched.take 5)).1.l 2 with | .p4 0 0 => true | _ => false) = true := by
  decide

/-- the theorem applies: the 15 steps are fewer than `F 1 3 = 6426` -/
example : demoSched.length < F demoC.g.n (tids demoSched).length :=
  no_livelock_bounded_total_work demoC_reach demo_exec demo_tauOnly

example : demoC.g.n = 1 ∧ tids demoSched = [0, 1, 2] ∧ F 1 3 = 6426 := by decide

/-- the run is maximal for the three threads: all are at rest at the end, the poll got 7 and 8 is left -/
example : atRest ((run M demoC demoSched).1.l 0) = true ∧ atRest ((run M demoC demoSched).1.l 1) = true ∧
    atRest ((run M demoC demoSched).1.l 2) = true ∧ abs (run M demoC demoSched).1.g = [8] ∧
    (run M demoC demoSched).2.filterMap (fun x => match x.2 with | .ret r => some (x.1, r) | _ => none) =
      [(0, .unit), (1, .unit), (2, .val 7)] := by
  decide

/-- the version with invocations applies to the whole run from the initial configuration -/
example : (demoPrefix ++ demoSched).length < FI (Config.init M).g.n (tids (demoPrefix ++ demoSched)).length 3 :=
  bounded_total_work_with_invocations Reach.init
    (exec_of_enabledAll (demoPrefix ++ demoSched) (Config.init M) (by decide)) (by decide)

/-- every thread other than 0, 1, 2 is idle at `demoC` -/
theorem demoC_others (t : Nat) (h : 3 ≤ t) : atRest (demoC.l t) = true := by
  have h0 : t ≠ 0 := by omega
  have h1 : t ≠ 1 := by omega
  have h2 : t ≠ 2 := by omega
  show atRest ((run M (Config.init M) demoPrefix).1.l t) = true
  simp [demoPrefix, run, M, step, Config.init, upd, h0, h1, h2, atRest]

/-- a round-robin schedule among the three threads is fair to every thread inside an operation, so
`fair_schedule_every_operation_returns` is not vacuous either: the system becomes quiescent -/
example : ∃ j, ∀ j', j ≤ j' → ∀ u, atRest ((cfgAt (fun i => i % 3) demoC j').l u) = true := by
  obtain ⟨ts, hnd, hts⟩ := active_finite demoC_reach
  refine fair_schedule_every_operation_returns demoC_reach hnd (fun t ht => (hts t).2 ht) _
    (fun (t : Nat) ht (i : Nat) => ?_)
  have ht3 : t < 3 := by
    have h := (hts t).1 ht
    by_cases hlt : t < 3
    · exact hlt
    · rw [demoC_others t (by omega)] at h; cases h
  refine ⟨3 * i + t, by omega, ?_⟩
  show (3 * i + t) % 3 = t
  omega

#print axioms F_formula
#print axioms FI_formula
#print axioms no_livelock_bounded_total_work
#print axioms active_threads_finite
#print axioms no_livelock_active
#print axioms no_livelock_uniform
#print axioms no_livelock_run
#print axioms bounded_total_work_with_invocations
#print axioms bounded_total_work_with_invocations_active
#print axioms no_deadlock
#print axioms maximal_run_quiescent
#print axioms run_finite_and_extendable
#print axioms maximal_run_finite_and_quiescent
#print axioms quiescent_run_exists
#print axioms every_operation_returns_within
#print axioms lock_free_some_operation_returns
#print axioms scheduled_often_enough_returns
#print axioms fair_schedule_operation_returns
#print axioms fair_schedule_every_operation_returns
#print axioms fair_schedule_quiescent
#print axioms demo_exec

end Garr.Props.C07LockFree
