import Garr.Pool.FairSubmit
import Garr.Pool.Starve
import Garr.Props.PoolLive
/-!
# Worker pool: liveness of the submitting calls under weak fairness (C12 "the call never hangs", C17)

C17: "`TryDo` never blocks; `Do` blocks until a worker can take the task …; a blocked submission is released as soon as
the task's own or the pool's context is cancelled."

Setting as in `Garr/Props/PoolLive.lean`: infinite executions `Exec P`, weak fairness of every thread for its own
internal actions (`Fair`), (E1) `EnvReleases`, (E2) `EnvStarts`.  Lemmas: `Garr/Pool/FairSubmit.lean`.

`inTry u l`, `inDoCall u l`, `inStart l` : the thread is at one of the program counters of `TryDo(u)` (`t1 t2 t3 tsel t9`),
of `Do(u)` (`d1 d2 d3 dsel dres dspawn dundo push d9`; unlike `Progress.inDo` this includes the final `RUnlock` at `d9`),
of `Start` (`st0 st0c st1 st2`).

**Finding (`do_eventually_returns_started_partial`, `do_eventually_returns_started_fails`, `starvation_prefix`).**  "`Do` on a started pool eventually returns"
is *not* a consequence of weak fairness, (E1) and (E2): a submitter blocked in `select { case p.taskQueue <- t: … }`
(program counter `push u`) is enabled only while the one-slot queue is empty; each time a worker empties the slot
another submitter can refill it before the blocked one moves, so the blocked submitter's send is enabled only
intermittently – weak fairness never obliges it to move – while every other thread moves infinitely often.  Go makes no
FIFO promise for goroutines blocked on the same channel inside `select`, so this is a property of the real code as well:
under sustained competing submissions an individual `Do` may be overtaken indefinitely (it is released by cancellation,
see `do_eventually_returns_cancelled`).  What is proved is the return of `Do` when the competition is finite, and –
kernel-checked, `do_started_may_starve` – that the unrestricted statement is false in the model.
-/
namespace Garr.Props.PoolLiveSubmit
open Garr.Conc Garr.Pool Garr.Pool.Progress Garr.Pool.Fair

variable {P : Params}

/-- C17 "`TryDo` never blocks": if at position `n` thread `t` is inside `TryDo(u)` (at `t1`, `t2`, `t3`, `tsel` or `t9`),
then it is back at `idle` – the call has returned – at some `m ≥ n`.  The only assumption is weak fairness of `t`
itself: nothing is assumed about the pool's state, the other threads or the environment.  (Every program counter of
`TryDo` has an enabled step in every reachable configuration: `TryRLock` fails instead of waiting, the `select` has a
`default`, and the result channel of a task that is still with its submitter is empty.) -/
theorem trydo_eventually_returns (e : Exec P) (t : Tid) (hf : WeakFair e t) (n u : Nat)
    (hin : inTry u ((e.c n).l t) = true) : ∃ m, n ≤ m ∧ (e.c m).l t = .idle :=
  try_returns e hf n u hin

/-- C17 "a blocked submission is released as soon as the task's own or the pool's context is cancelled" / C12: if at
position `n` thread `t` is inside `Do(u)` and the pool's context is done or the context of task `u` is done (both are
stable), then `t` is back at `idle` at some `m ≥ n`, under weak fairness of all threads, (E1) and (E2).
Stages: `RLock` (`d1`) waits only while the `Stop` caller holds or awaits the write lock; that caller returns
(`stop_eventually_returns`) and no later `Stop` wins a CAS, so from some position on the lock is free (`rlock_free`);
the straight-line code up to the send; in the `select` the `ctx.Done()` case that matches the cancellation is enabled and
stays enabled (the other cases may fire instead – all lead to `RUnlock`); the error send on the result channel is
enabled because a task still with its submitter has no result yet. -/
theorem do_eventually_returns_cancelled (e : Exec P) (hfair : Fair e) (hE1 : EnvReleases e) (hE2 : EnvStarts e) (t : Tid)
    (n u : Nat) (hin : inDoCall u ((e.c n).l t) = true)
    (hc : (e.c n).g.ctxDone = true ∨ taskCtxDone (e.c n).g u = true) : ∃ m, n ≤ m ∧ (e.c m).l t = .idle :=
  do_returns_cancelled e hfair hE1 hE2 t n u hin hc

/-- the blocked send itself: a thread at `push u` whose pool or task context is done leaves the `select`; only its own
weak fairness is needed -/
theorem blocked_send_released_by_cancel (e : Exec P) (t : Tid) (hf : WeakFair e t) (n u : Nat)
    (hl : (e.c n).l t = .push u) (hc : (e.c n).g.ctxDone = true ∨ taskCtxDone (e.c n).g u = true) :
    ∃ m, n ≤ m ∧ (e.c m).l t = .d9 u :=
  push_cancelled e hf n u hl hc

/-- C17 "`Do` blocks until a worker can take the task" / C12, **partial**: if at position `n` thread `t` is inside
`Do(u)`, the pool is started (`state = 1`) and `NumberWorker > 0`, then `t` is back at `idle` at some `m ≥ n`, under weak
fairness of all threads, (E1), (E2) **and the extra hypothesis `hsolo`**: from some position `N` on no *other* thread is
at a program counter from which it can send on the task queue (`dsel _`, `push _` in `Do`, `tsel _` in `TryDo`) – the
competing submissions are finite.

Why the hypothesis: while `t` waits at `push u` with the slot occupied, `queued_task_eventually_taken` empties the slot
and `t`'s send becomes enabled – but another submitter may refill the slot first, so the send is not *continuously*
enabled and weak fairness does not give `t` the step.  Starvation schedule (`starvation_prefix` below checks two rounds
of it in the kernel; `do_started_may_starve` is the infinite execution): victim at `push u`, queue `[v]`, worker at `w0`;
round: a competitor calls `Do(w)` and reaches `push w`; the worker takes `v` (slot free: victim and competitor both
enabled); the competitor's send fires (`q = [w]`, the victim is disabled again); the competitor returns; the gate of `v`
is released, the worker delivers the value and is back at `w0`.  The round can be repeated for ever: every thread but
the victim moves in every round, the victim is disabled in every round, (E1)/(E2) hold, `state = 1` throughout.
The hypothesis is violated by reachable configurations (two concurrent `Do` calls); it is not an artefact of the proof.
Without it the statement needs strong fairness of the victim's send (or a FIFO hand-over in the channel), which Go's
`select` does not promise.

The proof (`push_solo`): if the pool or task context ever becomes done, `do_eventually_returns_cancelled` applies; if
`Stop` wins its CAS, the pool context becomes done; otherwise the pool stays in state 1, fixed workers exist
(`started_has_fixed`), the queued task is taken (`queued_taken`), nobody refills the slot, and `t`'s send is enabled for
ever after.  (`do_returns_solo` proves the same from `state ≠ 0`.) -/
theorem do_eventually_returns_started_partial (e : Exec P) (hfair : Fair e) (hE1 : EnvReleases e) (hE2 : EnvStarts e)
    (hpos : 0 < P.nworker) (t : Tid) (n u : Nat) (hin : inDoCall u ((e.c n).l t) = true) (hs : (e.c n).g.state = 1)
    (N : Nat)
    (hsolo : ∀ m t', N ≤ m → t' ≠ t →
      (∀ v, (e.c m).l t' ≠ .dsel v) ∧ (∀ v, (e.c m).l t' ≠ .push v) ∧ (∀ v, (e.c m).l t' ≠ .tsel v)) :
    ∃ m, n ≤ m ∧ (e.c m).l t = .idle := by
  refine do_returns_solo e hfair hE1 hE2 hpos t n u N hin (by omega) (fun m t' hm hne => ?_)
  obtain ⟨h1, h2, h3⟩ := hsolo m t' hm hne
  cases hl : (e.c m).l t' <;> simp [sender]
  · exact h1 _ hl
  · exact h2 _ hl
  · exact h3 _ hl

/-- the same when `t` is the only submitter from position `N` on: no other thread is inside `Do` or `TryDo` -/
theorem do_eventually_returns_started_sole_submitter (e : Exec P) (hfair : Fair e) (hE1 : EnvReleases e)
    (hE2 : EnvStarts e) (hpos : 0 < P.nworker) (t : Tid) (n u : Nat) (hin : inDoCall u ((e.c n).l t) = true)
    (hs : (e.c n).g.state = 1) (N : Nat)
    (hsolo : ∀ m t' v, N ≤ m → t' ≠ t → inDoCall v ((e.c m).l t') = false ∧ inTry v ((e.c m).l t') = false) :
    ∃ m, n ≤ m ∧ (e.c m).l t = .idle := by
  refine do_eventually_returns_started_partial e hfair hE1 hE2 hpos t n u hin hs N (fun m t' hm hne => ?_)
  refine ⟨fun v hl => ?_, fun v hl => ?_, fun v hl => ?_⟩
  · have := (hsolo m t' v hm hne).1; rw [hl] at this; simp [inDoCall] at this
  · have := (hsolo m t' v hm hne).1; rw [hl] at this; simp [inDoCall] at this
  · have := (hsolo m t' v hm hne).2; rw [hl] at this; simp [inTry] at this

/-- the blocking send alone, under the same hypothesis (here from position `n` on) -/
theorem blocked_send_eventually_proceeds_partial (e : Exec P) (hfair : Fair e) (hE1 : EnvReleases e) (hE2 : EnvStarts e)
    (hpos : 0 < P.nworker) (t : Tid) (n u : Nat) (hl : (e.c n).l t = .push u) (hs : (e.c n).g.state = 1)
    (hsolo : ∀ m t', n ≤ m → t' ≠ t → sender ((e.c m).l t') = false) :
    ∃ m, n ≤ m ∧ (e.c m).l t = .d9 u :=
  push_solo e hfair hE1 hE2 hpos t n u hl (by omega) hsolo

/-- C12 for `Start`: a thread inside `Start` (`st0`, `st0c`, `st1`, `st2`) is back at `idle` at some `m ≥ n`, under weak
fairness of all threads, (E1), (E2).  Only the `RLock` at `st0` can wait – for the `Stop` caller holding or awaiting the
write lock, which returns. -/
theorem start_eventually_returns (e : Exec P) (hfair : Fair e) (hE1 : EnvReleases e) (hE2 : EnvStarts e) (t : Tid)
    (n : Nat) (hin : inStart ((e.c n).l t) = true) : ∃ m, n ≤ m ∧ (e.c m).l t = .idle :=
  start_returns e hfair hE1 hE2 t n hin

/-- the fact behind both `RLock`s: from some position on nobody holds or awaits the write side of `submitLock` -/
theorem write_lock_eventually_free_forever (e : Exec P) (hfair : Fair e) (hE1 : EnvReleases e) (hE2 : EnvStarts e)
    (n : Nat) : ∃ M, n ≤ M ∧ ∀ m, M ≤ m → (e.c m).g.writer = false ∧ (e.c m).g.wpending = false :=
  rlock_free e hfair hE1 hE2 n

/-! ## Non-vacuity: a concrete infinite fair execution with all four kinds of call -/

open Garr.Props.Pool (P10 lOf gOf)

/-- one fixed worker, unbuffered-like queue (capacity 1), no expansion.  `Do(0)` is queued and taken (the worker then
waits for the gate); `Do(1)` is queued; `Do(2)` by thread 3 blocks in its send (back-pressure); `TryDo(3)` by thread 4
finds the queue full and returns `false` without blocking; a second `Start` by thread 5 returns; the gate of task 0
opens, the worker delivers, takes task 1 – the slot is free and thread 3's send goes through, `Do(2)` returns; the
worker serves tasks 1 and 2; `Do(4)` by thread 3 has its task context cancelled while it waits for nothing at `d1` and
returns through the `ctx.Done()` case. -/
def submitTrace : List (Tid × Act) :=
  [ (0, .callStart), (0, .tau), (0, .tau), (0, .tau), (0, .tau),               --  0– 4 Start
    (1, .beFixed),                                                              --  5    the worker starts
    (2, .callDo .never), (2, .tau), (2, .tau), (2, .choose 2), (2, .tau),       --  6–10 Do(0): queued, returns
    (1, .tau),                                                                  -- 11    the worker takes task 0
    (2, .callDo .never), (2, .tau), (2, .tau), (2, .choose 2), (2, .tau),       -- 12–16 Do(1): queued, returns
    (3, .callDo .own), (3, .tau), (3, .tau),                                    -- 17–19 Do(2): blocked at its send
    (4, .callTry .never), (4, .tau), (4, .tau), (4, .choose 3), (4, .tau),      -- 20–24 TryDo(3): default, returns false
    (5, .callStart), (5, .tau), (5, .tau), (5, .tau),                           -- 25–28 a second Start: loses the CAS
    (0, .finish 0), (1, .tau), (1, .tau),                                       -- 29–31 gate 0; value delivered
    (1, .tau),                                                                  -- 32    the worker takes task 1
    (3, .choose 2), (3, .tau),                                                  -- 33–34 Do(2): queued, returns
    (0, .finish 1), (1, .tau), (1, .tau), (1, .tau),                            -- 35–38 task 1 served, task 2 taken
    (0, .finish 2), (1, .tau), (1, .tau),                                       -- 39–41 task 2 served
    (3, .callDo .own), (0, .cancelTask 4),                                      -- 42–43 Do(4), its context is cancelled
    (3, .tau), (3, .tau), (3, .choose 1), (3, .tau),                            -- 44–47 Do(4) returns with the ctx error
    (0, .finish 3), (0, .finish 4) ]                                            -- 48–49 (the harness opens the unused gates)

def submitExec : Exec P10 := Exec.ofSchedule P10 submitTrace

def submitCfg (n : Nat) : Config (M P10) := schedCfg P10 submitTrace n

theorem submitExec_c (n : Nat) : submitExec.c n = submitCfg n := rfl

theorem submitCfg_ge {n : Nat} (h : 50 ≤ n) : submitCfg n = submitCfg 50 := schedCfg_ge P10 submitTrace h

theorem submit_support (n : Nat) : Support 6 (submitCfg n).l := by
  refine run_support (M P10) (submitTrace.take n) 6 _ (fun _ _ => rfl) ?_
  rw [List.all_eq_true]
  intro p hp
  exact List.all_eq_true.1 (by decide : submitTrace.all (fun p => decide (p.1 < 6)) = true) p (List.mem_of_mem_take hp)

/-- The hypotheses of the theorems above are satisfiable together.  `submitExec` is weakly fair for every thread and
satisfies (E1), (E2).  Position 21: thread 4 is inside `TryDo(3)`; it is back at `idle` at 25 (and the queue was full:
the call did not block).  Position 26: thread 5 is inside `Start`; back at `idle` at 29.  Position 20: thread 3 is
inside `Do(2)` at its send, the pool is started, the queue is full and nothing is cancelled – the send is disabled
(back-pressure); from position 25 on no other thread is at a sending program counter; thread 3 is at `idle` at 35 and
task 2 was accepted.  Position 44: thread 3 is inside `Do(4)` whose task context is done; it is at `idle` from 48 on and task
4 got the task-context error, never entering the queue. -/
theorem submit_witness :
    Fair submitExec ∧ EnvReleases submitExec ∧ EnvStarts submitExec ∧
    -- TryDo
    inTry 3 (lOf P10 (submitExec.c 21) 4) = true ∧ (gOf P10 (submitExec.c 23)).q = [1] ∧
    lOf P10 (submitExec.c 25) 4 = .idle ∧
    -- Start
    inStart (lOf P10 (submitExec.c 26) 5) = true ∧ lOf P10 (submitExec.c 29) 5 = .idle ∧
    -- Do under back-pressure
    lOf P10 (submitExec.c 20) 3 = .push 2 ∧ (gOf P10 (submitExec.c 20)).state = 1 ∧
    blockedAt (gOf P10 (submitExec.c 20)) (.push 2) = true ∧
    (∀ m t', 25 ≤ m → t' ≠ 3 → sender (lOf P10 (submitExec.c m) t') = false) ∧
    lOf P10 (submitExec.c 35) 3 = .idle ∧ ((gOf P10 (submitExec.c 35)).task 2).enq = true ∧
    -- Do with a cancelled task context
    inDoCall 4 (lOf P10 (submitExec.c 44) 3) = true ∧ taskCtxDone (gOf P10 (submitExec.c 44)) 4 = true ∧
    (∀ m, 50 ≤ m → lOf P10 (submitExec.c m) 3 = .idle ∧ ((gOf P10 (submitExec.c m)).task 4).results = [.errTask] ∧
      ((gOf P10 (submitExec.c m)).task 4).enq = false) := by
  refine ⟨?_, ?_, ⟨?_, ?_⟩, by decide, by decide, by decide, by decide, by decide, by decide, by decide, by decide, ?_,
    by decide, by decide, by decide, by decide, ?_⟩
  · refine ofSchedule_fair P10 submitTrace ?_
    exact forall_threads (ls := lOf P10 (submitCfg 50)) (submit_support 50)
      (fun l => blockedAt (gOf P10 (submitCfg 50)) l = true) (by decide) (by decide)
  · refine ofSchedule_releases P10 submitTrace ?_
    show ∀ u, u < (gOf P10 (submitCfg 50)).tasks.length → ((gOf P10 (submitCfg 50)).task u).released = true
    decide
  · intro n h
    have key : ∀ n, n < 50 → 0 < (gOf P10 (submitCfg n)).spawnFixed → n ≤ 5 := by decide
    have hfin : (gOf P10 (submitCfg 50)).spawnFixed = 0 := by decide
    have hn : n ≤ 5 := by
      rcases Nat.lt_or_ge n 50 with hlt | hge
      · exact key n hlt h
      · rw [submitExec_c, submitCfg_ge hge] at h
        have h' : 0 < (gOf P10 (submitCfg 50)).spawnFixed := h
        omega
    exact ⟨5, 1, hn, by decide⟩
  · intro n h
    exfalso
    have key : ∀ n, n < 50 → (gOf P10 (submitCfg n)).spawnExp = 0 := by decide
    have hfin : (gOf P10 (submitCfg 50)).spawnExp = 0 := by decide
    rcases Nat.lt_or_ge n 50 with hlt | hge
    · have h' : 0 < (gOf P10 (submitCfg n)).spawnExp := h
      have := key n hlt
      omega
    · rw [submitExec_c, submitCfg_ge hge] at h
      have h' : 0 < (gOf P10 (submitCfg 50)).spawnExp := h
      omega
  · intro m t' hm hne
    have key : ∀ m, m < 51 → 25 ≤ m → ∀ t', t' < 6 → t' ≠ 3 → sender (lOf P10 (submitCfg m) t') = false := by decide
    have hm' : submitCfg m = submitCfg (min m 50) := by
      rcases Nat.lt_or_ge m 50 with hlt | hge
      · rw [Nat.min_eq_left (by omega)]
      · rw [Nat.min_eq_right hge]; exact submitCfg_ge hge
    rw [submitExec_c, hm']
    rcases Nat.lt_or_ge t' 6 with hlt | hge
    · exact key (min m 50) (by omega) (by omega) t' hlt hne
    · show sender ((submitCfg (min m 50)).l t') = false
      rw [submit_support _ t' hge]; rfl
  · intro m hm
    rw [submitExec_c, submitCfg_ge hm]
    decide

/-! ## The starvation schedule: two rounds, kernel-checked -/

/-- victim = thread 3 (`Do(1)`), competitor = thread 2, worker = thread 1, thread 0 plays `Start` and the harness.
Positions 0–13: set-up (pool started, task 0 queued, the victim blocked at its send).  Round 1 = positions 14–22,
round 2 = positions 23–31; round `k` differs from round 1 only in the task numbers. -/
def starveTrace : List (Tid × Act) :=
  [ (0, .callStart), (0, .tau), (0, .tau), (0, .tau), (0, .tau), (1, .beFixed),
    (2, .callDo .never), (2, .tau), (2, .tau), (2, .choose 2), (2, .tau),       --  6–10 Do(0): queued
    (3, .callDo .never), (3, .tau), (3, .tau),                                  -- 11–13 the victim: Do(1) reaches its send
    -- round 1
    (2, .callDo .never), (2, .tau), (2, .tau),                                  -- 14–16 competitor: Do(2) reaches its send
    (1, .tau),                                                                  -- 17    the worker takes task 0: slot free
    (2, .choose 2), (2, .tau),                                                  -- 18–19 the competitor's send wins; returns
    (0, .finish 0), (1, .tau), (1, .tau),                                       -- 20–22 gate 0; value; worker back at w0
    -- round 2
    (2, .callDo .never), (2, .tau), (2, .tau),                                  -- 23–25 competitor: Do(3)
    (1, .tau),                                                                  -- 26    the worker takes task 2
    (2, .choose 2), (2, .tau),                                                  -- 27–28
    (0, .finish 2), (1, .tau), (1, .tau) ]                                      -- 29–31

def starveCfg (n : Nat) : Config (M P10) := schedCfg P10 starveTrace n
def starveMover (n : Nat) : Option (Tid × Act) := schedMover P10 starveTrace n

/-- the shape in which a round starts and ends (besides the victim at `push 1`): worker at `w0`, competitor and harness
at `idle`, one task in the queue, one reader (the victim), no goroutine pending -/
def roundShape (c : Config (M P10)) : Prop :=
  lOf P10 c 1 = .w0 ∧ lOf P10 c 2 = .idle ∧ lOf P10 c 0 = .idle ∧ (gOf P10 c).q.length = 1 ∧ (gOf P10 c).readers = 1 ∧
    (gOf P10 c).spawnFixed = 0 ∧ (gOf P10 c).spawnExp = 0

instance (c : Config (M P10)) : Decidable (roundShape c) := by unfold roundShape; infer_instance

/-- Two rounds of the starvation schedule, checked by the kernel.
* The round starts (positions 14, 23) and ends (23, 32) in the same shape: pool started, nothing cancelled, queue open
  and holding one task, worker at `w0`, competitor at `idle`, victim at `push 1`.
* Throughout (14 ≤ m ≤ 32) the victim stays at `push 1`, and its `select` is disabled except at the single position
  of each round between the worker's receive and the competitor's send (18, 27): it is disabled at least once per
  round, so `WeakFair` asks nothing of it.
* Every scheduled step is enabled (none is skipped), the worker and the competitor take internal steps in each round,
  and the executor started in a round is released in the same round ((E1); (E2) has nothing pending).
Repeating the round for ever gives an execution that is weakly fair for every thread and satisfies (E1), (E2), in which
`Do(1)` never returns although the pool is started with a live worker. -/
theorem starvation_prefix :
    (∀ m, m < 33 → 14 ≤ m → lOf P10 (starveCfg m) 3 = .push 1 ∧ (gOf P10 (starveCfg m)).state = 1 ∧
      (gOf P10 (starveCfg m)).ctxDone = false ∧ (gOf P10 (starveCfg m)).closed = false ∧
      (blockedAt (gOf P10 (starveCfg m)) (.push 1) = false ↔ (m = 18 ∨ m = 27))) ∧
    roundShape (starveCfg 14) ∧ roundShape (starveCfg 23) ∧ roundShape (starveCfg 32) ∧
    (gOf P10 (starveCfg 14)).q = [0] ∧ (gOf P10 (starveCfg 23)).q = [2] ∧ (gOf P10 (starveCfg 32)).q = [3] ∧
    (∀ m, m < 32 → (starveMover m).isSome = true) ∧
    starveMover 17 = some (1, .tau) ∧ starveMover 18 = some (2, .choose 2) ∧
    starveMover 26 = some (1, .tau) ∧ starveMover 27 = some (2, .choose 2) ∧
    ((gOf P10 (starveCfg 23)).task 0).results = [.val] ∧ ((gOf P10 (starveCfg 32)).task 2).results = [.val] ∧
    ((gOf P10 (starveCfg 32)).task 1).results = [] ∧ ((gOf P10 (starveCfg 32)).task 1).enq = false := by
  refine ⟨by decide, by decide, by decide, by decide, by decide, by decide, by decide, by decide, by decide, by decide,
    by decide, by decide, by decide, by decide, by decide, by decide⟩

/-! ## The starvation schedule as an infinite execution: the unrestricted statement is false -/

/-- **Counterexample.**  `starveExec` (`Garr/Pool/Starve.lean`) repeats the round of `starvation_prefix` for ever (the
scheduler `starvePol` looks at the program counters of worker and competitor and schedules the next event of the round).
It is an execution of the pool with one fixed worker that is weakly fair for *every* thread and satisfies (E1) and (E2);
the pool is started (`state = 1`) at every position; thread 3 is inside `Do(1)` at position 0 – and stays at its blocking
send `push 1` at every position: the call never returns.  (Fairness of the victim holds because its send is disabled at
the start of every round; of the competitor because it is at `idle` there; of the worker because it takes a task in
every round.) -/
theorem do_started_may_starve :
    ∃ (e : Exec P10) (t : Tid) (u : Nat), Fair e ∧ EnvReleases e ∧ EnvStarts e ∧ 0 < P10.nworker ∧
      inDoCall u ((e.c 0).l t) = true ∧ (∀ m, (e.c m).g.state = 1) ∧ (∀ m, (e.c m).g.ctxDone = false) ∧
      (∀ m, (e.c m).l t = .push u) ∧ (∀ n, ∃ m, n ≤ m ∧ e.mover m = some (1, .tau)) := by
  refine ⟨starveExec, 3, 1, starve_fair, starve_releases, starve_starts, by decide, ?_, fun m => (starve_inv m).1.st,
    fun m => (starve_inv m).1.cx, fun m => (starve_inv m).1.vic, fun n => ?_⟩
  · rw [(starve_inv 0).1.vic]; rfl
  · exact starve_worker_moves n

/-- hence `do_eventually_returns_started` – "under weak fairness, (E1), (E2) every `Do` on a started pool with a worker
returns" – is **false**; the extra hypothesis of `do_eventually_returns_started_partial` cannot be dropped -/
theorem do_eventually_returns_started_fails :
    ¬ (∀ (P : Params) (e : Exec P), Fair e → EnvReleases e → EnvStarts e → 0 < P.nworker →
        ∀ (t : Tid) (n u : Nat), inDoCall u ((e.c n).l t) = true → (e.c n).g.state = 1 →
          ∃ m, n ≤ m ∧ (e.c m).l t = .idle) := by
  intro h
  obtain ⟨e, t, u, hf, h1, h2, hpos, hin, hs, _, hv, _⟩ := do_started_may_starve
  obtain ⟨m, _, hm⟩ := h P10 e hf h1 h2 hpos t 0 u hin (hs 0)
  rw [hv m] at hm
  cases hm

end Garr.Props.PoolLiveSubmit

#print axioms Garr.Props.PoolLiveSubmit.trydo_eventually_returns
#print axioms Garr.Props.PoolLiveSubmit.do_eventually_returns_cancelled
#print axioms Garr.Props.PoolLiveSubmit.blocked_send_released_by_cancel
#print axioms Garr.Props.PoolLiveSubmit.do_eventually_returns_started_partial
#print axioms Garr.Props.PoolLiveSubmit.do_eventually_returns_started_sole_submitter
#print axioms Garr.Props.PoolLiveSubmit.blocked_send_eventually_proceeds_partial
#print axioms Garr.Props.PoolLiveSubmit.start_eventually_returns
#print axioms Garr.Props.PoolLiveSubmit.write_lock_eventually_free_forever
#print axioms Garr.Props.PoolLiveSubmit.submit_witness
#print axioms Garr.Props.PoolLiveSubmit.starvation_prefix
#print axioms Garr.Props.PoolLiveSubmit.do_started_may_starve
#print axioms Garr.Props.PoolLiveSubmit.do_eventually_returns_started_fails
