import Garr.Queue.Quiescent
/-!
# C15 — sequentially, and after every concurrent phase, the queue is a plain FIFO list

In any single-goroutine sequence of `Offer`, `Poll`, `Peek`, `Size`, `IsEmpty` and iterator calls the
queue returns exactly what a simple FIFO list would; after any concurrent phase has finished (all
threads at rest), `Size`, a full iteration and a drain all agree with the elements offered and not yet
removed.

Property theorems only; definitions and lemmas live in `Garr/Queue/Quiescent.lean`.

* A *solo call* of thread `t` from configuration `c` is `run M c (soloSched t a k)`: the invocation `a`
  followed by `k` own steps of `t`, `k ≥ bound c = 16·n + 15` (C07; own steps of a thread at rest are
  disabled and skipped).  `seqSched t k ops` chains solo calls, `iterSched t k m` is `Iterator()`, `m`
  rounds of `HasNext(); Next()`, and a final `HasNext()`.
* `c` is any reachable configuration — in particular any configuration reached by any concurrent
  phase — in which `t` is idle.  `Quiet c` ("all threads at rest", `atRest`: `idle`, or `idleIt`
  owning a private iterator) is carried through every theorem to show that the observer leaves the
  system quiescent; the results themselves do not depend on it: they hold as soon as the other threads do
  not move, wherever they are suspended (the lemmas of `Quiescent.lean` are stated that way).
* `abs g` is the abstract queue (values of the live nodes in link order), `absS g` the specification
  state (the same with stable handles = node positions), `fifoApply`/`runFifo` the plain FIFO list.
* `Offer(nil)` is not modelled: the model's `offer v` always carries a value.
-/
namespace Garr.Props.C15
open Garr.Conc Garr.Queue
open Garr.Props.C01 (plain runSpec polledVals queueSpec)

set_option backward.isDefEq.respectTransparency false

/-! ## 1. One operation, run alone, is one step of the sequential specification -/

/-- **C15.1 (general form).**  From a reachable quiescent configuration, an idle thread `t` invokes the
specification operation `op` (`Offer v`, `Poll`, `Peek`, `IsEmpty`) by `a` and runs alone.  It ends
idle (the configuration is quiescent again, nobody else moved); the log consists of one LP marker
and one response, both carrying the result `specApply` computes from the abstract state at `c`;
the abstract state has become the one `specApply` computes. -/
theorem solo_op_matches_spec {c : Config M} (hc : Reach M c) (hq : Quiet c) {t : Tid} (ht : c.l t = .idle)
    {a : Act} {op : Op} (hop : invOp .idle a = some op) {k : Nat} (hk : bound c ≤ k) :
    Reach M (run M c (soloSched t a k)).1 ∧ Quiet (run M c (soloSched t a k)).1 ∧
    (run M c (soloSched t a k)).1.l = c.l ∧
    absS (run M c (soloSched t a k)).1.g = (specApply (absS c.g) op).1 ∧
    ∃ lg, (run M c (soloSched t a k)).2 = tag t lg ∧
      marks lg = [.lp (specApply (absS c.g) op).2, .res (specApply (absS c.g) op).2] ∧
      resps lg = [(specApply (absS c.g) op).2] := by
  obtain ⟨h1, h2, h3, h4⟩ := Garr.Queue.solo_op_matches_spec hc ht hop hk
  exact ⟨h1, Quiet_of_l_eq h2 hq, h2, h3, h4⟩

/-- **C15.1 (plain list form).**  The same against the plain FIFO list: the response is what
`fifoApply` returns on `abs c.g`, and the abstract queue becomes what `fifoApply` produces. -/
theorem solo_op_fifo {c : Config M} (hc : Reach M c) (hq : Quiet c) {t : Tid} (ht : c.l t = .idle)
    {a : Act} {op : Op} (hop : invOp .idle a = some op) {k : Nat} (hk : bound c ≤ k) :
    Reach M (run M c (soloSched t a k)).1 ∧ Quiet (run M c (soloSched t a k)).1 ∧
    abs (run M c (soloSched t a k)).1.g = (fifoApply (abs c.g) op).1 ∧
    ∃ lg, (run M c (soloSched t a k)).2 = tag t lg ∧ rets lg = [(fifoApply (abs c.g) op).2] := by
  obtain ⟨h1, h2, _, h3, lg, h4, h5, _⟩ := solo_op_matches_spec hc hq ht hop hk
  obtain ⟨hp, _⟩ := invoke_plain (t := t) (g := c.g) hop
  obtain ⟨e1, e2⟩ := specApply_fifo (absS c.g) hp
  refine ⟨h1, h2, ?_, lg, h4, ?_⟩
  · rw [abs_eq_items, h3, e1, ← abs_eq_items]
  · rw [rets_marks, h5, e2, ← abs_eq_items]; rfl

/-- **`Poll`, run alone**, removes and returns the head of the abstract queue; on the empty queue it
returns nil and the queue stays empty. -/
theorem solo_poll {c : Config M} (hc : Reach M c) (hq : Quiet c) {t : Tid} (ht : c.l t = .idle)
    {k : Nat} (hk : bound c ≤ k) :
    Reach M (run M c (soloSched t .poll k)).1 ∧ Quiet (run M c (soloSched t .poll k)).1 ∧
    ∃ lg, (run M c (soloSched t .poll k)).2 = tag t lg ∧
      (∀ v tl, abs c.g = v :: tl →
        rets lg = [.val v] ∧ abs (run M c (soloSched t .poll k)).1.g = tl) ∧
      (abs c.g = [] → rets lg = [.nil] ∧ abs (run M c (soloSched t .poll k)).1.g = []) := by
  obtain ⟨h1, h2, h3, lg, h4, h5⟩ := solo_op_fifo hc hq ht (a := .poll) (op := .poll) rfl hk
  refine ⟨h1, h2, lg, h4, fun v tl e => ?_, fun e => ?_⟩ <;> rw [e] at h3 h5 <;> exact ⟨h5, h3⟩

/-- **`Peek`, run alone**, returns the head of the abstract queue (nil if empty) and changes nothing. -/
theorem solo_peek {c : Config M} (hc : Reach M c) (hq : Quiet c) {t : Tid} (ht : c.l t = .idle)
    {k : Nat} (hk : bound c ≤ k) :
    Reach M (run M c (soloSched t .peek k)).1 ∧ Quiet (run M c (soloSched t .peek k)).1 ∧
    abs (run M c (soloSched t .peek k)).1.g = abs c.g ∧
    ∃ lg, (run M c (soloSched t .peek k)).2 = tag t lg ∧
      (∀ v tl, abs c.g = v :: tl → rets lg = [.val v]) ∧ (abs c.g = [] → rets lg = [.nil]) := by
  obtain ⟨h1, h2, h3, lg, h4, h5⟩ := solo_op_fifo hc hq ht (a := .peek) (op := .peek) rfl hk
  refine ⟨h1, h2, ?_, lg, h4, fun v tl e => ?_, fun e => ?_⟩
  · rw [h3]; cases abs c.g <;> rfl
  · rw [e] at h5; exact h5
  · rw [e] at h5; exact h5

/-- **`Offer v`, run alone**, appends `v` at the end of the abstract queue. -/
theorem solo_offer {c : Config M} (hc : Reach M c) (hq : Quiet c) {t : Tid} (ht : c.l t = .idle) (v : Nat)
    {k : Nat} (hk : bound c ≤ k) :
    Reach M (run M c (soloSched t (.offer v) k)).1 ∧ Quiet (run M c (soloSched t (.offer v) k)).1 ∧
    abs (run M c (soloSched t (.offer v) k)).1.g = abs c.g ++ [v] ∧
    ∃ lg, (run M c (soloSched t (.offer v) k)).2 = tag t lg ∧ rets lg = [.unit] :=
  solo_op_fifo hc hq ht (a := .offer v) (op := .offer v) rfl hk

/-- **`IsEmpty`, run alone**, returns whether the abstract queue is empty, and changes nothing. -/
theorem solo_isEmpty {c : Config M} (hc : Reach M c) (hq : Quiet c) {t : Tid} (ht : c.l t = .idle)
    {k : Nat} (hk : bound c ≤ k) :
    Reach M (run M c (soloSched t .isEmpty k)).1 ∧ Quiet (run M c (soloSched t .isEmpty k)).1 ∧
    abs (run M c (soloSched t .isEmpty k)).1.g = abs c.g ∧
    ∃ lg, (run M c (soloSched t .isEmpty k)).2 = tag t lg ∧ rets lg = [.bool (decide (abs c.g = []))] :=
  solo_op_fifo hc hq ht (a := .isEmpty) (op := .isEmpty) rfl hk

/-! ## 2. A sequence of operations by one thread -/

/-- **C15.2.**  One thread executes the plain operations `ops` one after the other from a reachable
quiescent configuration: the responses are those of the sequential specification run from the abstract
state at `c` (`runSpec`), and so is the final abstract state. -/
theorem seq_refines_list {c : Config M} (hc : Reach M c) (hq : Quiet c) {t : Tid} (ht : c.l t = .idle)
    (ops : List Op) (hp : ∀ op ∈ ops, plain op) {k : Nat} (hk : 16 * (c.g.n + ops.length) + 15 ≤ k) :
    Reach M (run M c (seqSched t k ops)).1 ∧ Quiet (run M c (seqSched t k ops)).1 ∧
    absS (run M c (seqSched t k ops)).1.g = (runSpec (absS c.g) ops).1 ∧
    ∃ lg, (run M c (seqSched t k ops)).2 = tag t lg ∧
      marks lg = seqMarks (runSpec (absS c.g) ops).2 ∧
      rets lg = (runSpec (absS c.g) ops).2.map (·.2) := by
  obtain ⟨h1, h2, h3, lg, h4, h5, _⟩ := Garr.Queue.seq_refines_list ops hp hc ht hk
  exact ⟨h1, Quiet_of_l_eq h2 hq, h3, lg, h4, h5, rets_seqMarks h5⟩

/-- **C15.2 (plain list form): sequentially the queue behaves like a plain FIFO list.**  The responses
are exactly those of `runFifo` on the list `abs c.g`, and the abstract queue ends as `runFifo` says. -/
theorem seq_behaves_like_fifo_list {c : Config M} (hc : Reach M c) (hq : Quiet c) {t : Tid}
    (ht : c.l t = .idle) (ops : List Op) (hp : ∀ op ∈ ops, plain op) {k : Nat}
    (hk : 16 * (c.g.n + ops.length) + 15 ≤ k) :
    Reach M (run M c (seqSched t k ops)).1 ∧ Quiet (run M c (seqSched t k ops)).1 ∧
    abs (run M c (seqSched t k ops)).1.g = (runFifo (abs c.g) ops).1 ∧
    ∃ lg, (run M c (seqSched t k ops)).2 = tag t lg ∧ rets lg = (runFifo (abs c.g) ops).2 := by
  obtain ⟨h1, h2, h3, lg, h4, _, h5⟩ := seq_refines_list hc hq ht ops hp hk
  obtain ⟨e1, e2⟩ := runSpec_fifo (absS c.g) ops hp
  refine ⟨h1, h2, ?_, lg, h4, ?_⟩
  · rw [abs_eq_items, h3, e1, ← abs_eq_items]
  · rw [h5, e2, ← abs_eq_items]

/-- **FIFO order.**  One thread executes `ops` from the initial (empty) queue: the values returned by the
successful polls, followed by the values still queued, are exactly the offered values in the order
they were offered (`Garr.Props.C01.spec_poll_fifo` transported to the implementation). -/
theorem seq_fifo_order {t : Tid} (ops : List Op) (hp : ∀ op ∈ ops, plain op) {k : Nat}
    (hk : 16 * (1 + ops.length) + 15 ≤ k) :
    ∃ lg, (run M (Config.init M) (seqSched t k ops)).2 = tag t lg ∧ (rets lg).length = ops.length ∧
      polledVals (ops.zip (rets lg)) ++ abs (run M (Config.init M) (seqSched t k ops)).1.g =
        Garr.Props.C01.offeredVals ops := by
  obtain ⟨_, _, h3, lg, h4, _, h5⟩ :=
    seq_refines_list (c := Config.init M) Reach.init (fun _ => rfl) (t := t) rfl ops hp hk
  have hs : absS (Config.init M).g = queueSpec.init := rfl
  rw [hs] at h3 h5
  have hfst := (Garr.Props.C01.runSpec_legal queueSpec.init ops).2.2
  have hzip : (runSpec queueSpec.init ops).2 = ops.zip (rets lg) := List.zip_of_prod hfst h5.symm
  refine ⟨lg, h4, ?_, ?_⟩
  · rw [h5, List.length_map, ← List.length_map (f := (·.1)), hfst]
  · rw [← hzip, abs_eq_items, h3]
    exact Garr.Props.C01.spec_poll_fifo ops hp

/-- **C15, first sentence.**  In any single-threaded sequence of `Offer`, `Poll`, `Peek`, `IsEmpty`, `Size`
calls and full iterations (`Iterator()`, `HasNext(); Next()` until `HasNext()` is false), started in a
reachable quiescent configuration, the responses — all of them, in order — are exactly those of the plain
FIFO list `runCalls` started with `abs c.g`: `Poll`/`Peek` on the empty list return nil, `Size` is the number
of elements (saturating at `maxInt32`), `IsEmpty` is `Size == 0`, an iteration returns the elements in
order.  The abstract queue ends as the plain list does, and the configuration is quiescent again. -/
theorem single_thread_sequence {c : Config M} (hc : Reach M c) (hq : Quiet c) {t : Tid} (ht : c.l t = .idle)
    (cls : List Call) (hp : ∀ cl ∈ cls, cl.plain) {k : Nat} (hk : 16 * (c.g.n + cls.length) + 15 ≤ k) :
    Reach M (run M c (callsSched t k (abs c.g) cls)).1 ∧
    Quiet (run M c (callsSched t k (abs c.g) cls)).1 ∧
    abs (run M c (callsSched t k (abs c.g) cls)).1.g = (runCalls (abs c.g) cls).1 ∧
    ∃ lg, (run M c (callsSched t k (abs c.g) cls)).2 = tag t lg ∧ resps lg = (runCalls (abs c.g) cls).2 := by
  obtain ⟨h1, h2, h3, h4⟩ := calls_behave_like_fifo_list cls hp hc ht hk
  exact ⟨h1, Quiet_of_l_eq h2 hq, h3, h4⟩

/-- the same from the initial (empty) queue -/
theorem single_thread_sequence_init {t : Tid} (cls : List Call) (hp : ∀ cl ∈ cls, cl.plain) {k : Nat}
    (hk : 16 * (1 + cls.length) + 15 ≤ k) :
    abs (run M (Config.init M) (callsSched t k [] cls)).1.g = (runCalls [] cls).1 ∧
    ∃ lg, (run M (Config.init M) (callsSched t k [] cls)).2 = tag t lg ∧ resps lg = (runCalls [] cls).2 := by
  obtain ⟨_, _, h3, h4⟩ :=
    single_thread_sequence (c := Config.init M) Reach.init (fun _ => rfl) (t := t) rfl cls hp hk
  exact ⟨h3, h4⟩

/-! ## 3./4. `Size` and `IsEmpty` -/

/-- **C15.3.**  `Size`, run alone from a reachable quiescent configuration, returns the number of
elements of the abstract queue (saturating at `maxInt32`, as the code does) and leaves it unchanged. -/
theorem solo_size {c : Config M} (hc : Reach M c) (hq : Quiet c) {t : Tid} (ht : c.l t = .idle) {k : Nat}
    (hk : bound c ≤ k) :
    Reach M (run M c (soloSched t .size k)).1 ∧ Quiet (run M c (soloSched t .size k)).1 ∧
    abs (run M c (soloSched t .size k)).1.g = abs c.g ∧
    (run M c (soloSched t .size k)).2 = [(t, .retAux (.int (min (abs c.g).length maxInt32)))] := by
  obtain ⟨h1, h2, h3, h4⟩ := solo_size_run hc ht hk
  exact ⟨h1, Quiet_of_l_eq h2 hq, by rw [abs_eq_items, h3, ← abs_eq_items], h4⟩

/-- … in particular exactly the number of elements below the saturation point -/
theorem solo_size_exact {c : Config M} (hc : Reach M c) (hq : Quiet c) {t : Tid} (ht : c.l t = .idle)
    {k : Nat} (hk : bound c ≤ k) (hlt : (abs c.g).length < maxInt32) :
    (run M c (soloSched t .size k)).2 = [(t, .retAux (.int (abs c.g).length))] := by
  rw [(solo_size hc hq ht hk).2.2.2, Nat.min_eq_left (Nat.le_of_lt hlt)]

/-- **C15.4.**  `IsEmpty` is `Size == 0`: from the same reachable quiescent configuration, a solo `Size`
returns `n` and a solo `IsEmpty` returns `b` with `b = true ↔ n = 0`. -/
theorem size_zero_iff_empty {c : Config M} (hc : Reach M c) (hq : Quiet c) {t : Tid} (ht : c.l t = .idle)
    {k : Nat} (hk : bound c ≤ k) :
    ∃ n b lg, (run M c (soloSched t .size k)).2 = [(t, .retAux (.int n))] ∧
      (run M c (soloSched t .isEmpty k)).2 = tag t lg ∧ rets lg = [.bool b] ∧ (b = true ↔ n = 0) := by
  obtain ⟨_, _, _, lg, h1, h2⟩ := solo_isEmpty hc hq ht hk
  refine ⟨_, _, lg, (solo_size hc hq ht hk).2.2.2, h1, h2, ?_⟩
  rw [decide_eq_true_iff]
  constructor
  · intro e; rw [e]; rfl
  · intro e
    have h0 : (abs c.g).length = 0 := by
      rcases Nat.le_total (abs c.g).length maxInt32 with h | h
      · rwa [Nat.min_eq_left h] at e
      · rw [Nat.min_eq_right h] at e; cases e
    exact List.eq_nil_of_length_eq_zero h0

/-! ## 5. A full iteration -/

/-- **C15.5.**  From a reachable quiescent configuration, the solo sequence `Iterator()`,
`(HasNext(); Next())` once per element, `HasNext()`: the `Next()` calls return exactly the elements
of the abstract queue in order — `(position, value)` pairs `absP c.g`, values `abs c.g` —, every
`HasNext()` before is true and the last one is false; the abstract queue is unchanged. -/
theorem solo_iteration {c : Config M} (hc : Reach M c) (hq : Quiet c) {t : Tid} (ht : c.l t = .idle)
    {k : Nat} (hk : bound c ≤ k) :
    Reach M (run M c (iterSched t k (abs c.g).length)).1 ∧
    Quiet (run M c (iterSched t k (abs c.g).length)).1 ∧
    abs (run M c (iterSched t k (abs c.g).length)).1.g = abs c.g ∧
    ∃ lg, (run M c (iterSched t k (abs c.g).length)).2 = tag t lg ∧
      lg = .retAux .unit :: iterLoopObs c.g (liveIdx c.g.n c.g.live) ∧
      lg.filterMap Obs.itPair = absP c.g ∧
      (lg.filterMap Obs.itPair).map (·.2) = abs c.g ∧
      lg.filterMap Obs.auxRet =
        .unit :: ((abs c.g).flatMap (fun v => [Ret.bool true, Ret.val v]) ++ [Ret.bool false]) := by
  obtain ⟨h1, h2, ⟨it, h3, _⟩, h4, h5⟩ := solo_iteration_run hc ht hk
  have hq' : Quiet (run M c (iterSched t k (abs c.g).length)).1 :=
    Quiet_of_others h2 (by rw [h3]; rfl) hq
  have e1 : (Obs.retAux .unit :: iterLoopObs c.g (liveIdx c.g.n c.g.live)).filterMap Obs.itPair = absP c.g := by
    rw [List.filterMap_cons]; exact iterLoopObs_itNext c.g _
  refine ⟨h1, hq', by rw [abs_eq_items, h4, ← abs_eq_items], _, h5, rfl, e1, ?_, ?_⟩
  · rw [e1, abs_eq_absP]
  · rw [List.filterMap_cons]
    show Ret.unit :: List.filterMap Obs.auxRet (iterLoopObs c.g (liveIdx c.g.n c.g.live)) = _
    rw [iterLoopObs_aux, abs_eq_map_liveIdx, List.flatMap_map]

/-! ## 6. Draining -/

/-- **C15.6.**  Repeated solo `Poll` until nil, from a reachable quiescent configuration, returns exactly
the abstract queue in order (then nil), and leaves the queue empty. -/
theorem solo_drain {c : Config M} (hc : Reach M c) (hq : Quiet c) {t : Tid} (ht : c.l t = .idle) {k : Nat}
    (hk : 16 * (c.g.n + ((abs c.g).length + 1)) + 15 ≤ k) :
    Reach M (run M c (seqSched t k (List.replicate ((abs c.g).length + 1) Op.poll))).1 ∧
    Quiet (run M c (seqSched t k (List.replicate ((abs c.g).length + 1) Op.poll))).1 ∧
    abs (run M c (seqSched t k (List.replicate ((abs c.g).length + 1) Op.poll))).1.g = [] ∧
    ∃ lg, (run M c (seqSched t k (List.replicate ((abs c.g).length + 1) Op.poll))).2 = tag t lg ∧
      rets lg = (abs c.g).map Ret.val ++ [Ret.nil] := by
  obtain ⟨h1, h2, h3, h4⟩ := solo_drain_run hc ht hk
  exact ⟨h1, Quiet_of_l_eq h2 hq, h3, h4⟩

/-! ## 7. After any concurrent phase -/

/-- there is always a thread available to observe with: only finitely many threads have ever moved -/
theorem observer_exists {c : Config M} (hc : Reach M c) : ∃ t, c.l t = .idle := by
  obtain ⟨N, hN⟩ := finite_support hc
  exact ⟨N, hN N (Nat.le_refl _)⟩

/-- **C15.7.**  Let `c` be the configuration after ANY schedule `s` from the initial state — any client
program, any number of threads, any interleaving — and suppose the concurrent phase is over: all
threads are at rest.  Then for any idle thread `t` observing alone:

* `Size` returns the number of elements of `abs c.g` (saturating at `maxInt32`);
* a full iteration returns exactly `abs c.g`, in order;
* a drain (`Poll` until nil) returns exactly `abs c.g`, in order;

and `abs c.g` is "offered and not yet removed": it consists of the offered values at the live positions
(a sub-sequence of the values offered during `s`, in offer order), and its length is the number of offers
minus the number of successful polls and effective removes.  Each observation leaves the system
quiescent. -/
theorem quiescent_agree (s : List (Tid × M.Act)) {c : Config M} (hcs : (run M (Config.init M) s).1 = c)
    (hq : Quiet c) {t : Tid} (ht : c.l t = .idle) {k : Nat}
    (hk : 16 * (c.g.n + ((abs c.g).length + 1)) + 15 ≤ k) :
    -- Size
    ((run M c (soloSched t .size k)).2 = [(t, .retAux (.int (min (abs c.g).length maxInt32)))] ∧
      Quiet (run M c (soloSched t .size k)).1) ∧
    -- full iteration
    (∃ lg, (run M c (iterSched t k (abs c.g).length)).2 = tag t lg ∧
      (lg.filterMap Obs.itPair).map (·.2) = abs c.g ∧
      Quiet (run M c (iterSched t k (abs c.g).length)).1) ∧
    -- drain
    (∃ lg, (run M c (seqSched t k (List.replicate ((abs c.g).length + 1) Op.poll))).2 = tag t lg ∧
      rets lg = (abs c.g).map Ret.val ++ [Ret.nil] ∧
      Quiet (run M c (seqSched t k (List.replicate ((abs c.g).length + 1) Op.poll))).1) ∧
    -- offered and not yet removed
    abs c.g = (liveIdx c.g.n c.g.live).filterMap
      (fun i => (0 :: Garr.Queue.offeredVals (run M (Config.init M) s).2)[i]?) ∧
    (abs c.g).Sublist (Garr.Queue.offeredVals (run M (Config.init M) s).2) ∧
    (abs c.g).length + polled (run M (Config.init M) s).2 + removed (run M (Config.init M) s).2 =
      offered (run M (Config.init M) s).2 := by
  have hc : Reach M c := by rw [← hcs]; exact reach_run M _ Reach.init s
  have hk1 : bound c ≤ k := by simp only [bound]; omega
  obtain ⟨_, a2, _, a4⟩ := solo_size hc hq ht hk1
  obtain ⟨_, b2, _, lg1, b4, _, _, b7, _⟩ := solo_iteration hc hq ht hk1
  obtain ⟨_, d2, _, lg2, d4, d5⟩ := solo_drain hc hq ht hk
  refine ⟨⟨a4, a2⟩, ⟨lg1, b4, b7, b2⟩, ⟨lg2, d4, d5, d2⟩, ?_, ?_, ?_⟩
  · rw [← hcs]; exact abs_at_live_positions s
  · rw [← hcs]; exact abs_sublist_offered s
  · rw [← hcs]; exact abs_length_accounting s

/-! ## Non-vacuity -/

/-- offer 7, offer 8, size, poll, a full iteration, isEmpty, poll, poll -/
def demoCalls : List Call :=
  [.op (.offer 7), .op (.offer 8), .size, .op .poll, .iterate, .op .isEmpty, .op .poll, .op .poll]

/-- what the plain FIFO list answers -/
example : runCalls [] demoCalls =
    ([], [.unit, .unit, .int 2, .val 7, .unit, .bool true, .val 8, .bool false, .bool false, .val 8, .nil]) := by
  decide

/-- the machine, executing the schedule of `single_thread_sequence_init` (here with 20 own steps per call,
which suffices for this small queue), answers the same -/
example : resps ((run M (Config.init M) (callsSched 0 20 [] demoCalls)).2.map (·.2)) =
    (runCalls [] demoCalls).2 := by decide

/-- a concurrent phase (thread 0 offers 7 while thread 1 offers 8, interleaved), then thread 2 observes:
the configuration is quiescent and `Size` returns 2 -/
def demoPhase : List (Tid × M.Act) :=
  [(0, .offer 7), (1, .offer 8), (0, .tau), (1, .tau), (0, .tau), (1, .tau), (0, .tau), (1, .tau),
   (1, .tau), (1, .tau), (1, .tau), (1, .tau), (1, .tau), (1, .tau)]

example : abs (run M (Config.init M) demoPhase).1.g = [7, 8] ∧
    atRest ((run M (Config.init M) demoPhase).1.l 0) = true ∧
    atRest ((run M (Config.init M) demoPhase).1.l 1) = true ∧
    resps ((run M (run M (Config.init M) demoPhase).1 (soloSched 2 .size 20)).2.map (·.2)) = [.int 2] := by
  decide

end Garr.Props.C15
