import Garr.Props.PoolLive
/-!
# Worker pool: once the shutting-down `Stop` runs, every enqueued task is released (C12 / C08, liveness)

C12 "a task submitted before a deferred Start is handled safely: the task is either executed normally or receives
exactly one result carrying the pool context's error, so a caller waiting on its result channel is always released";
C08 "when Stop returns every accepted task's result is available".  `accepted_task_eventually_has_result` needs a
started pool (`state = 1`); here the pool may be in ANY state (started or never started): as soon as some thread is
inside the `Stop` call that performs the shutdown (it has won its CAS), every task that is enqueued now has exactly one
result at some later position, under fairness of all threads, (E1) and (E2).
-/
namespace Garr.Props.PoolLiveStop
open Garr.Conc Garr.Pool Garr.Pool.Progress Garr.Pool.Fair Garr.Props.Pool Garr.Props.PoolLive

variable {P : Params}

/-- the state word never leaves 2 (one step) -/
theorem trans_state2 {g g' : G} {l l' : L} {a : Act} (h : Trans P g l a g' l') (hs : g.state = 2) : g'.state = 2 := by
  cases h <;> first | exact hs | rfl | (simp_all; done)

/-- a predicate that holds at `n` and fails at `m ≥ n` is lost at some step in between -/
theorem last_step (p : Nat → Prop) (n m : Nat) (hnm : n ≤ m) (hn : p n) (hm : ¬ p m) :
    ∃ k, n ≤ k ∧ k < m ∧ p k ∧ ¬ p (k + 1) := by
  obtain ⟨d, rfl⟩ : ∃ d, m = n + d := ⟨m - n, by omega⟩
  clear hnm
  induction d with
  | zero => exact absurd hn hm
  | succ d ih =>
    by_cases hd : p (n + d)
    · exact ⟨n + d, by omega, by omega, hd, hm⟩
    · obtain ⟨k, h1, h2, h3⟩ := ih hd
      exact ⟨k, h1, by omega, h3⟩

/-- the position right after the shutting-down `Stop` has returned: if thread `t` is the `Stop` caller that won the
state CAS at position `n`, then at some `m ≥ n` that `Stop` has returned in the sense of `stopReturned` (the pool is
stopped and no thread is inside the winner's part of `Stop`) -/
theorem winner_stop_eventually_returned (e : Exec P) (hfair : Fair e) (hE1 : EnvReleases e) (hE2 : EnvStarts e)
    (t : Tid) (n : Nat) (ht : stopper ((e.c n).l t) = true) :
    ∃ m, n ≤ m ∧ stopReturned (e.c m) := by
  have hin : inStop ((e.c n).l t) = true := by
    cases hl : (e.c n).l t <;> rw [hl] at ht <;> simp [stopper] at ht <;> rfl
  obtain ⟨m, hnm, hidle⟩ := stop_returns_fair e hfair hE1 hE2 t n hin
  obtain ⟨k, hnk, _, hk, hk1⟩ := last_step (fun i => stopper ((e.c i).l t) = true) n m hnm ht
    (by show ¬ stopper ((e.c m).l t) = true; rw [hidle]; simp [stopper])
  have hp := e.pinv k
  refine ⟨k + 1, by omega, ?_⟩
  rcases e.cases k t with ⟨hsame, _⟩ | ⟨a, g', l', _, htr, hg, hl, hlt⟩
  · exact absurd (by show stopper ((e.c (k + 1)).l t) = true; rw [hsame]; exact hk) hk1
  · refine ⟨?_, fun t' => ?_⟩
    · rw [hg]; exact trans_state2 htr (hp.lock.stop_state t hk)
    · by_cases htt : t' = t
      · subst htt
        cases h : stopper ((e.c (k + 1)).l t') with
        | false => rfl
        | true => exact absurd h hk1
      · have hoth : (e.c (k + 1)).l t' = (e.c k).l t' := by rw [hl]; exact upd_other _ _ _ _ htt
        rw [hoth]
        cases h : stopper ((e.c k).l t') with
        | false => rfl
        | true => exact absurd (hp.lock.stop_uniq t' t h hk) htt

/-- C12/C08 liveness, in ANY pool state (started or never started): if at position `n` task `u` is enqueued and some
thread `t` is inside the `Stop` call that performs the shutdown (it has won its CAS: its pc is one of `sp2`, `sp3a`,
`sp3b`, `sp3c`, `sp3d`, `sp4`, `sp5`, `sp5s _`), then under fairness of all threads, (E1) and (E2) task `u` has exactly
one result at some `m ≥ n` — a caller waiting on its result channel is released.  (By `result_stable` the result then
stays for ever; by `result_shape`/`executed_iff` it is the value iff the task was executed.) -/
theorem enqueued_task_released_once_stop_runs (e : Exec P) (hfair : Fair e) (hE1 : EnvReleases e) (hE2 : EnvStarts e)
    (t : Tid) (n u : Nat) (he : ((e.c n).g.task u).enq = true)
    (hin : (e.c n).l t = .sp2 ∨ (e.c n).l t = .sp3a ∨ (e.c n).l t = .sp3b ∨ (e.c n).l t = .sp3c ∨
      (e.c n).l t = .sp3d ∨ (e.c n).l t = .sp4 ∨ (e.c n).l t = .sp5 ∨ ∃ v, (e.c n).l t = .sp5s v) :
    ∃ m, n ≤ m ∧ ((e.c m).g.task u).results.length = 1 := by
  have ht : stopper ((e.c n).l t) = true := by
    rcases hin with h | h | h | h | h | h | h | ⟨v, h⟩ <;> rw [h] <;> rfl
  obtain ⟨m, hnm, hret⟩ := winner_stop_eventually_returned e hfair hE1 hE2 t n ht
  exact ⟨m, hnm, (stop_drains (e.c m) (e.reach m) hret).1 u ((e.taskMono hnm).enq u he)⟩

/-- the same, for ever: from some position on task `u` has one and the same single result -/
theorem enqueued_task_released_for_ever (e : Exec P) (hfair : Fair e) (hE1 : EnvReleases e) (hE2 : EnvStarts e)
    (t : Tid) (n u : Nat) (he : ((e.c n).g.task u).enq = true) (ht : stopper ((e.c n).l t) = true) :
    ∃ m r, n ≤ m ∧ ∀ m', m ≤ m' → ((e.c m').g.task u).results = [r] := by
  obtain ⟨m, hnm, hret⟩ := winner_stop_eventually_returned e hfair hE1 hE2 t n ht
  have h1 := (stop_drains (e.c m) (e.reach m) hret).1 u ((e.taskMono hnm).enq u he)
  cases hres : ((e.c m).g.task u).results with
  | nil => rw [hres] at h1; cases h1
  | cons r rs =>
    have hrs : rs = [] := by
      cases rs with
      | nil => rfl
      | cons _ _ => rw [hres] at h1; simp at h1
    subst hrs
    exact ⟨m, r, hnm, fun m' hm' => by rw [result_stable e m m' u hm' h1, hres]⟩

/-! ## Non-vacuity: a never-started pool (`DisableAutoStart`, `Start` is never called) -/

/-- `Do(task 0)` on a pool that was never started: `RLock`, the state is not "stopped", the task goes into the
queue buffer, `RUnlock`, `Do` returns; nobody will ever run it.  Then `Stop`: the CAS 0→2 wins, `cancel()`, `Lock`
(two steps), `close`, `Unlock`, `wg.Wait()` (the wait group is at zero), the drain loop takes task 0 out of the queue
and answers it with the pool context's error, the queue is empty, `Stop` returns.  (The last entry lets the
environment release the gate of task 0, which (E1) as stated by `ofSchedule_releases` asks of every task.) -/
def coldTrace : List (Tid × Act) :=
  [ (0, .callDo .pool), (0, .tau), (0, .tau), (0, .choose 2), (0, .tau),
    (1, .callStop), (1, .tau), (1, .tau), (1, .tau), (1, .tau), (1, .tau), (1, .tau), (1, .tau),
    (1, .tau), (1, .tau), (1, .tau),
    (2, .finish 0) ]                    -- the environment opens the gate of task 0 (nobody is waiting at it)

def coldExec : Exec P10 := Exec.ofSchedule P10 coldTrace

def coldCfg (n : Nat) : Config (M P10) := schedCfg P10 coldTrace n

theorem coldFinal_support : Support 4 (coldCfg 17).l :=
  run_support (M P10) (coldTrace.take 17) 4 _ (fun _ _ => rfl) (by decide)

theorem coldExec_c (n : Nat) : coldExec.c n = coldCfg n := rfl

theorem coldCfg_ge {n : Nat} (h : 17 ≤ n) : coldCfg n = coldCfg 17 := schedCfg_ge P10 coldTrace h

/-- The hypotheses of `enqueued_task_released_once_stop_runs` are satisfiable on a pool that is never started:
`coldExec` is fair for every thread and satisfies (E1), (E2); the pool state is never 1; at position 5 `Do(task 0)` has
returned with task 0 enqueued and without a result; at position 7 thread 1 has won the CAS 0→2 of `Stop` (pc `sp2`)
and task 0 is still in the queue; from position 17 on `Stop` has returned, task 0 has exactly the result `errPool` and
was never executed. -/
theorem cold_witness :
    Fair coldExec ∧ EnvReleases coldExec ∧ EnvStarts coldExec ∧
    (∀ m, (gOf P10 (coldExec.c m)).state ≠ 1) ∧
    lOf P10 (coldExec.c 5) 0 = .idle ∧ ((gOf P10 (coldExec.c 5)).task 0).enq = true ∧
    ((gOf P10 (coldExec.c 5)).task 0).results = [] ∧
    lOf P10 (coldExec.c 7) 1 = .sp2 ∧ ((gOf P10 (coldExec.c 7)).task 0).enq = true ∧
    0 ∈ (gOf P10 (coldExec.c 7)).q ∧
    (∀ m, 17 ≤ m → lOf P10 (coldExec.c m) 1 = .idle ∧ ((gOf P10 (coldExec.c m)).task 0).results = [.errPool] ∧
      ((gOf P10 (coldExec.c m)).task 0).exec = 0) := by
  refine ⟨?_, ?_, ⟨?_, ?_⟩, ?_, by decide, by decide, by decide, by decide, by decide, by decide, ?_⟩
  · refine ofSchedule_fair P10 coldTrace ?_
    exact forall_threads (ls := lOf P10 (coldCfg 17)) coldFinal_support
      (fun l => blockedAt (gOf P10 (coldCfg 17)) l = true) (by decide) (by decide)
  · refine ofSchedule_releases P10 coldTrace ?_
    show ∀ u, u < (gOf P10 (coldCfg 17)).tasks.length → ((gOf P10 (coldCfg 17)).task u).released = true
    decide
  · intro n h
    exfalso
    have key : ∀ n, n < 17 → (gOf P10 (coldCfg n)).spawnFixed = 0 := by decide
    have hfin : (gOf P10 (coldCfg 17)).spawnFixed = 0 := by decide
    rcases Nat.lt_or_ge n 17 with hlt | hge
    · have h' : 0 < (gOf P10 (coldCfg n)).spawnFixed := h
      have := key n hlt
      omega
    · rw [coldExec_c, coldCfg_ge hge] at h
      have h' : 0 < (gOf P10 (coldCfg 17)).spawnFixed := h
      omega
  · intro n h
    exfalso
    have key : ∀ n, n < 17 → (gOf P10 (coldCfg n)).spawnExp = 0 := by decide
    have hfin : (gOf P10 (coldCfg 17)).spawnExp = 0 := by decide
    rcases Nat.lt_or_ge n 17 with hlt | hge
    · have h' : 0 < (gOf P10 (coldCfg n)).spawnExp := h
      have := key n hlt
      omega
    · rw [coldExec_c, coldCfg_ge hge] at h
      have h' : 0 < (gOf P10 (coldCfg 17)).spawnExp := h
      omega
  · intro m
    have key : ∀ n, n < 17 → (gOf P10 (coldCfg n)).state ≠ 1 := by decide
    have hfin : (gOf P10 (coldCfg 17)).state ≠ 1 := by decide
    rcases Nat.lt_or_ge m 17 with hlt | hge
    · exact key m hlt
    · rw [coldExec_c, coldCfg_ge hge]; exact hfin
  · intro m hm
    rw [coldExec_c, coldCfg_ge hm]
    decide

end Garr.Props.PoolLiveStop

#print axioms Garr.Props.PoolLiveStop.winner_stop_eventually_returned
#print axioms Garr.Props.PoolLiveStop.enqueued_task_released_once_stop_runs
#print axioms Garr.Props.PoolLiveStop.enqueued_task_released_for_ever
#print axioms Garr.Props.PoolLiveStop.cold_witness
