import Garr.Retry.Lemmas
/-!
# C05 — back-off delays stay inside their documented envelope

Property theorems only (helper lemmas live in `Garr/Retry/Lemmas.lean`).  All statements quantify over
every parameter value, every attempt number, every outcome of the random source (`ws`) and every
value of `math.Pow` (`pw`).
-/
namespace Garr.Props.C05
open Garr Garr.Retry

/-- a fixed back-off returns its delay -/
theorem fixed_const (pw : F64) (n d : Int) (ws : List Nat) : next pw n (.fixed d) ws = (d, ws) := by
  simp [next]

/-- a limit wrapper returns a negative value exactly from attempt `limit` on, otherwise the wrapped delay -/
theorem limit_exact (pw : F64) (n k : Int) (b : Backoff) (ws : List Nat) :
    (k ≤ n → (next pw n (.limit b k) ws).1 = -1) ∧
    (n < k → next pw n (.limit b k) ws = next pw n b ws) := by
  constructor
  · intro h; simp [next, h]
  · intro h
    have : ¬ n ≥ k := by omega
    simp [next, this]

/-- with a non-negative wrapped delay, the limit wrapper is negative *exactly* from attempt `limit` on -/
theorem limit_negative_iff (pw : F64) (n k : Int) (b : Backoff) (ws : List Nat)
    (hb : 0 ≤ (next pw n b ws).1) : (next pw n (.limit b k) ws).1 < 0 ↔ k ≤ n := by
  by_cases h : k ≤ n
  · simp [next, h]
  · have h' : ¬ n ≥ k := by omega
    simp only [next, h', if_false]
    constructor
    · intro hlt; omega
    · intro hk; first | exact hk.elim | omega

/-- a random back-off built by the constructor returns a value in `[min, max]`, for every outcome of the
random source (two words available whenever it draws) -/
theorem random_range (pw : F64) (n lo hi : Int) (u1 u2 : Nat) (rest : List Nat)
    (hmk : mkRandom lo hi = some (.random lo hi)) (hhi : hi ≤ maxI64) :
    lo ≤ (next pw n (.random lo hi) (u1 :: u2 :: rest)).1 ∧ (next pw n (.random lo hi) (u1 :: u2 :: rest)).1 ≤ hi := by
  unfold mkRandom at hmk
  have h0 : ¬ lo < 0 := by intro h; simp [h] at hmk
  have h1 : ¬ lo > hi := by intro h; simp [h0, h] at hmk
  unfold maxI64 at hhi
  by_cases heq : lo = hi
  · simp [next, heq]
  · simp only [next, ne_eq, heq, not_false_eq_true, if_true]
    have hw : wrap64 (hi - lo) = hi - lo := wrap64_id (by unfold inI64 minI64 maxI64; omega)
    rw [hw]
    have hpos : 0 < hi - lo := by omega
    unfold nr
    have hnp : ¬ hi - lo ≤ 0 := by omega
    simp only [hnp, if_false]
    by_cases hone : hi - lo - 1 ≤ 0
    · rw [nrIncl_nonpos hone]
      have : hi - lo - 1 = 0 := by omega
      simp only [this]
      have hw1 : wrap64 (0 + 1) = 1 := by decide
      rw [hw1]
      have hw2 : wrap64 (1 + lo) = 1 + lo := wrap64_id (by unfold inI64 minI64 maxI64; omega)
      rw [hw2]; omega
    · have hb : 0 < hi - lo - 1 := by omega
      obtain ⟨ha, hb', _⟩ := nrIncl_range hb u1 u2 rest
      generalize (nrIncl (hi - lo - 1) (u1 :: u2 :: rest)) = pr at ha hb'
      obtain ⟨r, ws'⟩ := pr
      simp only at ha hb' ⊢
      have hw1 : wrap64 (r + 1) = r + 1 := wrap64_id (by unfold inI64 minI64 maxI64; omega)
      rw [hw1]
      have hw2 : wrap64 (r + 1 + lo) = r + 1 + lo := wrap64_id (by unfold inI64 minI64 maxI64; omega)
      rw [hw2]; omega

/-- a jitter wrapper passes a "stop" (or zero) delay through unchanged and draws nothing -/
theorem jitter_stop_passthrough (pw : F64) (n : Int) (b : Backoff) (lo hi : F64) (ws : List Nat)
    (h : (next pw n b ws).1 ≤ 0) : next pw n (.jitter b lo hi) ws = next pw n b ws := by
  simp only [next]
  generalize next pw n b ws = pr at h
  obtain ⟨tmp, ws1⟩ := pr
  simp only at h ⊢
  simp [h]

/-- a jitter wrapper never returns a negative delay for a positive wrapped delay (never turns a retry into a stop) -/
theorem jitter_nonneg (pw : F64) (n : Int) (b : Backoff) (lo hi : F64) (ws : List Nat)
    (h : 0 < (next pw n b ws).1) : 0 ≤ (next pw n (.jitter b lo hi) ws).1 := by
  simp only [next]
  generalize next pw n b ws = pr at h
  obtain ⟨tmp, ws1⟩ := pr
  simp only at h ⊢
  have : ¬ tmp ≤ 0 := by omega
  simp only [this, if_false]
  split <;> omega

/-- an exponential back-off never exceeds its maximum, and attempt 1 returns the initial delay -/
theorem expo_le_max (pw mu : F64) (n i m : Int) (ws : List Nat) (him : i ≤ m) :
    (next pw n (.expo i m mu) ws).1 ≤ m ∧ (n = 1 → (next pw n (.expo i m mu) ws).1 = i) := by
  constructor
  · simp only [next]
    split
    · exact him
    · simp only; split <;> omega
  · intro h; simp [next, h]

-- non-vacuity: the constructor accepts a real range
example : mkRandom 3 10 = some (.random 3 10) := by simp [mkRandom]

end Garr.Props.C05
