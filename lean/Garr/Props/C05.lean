import Garr.Retry.Lemmas
import Garr.Retry.SatLemmas
/-!
# C05 — back-off delays stay inside their documented envelope

Property theorems only (helper lemmas live in `Garr/Retry/Lemmas.lean`).  All statements quantify over
every parameter value, every attempt number, every outcome of the random source (`ws`) and every
value of `math.Pow` (`pw`).
-/
set_option linter.unusedTactic false
set_option linter.unreachableTactic false

namespace Garr.Props.C05
open Garr Garr.Retry

/-- a fixed back-off returns its delay -/
theorem fixed_const (pw : F64) (n d : Int) (ws : List Nat) : next pw n (.fixed d) ws = (d, ws) := by
  simp [next]

/-- a limit wrapper returns a negative value exactly from attempt `limit` on, otherwise the wrapped delay -/
theorem limit_exact (pw : F64) (n k : Int) (b : Backoff) (ws : List Nat) :
    (k ≤ n → (next pw n (.limit b k) ws).1 = -1) ∧
    (n < k → next pw n (.limit b k) ws = next pw n b ws) := by
  constructor
  · intro h; simp [next, h]
  · intro h
    have : ¬ n ≥ k := by omega
    simp [next, this]

/-- with a non-negative wrapped delay, the limit wrapper is negative *exactly* from attempt `limit` on -/
theorem limit_negative_iff (pw : F64) (n k : Int) (b : Backoff) (ws : List Nat)
    (hb : 0 ≤ (next pw n b ws).1) : (next pw n (.limit b k) ws).1 < 0 ↔ k ≤ n := by
  by_cases h : k ≤ n
  · simp [next, h]
  · have h' : ¬ n ≥ k := by omega
    simp only [next, h', if_false]
    constructor
    · intro hlt; omega
    · intro hk; first | exact hk.elim | omega

/-- a random back-off built by the constructor returns a value in `[min, max]`, for every outcome of the
random source (two words available whenever it draws) -/
theorem random_range (pw : F64) (n lo hi : Int) (u1 u2 : Nat) (rest : List Nat)
    (hmk : mkRandom lo hi = some (.random lo hi)) (hhi : hi ≤ maxI64) :
    lo ≤ (next pw n (.random lo hi) (u1 :: u2 :: rest)).1 ∧ (next pw n (.random lo hi) (u1 :: u2 :: rest)).1 ≤ hi := by
  unfold mkRandom at hmk
  have h0 : ¬ lo < 0 := by intro h; simp [h] at hmk
  have h1 : ¬ lo > hi := by intro h; simp [h0, h] at hmk
  unfold maxI64 at hhi
  by_cases heq : lo = hi
  · simp [next, heq]
  · simp only [next, ne_eq, heq, not_false_eq_true, if_true]
    have hw : wrap64 (hi - lo) = hi - lo := wrap64_id (by unfold inI64 minI64 maxI64; omega)
    rw [hw]
    have hpos : 0 < hi - lo := by omega
    unfold nr
    have hnp : ¬ hi - lo ≤ 0 := by omega
    simp only [hnp, if_false]
    by_cases hone : hi - lo - 1 ≤ 0
    · rw [nrIncl_nonpos hone]
      have : hi - lo - 1 = 0 := by omega
      simp only [this]
      have hw1 : wrap64 (0 + 1) = 1 := by decide
      rw [hw1]
      have hw2 : wrap64 (1 + lo) = 1 + lo := wrap64_id (by unfold inI64 minI64 maxI64; omega)
      rw [hw2]; omega
    · have hb : 0 < hi - lo - 1 := by omega
      obtain ⟨ha, hb', _⟩ := nrIncl_range hb u1 u2 rest
      generalize (nrIncl (hi - lo - 1) (u1 :: u2 :: rest)) = pr at ha hb'
      obtain ⟨r, ws'⟩ := pr
      simp only at ha hb' ⊢
      have hw1 : wrap64 (r + 1) = r + 1 := wrap64_id (by unfold inI64 minI64 maxI64; omega)
      rw [hw1]
      have hw2 : wrap64 (r + 1 + lo) = r + 1 + lo := wrap64_id (by unfold inI64 minI64 maxI64; omega)
      rw [hw2]; omega

/-- a jitter wrapper passes a "stop" (or zero) delay through unchanged and draws nothing -/
theorem jitter_stop_passthrough (pw : F64) (n : Int) (b : Backoff) (lo hi : F64) (ws : List Nat)
    (h : (next pw n b ws).1 ≤ 0) : next pw n (.jitter b lo hi) ws = next pw n b ws := by
  simp only [next]
  generalize next pw n b ws = pr at h
  obtain ⟨tmp, ws1⟩ := pr
  simp only at h ⊢
  simp [h]

/-- a jitter wrapper never returns a negative delay for a positive wrapped delay (never turns a retry into a stop) -/
theorem jitter_nonneg (pw : F64) (n : Int) (b : Backoff) (lo hi : F64) (ws : List Nat)
    (h : 0 < (next pw n b ws).1) : 0 ≤ (next pw n (.jitter b lo hi) ws).1 := by
  simp only [next]
  generalize next pw n b ws = pr at h
  obtain ⟨tmp, ws1⟩ := pr
  simp only at h ⊢
  have : ¬ tmp ≤ 0 := by omega
  simp only [this, if_false]
  split <;> omega

/-- an exponential back-off never exceeds its maximum, and attempt 1 returns the initial delay -/
theorem expo_le_max (pw mu : F64) (n i m : Int) (ws : List Nat) (him : i ≤ m) :
    (next pw n (.expo i m mu) ws).1 ≤ m ∧ (n = 1 → (next pw n (.expo i m mu) ws).1 = i) := by
  constructor
  · simp only [next]
    split
    · exact him
    · simp only; split <;> omega
  · intro h; simp [next, h]

-- non-vacuity: the constructor accepts a real range
example : mkRandom 3 10 = some (.random 3 10) := by simp [mkRandom]

/-! ## Float side: `saturatedMultiply`, exponential growth, jitter band, stack envelope

The float lemmas (rounding is monotone, exact on representable values, …) are in
`Garr/Num/F64Lemmas.lean`.  `pw` is the value returned by `math.Pow(multiplier, n-1)`. -/

/-! ### Clause 3 — `saturatedMultiply` stays in range -/

/-- for ANY operands (NaN, negative, infinite, …) the result is an `int64`; a product below `-2^63` is
converted by `CVTTSD2SQ` to `-2^63` -/
theorem satMul_inI64 (left : Int) (right : F64) : inI64 (satMul left right) := by
  rw [satMul_eq_sat]
  unfold inI64 minI64 maxI64
  split
  · omega
  · exact F64.sat_range _

/-- for a non-negative `int64` left operand and a multiplier that is NaN, `+∞` or `≥ 0`, the result is in
`[0, MaxInt64]` -/
theorem satMul_range (left : Int) (right : F64) (h0 : 0 ≤ left) (h1 : left ≤ maxI64)
    (hr : right = .nan ∨ F64.le (F64.zero false) right = true) :
    0 ≤ satMul left right ∧ satMul left right ≤ maxI64 := by
  refine ⟨?_, (satMul_inI64 left right).2⟩
  rw [satMul_eq_sat]
  split
  · omega
  · rename_i hne
    have hpos : 0 < left := by omega
    unfold maxI64 at h1
    rcases hr with rfl | hr
    · obtain ⟨m, q, hx, _⟩ := F64.ofInt_pos_spec hpos h1
      rw [hx]
      have : F64.mul (.fin false m q) .nan = .nan := rfl
      rw [this, F64.sat_nan]; omega
    · exact F64.satmul_nonneg hpos h1 hr

/-- the sign hypothesis is needed: a negative multiplier gives a negative result, and a product below
`-2^63` is converted to `MinInt64` -/
example : satMul 5 (.fin true (3 * 2^51) (-51)) = -15 := by decide +kernel
example : satMul (2^62) (.fin true (2^52) (-42)) = minI64 := by decide +kernel

/-! ### Clause 2 — monotone in the multiplier -/

theorem satMul_mono (left : Int) (p p' : F64) (h0 : 0 ≤ left) (h1 : left ≤ maxI64)
    (h : F64.le p p' = true) : satMul left p ≤ satMul left p' := by
  rw [satMul_eq_sat, satMul_eq_sat]
  split
  · omega
  · unfold maxI64 at h1
    exact F64.satmul_mono (by omega) h1 h

/-- the exponential delay is non-decreasing in the value of `math.Pow` (neither NaN: `le` is false on NaN) -/
theorem expo_monotone (pw pw' mu : F64) (n init max : Int) (ws : List Nat)
    (h0 : 0 ≤ init) (h1 : init ≤ maxI64) (h : F64.le pw pw' = true) :
    (next pw n (.expo init max mu) ws).1 ≤ (next pw' n (.expo init max mu) ws).1 := by
  have := satMul_mono init pw pw' h0 h1 h
  simp only [next]
  split
  · omega
  · simp only; split <;> split <;> omega

/-! ### Clause 1 — never below the initial delay -/

theorem satMul_ge_left (left : Int) (pw : F64) (h0 : 0 ≤ left) (h1 : left ≤ maxI64)
    (hpw : F64.le F64.nextUpOne pw = true) : left ≤ satMul left pw := by
  rw [satMul_eq_sat]
  split
  · omega
  · unfold maxI64 at h1
    exact F64.satmul_ge (by omega) h1 hpw

/-- **never below initial**: for `0 ≤ init ≤ max ≤ MaxInt64` and `Pow(multiplier, n-1) ≥ nextUp(1)`
(including `+∞`), every attempt's delay is at least `init` -/
theorem expo_ge_initial (pw mu : F64) (n init max : Int) (ws : List Nat)
    (h0 : 0 ≤ init) (him : init ≤ max) (hmax : max ≤ maxI64)
    (hpw : F64.le F64.nextUpOne pw = true) :
    init ≤ (next pw n (.expo init max mu) ws).1 := by
  have := satMul_ge_left init pw h0 (by omega) hpw
  simp only [next]
  split
  · omega
  · simp only; split <;> omega

/-- the hypothesis `pw ≥ nextUp(1)` is needed: with `pw = 1.0` exactly and `init = 2^53 + 1` the second
attempt's delay is `2^53 < init` (`float64(init)` rounds down) -/
example : (next F64.one 2 (.expo (2^53 + 1) maxI64 F64.one) []).1 = 2^53 ∧ (2^53 : Int) < 2^53 + 1 := by
  decide +kernel

/-- the counterexample needs `init ≥ 2^53`: below `2^53` the conversion `float64(init)` is exact and
`pw ≥ 1.0` is enough -/
theorem expo_ge_initial_small (pw mu : F64) (n init max : Int) (ws : List Nat)
    (h0 : 0 ≤ init) (hsmall : init < 2^53) (him : init ≤ max)
    (hpw : F64.le F64.one pw = true) :
    init ≤ (next pw n (.expo init max mu) ws).1 := by
  have : init ≤ satMul init pw := by
    rw [satMul_eq_sat]
    split
    · omega
    · exact F64.satmul_ge_small (by omega) hsmall hpw
  simp only [next]
  split
  · omega
  · simp only; split <;> omega

/-- attempt 2 of a constructor-built exponential back-off (`math.Pow(mu, 1) = mu` exactly): the
constructor's check `multiplier > 1` already gives the hypothesis of `expo_ge_initial` -/
theorem expo_ge_initial_attempt2 (mu : F64) (n init max : Int) (b : Backoff) (ws : List Nat)
    (hmu : F64.IsF64 mu) (hmk : mkExpo init max mu = some b) (hmax : max ≤ maxI64) :
    init ≤ (next mu n b ws).1 := by
  unfold mkExpo at hmk
  split at hmk
  · cases hmk
  · split at hmk
    · cases hmk
    · split at hmk
      · cases hmk
      · rename_i a _ _
        injection hmk with hmk; subst hmk
        exact expo_ge_initial mu mu n init max ws (by omega) (by omega) hmax
          (F64.nextUpOne_le_of_one_lt hmu (by simpa using a))

/-- non-decreasing in the attempt number whenever `math.Pow` is: for attempts `1 ≤ n ≤ n'` with
`pw = Pow(mu, n-1)`, `pw' = Pow(mu, n'-1)` -/
theorem expo_monotone_attempts (pw pw' mu : F64) (n n' init max : Int) (ws ws' : List Nat)
    (h0 : 0 ≤ init) (him : init ≤ max) (hmax : max ≤ maxI64)
    (hpw' : n' ≠ 1 → F64.le F64.nextUpOne pw' = true) (hle : n ≠ 1 → F64.le pw pw' = true)
    (hn : 1 ≤ n) (hnn : n ≤ n') :
    (next pw n (.expo init max mu) ws).1 ≤ (next pw' n' (.expo init max mu) ws').1 := by
  by_cases h1 : n = 1
  · by_cases h1' : n' = 1
    · simp [next, h1, h1']
    · have := expo_ge_initial pw' mu n' init max ws' h0 him hmax (hpw' h1')
      have e : (next pw n (.expo init max mu) ws).1 = init := by simp [next, h1]
      omega
  · have h1' : n' ≠ 1 := by omega
    have := satMul_mono init pw pw' h0 (by omega) (hle h1)
    simp only [next, if_neg h1, if_neg h1']
    split <;> split <;> omega

/-! ### Clause 4 — the jitter band -/

/-- `0 ≤ minJ ≤ maxJ ≤ MaxInt64` for a positive wrapped delay and rates accepted by the constructor -/
theorem jitter_bounds (d : Int) (b j : Backoff) (lo hi : F64)
    (hmk : mkJitter (some b) lo hi = some j) (hd : 0 < d) (hd' : d ≤ maxI64) :
    0 ≤ satMul d (F64.add F64.one lo) ∧
    satMul d (F64.add F64.one lo) ≤ satMul d (F64.add F64.one hi) ∧
    satMul d (F64.add F64.one hi) ≤ maxI64 := by
  obtain ⟨_, a1, a2, b1, b2, c⟩ := mkJitter_some hmk
  have hlh := le_of_not_lt a2 b1 c
  obtain ⟨m1, m2⟩ := F64.add_one_mono a1 hlh b2
  exact ⟨(satMul_range d _ (by omega) hd' (Or.inr m2)).1, satMul_mono d _ _ (by omega) hd' m1,
    (satMul_inI64 d _).2⟩

/-- **jitter band**: for a positive wrapped delay `d ≤ MaxInt64` and rates accepted by the constructor, the
jittered delay lies in `[saturatedMultiply(d, 1+minRate), saturatedMultiply(d, 1+maxRate)]` and is `≥ 0`,
for every state of the random source (in particular when two words are available for the draw) -/
theorem jitter_band (pw : F64) (n : Int) (b j : Backoff) (lo hi : F64) (ws : List Nat)
    (hmk : mkJitter (some b) lo hi = some j)
    (hd : 0 < (next pw n b ws).1) (hd' : (next pw n b ws).1 ≤ maxI64) :
    satMul (next pw n b ws).1 (F64.add F64.one lo) ≤ (next pw n (.jitter b lo hi) ws).1 ∧
    (next pw n (.jitter b lo hi) ws).1 ≤ satMul (next pw n b ws).1 (F64.add F64.one hi) ∧
    0 ≤ (next pw n (.jitter b lo hi) ws).1 := by
  simp only [next]
  generalize next pw n b ws = pr at hd hd'
  obtain ⟨tmp, ws1⟩ := pr
  simp only at hd hd' ⊢
  have hn : ¬ tmp ≤ 0 := by omega
  simp only [hn, if_false]
  obtain ⟨h0, h1, h2⟩ := jitter_bounds tmp b j lo hi hmk hd hd'
  obtain ⟨c1, c2, _, _⟩ := jitter_core _ _ ws1 h0 h1 h2
  exact ⟨c1, c2, by omega⟩

/-- in the non-overflow case the result is exactly `minJ + draw`, `0 ≤ draw ≤ maxJ - minJ` (no `int64`
wrap-around happens anywhere); in the overflow case (`minJ = 0`, `maxJ = MaxInt64`) the result is 0 -/
theorem jitter_exact (pw : F64) (n : Int) (b j : Backoff) (lo hi : F64) (ws : List Nat)
    (hmk : mkJitter (some b) lo hi = some j)
    (hd : 0 < (next pw n b ws).1) (hd' : (next pw n b ws).1 ≤ maxI64) :
    let minJ := satMul (next pw n b ws).1 (F64.add F64.one lo)
    let maxJ := satMul (next pw n b ws).1 (F64.add F64.one hi)
    (maxJ - minJ + 1 ≤ maxI64 →
      (next pw n (.jitter b lo hi) ws).1 = minJ + (nrIncl (maxJ - minJ + 1) (next pw n b ws).2).1 ∧
      0 ≤ (nrIncl (maxJ - minJ + 1) (next pw n b ws).2).1 ∧
      (nrIncl (maxJ - minJ + 1) (next pw n b ws).2).1 ≤ maxJ - minJ) ∧
    (maxI64 < maxJ - minJ + 1 → minJ = 0 ∧ maxJ = maxI64 ∧ (next pw n (.jitter b lo hi) ws).1 = 0) := by
  simp only [next]
  generalize next pw n b ws = pr at hd hd'
  obtain ⟨tmp, ws1⟩ := pr
  simp only at hd hd' ⊢
  have hn : ¬ tmp ≤ 0 := by omega
  simp only [hn, if_false]
  obtain ⟨h0, h1, h2⟩ := jitter_bounds tmp b j lo hi hmk hd hd'
  obtain ⟨_, _, c3, c4⟩ := jitter_core _ _ ws1 h0 h1 h2
  constructor
  · intro h
    obtain ⟨e, ra, rb⟩ := c3 h
    refine ⟨?_, ra, rb⟩
    rw [e]; split <;> omega
  · intro h
    unfold maxI64 at h h2 ⊢
    exact ⟨by omega, by omega, c4 h⟩

/-- the overflow case is reachable: ±100 % jitter on a delay `≥ 2^62` always yields 0 -/
example (ws : List Nat) :
    (next F64.one 1 (.jitter (.fixed (2^62)) (F64.neg F64.one) F64.one) ws).1 = 0 := by
  have e1 : satMul (2^62) (F64.add F64.one (F64.neg F64.one)) = 0 := by decide +kernel
  have e2 : satMul (2^62) (F64.add F64.one F64.one) = 2^63 - 1 := by decide +kernel
  have e3 : wrap64 (wrap64 (2^63 - 1 - 0) + 1) = -(2^63) := by decide
  have e4 : ¬ ((2:Int)^62 ≤ 0) := by decide
  simp only [next, e1, e2, e3, e4, if_false]
  rw [nrIncl_nonpos (by decide)]
  show (if wrap64 (0 + -(2^63)) < 0 then 0 else wrap64 (0 + -(2^63))) = 0
  decide

/-! ### Clause 5 — the envelope of a whole stack -/

/-- the parameters are in the constructors' domains, with `int64` bounds -/
def WF : Backoff → Prop
  | .fixed d => 0 ≤ d ∧ d ≤ maxI64
  | .random lo hi => 0 ≤ lo ∧ lo ≤ hi ∧ hi ≤ maxI64
  | .expo init max mu => F64.lt F64.one mu = true ∧ 0 ≤ init ∧ init ≤ max ∧ max ≤ maxI64
  | .jitter b lo hi => WF b ∧ mkJitter (some b) lo hi = some (.jitter b lo hi)
  | .limit b k => WF b ∧ 0 < k

theorem mkFixed_WF {d : Int} {b : Backoff} (h : mkFixed d = some b) (hd : d ≤ maxI64) : WF b := by
  unfold mkFixed at h
  split at h
  · injection h with h; subst h; exact ⟨by omega, hd⟩
  · cases h

theorem mkRandom_WF {lo hi : Int} {b : Backoff} (h : mkRandom lo hi = some b) (hh : hi ≤ maxI64) : WF b := by
  unfold mkRandom at h
  split at h
  · cases h
  · split at h
    · cases h
    · injection h with h; subst h; exact ⟨by omega, by omega, hh⟩

theorem mkExpo_WF {init max : Int} {mu : F64} {b : Backoff} (h : mkExpo init max mu = some b)
    (hm : max ≤ maxI64) : WF b := by
  unfold mkExpo at h
  split at h
  · cases h
  · split at h
    · cases h
    · split at h
      · cases h
      · rename_i a _ _
        injection h with h; subst h
        exact ⟨by simpa using a, by omega, by omega, hm⟩

theorem mkJitter_WF {b j : Backoff} {lo hi : F64} (hb : WF b) (h : mkJitter (some b) lo hi = some j) : WF j := by
  have := (mkJitter_some h).1
  subst this
  exact ⟨hb, h⟩

theorem mkLimit_WF {b j : Backoff} {k : Int} (hb : WF b) (h : mkLimit (some b) k = some j) : WF j := by
  unfold mkLimit at h
  simp only at h
  split at h
  · cases h
  · injection h with h; subst h; exact ⟨hb, by omega⟩

/-- everything `Build()` returns from a well-formed base is well-formed -/
theorem build_WF (ls : List Layer) : ∀ {base b : Backoff}, WF base → build (some base) ls = some b → WF b := by
  induction ls with
  | nil =>
    intro base b hb h
    have : build (some base) [] = some base := rfl
    rw [this] at h; injection h with h; subst h; exact hb
  | cons l ls ih =>
    intro base b hb h
    cases l with
    | limit k =>
      rw [build_cons_limit] at h
      cases hm : mkLimit (some base) k with
      | none => rw [hm, build_none] at h; cases h
      | some j => rw [hm] at h; exact ih (mkLimit_WF hb hm) h
    | jitter lo hi =>
      rw [build_cons_jitter] at h
      cases hm : mkJitter (some base) lo hi with
      | none => rw [hm, build_none] at h; cases h
      | some j => rw [hm] at h; exact ih (mkJitter_WF hb hm) h

-- non-vacuity: a concrete builder stack (exponential ×2, ±50 % jitter, 5 attempts) is accepted and `WF`
example : ∃ b, build (mkExpo 100 60000 (.fin false (2^52) (-51)))
      [.jitter (.fin true (2^52) (-53)) (.fin false (2^52) (-53)), .limit 5] = some b ∧ WF b := by
  have h1 : mkExpo 100 60000 (.fin false (2^52) (-51)) = some (.expo 100 60000 (.fin false (2^52) (-51))) := by
    decide +kernel
  have h2 : mkJitter (some (.expo 100 60000 (.fin false (2^52) (-51)))) (.fin true (2^52) (-53)) (.fin false (2^52) (-53))
      = some (.jitter (.expo 100 60000 (.fin false (2^52) (-51))) (.fin true (2^52) (-53)) (.fin false (2^52) (-53))) := by
    decide +kernel
  refine ⟨.limit (.jitter (.expo 100 60000 (.fin false (2^52) (-51))) (.fin true (2^52) (-53)) (.fin false (2^52) (-53))) 5, ?_, ?_⟩
  · rw [h1, build_cons_jitter, h2, build_cons_limit]; rfl
  · exact ⟨⟨mkExpo_WF h1 (by decide), h2⟩, by decide⟩

/-- a random back-off with constructor-domain bounds returns a value in `[min, max]` for every state of the
random source -/
theorem random_range_any (pw : F64) (n lo hi : Int) (ws : List Nat)
    (h0 : 0 ≤ lo) (h1 : lo ≤ hi) (hhi : hi ≤ maxI64) :
    lo ≤ (next pw n (.random lo hi) ws).1 ∧ (next pw n (.random lo hi) ws).1 ≤ hi := by
  unfold maxI64 at hhi
  by_cases heq : lo = hi
  · simp [next, heq]
  · simp only [next, ne_eq, heq, not_false_eq_true, if_true]
    have hw : wrap64 (hi - lo) = hi - lo := wrap64_id (by unfold inI64 minI64 maxI64; omega)
    rw [hw]
    unfold nr
    have hnp : ¬ hi - lo ≤ 0 := by omega
    simp only [hnp, if_false]
    by_cases hone : hi - lo - 1 ≤ 0
    · rw [nrIncl_nonpos hone]
      have : hi - lo - 1 = 0 := by omega
      simp only [this]
      have hw1 : wrap64 (0 + 1) = 1 := by decide
      rw [hw1]
      have hw2 : wrap64 (1 + lo) = 1 + lo := wrap64_id (by unfold inI64 minI64 maxI64; omega)
      rw [hw2]; omega
    · have hb : 0 < hi - lo - 1 := by omega
      obtain ⟨ha, hb'⟩ := nrIncl_range_any hb ws
      generalize (nrIncl (hi - lo - 1) ws) = pr at ha hb'
      obtain ⟨r, ws'⟩ := pr
      simp only at ha hb' ⊢
      have hw1 : wrap64 (r + 1) = r + 1 := wrap64_id (by unfold inI64 minI64 maxI64; omega)
      rw [hw1]
      have hw2 : wrap64 (r + 1 + lo) = r + 1 + lo := wrap64_id (by unfold inI64 minI64 maxI64; omega)
      rw [hw2]; omega

/-- **stack envelope / no overflow**: every delay returned by a stack built by the constructors (with
`int64` parameters) lies in `[-1, MaxInt64]` — for every attempt, every state of the random source, and
every value of `math.Pow` that is NaN, `+∞` or `≥ 0` (`Pow` of a multiplier `> 1` is never negative) -/
theorem stack_envelope (pw : F64) (n : Int) (hpw : pw = .nan ∨ F64.le (F64.zero false) pw = true) :
    ∀ (b : Backoff) (ws : List Nat), WF b →
      -1 ≤ (next pw n b ws).1 ∧ (next pw n b ws).1 ≤ maxI64 := by
  intro b
  induction b with
  | fixed d => intro ws h; obtain ⟨a, c⟩ := h; simp only [next]; omega
  | random lo hi =>
    intro ws h; obtain ⟨a, c, d⟩ := h
    have := random_range_any pw n lo hi ws a c d
    omega
  | expo init max mu =>
    intro ws h; obtain ⟨_, a, c, d⟩ := h
    have := satMul_range init pw a (by omega) hpw
    simp only [next]
    split
    · simp only; omega
    · simp only; split <;> omega
  | jitter inner lo hi ih =>
    intro ws h; obtain ⟨hb, hmk⟩ := h
    have hin := ih ws hb
    by_cases hle : (next pw n inner ws).1 ≤ 0
    · rw [jitter_stop_passthrough pw n inner lo hi ws hle]; exact hin
    · obtain ⟨_, c2, c3⟩ := jitter_band pw n inner _ lo hi ws hmk (by omega) hin.2
      have := (satMul_inI64 (next pw n inner ws).1 (F64.add F64.one hi)).2
      omega
  | limit inner k ih =>
    intro ws h; obtain ⟨hb, _⟩ := h
    have hin := ih ws hb
    simp only [next]
    split
    · simp only; unfold maxI64; omega
    · exact hin

/-- the envelope hypothesis on `pw` is needed: a negative "power" makes an exponential back-off negative -/
example : (next (.fin true (3 * 2^51) (-51)) 2 (.expo 5 100 F64.one) []).1 = -15 := by decide +kernel

/-- **no_overflow** for everything `Build()` can return -/
theorem no_overflow (pw : F64) (n : Int) (hpw : pw = .nan ∨ F64.le (F64.zero false) pw = true)
    (base b : Backoff) (ls : List Layer) (ws : List Nat) (hbase : WF base)
    (hb : build (some base) ls = some b) : inI64 (next pw n b ws).1 ∧ -1 ≤ (next pw n b ws).1 := by
  have := stack_envelope pw n hpw b ws (build_WF ls hbase hb)
  unfold inI64 minI64
  omega

end Garr.Props.C05
