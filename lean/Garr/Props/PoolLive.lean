import Garr.Pool.Fair
import Garr.Props.Pool
/-!
# Worker pool: liveness under weak fairness with an active environment (C04 "exactly one result arrives", C08/C12)

The progress theorems of `Garr/Props/PoolProgress.lean` speak about maximal runs of internal steps, which are finite.
Here clients may go on submitting for ever: an execution is an infinite sequence of steps and stutters (`Exec`), every
thread is weakly fair for its own internal actions `tau` / `choose k` (`Fair`), and the environment (E1) eventually
releases the gate of every task whose executor has started (`EnvReleases`) and (E2) eventually lets a pending
goroutine start (`EnvStarts`).  Definitions and stage lemmas: `Garr/Pool/Fair.lean`.
-/
namespace Garr.Props.PoolLive
open Garr.Conc Garr.Pool Garr.Pool.Progress Garr.Pool.Fair

variable {P : Params}

/-- A queued task is eventually taken out of the queue: if at position `n` task `u` is in the queue and a fixed worker
exists (a thread at `w0`/`wexec _`/`wsend _`) or is about to start (`spawnFixed > 0`), then at some `m ≥ n` task `u` has
left the queue and is with a worker, is being drained by `Stop`, or already has a result.  (`g.state = 1` is not
needed as a hypothesis; see `queued_task_eventually_taken_started` for the version that assumes only a started pool.) -/
theorem queued_task_eventually_taken (e : Exec P) (hfair : Fair e) (hE1 : EnvReleases e) (hE2 : EnvStarts e)
    (n u : Nat) (hq : u ∈ (e.c n).g.q)
    (hW : (∃ t, (e.c n).l t = .w0 ∨ (∃ v, (e.c n).l t = .wexec v) ∨ (∃ v, (e.c n).l t = .wsend v)) ∨
      0 < (e.c n).g.spawnFixed) :
    ∃ m, n ≤ m ∧ u ∉ (e.c m).g.q ∧
      ((∃ t, role ((e.c m).l t) = some (.run, u)) ∨ (∃ t, (e.c m).l t = .sp5s u) ∨
        ((e.c m).g.task u).results ≠ []) := by
  refine queued_taken e hfair hE1 hE2 n u hq ?_
  rcases hW with ⟨t, h | ⟨v, h⟩ | ⟨v, h⟩⟩ | h
  · exact Or.inl ⟨t, by rw [h]; rfl⟩
  · exact Or.inl ⟨t, by rw [h]; rfl⟩
  · exact Or.inl ⟨t, by rw [h]; rfl⟩
  · exact Or.inr h

/-- The same for a started pool: `state = 1` at position `n` and `NumberWorker > 0`.  (If the `Start` call is still
between its CAS and its `wg.Add` + spawn, fairness of that thread brings the workers into being.) -/
theorem queued_task_eventually_taken_started (e : Exec P) (hfair : Fair e) (hE1 : EnvReleases e) (hE2 : EnvStarts e)
    (hpos : 0 < P.nworker) (n u : Nat) (hs : (e.c n).g.state = 1) (hq : u ∈ (e.c n).g.q) :
    ∃ m, n ≤ m ∧ u ∉ (e.c m).g.q ∧
      ((∃ t, role ((e.c m).l t) = some (.run, u)) ∨ (∃ t, (e.c m).l t = .sp5s u) ∨
        ((e.c m).g.task u).results ≠ []) := by
  obtain ⟨m0, hm0, hW⟩ := started_has_fixed e hfair hpos n hs
  have hU := holds_unless (fun m => u ∈ (e.c m).g.q) (fun m => Taken (e.c m) u) n hq
    (fun m _ hA hnB => by
      rcases e.q_next m u hA with h | h
      · exact h
      · exact absurd h hnB) m0 hm0
  rcases hU with hQ | ⟨k, hk1, _, hB⟩
  · obtain ⟨m, hm, hT⟩ := queued_taken e hfair hE1 hE2 m0 u hQ hW
    exact ⟨m, by omega, hT⟩
  · exact ⟨k, hk1, hB⟩

/-- A task that a worker holds gets its value: if at position `n` thread `t` runs `u` (it is at `wexec u`, `wsend u`,
`eexec u` or `esend u`), then under (E1) and weak fairness of `t` the result channel of `u` holds exactly the
executor's value at some `m ≥ n`. -/
theorem running_task_eventually_has_result (e : Exec P) (hE1 : EnvReleases e) (t : Tid) (hf : WeakFair e t)
    (n u : Nat) (hr : role ((e.c n).l t) = some (.run, u)) :
    ∃ m, n ≤ m ∧ ((e.c m).g.task u).results = [.val] := by
  obtain ⟨m, hm, hres, _⟩ := run_to_home e hE1 hf n u hr
  exact ⟨m, hm, hres⟩

/-- … and the worker is then back at the head of its loop, ready for the next task -/
theorem running_worker_eventually_free (e : Exec P) (hE1 : EnvReleases e) (t : Tid) (hf : WeakFair e t)
    (n u : Nat) (hr : role ((e.c n).l t) = some (.run, u)) :
    ∃ m, n ≤ m ∧ ((e.c m).g.task u).results = [.val] ∧ ((e.c m).l t = .w0 ∨ ∃ dl, (e.c m).l t = .e0 dl) := by
  obtain ⟨m, hm, hres, hhome, _⟩ := run_to_home e hE1 hf n u hr
  exact ⟨m, hm, hres, hhome⟩

/-- C04 liveness, "every task a running pool accepts … exactly one result arrives": if task `u` has been accepted
(`enq = true`) at position `n` of a fair execution of a started pool (`state = 1`, `NumberWorker > 0`), then at some
`m ≥ n` its result channel has received exactly one result.  With `result_shape` / `result_at_most_once` /
`exec_at_most_once` (`Garr/Props/Pool.lean`) no second result ever follows. -/
theorem accepted_task_eventually_has_result (e : Exec P) (hfair : Fair e) (hE1 : EnvReleases e) (hE2 : EnvStarts e)
    (hpos : 0 < P.nworker) (n u : Nat) (hs : (e.c n).g.state = 1) (he : ((e.c n).g.task u).enq = true) :
    ∃ m, n ≤ m ∧ ((e.c m).g.task u).results.length = 1 := by
  obtain ⟨m0, hm0, hW⟩ := started_has_fixed e hfair hpos n hs
  obtain ⟨m, hm, hres⟩ := accepted_result_of_fixed e hfair hE1 hE2 m0 u ((e.taskMono hm0).enq u he) hW
  exact ⟨m, by omega, hres⟩

/-- the same, for any pool state, as long as fixed workers exist or are about to start -/
theorem accepted_task_eventually_has_result_of_workers (e : Exec P) (hfair : Fair e) (hE1 : EnvReleases e)
    (hE2 : EnvStarts e) (n u : Nat) (he : ((e.c n).g.task u).enq = true)
    (hW : (∃ t, fixedLive ((e.c n).l t) = true) ∨ 0 < (e.c n).g.spawnFixed) :
    ∃ m, n ≤ m ∧ ((e.c m).g.task u).results.length = 1 :=
  accepted_result_of_fixed e hfair hE1 hE2 n u he hW

/-- the result stays: once a task has exactly one result it has exactly that result for ever -/
theorem result_stable (e : Exec P) (n m u : Nat) (hnm : n ≤ m) (h : ((e.c n).g.task u).results.length = 1) :
    ((e.c m).g.task u).results = ((e.c n).g.task u).results := by
  cases hres : ((e.c n).g.task u).results with
  | nil => rw [hres] at h; cases h
  | cons r rs =>
    rw [hres] at h
    have hrs : rs = [] := by cases rs with
      | nil => rfl
      | cons _ _ => simp at h
    subst hrs
    have hmem := (e.taskMono hnm).results u r (by rw [hres]; exact List.mem_cons_self)
    have hle := Garr.Props.Pool.result_at_most_once _ (e.reach m) u
    cases hres' : ((e.c m).g.task u).results with
    | nil => rw [hres'] at hmem; cases hmem
    | cons r' rs' =>
      rw [hres'] at hmem hle
      have hrs' : rs' = [] := by cases rs' with
        | nil => rfl
        | cons _ _ => simp at hle
      subst hrs'
      simp at hmem
      rw [hmem]

/-- C08/C12 liveness, "`Stop` never hangs", with an active environment: a thread that is inside `Stop` at position
`n` (anywhere from its first CAS to the drain loop) is back at `idle` — the call has returned — at some `m ≥ n`,
provided every thread is weakly fair, (E1) started executors are eventually released and (E2) pending goroutines
eventually start.  The stages: the CASes, `cancel()`, `submitLock.Lock()` (the readers drain because the context was
cancelled first and the pending writer holds new readers back), `close`, `Unlock`, `wg.Wait()` (every worker finishes
its task, finds the queue closed and exits; no new worker is spawned once the queue is closed), the drain loop. -/
theorem stop_eventually_returns (e : Exec P) (hfair : Fair e) (hE1 : EnvReleases e) (hE2 : EnvStarts e) (t : Tid)
    (n : Nat)
    (hin : (e.c n).l t = .sp0 ∨ (e.c n).l t = .sp1 ∨ (e.c n).l t = .sp2 ∨ (e.c n).l t = .sp3a ∨
      (e.c n).l t = .sp3b ∨ (e.c n).l t = .sp3c ∨ (e.c n).l t = .sp3d ∨ (e.c n).l t = .sp4 ∨
      (e.c n).l t = .sp5 ∨ ∃ u, (e.c n).l t = .sp5s u) :
    ∃ m, n ≤ m ∧ (e.c m).l t = .idle := by
  refine stop_returns_fair e hfair hE1 hE2 t n ?_
  rcases hin with h | h | h | h | h | h | h | h | h | ⟨u, h⟩ <;> rw [h] <;> rfl

/-- the two waits inside `Stop`, separately: the write lock is obtained … -/
theorem stop_lock_eventually_acquired (e : Exec P) (hfair : Fair e) (t : Tid) (n : Nat)
    (hl : (e.c n).l t = .sp3b) : ∃ m, n ≤ m ∧ (e.c m).l t = .sp3c :=
  sp3b_to_sp3c e hfair t n hl

/-- … and `wg.Wait()` returns -/
theorem stop_wait_eventually_passes (e : Exec P) (hfair : Fair e) (hE1 : EnvReleases e) (hE2 : EnvStarts e) (t : Tid)
    (n : Nat) (hl : (e.c n).l t = .sp4) : ∃ m, n ≤ m ∧ (e.c m).l t = .sp5 :=
  sp4_to_sp5 e hfair hE1 hE2 t n hl

/-! ## Non-vacuity: a concrete infinite fair execution -/

open Garr.Props.Pool (P10 lOf gOf)

/-- `Start` (one fixed worker), the worker goroutine starts, `Do(task 0)` is accepted into the queue and returns; the
worker takes the task, the harness releases its gate, the worker delivers the value and waits for the next task.
After these 15 events the execution stutters for ever (nothing is enabled but new calls). -/
def liveTrace : List (Tid × Act) :=
  [ (0, .callStart), (0, .tau), (0, .tau), (0, .tau), (0, .tau),              -- Start: RLock, CAS 0→1, wg.Add + spawn, RUnlock
    (1, .beFixed),                                                             -- the fixed worker starts running
    (2, .callDo .never), (2, .tau), (2, .tau), (2, .choose 2), (2, .tau),      -- Do(task 0): queued, returns
    (1, .tau),                                                                 -- the worker takes task 0
    (3, .finish 0),                                                            -- the harness opens the gate
    (1, .tau), (1, .tau) ]                                                     -- executor returns; value delivered

def liveExec : Exec P10 := Exec.ofSchedule P10 liveTrace

def liveCfg (n : Nat) : Config (M P10) := schedCfg P10 liveTrace n

theorem liveFinal_support : Support 4 (liveCfg 15).l :=
  run_support (M P10) (liveTrace.take 15) 4 _ (fun _ _ => rfl) (by decide)

theorem liveExec_c (n : Nat) : liveExec.c n = liveCfg n := rfl

theorem liveCfg_ge {n : Nat} (h : 15 ≤ n) : liveCfg n = liveCfg 15 := schedCfg_ge P10 liveTrace h

/-- The hypotheses of the liveness theorems are satisfiable together: `liveExec` is an infinite execution of the pool
with one fixed worker that is weakly fair for every thread and satisfies (E1) and (E2); at position 11 the pool is
started (`state = 1`), thread 1 is a fixed worker at the head of its loop, and the accepted task 0 sits in the queue
(the premises of `queued_task_eventually_taken` and `accepted_task_eventually_has_result`); at position 12 thread 1
runs task 0 (the premise of `running_task_eventually_has_result`); from position 15 on task 0 has exactly the value. -/
theorem live_witness :
    Fair liveExec ∧ EnvReleases liveExec ∧ EnvStarts liveExec ∧
    (gOf P10 (liveExec.c 11)).state = 1 ∧ lOf P10 (liveExec.c 11) 1 = .w0 ∧ 0 ∈ (gOf P10 (liveExec.c 11)).q ∧
    ((gOf P10 (liveExec.c 11)).task 0).enq = true ∧ ((gOf P10 (liveExec.c 11)).task 0).results = [] ∧
    role (lOf P10 (liveExec.c 12) 1) = some (.run, 0) ∧
    (∀ m, 15 ≤ m → ((gOf P10 (liveExec.c m)).task 0).results = [.val]) := by
  refine ⟨?_, ?_, ⟨?_, ?_⟩, by decide, by decide, by decide, by decide, by decide, by decide, ?_⟩
  · refine ofSchedule_fair P10 liveTrace ?_
    exact forall_threads (ls := lOf P10 (liveCfg 15)) liveFinal_support
      (fun l => blockedAt (gOf P10 (liveCfg 15)) l = true) (by decide) (by decide)
  · refine ofSchedule_releases P10 liveTrace ?_
    show ∀ u, u < (gOf P10 (liveCfg 15)).tasks.length → ((gOf P10 (liveCfg 15)).task u).released = true
    decide
  · intro n h
    have key : ∀ n, n < 15 → 0 < (gOf P10 (liveCfg n)).spawnFixed → n ≤ 5 := by decide
    have hfin : (gOf P10 (liveCfg 15)).spawnFixed = 0 := by decide
    have hn : n ≤ 5 := by
      rcases Nat.lt_or_ge n 15 with hlt | hge
      · exact key n hlt h
      · rw [liveExec_c, liveCfg_ge hge] at h
        have h' : 0 < (gOf P10 (liveCfg 15)).spawnFixed := h
        omega
    exact ⟨5, 1, hn, by decide⟩
  · intro n h
    exfalso
    have key : ∀ n, n < 15 → (gOf P10 (liveCfg n)).spawnExp = 0 := by decide
    have hfin : (gOf P10 (liveCfg 15)).spawnExp = 0 := by decide
    rcases Nat.lt_or_ge n 15 with hlt | hge
    · have h' : 0 < (gOf P10 (liveCfg n)).spawnExp := h
      have := key n hlt
      omega
    · rw [liveExec_c, liveCfg_ge hge] at h
      have h' : 0 < (gOf P10 (liveCfg 15)).spawnExp := h
      omega
  · intro m hm
    rw [liveExec_c, liveCfg_ge hm]
    decide

/-- the same run followed by `Stop`: both CASes, `cancel()`, `Lock` (no readers), `close`, `Unlock`, `wg.Wait()` has to
wait for the fixed worker, which finds the queue closed and exits; then the (empty) drain loop; `Stop` returns -/
def stopTrace : List (Tid × Act) :=
  liveTrace ++
  [ (0, .callStop), (0, .tau), (0, .tau), (0, .tau), (0, .tau), (0, .tau), (0, .tau), (0, .tau),   -- … up to wg.Wait()
    (0, .tau),                                                                                     -- (disabled, skipped: wg = 1)
    (1, .tau), (1, .tau),                                                                          -- the worker: wg.Done, exit
    (0, .tau), (0, .tau) ]                                                                         -- wg.Wait() returns; drain; return

def stopExec : Exec P10 := Exec.ofSchedule P10 stopTrace

def stopCfg (n : Nat) : Config (M P10) := schedCfg P10 stopTrace n

theorem stopFinal_support : Support 4 (stopCfg 28).l :=
  run_support (M P10) (stopTrace.take 28) 4 _ (fun _ _ => rfl) (by decide)

theorem stopExec_c (n : Nat) : stopExec.c n = stopCfg n := rfl

theorem stopCfg_ge {n : Nat} (h : 28 ≤ n) : stopCfg n = stopCfg 28 := schedCfg_ge P10 stopTrace h

/-- The hypotheses of `stop_eventually_returns` are satisfiable: `stopExec` is fair for every thread and satisfies (E1),
(E2); at position 16 thread 0 is inside `Stop` (at its first CAS), at position 23 it waits in `wg.Wait()` with `wg = 1`
(the step scheduled there is disabled and becomes a stutter), and from position 28 on it is back at `idle` with the
pool stopped, the queue closed and the worker gone. -/
theorem stop_witness :
    Fair stopExec ∧ EnvReleases stopExec ∧ EnvStarts stopExec ∧
    lOf P10 (stopExec.c 16) 0 = .sp0 ∧
    lOf P10 (stopExec.c 23) 0 = .sp4 ∧ (gOf P10 (stopExec.c 23)).wg = 1 ∧ stopExec.mover 23 = none ∧
    lOf P10 (stopExec.c 24) 0 = .sp4 ∧
    (∀ m, 28 ≤ m → lOf P10 (stopExec.c m) 0 = .idle ∧ lOf P10 (stopExec.c m) 1 = .exited ∧
      (gOf P10 (stopExec.c m)).state = 2 ∧ (gOf P10 (stopExec.c m)).closed = true ∧ (gOf P10 (stopExec.c m)).wg = 0) := by
  refine ⟨?_, ?_, ⟨?_, ?_⟩, by decide, by decide, by decide, by decide, by decide, ?_⟩
  · refine ofSchedule_fair P10 stopTrace ?_
    exact forall_threads (ls := lOf P10 (stopCfg 28)) stopFinal_support
      (fun l => blockedAt (gOf P10 (stopCfg 28)) l = true) (by decide) (by decide)
  · refine ofSchedule_releases P10 stopTrace ?_
    show ∀ u, u < (gOf P10 (stopCfg 28)).tasks.length → ((gOf P10 (stopCfg 28)).task u).released = true
    decide
  · intro n h
    have key : ∀ n, n < 28 → 0 < (gOf P10 (stopCfg n)).spawnFixed → n ≤ 5 := by decide
    have hfin : (gOf P10 (stopCfg 28)).spawnFixed = 0 := by decide
    have hn : n ≤ 5 := by
      rcases Nat.lt_or_ge n 28 with hlt | hge
      · exact key n hlt h
      · rw [stopExec_c, stopCfg_ge hge] at h
        have h' : 0 < (gOf P10 (stopCfg 28)).spawnFixed := h
        omega
    exact ⟨5, 1, hn, by decide⟩
  · intro n h
    exfalso
    have key : ∀ n, n < 28 → (gOf P10 (stopCfg n)).spawnExp = 0 := by decide
    have hfin : (gOf P10 (stopCfg 28)).spawnExp = 0 := by decide
    rcases Nat.lt_or_ge n 28 with hlt | hge
    · have h' : 0 < (gOf P10 (stopCfg n)).spawnExp := h
      have := key n hlt
      omega
    · rw [stopExec_c, stopCfg_ge hge] at h
      have h' : 0 < (gOf P10 (stopCfg 28)).spawnExp := h
      omega
  · intro m hm
    rw [stopExec_c, stopCfg_ge hm]
    decide

end Garr.Props.PoolLive

#print axioms Garr.Props.PoolLive.queued_task_eventually_taken
#print axioms Garr.Props.PoolLive.queued_task_eventually_taken_started
#print axioms Garr.Props.PoolLive.running_task_eventually_has_result
#print axioms Garr.Props.PoolLive.running_worker_eventually_free
#print axioms Garr.Props.PoolLive.accepted_task_eventually_has_result
#print axioms Garr.Props.PoolLive.accepted_task_eventually_has_result_of_workers
#print axioms Garr.Props.PoolLive.result_stable
#print axioms Garr.Props.PoolLive.stop_eventually_returns
#print axioms Garr.Props.PoolLive.stop_lock_eventually_acquired
#print axioms Garr.Props.PoolLive.stop_wait_eventually_passes
#print axioms Garr.Props.PoolLive.live_witness
#print axioms Garr.Props.PoolLive.stop_witness
