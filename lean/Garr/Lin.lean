import Garr.Conc

/-!
# Linearizability of all runs of a small-step machine, from linearization points

* Part 1 (`Ev`, `Spec`, `legal`, `Linearizable`, `WF`, `of_lp`): the generic meta-theorem
  "a well-formed history whose LP markers replay legally through the specification is
  Herlihy–Wing linearizable", for operation ids of an arbitrary type `I`.
* Part 2 (`View`, `hist`, `Disciplined`, `wf_of_disciplined`): the history of a schedule of a
  `Garr.Conc.Machine`, a local control-flow discipline on linearization points, and the theorem
  that every history of a disciplined machine is `WF`.
* Part 3 (`Refines`, `linearizable_of_refines`): forward simulation at the LP steps gives
  linearizability of every run.
* `Garr.Lin.Example`: a tiny counter machine satisfying all hypotheses (non-vacuity).
-/
namespace Garr.Lin

open Garr.Conc

/-! ## Part 1 — the meta-theorem -/

inductive Ev (I Op Ret : Type) where
  | inv (k : I) (op : Op)      -- invocation of operation instance k
  | lp  (k : I) (r : Ret)      -- ghost: linearization point of k, with the result fixed there
  | res (k : I) (r : Ret)      -- response of k

/-- the operation instance an event belongs to -/
def Ev.id {I Op Ret : Type} : Ev I Op Ret → I
  | .inv k _ => k
  | .lp k _ => k
  | .res k _ => k

structure Spec (Op Ret S : Type) where
  init : S
  apply : S → Op → S × Ret

variable {I Op Ret S : Type}

/-- a sequence of (operation, result) pairs is a legal sequential run from state `s` -/
def legal (sp : Spec Op Ret S) : S → List (Op × Ret) → Prop
  | _, [] => True
  | s, (op, r) :: rest => (sp.apply s op).2 = r ∧ legal sp (sp.apply s op).1 rest

/-- the state reached by a sequence of operations (results ignored) -/
def exec (sp : Spec Op Ret S) : S → List (Op × Ret) → S
  | s, [] => s
  | s, (op, _) :: rest => exec sp (sp.apply s op).1 rest

theorem legal_append (sp : Spec Op Ret S) (s : S) (a b : List (Op × Ret)) :
    legal sp s (a ++ b) ↔ legal sp s a ∧ legal sp (exec sp s a) b := by
  induction a generalizing s with
  | nil => simp [legal, exec]
  | cons x a ih =>
    obtain ⟨op, r⟩ := x
    simp [legal, exec, ih, and_assoc]

theorem exec_append (sp : Spec Op Ret S) (s : S) (a b : List (Op × Ret)) :
    exec sp s (a ++ b) = exec sp (exec sp s a) b := by
  induction a generalizing s with
  | nil => simp [exec]
  | cons x a ih =>
    obtain ⟨op, r⟩ := x
    simp [exec, ih]

/-- ids of the LP markers, in history order -/
def lpIds : List (Ev I Op Ret) → List I
  | [] => []
  | .lp k _ :: h => k :: lpIds h
  | _ :: h => lpIds h

theorem lpIds_append (a b : List (Ev I Op Ret)) : lpIds (a ++ b) = lpIds a ++ lpIds b := by
  induction a with
  | nil => rfl
  | cons e a ih => cases e <;> simp [lpIds, ih]

theorem mem_lpIds {h : List (Ev I Op Ret)} {k : I} : k ∈ lpIds h ↔ ∃ r, Ev.lp k r ∈ h := by
  induction h with
  | nil => simp [lpIds]
  | cons e h ih =>
    cases e with
    | inv k' op => simp [lpIds, ih]
    | res k' r' => simp [lpIds, ih]
    | lp k' r' =>
      simp only [lpIds, List.mem_cons, ih]
      constructor
      · rintro (rfl | ⟨r, hr⟩)
        · exact ⟨r', Or.inl rfl⟩
        · exact ⟨r, Or.inr hr⟩
      · rintro ⟨r, hr | hr⟩
        · cases hr; exact Or.inl rfl
        · exact Or.inr ⟨r, hr⟩

/-- `k1` responded before `k2` was invoked -/
def precedes (h : List (Ev I Op Ret)) (k1 k2 : I) : Prop :=
  ∃ r op A B C, h = A ++ [Ev.res k1 r] ++ B ++ [Ev.inv k2 op] ++ C

def before (l : List I) (k1 k2 : I) : Prop := ∃ X Y Z, l = X ++ [k1] ++ Y ++ [k2] ++ Z

/-- Herlihy–Wing linearizability of a history (pending operations may or may not be included) -/
def Linearizable (sp : Spec Op Ret S) (h : List (Ev I Op Ret)) : Prop :=
  ∃ (l : List I) (opOf : I → Op) (retOf : I → Ret),
    l.Nodup ∧
    (∀ k, k ∈ l → Ev.inv k (opOf k) ∈ h) ∧
    (∀ k r, Ev.res k r ∈ h → k ∈ l ∧ retOf k = r) ∧
    (∀ k1 k2, k1 ∈ l → k2 ∈ l → precedes h k1 k2 → before l k1 k2) ∧
    legal sp sp.init (l.map (fun k => (opOf k, retOf k)))

/-- what the machines' ghost logs satisfy -/
structure WF (h : List (Ev I Op Ret)) (opOf : I → Op) (retOf : I → Ret) : Prop where
  inv_op : ∀ k op, Ev.inv k op ∈ h → opOf k = op
  lp_ret : ∀ k r, Ev.lp k r ∈ h → retOf k = r
  lp_unique : (lpIds h).Nodup
  lp_after_inv : ∀ P Q k r, h = P ++ [Ev.lp k r] ++ Q → Ev.inv k (opOf k) ∈ P
  inv_unique : ∀ P Q k op, h = P ++ [Ev.inv k op] ++ Q → ∀ op', Ev.inv k op' ∉ P
  res_after_lp : ∀ P Q k r, h = P ++ [Ev.res k r] ++ Q → Ev.lp k r ∈ P

theorem mem_split {α : Type} {a : α} {l : List α} (h : a ∈ l) : ∃ s t, l = s ++ [a] ++ t := by
  obtain ⟨s, t, rfl⟩ := List.append_of_mem h
  exact ⟨s, t, by simp⟩

theorem of_lp (sp : Spec Op Ret S) (h : List (Ev I Op Ret)) (opOf : I → Op) (retOf : I → Ret)
    (wf : WF h opOf retOf)
    (hlegal : legal sp sp.init ((lpIds h).map (fun k => (opOf k, retOf k)))) :
    Linearizable sp h := by
  refine ⟨lpIds h, opOf, retOf, wf.lp_unique, ?_, ?_, ?_, hlegal⟩
  · intro k hk
    obtain ⟨r, hr⟩ := mem_lpIds.mp hk
    obtain ⟨P, Q, hPQ⟩ := mem_split hr
    have := wf.lp_after_inv P Q k r hPQ
    rw [hPQ]; simp [this]
  · intro k r hres
    obtain ⟨P, Q, hPQ⟩ := mem_split hres
    have hlp := wf.res_after_lp P Q k r hPQ
    have hlp' : Ev.lp k r ∈ h := by rw [hPQ]; simp [hlp]
    exact ⟨mem_lpIds.mpr ⟨r, hlp'⟩, wf.lp_ret k r hlp'⟩
  · intro k1 k2 _ hk2 hprec
    obtain ⟨r, op, A, B, C, hABC⟩ := hprec
    -- lp k1 lies in A
    have h1 : Ev.lp k1 r ∈ A := wf.res_after_lp A (B ++ [Ev.inv k2 op] ++ C) k1 r (by rw [hABC]; simp)
    -- lp k2 lies in C
    obtain ⟨r2, hr2⟩ := mem_lpIds.mp hk2
    have h2 : Ev.lp k2 r2 ∈ C := by
      rw [hABC] at hr2
      simp only [List.mem_append, List.mem_cons, List.not_mem_nil, or_false] at hr2
      have hnot : ∀ P Q, h = P ++ [Ev.lp k2 r2] ++ Q → (∀ op', Ev.inv k2 op' ∉ P) → False := by
        intro P Q hPQ hno
        exact hno _ (wf.lp_after_inv P Q k2 r2 hPQ)
      -- the prefix before `inv k2 op` contains no other invocation of k2
      have hpre := wf.inv_unique (A ++ [Ev.res k1 r] ++ B) C k2 op (by rw [hABC])
      rcases hr2 with ((((hA | hR) | hB) | hI) | hC)
      · exfalso
        obtain ⟨s, t, rfl⟩ := mem_split hA
        apply hnot s (t ++ [Ev.res k1 r] ++ B ++ [Ev.inv k2 op] ++ C) (by rw [hABC]; simp)
        intro op' hin; exact hpre op' (by simp [hin])
      · cases hR
      · exfalso
        obtain ⟨s, t, rfl⟩ := mem_split hB
        apply hnot (A ++ [Ev.res k1 r] ++ s) (t ++ [Ev.inv k2 op] ++ C) (by rw [hABC]; simp)
        intro op' hin
        apply hpre op'
        simp only [List.mem_append, List.mem_cons, List.not_mem_nil, or_false] at hin ⊢
        rcases hin with (hin | hin) | hin
        · exact Or.inl (Or.inl hin)
        · exact Or.inl (Or.inr hin)
        · exact Or.inr (Or.inl (Or.inl hin))
      · cases hI
      · exact hC
    obtain ⟨a1, a2, rfl⟩ := mem_split h1
    obtain ⟨c1, c2, rfl⟩ := mem_split h2
    refine ⟨lpIds a1, lpIds a2 ++ lpIds ([Ev.res k1 r] ++ B ++ [Ev.inv k2 op]) ++ lpIds c1, lpIds c2, ?_⟩
    rw [hABC]
    simp [lpIds_append, lpIds]

/-! ### Histories built event by event

`WFH` is the "online" form of well-formedness: each event is admissible w.r.t. the prefix before
it (`EvOK`).  It is what a machine invariant establishes; `WFH.toWF` converts it to `WF`. -/

/-- event `e` may be appended to the history prefix `P` -/
def EvOK (P : List (Ev I Op Ret)) : Ev I Op Ret → Prop
  | .inv k _ => ∀ op', Ev.inv k op' ∉ P
  | .lp k _ => (∃ op, Ev.inv k op ∈ P) ∧ ∀ r', Ev.lp k r' ∉ P
  | .res k r => Ev.lp k r ∈ P

inductive WFH : List (Ev I Op Ret) → Prop
  | nil : WFH []
  | snoc {H e} : WFH H → EvOK H e → WFH (H ++ [e])

theorem snoc_split {α : Type} {H P Q : List α} {e x : α} (h : H ++ [e] = P ++ [x] ++ Q) :
    (Q = [] ∧ P = H ∧ x = e) ∨ ∃ Q', Q = Q' ++ [e] ∧ H = P ++ [x] ++ Q' := by
  rcases List.eq_nil_or_concat Q with rfl | ⟨Q', e', rfl⟩
  · left
    simp only [List.append_nil] at h
    have := List.append_inj' h rfl
    simp_all
  · right
    rw [List.concat_eq_append, ← List.append_assoc] at h
    have := List.append_inj' h rfl
    refine ⟨Q', by simp_all, this.1⟩

theorem WFH.pre {H : List (Ev I Op Ret)} (h : WFH H) :
    ∀ P Q x, H = P ++ [x] ++ Q → EvOK P x := by
  induction h with
  | nil => intro P Q x h; simp at h
  | snoc _ hok ih =>
    intro P Q x hPQ
    rcases snoc_split hPQ with ⟨_, rfl, rfl⟩ | ⟨Q', _, hH⟩
    · exact hok
    · exact ih P Q' x hH

theorem WFH.lp_unique {H : List (Ev I Op Ret)} (h : WFH H) : (lpIds H).Nodup := by
  induction h with
  | nil => simp [lpIds]
  | @snoc H e _ hok ih =>
    rw [lpIds_append]
    cases e with
    | inv k op => simpa [lpIds] using ih
    | res k r => simpa [lpIds] using ih
    | lp k r =>
      have hk : k ∉ lpIds H := fun hk => by
        obtain ⟨r', hr'⟩ := mem_lpIds.mp hk
        exact hok.2 r' hr'
      simp only [lpIds]
      rw [List.nodup_append]
      refine ⟨ih, by simp, ?_⟩
      intro a ha b hb
      simp only [List.mem_cons, List.not_mem_nil, or_false] at hb
      subst hb
      intro hab; subst hab; exact hk ha

theorem WFH.inv_fun {H : List (Ev I Op Ret)} (h : WFH H) :
    ∀ k op op', Ev.inv k op ∈ H → Ev.inv k op' ∈ H → op = op' := by
  induction h with
  | nil => intro k op op' h; simp at h
  | snoc _ hok ih =>
    intro k op op' h1 h2
    simp only [List.mem_append, List.mem_cons, List.not_mem_nil, or_false] at h1 h2
    rcases h1 with h1 | h1 <;> rcases h2 with h2 | h2
    · exact ih k op op' h1 h2
    · subst h2; exact absurd h1 (hok op)
    · subst h1; exact absurd h2 (hok op')
    · subst h1; cases h2; rfl

theorem WFH.lp_fun {H : List (Ev I Op Ret)} (h : WFH H) :
    ∀ k r r', Ev.lp k r ∈ H → Ev.lp k r' ∈ H → r = r' := by
  induction h with
  | nil => intro k r r' h; simp at h
  | snoc _ hok ih =>
    intro k r r' h1 h2
    simp only [List.mem_append, List.mem_cons, List.not_mem_nil, or_false] at h1 h2
    rcases h1 with h1 | h1 <;> rcases h2 with h2 | h2
    · exact ih k r r' h1 h2
    · subst h2; exact absurd h1 (hok.2 r)
    · subst h1; exact absurd h2 (hok.2 r')
    · subst h1; cases h2; rfl

/-- the operation of instance `k` according to the history (arbitrary if `k` was never invoked) -/
noncomputable def opOfH [Nonempty Op] (H : List (Ev I Op Ret)) (k : I) : Op :=
  open Classical in
  if h : ∃ op, Ev.inv k op ∈ H then Classical.choose h else Classical.choice ‹Nonempty Op›

/-- the result of instance `k` according to the history's LP marker (arbitrary if none) -/
noncomputable def retOfH [Nonempty Ret] (H : List (Ev I Op Ret)) (k : I) : Ret :=
  open Classical in
  if h : ∃ r, Ev.lp k r ∈ H then Classical.choose h else Classical.choice ‹Nonempty Ret›

theorem WFH.toWF [Nonempty Op] [Nonempty Ret] {H : List (Ev I Op Ret)} (h : WFH H) :
    WF H (opOfH H) (retOfH H) := by
  have hop : ∀ k op, Ev.inv k op ∈ H → opOfH H k = op := by
    intro k op hin
    have hex : ∃ op, Ev.inv k op ∈ H := ⟨op, hin⟩
    unfold opOfH
    rw [dif_pos hex]
    exact h.inv_fun k _ _ (Classical.choose_spec hex) hin
  have hret : ∀ k r, Ev.lp k r ∈ H → retOfH H k = r := by
    intro k r hin
    have hex : ∃ r, Ev.lp k r ∈ H := ⟨r, hin⟩
    unfold retOfH
    rw [dif_pos hex]
    exact h.lp_fun k _ _ (Classical.choose_spec hex) hin
  refine ⟨hop, hret, h.lp_unique, ?_, ?_, ?_⟩
  · intro P Q k r hPQ
    obtain ⟨op, hin⟩ := (h.pre P Q _ hPQ).1
    have : Ev.inv k op ∈ H := by rw [hPQ]; simp [hin]
    rw [hop k op this]; exact hin
  · intro P Q k op hPQ
    exact h.pre P Q _ hPQ
  · intro P Q k r hPQ
    exact h.pre P Q _ hPQ

/-! ## Part 2 — histories of machine runs and the linearization-point discipline -/

/-- where a thread is w.r.t. its current specification operation -/
inductive Phase (Ret : Type) where
  | idle
  | pending
  | done (r : Ret)

/-- a classified observation: linearization-point marker or response -/
inductive Mk (Ret : Type) where
  | lp (r : Ret)
  | res (r : Ret)

def Mk.toEv {I Op Ret : Type} (k : I) : Mk Ret → Ev I Op Ret
  | .lp r => .lp k r
  | .res r => .res k r

/-- number of response markers -/
def nres {Ret : Type} : List (Mk Ret) → Nat
  | [] => 0
  | .res _ :: m => nres m + 1
  | .lp _ :: m => nres m

/-- how a machine's actions/observations are read as history events -/
structure View (M : Machine) (Op Ret : Type) where
  /-- taking action `a` in local state `l` is the invocation of specification operation `op` -/
  invOf : M.L → M.Act → Option Op
  /-- the observation (made by a step from local state `l`) is a linearization-point marker
  carrying the result fixed there -/
  lpOf  : M.L → M.Obs → Option Ret
  /-- the observation (made by a step from local state `l`) is the response of a specification
  operation -/
  resOf : M.L → M.Obs → Option Ret
  /-- where the thread is w.r.t. its current specification operation -/
  ph    : M.L → Phase Ret
  /-- the specification operation the thread is executing while `pending` -/
  curOp : M.L → Option Op

variable {M : Machine}

/-- classify one observation (`lpOf` wins; `Disciplined.not_both` says there is never a conflict) -/
def View.mk? (V : View M Op Ret) (l : M.L) (o : M.Obs) : Option (Mk Ret) :=
  match V.lpOf l o, V.resOf l o with
  | some r, _ => some (.lp r)
  | none, some r => some (.res r)
  | none, none => none

/-- the LP/response markers among the observations of one step, in order
(`= obs.filterMap (V.mk? l)`, see `View.evs_eq_filterMap`; defined by recursion so that
`simp [View.evs, View.mk?]` evaluates it on concrete observation lists) -/
def View.evs (V : View M Op Ret) (l : M.L) : List M.Obs → List (Mk Ret)
  | [] => []
  | o :: os =>
    match V.mk? l o with
    | some m => m :: V.evs l os
    | none => V.evs l os

theorem View.evs_eq_filterMap (V : View M Op Ret) (l : M.L) (obs : List M.Obs) :
    V.evs l obs = obs.filterMap (V.mk? l) := by
  induction obs with
  | nil => rfl
  | cons o os ih =>
    simp only [View.evs, List.filterMap_cons, ih]
    cases V.mk? l o <;> rfl

/-- the history events of one enabled step of thread `t` whose current operation index is `n` -/
def stepEvs (V : View M Op Ret) (t : Tid) (n : Nat) (l : M.L) (a : M.Act) (obs : List M.Obs) :
    List (Ev (Nat × Nat) Op Ret) :=
  (match V.invOf l a with
    | some op => [Ev.inv (t, n) op]
    | none => []) ++ (V.evs l obs).map (Mk.toEv (t, n))

/-- The history of a schedule executed from configuration `c` (parallel to `Garr.Conc.run`;
disabled steps are skipped).  `cnt t` is the number of specification operations thread `t` has
*completed* (responded to) so far; the id of the current (or next) operation of `t` is
`(t, cnt t)`. -/
def hist (V : View M Op Ret) :
    Config M → (Tid → Nat) → List (Tid × M.Act) → List (Ev (Nat × Nat) Op Ret)
  | _, _, [] => []
  | c, cnt, (t, a) :: rest =>
    match M.step t c.g (c.l t) a with
    | none => hist V c cnt rest
    | some (g', l', obs) =>
      stepEvs V t (cnt t) (c.l t) a obs ++
        hist V ⟨g', upd c.l t l'⟩ (upd cnt t (cnt t + nres (V.evs (c.l t) obs))) rest

/-- the local linearization-point discipline of a machine's control flow -/
structure Disciplined (M : Machine) (V : View M Op Ret) : Prop where
  idle0 : V.ph M.idle = .idle
  not_both : ∀ l o, V.lpOf l o = none ∨ V.resOf l o = none
  idle_step : ∀ t g l a g' l' obs, M.step t g l a = some (g', l', obs) → V.ph l = .idle →
    V.evs l obs = [] ∧
    (V.invOf l a = none → V.ph l' = .idle) ∧
    (∀ op, V.invOf l a = some op → V.ph l' = .pending ∧ V.curOp l' = some op)
  pending_step : ∀ t g l a g' l' obs, M.step t g l a = some (g', l', obs) → V.ph l = .pending →
    V.invOf l a = none ∧
    ((V.evs l obs = [] ∧ V.ph l' = .pending ∧ V.curOp l' = V.curOp l) ∨
     (∃ r, V.evs l obs = [.lp r] ∧ V.ph l' = .done r) ∨
     (∃ r, V.evs l obs = [.lp r, .res r] ∧ V.ph l' = .idle))
  done_step : ∀ t g l a g' l' obs r, M.step t g l a = some (g', l', obs) → V.ph l = .done r →
    V.invOf l a = none ∧
    ((V.evs l obs = [] ∧ V.ph l' = .done r) ∨
     (V.evs l obs = [.res r] ∧ V.ph l' = .idle))

/-- generic induction over a schedule, with the history prefix `H` accumulated so far -/
theorem hist_invariant (V : View M Op Ret)
    (P : Config M → (Tid → Nat) → List (Ev (Nat × Nat) Op Ret) → Prop)
    (hstep : ∀ c cnt H t a g' l' obs, P c cnt H → M.step t c.g (c.l t) a = some (g', l', obs) →
      P ⟨g', upd c.l t l'⟩ (upd cnt t (cnt t + nres (V.evs (c.l t) obs)))
        (H ++ stepEvs V t (cnt t) (c.l t) a obs))
    (s : List (Tid × M.Act)) :
    ∀ c cnt H, P c cnt H → ∃ cnt', P (run M c s).1 cnt' (H ++ hist V c cnt s) := by
  induction s with
  | nil => intro c cnt H h; exact ⟨cnt, by simpa [hist, run] using h⟩
  | cons ta rest ih =>
    obtain ⟨t, a⟩ := ta
    intro c cnt H h
    cases hs : M.step t c.g (c.l t) a with
    | none =>
      simp only [run, hist, hs]
      exact ih c cnt H h
    | some x =>
      obtain ⟨g', l', obs⟩ := x
      simp only [run, hist, hs]
      have := ih _ _ _ (hstep c cnt H t a g' l' obs h hs)
      simpa [List.append_assoc] using this

/-- ghost invariant of one thread `t` whose current operation index is `n`: which events of `t`
are in the history `H`, depending on its phase -/
def Thr (t : Tid) (H : List (Ev (Nat × Nat) Op Ret)) (n : Nat) : Phase Ret → Option Op → Prop
  | .idle, _ => ∀ e ∈ H, e.id.1 = t → e.id.2 < n
  | .pending, cu =>
    (∀ e ∈ H, e.id.1 = t → e.id.2 ≤ n) ∧ (∃ op, cu = some op ∧ Ev.inv (t, n) op ∈ H) ∧
    (∀ r, Ev.lp (t, n) r ∉ H) ∧ (∀ r, Ev.res (t, n) r ∉ H)
  | .done r, _ =>
    (∀ e ∈ H, e.id.1 = t → e.id.2 ≤ n) ∧ (∃ op, Ev.inv (t, n) op ∈ H) ∧
    Ev.lp (t, n) r ∈ H ∧ (∀ r', Ev.res (t, n) r' ∉ H)

theorem Thr.other {t : Tid} {H E : List (Ev (Nat × Nat) Op Ret)} {n : Nat} {ph : Phase Ret}
    {cu : Option Op} (hE : ∀ e ∈ E, e.id.1 ≠ t) (h : Thr t H n ph cu) : Thr t (H ++ E) n ph cu := by
  have hb : ∀ {m : Nat} {p : Nat → Nat → Prop}, (∀ e ∈ H, e.id.1 = t → p e.id.2 m) →
      ∀ e ∈ H ++ E, e.id.1 = t → p e.id.2 m := by
    intro m p h0 e he het
    rcases List.mem_append.mp he with he | he
    · exact h0 e he het
    · exact absurd het (hE e he)
  have hn : ∀ {e : Ev (Nat × Nat) Op Ret}, e.id.1 = t → e ∉ H → e ∉ H ++ E := by
    intro e het hne he
    rcases List.mem_append.mp he with he | he
    · exact hne he
    · exact hE e he het
  cases ph with
  | idle => exact hb (p := fun a b => a < b) h
  | pending =>
    obtain ⟨h1, ⟨op, h2, h3⟩, h4, h5⟩ := h
    exact ⟨hb (p := fun a b => a ≤ b) h1, ⟨op, h2, List.mem_append_left _ h3⟩,
      fun r => hn rfl (h4 r), fun r => hn rfl (h5 r)⟩
  | done r =>
    obtain ⟨h1, ⟨op, h3⟩, h4, h5⟩ := h
    exact ⟨hb (p := fun a b => a ≤ b) h1, ⟨op, List.mem_append_left _ h3⟩,
      List.mem_append_left _ h4, fun r => hn rfl (h5 r)⟩

theorem Thr.idle_fresh {t : Tid} {H : List (Ev (Nat × Nat) Op Ret)} {n : Nat} {cu : Option Op}
    (h : Thr t H n .idle cu) : ∀ e ∈ H, e.id ≠ (t, n) := by
  intro e he hid
  have := h e he (by rw [hid])
  rw [hid] at this
  exact Nat.lt_irrefl _ this

theorem Thr.inv {t : Tid} {H : List (Ev (Nat × Nat) Op Ret)} {n : Nat} {cu : Option Op} {op : Op}
    (h : Thr t H n .idle cu) : Thr t (H ++ [Ev.inv (t, n) op]) n .pending (some op) := by
  have hf := h.idle_fresh
  refine ⟨?_, ⟨op, rfl, by simp⟩, ?_, ?_⟩
  · intro e he het
    simp only [List.mem_append, List.mem_cons, List.not_mem_nil, or_false] at he
    rcases he with he | rfl
    · exact Nat.le_of_lt (h e he het)
    · exact Nat.le_refl _
  · intro r hr
    simp only [List.mem_append, List.mem_cons, List.not_mem_nil, or_false] at hr
    rcases hr with hr | hr
    · exact hf _ hr rfl
    · cases hr
  · intro r hr
    simp only [List.mem_append, List.mem_cons, List.not_mem_nil, or_false] at hr
    rcases hr with hr | hr
    · exact hf _ hr rfl
    · cases hr

theorem Thr.lp {t : Tid} {H : List (Ev (Nat × Nat) Op Ret)} {n : Nat} {cu cu' : Option Op} {r : Ret}
    (h : Thr t H n .pending cu) : Thr t (H ++ [Ev.lp (t, n) r]) n (.done r) cu' := by
  obtain ⟨h1, ⟨op, _, h3⟩, _, h5⟩ := h
  refine ⟨?_, ⟨op, List.mem_append_left _ h3⟩, by simp, ?_⟩
  · intro e he het
    simp only [List.mem_append, List.mem_cons, List.not_mem_nil, or_false] at he
    rcases he with he | rfl
    · exact h1 e he het
    · exact Nat.le_refl _
  · intro r' hr
    simp only [List.mem_append, List.mem_cons, List.not_mem_nil, or_false] at hr
    rcases hr with hr | hr
    · exact h5 r' hr
    · cases hr

theorem Thr.res {t : Tid} {H : List (Ev (Nat × Nat) Op Ret)} {n : Nat} {cu cu' : Option Op} {r : Ret}
    (h : Thr t H n (.done r) cu) : Thr t (H ++ [Ev.res (t, n) r]) (n + 1) .idle cu' := by
  obtain ⟨h1, _, _, _⟩ := h
  intro e he het
  simp only [List.mem_append, List.mem_cons, List.not_mem_nil, or_false] at he
  rcases he with he | rfl
  · exact Nat.lt_succ_of_le (h1 e he het)
  · exact Nat.lt_succ_self _

/-- the ghost invariant relating a configuration, the operation counters and the history so far -/
def Good (V : View M Op Ret) (c : Config M) (cnt : Tid → Nat)
    (H : List (Ev (Nat × Nat) Op Ret)) : Prop :=
  WFH H ∧ ∀ t, Thr t H (cnt t) (V.ph (c.l t)) (V.curOp (c.l t))

theorem good_init {V : View M Op Ret} (D : Disciplined M V) :
    Good V (Config.init M) (fun _ => 0) [] := by
  refine ⟨WFH.nil, fun t => ?_⟩
  show Thr t [] 0 (V.ph M.idle) (V.curOp M.idle)
  rw [D.idle0]
  intro e he; simp at he

theorem mem_stepEvs_id {V : View M Op Ret} {t : Tid} {n : Nat} {l : M.L} {a : M.Act}
    {obs : List M.Obs} {e : Ev (Nat × Nat) Op Ret} (he : e ∈ stepEvs V t n l a obs) :
    e.id = (t, n) := by
  unfold stepEvs at he
  rcases List.mem_append.mp he with he | he
  · split at he
    · simp only [List.mem_cons, List.not_mem_nil, or_false] at he; subst he; rfl
    · simp at he
  · obtain ⟨m, _, rfl⟩ := List.mem_map.mp he
    cases m <;> rfl

/-- the acting thread's part of the preservation of `Good` by one step -/
theorem good_step_self {V : View M Op Ret} (D : Disciplined M V) {H : List (Ev (Nat × Nat) Op Ret)}
    {t : Tid} {n : Nat} {g g' : M.G} {l l' : M.L} {a : M.Act} {obs : List M.Obs}
    (hwf : WFH H) (hthr : Thr t H n (V.ph l) (V.curOp l))
    (hs : M.step t g l a = some (g', l', obs)) :
    WFH (H ++ stepEvs V t n l a obs) ∧
    Thr t (H ++ stepEvs V t n l a obs) (n + nres (V.evs l obs)) (V.ph l') (V.curOp l') := by
  cases hph : V.ph l with
  | idle =>
    rw [hph] at hthr
    obtain ⟨hevs, hnone, hsome⟩ := D.idle_step t g l a g' l' obs hs hph
    cases hinv : V.invOf l a with
    | none =>
      have hE : stepEvs V t n l a obs = [] := by simp [stepEvs, hinv, hevs]
      rw [hE, hevs, hnone hinv]
      simp only [nres, Nat.add_zero, List.append_nil]
      exact ⟨hwf, hthr⟩
    | some op =>
      have hE : stepEvs V t n l a obs = [Ev.inv (t, n) op] := by simp [stepEvs, hinv, hevs]
      obtain ⟨hp, hc⟩ := hsome op hinv
      rw [hE, hevs, hp, hc]
      refine ⟨WFH.snoc hwf ?_, by simpa [nres] using hthr.inv⟩
      intro op' hin
      exact hthr.idle_fresh _ hin rfl
  | pending =>
    rw [hph] at hthr
    obtain ⟨hinv, hcase⟩ := D.pending_step t g l a g' l' obs hs hph
    have hlpok : ∀ r, EvOK H (Ev.lp (t, n) r) := fun r => by
      obtain ⟨_, ⟨op, _, h3⟩, h4, _⟩ := hthr
      exact ⟨⟨op, h3⟩, h4⟩
    rcases hcase with ⟨hevs, hp, hc⟩ | ⟨r, hevs, hp⟩ | ⟨r, hevs, hp⟩
    · have hE : stepEvs V t n l a obs = [] := by simp [stepEvs, hinv, hevs]
      rw [hE, hevs, hp, hc]
      simpa [nres] using And.intro hwf hthr
    · have hE : stepEvs V t n l a obs = [Ev.lp (t, n) r] := by
        simp [stepEvs, hinv, hevs, Mk.toEv]
      rw [hE, hevs, hp]
      exact ⟨WFH.snoc hwf (hlpok r), by simpa [nres] using hthr.lp⟩
    · have hE : stepEvs V t n l a obs = [Ev.lp (t, n) r] ++ [Ev.res (t, n) r] := by
        simp [stepEvs, hinv, hevs, Mk.toEv]
      rw [hE, hevs, hp, ← List.append_assoc]
      refine ⟨WFH.snoc (WFH.snoc hwf (hlpok r)) ?_, ?_⟩
      · show Ev.lp (t, n) r ∈ H ++ [Ev.lp (t, n) r]
        simp
      · have := (hthr.lp (r := r) (cu' := V.curOp l)).res (cu' := V.curOp l')
        simpa [nres] using this
  | done r =>
    rw [hph] at hthr
    obtain ⟨hinv, hcase⟩ := D.done_step t g l a g' l' obs r hs hph
    rcases hcase with ⟨hevs, hp⟩ | ⟨hevs, hp⟩
    · have hE : stepEvs V t n l a obs = [] := by simp [stepEvs, hinv, hevs]
      rw [hE, hevs, hp]
      simp only [nres, Nat.add_zero, List.append_nil]
      exact ⟨hwf, hthr⟩
    · have hE : stepEvs V t n l a obs = [Ev.res (t, n) r] := by
        simp [stepEvs, hinv, hevs, Mk.toEv]
      rw [hE, hevs, hp]
      refine ⟨WFH.snoc hwf ?_, by simpa [nres] using hthr.res⟩
      exact hthr.2.2.1

theorem good_step {V : View M Op Ret} (D : Disciplined M V) {c : Config M} {cnt : Tid → Nat}
    {H : List (Ev (Nat × Nat) Op Ret)} {t : Tid} {a : M.Act} {g' : M.G} {l' : M.L}
    {obs : List M.Obs} (h : Good V c cnt H) (hs : M.step t c.g (c.l t) a = some (g', l', obs)) :
    Good V ⟨g', upd c.l t l'⟩ (upd cnt t (cnt t + nres (V.evs (c.l t) obs)))
      (H ++ stepEvs V t (cnt t) (c.l t) a obs) := by
  obtain ⟨hwf, hthr⟩ := h
  obtain ⟨hwf', ht'⟩ := good_step_self D hwf (hthr t) hs
  refine ⟨hwf', fun u => ?_⟩
  by_cases hu : u = t
  · subst hu
    simpa using ht'
  · simp only [upd_other _ _ _ _ hu]
    refine Thr.other ?_ (hthr u)
    intro e he h1
    rw [mem_stepEvs_id he] at h1
    exact hu h1.symm

/-- every history prefix of a disciplined machine satisfies the ghost invariant -/
theorem good_hist {V : View M Op Ret} (D : Disciplined M V) (s : List (Tid × M.Act)) :
    ∃ cnt', Good V (run M (Config.init M) s).1 cnt' (hist V (Config.init M) (fun _ => 0) s) := by
  have := hist_invariant V (Good V) (fun c cnt H t a g' l' obs h hs => good_step D h hs) s
    (Config.init M) (fun _ => 0) [] (good_init D)
  simpa using this

/-- **Theorem A**: every history of a disciplined machine is well-formed. -/
theorem wf_of_disciplined [Nonempty Op] [Nonempty Ret] {V : View M Op Ret} (D : Disciplined M V)
    (s : List (Tid × M.Act)) :
    WF (hist V (Config.init M) (fun _ => 0) s)
      (opOfH (hist V (Config.init M) (fun _ => 0) s))
      (retOfH (hist V (Config.init M) (fun _ => 0) s)) := by
  obtain ⟨_, hwf, _⟩ := good_hist D s
  exact hwf.toWF

/-! ## Part 3 — from refinement (forward simulation at the LP steps) to linearizability -/

/-- forward simulation: steps without an LP marker do not change the abstract state, a step with
marker `lp r` performs the thread's current specification operation with result `r` -/
structure Refines (M : Machine) (V : View M Op Ret) (sp : Spec Op Ret S) (abs : M.G → S)
    (Inv : Config M → Prop) : Prop where
  init : abs M.init = sp.init
  no_lp : ∀ (c : Config M) t a g' l' obs, Inv c → M.step t c.g (c.l t) a = some (g', l', obs) →
    (∀ r, Mk.lp r ∉ V.evs (c.l t) obs) → abs g' = abs c.g
  lp : ∀ (c : Config M) t a g' l' obs r op, Inv c →
    M.step t c.g (c.l t) a = some (g', l', obs) →
    Mk.lp r ∈ V.evs (c.l t) obs → V.curOp (c.l t) = some op → sp.apply (abs c.g) op = (abs g', r)

/-- replay invariant: for any `opOf`/`retOf` consistent with the history so far, the LP markers
replay legally through the specification and reach the abstraction of the shared state `g` -/
def Replay (sp : Spec Op Ret S) (abs : M.G → S) (g : M.G) (H : List (Ev (Nat × Nat) Op Ret)) :
    Prop :=
  ∀ (opOf : Nat × Nat → Op) (retOf : Nat × Nat → Ret),
    (∀ k op, Ev.inv k op ∈ H → opOf k = op) → (∀ k r, Ev.lp k r ∈ H → retOf k = r) →
    legal sp sp.init ((lpIds H).map (fun k => (opOf k, retOf k))) ∧
    exec sp sp.init ((lpIds H).map (fun k => (opOf k, retOf k))) = abs g

theorem replay_nolp {sp : Spec Op Ret S} {abs : M.G → S} {g g' : M.G}
    {H E : List (Ev (Nat × Nat) Op Ret)} (h : Replay sp abs g H) (hE : lpIds E = [])
    (hg : abs g' = abs g) : Replay sp abs g' (H ++ E) := by
  intro opOf retOf hop hret
  have := h opOf retOf (fun k op hin => hop k op (List.mem_append_left _ hin))
    (fun k r hin => hret k r (List.mem_append_left _ hin))
  rw [lpIds_append, hE, List.append_nil, hg]
  exact this

theorem replay_lp {sp : Spec Op Ret S} {abs : M.G → S} {g g' : M.G}
    {H E : List (Ev (Nat × Nat) Op Ret)} {k : Nat × Nat} {op : Op} {r : Ret}
    (h : Replay sp abs g H) (hE : lpIds E = [k]) (hinv : Ev.inv k op ∈ H) (hlp : Ev.lp k r ∈ E)
    (hg : sp.apply (abs g) op = (abs g', r)) : Replay sp abs g' (H ++ E) := by
  intro opOf retOf hop hret
  obtain ⟨hl, hx⟩ := h opOf retOf (fun k op hin => hop k op (List.mem_append_left _ hin))
    (fun k r hin => hret k r (List.mem_append_left _ hin))
  have h1 : opOf k = op := hop k op (List.mem_append_left _ hinv)
  have h2 : retOf k = r := hret k r (List.mem_append_right _ hlp)
  rw [lpIds_append, hE, List.map_append, legal_append, exec_append, hx]
  simp [legal, exec, h1, h2, hg, hl]

theorem replay_step {V : View M Op Ret} {sp : Spec Op Ret S} {abs : M.G → S}
    {Inv : Config M → Prop} (D : Disciplined M V) (R : Refines M V sp abs Inv)
    {c : Config M} {cnt : Tid → Nat} {H : List (Ev (Nat × Nat) Op Ret)} {t : Tid} {a : M.Act}
    {g' : M.G} {l' : M.L} {obs : List M.Obs}
    (hI : Inv c) (hgood : Good V c cnt H) (h : Replay sp abs c.g H)
    (hs : M.step t c.g (c.l t) a = some (g', l', obs)) :
    Replay sp abs g' (H ++ stepEvs V t (cnt t) (c.l t) a obs) := by
  have hthr := hgood.2 t
  -- steps without an LP marker
  have hno : V.evs (c.l t) obs = [] ∨ (∃ r, V.evs (c.l t) obs = [.res r]) →
      Replay sp abs g' (H ++ stepEvs V t (cnt t) (c.l t) a obs) := by
    intro hevs
    refine replay_nolp h ?_ (R.no_lp c t a g' l' obs hI hs ?_)
    · unfold stepEvs
      rw [lpIds_append]
      rcases hevs with hevs | ⟨r, hevs⟩ <;> rw [hevs] <;> split <;> simp [lpIds, Mk.toEv]
    · rcases hevs with hevs | ⟨r, hevs⟩ <;> rw [hevs] <;> simp
  -- steps with an LP marker (the thread is `pending`)
  have hyes : ∀ r, V.ph (c.l t) = .pending → V.invOf (c.l t) a = none →
      (V.evs (c.l t) obs = [.lp r] ∨ V.evs (c.l t) obs = [.lp r, .res r]) →
      Replay sp abs g' (H ++ stepEvs V t (cnt t) (c.l t) a obs) := by
    intro r hph hinv hevs
    rw [hph] at hthr
    obtain ⟨_, ⟨op, hcur, hin⟩, _, _⟩ := hthr
    have hmem : Mk.lp r ∈ V.evs (c.l t) obs := by rcases hevs with hevs | hevs <;> rw [hevs] <;> simp
    refine replay_lp (k := (t, cnt t)) (op := op) (r := r) h ?_ hin ?_
      (R.lp c t a g' l' obs r op hI hs hmem hcur)
    · rcases hevs with hevs | hevs <;> simp [stepEvs, hinv, hevs, lpIds, Mk.toEv]
    · rcases hevs with hevs | hevs <;> simp [stepEvs, hinv, hevs, Mk.toEv]
  cases hph : V.ph (c.l t) with
  | idle => exact hno (Or.inl (D.idle_step t c.g (c.l t) a g' l' obs hs hph).1)
  | pending =>
    obtain ⟨hinv, hcase⟩ := D.pending_step t c.g (c.l t) a g' l' obs hs hph
    rcases hcase with ⟨hevs, _⟩ | ⟨r, hevs, _⟩ | ⟨r, hevs, _⟩
    · exact hno (Or.inl hevs)
    · exact hyes r hph hinv (Or.inl hevs)
    · exact hyes r hph hinv (Or.inr hevs)
  | done r =>
    obtain ⟨_, hcase⟩ := D.done_step t c.g (c.l t) a g' l' obs r hs hph
    rcases hcase with ⟨hevs, _⟩ | ⟨hevs, _⟩
    · exact hno (Or.inl hevs)
    · exact hno (Or.inr ⟨r, hevs⟩)

/-- the LP markers of every history replay legally through the specification, ending in the
abstraction of the final shared state -/
theorem replay_hist {V : View M Op Ret} {sp : Spec Op Ret S} {abs : M.G → S}
    {Inv : Config M → Prop} (D : Disciplined M V) (R : Refines M V sp abs Inv)
    (hInv : ∀ c, Reach M c → Inv c) (s : List (Tid × M.Act)) :
    Replay sp abs (run M (Config.init M) s).1.g (hist V (Config.init M) (fun _ => 0) s) := by
  have h0 : Replay sp abs (Config.init M).g [] := by
    intro opOf retOf _ _
    simp [lpIds, legal, exec, Config.init, R.init]
  obtain ⟨_, _, _, h⟩ :=
    hist_invariant V (fun c cnt H => Reach M c ∧ Good V c cnt H ∧ Replay sp abs c.g H)
      (fun c cnt H t a g' l' obs h hs =>
        ⟨Reach.step h.1 hs, good_step D h.2.1 hs, replay_step D R (hInv c h.1) h.2.1 h.2.2 hs⟩)
      s (Config.init M) (fun _ => 0) [] ⟨Reach.init, good_init D, h0⟩
  simpa using h

/-- **Theorem B**: every run of a disciplined machine that refines `sp` at its linearization
points is linearizable. -/
theorem linearizable_of_refines [Nonempty Op] [Nonempty Ret] {V : View M Op Ret}
    {sp : Spec Op Ret S} {abs : M.G → S} {Inv : Config M → Prop}
    (D : Disciplined M V) (R : Refines M V sp abs Inv) (hInv : ∀ c, Reach M c → Inv c)
    (s : List (Tid × M.Act)) :
    Linearizable sp (hist V (Config.init M) (fun _ => 0) s) := by
  have wf := wf_of_disciplined D s
  exact of_lp sp _ _ _ wf (replay_hist D R hInv s _ _ wf.inv_op wf.lp_ret).1

/-! ## Non-vacuity: an atomic counter

`incr` takes an invocation step and one atomic step emitting `[lp 0, res 0]`; `read` takes an
invocation step, an atomic step emitting `[lp v]` and a separate response step emitting `[res v]`
(so all three phases occur); `nop` is an operation that is not part of the specification — its
response `res 7` is invisible because `resOf` looks at the local state.

The machine is `@[reducible]` so that `simp` sees through `counter.G`, `counter.Obs`, … when
discharging the step obligations (for a machine that is a plain `def`, use
`set_option backward.isDefEq.respectTransparency false in` on the obligation instead). -/
namespace Example

inductive CL where
  | idle | incr | read | readDone (v : Nat) | nop

inductive CAct where
  | callIncr | callRead | callNop | go

inductive CObs where
  | lp (r : Nat) | res (r : Nat) | note

inductive COp where
  | incr | read
deriving Inhabited

@[reducible] def counter : Machine where
  G := Nat
  L := CL
  Act := CAct
  Obs := CObs
  init := 0
  idle := .idle
  step := fun _ g l a =>
    match l, a with
    | .idle, .callIncr => some (g, .incr, [])
    | .idle, .callRead => some (g, .read, [])
    | .idle, .callNop => some (g, .nop, [.note])
    | .incr, .go => some (g + 1, .idle, [.lp 0, .note, .res 0])
    | .read, .go => some (g, .readDone g, [.lp g])
    | .readDone v, .go => some (g, .idle, [.res v])
    | .nop, .go => some (g, .idle, [.res 7])
    | _, _ => none

def counterSpec : Spec COp Nat Nat where
  init := 0
  apply := fun s op =>
    match op with
    | .incr => (s + 1, 0)
    | .read => (s, s)

def counterView : View counter COp Nat where
  invOf := fun (l : CL) (a : CAct) =>
    match l, a with
    | .idle, .callIncr => some .incr
    | .idle, .callRead => some .read
    | _, _ => none
  lpOf := fun (_ : CL) (o : CObs) => match o with | .lp r => some r | _ => none
  -- the response of the non-specification operation `nop` is invisible
  resOf := fun (l : CL) (o : CObs) => match l, o with | .nop, _ => none | _, .res r => some r | _, _ => none
  ph := fun (l : CL) =>
    match l with
    | .incr => .pending
    | .read => .pending
    | .readDone v => .done v
    | _ => .idle
  curOp := fun (l : CL) =>
    match l with
    | .incr => some .incr
    | .read => some .read
    | _ => none

theorem counter_disciplined : Disciplined counter counterView where
  idle0 := rfl
  not_both := by intro l o; cases l <;> cases o <;> simp [counterView]
  idle_step := by
    intro t g l a g' l' obs hs hph
    cases l <;> cases a <;> simp [counter, counterView] at hs hph <;>
      (obtain ⟨rfl, rfl, rfl⟩ := hs; simp [counterView, View.evs, View.mk?])
  pending_step := by
    intro t g l a g' l' obs hs hph
    cases l <;> cases a <;> simp [counter, counterView] at hs hph <;>
      (obtain ⟨rfl, rfl, rfl⟩ := hs; simp [counterView, View.evs, View.mk?])
  done_step := by
    intro t g l a g' l' obs r hs hph
    cases l <;> cases a <;> simp [counter, counterView] at hs hph <;>
      (obtain ⟨rfl, rfl, rfl⟩ := hs; simp [counterView, View.evs, View.mk?, hph])

theorem counter_refines : Refines counter counterView counterSpec (fun g => g) (fun _ => True) where
  init := rfl
  no_lp := by
    intro c t a g' l' obs _ hs hno
    generalize c.l t = l at hs hno
    cases l <;> cases a <;> simp [counter] at hs <;>
      (obtain ⟨rfl, rfl, rfl⟩ := hs; simp_all [counterView, View.evs, View.mk?])
  lp := by
    intro c t a g' l' obs r op _ hs hlp hcur
    generalize c.l t = l at hs hcur hlp
    cases l <;> cases a <;> simp [counter, counterView] at hs hcur <;>
      (obtain ⟨rfl, rfl, rfl⟩ := hs; subst hcur
       simp_all [counterView, counterSpec, View.evs, View.mk?])

/-- every run of the counter machine, under any schedule of any number of threads, is
linearizable w.r.t. the sequential counter -/
theorem counter_linearizable (s : List (Tid × CAct)) :
    Linearizable counterSpec (hist counterView (Config.init counter) (fun _ => 0) s) :=
  linearizable_of_refines counter_disciplined counter_refines (fun _ _ => trivial) s

end Example

end Garr.Lin
