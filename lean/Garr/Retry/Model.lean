import Garr.Num.F64
import Garr.Num.Wrap
/-!
# Model of package `retry` (back-off policies, constructors' validators)

Transcribes `retry/{fixed,random,exponential,jitterAdding,attemptLimiting}Backoff.go` and
`retry/utils.go`.  `int64` arithmetic is `Int` with an explicit `wrap64` where Go wraps;
`float64` is the exact model `F64`.  External inputs are parameters: the random source is a list
of 32-bit words consumed in order (`fastrand.Uint32()`), `math.Pow(multiplier, n-1)` is `pw`.
-/
namespace Garr.Retry
open Garr

def maxI64 : Int := 2^63 - 1
def minI64 : Int := -(2^63)

def inI64 (x : Int) : Prop := minI64 ≤ x ∧ x ≤ maxI64
instance (x : Int) : Decidable (inI64 x) := by unfold inI64; infer_instance

/-- `randomInt64()`: `(int64(u1) << 32) & limit64 | int64(u2)`; for 32-bit words this is
`(u1 mod 2^31)·2^32 + u2`. -/
def randomInt64 (u1 u2 : Nat) : Int := (((u1 % 2^31) * 2^32 + (u2 % 2^32) : Nat) : Int)

/-- the (dead, see `no_reject`) resampling loop of `nextRandomInt64IncludingZero` -/
def rejLoop (bound mask : Int) : List Nat → Int → Int × List Nat
  | u1 :: u2 :: rest, u =>
    let r := u % bound
    if u < r - mask then rejLoop bound mask rest (randomInt64 u1 u2 / 2) else (r, u1 :: u2 :: rest)
  | ws, u =>
    let r := u % bound
    (r, if u < r - mask then [] else ws)

/-- `nextRandomInt64IncludingZero(bound)` -/
def nrIncl (bound : Int) (ws : List Nat) : Int × List Nat :=
  if bound ≤ 0 then (bound, ws) else
  match ws with
  | u1 :: u2 :: rest =>
    let mask := bound - 1
    let result := randomInt64 u1 u2
    if bound.toNat &&& mask.toNat = 0 then (((result.toNat &&& mask.toNat : Nat) : Int), rest)
    else rejLoop bound mask rest (result / 2)
  | _ => (0, [])

/-- `nextRandomInt64(bound)` -/
def nr (bound : Int) (ws : List Nat) : Int × List Nat :=
  if bound ≤ 0 then (bound, ws) else
  let (r, ws') := nrIncl (bound - 1) ws
  (wrap64 (r + 1), ws')

/-- `saturatedMultiply(left, right)` -/
def satMul (left : Int) (right : F64) : Int :=
  if left = 0 then 0 else
  let tmp := F64.mul (F64.ofInt left) right
  if F64.lt tmp F64.two63 then F64.toInt64 tmp else maxI64

inductive Backoff where
  | fixed (d : Int)
  | random (lo hi : Int)
  | expo (init max : Int) (mult : F64)
  | jitter (inner : Backoff) (lo hi : F64)
  | limit (inner : Backoff) (k : Int)
deriving Repr, Inhabited, DecidableEq

/-- `NextDelayMillis(n)`; returns the delay and the unconsumed random words. -/
def next (pw : F64) (n : Int) : Backoff → List Nat → Int × List Nat
  | .fixed d, ws => (d, ws)
  | .random lo hi, ws =>
      if lo ≠ hi then
        let (r, ws') := nr (wrap64 (hi - lo)) ws
        (wrap64 (r + lo), ws')
      else (lo, ws)
  | .expo init max _, ws =>
      if n = 1 then (init, ws) else
      let d := satMul init pw
      (if d > max then max else d, ws)
  | .jitter inner lo hi, ws =>
      let (tmp, ws1) := next pw n inner ws
      if tmp ≤ 0 then (tmp, ws1) else
      let minJ := satMul tmp (F64.add F64.one lo)
      let maxJ := satMul tmp (F64.add F64.one hi)
      let (r, ws2) := nrIncl (wrap64 (wrap64 (maxJ - minJ) + 1)) ws1
      let d := wrap64 (minJ + r)
      (if d < 0 then 0 else d, ws2)
  | .limit inner k, ws =>
      if n ≥ k then (-1, ws) else next pw n inner ws

/-! ## Constructors (validators), in the order the code tests -/

def mkFixed (d : Int) : Option Backoff := if d ≥ 0 then some (.fixed d) else none

def mkRandom (lo hi : Int) : Option Backoff :=
  if lo < 0 then none else if lo > hi then none else some (.random lo hi)

def mkExpo (init max : Int) (mult : F64) : Option Backoff :=
  if !(F64.lt F64.one mult) then none
  else if init < 0 then none
  else if init > max then none
  else some (.expo init max mult)

def mkJitter (inner : Option Backoff) (lo hi : F64) : Option Backoff :=
  match inner with
  | none => none
  | some b =>
    let m1 := F64.neg F64.one
    if !(F64.le m1 lo && F64.le lo F64.one) then none
    else if !(F64.le m1 hi && F64.le hi F64.one) then none
    else if F64.lt hi lo then none
    else some (.jitter b lo hi)

def mkLimit (inner : Option Backoff) (k : Int) : Option Backoff :=
  match inner with
  | none => none
  | some b => if k ≤ 0 then none else some (.limit b k)

/-- a builder layer, as recorded by `WithLimit` / `WithJitter` / `WithJitterBound` -/
inductive Layer where
  | limit (k : Int)
  | jitter (lo hi : F64)
deriving Repr

/-- `Build()`: the base wrapped by the layers in the order they were added -/
def build (base : Option Backoff) (ls : List Layer) : Option Backoff :=
  ls.foldl (fun acc l => match l with
    | .limit k => mkLimit acc k
    | .jitter lo hi => mkJitter acc lo hi) base

end Garr.Retry
