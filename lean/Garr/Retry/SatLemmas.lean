import Garr.Retry.Lemmas
import Garr.Num.F64Lemmas
/-!
# Helper lemmas for the retry model (float side and whole-stack helpers)

`saturatedMultiply` in terms of `F64.sat`, the bounded random helper for every state of the random source,
what `mkJitter` accepts, the integer part of the jitter computation, `build` unfolding.
(Proof file; uses `Garr/Num/F64Lemmas.lean`.)
-/
namespace Garr.Retry
open Garr

/-- `saturatedMultiply` is "convert, multiply, guarded truncation" -/
theorem satMul_eq_sat (left : Int) (right : F64) :
    satMul left right = if left = 0 then 0 else F64.sat (F64.mul (F64.ofInt left) right) := by
  unfold satMul F64.sat maxI64; rfl

/-- `nextRandomInt64IncludingZero(bound)`, `bound > 0`, any state of the random source: result in
`[0, bound-1]` (the model returns 0 when fewer than two words are left) -/
theorem nrIncl_range_any {bound : Int} (hb : 0 < bound) (ws : List Nat) :
    0 ≤ (nrIncl bound ws).1 ∧ (nrIncl bound ws).1 ≤ bound - 1 := by
  match ws with
  | u1 :: u2 :: rest =>
    obtain ⟨a, b, _⟩ := nrIncl_range hb u1 u2 rest
    exact ⟨a, b⟩
  | [u] =>
    have hnb : ¬ bound ≤ 0 := by omega
    simp only [nrIncl, hnb, if_false]; omega
  | [] =>
    have hnb : ¬ bound ≤ 0 := by omega
    simp only [nrIncl, hnb, if_false]; omega

/-- what `mkJitter` accepts -/
theorem mkJitter_some {b j : Backoff} {lo hi : F64} (h : mkJitter (some b) lo hi = some j) :
    j = .jitter b lo hi ∧ F64.le (F64.neg F64.one) lo = true ∧ F64.le lo F64.one = true ∧
      F64.le (F64.neg F64.one) hi = true ∧ F64.le hi F64.one = true ∧ F64.lt hi lo = false := by
  unfold mkJitter at h
  simp only at h
  split at h
  · cases h
  · split at h
    · cases h
    · split at h
      · cases h
      · rename_i a b c
        simp only [Bool.not_eq_true, Bool.not_eq_eq_eq_not, Bool.not_true, Bool.and_eq_false_iff,
          not_or, Bool.not_eq_false] at a b c
        injection h with h
        exact ⟨h.symm, a.1, a.2, b.1, b.2, c⟩

/-- `¬ (hi < lo)` for two numbers is `lo ≤ hi` -/
theorem le_of_not_lt {a b : F64} (ha : F64.le a F64.one = true) (hb : F64.le (F64.neg F64.one) b = true)
    (h : F64.lt b a = false) : F64.le a b = true := by
  have hneg : F64.neg F64.one = .fin true (2^52) (-52) := rfl
  have hone : F64.one = .fin false (2^52) (-52) := rfl
  rw [hneg] at hb; rw [hone] at ha
  cases a with
  | nan => simp [F64.le] at ha
  | inf n1 =>
    cases n1
    · simp [F64.le] at ha
    · cases b <;> simp_all [F64.le, F64.lt]
  | fin n1 m1 e1 =>
    cases b with
    | nan => simp [F64.le] at hb
    | inf n2 => cases n2 <;> simp_all [F64.le, F64.lt]
    | fin n2 m2 e2 =>
      rw [F64.le_fin_iff]
      have : ¬ (F64.lt (.fin n2 m2 e2) (.fin n1 m1 e1) = true) := by simp [h]
      rw [F64.lt_fin_iff] at this
      exact not_lt.1 this

/-- the integer part of the jitter computation: given `0 ≤ minJ ≤ maxJ ≤ MaxInt64`, the returned delay is in
`[minJ, maxJ]` — also when `maxJ - minJ + 1` overflows (`minJ = 0`, `maxJ = MaxInt64`), where it is 0 -/
theorem jitter_core (minJ maxJ : Int) (ws1 : List Nat) (h0 : 0 ≤ minJ) (h1 : minJ ≤ maxJ)
    (h2 : maxJ ≤ maxI64) :
    let d := wrap64 (minJ + (nrIncl (wrap64 (wrap64 (maxJ - minJ) + 1)) ws1).1)
    minJ ≤ (if d < 0 then 0 else d) ∧ (if d < 0 then 0 else d) ≤ maxJ ∧
      (maxJ - minJ + 1 ≤ maxI64 →
        d = minJ + (nrIncl (maxJ - minJ + 1) ws1).1 ∧ 0 ≤ (nrIncl (maxJ - minJ + 1) ws1).1 ∧
          (nrIncl (maxJ - minJ + 1) ws1).1 ≤ maxJ - minJ) ∧
      (maxI64 < maxJ - minJ + 1 → (if d < 0 then 0 else d) = 0) := by
  unfold maxI64 at *
  have hw : wrap64 (maxJ - minJ) = maxJ - minJ := wrap64_id (by unfold inI64 minI64 maxI64; omega)
  simp only [hw]
  by_cases hov : maxJ - minJ + 1 ≤ 2^63 - 1
  · have hw2 : wrap64 (maxJ - minJ + 1) = maxJ - minJ + 1 := wrap64_id (by unfold inI64 minI64 maxI64; omega)
    rw [hw2]
    obtain ⟨ra, rb⟩ := nrIncl_range_any (bound := maxJ - minJ + 1) (by omega) ws1
    generalize (nrIncl (maxJ - minJ + 1) ws1).1 = r at ra rb
    have hw3 : wrap64 (minJ + r) = minJ + r := wrap64_id (by unfold inI64 minI64 maxI64; omega)
    rw [hw3]
    refine ⟨?_, ?_, ?_, ?_⟩
    · split <;> omega
    · split <;> omega
    · intro _; exact ⟨rfl, ra, by omega⟩
    · intro h; omega
  · have e1 : maxJ - minJ + 1 = 2^63 := by omega
    have hw2 : wrap64 (maxJ - minJ + 1) = -(2^63) := by rw [e1]; decide
    rw [hw2, nrIncl_nonpos (by decide)]
    have e2 : minJ = 0 := by omega
    subst e2
    have hw3 : wrap64 (0 + -(2^63)) = -(2^63) := by decide
    simp only [hw3]
    refine ⟨by decide, by simp; omega, fun h => by omega, fun _ => by decide⟩

theorem build_cons_limit (acc : Option Backoff) (k : Int) (ls : List Layer) :
    build acc (.limit k :: ls) = build (mkLimit acc k) ls := rfl

theorem build_cons_jitter (acc : Option Backoff) (lo hi : F64) (ls : List Layer) :
    build acc (.jitter lo hi :: ls) = build (mkJitter acc lo hi) ls := rfl

theorem build_none (ls : List Layer) : build none ls = none := by
  induction ls with
  | nil => rfl
  | cons l ls ih =>
    cases l with
    | limit k => rw [build_cons_limit]; exact ih
    | jitter lo hi => rw [build_cons_jitter]; exact ih


end Garr.Retry
