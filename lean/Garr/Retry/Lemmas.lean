import Garr.Retry.Model
/-! Helper lemmas for the retry model (integer side). -/
namespace Garr.Retry

theorem wrap64_id {x : Int} (h : inI64 x) : wrap64 x = x := by
  unfold inI64 minI64 maxI64 at h
  unfold wrap64
  omega

theorem randomInt64_nonneg (u1 u2 : Nat) : 0 ≤ randomInt64 u1 u2 := by
  unfold randomInt64; omega

theorem randomInt64_lt (u1 u2 : Nat) : randomInt64 u1 u2 < 2^63 := by
  unfold randomInt64
  have h1 : u1 % 2^31 < 2^31 := Nat.mod_lt _ (by decide)
  have h2 : u2 % 2^32 < 2^32 := Nat.mod_lt _ (by decide)
  omega

/-- the rejection test of `nextRandomInt64IncludingZero` is never true: one draw suffices -/
theorem no_reject {bound u : Int} (hb : 0 < bound) (hu : 0 ≤ u) : ¬ (u < u % bound - (bound - 1)) := by
  have h1 : u % bound < bound := Int.emod_lt_of_pos u hb
  omega

theorem rejLoop_eq {bound u : Int} (hb : 0 < bound) (hu : 0 ≤ u) (ws : List Nat) :
    rejLoop bound (bound - 1) ws u = (u % bound, ws) := by
  have hn := no_reject hb hu
  unfold rejLoop
  split
  · simp [hn]
  · simp [hn]

/-- `nextRandomInt64IncludingZero(bound)` for `bound > 0` with at least one draw available:
result in `[0, bound-1]`, exactly two words consumed -/
theorem nrIncl_range {bound : Int} (hb : 0 < bound) (u1 u2 : Nat) (rest : List Nat) :
    0 ≤ (nrIncl bound (u1 :: u2 :: rest)).1 ∧ (nrIncl bound (u1 :: u2 :: rest)).1 ≤ bound - 1 ∧
    (nrIncl bound (u1 :: u2 :: rest)).2 = rest := by
  unfold nrIncl
  have hnb : ¬ bound ≤ 0 := by omega
  simp only [hnb, if_false]
  split
  · -- power of two: mask
    refine ⟨by omega, ?_, rfl⟩
    have : (randomInt64 u1 u2).toNat &&& (bound - 1).toNat ≤ (bound - 1).toNat := Nat.and_le_right
    simp only
    omega
  · have hu : 0 ≤ randomInt64 u1 u2 / 2 := Int.ediv_nonneg (randomInt64_nonneg u1 u2) (by decide)
    rw [rejLoop_eq hb hu]
    have h1 : randomInt64 u1 u2 / 2 % bound < bound := Int.emod_lt_of_pos _ hb
    have h2 : 0 ≤ randomInt64 u1 u2 / 2 % bound := Int.emod_nonneg _ (by omega)
    exact ⟨h2, by omega, rfl⟩

theorem nrIncl_nonpos {bound : Int} (hb : bound ≤ 0) (ws : List Nat) : nrIncl bound ws = (bound, ws) := by
  unfold nrIncl; simp [hb]

end Garr.Retry
