import Garr.Retry.Model
/-!
# Model of `parseFromSpec` (retry/backoff.go) over byte strings

Bytes are `Nat`s (< 256).  `strconv.ParseInt(s, 10, 64)` is modelled exactly; the result of
`strconv.ParseFloat(field, 64)` on the third field of `exponential=` is a parameter `pf`
(`none` = error), consulted only when that field is non-empty.
-/
namespace Garr.SpecParse
open Garr Garr.Retry

abbrev Bytes := List Nat

def bEq : Nat := 61      -- '='
def bColon : Nat := 58   -- ':'
def bPlus : Nat := 43
def bMinus : Nat := 45

def kFixed : Bytes := [102, 105, 120, 101, 100]
def kRandom : Bytes := [114, 97, 110, 100, 111, 109]
def kExpo : Bytes := [101, 120, 112, 111, 110, 101, 110, 116, 105, 97, 108]

def isDigit (b : Nat) : Bool := 48 ≤ b && b ≤ 57

/-- value of a non-empty all-digit string, else none -/
def digitsVal : Bytes → Option Nat
  | [] => none
  | ds => if ds.all isDigit then some (ds.foldl (fun acc d => acc * 10 + (d - 48)) 0) else none

/-- `strconv.ParseInt(s, 10, 64)` (`none` = any error, syntax or range) -/
def parseInt : Bytes → Option Int
  | [] => none
  | c :: rest =>
    if c = bMinus then
      match digitsVal rest with
      | some v => if v ≤ 2^63 then some (-(v : Int)) else none
      | none => none
    else if c = bPlus then
      match digitsVal rest with
      | some v => if v < 2^63 then some (v : Int) else none
      | none => none
    else
      match digitsVal (c :: rest) with
      | some v => if v < 2^63 then some (v : Int) else none
      | none => none

/-- `strings.Split(s, ":")` -/
def splitColon : Bytes → List Bytes
  | [] => [[]]
  | b :: rest =>
    match splitColon rest with
    | [] => [[b]]   -- unreachable: `splitColon` is never empty
    | f :: fs => if b = bColon then [] :: f :: fs else (b :: f) :: fs

/-- split at the first '=' -/
def splitEq : Bytes → Option (Bytes × Bytes)
  | [] => none
  | b :: rest =>
    if b = bEq then some ([], rest)
    else match splitEq rest with
      | some (k, v) => some (b :: k, v)
      | none => none

def defaultDelay : Int := 200
def defaultInitial : Int := 200
def defaultMin : Int := 0
def defaultMax : Int := 10000
def defaultMult : F64 := .fin false (2^52) (-51)   -- 2.0

/-- field: empty ⇒ default, else ParseInt -/
def intField (f : Bytes) (dflt : Int) : Option Int := if f = [] then some dflt else parseInt f

def parse (pf : Option F64) (s : Bytes) : Option Backoff :=
  match splitEq s with
  | none => none
  | some (key, values) =>
    if key = kExpo then
      match splitColon values with
      | [f0, f1, f2] =>
        match intField f0 defaultInitial with
        | none => none
        | some i =>
          match intField f1 defaultMax with
          | none => none
          | some m =>
            match (if f2 = [] then some defaultMult else pf) with
            | none => none
            | some mu => mkExpo i m mu
      | _ => none
    else if key = kFixed then
      match intField values defaultDelay with
      | none => none
      | some d => mkFixed d
    else if key = kRandom then
      match splitColon values with
      | [f0, f1] =>
        match intField f0 defaultMin with
        | none => none
        | some lo =>
          match intField f1 defaultMax with
          | none => none
          | some hi => mkRandom lo hi
      | _ => none
    else none

end Garr.SpecParse
