import Garr.SpecParse.Model
/-!
# A declarative grammar for back-off specifications, and its equivalence with `parse`

`InGrammar pf s b` says, without reference to the parser's control flow (no `splitEq`,
`splitColon`, `parseInt`, `intField`), that the byte string `s` is a well-formed specification
denoting the back-off `b`.  The main theorem `parse_iff_grammar` states
`parse pf s = some b ↔ InGrammar pf s b`.

Totality of `parse` is by construction: it is a total Lean function into `Option Backoff`
(`none` = the Go function returned a non-nil error), so "fails with an error for everything else"
is `parse_fails_otherwise`.
-/
namespace Garr.SpecParse
open Garr Garr.Retry

/-! ## Decimal literals -/

/-- positional (big-endian) value of a digit string: `decVal (ds ++ [d]) = decVal ds * 10 + (d - '0')`
(see `decVal_nil`, `decVal_snoc`) -/
def decVal (ds : Bytes) : Nat := ds.foldl (fun acc d => acc * 10 + (d - 48)) 0

/-- every byte is an ASCII digit `'0'..'9'` -/
def AllDigits (ds : Bytes) : Prop := ∀ d ∈ ds, 48 ≤ d ∧ d ≤ 57

instance (ds : Bytes) : Decidable (AllDigits ds) := by unfold AllDigits; infer_instance

/-- `f` is a decimal integer literal denoting `v`: optional '+'/'-', then one or more ASCII digits
(leading zeros allowed), value in int64 range (`-2^63 ≤ v ≤ 2^63 - 1`). -/
inductive IsIntLit : Bytes → Int → Prop
  | unsigned (ds : Bytes) : ds ≠ [] → AllDigits ds → decVal ds < 2^63 → IsIntLit ds (decVal ds : Int)
  | plus (ds : Bytes) : ds ≠ [] → AllDigits ds → decVal ds < 2^63 → IsIntLit (bPlus :: ds) (decVal ds : Int)
  | minus (ds : Bytes) : ds ≠ [] → AllDigits ds → decVal ds ≤ 2^63 → IsIntLit (bMinus :: ds) (-(decVal ds : Int))

/-- an integer field: empty ⇒ the default, otherwise a literal -/
def IntField (f : Bytes) (dflt v : Int) : Prop := (f = [] ∧ v = dflt) ∨ IsIntLit f v

/-- the byte `b` does not occur in `f` -/
def NoByte (b : Nat) (f : Bytes) : Prop := b ∉ f

/-- the float field: empty ⇒ 2.0, otherwise whatever `strconv.ParseFloat` (the parameter) returns -/
def FloatField (pf : Option F64) (f : Bytes) (mu : F64) : Prop :=
  (f = [] ∧ mu = defaultMult) ∨ (f ≠ [] ∧ pf = some mu)

/-- The declarative grammar of back-off specifications. -/
inductive InGrammar (pf : Option F64) : Bytes → Backoff → Prop
  | fixed (f : Bytes) (d : Int) :
      IntField f 200 d → 0 ≤ d →
      InGrammar pf (kFixed ++ [bEq] ++ f) (.fixed d)
  | random (f0 f1 : Bytes) (lo hi : Int) :
      NoByte bColon f0 → NoByte bColon f1 →
      IntField f0 0 lo → IntField f1 10000 hi → 0 ≤ lo → lo ≤ hi →
      InGrammar pf (kRandom ++ [bEq] ++ f0 ++ [bColon] ++ f1) (.random lo hi)
  | expo (f0 f1 f2 : Bytes) (i m : Int) (mu : F64) :
      NoByte bColon f0 → NoByte bColon f1 → NoByte bColon f2 →
      IntField f0 200 i → IntField f1 10000 m → FloatField pf f2 mu →
      F64.lt F64.one mu = true → 0 ≤ i → i ≤ m →
      InGrammar pf (kExpo ++ [bEq] ++ f0 ++ [bColon] ++ f1 ++ [bColon] ++ f2) (.expo i m mu)

/-! ### `decVal` is the positional value -/

theorem decVal_nil : decVal [] = 0 := rfl

theorem decVal_snoc (ds : Bytes) (d : Nat) : decVal (ds ++ [d]) = decVal ds * 10 + (d - 48) := by
  simp [decVal, List.foldl_append]

/-! ## `parseInt` accepts exactly the literals -/

theorem all_isDigit_iff (ds : Bytes) : ds.all isDigit = true ↔ AllDigits ds := by
  simp [AllDigits, isDigit, List.all_eq_true]

theorem digitsVal_iff (ds : Bytes) (v : Nat) :
    digitsVal ds = some v ↔ ds ≠ [] ∧ AllDigits ds ∧ v = decVal ds := by
  cases ds with
  | nil => simp [digitsVal]
  | cons c rest =>
    have e : digitsVal (c :: rest) =
        if (c :: rest).all isDigit = true then some (decVal (c :: rest)) else none := rfl
    rw [e]
    by_cases h : (c :: rest).all isDigit = true
    · have h' := (all_isDigit_iff _).1 h
      rw [if_pos h]
      simp only [Option.some.injEq, ne_eq, reduceCtorEq, not_false_eq_true, true_and]
      exact ⟨fun e => ⟨h', e.symm⟩, fun e => e.2.symm⟩
    · rw [if_neg h]
      have h' : ¬ AllDigits (c :: rest) := fun a => h ((all_isDigit_iff _).2 a)
      simp [h']

theorem digitsVal_of {ds : Bytes} (h0 : ds ≠ []) (h1 : AllDigits ds) : digitsVal ds = some (decVal ds) :=
  (digitsVal_iff ds _).2 ⟨h0, h1, rfl⟩

/-- `strconv.ParseInt(f, 10, 64)` succeeds with `v` iff `f` is an integer literal denoting `v` -/
theorem parseInt_iff (f : Bytes) (v : Int) : parseInt f = some v ↔ IsIntLit f v := by
  constructor
  · intro h
    cases f with
    | nil => simp [parseInt] at h
    | cons c rest =>
      rw [parseInt] at h
      split at h
      · -- '-'
        rename_i hc
        subst hc
        split at h
        · rename_i n hn
          obtain ⟨h0, h1, h2⟩ := (digitsVal_iff _ _).1 hn
          subst h2
          split at h
          · rename_i hr
            cases h
            exact IsIntLit.minus rest h0 h1 hr
          · cases h
        · cases h
      · split at h
        · -- '+'
          rename_i _ hc
          subst hc
          split at h
          · rename_i n hn
            obtain ⟨h0, h1, h2⟩ := (digitsVal_iff _ _).1 hn
            subst h2
            split at h
            · rename_i hr
              cases h
              exact IsIntLit.plus rest h0 h1 hr
            · cases h
          · cases h
        · split at h
          · rename_i n hn
            obtain ⟨h0, h1, h2⟩ := (digitsVal_iff _ _).1 hn
            subst h2
            split at h
            · rename_i hr
              cases h
              exact IsIntLit.unsigned (c :: rest) h0 h1 hr
            · cases h
          · cases h
  · intro h
    cases h with
    | unsigned ds h0 h1 h2 =>
      cases f with
      | nil => exact absurd rfl h0
      | cons c rest =>
        have hc := h1 c (List.mem_cons_self ..)
        have hm : c ≠ bMinus := by simp only [bMinus]; omega
        have hp : c ≠ bPlus := by simp only [bPlus]; omega
        rw [parseInt, if_neg hm, if_neg hp, digitsVal_of h0 h1]
        simp only
        rw [if_pos h2]
    | plus ds h0 h1 h2 =>
      have hm : bPlus ≠ bMinus := by decide
      rw [parseInt, if_neg hm, if_pos rfl, digitsVal_of h0 h1]
      simp only
      rw [if_pos h2]
    | minus ds h0 h1 h2 =>
      rw [parseInt, if_pos rfl, digitsVal_of h0 h1]
      simp only
      rw [if_pos h2]

theorem IsIntLit.ne_nil {f : Bytes} {v : Int} (h : IsIntLit f v) : f ≠ [] := by
  cases h with
  | unsigned ds h0 _ _ => exact h0
  | plus ds _ _ _ => exact List.cons_ne_nil _ _
  | minus ds _ _ _ => exact List.cons_ne_nil _ _

/-- every literal denotes an int64 -/
theorem IsIntLit.inI64 {f : Bytes} {v : Int} (h : IsIntLit f v) : inI64 v := by
  cases h with
  | unsigned ds _ _ h2 => simp only [Retry.inI64, minI64, maxI64]; omega
  | plus ds _ _ h2 => simp only [Retry.inI64, minI64, maxI64]; omega
  | minus ds _ _ h2 => simp only [Retry.inI64, minI64, maxI64]; omega

/-- a literal denotes at most one value -/
theorem IsIntLit.unique {f : Bytes} {v w : Int} (h : IsIntLit f v) (h' : IsIntLit f w) : v = w := by
  have a := (parseInt_iff f v).2 h
  have b := (parseInt_iff f w).2 h'
  rw [a] at b
  exact Option.some.inj b

/-- a literal consists of sign and digit bytes only; in particular it contains no ':' and no '=' -/
theorem IsIntLit.bytes {f : Bytes} {v : Int} (h : IsIntLit f v) :
    ∀ c ∈ f, c = bPlus ∨ c = bMinus ∨ (48 ≤ c ∧ c ≤ 57) := by
  cases h with
  | unsigned ds _ h1 _ => exact fun c hc => Or.inr (Or.inr (h1 c hc))
  | plus ds _ h1 _ =>
    intro c hc
    rcases List.mem_cons.1 hc with e | hc
    · exact Or.inl e
    · exact Or.inr (Or.inr (h1 c hc))
  | minus ds _ h1 _ =>
    intro c hc
    rcases List.mem_cons.1 hc with e | hc
    · exact Or.inr (Or.inl e)
    · exact Or.inr (Or.inr (h1 c hc))

theorem IsIntLit.noColon {f : Bytes} {v : Int} (h : IsIntLit f v) : NoByte bColon f := by
  intro hc
  have := h.bytes _ hc
  simp only [bColon, bPlus, bMinus] at this
  omega

theorem IsIntLit.noEq {f : Bytes} {v : Int} (h : IsIntLit f v) : NoByte bEq f := by
  intro hc
  have := h.bytes _ hc
  simp only [bEq, bPlus, bMinus] at this
  omega

theorem intField_iff (f : Bytes) (dflt v : Int) : intField f dflt = some v ↔ IntField f dflt v := by
  unfold intField IntField
  by_cases hf : f = []
  · rw [if_pos hf]
    constructor
    · intro h; exact Or.inl ⟨hf, (Option.some.inj h).symm⟩
    · rintro (⟨_, h⟩ | h)
      · rw [h]
      · exact absurd hf h.ne_nil
  · rw [if_neg hf, parseInt_iff]
    constructor
    · exact Or.inr
    · rintro (⟨h, _⟩ | h)
      · exact absurd h hf
      · exact h

/-- an integer field contains no ':' (so `NoByte bColon` on integer fields of the grammar is implied) -/
theorem IntField.noColon {f : Bytes} {dflt v : Int} (h : IntField f dflt v) : NoByte bColon f := by
  rcases h with ⟨h, _⟩ | h
  · subst h; exact List.not_mem_nil
  · exact h.noColon

/-- derived rule: the colon-freeness of INTEGER fields is implied (`IntField.noColon`); only the
float field, whose syntax is left to `strconv.ParseFloat`, needs the side condition -/
theorem InGrammar.random_of {pf : Option F64} (f0 f1 : Bytes) (lo hi : Int)
    (h0 : IntField f0 0 lo) (h1 : IntField f1 10000 hi) (g0 : 0 ≤ lo) (g1 : lo ≤ hi) :
    InGrammar pf (kRandom ++ [bEq] ++ f0 ++ [bColon] ++ f1) (.random lo hi) :=
  InGrammar.random f0 f1 lo hi h0.noColon h1.noColon h0 h1 g0 g1

theorem InGrammar.expo_of {pf : Option F64} (f0 f1 f2 : Bytes) (i m : Int) (mu : F64)
    (c2 : NoByte bColon f2) (h0 : IntField f0 200 i) (h1 : IntField f1 10000 m)
    (h2 : FloatField pf f2 mu) (g0 : F64.lt F64.one mu = true) (g1 : 0 ≤ i) (g2 : i ≤ m) :
    InGrammar pf (kExpo ++ [bEq] ++ f0 ++ [bColon] ++ f1 ++ [bColon] ++ f2) (.expo i m mu) :=
  InGrammar.expo f0 f1 f2 i m mu h0.noColon h1.noColon c2 h0 h1 h2 g0 g1 g2

/-! ## `splitEq`: split at the first '=' -/

theorem splitEq_append (k v : Bytes) (hk : bEq ∉ k) : splitEq (k ++ [bEq] ++ v) = some (k, v) := by
  induction k with
  | nil => simp [splitEq]
  | cons c k ih =>
    have hc : c ≠ bEq := fun e => hk (e ▸ List.mem_cons_self ..)
    have hk' : bEq ∉ k := fun h => hk (List.mem_cons_of_mem _ h)
    have ih := ih hk'
    simp only [List.cons_append, List.append_assoc] at ih ⊢
    unfold splitEq
    rw [if_neg hc, ih]

theorem splitEq_some {s k v : Bytes} (h : splitEq s = some (k, v)) : s = k ++ [bEq] ++ v ∧ bEq ∉ k := by
  induction s generalizing k with
  | nil => simp [splitEq] at h
  | cons c s ih =>
    unfold splitEq at h
    split at h
    · rename_i hc
      cases h
      subst hc
      simp
    · rename_i hc
      split at h
      · rename_i k' v' e
        cases h
        obtain ⟨h1, h2⟩ := ih e
        refine ⟨by rw [h1]; simp, ?_⟩
        intro hm
        rcases List.mem_cons.1 hm with e | hm
        · exact hc e.symm
        · exact h2 hm
      · cases h

theorem splitEq_iff (s k v : Bytes) : splitEq s = some (k, v) ↔ s = k ++ [bEq] ++ v ∧ bEq ∉ k :=
  ⟨splitEq_some, fun ⟨h1, h2⟩ => h1 ▸ splitEq_append k v h2⟩

theorem splitEq_none_iff (s : Bytes) : splitEq s = none ↔ bEq ∉ s := by
  induction s with
  | nil => simp [splitEq]
  | cons c s ih =>
    unfold splitEq
    by_cases hc : c = bEq
    · rw [if_pos hc]; simp [hc]
    · rw [if_neg hc]
      have hc' : ¬ bEq = c := fun e => hc e.symm
      cases e : splitEq s with
      | none => simp [hc', ih.1 e]
      | some kv =>
        have : bEq ∈ s := by
          apply Classical.byContradiction
          intro hn
          rw [ih.2 hn] at e
          cases e
        simp [this]

/-! ## `splitColon` is `strings.Split(·, ":")` -/

/-- `strings.Join(fs, ":")` -/
def joinColon : List Bytes → Bytes
  | [] => []
  | [f] => f
  | f :: g :: fs => f ++ bColon :: joinColon (g :: fs)

theorem joinColon_eq_intercalate (fs : List Bytes) : joinColon fs = List.intercalate [bColon] fs := by
  induction fs with
  | nil => rfl
  | cons f fs ih =>
    cases fs with
    | nil => simp [joinColon, List.intercalate]
    | cons g fs =>
      simp only [joinColon, ih]
      simp [List.intercalate, List.intersperse]

theorem splitColon_ne_nil (s : Bytes) : splitColon s ≠ [] := by
  cases s with
  | nil => simp [splitColon]
  | cons b rest =>
    unfold splitColon
    split
    · simp
    · split <;> simp

theorem splitColon_append (f r : Bytes) (hf : bColon ∉ f) :
    splitColon (f ++ bColon :: r) = f :: splitColon r := by
  induction f with
  | nil =>
    simp only [List.nil_append]
    rw [splitColon]
    cases e : splitColon r with
    | nil => exact absurd e (splitColon_ne_nil r)
    | cons g gs => simp
  | cons c f ih =>
    have hc : c ≠ bColon := fun e => hf (e ▸ List.mem_cons_self ..)
    have hf' : bColon ∉ f := fun h => hf (List.mem_cons_of_mem _ h)
    simp only [List.cons_append]
    rw [splitColon, ih hf']
    simp [hc]

theorem splitColon_noColon (f : Bytes) (hf : bColon ∉ f) : splitColon f = [f] := by
  induction f with
  | nil => simp [splitColon]
  | cons c f ih =>
    have hc : c ≠ bColon := fun e => hf (e ▸ List.mem_cons_self ..)
    have hf' : bColon ∉ f := fun h => hf (List.mem_cons_of_mem _ h)
    rw [splitColon, ih hf']
    simp [hc]

theorem splitColon_joinColon (fs : List Bytes) (h0 : fs ≠ []) (h1 : ∀ f ∈ fs, bColon ∉ f) :
    splitColon (joinColon fs) = fs := by
  induction fs with
  | nil => exact absurd rfl h0
  | cons f fs ih =>
    cases fs with
    | nil => exact splitColon_noColon f (h1 f (List.mem_cons_self ..))
    | cons g fs =>
      simp only [joinColon]
      rw [splitColon_append f _ (h1 f (List.mem_cons_self ..)),
        ih (List.cons_ne_nil _ _) (fun x hx => h1 x (List.mem_cons_of_mem _ hx))]

theorem joinColon_cons_cons (b : Nat) (f : Bytes) (fs : List Bytes) :
    joinColon ((b :: f) :: fs) = b :: joinColon (f :: fs) := by
  cases fs <;> simp [joinColon]

theorem splitColon_spec (s : Bytes) :
    s = joinColon (splitColon s) ∧ ∀ f ∈ splitColon s, bColon ∉ f := by
  induction s with
  | nil => simp [splitColon, joinColon]
  | cons b rest ih =>
    rw [splitColon]
    cases e : splitColon rest with
    | nil => exact absurd e (splitColon_ne_nil rest)
    | cons f fs =>
      rw [e] at ih
      obtain ⟨ih1, ih2⟩ := ih
      by_cases hb : b = bColon
      · simp only [hb, if_true]
        refine ⟨by simp only [joinColon, List.nil_append]; rw [← ih1], ?_⟩
        intro x hx
        rcases List.mem_cons.1 hx with e | hx
        · subst e; exact List.not_mem_nil
        · exact ih2 x hx
      · simp only [hb, if_false]
        refine ⟨by rw [joinColon_cons_cons, ← ih1], ?_⟩
        intro x hx
        rcases List.mem_cons.1 hx with e | hx
        · subst e
          intro hm
          rcases List.mem_cons.1 hm with e | hm
          · exact hb e.symm
          · exact ih2 f (List.mem_cons_self ..) hm
        · exact ih2 x (List.mem_cons_of_mem _ hx)

/-- `strings.Split(s, ":") = fs` iff `fs` is a non-empty list of colon-free fields whose
`strings.Join(·, ":")` is `s` -/
theorem splitColon_iff (s : Bytes) (fs : List Bytes) :
    splitColon s = fs ↔ s = List.intercalate [bColon] fs ∧ (∀ f ∈ fs, bColon ∉ f) ∧ fs ≠ [] := by
  rw [← joinColon_eq_intercalate]
  constructor
  · intro h
    subst h
    exact ⟨(splitColon_spec s).1, (splitColon_spec s).2, splitColon_ne_nil s⟩
  · rintro ⟨h1, h2, h3⟩
    subst h1
    exact splitColon_joinColon fs h3 h2

theorem splitColon_two (s f0 f1 : Bytes) :
    splitColon s = [f0, f1] ↔ s = f0 ++ [bColon] ++ f1 ∧ bColon ∉ f0 ∧ bColon ∉ f1 := by
  rw [splitColon_iff, ← joinColon_eq_intercalate]
  simp [joinColon]

theorem splitColon_three (s f0 f1 f2 : Bytes) :
    splitColon s = [f0, f1, f2] ↔
      s = f0 ++ [bColon] ++ f1 ++ [bColon] ++ f2 ∧ bColon ∉ f0 ∧ bColon ∉ f1 ∧ bColon ∉ f2 := by
  rw [splitColon_iff, ← joinColon_eq_intercalate]
  simp [joinColon]

/-! ## Constructors -/

theorem mkFixed_iff (d : Int) (b : Backoff) : mkFixed d = some b ↔ 0 ≤ d ∧ b = .fixed d := by
  unfold mkFixed
  by_cases h : d ≥ 0
  · rw [if_pos h]
    exact ⟨fun e => ⟨h, (Option.some.inj e).symm⟩, fun e => by rw [e.2]⟩
  · rw [if_neg h]
    exact ⟨fun e => (by cases e), fun e => absurd e.1 h⟩

theorem mkRandom_iff (lo hi : Int) (b : Backoff) :
    mkRandom lo hi = some b ↔ 0 ≤ lo ∧ lo ≤ hi ∧ b = .random lo hi := by
  unfold mkRandom
  by_cases h1 : lo < 0
  · rw [if_pos h1]
    exact ⟨fun e => (by cases e), fun e => by omega⟩
  · rw [if_neg h1]
    by_cases h2 : lo > hi
    · rw [if_pos h2]
      exact ⟨fun e => (by cases e), fun e => by omega⟩
    · rw [if_neg h2]
      exact ⟨fun e => ⟨by omega, by omega, (Option.some.inj e).symm⟩, fun e => by rw [e.2.2]⟩

theorem mkExpo_iff (i m : Int) (mu : F64) (b : Backoff) :
    mkExpo i m mu = some b ↔ F64.lt F64.one mu = true ∧ 0 ≤ i ∧ i ≤ m ∧ b = .expo i m mu := by
  unfold mkExpo
  by_cases h0 : F64.lt F64.one mu = true
  · simp only [h0, Bool.not_true, Bool.false_eq_true, if_false, true_and]
    by_cases h1 : i < 0
    · rw [if_pos h1]
      exact ⟨fun e => (by cases e), fun e => by omega⟩
    · rw [if_neg h1]
      by_cases h2 : i > m
      · rw [if_pos h2]
        exact ⟨fun e => (by cases e), fun e => by omega⟩
      · rw [if_neg h2]
        exact ⟨fun e => ⟨by omega, by omega, (Option.some.inj e).symm⟩, fun e => by rw [e.2.2]⟩
  · have h0' : F64.lt F64.one mu = false := by simpa using h0
    simp [h0']

theorem floatField_iff (pf : Option F64) (f : Bytes) (mu : F64) :
    (if f = [] then some defaultMult else pf) = some mu ↔ FloatField pf f mu := by
  unfold FloatField
  by_cases hf : f = []
  · rw [if_pos hf]
    exact ⟨fun e => Or.inl ⟨hf, (Option.some.inj e).symm⟩,
      fun e => e.elim (fun e => by rw [e.2]) (fun e => absurd hf e.1)⟩
  · rw [if_neg hf]
    exact ⟨fun e => Or.inr ⟨hf, e⟩, fun e => e.elim (fun e => absurd e.1 hf) (fun e => e.2)⟩

/-! ## The keys -/

theorem kFixed_noEq : bEq ∉ kFixed := by decide
theorem kRandom_noEq : bEq ∉ kRandom := by decide
theorem kExpo_noEq : bEq ∉ kExpo := by decide

/-! ## On a syntactically well-formed specification the parser IS the constructor

These three equations hold whether or not the constructor accepts the numbers: for a string of the
right shape, `parse` returns exactly what `mkFixed` / `mkRandom` / `mkExpo` returns on the numbers
the fields denote (success and validation failure alike). -/

theorem parse_fixed (pf : Option F64) (f : Bytes) (d : Int) (hf : IntField f 200 d) :
    parse pf (kFixed ++ [bEq] ++ f) = mkFixed d := by
  unfold parse
  rw [splitEq_append _ _ kFixed_noEq]
  have n1 : kFixed ≠ kExpo := by decide
  simp only [if_neg n1, if_true]
  have : intField f defaultDelay = some d := (intField_iff _ _ _).2 hf
  rw [this]

theorem parse_random (pf : Option F64) (f0 f1 : Bytes) (lo hi : Int)
    (c0 : NoByte bColon f0) (c1 : NoByte bColon f1)
    (h0 : IntField f0 0 lo) (h1 : IntField f1 10000 hi) :
    parse pf (kRandom ++ [bEq] ++ f0 ++ [bColon] ++ f1) = mkRandom lo hi := by
  have e : kRandom ++ [bEq] ++ f0 ++ [bColon] ++ f1 = kRandom ++ [bEq] ++ (f0 ++ [bColon] ++ f1) := by
    simp [List.append_assoc]
  rw [e]
  unfold parse
  rw [splitEq_append _ _ kRandom_noEq]
  have n1 : kRandom ≠ kExpo := by decide
  have n2 : kRandom ≠ kFixed := by decide
  simp only [if_neg n1, if_neg n2, if_true]
  rw [(splitColon_two _ _ _).2 ⟨rfl, c0, c1⟩]
  have a0 : intField f0 defaultMin = some lo := (intField_iff _ _ _).2 h0
  have a1 : intField f1 defaultMax = some hi := (intField_iff _ _ _).2 h1
  simp only [a0, a1]

theorem parse_expo (pf : Option F64) (f0 f1 f2 : Bytes) (i m : Int) (mu : F64)
    (c0 : NoByte bColon f0) (c1 : NoByte bColon f1) (c2 : NoByte bColon f2)
    (h0 : IntField f0 200 i) (h1 : IntField f1 10000 m) (h2 : FloatField pf f2 mu) :
    parse pf (kExpo ++ [bEq] ++ f0 ++ [bColon] ++ f1 ++ [bColon] ++ f2) = mkExpo i m mu := by
  have e : kExpo ++ [bEq] ++ f0 ++ [bColon] ++ f1 ++ [bColon] ++ f2
      = kExpo ++ [bEq] ++ (f0 ++ [bColon] ++ f1 ++ [bColon] ++ f2) := by
    simp [List.append_assoc]
  rw [e]
  unfold parse
  rw [splitEq_append _ _ kExpo_noEq]
  simp only [if_true]
  rw [(splitColon_three _ _ _ _).2 ⟨rfl, c0, c1, c2⟩]
  have a0 : intField f0 defaultInitial = some i := (intField_iff _ _ _).2 h0
  have a1 : intField f1 defaultMax = some m := (intField_iff _ _ _).2 h1
  have a2 := (floatField_iff _ _ _).2 h2
  simp only [a0, a1, a2]

/-! ## Main theorem -/

/-- the parser accepts exactly the grammar, with exactly the denoted back-off -/
theorem parse_iff_grammar (pf : Option F64) (s : Bytes) (b : Backoff) :
    parse pf s = some b ↔ InGrammar pf s b := by
  constructor
  · intro h
    unfold parse at h
    split at h
    · cases h
    · rename_i key values hs
      obtain ⟨hs, -⟩ := splitEq_some hs
      subst hs
      split at h
      · -- exponential
        rename_i hk
        subst hk
        split at h
        · rename_i f0 f1 f2 hsp
          obtain ⟨hv, c0, c1, c2⟩ := (splitColon_three _ _ _ _).1 hsp
          subst hv
          split at h
          · cases h
          · rename_i i hi
            split at h
            · cases h
            · rename_i m hm
              split at h
              · cases h
              · rename_i mu hmu
                obtain ⟨g0, g1, g2, g3⟩ := (mkExpo_iff _ _ _ _).1 h
                subst g3
                have := InGrammar.expo (pf := pf) f0 f1 f2 i m mu c0 c1 c2
                  ((intField_iff _ _ _).1 hi) ((intField_iff _ _ _).1 hm)
                  ((floatField_iff _ _ _).1 hmu) g0 g1 g2
                simpa [List.append_assoc] using this
        · cases h
      · split at h
        · -- fixed
          rename_i _ hk
          subst hk
          split at h
          · cases h
          · rename_i d hd
            obtain ⟨g0, g1⟩ := (mkFixed_iff _ _).1 h
            subst g1
            exact InGrammar.fixed values d ((intField_iff _ _ _).1 hd) g0
        · split at h
          · -- random
            rename_i _ _ hk
            subst hk
            split at h
            · rename_i f0 f1 hsp
              obtain ⟨hv, c0, c1⟩ := (splitColon_two _ _ _).1 hsp
              subst hv
              split at h
              · cases h
              · rename_i lo hlo
                split at h
                · cases h
                · rename_i hi hhi
                  obtain ⟨g0, g1, g2⟩ := (mkRandom_iff _ _ _).1 h
                  subst g2
                  have := InGrammar.random (pf := pf) f0 f1 lo hi c0 c1
                    ((intField_iff _ _ _).1 hlo) ((intField_iff _ _ _).1 hhi) g0 g1
                  simpa [List.append_assoc] using this
            · cases h
          · cases h
  · intro h
    cases h with
    | fixed f d hf hd =>
      rw [parse_fixed pf f d hf]
      exact (mkFixed_iff _ _).2 ⟨hd, rfl⟩
    | random f0 f1 lo hi c0 c1 h0 h1 g0 g1 =>
      rw [parse_random pf f0 f1 lo hi c0 c1 h0 h1]
      exact (mkRandom_iff _ _ _).2 ⟨g0, g1, rfl⟩
    | expo f0 f1 f2 i m mu c0 c1 c2 h0 h1 h2 g0 g1 g2 =>
      rw [parse_expo pf f0 f1 f2 i m mu c0 c1 c2 h0 h1 h2]
      exact (mkExpo_iff _ _ _ _).2 ⟨g0, g1, g2, rfl⟩

/-- everything outside the grammar is rejected (with an error: `none`) -/
theorem parse_fails_otherwise (pf : Option F64) (s : Bytes) (h : ¬ ∃ b, InGrammar pf s b) :
    parse pf s = none := by
  cases e : parse pf s with
  | none => rfl
  | some b => exact absurd ⟨b, (parse_iff_grammar pf s b).1 e⟩ h

/-- a specification denotes at most one back-off -/
theorem InGrammar.unique {pf : Option F64} {s : Bytes} {b b' : Backoff}
    (h : InGrammar pf s b) (h' : InGrammar pf s b') : b = b' := by
  have a := (parse_iff_grammar pf s b).2 h
  have a' := (parse_iff_grammar pf s b').2 h'
  rw [a] at a'
  exact Option.some.inj a'

/-- membership in the grammar is decidable (by running the parser) -/
instance (pf : Option F64) (s : Bytes) (b : Backoff) : Decidable (InGrammar pf s b) :=
  decidable_of_iff _ (parse_iff_grammar pf s b)

end Garr.SpecParse
