/-!
# Generic small-step machines for concurrent objects

Unboundedly many threads (`Tid = Nat`); a thread in `idle` may start any operation (an `Act`), so
`Reach` covers all client programs and all schedules.  `inv_of_reach` is the invariant rule.
-/
namespace Garr.Conc

abbrev Tid := Nat

structure Machine where
  G : Type      -- shared state (heap, published pointers, ghost history)
  L : Type      -- one thread's local state: program counter + locals
  Act : Type    -- external choice for this step (which call to start, a random value, a tick, …)
  Obs : Type    -- what the step makes observable (response, linearization-point marker, …)
  init : G
  idle : L
  step : Tid → G → L → Act → Option (G × L × List Obs)   -- `none` = not enabled

structure Config (M : Machine) where
  g : M.G
  l : Tid → M.L

def Config.init (M : Machine) : Config M := ⟨M.init, fun _ => M.idle⟩

def upd {α : Type} (f : Tid → α) (t : Tid) (v : α) : Tid → α := fun u => if u = t then v else f u

@[simp] theorem upd_same {α} (f : Tid → α) (t : Tid) (v : α) : upd f t v t = v := by simp [upd]
@[simp] theorem upd_other {α} (f : Tid → α) (t u : Tid) (v : α) (h : u ≠ t) : upd f t v u = f u := by simp [upd, h]

/-- reachability: closed under any thread taking any enabled step -/
inductive Reach (M : Machine) : Config M → Prop
  | init : Reach M (Config.init M)
  | step {c t a g' l' obs} : Reach M c → M.step t c.g (c.l t) a = some (g', l', obs) →
      Reach M ⟨g', upd c.l t l'⟩

theorem inv_of_reach (M : Machine) (Inv : Config M → Prop)
    (h0 : Inv (Config.init M))
    (hs : ∀ c t a g' l' obs, Inv c → M.step t c.g (c.l t) a = some (g', l', obs) → Inv ⟨g', upd c.l t l'⟩) :
    ∀ c, Reach M c → Inv c := by
  intro c h
  induction h with
  | init => exact h0
  | step _ hstep ih => exact hs _ _ _ _ _ _ ih hstep

/-- run a schedule from a configuration; disabled steps are skipped. Returns the final
configuration and the observation log (oldest first), each entry tagged with its thread. -/
def run (M : Machine) : Config M → List (Tid × M.Act) → Config M × List (Tid × M.Obs)
  | c, [] => (c, [])
  | c, (t, a) :: rest =>
    match M.step t c.g (c.l t) a with
    | none => run M c rest
    | some (g', l', obs) =>
      let r := run M ⟨g', upd c.l t l'⟩ rest
      (r.1, obs.map (fun o => (t, o)) ++ r.2)

theorem reach_run (M : Machine) (c : Config M) (h : Reach M c) (s : List (Tid × M.Act)) :
    Reach M (run M c s).1 := by
  induction s generalizing c with
  | nil => exact h
  | cons ta rest ih =>
    obtain ⟨t, a⟩ := ta
    simp only [run]
    split
    · exact ih c h
    · rename_i g' l' obs hstep
      exact ih _ (Reach.step h hstep)

end Garr.Conc
