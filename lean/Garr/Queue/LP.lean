import Garr.Queue.Inv
/-!
# Linearization points of the lock-free queue model: forward simulation and LP discipline

* `absP`/`absS`: the abstract state (content with stable handles = node positions, next handle).
* `specApply`: the sequential specification (FIFO queue + handle-based `removeAt`).
* `step_refines`: every step without LP marker leaves the abstract state unchanged; a step with an
  LP marker acts on the abstract state exactly as `specApply` does for the operation the acting
  thread is executing (`curOp`), with the result recorded in the marker.
* `disc_idle`/`disc_pending`/`disc_done`: per-thread control-flow discipline: each specification
  operation emits exactly one LP marker, in one of its own steps between invocation and
  response, and responds with the result recorded there.
* corollaries `poll_takes_head`, `empty_only_if_empty`, `offer_appends`.
-/
namespace Garr.Queue
open Garr.Conc

/-! ## Abstract state -/

/-- positions of the live nodes, in link order -/
def liveIdx (n : Nat) (live : Nat → Bool) : List Nat := (List.range n).filter live

/-- abstract content: (position, value) of the live nodes in link order -/
def absP (g : G) : List (Nat × Nat) := (liveIdx g.n g.live).map (fun i => (i, g.val i))

/-- specification state: content + number of nodes ever linked (the next handle) -/
structure SpecSt where
  items : List (Nat × Nat)
  next : Nat

def absS (g : G) : SpecSt := ⟨absP g, g.n⟩

inductive Op | offer (v : Nat) | poll | peek | isEmpty | removeAt (pos : Nat)
deriving DecidableEq, Repr

/-- the sequential specification: a FIFO queue whose elements carry stable handles -/
def specApply (s : SpecSt) : Op → SpecSt × Ret
  | .offer v => (⟨s.items ++ [(s.next, v)], s.next + 1⟩, .unit)
  | .poll =>
    match s.items with
    | [] => (s, .nil)
    | (_, v) :: q => (⟨q, s.next⟩, .val v)
  | .peek =>
    match s.items with
    | [] => (s, .nil)
    | (_, v) :: _ => (s, .val v)
  | .isEmpty => (s, .bool (decide (s.items = [])))
  | .removeAt p => (⟨s.items.filter (fun x => x.1 ≠ p), s.next⟩, .unit)

/-! ### `liveIdx` / `absP` lemmas -/

theorem liveIdx_congr {n : Nat} {l1 l2 : Nat → Bool} (h : ∀ k, k < n → l1 k = l2 k) :
    liveIdx n l1 = liveIdx n l2 := by
  unfold liveIdx
  apply List.filter_congr
  intro x hx
  exact h x (List.mem_range.mp hx)

theorem liveIdx_all_dead {n : Nat} {l : Nat → Bool} (h : ∀ k, k < n → l k = false) : liveIdx n l = [] := by
  unfold liveIdx
  rw [List.filter_eq_nil_iff]
  intro x hx
  simp [h x (List.mem_range.mp hx)]

theorem liveIdx_succ (n : Nat) (l : Nat → Bool) :
    liveIdx (n+1) l = liveIdx n l ++ (if l n then [n] else []) := by
  unfold liveIdx
  rw [List.range_succ, List.filter_append]
  simp [List.filter]
  split <;> simp_all

theorem mem_liveIdx {n : Nat} {l : Nat → Bool} {x : Nat} (h : x ∈ liveIdx n l) : x < n ∧ l x = true := by
  have := List.mem_filter.mp h
  exact ⟨List.mem_range.mp this.1, this.2⟩

/-- removing the first live index -/
theorem liveIdx_kill_first (n : Nat) (l : Nat → Bool) (p : Nat) (hp : p < n)
    (hd : ∀ k, k < p → l k = false) (hl : l p = true) :
    liveIdx n l = p :: liveIdx n (fun j => if j = p then false else l j) := by
  induction n with
  | zero => omega
  | succ n ih =>
    rw [liveIdx_succ, liveIdx_succ]
    by_cases hpn : p = n
    · subst hpn
      have h1 : liveIdx p l = [] := liveIdx_all_dead hd
      have h2 : liveIdx p (fun j => if j = p then false else l j) = [] :=
        liveIdx_all_dead (fun k hk => by simp [hd k hk])
      rw [h1, h2]; simp [hl]
    · have := ih (by omega)
      rw [this]
      have hne : n ≠ p := fun h => hpn h.symm
      simp [hne]

/-- linking appends `(g.n, v)` -/
theorem absP_link (g : G) (p v : Nat) : absP (link g p v) = absP g ++ [(g.n, v)] := by
  unfold absP
  simp only [link]
  rw [liveIdx_succ]
  simp only [ite_true, List.map_append, List.map_cons, List.map_nil]
  have h1 : liveIdx g.n (fun j => if j = g.n then true else g.live j) = liveIdx g.n g.live :=
    liveIdx_congr (fun k hk => by have : k ≠ g.n := by omega
                                  simp [this])
  rw [h1]
  congr 1
  apply List.map_congr_left
  intro x hx
  have : x ≠ g.n := by have := (mem_liveIdx hx).1; omega
  simp [this]

/-- killing the first live node removes the head of the content -/
theorem absP_kill_first (g : G) (p : Nat) (hp : p < g.n) (hd : deadBelow g p) (hl : g.live p = true) :
    absP g = (p, g.val p) :: absP (kill g p) := by
  unfold absP kill
  simp only
  rw [liveIdx_kill_first g.n g.live p hp hd hl]
  simp

theorem absP_empty_of_dead (g : G) (h : deadBelow g g.n) : absP g = [] := by
  unfold absP; rw [liveIdx_all_dead h]; rfl

/-- killing node `l` removes exactly the element with handle `l` (if present) -/
theorem absP_kill (g : G) (l : Nat) : absP (kill g l) = (absP g).filter (fun x => x.1 ≠ l) := by
  unfold absP liveIdx kill
  simp only [List.filter_map, List.filter_filter]
  congr 1
  apply List.filter_congr
  intro x _
  by_cases hx : x = l <;> simp [hx]

theorem absP_head (g : G) (t : Nat) : absP { g with head := t } = absP g := rfl
theorem absP_tail (g : G) (t : Nat) : absP { g with tail := t } = absP g := rfl
theorem absP_setNext (g : G) (i : Nat) (x : Option Nat) : absP (setNext g i x) = absP g := rfl

/-- relation to the value-only abstraction `abs` of `Model.lean` -/
theorem absFrom_eq (g : G) (i k : Nat) :
    absFrom g i k = ((List.range' i k).filter g.live).map g.val := by
  induction k generalizing i with
  | zero => rfl
  | succ k ih =>
    rw [absFrom, List.range'_succ, List.filter_cons, ih]
    split <;> simp

theorem abs_eq_absP (g : G) : abs g = (absP g).map (·.2) := by
  unfold abs absP liveIdx
  rw [absFrom_eq, List.range_eq_range', List.map_map]
  rfl

/-! ## Which specification operation a thread is executing; what a marker records -/

/-- the specification operation a `first()`-traversal in mode `m` belongs to -/
def modeOp : Mode → Option Op
  | .peek => some .peek
  | .isEmpty => some .isEmpty
  | .size => none
  | .iter => none

/-- the specification operation a thread in local state `l` is executing (while its LP has not happened) -/
def curOp : L → Option Op
  | .o0 v => some (.offer v)
  | .o1 v _ _ => some (.offer v)
  | .o2 v _ _ => some (.offer v)
  | .o4 v _ _ => some (.offer v)
  | .o4b v _ => some (.offer v)
  | .o5 v _ _ _ => some (.offer v)
  | .p0 => some .poll
  | .p1 _ _ => some .poll
  | .p2 _ _ => some .poll
  | .p4 _ _ => some .poll
  | .k0 m => modeOp m
  | .k1 m _ _ => modeOp m
  | .k2 m _ _ => modeOp m
  | .r0 _ l => some (.removeAt l)
  | _ => none

/-- result carried by an LP marker -/
def lpRet : Obs → Option Ret
  | .lpOffer _ => some .unit
  | .lpPoll r => some r
  | .lpPeek r => some r
  | .lpEmpty b => some (.bool b)
  | .lpRemove _ _ => some .unit
  | .itNext _ _ => none
  | .ret _ => none
  | .retAux _ => none

/-- operation and result recorded by an LP marker -/
def lpInfo : Obs → Option (Op × Ret)
  | .lpOffer v => some (.offer v, .unit)
  | .lpPoll r => some (.poll, r)
  | .lpPeek r => some (.peek, r)
  | .lpEmpty b => some (.isEmpty, .bool b)
  | .lpRemove p _ => some (.removeAt p, .unit)
  | .itNext _ _ => none
  | .ret _ => none
  | .retAux _ => none

theorem lpRet_eq (o : Obs) : lpRet o = (lpInfo o).map (·.2) := by cases o <;> rfl

theorem filterMap_lpRet (obs : List Obs) : obs.filterMap lpRet = (obs.filterMap lpInfo).map (·.2) := by
  rw [List.map_filterMap]
  congr 1
  funext o
  exact lpRet_eq o

theorem finish_lp (k : Cont) : (finish k).2.filterMap lpInfo = [] := by
  cases k with
  | ret r => rfl
  | size p => cases p <;> rfl
  | iter it => rfl

theorem goUpd_lp (h tgt : Nat) (k : Cont) : (goUpd h tgt k).2.filterMap lpInfo = [] := by
  unfold goUpd; split
  · exact finish_lp k
  · rfl

/-! ## The specification steps taken at the linearization points -/

theorem spec_offer (g : G) (p v : Nat) : specApply (absS g) (.offer v) = (absS (link g p v), .unit) := by
  simp only [specApply, absS, absP_link]
  rfl

theorem spec_poll_val (g : G) (p : Nat) (hp : p < g.n) (hd : deadBelow g p) (hl : g.live p = true) :
    specApply (absS g) .poll = (absS (kill g p), .val (g.val p)) := by
  simp [specApply, absS, absP_kill_first g p hp hd hl, kill]

theorem spec_poll_nil (g : G) (he : absP g = []) : specApply (absS g) .poll = (absS g, .nil) := by
  simp [specApply, absS, he]

theorem spec_peek_val (g : G) (p : Nat) (hp : p < g.n) (hd : deadBelow g p) (hl : g.live p = true) :
    specApply (absS g) .peek = (absS g, .val (g.val p)) := by
  simp [specApply, absS, absP_kill_first g p hp hd hl]

theorem spec_peek_nil (g : G) (he : absP g = []) : specApply (absS g) .peek = (absS g, .nil) := by
  simp [specApply, absS, he]

theorem spec_empty_false (g : G) (p : Nat) (hp : p < g.n) (hd : deadBelow g p) (hl : g.live p = true) :
    specApply (absS g) .isEmpty = (absS g, .bool false) := by
  simp [specApply, absS, absP_kill_first g p hp hd hl]

theorem spec_empty_true (g : G) (he : absP g = []) : specApply (absS g) .isEmpty = (absS g, .bool true) := by
  simp [specApply, absS, he]

theorem spec_remove (g : G) (l : Nat) : specApply (absS g) (.removeAt l) = (absS (kill g l), .unit) := by
  simp only [specApply, absS, absP_kill]
  rfl

/-- a traversal that reaches the last node with everything up to it dead has seen an empty queue -/
theorem absP_nil_of_last {g : G} (hG : GInv g) {p : Nat} (hp : p < g.n) (hd : deadBelow g (p+1))
    (hn : g.next p = none) : absP g = [] := by
  have hlast : p + 1 = g.n := (hG.last p hp).1 hn
  exact absP_empty_of_dead g (by rw [← hlast]; exact hd)

/-! ## Forward simulation at the linearization points -/

set_option hygiene false in
/-- close a goal of `step_refines_op` for a step that has no marker and does not touch the content -/
local macro "silent" : tactic =>
  `(tactic| (simp at hs; obtain ⟨rfl, rfl, rfl⟩ := hs; exact Or.inl ⟨rfl, rfl⟩))

/-- strong form of `step_refines`: the marker also names the operation the thread is executing -/
theorem step_refines_op {t : Tid} {g g' : G} {l l' : L} {a : Act} {obs : List Obs}
    (hG : GInv g) (hL : LInv g l) (hs : step t g l a = some (g', l', obs)) :
    (obs.filterMap lpInfo = [] ∧ absS g' = absS g) ∨
    (∃ op r, obs.filterMap lpInfo = [(op, r)] ∧ curOp l = some op ∧ specApply (absS g) op = (absS g', r)) := by
  cases l <;> cases a <;> simp only [step] at hs <;> try contradiction
  all_goals simp only [LInv] at hL
  all_goals try (silent; done)
  case o1.tau =>
    split at hs
    · silent
    · split at hs
      · silent
      · split at hs <;> silent
  case o2.tau =>
    rename_i v t p
    split at hs
    · have hsp := spec_offer g p v
      split at hs <;>
        (simp at hs; obtain ⟨rfl, rfl, rfl⟩ := hs; exact Or.inr ⟨.offer v, .unit, rfl, rfl, hsp⟩)
    · silent
  case o3.tau =>
    simp at hs; obtain ⟨rfl, rfl, rfl⟩ := hs
    split <;> exact Or.inl ⟨rfl, rfl⟩
  case o4.tau => split at hs <;> silent
  case o5.tau => split at hs <;> silent
  case p1.tau => split at hs <;> silent
  case p2.tau =>
    rename_i h p
    split at hs
    · rename_i hlive
      have hsp := spec_poll_val g p hL.2.1 hL.2.2 hlive
      split at hs <;>
        (simp at hs; obtain ⟨rfl, rfl, rfl⟩ := hs; exact Or.inr ⟨.poll, _, rfl, rfl, hsp⟩)
    · silent
  case p3.tau =>
    split at hs <;> (simp at hs; obtain ⟨rfl, _, rfl⟩ := hs; exact Or.inl ⟨goUpd_lp _ _ _, rfl⟩)
  case p4.tau =>
    rename_i h p
    split at hs
    · rename_i hnil
      simp at hs; obtain ⟨rfl, _, rfl⟩ := hs
      have he := absP_nil_of_last hG hL.2.1 hL.2.2 hnil
      refine Or.inr ⟨.poll, .nil, ?_, rfl, spec_poll_nil g he⟩
      simp [lpInfo, goUpd_lp]
    · split at hs <;> silent
  case k1.tau =>
    rename_i m h p
    split at hs
    · rename_i hlive
      cases m <;> simp only [foundLive] at hs <;> (simp at hs; obtain ⟨rfl, _, rfl⟩ := hs)
      · refine Or.inr ⟨.peek, _, ?_, rfl, spec_peek_val g p hL.2.1 hL.2.2 hlive⟩
        simp [lpInfo, goUpd_lp]
      · refine Or.inr ⟨.isEmpty, _, ?_, rfl, spec_empty_false g p hL.2.1 hL.2.2 hlive⟩
        simp [lpInfo, goUpd_lp]
      · exact Or.inl ⟨by simp [goUpd_lp], rfl⟩
      · exact Or.inl ⟨by simp [goUpd_lp], rfl⟩
    · silent
  case k2.tau =>
    rename_i m h p
    split at hs
    · rename_i hnil
      have he := absP_nil_of_last hG hL.2.1 hL.2.2 hnil
      cases m <;> simp only [foundNone] at hs <;> (simp at hs; obtain ⟨rfl, _, rfl⟩ := hs)
      · refine Or.inr ⟨.peek, _, ?_, rfl, spec_peek_nil g he⟩
        simp [lpInfo, goUpd_lp]
      · refine Or.inr ⟨.isEmpty, _, ?_, rfl, spec_empty_true g he⟩
        simp [lpInfo, goUpd_lp]
      · exact Or.inl ⟨by simp [goUpd_lp], rfl⟩
      · exact Or.inl ⟨by simp [goUpd_lp], rfl⟩
    · split at hs <;> silent
  case u1.tau =>
    split at hs
    · silent
    · simp at hs; obtain ⟨rfl, _, rfl⟩ := hs; exact Or.inl ⟨finish_lp _, rfl⟩
  case u2.tau =>
    simp at hs; obtain ⟨rfl, _, rfl⟩ := hs; exact Or.inl ⟨finish_lp _, rfl⟩
  case s1.tau =>
    split at hs
    · split at hs <;> silent
    · silent
  case s2.tau =>
    split at hs
    · silent
    · split at hs <;> silent
  case idleIt.next => split at hs <;> silent
  case n0.tau =>
    split at hs
    · silent
    · split at hs <;> silent
  case n1.tau => split at hs <;> silent
  case n2.tau =>
    split at hs
    · silent
    · split at hs <;> silent
  case n3.tau =>
    simp at hs; obtain ⟨rfl, rfl, rfl⟩ := hs
    split <;> exact Or.inl ⟨rfl, rfl⟩
  case idleIt.remove => split at hs <;> silent
  case r0.tau =>
    rename_i it l
    simp at hs; obtain ⟨rfl, rfl, rfl⟩ := hs
    exact Or.inr ⟨.removeAt l, .unit, rfl, rfl, spec_remove g l⟩

/-- **Forward simulation at the linearization points.**  A step without LP marker leaves the
abstract state unchanged; a step with a marker carrying result `r` acts on the abstract state
exactly as the sequential specification does for the operation the thread is executing, with
result `r`. -/
theorem step_refines {t : Tid} {g g' : G} {l l' : L} {a : Act} {obs : List Obs}
    (hG : GInv g) (hL : LInv g l) (hs : step t g l a = some (g', l', obs)) :
    (obs.filterMap lpRet = [] ∧ absS g' = absS g) ∨
    (∃ r op, obs.filterMap lpRet = [r] ∧ curOp l = some op ∧ specApply (absS g) op = (absS g', r)) := by
  rw [filterMap_lpRet]
  rcases step_refines_op hG hL hs with ⟨h1, h2⟩ | ⟨op, r, h1, h2, h3⟩
  · exact Or.inl ⟨by rw [h1]; rfl, h2⟩
  · exact Or.inr ⟨r, op, by rw [h1]; rfl, h2, h3⟩

/-- every LP marker of a step belongs to the operation the thread is executing, and the step acts
as that operation on the abstract state -/
theorem marker_spec {t : Tid} {g g' : G} {l l' : L} {a : Act} {obs : List Obs}
    (hG : GInv g) (hL : LInv g l) (hs : step t g l a = some (g', l', obs))
    {m : Obs} {op : Op} {r : Ret} (hm : m ∈ obs) (hi : lpInfo m = some (op, r)) :
    curOp l = some op ∧ specApply (absS g) op = (absS g', r) := by
  have hmem : (op, r) ∈ obs.filterMap lpInfo := List.mem_filterMap.mpr ⟨m, hm, hi⟩
  rcases step_refines_op hG hL hs with ⟨h1, _⟩ | ⟨op', r', h1, h2, h3⟩
  · rw [h1] at hmem; cases hmem
  · rw [h1] at hmem
    simp only [List.mem_singleton, Prod.mk.injEq] at hmem
    obtain ⟨rfl, rfl⟩ := hmem
    exact ⟨h2, h3⟩

/-! ## Corollaries -/

theorem spec_poll_val_inv {s s' : SpecSt} {v : Nat} (h : specApply s .poll = (s', .val v)) :
    ∃ p, s.items = (p, v) :: s'.items := by
  simp only [specApply] at h
  split at h
  · simp at h
  · rename_i p w q heq
    simp at h
    obtain ⟨rfl, rfl⟩ := h
    exact ⟨p, heq⟩

theorem spec_poll_nil_inv {s s' : SpecSt} (h : specApply s .poll = (s', .nil)) : s.items = [] := by
  simp only [specApply] at h
  split at h
  · assumption
  · simp at h

theorem spec_peek_nil_inv {s s' : SpecSt} (h : specApply s .peek = (s', .nil)) : s.items = [] := by
  simp only [specApply] at h
  split at h
  · assumption
  · simp at h

theorem spec_empty_true_inv {s s' : SpecSt} (h : specApply s .isEmpty = (s', .bool true)) : s.items = [] := by
  simp [specApply] at h
  exact h.2

/-- a successful `Poll` takes the head of the abstract queue -/
theorem poll_takes_head {t : Tid} {g g' : G} {l l' : L} {a : Act} {obs : List Obs}
    (hG : GInv g) (hL : LInv g l) (hs : step t g l a = some (g', l', obs))
    {v : Nat} (hm : Obs.lpPoll (.val v) ∈ obs) : ∃ p, absP g = (p, v) :: absP g' :=
  spec_poll_val_inv (marker_spec hG hL hs hm rfl).2

/-- `Poll`/`Peek` return nil and `IsEmpty` returns true only if the abstract queue is empty at the LP -/
theorem empty_only_if_empty {t : Tid} {g g' : G} {l l' : L} {a : Act} {obs : List Obs}
    (hG : GInv g) (hL : LInv g l) (hs : step t g l a = some (g', l', obs))
    (hm : Obs.lpPoll .nil ∈ obs ∨ Obs.lpPeek .nil ∈ obs ∨ Obs.lpEmpty true ∈ obs) : absP g = [] := by
  rcases hm with hm | hm | hm
  · exact spec_poll_nil_inv (marker_spec hG hL hs hm rfl).2
  · exact spec_peek_nil_inv (marker_spec hG hL hs hm rfl).2
  · exact spec_empty_true_inv (marker_spec hG hL hs hm rfl).2

/-- `Offer(v)` appends `v` (with the fresh handle `g.n`) at the end of the abstract queue -/
theorem offer_appends {t : Tid} {g g' : G} {l l' : L} {a : Act} {obs : List Obs}
    (hG : GInv g) (hL : LInv g l) (hs : step t g l a = some (g', l', obs))
    {v : Nat} (hm : Obs.lpOffer v ∈ obs) : absP g' = absP g ++ [(g.n, v)] := by
  have h := (marker_spec hG hL hs hm rfl).2
  simp only [specApply, absS, Prod.mk.injEq, SpecSt.mk.injEq] at h
  exact h.1.1.symm

/-! ## Response equals LP result: the per-thread LP discipline -/

def contRet : Cont → Option Ret
  | .ret r => some r
  | _ => none

/-- the result fixed at the LP that the thread will return (for local states after the LP, before the response) -/
def doneRet : L → Option Ret
  | .o3 _ _ => some .unit
  | .p3 _ _ v => some (.val v)
  | .u1 _ _ k => contRet k
  | .u2 _ k => contRet k
  | _ => none

def retOf : Obs → Option Ret
  | .ret r => some r
  | .lpOffer _ => none
  | .lpPoll _ => none
  | .lpPeek _ => none
  | .lpEmpty _ => none
  | .lpRemove _ _ => none
  | .itNext _ _ => none
  | .retAux _ => none

/-- the responses (of specification operations) among the observations of a step -/
def rets (obs : List Obs) : List Ret := obs.filterMap retOf

/-- the specification operation invoked by taking action `a` in local state `l` (if any) -/
def invOp : L → Act → Option Op
  | .idle, .offer v => some (.offer v)
  | .idle, .poll => some .poll
  | .idle, .peek => some .peek
  | .idle, .isEmpty => some .isEmpty
  | .idleIt it, .remove => it.lastRet.map .removeAt
  | _, _ => none

/-- the invocations of specification operations: `Offer`/`Poll`/`Peek`/`IsEmpty` from `idle`, and an
effective iterator `Remove` (one with a `lastRet` target) from `idleIt` -/
theorem invOp_eq_some {l : L} {a : Act} {op : Op} : invOp l a = some op ↔
    (l = .idle ∧ ((∃ v, a = .offer v ∧ op = .offer v) ∨ (a = .poll ∧ op = .poll) ∨
      (a = .peek ∧ op = .peek) ∨ (a = .isEmpty ∧ op = .isEmpty))) ∨
    (∃ it p, l = .idleIt it ∧ a = .remove ∧ it.lastRet = some p ∧ op = .removeAt p) := by
  cases l <;> cases a <;> simp [invOp, eq_comm]

theorem doneRet_none_of_curOp {l : L} {op : Op} (h : curOp l = some op) : doneRet l = none := by
  cases l <;> first | rfl | (simp [curOp] at h)

/-- a classified observation: LP marker (with the result fixed there) or response -/
inductive Mark | lp (r : Ret) | res (r : Ret)
deriving DecidableEq, Repr

def markOf : Obs → Option Mark
  | .lpOffer _ => some (.lp .unit)
  | .lpPoll r => some (.lp r)
  | .lpPeek r => some (.lp r)
  | .lpEmpty b => some (.lp (.bool b))
  | .lpRemove _ _ => some (.lp .unit)
  | .ret r => some (.res r)
  | .itNext _ _ => none
  | .retAux _ => none

/-- the LP markers and responses among the observations of a step, in order -/
def marks (obs : List Obs) : List Mark := obs.filterMap markOf

def Mark.lp? : Mark → Option Ret
  | .lp r => some r
  | .res _ => none

def Mark.res? : Mark → Option Ret
  | .lp _ => none
  | .res r => some r

theorem markOf_lp (o : Obs) : (markOf o).bind Mark.lp? = lpRet o := by cases o <;> rfl
theorem markOf_res (o : Obs) : (markOf o).bind Mark.res? = retOf o := by cases o <;> rfl

/-- `markOf` is the join of `lpRet` and `retOf` (which are never both defined) -/
theorem markOf_eq (o : Obs) : markOf o =
    match lpRet o, retOf o with
    | some r, _ => some (.lp r)
    | none, some r => some (.res r)
    | none, none => none := by cases o <;> rfl

theorem lpRet_retOf_not_both (o : Obs) : lpRet o = none ∨ retOf o = none := by
  cases o <;> first | exact Or.inl rfl | exact Or.inr rfl

theorem filterMap_lpRet_marks (obs : List Obs) : obs.filterMap lpRet = (marks obs).filterMap Mark.lp? := by
  unfold marks
  rw [List.filterMap_filterMap]
  congr 1
  funext o
  exact (markOf_lp o).symm

theorem rets_marks (obs : List Obs) : rets obs = (marks obs).filterMap Mark.res? := by
  unfold marks rets
  rw [List.filterMap_filterMap]
  congr 1
  funext o
  exact (markOf_res o).symm

set_option hygiene false in
local macro "fin" : tactic =>
  `(tactic| (simp at hs; obtain ⟨rfl, rfl, rfl⟩ := hs;
             simp [List.filterMap_cons, curOp, modeOp, doneRet, contRet, marks, markOf, invOp]))

/-- a thread outside any specification operation emits neither LP markers nor responses; it enters
a specification operation exactly by an invocation (`invOp`) -/
theorem disc_idle_marks {t : Tid} {g g' : G} {l l' : L} {a : Act} {obs : List Obs}
    (hs : step t g l a = some (g', l', obs)) (hc : curOp l = none) (hd : doneRet l = none) :
    marks obs = [] ∧ curOp l' = invOp l a ∧ doneRet l' = none := by
  cases l <;> cases a <;> simp only [step] at hs <;> try contradiction
  all_goals (simp [curOp] at hc)
  all_goals (simp [doneRet] at hd)
  all_goals try (fin; done)
  case k0.tau =>
    rename_i m
    cases m <;> simp [modeOp] at hc <;> fin
  case k1.tau =>
    rename_i m h p
    cases m <;> simp [modeOp] at hc <;> simp only [foundLive, goUpd, finish] at hs <;>
      split at hs <;> (try split at hs) <;> fin
  case k2.tau =>
    rename_i m h p
    cases m <;> simp [modeOp] at hc <;> simp only [foundNone, goUpd, finish] at hs <;>
      split at hs <;> split at hs <;> fin
  case u1.tau =>
    rename_i h tgt k
    split at hs
    · fin; exact hd
    · cases k with
      | ret r => simp [contRet] at hd
      | size p => cases p <;> simp only [finish] at hs <;> fin
      | iter it => simp only [finish] at hs; fin
  case u2.tau =>
    rename_i h k
    cases k with
    | ret r => simp [contRet] at hd
    | size p => cases p <;> simp only [finish] at hs <;> fin
    | iter it => simp only [finish] at hs; fin
  case s1.tau =>
    split at hs
    · split at hs <;> fin
    · fin
  case s2.tau =>
    split at hs
    · fin
    · split at hs <;> fin
  case idleIt.next => split at hs <;> fin
  case idleIt.remove =>
    split at hs
    · rename_i heq; fin; simp [heq]
    · rename_i heq; fin; simp [heq]
  case n0.tau =>
    split at hs
    · fin
    · split at hs <;> fin
  case n1.tau => split at hs <;> fin
  case n2.tau =>
    split at hs
    · fin
    · split at hs <;> fin

/-- a thread executing specification operation `op` whose LP has not happened yet: it either goes
on, or passes its LP (marker with result `r`) and remembers `r`, or passes its LP and responds
with the same `r` in the same step (marker first) -/
theorem disc_pending_marks {t : Tid} {g g' : G} {l l' : L} {a : Act} {obs : List Obs}
    (hs : step t g l a = some (g', l', obs)) {op : Op} (hc : curOp l = some op) :
    invOp l a = none ∧
    ((marks obs = [] ∧ curOp l' = some op) ∨
     (∃ r, marks obs = [.lp r] ∧ doneRet l' = some r ∧ curOp l' = none) ∨
     (∃ r, marks obs = [.lp r, .res r] ∧ curOp l' = none ∧ doneRet l' = none)) := by
  cases l <;> cases a <;> simp only [step] at hs <;> try contradiction
  all_goals (simp [curOp] at hc)
  all_goals try subst hc
  all_goals try (fin; done)
  case o1.tau =>
    split at hs
    · fin
    · split at hs
      · fin
      · split at hs <;> fin
  case o2.tau =>
    split at hs
    · split at hs <;> fin
    · fin
  case o4.tau => split at hs <;> fin
  case o5.tau => split at hs <;> fin
  case p1.tau => split at hs <;> fin
  case p2.tau =>
    split at hs
    · split at hs <;> fin
    · fin
  case p4.tau =>
    split at hs
    · simp only [goUpd, finish] at hs
      split at hs <;> fin
    · split at hs <;> fin
  case k0.tau =>
    rename_i m
    cases m <;> simp [modeOp] at hc <;> subst hc <;> fin
  case k1.tau =>
    rename_i m h p
    cases m <;> simp [modeOp] at hc <;> subst hc <;> simp only [foundLive, goUpd, finish] at hs <;>
      split at hs <;> (try split at hs) <;> fin
  case k2.tau =>
    rename_i m h p
    cases m <;> simp [modeOp] at hc <;> subst hc <;> simp only [foundNone, goUpd, finish] at hs <;>
      split at hs <;> split at hs <;> fin

/-- a thread past its LP (result `r` fixed) emits no further marker and responds with exactly `r` -/
theorem disc_done_marks {t : Tid} {g g' : G} {l l' : L} {a : Act} {obs : List Obs}
    (hs : step t g l a = some (g', l', obs)) {r : Ret} (hd : doneRet l = some r) :
    invOp l a = none ∧
    ((marks obs = [] ∧ doneRet l' = some r ∧ curOp l' = none) ∨
     (marks obs = [.res r] ∧ curOp l' = none ∧ doneRet l' = none)) := by
  cases l <;> cases a <;> simp only [step] at hs <;> try contradiction
  all_goals (simp [doneRet] at hd)
  case o3.tau => subst hd; fin
  case p3.tau =>
    subst hd
    simp only [goUpd, finish] at hs
    split at hs <;> split at hs <;> fin
  case u1.tau =>
    rename_i h tgt k
    cases k <;> simp [contRet] at hd
    subst hd
    simp only [finish] at hs
    split at hs <;> fin
  case u2.tau =>
    rename_i h k
    cases k <;> simp [contRet] at hd
    subst hd
    simp only [finish] at hs
    fin

/-! ### The same discipline, phrased with the separate projections `filterMap lpRet` / `rets` -/

theorem disc_idle {t : Tid} {g g' : G} {l l' : L} {a : Act} {obs : List Obs}
    (hs : step t g l a = some (g', l', obs)) (hc : curOp l = none) (hd : doneRet l = none) :
    obs.filterMap lpRet = [] ∧ rets obs = [] ∧ curOp l' = invOp l a ∧ doneRet l' = none := by
  obtain ⟨hm, h1, h2⟩ := disc_idle_marks hs hc hd
  rw [filterMap_lpRet_marks, rets_marks, hm]
  exact ⟨rfl, rfl, h1, h2⟩

theorem disc_pending {t : Tid} {g g' : G} {l l' : L} {a : Act} {obs : List Obs}
    (hs : step t g l a = some (g', l', obs)) {op : Op} (hc : curOp l = some op) :
    (obs.filterMap lpRet = [] ∧ rets obs = [] ∧ curOp l' = some op) ∨
    (∃ r, obs.filterMap lpRet = [r] ∧ rets obs = [] ∧ doneRet l' = some r ∧ curOp l' = none) ∨
    (∃ r, obs.filterMap lpRet = [r] ∧ rets obs = [r] ∧ marks obs = [.lp r, .res r] ∧
      curOp l' = none ∧ doneRet l' = none) := by
  rw [filterMap_lpRet_marks, rets_marks]
  rcases (disc_pending_marks hs hc).2 with ⟨hm, h1⟩ | ⟨r, hm, h1, h2⟩ | ⟨r, hm, h1, h2⟩
  · rw [hm]; exact Or.inl ⟨rfl, rfl, h1⟩
  · rw [hm]; exact Or.inr (Or.inl ⟨r, rfl, rfl, h1, h2⟩)
  · rw [hm]; exact Or.inr (Or.inr ⟨r, rfl, rfl, rfl, h1, h2⟩)

theorem disc_done {t : Tid} {g g' : G} {l l' : L} {a : Act} {obs : List Obs}
    (hs : step t g l a = some (g', l', obs)) {r : Ret} (hd : doneRet l = some r) :
    obs.filterMap lpRet = [] ∧
    ((rets obs = [] ∧ doneRet l' = some r) ∨ (rets obs = [r] ∧ curOp l' = none ∧ doneRet l' = none)) := by
  rw [filterMap_lpRet_marks, rets_marks]
  rcases (disc_done_marks hs hd).2 with ⟨hm, h1, _⟩ | ⟨hm, h1, h2⟩
  · rw [hm]; exact ⟨rfl, Or.inl ⟨rfl, h1⟩⟩
  · rw [hm]; exact ⟨rfl, Or.inr ⟨rfl, h1, h2⟩⟩

/-! ## Forms convenient for a generic "LP discipline + refinement ⇒ linearizable" theorem -/

/-- the initial abstract state: empty content, next handle 1 (node 0 is the dummy) -/
theorem absS_init : absS init = ⟨[], 1⟩ := rfl

/-- a step without an LP marker does not change the abstract state -/
theorem refines_no_lp {t : Tid} {g g' : G} {l l' : L} {a : Act} {obs : List Obs}
    (hG : GInv g) (hL : LInv g l) (hs : step t g l a = some (g', l', obs))
    (h : ∀ r, Mark.lp r ∉ marks obs) : absS g' = absS g := by
  rcases step_refines hG hL hs with ⟨_, h2⟩ | ⟨r, _, h1, _, _⟩
  · exact h2
  · exfalso
    have hr : r ∈ (marks obs).filterMap Mark.lp? := by
      rw [← filterMap_lpRet_marks, h1]; exact List.mem_singleton.mpr rfl
    obtain ⟨m, hm, hmr⟩ := List.mem_filterMap.mp hr
    cases m with
    | lp r' => simp only [Mark.lp?, Option.some.injEq] at hmr; subst hmr; exact h _ hm
    | res r' => simp [Mark.lp?] at hmr

/-- a step with an LP marker carrying `r` acts as the specification operation the thread is
executing, with result `r` -/
theorem refines_lp {t : Tid} {g g' : G} {l l' : L} {a : Act} {obs : List Obs}
    (hG : GInv g) (hL : LInv g l) (hs : step t g l a = some (g', l', obs))
    {r : Ret} {op : Op} (hm : Mark.lp r ∈ marks obs) (hc : curOp l = some op) :
    specApply (absS g) op = (absS g', r) := by
  have hr : r ∈ obs.filterMap lpRet := by
    rw [filterMap_lpRet_marks]; exact List.mem_filterMap.mpr ⟨_, hm, rfl⟩
  rcases step_refines hG hL hs with ⟨h1, _⟩ | ⟨r', op', h1, h2, h3⟩
  · rw [h1] at hr; cases hr
  · rw [h1] at hr
    have hrr : r = r' := List.mem_singleton.mp hr
    have hop : op' = op := Option.some.inj (h2.symm.trans hc)
    subst hrr; subst hop; exact h3

/-- `step_refines` at every step from a reachable configuration -/
theorem reach_step_refines {c : Config M} (hr : Reach M c) {t : Tid} {a : Act} {g' : G} {l' : L}
    {obs : List Obs} (hs : step t c.g (c.l t) a = some (g', l', obs)) :
    (obs.filterMap lpRet = [] ∧ absS g' = absS c.g) ∨
    (∃ r op, obs.filterMap lpRet = [r] ∧ curOp (c.l t) = some op ∧
      specApply (absS c.g) op = (absS g', r)) :=
  let hI := inv_reach c hr
  step_refines hI.1 (hI.2 t) hs

end Garr.Queue
