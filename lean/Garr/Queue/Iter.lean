import Garr.Queue.Inv
/-!
# C13: the weakly consistent iterator, `Remove`, and the accounting of offered elements

Part A: facts about single steps (with the invariants of `Garr.Queue.Inv` plus the additional
iterator invariant `IterInv` established here for all reachable configurations).
Part B: run-level theorems over `Garr.Conc.run` (ordering of one traversal, completeness of a
traversal, accounting `offered = queued + polled + removed`).
-/
namespace Garr.Queue
open Garr.Conc

/-! ## Case analysis on `step` -/

set_option hygiene false in
/-- case analysis on the program counter and the action of `hs : step t g l a = some (g', l', obs)` -/
macro "step_cases" : tactic => `(tactic|
  (cases l <;> cases a <;> simp only [step] at hs <;> try contradiction))

set_option hygiene false in
/-- split the remaining branches of `hs` and substitute the results -/
macro "step_split" : tactic => `(tactic|
  ((repeat' split at hs) <;> (try simp at hs) <;> obtain ⟨rfl, rfl, rfl⟩ := hs))

/-- observations that carry no accounting / iterator information -/
def Obs.quiet : Obs → Bool
  | .ret _ | .retAux _ | .lpPeek _ | .lpEmpty _ => true
  | _ => false

theorem finish_quiet (k : Cont) : ∀ o ∈ (finish k).2, o.quiet = true := by
  intro o ho
  cases k with
  | ret r => simp [finish] at ho; subst ho; rfl
  | size p => cases p <;> simp [finish] at ho; subst ho; rfl
  | iter it => simp [finish] at ho; subst ho; rfl

theorem goUpd_quiet (h tgt : Nat) (k : Cont) : ∀ o ∈ (goUpd h tgt k).2, o.quiet = true := by
  intro o ho
  unfold goUpd at ho
  split at ho
  · exact finish_quiet k o ho
  · simp at ho

theorem foundLive_quiet (m : Mode) (p v : Nat) : ∀ o ∈ (foundLive m p v).1, o.quiet = true := by
  intro o ho
  cases m <;> simp [foundLive] at ho <;> subst ho <;> rfl

theorem foundNone_quiet (m : Mode) : ∀ o ∈ (foundNone m).1, o.quiet = true := by
  intro o ho
  cases m <;> simp [foundNone] at ho <;> subst ho <;> rfl

/-- the other observations: `lpOffer`, `lpPoll`, `lpRemove`, `itNext` -/
def Obs.noisy (o : Obs) : Prop := o.quiet = false

@[simp] theorem noisy_itNext (pos v : Nat) : (Obs.itNext pos v).noisy := rfl
@[simp] theorem noisy_lpOffer (v : Nat) : (Obs.lpOffer v).noisy := rfl
@[simp] theorem noisy_lpPoll (r : Ret) : (Obs.lpPoll r).noisy := rfl
@[simp] theorem noisy_lpRemove (k : Nat) (b : Bool) : (Obs.lpRemove k b).noisy := rfl

theorem not_mem_of_quiet {xs : List Obs} (h : ∀ o ∈ xs, o.quiet = true) {o : Obs} (ho : o.noisy) :
    o ∉ xs := fun hm => by rw [Obs.noisy, h o hm] at ho; contradiction

@[simp] theorem mem_finish_noisy {o : Obs} {k : Cont} (ho : o.noisy) : o ∉ (finish k).2 :=
  not_mem_of_quiet (finish_quiet k) ho
@[simp] theorem mem_goUpd_noisy {o : Obs} {h tgt : Nat} {k : Cont} (ho : o.noisy) : o ∉ (goUpd h tgt k).2 :=
  not_mem_of_quiet (goUpd_quiet h tgt k) ho
@[simp] theorem mem_foundLive_noisy {o : Obs} {m : Mode} {p v : Nat} (ho : o.noisy) : o ∉ (foundLive m p v).1 :=
  not_mem_of_quiet (foundLive_quiet m p v) ho
@[simp] theorem mem_foundNone_noisy {o : Obs} {m : Mode} (ho : o.noisy) : o ∉ (foundNone m).1 :=
  not_mem_of_quiet (foundNone_quiet m) ho

/-! ## A.1 values of linked nodes are immutable; dead nodes stay dead -/

theorem val_stable {t : Tid} {g g' : G} {l l' : L} {a : Act} {obs : List Obs}
    (hs : step t g l a = some (g', l', obs)) : ∀ k, k < g.n → g'.val k = g.val k := by
  intro k hk
  step_cases <;> step_split <;> first | rfl | (simp only [link]; rw [if_neg (by omega)])

theorem live_only_dies {t : Tid} {g g' : G} {l l' : L} {a : Act} {obs : List Obs}
    (hG : GInv g) (hL : LInv g l) (hs : step t g l a = some (g', l', obs)) :
    ∀ k, k < g.n → g.live k = false → g'.live k = false :=
  (step_pres hG hL hs).2.1.live_mono

/-- `n` only grows (direct case analysis, no invariant needed) -/
theorem n_mono_step {t : Tid} {g g' : G} {l l' : L} {a : Act} {obs : List Obs}
    (hs : step t g l a = some (g', l', obs)) : g.n ≤ g'.n := by
  step_cases <;> step_split <;> first | exact Nat.le_refl _ | exact Nat.le_succ _

/-! ## A.2 the additional iterator invariant -/

/-- an iterator object between calls: the value handed out next is the value of the node `nextNode`
    (a node created by `Offer`: position `≥ 1`), and `lastRet`, if set, is the element returned last -/
def IterOK (g : G) (it : Iter) : Prop :=
  (∀ p, it.nextNode = some p → 0 < p ∧ p < g.n ∧ it.nextVal = g.val p) ∧
  (∀ l, it.lastRet = some l → it.prev = some l)

/-- an iterator object inside `Next()` that is about to return the element at position `pred` -/
def InNext (g : G) (it : Iter) (pred : Nat) : Prop :=
  it.nextNode = some pred ∧ it.lastRet = some pred ∧ 0 < pred ∧ pred < g.n ∧ it.nextVal = g.val pred

def ContIterInv (g : G) : Cont → Prop
  | .iter it => IterOK g it
  | _ => True

/-- the additional thread-local invariant relating the iterator object to the shared state -/
def IterInv (g : G) : L → Prop
  | .idleIt it => IterOK g it
  | .u1 _ _ k => ContIterInv g k
  | .u2 _ k => ContIterInv g k
  | .n0 it pred => InNext g it pred
  | .n0h it pred => InNext g it pred
  | .n1 it pred _ => InNext g it pred
  | .n2 it pred _ => InNext g it pred
  | .n2h it pred _ => InNext g it pred
  | .n3 it pred _ _ => InNext g it pred
  | .r0 it l => IterOK g it ∧ it.lastRet = some l
  | _ => True

theorem IterOK_mono {g g' : G} (hn : g.n ≤ g'.n) (hv : ∀ k, k < g.n → g'.val k = g.val k) {it : Iter}
    (h : IterOK g it) : IterOK g' it := by
  refine ⟨fun p hp => ?_, h.2⟩
  obtain ⟨a, b, c⟩ := h.1 p hp
  exact ⟨a, by omega, by rw [hv p b]; exact c⟩

theorem InNext_mono {g g' : G} (hn : g.n ≤ g'.n) (hv : ∀ k, k < g.n → g'.val k = g.val k) {it : Iter}
    {pred : Nat} (h : InNext g it pred) : InNext g' it pred := by
  obtain ⟨a, b, c, d, e⟩ := h
  exact ⟨a, b, c, by omega, by rw [hv pred d]; exact e⟩

theorem ContIterInv_mono {g g' : G} (hn : g.n ≤ g'.n) (hv : ∀ k, k < g.n → g'.val k = g.val k) {k : Cont}
    (h : ContIterInv g k) : ContIterInv g' k := by
  cases k with
  | iter it => exact IterOK_mono hn hv h
  | ret r => trivial
  | size p => trivial

/-- `IterInv` is stable under any change that keeps linked nodes and their values -/
theorem IterInv_mono {g g' : G} (hn : g.n ≤ g'.n) (hv : ∀ k, k < g.n → g'.val k = g.val k) (l : L)
    (h : IterInv g l) : IterInv g' l := by
  cases l <;> simp only [IterInv] at h ⊢ <;> try trivial
  case u1 => exact ContIterInv_mono hn hv h
  case u2 => exact ContIterInv_mono hn hv h
  case idleIt => exact IterOK_mono hn hv h
  case n0 => exact InNext_mono hn hv h
  case n0h => exact InNext_mono hn hv h
  case n1 => exact InNext_mono hn hv h
  case n2 => exact InNext_mono hn hv h
  case n2h => exact InNext_mono hn hv h
  case n3 => exact InNext_mono hn hv h
  case r0 => exact ⟨IterOK_mono hn hv h.1, h.2⟩

theorem finish_IterInv {g : G} {k : Cont} (hk : ContIterInv g k) : IterInv g (finish k).1 := by
  cases k with
  | ret r => trivial
  | size p => cases p <;> trivial
  | iter it => exact hk

theorem goUpd_IterInv {g : G} (h tgt : Nat) {k : Cont} (hk : ContIterInv g k) : IterInv g (goUpd h tgt k).1 := by
  unfold goUpd
  split
  · exact finish_IterInv hk
  · exact hk

theorem foundLive_ContIterInv {g : G} (m : Mode) {p : Nat} (h0 : 0 < p) (hp : p < g.n) :
    ContIterInv g (foundLive m p (g.val p)).2 := by
  cases m
  · trivial
  · trivial
  · trivial
  · refine ⟨fun q hq => ?_, fun l hl => ?_⟩
    · simp at hq; subst hq; exact ⟨h0, hp, rfl⟩
    · simp at hl

theorem foundNone_ContIterInv {g : G} (m : Mode) : ContIterInv g (foundNone m).2 := by
  cases m
  · trivial
  · trivial
  · trivial
  · refine ⟨fun q hq => ?_, fun l hl => ?_⟩
    · simp at hq
    · simp at hl

/-- the acting thread re-establishes `IterInv` (stated w.r.t. the old shared state) -/
theorem IterInv_step_old {t : Tid} {g g' : G} {l l' : L} {a : Act} {obs : List Obs}
    (hL : LInv g l) (h0 : g.live 0 = false) (hI : IterInv g l)
    (hs : step t g l a = some (g', l', obs)) : IterInv g l' := by
  step_cases
  case k1.tau =>
    rename_i m h p
    split at hs
    · rename_i hlive
      simp at hs; obtain ⟨rfl, rfl, rfl⟩ := hs
      have hp0 : 0 < p := by
        rcases Nat.eq_zero_or_pos p with e | e
        · subst e; rw [h0] at hlive; contradiction
        · exact e
      exact goUpd_IterInv _ _ (foundLive_ContIterInv m hp0 hL.2.1)
    · simp at hs; obtain ⟨rfl, rfl, rfl⟩ := hs; trivial
  case k2.tau =>
    step_split
    · exact goUpd_IterInv _ _ (foundNone_ContIterInv _)
    · trivial
    · trivial
  case p3.tau => step_split <;> exact goUpd_IterInv _ _ trivial
  case p4.tau =>
    step_split
    · exact goUpd_IterInv _ _ trivial
    · trivial
    · trivial
  case u1.tau =>
    step_split
    · exact hI
    · exact finish_IterInv hI
  case u2.tau => step_split; exact finish_IterInv hI
  case idleIt.hasNext => step_split; exact hI
  case idleIt.drop => step_split; trivial
  case idleIt.next =>
    rename_i it
    split at hs <;> (simp at hs; obtain ⟨rfl, rfl, rfl⟩ := hs)
    · exact hI
    · rename_i pred hpred
      obtain ⟨a, b, c⟩ := hI.1 pred hpred
      exact ⟨hpred, rfl, a, b, c⟩
  case idleIt.remove =>
    rename_i it
    split at hs <;> (simp at hs; obtain ⟨rfl, rfl, rfl⟩ := hs)
    · exact hI
    · rename_i l hl
      exact ⟨hI, hl⟩
  case n0.tau =>
    rename_i it pred
    obtain ⟨a, b, c, d, e⟩ := hI
    step_split
    · exact ⟨fun q hq => by simp at hq, fun l hl => by simp at hl ⊢; rw [b] at hl; simpa using hl⟩
    · exact ⟨a, b, c, d, e⟩
    · exact ⟨a, b, c, d, e⟩
  case n0h.tau => step_split; exact hI
  case n1.tau =>
    rename_i it pred p
    obtain ⟨a, b, c, d, e⟩ := hI
    step_split
    · refine ⟨fun q hq => ?_, fun l hl => by simp at hl ⊢; rw [b] at hl; simpa using hl⟩
      simp at hq; subst hq
      exact ⟨by have := hL.1; omega, hL.2.1, rfl⟩
    · exact ⟨a, b, c, d, e⟩
  case n2.tau =>
    rename_i it pred p
    obtain ⟨a, b, c, d, e⟩ := hI
    step_split
    · exact ⟨fun q hq => by simp at hq, fun l hl => by simp at hl ⊢; rw [b] at hl; simpa using hl⟩
    · exact ⟨a, b, c, d, e⟩
    · exact ⟨a, b, c, d, e⟩
  case n2h.tau => step_split; exact hI
  case n3.tau => step_split <;> exact hI
  case r0.tau =>
    step_split
    exact ⟨hI.1.1, fun l hl => by simp at hl⟩
  all_goals (step_split <;> trivial)

/-- the invariant used in this file: `Inv`, the dummy node never carries an item, `IterInv` -/
structure Inv2 (c : Config M) : Prop where
  inv : Inv c
  live0 : c.g.live 0 = false
  iter : ∀ t, IterInv c.g (c.l t)

theorem inv2_reach : ∀ c, Garr.Conc.Reach M c → Inv2 c := by
  apply inv_of_reach
  · exact ⟨inv_init, rfl, fun t => trivial⟩
  · intro c t a g' l' obs hinv hstep
    obtain ⟨⟨hG, hLs⟩, h0, hIs⟩ := hinv
    have hstep' : step t c.g (c.l t) a = some (g', l', obs) := hstep
    have hn := n_mono_step hstep'
    have hv := val_stable hstep'
    obtain ⟨hg, hgu, hl⟩ := step_pres hG (hLs t) hstep'
    refine ⟨⟨hg, fun u => ?_⟩, ?_, fun u => ?_⟩
    · by_cases hut : u = t
      · subst hut; simpa using hl
      · simp [hut]; exact LInv_stable hgu _ (hLs u)
    · exact live_only_dies hG (hLs t) hstep' 0 hG.npos h0
    · by_cases hut : u = t
      · subst hut
        simpa using IterInv_mono hn hv _ (IterInv_step_old (hLs u) h0 (hIs u) hstep')
      · simp [hut]; exact IterInv_mono hn hv _ (hIs u)

/-- the iterator object carried by a program counter -/
def iterOf : L → Option Iter
  | .idleIt it | .n0 it _ | .n0h it _ | .n1 it _ _ | .n2 it _ _ | .n2h it _ _ | .n3 it _ _ _ | .r0 it _ => some it
  | .u1 _ _ (.iter it) | .u2 _ (.iter it) => some it
  | _ => none

/-! ## A.3 – A.5 the step at which `Next()` returns -/

/-- everything there is to know about a step that emits `itNext pos v` -/
theorem itNext_step {t : Tid} {g g' : G} {l l' : L} {a : Act} {obs : List Obs} {pos v : Nat}
    (hG : GInv g) (hL : LInv g l) (hI : IterInv g l)
    (hs : step t g l a = some (g', l', obs)) (hm : Obs.itNext pos v ∈ obs) :
    g' = g ∧ obs = [.itNext pos v, .retAux (.val v)] ∧
    ∃ it it', iterOf l = some it ∧ l' = .idleIt it' ∧
      it.nextNode = some pos ∧ it.lastRet = some pos ∧ 0 < pos ∧ pos < g.n ∧ v = g.val pos ∧
      (∀ r, it.prev = some r → r < pos) ∧
      it'.prev = some pos ∧ it'.lastRet = some pos ∧
      (∀ p, it'.nextNode = some p → pos < p ∧ ∀ k, pos < k → k < p → g.live k = false) ∧
      (it'.nextNode = none → ∀ k, pos < k → k < g.n → g.live k = false) := by
  step_cases
  case n0.tau =>
    rename_i it pred
    obtain ⟨a, b, c, d, e⟩ := hI
    step_split
    · rename_i hnone
      simp at hm; obtain ⟨rfl, rfl⟩ := hm
      refine ⟨rfl, rfl, it, _, rfl, rfl, a, b, c, d, e, ?_, rfl, b, ?_, ?_⟩
      · intro r hr; exact (hL.2.2.2 r pos hr a).1
      · intro p hp; simp at hp
      · intro _ k hk1 hk2
        have := (hG.last pos d).1 hnone; omega
    · simp at hm
    · simp at hm
  case n1.tau =>
    rename_i it pred p
    obtain ⟨a, b, c, d, e⟩ := hI
    obtain ⟨hpp, hpn, hdb, h1, h2, h3⟩ := hL
    step_split
    · simp at hm; obtain ⟨rfl, rfl⟩ := hm
      refine ⟨rfl, rfl, it, _, rfl, rfl, a, b, c, d, e, ?_, rfl, b, ?_, ?_⟩
      · intro r hr; exact (h3 r pos hr a).1
      · intro q hq; simp at hq; subst hq; exact ⟨hpp, hdb⟩
      · intro hq; simp at hq
    · simp at hm
  case n2.tau =>
    rename_i it pred p
    obtain ⟨a, b, c, d, e⟩ := hI
    obtain ⟨hpp, hpn, hdb, h1, h2, h3⟩ := hL
    step_split
    · rename_i hnone
      simp at hm; obtain ⟨rfl, rfl⟩ := hm
      refine ⟨rfl, rfl, it, _, rfl, rfl, a, b, c, d, e, ?_, rfl, b, ?_, ?_⟩
      · intro r hr; exact (h3 r pos hr a).1
      · intro q hq; simp at hq
      · intro _ k hk1 hk2
        have := (hG.last p hpn).1 hnone
        exact hdb k hk1 (by omega)
    · simp at hm
    · simp at hm
  all_goals (step_split <;> simp at hm)

/-! ## A.7 classification of every step by its effect on `n`, `val`, `live` -/

/-- the observations that take part in the accounting of elements -/
def Obs.acct : Obs → Bool
  | .lpOffer _ => true
  | .lpPoll (.val _) => true
  | .lpRemove _ _ => true
  | _ => false

def NoAcct (obs : List Obs) : Prop := ∀ o ∈ obs, o.acct = false

theorem quiet_not_acct {o : Obs} (h : o.quiet = true) : o.acct = false := by
  cases o <;> simp [Obs.quiet] at h <;> rfl

theorem NoAcct_of_quiet {xs : List Obs} (h : ∀ o ∈ xs, o.quiet = true) : NoAcct xs :=
  fun o ho => quiet_not_acct (h o ho)

@[simp] theorem NoAcct_nil : NoAcct [] := fun _ h => by simp at h
@[simp] theorem NoAcct_cons {o : Obs} {xs : List Obs} : NoAcct (o :: xs) ↔ o.acct = false ∧ NoAcct xs := by
  simp [NoAcct]
@[simp] theorem NoAcct_append {xs ys : List Obs} : NoAcct (xs ++ ys) ↔ NoAcct xs ∧ NoAcct ys := by
  simp only [NoAcct, List.mem_append]
  exact ⟨fun h => ⟨fun o ho => h o (Or.inl ho), fun o ho => h o (Or.inr ho)⟩,
    fun h o ho => ho.elim (h.1 o) (h.2 o)⟩
@[simp] theorem NoAcct_finish (k : Cont) : NoAcct (finish k).2 := NoAcct_of_quiet (finish_quiet k)
@[simp] theorem NoAcct_goUpd (h tgt : Nat) (k : Cont) : NoAcct (goUpd h tgt k).2 :=
  NoAcct_of_quiet (goUpd_quiet h tgt k)
@[simp] theorem NoAcct_foundLive (m : Mode) (p v : Nat) : NoAcct (foundLive m p v).1 :=
  NoAcct_of_quiet (foundLive_quiet m p v)
@[simp] theorem NoAcct_foundNone (m : Mode) : NoAcct (foundNone m).1 := NoAcct_of_quiet (foundNone_quiet m)

/-- Every step is exactly one of: the linking CAS of `Offer` (adds the new last node, live, with the
    offered value), the item CAS of `Poll` (kills the live node it is at), the item store of
    `Remove` (kills `lastRet`), or a step that changes neither `n`, `val` nor `live` and emits no
    `lpOffer`, `lpPoll (.val _)`, `lpRemove`. -/
theorem step_effect {t : Tid} {g g' : G} {l l' : L} {a : Act} {obs : List Obs}
    (hL : LInv g l) (hs : step t g l a = some (g', l', obs)) :
    (∃ v tl p, l = .o2 v tl p ∧ g.next p = none ∧ g' = link g p v ∧
        (obs = [.lpOffer v] ∨ obs = [.lpOffer v, .ret .unit])) ∨
    (∃ h p, l = .p2 h p ∧ p < g.n ∧ g.live p = true ∧ g' = kill g p ∧
        (obs = [.lpPoll (.val (g.val p))] ∨ obs = [.lpPoll (.val (g.val p)), .ret (.val (g.val p))])) ∨
    (∃ it k, l = .r0 it k ∧ k < g.n ∧ g' = kill g k ∧ obs = [.lpRemove k (g.live k), .ret .unit]) ∨
    (g'.n = g.n ∧ g'.val = g.val ∧ g'.live = g.live ∧ NoAcct obs) := by
  step_cases
  case o2.tau =>
    rename_i v tl p
    split at hs
    · rename_i hnone
      split at hs <;> (simp at hs; obtain ⟨rfl, rfl, rfl⟩ := hs)
      · exact Or.inl ⟨v, tl, p, rfl, hnone, rfl, Or.inl rfl⟩
      · exact Or.inl ⟨v, tl, p, rfl, hnone, rfl, Or.inr rfl⟩
    · simp at hs; obtain ⟨rfl, rfl, rfl⟩ := hs
      exact Or.inr (Or.inr (Or.inr ⟨rfl, rfl, rfl, NoAcct_nil⟩))
  case p2.tau =>
    rename_i h p
    split at hs
    · rename_i hlive
      split at hs <;> (simp at hs; obtain ⟨rfl, rfl, rfl⟩ := hs)
      · exact Or.inr (Or.inl ⟨h, p, rfl, hL.2.1, hlive, rfl, Or.inl rfl⟩)
      · exact Or.inr (Or.inl ⟨h, p, rfl, hL.2.1, hlive, rfl, Or.inr rfl⟩)
    · simp at hs; obtain ⟨rfl, rfl, rfl⟩ := hs
      exact Or.inr (Or.inr (Or.inr ⟨rfl, rfl, rfl, NoAcct_nil⟩))
  case r0.tau =>
    rename_i it k
    step_split
    exact Or.inr (Or.inr (Or.inl ⟨it, k, rfl, hL.1, rfl, rfl⟩))
  all_goals (step_split <;> exact Or.inr (Or.inr (Or.inr ⟨rfl, rfl, rfl, by simp [Obs.acct]⟩)))

theorem not_mem_of_NoAcct {obs : List Obs} (h : NoAcct obs) {o : Obs} (ho : o.acct = true) : o ∉ obs :=
  fun hm => by rw [h o hm] at ho; contradiction

/-- A.7, first half: a node that dies in a step was polled (by a thread at `p2 _ k`) or removed -/
theorem live_change_accounted_step {t : Tid} {g g' : G} {l l' : L} {a : Act} {obs : List Obs}
    (hL : LInv g l) (hs : step t g l a = some (g', l', obs))
    {k : Nat} (hlive : g.live k = true) (hdead : g'.live k = false) :
    (Obs.lpPoll (.val (g.val k)) ∈ obs ∧ ∃ h, l = .p2 h k) ∨ Obs.lpRemove k true ∈ obs := by
  rcases step_effect hL hs with ⟨v, tl, p, rfl, _, rfl, _⟩ | ⟨h, p, rfl, _, _, rfl, ho⟩ |
      ⟨it, j, rfl, _, rfl, rfl⟩ | ⟨_, _, h3, _⟩
  · simp only [link] at hdead
    split at hdead
    · contradiction
    · rw [hlive] at hdead; contradiction
  · simp only [kill] at hdead
    split at hdead
    · rename_i e; subst e
      refine Or.inl ⟨?_, h, rfl⟩
      rcases ho with rfl | rfl <;> simp
    · rw [hlive] at hdead; contradiction
  · simp only [kill] at hdead
    split at hdead
    · rename_i e; subst e
      rw [hlive]; exact Or.inr (by simp)
    · rw [hlive] at hdead; contradiction
  · rw [h3, hlive] at hdead; contradiction

/-- A.7: a step emitting `lpPoll (.val v)` kills exactly one live node, whose value is `v` -/
theorem lpPoll_kills_one_step {t : Tid} {g g' : G} {l l' : L} {a : Act} {obs : List Obs} {v : Nat}
    (hL : LInv g l) (hs : step t g l a = some (g', l', obs)) (hm : Obs.lpPoll (.val v) ∈ obs) :
    ∃ k, k < g.n ∧ g.live k = true ∧ g.val k = v ∧ g'.live k = false ∧ (∀ j, j ≠ k → g'.live j = g.live j) ∧
      g'.n = g.n ∧ ∃ h, l = .p2 h k := by
  rcases step_effect hL hs with ⟨v, tl, p, rfl, _, rfl, ho⟩ | ⟨h, p, rfl, hp, hlive, rfl, ho⟩ |
      ⟨it, j, rfl, _, rfl, rfl⟩ | ⟨_, _, _, h4⟩
  · rcases ho with rfl | rfl <;> simp at hm
  · refine ⟨p, hp, hlive, ?_, by simp [kill], fun j hj => by simp [kill, hj], rfl, h, rfl⟩
    rcases ho with rfl | rfl <;> simp at hm <;> exact hm.symm
  · simp at hm
  · exact absurd hm (not_mem_of_NoAcct h4 rfl)

/-- A.7: a step emitting `lpRemove k b` is the item store of `Remove` on node `k`; `b` is the liveness of
    `k` before: `true` kills exactly node `k`, `false` kills nothing -/
theorem lpRemove_step {t : Tid} {g g' : G} {l l' : L} {a : Act} {obs : List Obs} {k : Nat} {b : Bool}
    (hL : LInv g l) (hs : step t g l a = some (g', l', obs)) (hm : Obs.lpRemove k b ∈ obs) :
    k < g.n ∧ b = g.live k ∧ g'.live k = false ∧ (∀ j, j ≠ k → g'.live j = g.live j) ∧ g'.n = g.n ∧
      (b = false → ∀ j, g'.live j = g.live j) ∧ ∃ it, l = .r0 it k := by
  rcases step_effect hL hs with ⟨v, tl, p, rfl, _, rfl, ho⟩ | ⟨h, p, rfl, hp, hlive, rfl, ho⟩ |
      ⟨it, j, rfl, hj, rfl, rfl⟩ | ⟨_, _, _, h4⟩
  · rcases ho with rfl | rfl <;> simp at hm
  · rcases ho with rfl | rfl <;> simp at hm
  · simp at hm; obtain ⟨rfl, rfl⟩ := hm
    refine ⟨hj, rfl, by simp [kill], fun j hj => by simp [kill, hj], rfl, ?_, it, rfl⟩
    intro hb j
    simp only [kill]; split
    · rename_i e; subst e; exact hb.symm
    · rfl
  · exact absurd hm (not_mem_of_NoAcct h4 rfl)

/-- A.7: a step emitting `lpOffer v` adds exactly one node: the new last node, live, with value `v` -/
theorem lpOffer_adds_one_step {t : Tid} {g g' : G} {l l' : L} {a : Act} {obs : List Obs} {v : Nat}
    (hL : LInv g l) (hs : step t g l a = some (g', l', obs)) (hm : Obs.lpOffer v ∈ obs) :
    g'.n = g.n + 1 ∧ g'.val g.n = v ∧ g'.live g.n = true ∧ (∀ j, j ≠ g.n → g'.live j = g.live j) ∧
      (∀ j, j ≠ g.n → g'.val j = g.val j) := by
  rcases step_effect hL hs with ⟨v', tl, p, rfl, _, rfl, ho⟩ | ⟨h, p, rfl, hp, hlive, rfl, ho⟩ |
      ⟨it, j, rfl, hj, rfl, rfl⟩ | ⟨_, _, _, h4⟩
  · have : v' = v := by rcases ho with rfl | rfl <;> simp at hm <;> exact hm.symm
    subst this
    exact ⟨rfl, by simp [link], by simp [link], fun j hj => by simp [link, hj], fun j hj => by simp [link, hj]⟩
  · rcases ho with rfl | rfl <;> simp at hm
  · simp at hm
  · exact absurd hm (not_mem_of_NoAcct h4 rfl)

/-- A.7: no other step changes `n` -/
theorem n_changes_only_at_offer_step {t : Tid} {g g' : G} {l l' : L} {a : Act} {obs : List Obs}
    (hL : LInv g l) (hs : step t g l a = some (g', l', obs)) (hno : ∀ v, Obs.lpOffer v ∉ obs) : g'.n = g.n := by
  rcases step_effect hL hs with ⟨v', tl, p, rfl, _, rfl, ho⟩ | ⟨h, p, rfl, hp, hlive, rfl, ho⟩ |
      ⟨it, j, rfl, hj, rfl, rfl⟩ | ⟨h1, _, _, _⟩
  · exact absurd (by rcases ho with rfl | rfl <;> simp) (hno v')
  · rfl
  · rfl
  · exact h1

/-! ## A.6 `Remove` -/

/-- the store of `Remove` changes `live` only at `l`, the element last returned by `Next` -/
theorem remove_exact_step {t : Tid} {g g' : G} {it : Iter} {l : Nat} {l' : L} {a : Act} {obs : List Obs}
    (hI : IterInv g (.r0 it l)) (hs : step t g (.r0 it l) a = some (g', l', obs)) :
    (∀ k, k ≠ l → g'.live k = g.live k) ∧ g'.live l = false ∧
    obs = [.lpRemove l (g.live l), .ret .unit] ∧ it.lastRet = some l ∧ it.prev = some l ∧
    l' = .idleIt { it with lastRet := none } ∧ g'.n = g.n ∧ g'.val = g.val := by
  cases a <;> simp only [step] at hs <;> try contradiction
  simp at hs; obtain ⟨rfl, rfl, rfl⟩ := hs
  exact ⟨fun k hk => by simp [kill, hk], by simp [kill], rfl, hI.2, hI.1.2 l hI.2, rfl, rfl, rfl⟩

/-! ## A.5 (construction): the first element chosen by `Iterator()` -/

theorem iterOf_goUpd (h tgt : Nat) (it : Iter) : iterOf (goUpd h tgt (.iter it)).1 = some it := by
  unfold goUpd; split <;> rfl

/-- the construction traversal finds node `p` live: everything before `p` is dead at this moment, and `p`
    becomes the iterator's first element -/
theorem iter_first_live_step {t : Tid} {g g' : G} {h p : Nat} {l' : L} {a : Act} {obs : List Obs}
    (hL : LInv g (.k1 .iter h p)) (hs : step t g (.k1 .iter h p) a = some (g', l', obs))
    (hlive : g.live p = true) :
    g' = g ∧ deadBelow g p ∧ p < g.n ∧
    iterOf l' = some { nextNode := some p, nextVal := g.val p, lastRet := none, prev := none } := by
  cases a <;> simp only [step] at hs <;> try contradiction
  rw [if_pos hlive] at hs
  simp at hs; obtain ⟨rfl, rfl, rfl⟩ := hs
  exact ⟨rfl, hL.2.2, hL.2.1, iterOf_goUpd _ _ _⟩

/-- the construction traversal reaches the end of the list: every node is dead at this moment, and the
    iterator is created exhausted -/
theorem iter_first_none_step {t : Tid} {g g' : G} {h p : Nat} {l' : L} {a : Act} {obs : List Obs}
    (hG : GInv g) (hL : LInv g (.k2 .iter h p)) (hs : step t g (.k2 .iter h p) a = some (g', l', obs))
    (hnone : g.next p = none) :
    g' = g ∧ (∀ k, k < g.n → g.live k = false) ∧
    iterOf l' = some { nextNode := none, nextVal := 0, lastRet := none, prev := none } := by
  cases a <;> simp only [step] at hs <;> try contradiction
  rw [hnone] at hs
  simp at hs; obtain ⟨rfl, rfl, rfl⟩ := hs
  refine ⟨rfl, fun k hk => hL.2.2 k ?_, iterOf_goUpd _ _ _⟩
  have := (hG.last p hL.2.1).1 hnone; omega

/-- `updateHead` hands the iterator through unchanged: `Iterator()` returns the object chosen above -/
theorem iterOf_updateHead_step {t : Tid} {g g' : G} {l l' : L} {a : Act} {obs : List Obs} {it : Iter}
    (hl : (∃ h tgt, l = .u1 h tgt (.iter it)) ∨ (∃ h, l = .u2 h (.iter it)))
    (hs : step t g l a = some (g', l', obs)) : iterOf l' = some it := by
  rcases hl with ⟨h, tgt, rfl⟩ | ⟨h, rfl⟩ <;> cases a <;> simp only [step] at hs <;> try contradiction
  · split at hs <;> (simp at hs; obtain ⟨rfl, rfl, rfl⟩ := hs) <;> rfl
  · simp at hs; obtain ⟨rfl, rfl, rfl⟩ := hs; rfl

/-! ## The one-step theorems for reachable configurations -/

section Reachable
variable {c : Config M} {t : Tid} {a : Act} {g' : G} {l' : L} {obs : List Obs}

theorem reach_invs (hc : Reach M c) (t : Tid) : GInv c.g ∧ LInv c.g (c.l t) ∧ IterInv c.g (c.l t) :=
  ⟨(inv2_reach c hc).inv.1, (inv2_reach c hc).inv.2 t, (inv2_reach c hc).iter t⟩

/-- A.3 the value returned by `Next()` is the value of a linked node created by `Offer` -/
theorem itNext_offered (hc : Reach M c) (hs : step t c.g (c.l t) a = some (g', l', obs))
    {pos v : Nat} (hm : Obs.itNext pos v ∈ obs) : 0 < pos ∧ pos < c.g.n ∧ v = c.g.val pos := by
  obtain ⟨hG, hL, hI⟩ := reach_invs hc t
  obtain ⟨_, _, it, it', _, _, _, _, h1, h2, h3, _⟩ := itNext_step hG hL hI hs hm
  exact ⟨h1, h2, h3⟩

/-- A.4 (one step) the position returned lies strictly after the one returned before by the same iterator,
    and becomes the new `prev` -/
theorem itNext_increasing (hc : Reach M c) (hs : step t c.g (c.l t) a = some (g', l', obs))
    {pos v : Nat} (hm : Obs.itNext pos v ∈ obs) :
    ∃ it it', iterOf (c.l t) = some it ∧ l' = .idleIt it' ∧ (∀ r, it.prev = some r → r < pos) ∧
      it'.prev = some pos := by
  obtain ⟨hG, hL, hI⟩ := reach_invs hc t
  obtain ⟨_, _, it, it', h1, h2, _, _, _, _, _, h3, h4, _⟩ := itNext_step hG hL hI hs hm
  exact ⟨it, it', h1, h2, h3, h4⟩

/-- A.5 everything between the element returned now and the element that will be returned next is dead
    at this moment; if there is no next element, everything after the returned one is dead -/
theorem itNext_skips_only_dead (hc : Reach M c) (hs : step t c.g (c.l t) a = some (g', l', obs))
    {pos v : Nat} (hm : Obs.itNext pos v ∈ obs) :
    g' = c.g ∧ ∃ it', l' = .idleIt it' ∧
      (∀ p, it'.nextNode = some p → pos < p ∧ ∀ k, pos < k → k < p → c.g.live k = false) ∧
      (it'.nextNode = none → ∀ k, pos < k → k < c.g.n → c.g.live k = false) := by
  obtain ⟨hG, hL, hI⟩ := reach_invs hc t
  obtain ⟨h0, _, it, it', _, h2, _, _, _, _, _, _, _, _, h5, h6⟩ := itNext_step hG hL hI hs hm
  exact ⟨h0, it', h2, h5, h6⟩

/-- A.5 a node that is live when `Next()` returns is not skipped -/
theorem never_skips_live (hc : Reach M c) (hs : step t c.g (c.l t) a = some (g', l', obs))
    {pos v : Nat} (hm : Obs.itNext pos v ∈ obs) {it' : Iter} (hl' : l' = .idleIt it')
    {k : Nat} (hk : c.g.live k = true) :
    (∀ p, it'.nextNode = some p → ¬ (pos < k ∧ k < p)) ∧ (it'.nextNode = none → ¬ (pos < k ∧ k < c.g.n)) := by
  obtain ⟨_, it'', h2, h5, h6⟩ := itNext_skips_only_dead hc hs hm
  rw [hl'] at h2; cases h2
  refine ⟨fun p hp ⟨h1, h2⟩ => ?_, fun hn ⟨h1, h2⟩ => ?_⟩
  · rw [(h5 p hp).2 k h1 h2] at hk; contradiction
  · rw [h6 hn k h1 h2] at hk; contradiction

/-- A.5 (construction) -/
theorem iter_first_live (hc : Reach M c) {h p : Nat} (hl : c.l t = .k1 .iter h p)
    (hs : step t c.g (c.l t) a = some (g', l', obs)) (hlive : c.g.live p = true) :
    g' = c.g ∧ deadBelow c.g p ∧ p < c.g.n ∧
    iterOf l' = some { nextNode := some p, nextVal := c.g.val p, lastRet := none, prev := none } := by
  obtain ⟨_, hL, _⟩ := reach_invs hc t
  rw [hl] at hL hs
  exact iter_first_live_step hL hs hlive

theorem iter_first_none (hc : Reach M c) {h p : Nat} (hl : c.l t = .k2 .iter h p)
    (hs : step t c.g (c.l t) a = some (g', l', obs)) (hnone : c.g.next p = none) :
    g' = c.g ∧ (∀ k, k < c.g.n → c.g.live k = false) ∧
    iterOf l' = some { nextNode := none, nextVal := 0, lastRet := none, prev := none } := by
  obtain ⟨hG, hL, _⟩ := reach_invs hc t
  rw [hl] at hL hs
  exact iter_first_none_step hG hL hs hnone

/-- A.6 `Remove` deletes exactly the element last returned by `Next` (if it is still present) -/
theorem remove_exact (hc : Reach M c) {it : Iter} {l : Nat} (hl : c.l t = .r0 it l)
    (hs : step t c.g (c.l t) a = some (g', l', obs)) :
    (∀ k, k ≠ l → g'.live k = c.g.live k) ∧ g'.live l = false ∧
    obs = [.lpRemove l (c.g.live l), .ret .unit] ∧ it.lastRet = some l ∧ it.prev = some l ∧
    l' = .idleIt { it with lastRet := none } ∧ g'.n = c.g.n ∧ g'.val = c.g.val := by
  obtain ⟨_, _, hI⟩ := reach_invs hc t
  rw [hl] at hI hs
  exact remove_exact_step hI hs

/-- A.7 every node that dies was polled or removed, and the marker names it -/
theorem live_change_accounted (hc : Reach M c) (hs : step t c.g (c.l t) a = some (g', l', obs))
    {k : Nat} (hlive : c.g.live k = true) (hdead : g'.live k = false) :
    (Obs.lpPoll (.val (c.g.val k)) ∈ obs ∧ ∃ h, c.l t = .p2 h k) ∨ Obs.lpRemove k true ∈ obs :=
  live_change_accounted_step (reach_invs hc t).2.1 hs hlive hdead

/-- A.7 a step emitting `lpPoll (.val v)` kills exactly one live node, whose value is `v` -/
theorem lpPoll_kills_one (hc : Reach M c) (hs : step t c.g (c.l t) a = some (g', l', obs))
    {v : Nat} (hm : Obs.lpPoll (.val v) ∈ obs) :
    ∃ k, k < c.g.n ∧ c.g.live k = true ∧ c.g.val k = v ∧ g'.live k = false ∧
      (∀ j, j ≠ k → g'.live j = c.g.live j) ∧ g'.n = c.g.n ∧ ∃ h, c.l t = .p2 h k :=
  lpPoll_kills_one_step (reach_invs hc t).2.1 hs hm

/-- A.7 a step emitting `lpRemove k true` kills exactly node `k` (which was live) -/
theorem lpRemove_true_kills (hc : Reach M c) (hs : step t c.g (c.l t) a = some (g', l', obs))
    {k : Nat} (hm : Obs.lpRemove k true ∈ obs) :
    k < c.g.n ∧ c.g.live k = true ∧ g'.live k = false ∧ (∀ j, j ≠ k → g'.live j = c.g.live j) ∧ g'.n = c.g.n := by
  obtain ⟨h1, h2, h3, h4, h5, _⟩ := lpRemove_step (reach_invs hc t).2.1 hs hm
  exact ⟨h1, h2.symm, h3, h4, h5⟩

/-- A.7 a step emitting `lpRemove k false` kills nothing (node `k` was dead already) -/
theorem lpRemove_false_kills_nothing (hc : Reach M c) (hs : step t c.g (c.l t) a = some (g', l', obs))
    {k : Nat} (hm : Obs.lpRemove k false ∈ obs) :
    c.g.live k = false ∧ (∀ j, g'.live j = c.g.live j) ∧ g'.n = c.g.n := by
  obtain ⟨_, h2, _, _, h5, h6, _⟩ := lpRemove_step (reach_invs hc t).2.1 hs hm
  exact ⟨h2.symm, h6 rfl, h5⟩

/-- A.7 a step emitting `lpOffer v` adds exactly one node: the new last node, live, with value `v` -/
theorem lpOffer_adds_one (hc : Reach M c) (hs : step t c.g (c.l t) a = some (g', l', obs))
    {v : Nat} (hm : Obs.lpOffer v ∈ obs) :
    g'.n = c.g.n + 1 ∧ g'.val c.g.n = v ∧ g'.live c.g.n = true ∧ (∀ j, j ≠ c.g.n → g'.live j = c.g.live j) ∧
      (∀ j, j ≠ c.g.n → g'.val j = c.g.val j) :=
  lpOffer_adds_one_step (reach_invs hc t).2.1 hs hm

/-- A.7 no other step changes `n` -/
theorem n_changes_only_at_offer (hc : Reach M c) (hs : step t c.g (c.l t) a = some (g', l', obs))
    (hno : ∀ v, Obs.lpOffer v ∉ obs) : g'.n = c.g.n :=
  n_changes_only_at_offer_step (reach_invs hc t).2.1 hs hno

end Reachable

/-! ## B. Runs: a forward induction principle for `Garr.Conc.run` -/

theorem run_cons_none {M : Machine} {c : Config M} {t : Tid} {a : M.Act} {rest : List (Tid × M.Act)}
    (h : M.step t c.g (c.l t) a = none) : run M c ((t, a) :: rest) = run M c rest := by
  simp only [run, h]

theorem run_cons_some {M : Machine} {c : Config M} {t : Tid} {a : M.Act} {rest : List (Tid × M.Act)}
    {g' : M.G} {l' : M.L} {obs : List M.Obs} (h : M.step t c.g (c.l t) a = some (g', l', obs)) :
    run M c ((t, a) :: rest) =
      ((run M ⟨g', upd c.l t l'⟩ rest).1, obs.map (fun o => (t, o)) ++ (run M ⟨g', upd c.l t l'⟩ rest).2) := by
  simp only [run, h]

/-- forward induction along a run, for any machine: `P lg c` relates the log emitted so far to the current
    configuration; `A` restricts the schedule entries -/
theorem run_ind_gen (M : Machine) (A : Tid → M.Act → Prop) (P : List (Tid × M.Obs) → Config M → Prop)
    (hstep : ∀ lg c t a g' l' obs, Reach M c → P lg c → A t a → M.step t c.g (c.l t) a = some (g', l', obs) →
      P (lg ++ obs.map (fun o => (t, o))) ⟨g', upd c.l t l'⟩) :
    ∀ (s : List (Tid × M.Act)) (c : Config M) (lg : List (Tid × M.Obs)), Reach M c → P lg c →
      (∀ e ∈ s, A e.1 e.2) → P (lg ++ (run M c s).2) (run M c s).1 := by
  intro s
  induction s with
  | nil => intro c lg _ hP _; simpa [run] using hP
  | cons ta rest ih =>
    intro c lg hc hP hA
    obtain ⟨t, a⟩ := ta
    cases h : M.step t c.g (c.l t) a with
    | none =>
      rw [run_cons_none h]
      exact ih c lg hc hP (fun e he => hA e (List.mem_cons_of_mem _ he))
    | some r =>
      obtain ⟨g', l', obs⟩ := r
      rw [run_cons_some h]
      have h1 := hstep lg c t a g' l' obs hc hP (hA (t, a) (List.mem_cons_self ..)) h
      have h2 := ih _ _ (Reach.step hc h) h1 (fun e he => hA e (List.mem_cons_of_mem _ he))
      simpa [List.append_assoc] using h2

/-- the same for the queue machine, with the types unfolded -/
theorem run_ind (A : Tid → Act → Prop) (P : List (Tid × Obs) → G → (Tid → L) → Prop)
    (hstep : ∀ (lg : List (Tid × Obs)) (g : G) (ls : Tid → L) (t : Tid) (a : Act) (g' : G) (l' : L)
      (obs : List Obs), Reach M ⟨g, ls⟩ → P lg g ls → A t a → step t g (ls t) a = some (g', l', obs) →
      P (lg ++ obs.map (fun o => (t, o))) g' (upd ls t l'))
    (s : List (Tid × Act)) (c : Config M) (hc : Reach M c) (hP : P [] c.g c.l) (hA : ∀ e ∈ s, A e.1 e.2) :
    P (run M c s).2 (run M c s).1.g (run M c s).1.l :=
  run_ind_gen M A (fun lg c => P lg c.g c.l)
    (fun lg c t a g' l' obs hr hp ha hs => hstep lg c.g c.l t a g' l' obs hr hp ha hs) s c [] hc hP hA

/-! ## B. Accounting over runs -/

def liveCount (g : G) : Nat := ((List.range g.n).filter g.live).length

def Obs.isOffer : Obs → Bool | .lpOffer _ => true | _ => false
def Obs.isPollVal : Obs → Bool | .lpPoll (.val _) => true | _ => false
def Obs.isRemoveLive : Obs → Bool | .lpRemove _ true => true | _ => false

/-- number of `lpOffer _` entries of a log -/
def offered (lg : List (Tid × Obs)) : Nat := lg.countP (fun e => e.2.isOffer)
/-- number of `lpPoll (.val _)` entries -/
def polled (lg : List (Tid × Obs)) : Nat := lg.countP (fun e => e.2.isPollVal)
/-- number of `lpRemove _ true` entries -/
def removed (lg : List (Tid × Obs)) : Nat := lg.countP (fun e => e.2.isRemoveLive)

/-- counting the `k < n` with `f k`, by recursion -/
def cnt (f : Nat → Bool) : Nat → Nat
  | 0 => 0
  | n + 1 => cnt f n + (if f n then 1 else 0)

theorem filter_range_length (f : Nat → Bool) (n : Nat) : ((List.range n).filter f).length = cnt f n := by
  induction n with
  | zero => rfl
  | succ n ih =>
    rw [List.range_succ, List.filter_append, List.length_append, ih, cnt]
    by_cases h : f n <;> simp [h]

theorem liveCount_eq_cnt (g : G) : liveCount g = cnt g.live g.n := filter_range_length _ _

theorem cnt_congr {f f' : Nat → Bool} {n : Nat} (h : ∀ k, k < n → f k = f' k) : cnt f n = cnt f' n := by
  induction n with
  | zero => rfl
  | succ n ih => rw [cnt, cnt, ih (fun k hk => h k (by omega)), h n (by omega)]

theorem cnt_kill {f : Nat → Bool} {n k : Nat} (hk : k < n) (hf : f k = true) :
    cnt (fun j => if j = k then false else f j) n + 1 = cnt f n := by
  induction n with
  | zero => omega
  | succ n ih =>
    rw [cnt, cnt]
    by_cases e : n = k
    · subst e
      have : cnt (fun j => if j = n then false else f j) n = cnt f n :=
        cnt_congr (fun j hj => by have : j ≠ n := by omega
                                  simp [this])
      rw [this]; simp [hf]
    · have := ih (by omega)
      simp only [e, if_false]
      omega

theorem liveCount_kill_live {g : G} {k : Nat} (hk : k < g.n) (hl : g.live k = true) :
    liveCount (kill g k) + 1 = liveCount g := by
  rw [liveCount_eq_cnt, liveCount_eq_cnt]; exact cnt_kill hk hl

theorem liveCount_kill_dead {g : G} {k : Nat} (hl : g.live k = false) : liveCount (kill g k) = liveCount g := by
  rw [liveCount_eq_cnt, liveCount_eq_cnt]
  apply cnt_congr
  intro j _
  simp only [kill]; split
  · rename_i e; subst e; exact hl.symm
  · rfl

theorem liveCount_link (g : G) (p v : Nat) : liveCount (link g p v) = liveCount g + 1 := by
  rw [liveCount_eq_cnt, liveCount_eq_cnt]
  show cnt (link g p v).live (g.n + 1) = _
  rw [cnt]
  have : cnt (link g p v).live g.n = cnt g.live g.n :=
    cnt_congr (fun j hj => by have : j ≠ g.n := by omega
                              simp [link, this])
  rw [this]; simp [link]

theorem liveCount_congr {g g' : G} (hn : g'.n = g.n) (hl : g'.live = g.live) : liveCount g' = liveCount g := by
  unfold liveCount; rw [hn, hl]

theorem countP_zero_of_NoAcct {obs : List Obs} (h : NoAcct obs) {p : Obs → Bool}
    (hp : ∀ o, p o = true → o.acct = true) : obs.countP p = 0 := by
  rw [List.countP_eq_zero]
  intro o ho hpo
  have := hp o hpo
  rw [h o ho] at this; contradiction

theorem isOffer_acct (o : Obs) (h : o.isOffer = true) : o.acct = true := by
  cases o <;> simp [Obs.isOffer] at h <;> rfl
theorem isPollVal_acct (o : Obs) (h : o.isPollVal = true) : o.acct = true := by
  cases o with
  | lpPoll r => cases r <;> simp [Obs.isPollVal] at h <;> rfl
  | _ => simp [Obs.isPollVal] at h
theorem isRemoveLive_acct (o : Obs) (h : o.isRemoveLive = true) : o.acct = true := by
  cases o with
  | lpRemove k b => rfl
  | _ => simp [Obs.isRemoveLive] at h

/-- the accounting equation for one step -/
theorem accounting_step {t : Tid} {g g' : G} {l l' : L} {a : Act} {obs : List Obs}
    (hL : LInv g l) (hs : step t g l a = some (g', l', obs)) :
    liveCount g' + obs.countP Obs.isPollVal + obs.countP Obs.isRemoveLive
      = liveCount g + obs.countP Obs.isOffer ∧
    g'.n = g.n + obs.countP Obs.isOffer := by
  rcases step_effect hL hs with ⟨v', tl, p, rfl, _, rfl, ho⟩ | ⟨h, p, rfl, hp, hlive, rfl, ho⟩ |
      ⟨it, j, rfl, hj, rfl, rfl⟩ | ⟨h1, _, h3, h4⟩
  · rw [liveCount_link]
    rcases ho with rfl | rfl <;> exact ⟨rfl, rfl⟩
  · have := liveCount_kill_live hp hlive
    rcases ho with rfl | rfl <;>
      exact ⟨by show liveCount (kill g p) + 1 + 0 = liveCount g + 0; omega, rfl⟩
  · cases hl : g.live j
    · rw [liveCount_kill_dead hl]; exact ⟨rfl, rfl⟩
    · have := liveCount_kill_live hj hl
      exact ⟨by show liveCount (kill g j) + 0 + 1 = liveCount g + 0; omega, rfl⟩
  · rw [countP_zero_of_NoAcct h4 isOffer_acct, countP_zero_of_NoAcct h4 isPollVal_acct,
      countP_zero_of_NoAcct h4 isRemoveLive_acct, liveCount_congr h1 h3]
    exact ⟨rfl, h1⟩

theorem countP_tag (p : Obs → Bool) (t : Tid) (lg : List (Tid × Obs)) (obs : List Obs) :
    (lg ++ obs.map (fun o => (t, o))).countP (fun e => p e.2) = lg.countP (fun e => p e.2) + obs.countP p := by
  rw [List.countP_append, List.countP_map]; rfl

/-- accounting from an arbitrary reachable configuration -/
theorem accounting_from (c : Config M) (hc : Reach M c) (s : List (Tid × Act)) :
    liveCount (run M c s).1.g + polled (run M c s).2 + removed (run M c s).2
      = liveCount c.g + offered (run M c s).2 ∧
    (run M c s).1.g.n = c.g.n + offered (run M c s).2 := by
  refine run_ind (fun _ _ => True)
    (fun lg g _ => liveCount g + polled lg + removed lg = liveCount c.g + offered lg ∧ g.n = c.g.n + offered lg)
    ?_ s c hc ⟨rfl, rfl⟩ (fun _ _ => trivial)
  intro lg g ls t a g' l' obs hr hP _ hs
  have hL : LInv g (ls t) := (reach_invs hr t).2.1
  obtain ⟨h1, h2⟩ := accounting_step hL hs
  obtain ⟨i1, i2⟩ := hP
  simp only [polled, removed, offered, countP_tag] at i1 i2 ⊢
  omega

/-- **Accounting.** At any moment of any run from the initial state, every offered element is exactly one
    of: still queued, polled, removed; and there is one node per offered element plus the dummy. -/
theorem accounting (s : List (Tid × Act)) :
    let r := run M (Config.init M) s
    offered r.2 = liveCount r.1.g + polled r.2 + removed r.2 ∧ r.1.g.n = offered r.2 + 1 := by
  intro r
  obtain ⟨h1, h2⟩ := accounting_from (Config.init M) Reach.init s
  have e1 : liveCount (Config.init M).g = 0 := rfl
  have e2 : (Config.init M).g.n = 1 := rfl
  rw [e1] at h1; rw [e2] at h2
  show offered (run M (Config.init M) s).2 = liveCount (run M (Config.init M) s).1.g +
    polled (run M (Config.init M) s).2 + removed (run M (Config.init M) s).2 ∧
    (run M (Config.init M) s).1.g.n = offered (run M (Config.init M) s).2 + 1
  omega

/-! ## B. The node values are the offered values, in the order of the `lpOffer` markers -/

def Obs.offerVal : Obs → Option Nat | .lpOffer v => some v | _ => none

/-- the values of the `lpOffer` entries of a log, oldest first -/
def offeredVals (lg : List (Tid × Obs)) : List Nat := lg.filterMap (fun e => e.2.offerVal)

/-- the values of the linked nodes, in link order (position 0 is the dummy) -/
def nodeVals (g : G) : List Nat := (List.range g.n).map g.val

theorem offerVal_acct (o : Obs) (v : Nat) (h : o.offerVal = some v) : o.acct = true := by
  cases o <;> simp [Obs.offerVal] at h <;> rfl

theorem nodeVals_step {t : Tid} {g g' : G} {l l' : L} {a : Act} {obs : List Obs}
    (hL : LInv g l) (hs : step t g l a = some (g', l', obs)) :
    nodeVals g' = nodeVals g ++ obs.filterMap Obs.offerVal := by
  rcases step_effect hL hs with ⟨v', tl, p, rfl, _, rfl, ho⟩ | ⟨h, p, rfl, hp, hlive, rfl, ho⟩ |
      ⟨it, j, rfl, hj, rfl, rfl⟩ | ⟨h1, h2, _, h4⟩
  · have e1 : nodeVals (link g p v') = nodeVals g ++ [v'] := by
      show (List.range (g.n + 1)).map (link g p v').val = _
      rw [List.range_succ, List.map_append]
      congr 1
      · apply List.map_congr_left
        intro j hj
        have : j ≠ g.n := by have := List.mem_range.1 hj; omega
        simp [link, this]
      · simp [link]
    rw [e1]
    rcases ho with rfl | rfl <;> rfl
  · rcases ho with rfl | rfl <;> exact (List.append_nil (nodeVals g)).symm
  · cases g.live j <;> exact (List.append_nil (nodeVals g)).symm
  · have : obs.filterMap Obs.offerVal = [] := by
      rw [List.filterMap_eq_nil_iff]
      intro o ho
      cases e : o.offerVal with
      | none => rfl
      | some v => have := offerVal_acct o v e; rw [h4 o ho] at this; contradiction
    rw [this, List.append_nil]
    unfold nodeVals; rw [h1, h2]

theorem offeredVals_tag (t : Tid) (lg : List (Tid × Obs)) (obs : List Obs) :
    offeredVals (lg ++ obs.map (fun o => (t, o))) = offeredVals lg ++ obs.filterMap Obs.offerVal := by
  unfold offeredVals; rw [List.filterMap_append, List.filterMap_map]; rfl

theorem values_are_offered_from (c : Config M) (hc : Reach M c) (s : List (Tid × Act)) :
    nodeVals (run M c s).1.g = nodeVals c.g ++ offeredVals (run M c s).2 := by
  refine run_ind (fun _ _ => True) (fun lg g _ => nodeVals g = nodeVals c.g ++ offeredVals lg)
    ?_ s c hc (List.append_nil _).symm (fun _ _ => trivial)
  intro lg g ls t a g' l' obs hr hP _ hs
  have hL : LInv g (ls t) := (reach_invs hr t).2.1
  rw [nodeVals_step hL hs, hP, offeredVals_tag, List.append_assoc]

/-- in any run from the initial state, the node at position `k ≥ 1` carries the value of the `k`-th
    `lpOffer` of the log -/
theorem values_are_offered (s : List (Tid × Act)) :
    nodeVals (run M (Config.init M) s).1.g = 0 :: offeredVals (run M (Config.init M) s).2 :=
  values_are_offered_from (Config.init M) Reach.init s

/-! ## B. One traversal returns strictly increasing positions (A.4, trace level) -/

def Obs.itPos : Obs → Option Nat | .itNext pos _ => some pos | _ => none

/-- the positions returned by the `Next()` calls of thread `t`, oldest first -/
def itPositions (t : Tid) (lg : List (Tid × Obs)) : List Nat :=
  lg.filterMap (fun e => if e.1 = t then e.2.itPos else none)

theorem itPositions_tag (t t' : Tid) (lg : List (Tid × Obs)) (obs : List Obs) :
    itPositions t (lg ++ obs.map (fun o => (t', o))) =
      itPositions t lg ++ (if t' = t then obs.filterMap Obs.itPos else []) := by
  unfold itPositions
  rw [List.filterMap_append, List.filterMap_map]
  congr 1
  by_cases h : t' = t
  · simp only [h, if_true]; congr 1; funext o; simp [Function.comp]
  · simp only [h, if_false]
    rw [List.filterMap_eq_nil_iff]; intro o _; simp [h]

/-- the positions emitted by one step: none, or exactly the one of the `itNext` marker -/
theorem itPos_obs {t : Tid} {g g' : G} {l l' : L} {a : Act} {obs : List Obs}
    (hG : GInv g) (hL : LInv g l) (hI : IterInv g l) (hs : step t g l a = some (g', l', obs)) :
    (obs.filterMap Obs.itPos = [] ∧ ∀ pos v, Obs.itNext pos v ∉ obs) ∨
    (∃ pos v, Obs.itNext pos v ∈ obs ∧ obs.filterMap Obs.itPos = [pos]) := by
  cases e : obs.filterMap Obs.itPos with
  | nil =>
    refine Or.inl ⟨rfl, fun pos v hm => ?_⟩
    have := (List.filterMap_eq_nil_iff.1 e) _ hm
    simp [Obs.itPos] at this
  | cons pos rest =>
    have : pos ∈ obs.filterMap Obs.itPos := by rw [e]; exact List.mem_cons_self ..
    obtain ⟨o, ho, hpo⟩ := List.mem_filterMap.1 this
    cases o <;> simp [Obs.itPos] at hpo
    rename_i pos' v; subst hpo
    obtain ⟨_, hobs, _⟩ := itNext_step hG hL hI hs ho
    refine Or.inr ⟨pos', v, ho, ?_⟩
    rw [← e, hobs]; rfl

/-- `x` is at most the position returned last by this iterator object -/
def BelowIt (x : Nat) (it : Iter) : Prop := ∃ r, it.prev = some r ∧ x ≤ r

def BelowC (x : Nat) : Cont → Prop
  | .iter it => BelowIt x it
  | _ => True

/-- "`x` may have been returned already by the current iterator of the thread at this pc": false while
    the iterator is under construction, `x ≤ prev` for an existing iterator, true without an iterator -/
def Below (x : Nat) : L → Prop
  | .k0 m | .k1 m _ _ | .k2 m _ _ => m ≠ .iter
  | .u1 _ _ k | .u2 _ k => BelowC x k
  | .idleIt it | .n0 it _ | .n0h it _ | .n1 it _ _ | .n2 it _ _ | .n2h it _ _ | .n3 it _ _ _ | .r0 it _ => BelowIt x it
  | _ => True

theorem Below_finish {x : Nat} {k : Cont} (h : BelowC x k) : Below x (finish k).1 := by
  cases k with
  | ret r => trivial
  | size p => cases p <;> trivial
  | iter it => exact h

theorem Below_goUpd {x : Nat} (h tgt : Nat) {k : Cont} (hk : BelowC x k) : Below x (goUpd h tgt k).1 := by
  unfold goUpd; split
  · exact Below_finish hk
  · exact hk

theorem BelowC_foundLive {x : Nat} {m : Mode} (hm : m ≠ .iter) (p v : Nat) : BelowC x (foundLive m p v).2 := by
  cases m <;> first | trivial | exact absurd rfl hm

theorem BelowC_foundNone {x : Nat} {m : Mode} (hm : m ≠ .iter) : BelowC x (foundNone m).2 := by
  cases m <;> first | trivial | exact absurd rfl hm

theorem Below_iterOf {x : Nat} {l : L} {it : Iter} (h : iterOf l = some it) (hB : Below x l) : BelowIt x it := by
  cases l
  case u1 h' tgt k => cases k <;> simp [iterOf] at h; subst h; exact hB
  case u2 h' k => cases k <;> simp [iterOf] at h; subst h; exact hB
  all_goals (simp [iterOf] at h; try (subst h; exact hB))

/-- a step that neither invokes `Iterator()` nor returns from `Next()` keeps `Below` -/
theorem below_step {t : Tid} {g g' : G} {l l' : L} {a : Act} {obs : List Obs} {x : Nat}
    (hs : step t g l a = some (g', l', obs)) (ha : a ≠ .iterator) (hno : ∀ pos v, Obs.itNext pos v ∉ obs)
    (hB : Below x l) : Below x l' := by
  step_cases
  case k1.tau =>
    step_split
    · exact Below_goUpd _ _ (BelowC_foundLive hB _ _)
    · exact hB
  case k2.tau =>
    step_split
    · exact Below_goUpd _ _ (BelowC_foundNone hB)
    · exact hB
    · exact hB
  case p3.tau => step_split <;> exact Below_goUpd _ _ trivial
  case p4.tau =>
    step_split
    · exact Below_goUpd _ _ trivial
    · trivial
    · trivial
  case u1.tau =>
    step_split
    · exact hB
    · exact Below_finish hB
  case u2.tau => step_split; exact Below_finish hB
  case s2.tau =>
    step_split
    · trivial
    · exact fun h => by cases h
    · trivial
  case n0.tau =>
    step_split
    · exact absurd (List.mem_cons_self ..) (hno _ _)
    · exact hB
    · exact hB
  case n1.tau =>
    step_split
    · exact absurd (List.mem_cons_self ..) (hno _ _)
    · exact hB
  case n2.tau =>
    step_split
    · exact absurd (List.mem_cons_self ..) (hno _ _)
    · exact hB
    · exact hB
  all_goals (step_split <;> first | exact hB | trivial | exact fun h => by cases h)

theorem traversal_inv (c : Config M) (hc : Reach M c) (t : Tid) (s : List (Tid × Act))
    (hs : ∀ e ∈ s, ¬ (e.1 = t ∧ e.2 = Act.iterator)) :
    (itPositions t (run M c s).2).Pairwise (· < ·) ∧
    ∀ x ∈ itPositions t (run M c s).2, Below x ((run M c s).1.l t) := by
  refine run_ind (fun t' a => ¬ (t' = t ∧ a = Act.iterator))
    (fun lg _ ls => (itPositions t lg).Pairwise (· < ·) ∧ ∀ x ∈ itPositions t lg, Below x (ls t))
    ?_ s c hc ⟨List.Pairwise.nil, fun x hx => by simp [itPositions] at hx⟩ hs
  intro lg g ls t' a g' l' obs hr ⟨hP1, hP2⟩ hA hstep
  rw [itPositions_tag]
  by_cases htt : t' = t
  · subst htt
    simp only [if_true, upd_same]
    have hG : GInv g := (reach_invs hr t').1
    have hL : LInv g (ls t') := (reach_invs hr t').2.1
    have hI : IterInv g (ls t') := (reach_invs hr t').2.2
    rcases itPos_obs hG hL hI hstep with ⟨e, hno⟩ | ⟨pos, v, hm, e⟩
    · rw [e, List.append_nil]
      exact ⟨hP1, fun x hx => below_step hstep (fun h => hA ⟨rfl, h⟩) hno (hP2 x hx)⟩
    · rw [e]
      obtain ⟨_, _, it, it', h1, h2, _, _, _, _, _, h3, h4, _⟩ := itNext_step hG hL hI hstep hm
      have hlt : ∀ x ∈ itPositions t' lg, x < pos := by
        intro x hx
        obtain ⟨r, hr1, hr2⟩ := Below_iterOf h1 (hP2 x hx)
        have := h3 r hr1; omega
      refine ⟨List.pairwise_append.2 ⟨hP1, List.pairwise_singleton _ _, fun x hx y hy => ?_⟩, fun x hx => ?_⟩
      · rw [List.mem_singleton.1 hy]; exact hlt x hx
      · subst h2
        refine ⟨pos, h4, ?_⟩
        rcases List.mem_append.1 hx with hx | hx
        · exact Nat.le_of_lt (hlt x hx)
        · rw [List.mem_singleton.1 hx]; exact Nat.le_refl _
  · simp only [htt, if_false, List.append_nil, upd_other _ _ _ _ (Ne.symm htt)]
    exact ⟨hP1, hP2⟩

/-- **A.4 (trace level).** From any reachable configuration and for any schedule in which thread `t` does
    not invoke `Iterator()` again (so that all `Next()` calls of `t` belong to one iterator object), the
    positions returned to `t` are strictly increasing: each element at most once, in queue order. -/
theorem traversal_strictly_increasing (c : Config M) (hc : Reach M c) (t : Tid) (s : List (Tid × Act))
    (hs : ∀ e ∈ s, ¬ (e.1 = t ∧ e.2 = Act.iterator)) :
    (itPositions t (run M c s).2).Pairwise (· < ·) :=
  (traversal_inv c hc t s hs).1

theorem traversal_nodup (c : Config M) (hc : Reach M c) (t : Tid) (s : List (Tid × Act))
    (hs : ∀ e ∈ s, ¬ (e.1 = t ∧ e.2 = Act.iterator)) :
    (itPositions t (run M c s).2).Nodup :=
  List.nodup_iff_pairwise_ne.2
    ((traversal_strictly_increasing c hc t s hs).imp (fun h => Nat.ne_of_lt h))

/-! ## B. A traversal returns every element that stays in the queue (A.5, trace level) -/

/-- dead nodes stay dead along runs -/
theorem run_live_mono (c : Config M) (hc : Reach M c) (s : List (Tid × Act)) (k : Nat) (hk : k < c.g.n)
    (h : (run M c s).1.g.live k = true) : c.g.live k = true := by
  have := run_ind (fun _ _ => True) (fun _ g _ => c.g.n ≤ g.n ∧ (c.g.live k = false → g.live k = false))
    ?_ s c hc ⟨Nat.le_refl _, id⟩ (fun _ _ => trivial)
  · cases e : c.g.live k with
    | true => rfl
    | false => rw [this.2 e] at h; contradiction
  · intro lg g ls t a g' l' obs hr ⟨h1, h2⟩ _ hs
    have hG : GInv g := (reach_invs hr t).1
    have hL : LInv g (ls t) := (reach_invs hr t).2.1
    exact ⟨Nat.le_trans h1 (n_mono_step hs), fun e => live_only_dies hG hL hs k (by omega) (h2 e)⟩

/-- the iterator has not yet passed position `k` -/
def AheadIt (k : Nat) (it : Iter) : Prop := ∃ p, it.nextNode = some p ∧ p ≤ k

def AheadC (k : Nat) : Cont → Prop
  | .iter it => AheadIt k it
  | _ => True

/-- the traversal of the thread at this pc (construction or iterator) has not yet passed position `k` -/
def Ahead (k : Nat) : L → Prop
  | .k1 _ _ p => p ≤ k
  | .k2 _ _ p => p < k
  | .u1 _ _ c | .u2 _ c => AheadC k c
  | .idleIt it | .n0 it _ | .n0h it _ | .n1 it _ _ | .n2 it _ _ | .n2h it _ _ | .n3 it _ _ _ | .r0 it _ => AheadIt k it
  | _ => True

theorem Ahead_finish {k : Nat} {c : Cont} (h : AheadC k c) : Ahead k (finish c).1 := by
  cases c with
  | ret r => trivial
  | size p => cases p <;> trivial
  | iter it => exact h

theorem Ahead_goUpd {k : Nat} (h tgt : Nat) {c : Cont} (hc : AheadC k c) : Ahead k (goUpd h tgt c).1 := by
  unfold goUpd; split
  · exact Ahead_finish hc
  · exact hc

theorem AheadC_foundLive {k : Nat} (m : Mode) {p : Nat} (v : Nat) (h : p ≤ k) : AheadC k (foundLive m p v).2 := by
  cases m <;> first | trivial | exact ⟨p, rfl, h⟩

/-- one step of the traversing thread: a node `k` that is live and not yet passed is returned by this
    step or is still not passed afterwards -/
theorem ahead_step {t : Tid} {g g' : G} {l l' : L} {a : Act} {obs : List Obs} {k : Nat}
    (hG : GInv g) (hL : LInv g l) (hI : IterInv g l) (hs : step t g l a = some (g', l', obs))
    (hk : k < g.n) (hlive : g.live k = true) (hA : Ahead k l) :
    k ∈ obs.filterMap Obs.itPos ∨ Ahead k l' := by
  have hdead : ∀ j, g.live j = false → j ≠ k := fun j hj e => by subst e; rw [hlive] at hj; contradiction
  step_cases
  case k0.tau =>
    step_split
    refine Or.inr ?_
    show g.head ≤ k
    rcases Nat.lt_or_ge k g.head with h | h
    · exact absurd rfl (hdead k (hG.dead_before_head k h))
    · exact h
  case k1.tau =>
    rename_i m h p
    split at hs
    · simp at hs; obtain ⟨rfl, rfl, rfl⟩ := hs
      exact Or.inr (Ahead_goUpd _ _ (AheadC_foundLive m _ hA))
    · rename_i hd
      simp at hs; obtain ⟨rfl, rfl, rfl⟩ := hs
      refine Or.inr ?_
      show p < k
      have : p ≠ k := hdead p (by simpa using hd)
      have : p ≤ k := hA
      omega
  case k2.tau =>
    rename_i m h p
    have hA' : p < k := hA
    split at hs
    · rename_i hnone
      have := (hG.last p hL.2.1).1 hnone
      omega
    · rename_i q hq
      split at hs <;> (simp at hs; obtain ⟨rfl, rfl, rfl⟩ := hs)
      · exact Or.inr trivial
      · rename_i hne
        refine Or.inr ?_
        show q ≤ k
        rcases (hG.fwd p q hL.2.1 hq).2 with e | ⟨_, e2⟩
        · exact absurd e hne
        · rcases Nat.lt_or_ge k q with h' | h'
          · exact absurd rfl (hdead k (e2 k hA' h'))
          · exact h'
  case p3.tau => step_split <;> exact Or.inr (Ahead_goUpd _ _ trivial)
  case p4.tau =>
    step_split
    · exact Or.inr (Ahead_goUpd _ _ trivial)
    · exact Or.inr trivial
    · exact Or.inr trivial
  case u1.tau =>
    step_split
    · exact Or.inr hA
    · exact Or.inr (Ahead_finish hA)
  case u2.tau => step_split; exact Or.inr (Ahead_finish hA)
  case n0.tau =>
    rename_i it pred
    obtain ⟨p, hp1, hp2⟩ := hA
    rw [hI.1] at hp1; cases hp1
    step_split
    · rename_i hnone
      have := (hG.last _ hL.1).1 hnone
      have : k = pred := by omega
      subst this
      exact Or.inl (List.mem_cons_self ..)
    · exact Or.inr ⟨pred, hI.1, hp2⟩
    · exact Or.inr ⟨pred, hI.1, hp2⟩
  case n1.tau =>
    rename_i it pred q
    obtain ⟨p, hp1, hp2⟩ := hA
    rw [hI.1] at hp1; cases hp1
    obtain ⟨hpp, hpn, hdb, _⟩ := hL
    step_split
    · rcases Nat.eq_or_lt_of_le hp2 with e | e
      · subst e; exact Or.inl (List.mem_cons_self ..)
      · refine Or.inr ⟨q, rfl, ?_⟩
        rcases Nat.lt_or_ge k q with h' | h'
        · exact absurd rfl (hdead k (hdb k e h'))
        · exact h'
    · exact Or.inr ⟨pred, hI.1, hp2⟩
  case n2.tau =>
    rename_i it pred q
    obtain ⟨p, hp1, hp2⟩ := hA
    rw [hI.1] at hp1; cases hp1
    obtain ⟨hpp, hpn, hdb, _⟩ := hL
    step_split
    · rename_i hnone
      have := (hG.last q hpn).1 hnone
      rcases Nat.eq_or_lt_of_le hp2 with e | e
      · subst e; exact Or.inl (List.mem_cons_self ..)
      · exact absurd rfl (hdead k (hdb k e (by omega)))
    · exact Or.inr ⟨pred, hI.1, hp2⟩
    · exact Or.inr ⟨pred, hI.1, hp2⟩
  all_goals (step_split <;> first | exact Or.inr hA | exact Or.inr trivial)

/-- **A.5 (trace level), general form.** Let `n0 ≤ c.g.n` and suppose the traversal of thread `t` has at `c`
    not yet passed any live node below `n0` (e.g. `Iterator()` was just invoked).  Then after any schedule,
    every node below `n0` that is still live (hence was live all the time, `run_live_mono`) has been
    returned to `t` or has still not been passed. -/
theorem traversal_complete_gen (c : Config M) (hc : Reach M c) (t : Tid) (s : List (Tid × Act))
    (n0 : Nat) (hn0 : n0 ≤ c.g.n) (h0 : ∀ k, k < n0 → c.g.live k = true → Ahead k (c.l t)) :
    ∀ k, k < n0 → (run M c s).1.g.live k = true →
      k ∈ itPositions t (run M c s).2 ∨ Ahead k ((run M c s).1.l t) := by
  have := run_ind (fun _ _ => True)
    (fun lg g ls => n0 ≤ g.n ∧ ∀ k, k < n0 → g.live k = true → k ∈ itPositions t lg ∨ Ahead k (ls t))
    ?_ s c hc ⟨hn0, fun k hk hl => Or.inr (h0 k hk hl)⟩ (fun _ _ => trivial)
  · exact this.2
  · intro lg g ls t' a g' l' obs hr ⟨h1, h2⟩ _ hstep
    have hG : GInv g := (reach_invs hr t').1
    have hL : LInv g (ls t') := (reach_invs hr t').2.1
    have hI : IterInv g (ls t') := (reach_invs hr t').2.2
    refine ⟨Nat.le_trans h1 (n_mono_step hstep), fun k hk hl' => ?_⟩
    have hl : g.live k = true := by
      cases e : g.live k with
      | true => rfl
      | false => rw [live_only_dies hG hL hstep k (by omega) e] at hl'; contradiction
    rw [itPositions_tag]
    by_cases htt : t' = t
    · subst htt
      simp only [if_true, upd_same]
      rcases h2 k hk hl with h | h
      · exact Or.inl (List.mem_append_left _ h)
      · rcases ahead_step hG hL hI hstep (by omega) hl h with h' | h'
        · exact Or.inl (List.mem_append_right _ h')
        · exact Or.inr h'
    · simp only [htt, if_false, List.append_nil, upd_other _ _ _ _ (Ne.symm htt)]
      exact h2 k hk hl

/-- **A.5 (trace level).** Thread `t` has just invoked `Iterator()` at the reachable configuration `c`.
    If after the schedule `s` its iterator is exhausted (`nextNode = none`, `HasNext() = false`), then every
    element that was in the list at `c` and is still live at the end (hence was live during the whole
    traversal) has been returned by a `Next()` of `t`.  (With `traversal_strictly_increasing`: exactly once,
    if `s` contains no further `Iterator()` invocation of `t`.) -/
theorem traversal_complete (c : Config M) (hc : Reach M c) (t : Tid) (s : List (Tid × Act))
    (hstart : c.l t = .k0 .iter) {it : Iter} (hend : (run M c s).1.l t = .idleIt it)
    (hex : it.nextNode = none) :
    ∀ k, k < c.g.n → (run M c s).1.g.live k = true → k ∈ itPositions t (run M c s).2 := by
  intro k hk hl
  rcases traversal_complete_gen c hc t s c.g.n (Nat.le_refl _) (fun _ _ _ => by rw [hstart]; trivial) k hk hl
    with h | h
  · exact h
  · rw [hend] at h
    obtain ⟨p, hp, _⟩ := h
    rw [hex] at hp; contradiction

/-- the same while the traversal is still under way: everything before the element that `Next()` will return
    next has been returned, if it is still live -/
theorem traversal_complete_upto (c : Config M) (hc : Reach M c) (t : Tid) (s : List (Tid × Act))
    (hstart : c.l t = .k0 .iter) {it : Iter} (hend : (run M c s).1.l t = .idleIt it)
    {p : Nat} (hp : it.nextNode = some p) :
    ∀ k, k < c.g.n → k < p → (run M c s).1.g.live k = true → k ∈ itPositions t (run M c s).2 := by
  intro k hk hkp hl
  rcases traversal_complete_gen c hc t s c.g.n (Nat.le_refl _) (fun _ _ _ => by rw [hstart]; trivial) k hk hl
    with h | h
  · exact h
  · rw [hend] at h
    obtain ⟨q, hq, hqk⟩ := h
    rw [hp] at hq; cases hq; omega

/-! ## B. The iterator returns only offered values (A.3, trace level) -/

/-- every `itNext pos v` of a log is backed by a linked node `pos ≥ 1` with value `v` -/
theorem itNext_log_inv (c : Config M) (hc : Reach M c) (s : List (Tid × Act)) :
    ∀ t pos v, (t, Obs.itNext pos v) ∈ (run M c s).2 →
      0 < pos ∧ pos < (run M c s).1.g.n ∧ v = (run M c s).1.g.val pos := by
  refine run_ind (fun _ _ => True)
    (fun lg g _ => ∀ t pos v, (t, Obs.itNext pos v) ∈ lg → 0 < pos ∧ pos < g.n ∧ v = g.val pos)
    ?_ s c hc (fun _ _ _ h => by simp at h) (fun _ _ => trivial)
  intro lg g ls t a g' l' obs hr hP _ hstep t' pos v hm
  have hG : GInv g := (reach_invs hr t).1
  have hL : LInv g (ls t) := (reach_invs hr t).2.1
  have hI : IterInv g (ls t) := (reach_invs hr t).2.2
  rcases List.mem_append.1 hm with h | h
  · obtain ⟨a1, a2, a3⟩ := hP t' pos v h
    exact ⟨a1, Nat.lt_of_lt_of_le a2 (n_mono_step hstep), by rw [val_stable hstep pos a2]; exact a3⟩
  · obtain ⟨o, ho, e⟩ := List.mem_map.1 h
    cases e
    obtain ⟨rfl, _, _, _, _, _, _, _, a1, a2, a3, _⟩ := itNext_step hG hL hI hstep ho
    exact ⟨a1, a2, a3⟩

/-- **A.3 (trace level).** In any run from the initial state, a value returned by `Next()` at position `pos`
    is the value of the `pos`-th `lpOffer` of the log: the iterator returns only offered values. -/
theorem iterator_returns_offered (s : List (Tid × Act)) (t : Tid) (pos v : Nat)
    (hm : (t, Obs.itNext pos v) ∈ (run M (Config.init M) s).2) :
    0 < pos ∧ (offeredVals (run M (Config.init M) s).2)[pos - 1]? = some v := by
  obtain ⟨h1, h2, h3⟩ := itNext_log_inv (Config.init M) Reach.init s t pos v hm
  refine ⟨h1, ?_⟩
  have e : (nodeVals (run M (Config.init M) s).1.g)[pos]? = some v := by
    unfold nodeVals
    rw [List.getElem?_map, List.getElem?_range h2, h3]; rfl
  rw [values_are_offered s] at e
  obtain ⟨q, rfl⟩ : ∃ q, pos = q + 1 := ⟨pos - 1, by omega⟩
  rw [List.getElem?_cons_succ] at e
  simpa using e

end Garr.Queue

