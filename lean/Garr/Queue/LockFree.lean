import Garr.Queue.Term
/-!
# C07 (lock-freedom): no interleaving can livelock the queue — bounded TOTAL work

`Term.lean` proves obstruction-freedom (`C07_solo_bound`: a thread running ALONE finishes within
`16·n+15` own steps).  This file proves the interleaved statement: from every reachable configuration,
EVERY executable schedule without new invocations — any interleaving of any number of threads, fair or
not — has length at most an explicit `F n k` (`n` linked nodes, `k` threads involved).  So there is no
infinite run of internal steps (no livelock), a non-resting thread always has an enabled step
(`nonblocking`, no deadlock), hence every maximal run is finite and ends with every thread at rest,
and under every fair infinite schedule every operation returns.

Proof: a ranking function `Phi = Psi · B + Σ_t mu`.

* `Σ_t mu` (the obstruction-freedom measure of `Term.lean`, summed over the participating threads)
  strictly decreases on every step that leaves the shared state `g` unchanged: the stepping thread's
  `mu` decreases (`mu_dec`), every other thread's `mu g l_u` is unchanged because `g` and `l_u` are.
* `Psi = 2·(N − head) + Σ_t psiL N l_t` is a "history" potential that never increases and strictly
  decreases on every step that changes `g`.  `N` is a fixed upper bound on the final number of nodes
  (`n` + number of `Offer`s that have not linked yet, invariant under internal steps).  The writes:
  - `o2` link CAS: once per `Offer` (`psiL`: 2 → 1/0);   `o3` tail CAS: once per `Offer` (1 → 0);
  - `p2` item CAS: once per `Poll` (1 → 0);               `r0` item store: once per `Remove` (1 → 0);
  - `u1` head CAS: `head` moves strictly forward (`2·(N − head)` drops by ≥ 2, `psiL` 0 → 1);
  - `u2` self-link store: once per successful head CAS (1 → 0);
  - `n3` unlink CAS: the cursor `p` of `Next` moves strictly forward (`psiL = N − p`).
* A step that changes `g` may increase `Σ mu`, but only up to `k·(16N+15) < B`.
-/
namespace Garr.Queue.LockFree
open Garr.Conc Garr.Queue

set_option backward.isDefEq.respectTransparency false

/-! ## Executable schedules -/

/-- `Exec c σ c'`: the schedule `σ` is executable from `c` — every listed step is enabled when its
    turn comes — and leads to `c'`. -/
inductive Exec : Config M → List (Tid × Act) → Config M → Prop
  | nil (c : Config M) : Exec c [] c
  | cons {c : Config M} {t : Tid} {a : Act} {g' : G} {l' : L} {obs : List Obs}
      {σ : List (Tid × Act)} {c' : Config M} :
      step t c.g (c.l t) a = some (g', l', obs) → Exec ⟨g', upd c.l t l'⟩ σ c' → Exec c ((t, a) :: σ) c'

/-- number of invocations (non-`tau` actions) in a schedule -/
def invs : List (Tid × Act) → Nat
  | [] => 0
  | (_, a) :: σ => (if a = Act.tau then 0 else 1) + invs σ

/-- only internal steps: no new invocation -/
def TauOnly (σ : List (Tid × Act)) : Prop := ∀ x ∈ σ, x.2 = Act.tau

instance (σ : List (Tid × Act)) : Decidable (TauOnly σ) := by unfold TauOnly; infer_instance

/-! ## The local potentials -/

/-- an `Offer` that has not linked its node yet (it will increase `n` by one) -/
def pre : L → Nat
  | .o0 _ => 1
  | .o1 _ _ _ => 1
  | .o2 _ _ _ => 1
  | .o4 _ _ _ => 1
  | .o4b _ _ => 1
  | .o5 _ _ _ _ => 1
  | _ => 0

/-- the thread-local part of the history potential: how many writes this operation may still perform
    that are not paid for by the forward movement of `head` -/
def psiL (N : Nat) : L → Nat
  | .idle => 0
  | .idleIt _ => 0
  | .o0 _ => 2
  | .o1 _ _ _ => 2
  | .o2 _ _ _ => 2
  | .o3 _ _ => 1
  | .o4 _ _ _ => 2
  | .o4b _ _ => 2
  | .o5 _ _ _ _ => 2
  | .p0 => 1
  | .p1 _ _ => 1
  | .p2 _ _ => 1
  | .p3 _ _ _ => 0
  | .p4 _ _ => 1
  | .k0 _ => 0
  | .k1 _ _ _ => 0
  | .k2 _ _ _ => 0
  | .u1 _ _ _ => 0
  | .u2 _ _ => 1
  | .s1 _ _ => 0
  | .s2 _ _ => 0
  | .n0 _ _ => N
  | .n0h _ _ => N
  | .n1 _ _ p => N - p
  | .n2 _ _ p => N - p
  | .n2h _ _ p => N - p
  | .n3 _ _ p _ => N - p
  | .r0 _ _ => 1

/-- the shared part of the history potential -/
def shared (N : Nat) (g : G) : Nat := 2 * (N - g.head)

theorem psiL_le (N : Nat) (l : L) : psiL N l ≤ N + 2 := by
  cases l <;> simp only [psiL] <;> omega

theorem pre_le (l : L) : pre l ≤ 1 := by
  cases l <;> simp only [pre] <;> omega

theorem psiL_finish (N : Nat) (k : Cont) : psiL N (finish k).1 = 0 := by
  cases k with
  | ret r => rfl
  | size p => cases p <;> rfl
  | iter it => rfl

theorem pre_finish (k : Cont) : pre (finish k).1 = 0 := by
  cases k with
  | ret r => rfl
  | size p => cases p <;> rfl
  | iter it => rfl

theorem psiL_goUpd (N : Nat) (h tgt : Nat) (k : Cont) : psiL N (goUpd h tgt k).1 = 0 := by
  unfold goUpd; split
  · exact psiL_finish N k
  · rfl

theorem pre_goUpd (h tgt : Nat) (k : Cont) : pre (goUpd h tgt k).1 = 0 := by
  unfold goUpd; split
  · exact pre_finish k
  · rfl

theorem mu_rest {g : G} {l : L} (h : atRest l = true) : mu g l = 0 := by
  cases l <;> simp [atRest] at h <;> rfl

theorem tau_not_rest {t : Tid} {g : G} {l : L} {r : G × L × List Obs}
    (hs : step t g l .tau = some r) : atRest l = false := by
  cases l <;> simp only [step] at hs <;> first | contradiction | rfl

theorem nontau_g {t : Tid} {g g' : G} {l l' : L} {a : Act} {obs : List Obs} (ha : a ≠ Act.tau)
    (hs : step t g l a = some (g', l', obs)) : g' = g := by
  cases l <;> cases a <;> simp only [step] at hs <;> try contradiction
  all_goals first
    | (simp at hs; exact hs.1.symm)
    | (split at hs <;> (simp at hs; exact hs.1.symm))

/-! ## One internal step and the history potential -/

local macro "same" : tactic => `(tactic| (refine ⟨by simp only [pre]; omega, Or.inl ⟨rfl, ?_⟩⟩; simp only [psiL]; omega))

/-- An internal step never creates a pending link (`n + pre` does not grow); it either leaves the
    shared state untouched and does not increase the local potential, or strictly decreases
    `shared + psiL`. -/
theorem psi_step {t : Tid} {g g' : G} {l l' : L} {obs : List Obs} {N : Nat}
    (hG : GInv g) (hL : LInv g l) (hN : g.n + pre l ≤ N)
    (hs : step t g l .tau = some (g', l', obs)) :
    g'.n + pre l' ≤ g.n + pre l ∧
    ((g' = g ∧ psiL N l' ≤ psiL N l) ∨ shared N g' + psiL N l' + 1 ≤ shared N g + psiL N l) := by
  have hhead := hG.head_lt
  cases l <;> simp only [step] at hs <;> try contradiction
  all_goals simp only [LInv] at hL
  case o0 =>
    simp at hs; obtain ⟨rfl, rfl, _⟩ := hs; same
  case o1 =>
    split at hs
    · simp at hs; obtain ⟨rfl, rfl, _⟩ := hs; same
    · split at hs
      · simp at hs; obtain ⟨rfl, rfl, _⟩ := hs; same
      · split at hs <;> (simp at hs; obtain ⟨rfl, rfl, _⟩ := hs) <;> same
  case o2 =>
    split at hs
    · split at hs <;> (simp at hs; obtain ⟨rfl, rfl, _⟩ := hs) <;>
        (refine ⟨by simp only [pre, link_n]; omega, Or.inr ?_⟩; simp only [psiL, shared, link]; omega)
    · simp at hs; obtain ⟨rfl, rfl, _⟩ := hs; same
  case o3 =>
    simp at hs; obtain ⟨rfl, rfl, _⟩ := hs
    refine ⟨by split <;> simp only [pre] <;> omega, Or.inr ?_⟩
    split <;> simp only [psiL, shared] <;> omega
  case o4 =>
    split at hs <;> (simp at hs; obtain ⟨rfl, rfl, _⟩ := hs) <;> same
  case o4b =>
    simp at hs; obtain ⟨rfl, rfl, _⟩ := hs; same
  case o5 =>
    split at hs <;> (simp at hs; obtain ⟨rfl, rfl, _⟩ := hs) <;> same
  case p0 =>
    simp at hs; obtain ⟨rfl, rfl, _⟩ := hs; same
  case p1 =>
    split at hs <;> (simp at hs; obtain ⟨rfl, rfl, _⟩ := hs) <;> same
  case p2 =>
    split at hs
    · split at hs <;> (simp at hs; obtain ⟨rfl, rfl, _⟩ := hs) <;>
        (refine ⟨by simp only [pre, kill_n]; omega, Or.inr ?_⟩; simp only [psiL, shared, kill]; omega)
    · simp at hs; obtain ⟨rfl, rfl, _⟩ := hs; same
  case p3 =>
    split at hs <;> (simp at hs; obtain ⟨rfl, hl, _⟩ := hs; rw [← hl]) <;>
      exact ⟨by rw [pre_goUpd]; omega, Or.inl ⟨rfl, by rw [psiL_goUpd]; omega⟩⟩
  case p4 =>
    split at hs
    · simp at hs; obtain ⟨rfl, hl, _⟩ := hs; rw [← hl]
      exact ⟨by rw [pre_goUpd]; omega, Or.inl ⟨rfl, by rw [psiL_goUpd]; omega⟩⟩
    · split at hs <;> (simp at hs; obtain ⟨rfl, rfl, _⟩ := hs) <;> same
  case k0 =>
    simp at hs; obtain ⟨rfl, rfl, _⟩ := hs; same
  case k1 =>
    split at hs
    · simp at hs; obtain ⟨rfl, hl, _⟩ := hs; rw [← hl]
      exact ⟨by rw [pre_goUpd]; omega, Or.inl ⟨rfl, by rw [psiL_goUpd]; omega⟩⟩
    · simp at hs; obtain ⟨rfl, rfl, _⟩ := hs; same
  case k2 =>
    split at hs
    · simp at hs; obtain ⟨rfl, hl, _⟩ := hs; rw [← hl]
      exact ⟨by rw [pre_goUpd]; omega, Or.inl ⟨rfl, by rw [psiL_goUpd]; omega⟩⟩
    · split at hs <;> (simp at hs; obtain ⟨rfl, rfl, _⟩ := hs) <;> same
  case u1 =>
    rename_i h tgt k
    split at hs
    · rename_i hh
      simp at hs; obtain ⟨rfl, rfl, _⟩ := hs
      refine ⟨by simp only [pre]; omega, Or.inr ?_⟩
      simp only [pre] at hN
      simp only [psiL, shared]; omega
    · simp at hs; obtain ⟨rfl, hl, _⟩ := hs; rw [← hl]
      exact ⟨by rw [pre_finish]; omega, Or.inl ⟨rfl, by rw [psiL_finish]; omega⟩⟩
  case u2 =>
    simp at hs; obtain ⟨rfl, hl, _⟩ := hs; rw [← hl]
    refine ⟨by rw [pre_finish]; simp only [setNext_n]; omega, Or.inr ?_⟩
    rw [psiL_finish]; simp only [psiL, shared, setNext]; omega
  case s1 =>
    split at hs
    · split at hs <;> (simp at hs; obtain ⟨rfl, rfl, _⟩ := hs) <;> same
    · simp at hs; obtain ⟨rfl, rfl, _⟩ := hs; same
  case s2 =>
    split at hs
    · simp at hs; obtain ⟨rfl, rfl, _⟩ := hs; same
    · split at hs <;> (simp at hs; obtain ⟨rfl, rfl, _⟩ := hs) <;> same
  case n0 =>
    split at hs
    · simp at hs; obtain ⟨rfl, rfl, _⟩ := hs; same
    · split at hs <;> (simp at hs; obtain ⟨rfl, rfl, _⟩ := hs) <;> same
  case n0h =>
    simp at hs; obtain ⟨rfl, rfl, _⟩ := hs; same
  case n1 =>
    split at hs <;> (simp at hs; obtain ⟨rfl, rfl, _⟩ := hs) <;> same
  case n2 =>
    split at hs
    · simp at hs; obtain ⟨rfl, rfl, _⟩ := hs; same
    · split at hs <;> (simp at hs; obtain ⟨rfl, rfl, _⟩ := hs) <;> same
  case n2h =>
    simp at hs; obtain ⟨rfl, rfl, _⟩ := hs; same
  case n3 =>
    obtain ⟨_, hpq, hqn, _⟩ := hL
    simp at hs; obtain ⟨rfl, rfl, _⟩ := hs
    simp only [pre] at hN
    split
    · refine ⟨by simp only [pre, setNext_n]; omega, Or.inr ?_⟩
      simp only [psiL, shared, setNext]; omega
    · refine ⟨by simp only [pre]; omega, Or.inl ⟨rfl, ?_⟩⟩
      simp only [psiL]; omega
  case r0 =>
    simp at hs; obtain ⟨rfl, rfl, _⟩ := hs
    refine ⟨by simp only [pre, kill_n]; omega, Or.inr ?_⟩
    simp only [psiL, shared, kill]; omega


/-- an invocation (non-`tau` step) leaves the shared state alone -/
theorem inv_step {t : Tid} {g g' : G} {l l' : L} {a : Act} {obs : List Obs} {N : Nat} (ha : a ≠ Act.tau)
    (hs : step t g l a = some (g', l', obs)) :
    g' = g ∧ pre l' ≤ pre l + 1 ∧ psiL N l' ≤ psiL N l + (N + 2) :=
  ⟨nontau_g ha hs, by have := pre_le l'; omega, by have := psiL_le N l'; omega⟩

/-! ## Sums over a finite list of threads -/

/-- `Σ_{t ∈ ts} f t` -/
def sumL : List Tid → (Tid → Nat) → Nat
  | [], _ => 0
  | t :: ts, f => f t + sumL ts f

theorem sumL_congr {ts : List Tid} {f f' : Tid → Nat} (h : ∀ u, u ∈ ts → f' u = f u) :
    sumL ts f' = sumL ts f := by
  induction ts with
  | nil => rfl
  | cons a ts ih =>
    simp only [sumL]
    rw [h a (List.mem_cons_self ..), ih (fun u hu => h u (List.mem_cons_of_mem _ hu))]

/-- changing the summand at one thread of a duplicate-free list -/
theorem sumL_upd {ts : List Tid} {f f' : Tid → Nat} {t : Tid} (hnd : ts.Nodup) (ht : t ∈ ts)
    (h : ∀ u, u ≠ t → f' u = f u) : sumL ts f' + f t = sumL ts f + f' t := by
  induction ts with
  | nil => cases ht
  | cons a ts ih =>
    simp only [sumL]
    rw [List.nodup_cons] at hnd
    by_cases hat : a = t
    · subst hat
      have : sumL ts f' = sumL ts f :=
        sumL_congr (fun u hu => h u (fun e => hnd.1 (e ▸ hu)))
      omega
    · have ht' : t ∈ ts := by
        rcases List.mem_cons.1 ht with e | e
        · exact absurd e.symm hat
        · exact e
      have := ih hnd.2 ht'
      have := h a hat
      omega

theorem sumL_le {ts : List Tid} {f : Tid → Nat} {b : Nat} (h : ∀ u, u ∈ ts → f u ≤ b) :
    sumL ts f ≤ ts.length * b := by
  induction ts with
  | nil => simp [sumL]
  | cons a ts ih =>
    simp only [sumL, List.length_cons]
    have := h a (List.mem_cons_self ..)
    have := ih (fun u hu => h u (List.mem_cons_of_mem _ hu))
    rw [Nat.add_mul]; omega

/-! ## The ranking function -/

/-- number of `Offer`s of threads in `ts` that have not linked yet -/
def Pend (ts : List Tid) (c : Config M) : Nat := sumL ts (fun u => pre (c.l u))

/-- the history potential -/
def Psi (N : Nat) (ts : List Tid) (c : Config M) : Nat :=
  shared N c.g + sumL ts (fun u => psiL N (c.l u))

/-- the summed obstruction-freedom measure -/
def Mu (ts : List Tid) (c : Config M) : Nat := sumL ts (fun u => mu c.g (c.l u))

/-- the ranking function -/
def Phi (N B : Nat) (ts : List Tid) (c : Config M) : Nat := Psi N ts c * B + Mu ts c

theorem Mu_le (ts : List Tid) (c : Config M) : Mu ts c ≤ ts.length * (16 * c.g.n + 15) :=
  sumL_le (fun u _ => mu_le c.g (c.l u))

theorem Pend_le (ts : List Tid) (c : Config M) : Pend ts c ≤ ts.length := by
  have := sumL_le (ts := ts) (f := fun u => pre (c.l u)) (b := 1) (fun u _ => pre_le (c.l u))
  simpa [Pend] using this

theorem pre_le_Pend {ts : List Tid} {t : Tid} (ht : t ∈ ts) (c : Config M) : pre (c.l t) ≤ Pend ts c := by
  unfold Pend
  induction ts with
  | nil => cases ht
  | cons a ts ih =>
    simp only [sumL]
    rcases List.mem_cons.1 ht with e | e
    · subst e; omega
    · have := ih e; omega

theorem Psi_le (N : Nat) (ts : List Tid) (c : Config M) : Psi N ts c ≤ 2 * N + ts.length * (N + 2) := by
  have := sumL_le (ts := ts) (f := fun u => psiL N (c.l u)) (b := N + 2) (fun u _ => psiL_le N (c.l u))
  unfold Psi shared; omega

/-- **The ranking step.**  An internal step of a thread of `ts` strictly decreases `Phi`, and keeps
    `n + Pend` (the bound on the final number of nodes) from growing. -/
theorem tau_step_Phi {N B : Nat} {ts : List Tid} (hnd : ts.Nodup) (hB : ts.length * (16 * N + 15) + 1 ≤ B)
    {c : Config M} (hinv : Inv c) {t : Tid} (ht : t ∈ ts) (hN : c.g.n + Pend ts c ≤ N)
    {g' : G} {l' : L} {obs : List Obs} (hs : step t c.g (c.l t) .tau = some (g', l', obs)) :
    g'.n + Pend ts ⟨g', upd c.l t l'⟩ ≤ c.g.n + Pend ts c ∧
    Phi N B ts ⟨g', upd c.l t l'⟩ + 1 ≤ Phi N B ts c := by
  have hpre := pre_le_Pend ht c
  obtain ⟨h1, h2⟩ := psi_step (N := N) hinv.1 (hinv.2 t) (by omega) hs
  have hoff : ∀ u, u ≠ t → upd c.l t l' u = c.l u := fun u hu => upd_other _ _ _ _ hu
  have hPend : Pend ts ⟨g', upd c.l t l'⟩ + pre (c.l t) = Pend ts c + pre l' := by
    have := sumL_upd (f := fun u => pre (c.l u)) (f' := fun u => pre (upd c.l t l' u)) hnd ht
      (fun u hu => by simp only [hoff u hu])
    simpa [Pend] using this
  have hPsiL : sumL ts (fun u => psiL N (upd c.l t l' u)) + psiL N (c.l t)
      = sumL ts (fun u => psiL N (c.l u)) + psiL N l' := by
    have := sumL_upd (f := fun u => psiL N (c.l u)) (f' := fun u => psiL N (upd c.l t l' u)) hnd ht
      (fun u hu => by simp only [hoff u hu])
    simpa using this
  have hn' : g'.n + Pend ts ⟨g', upd c.l t l'⟩ ≤ c.g.n + Pend ts c := by omega
  refine ⟨hn', ?_⟩
  rcases h2 with ⟨hg, hle⟩ | hdec
  · -- the shared state is unchanged: `Psi` does not grow, `Σ mu` strictly decreases
    subst hg
    have hMu : Mu ts ⟨c.g, upd c.l t l'⟩ + mu c.g (c.l t) = Mu ts c + mu c.g l' := by
      have := sumL_upd (f := fun u => mu c.g (c.l u)) (f' := fun u => mu c.g (upd c.l t l' u)) hnd ht
        (fun u hu => by simp only [hoff u hu])
      simpa [Mu] using this
    have hmu : mu c.g l' < mu c.g (c.l t) := by
      rcases mu_dec hinv.1 (hinv.2 t) hs with hr | hlt
      · rw [mu_rest hr]; exact mu_pos _ _ (tau_not_rest hs)
      · exact hlt
    have hPsi : Psi N ts ⟨c.g, upd c.l t l'⟩ ≤ Psi N ts c := by
      show shared N c.g + sumL ts (fun u => psiL N (upd c.l t l' u)) ≤
        shared N c.g + sumL ts (fun u => psiL N (c.l u))
      omega
    have := Nat.mul_le_mul_right B hPsi
    unfold Phi; omega
  · -- the shared state changed: `Psi` strictly decreases, which pays for any growth of `Σ mu`
    have hPsi : Psi N ts ⟨g', upd c.l t l'⟩ + 1 ≤ Psi N ts c := by
      show shared N g' + sumL ts (fun u => psiL N (upd c.l t l' u)) + 1 ≤
        shared N c.g + sumL ts (fun u => psiL N (c.l u))
      omega
    have hMu : Mu ts ⟨g', upd c.l t l'⟩ + 1 ≤ B := by
      have h1 := Mu_le ts ⟨g', upd c.l t l'⟩
      have h2 : ts.length * (16 * g'.n + 15) ≤ ts.length * (16 * N + 15) :=
        Nat.mul_le_mul_left _ (by omega)
      have h3 : (⟨g', upd c.l t l'⟩ : Config M).g.n = g'.n := rfl
      rw [h3] at h1
      omega
    have := Nat.mul_le_mul_right B hPsi
    rw [Nat.add_mul] at this
    unfold Phi; omega

/-- an invocation by a thread of `ts` increases `Phi` by at most `(N+2)·B + 16N + 15`, and the bound
    `n + Pend` on the final number of nodes by at most one -/
theorem inv_step_Phi {N B : Nat} {ts : List Tid} (hnd : ts.Nodup)
    {c : Config M} {t : Tid} (ht : t ∈ ts) (hN : c.g.n ≤ N) {a : Act} (ha : a ≠ Act.tau)
    {g' : G} {l' : L} {obs : List Obs} (hs : step t c.g (c.l t) a = some (g', l', obs)) :
    g'.n + Pend ts ⟨g', upd c.l t l'⟩ ≤ c.g.n + Pend ts c + 1 ∧
    Phi N B ts ⟨g', upd c.l t l'⟩ ≤ Phi N B ts c + ((N + 2) * B + 16 * N + 15) := by
  obtain ⟨hg, h1, h2⟩ := inv_step (N := N) ha hs
  subst hg
  have hoff : ∀ u, u ≠ t → upd c.l t l' u = c.l u := fun u hu => upd_other _ _ _ _ hu
  have hPend : Pend ts ⟨c.g, upd c.l t l'⟩ + pre (c.l t) = Pend ts c + pre l' := by
    have := sumL_upd (f := fun u => pre (c.l u)) (f' := fun u => pre (upd c.l t l' u)) hnd ht
      (fun u hu => by simp only [hoff u hu])
    simpa [Pend] using this
  have hPsiL : sumL ts (fun u => psiL N (upd c.l t l' u)) + psiL N (c.l t)
      = sumL ts (fun u => psiL N (c.l u)) + psiL N l' := by
    have := sumL_upd (f := fun u => psiL N (c.l u)) (f' := fun u => psiL N (upd c.l t l' u)) hnd ht
      (fun u hu => by simp only [hoff u hu])
    simpa using this
  have hMu : Mu ts ⟨c.g, upd c.l t l'⟩ + mu c.g (c.l t) = Mu ts c + mu c.g l' := by
    have := sumL_upd (f := fun u => mu c.g (c.l u)) (f' := fun u => mu c.g (upd c.l t l' u)) hnd ht
      (fun u hu => by simp only [hoff u hu])
    simpa [Mu] using this
  refine ⟨by show c.g.n + _ ≤ _; omega, ?_⟩
  have hPsi : Psi N ts ⟨c.g, upd c.l t l'⟩ ≤ Psi N ts c + (N + 2) := by
    show shared N c.g + sumL ts (fun u => psiL N (upd c.l t l' u)) ≤
      shared N c.g + sumL ts (fun u => psiL N (c.l u)) + (N + 2)
    omega
  have := Nat.mul_le_mul_right B hPsi
  rw [Nat.add_mul] at this
  have := mu_le c.g l'
  unfold Phi; omega


/-! ## Executable schedules: basic facts -/

theorem Exec.reach {c c' : Config M} {σ : List (Tid × Act)} (h : Exec c σ c') (hc : Reach M c) :
    Reach M c' := by
  induction h with
  | nil c => exact hc
  | cons hs _ ih => exact ih (Reach.step (M := M) hc hs)

theorem Exec.append {c c' c'' : Config M} {σ σ' : List (Tid × Act)} (h : Exec c σ c')
    (h' : Exec c' σ' c'') : Exec c (σ ++ σ') c'' := by
  induction h with
  | nil c => exact h'
  | cons hs _ ih => exact Exec.cons hs (ih h')

theorem Exec.single {c : Config M} {t : Tid} {a : Act} {g' : G} {l' : L} {obs : List Obs}
    (hs : step t c.g (c.l t) a = some (g', l', obs)) : Exec c [(t, a)] ⟨g', upd c.l t l'⟩ :=
  Exec.cons hs (Exec.nil _)

/-- an executable schedule is executed by `run` without skipping anything -/
theorem Exec.run_eq {c c' : Config M} {σ : List (Tid × Act)} (h : Exec c σ c') : (run M c σ).1 = c' := by
  induction h with
  | nil c => rfl
  | @cons c t a g' l' obs σ c' hs _ ih =>
    have hs' : M.step t c.g (c.l t) a = some (g', l', obs) := hs
    simp only [run, hs']
    exact ih

/-- all steps of `σ` are enabled in turn (computable) -/
def enabledAll : Config M → List (Tid × Act) → Bool
  | _, [] => true
  | c, (t, a) :: σ =>
    match step t c.g (c.l t) a with
    | none => false
    | some (g', l', _) => enabledAll ⟨g', upd c.l t l'⟩ σ

theorem exec_of_enabledAll : ∀ (σ : List (Tid × Act)) (c : Config M), enabledAll c σ = true →
    Exec c σ (run M c σ).1 := by
  intro σ
  induction σ with
  | nil => intro c _; exact Exec.nil c
  | cons x σ ih =>
    intro c h
    obtain ⟨t, a⟩ := x
    simp only [enabledAll] at h
    split at h
    · cases h
    · rename_i g' l' obs hs
      have hs' : M.step t c.g (c.l t) a = some (g', l', obs) := hs
      have : (run M c ((t, a) :: σ)).1 = (run M ⟨g', upd c.l t l'⟩ σ).1 := by simp only [run, hs']
      rw [this]
      exact Exec.cons hs (ih _ h)

/-- the steps of an arbitrary schedule that `run` actually executes (it skips disabled ones) -/
def effective : Config M → List (Tid × Act) → List (Tid × Act)
  | _, [] => []
  | c, (t, a) :: σ =>
    match step t c.g (c.l t) a with
    | none => effective c σ
    | some (g', l', _) => (t, a) :: effective ⟨g', upd c.l t l'⟩ σ

theorem exec_effective : ∀ (σ : List (Tid × Act)) (c : Config M), Exec c (effective c σ) (run M c σ).1 := by
  intro σ
  induction σ with
  | nil => intro c; exact Exec.nil c
  | cons x σ ih =>
    intro c
    obtain ⟨t, a⟩ := x
    simp only [effective]
    split
    · rename_i hs
      have hs' : M.step t c.g (c.l t) a = none := hs
      have : (run M c ((t, a) :: σ)).1 = (run M c σ).1 := by simp only [run, hs']
      rw [this]; exact ih c
    · rename_i g' l' obs hs
      have hs' : M.step t c.g (c.l t) a = some (g', l', obs) := hs
      have : (run M c ((t, a) :: σ)).1 = (run M ⟨g', upd c.l t l'⟩ σ).1 := by simp only [run, hs']
      rw [this]
      exact Exec.cons hs (ih _)

theorem effective_mem : ∀ (σ : List (Tid × Act)) (c : Config M) (x : Tid × Act), x ∈ effective c σ → x ∈ σ := by
  intro σ
  induction σ with
  | nil => intro c x h; cases h
  | cons y σ ih =>
    intro c x h
    obtain ⟨t, a⟩ := y
    simp only [effective] at h
    split at h
    · exact List.mem_cons_of_mem _ (ih _ _ h)
    · rcases List.mem_cons.1 h with e | e
      · exact e ▸ List.mem_cons_self ..
      · exact List.mem_cons_of_mem _ (ih _ _ e)

theorem effective_invs : ∀ (σ : List (Tid × Act)) (c : Config M), invs (effective c σ) ≤ invs σ := by
  intro σ
  induction σ with
  | nil => intro c; exact Nat.le_refl _
  | cons y σ ih =>
    intro c
    obtain ⟨t, a⟩ := y
    simp only [effective]
    split
    · have := ih c; simp only [invs]; omega
    · rename_i g' l' obs hs
      have := ih ⟨g', upd c.l t l'⟩; simp only [invs]; omega

theorem invs_tauOnly {σ : List (Tid × Act)} (h : TauOnly σ) : invs σ = 0 := by
  induction σ with
  | nil => rfl
  | cons x σ ih =>
    obtain ⟨t, a⟩ := x
    have ha : a = Act.tau := h (t, a) (List.mem_cons_self ..)
    have := ih (fun y hy => h y (List.mem_cons_of_mem _ hy))
    simp only [invs, ha, this]; rfl

/-- a thread at rest has no internal step -/
theorem rest_no_tau {t : Tid} {g : G} {l : L} (h : atRest l = true) : step t g l .tau = none := by
  cases l <;> simp [atRest] at h <;> rfl

/-- internal steps are only taken by threads inside an operation, and leave resting threads alone -/
theorem exec_tau_active {c c' : Config M} {σ : List (Tid × Act)} (h : Exec c σ c') (hτ : TauOnly σ) :
    (∀ x, x ∈ σ → atRest (c.l x.1) = false) ∧ (∀ u, atRest (c.l u) = true → c'.l u = c.l u) := by
  induction h with
  | nil c => exact ⟨fun x hx => (nomatch hx), fun _ _ => rfl⟩
  | @cons c t a g' l' obs σ c' hs _ ih =>
    have ha : a = Act.tau := hτ (t, a) (List.mem_cons_self ..)
    subst ha
    have ht := tau_not_rest hs
    obtain ⟨ih1, ih2⟩ := ih (fun y hy => hτ y (List.mem_cons_of_mem _ hy))
    refine ⟨fun x hx => ?_, fun u hu => ?_⟩
    · rcases List.mem_cons.1 hx with e | e
      · rw [e]; exact ht
      · have := ih1 x e
        by_cases hxt : x.1 = t
        · rw [hxt]; exact ht
        · have e1 : (⟨g', upd c.l t l'⟩ : Config M).l x.1 = c.l x.1 := upd_other _ _ _ _ hxt
          rwa [e1] at this
    · have hut : u ≠ t := fun e => by rw [e, ht] at hu; cases hu
      have e1 : (⟨g', upd c.l t l'⟩ : Config M).l u = c.l u := upd_other _ _ _ _ hut
      have := ih2 u (by rw [e1]; exact hu)
      rw [this]; exact e1

/-! ## The main induction -/

/-- the ranking function along an executable schedule: every internal step costs one unit of `Phi`,
    every invocation adds at most `(N+2)·B + 16N + 15` -/
theorem exec_rank {N B : Nat} {ts : List Tid} (hnd : ts.Nodup) (hB : ts.length * (16 * N + 15) + 1 ≤ B)
    {c c' : Config M} {σ : List (Tid × Act)} (h : Exec c σ c') :
    Reach M c → (∀ x, x ∈ σ → x.1 ∈ ts) → c.g.n + Pend ts c + invs σ ≤ N →
    Phi N B ts c' + σ.length ≤ Phi N B ts c + invs σ * ((N + 2) * B + 16 * N + 16) := by
  induction h with
  | nil c => intro _ _ _; simp [invs]
  | @cons c t a g' l' obs σ c' hs _ ih =>
    intro hc hts hN
    have ht : t ∈ ts := hts (t, a) (List.mem_cons_self ..)
    have hts' : ∀ x, x ∈ σ → x.1 ∈ ts := fun x hx => hts x (List.mem_cons_of_mem _ hx)
    have hc' : Reach M ⟨g', upd c.l t l'⟩ := Reach.step (M := M) hc hs
    by_cases ha : a = Act.tau
    · subst ha
      have hi : invs ((t, Act.tau) :: σ) = invs σ := by simp [invs]
      rw [hi] at hN ⊢
      obtain ⟨h1, h2⟩ := tau_step_Phi hnd hB (inv_reach c hc) ht (by omega) hs
      have := ih hc' hts' (by show g'.n + _ + _ ≤ N; omega)
      simp only [List.length_cons]; omega
    · have hi : invs ((t, a) :: σ) = 1 + invs σ := by simp [invs, ha]
      rw [hi] at hN ⊢
      obtain ⟨h1, h2⟩ := inv_step_Phi (N := N) (B := B) hnd ht (by omega) ha hs
      have := ih hc' hts' (by show g'.n + _ + _ ≤ N; omega)
      rw [Nat.add_mul, Nat.one_mul]
      simp only [List.length_cons]; omega

/-! ## Explicit bounds -/

/-- `B`: one more than the largest possible value of `Σ_t mu` with `k` threads and at most `N` nodes -/
def Bc (N k : Nat) : Nat := k * (16 * N + 15) + 1

/-- the bound in terms of `N` (an upper bound on the final number of nodes), `k` threads and at most
    `m` invocations -/
def FN (N k m : Nat) : Nat :=
  (2 * N + k * (N + 2) + 1) * Bc N k + m * ((N + 2) * Bc N k + 16 * N + 16)

/-- **the bound on total work without new invocations**: `n` linked nodes, `k` threads.
    `F n k = (2(n+k) + k(n+k+2) + 1) · (k(16(n+k)+15) + 1)`, i.e. `O(k²·(n+k)²)`. -/
def F (n k : Nat) : Nat := FN (n + k) k 0

/-- the bound with at most `m` new invocations -/
def FI (n k m : Nat) : Nat := FN (n + k + m) k m

theorem F_eq (n k : Nat) : F n k = (2 * (n + k) + k * (n + k + 2) + 1) * (k * (16 * (n + k) + 15) + 1) := by
  simp [F, FN, Bc]

theorem FI_zero (n k : Nat) : FI n k 0 = F n k := rfl

theorem Phi_lt (N : Nat) (ts : List Tid) (c : Config M) (hn : c.g.n ≤ N) :
    Phi N (Bc N ts.length) ts c + 1 ≤ (2 * N + ts.length * (N + 2) + 1) * Bc N ts.length := by
  have h1 := Psi_le N ts c
  have h2 := Mu_le ts c
  have h3 : ts.length * (16 * c.g.n + 15) ≤ ts.length * (16 * N + 15) := Nat.mul_le_mul_left _ (by omega)
  have h4 := Nat.mul_le_mul_right (Bc N ts.length) h1
  rw [Nat.add_mul _ 1, Nat.one_mul]
  unfold Phi
  have : Bc N ts.length = ts.length * (16 * N + 15) + 1 := rfl
  omega

/-- general form: `N` any upper bound on `n + (#Offers of `ts` not yet linked) + m` -/
theorem exec_bound_N {N m : Nat} {ts : List Tid} (hnd : ts.Nodup) {c c' : Config M} {σ : List (Tid × Act)}
    (hc : Reach M c) (h : Exec c σ c') (hts : ∀ x, x ∈ σ → x.1 ∈ ts) (hm : invs σ ≤ m)
    (hN : c.g.n + Pend ts c + m ≤ N) : σ.length < FN N ts.length m := by
  have h1 := exec_rank (N := N) (B := Bc N ts.length) hnd (Nat.le_refl _) h hc hts (by omega)
  have h2 := Phi_lt N ts c (by omega)
  have h3 := Nat.mul_le_mul_right ((N + 2) * Bc N ts.length + 16 * N + 16) hm
  unfold FN
  omega

/-- with at most `m` invocations, in terms of `n`, `k`, `m` only -/
theorem exec_bound_inv {m : Nat} {ts : List Tid} (hnd : ts.Nodup) {c c' : Config M} {σ : List (Tid × Act)}
    (hc : Reach M c) (h : Exec c σ c') (hts : ∀ x, x ∈ σ → x.1 ∈ ts) (hm : invs σ ≤ m) :
    σ.length < FI c.g.n ts.length m := by
  have := Pend_le ts c
  exact exec_bound_N hnd hc h hts hm (by omega)

/-- without invocations -/
theorem exec_bound_tau {ts : List Tid} (hnd : ts.Nodup) {c c' : Config M} {σ : List (Tid × Act)}
    (hc : Reach M c) (h : Exec c σ c') (hτ : TauOnly σ) (hts : ∀ x, x ∈ σ → x.1 ∈ ts) :
    σ.length < F c.g.n ts.length := by
  have := exec_bound_inv (m := 0) hnd hc h hts (by rw [invs_tauOnly hτ]; exact Nat.le_refl _)
  rwa [FI_zero] at this


/-! ## The threads involved -/

/-- the distinct elements of a list of thread ids -/
def dedupT : List Tid → List Tid
  | [] => []
  | t :: ts => if t ∈ dedupT ts then dedupT ts else t :: dedupT ts

theorem mem_dedupT {ts : List Tid} {t : Tid} : t ∈ dedupT ts ↔ t ∈ ts := by
  induction ts with
  | nil => simp [dedupT]
  | cons a ts ih =>
    simp only [dedupT]
    split
    · rename_i h
      rw [List.mem_cons, ih]
      constructor
      · exact Or.inr
      · rintro (e | e)
        · subst e; exact ih.1 h
        · exact e
    · rw [List.mem_cons, List.mem_cons, ih]

theorem nodup_dedupT (ts : List Tid) : (dedupT ts).Nodup := by
  induction ts with
  | nil => simp [dedupT]
  | cons a ts ih =>
    simp only [dedupT]
    split
    · exact ih
    · rename_i h; exact List.nodup_cons.2 ⟨h, ih⟩

/-- the distinct thread ids occurring in a schedule -/
def tids (σ : List (Tid × Act)) : List Tid := dedupT (σ.map Prod.fst)

theorem mem_tids {σ : List (Tid × Act)} {x : Tid × Act} (h : x ∈ σ) : x.1 ∈ tids σ :=
  mem_dedupT.2 (List.mem_map_of_mem h)

/-- every reachable configuration has only finitely many threads inside an operation -/
theorem active_finite {c : Config M} (hc : Reach M c) :
    ∃ ts : List Tid, ts.Nodup ∧ ∀ t, t ∈ ts ↔ atRest (c.l t) = false := by
  induction hc with
  | init => exact ⟨[], List.nodup_nil, fun t => by simp [Config.init, M, atRest]⟩
  | @step c t a g' l' obs _ hs ih =>
    obtain ⟨ts, hnd, hts⟩ := ih
    refine ⟨dedupT (t :: ts) |>.filter (fun u => !atRest (upd c.l t l' u)), ?_, fun u => ?_⟩
    · exact List.Pairwise.filter _ (nodup_dedupT _)
    · show u ∈ List.filter _ _ ↔ atRest (upd c.l t l' u) = false
      rw [List.mem_filter, mem_dedupT, List.mem_cons]
      constructor
      · intro h; simpa using h.2
      · intro h
        refine ⟨?_, by simpa using h⟩
        by_cases hut : u = t
        · exact Or.inl hut
        · rw [upd_other _ _ _ _ hut] at h
          exact Or.inr ((hts u).2 h)

/-! ## No deadlock; maximal runs end at rest -/

/-- a thread inside an operation can always take its next step (restating `nonblocking` for
    configurations) -/
theorem can_step (c : Config M) (t : Tid) (h : atRest (c.l t) = false) :
    ∃ g' l' obs, step t c.g (c.l t) .tau = some (g', l', obs) := by
  obtain ⟨⟨g', l', obs⟩, hs⟩ := nonblocking t c.g (c.l t) h
  exact ⟨g', l', obs, hs⟩

/-- if no internal step is enabled, every thread is at rest -/
theorem stuck_all_rest (c : Config M) (h : ∀ t, step t c.g (c.l t) .tau = none) :
    ∀ t, atRest (c.l t) = true := by
  intro t
  cases hr : atRest (c.l t) with
  | true => rfl
  | false =>
    obtain ⟨g', l', obs, hs⟩ := can_step c t hr
    rw [h t] at hs; cases hs

/-! ## Infinite schedules -/

/-- the configuration after the first `i` slots of the infinite schedule `s`: in slot `j` thread
    `s j` is offered its next internal step (a thread at rest does nothing) -/
def cfgAt (s : Nat → Tid) (c : Config M) : Nat → Config M
  | 0 => c
  | i + 1 => soloStep (s i) (cfgAt s c i)

/-- the steps actually taken during the first `i` slots -/
def effSched (s : Nat → Tid) (c : Config M) : Nat → List (Tid × Act)
  | 0 => []
  | i + 1 => effSched s c i ++ (if atRest ((cfgAt s c i).l (s i)) = true then [] else [(s i, Act.tau)])

/-- how often thread `t` has been scheduled during the first `j` slots -/
def occ (s : Nat → Tid) (t : Tid) : Nat → Nat
  | 0 => 0
  | j + 1 => occ s t j + (if s j = t then 1 else 0)

theorem soloStep_rest {t : Tid} {c : Config M} (h : atRest (c.l t) = true) : soloStep t c = c := by
  unfold soloStep; rw [rest_no_tau h]

theorem exec_eff (s : Nat → Tid) (c : Config M) : ∀ i, Exec c (effSched s c i) (cfgAt s c i) := by
  intro i
  induction i with
  | zero => exact Exec.nil c
  | succ i ih =>
    simp only [effSched, cfgAt]
    cases hr : atRest ((cfgAt s c i).l (s i)) with
    | true => simp only [if_true, List.append_nil, soloStep_rest hr]; exact ih
    | false =>
      obtain ⟨g', l', obs, hs⟩ := can_step _ _ hr
      have : soloStep (s i) (cfgAt s c i) = ⟨g', upd (cfgAt s c i).l (s i) l'⟩ := by
        simp only [soloStep, hs]
      rw [this]
      simp only [Bool.false_eq_true, if_false]
      exact ih.append (Exec.single hs)

theorem tauOnly_eff (s : Nat → Tid) (c : Config M) : ∀ i, TauOnly (effSched s c i) := by
  intro i
  induction i with
  | zero => intro x hx; cases hx
  | succ i ih =>
    intro x hx
    simp only [effSched] at hx
    rcases List.mem_append.1 hx with h | h
    · exact ih x h
    · split at h
      · cases h
      · rw [List.mem_singleton.1 h]

/-- a thread at rest stays at rest as long as nothing is invoked -/
theorem cfgAt_rest_stays (s : Nat → Tid) (c : Config M) (t : Tid) {i : Nat}
    (h : atRest ((cfgAt s c i).l t) = true) : ∀ j, i ≤ j → atRest ((cfgAt s c j).l t) = true := by
  intro j hij
  induction j with
  | zero => have : i = 0 := by omega
            subst this; exact h
  | succ j ih =>
    by_cases hj : i = j + 1
    · subst hj; exact h
    · have hr := ih (by omega)
      simp only [cfgAt]
      by_cases hst : s j = t
      · subst hst; rw [soloStep_rest hr]; exact hr
      · rw [soloStep_others (fun e => hst e.symm)]; exact hr

theorem occ_le_eff (s : Nat → Tid) (c : Config M) (t : Tid) : ∀ j,
    (∀ i, i < j → atRest ((cfgAt s c i).l t) = false) → occ s t j ≤ (effSched s c j).length := by
  intro j
  induction j with
  | zero => intro _; exact Nat.le_refl _
  | succ j ih =>
    intro h
    have := ih (fun i hi => h i (by omega))
    simp only [occ, effSched, List.length_append]
    by_cases hst : s j = t
    · subst hst
      have hr := h j (by omega)
      simp only [hr, Bool.false_eq_true, if_false, if_true, List.length_singleton]; omega
    · simp only [if_neg hst]; omega

theorem eff_len_eq (s : Nat → Tid) (c : Config M) : ∀ j,
    (∀ i, i < j → atRest ((cfgAt s c i).l (s i)) = false) → (effSched s c j).length = j := by
  intro j
  induction j with
  | zero => intro _; rfl
  | succ j ih =>
    intro h
    have := ih (fun i hi => h i (by omega))
    have hr := h j (by omega)
    simp only [effSched, List.length_append, hr]
    simp [this]

theorem occ_mono (s : Nat → Tid) (t : Tid) {i j : Nat} (h : i ≤ j) : occ s t i ≤ occ s t j := by
  induction j with
  | zero => have : i = 0 := by omega
            subst this; exact Nat.le_refl _
  | succ j ih =>
    by_cases hj : i = j + 1
    · subst hj; exact Nat.le_refl _
    · have := ih (by omega); simp only [occ]; omega

/-- under a fair schedule every thread is scheduled arbitrarily often -/
theorem fair_occ (s : Nat → Tid) (t : Tid) (hfair : ∀ i, ∃ j, i ≤ j ∧ s j = t) :
    ∀ m, ∃ j, m ≤ occ s t j := by
  intro m
  induction m with
  | zero => exact ⟨0, Nat.zero_le _⟩
  | succ m ih =>
    obtain ⟨j, hj⟩ := ih
    obtain ⟨j', hjj', hs⟩ := hfair j
    refine ⟨j' + 1, ?_⟩
    have := occ_mono s t hjj'
    simp only [occ, hs, if_true]; omega


/-! ## Bounds in terms of the threads inside an operation -/

/-- `k` = number of threads inside an operation at `c` (any duplicate-free list containing them) -/
theorem exec_bound_active {ts : List Tid} (hnd : ts.Nodup) {c c' : Config M} {σ : List (Tid × Act)}
    (hc : Reach M c) (hts : ∀ t, atRest (c.l t) = false → t ∈ ts) (h : Exec c σ c') (hτ : TauOnly σ) :
    σ.length < F c.g.n ts.length :=
  exec_bound_tau hnd hc h hτ (fun x hx => hts _ ((exec_tau_active h hτ).1 x hx))

/-- the threads that perform an invocation in `σ` -/
def invokers : List (Tid × Act) → List Tid
  | [] => []
  | (t, a) :: σ => if a = Act.tau then invokers σ else t :: invokers σ

theorem invokers_length (σ : List (Tid × Act)) : (invokers σ).length = invs σ := by
  induction σ with
  | nil => rfl
  | cons x σ ih =>
    obtain ⟨t, a⟩ := x
    simp only [invokers, invs]
    split <;> simp [ih] <;> omega

/-- a thread that moves in `σ` was inside an operation at the start, or invokes one in `σ` -/
theorem exec_movers {c c' : Config M} {σ : List (Tid × Act)} (h : Exec c σ c') :
    ∀ x, x ∈ σ → atRest (c.l x.1) = false ∨ x.1 ∈ invokers σ := by
  induction h with
  | nil c => intro x hx; cases hx
  | @cons c t a g' l' obs σ c' hs _ ih =>
    have hhead : atRest (c.l t) = false ∨ t ∈ invokers ((t, a) :: σ) := by
      by_cases ha : a = Act.tau
      · subst ha; exact Or.inl (tau_not_rest hs)
      · right; simp only [invokers, if_neg ha]; exact List.mem_cons_self ..
    have hsub : ∀ u, u ∈ invokers σ → u ∈ invokers ((t, a) :: σ) := by
      intro u hu; simp only [invokers]; split
      · exact hu
      · exact List.mem_cons_of_mem _ hu
    intro x hx
    rcases List.mem_cons.1 hx with e | e
    · rw [e]; exact hhead
    · rcases ih x e with h1 | h1
      · by_cases hxt : x.1 = t
        · rw [hxt]; exact hhead
        · have e1 : (⟨g', upd c.l t l'⟩ : Config M).l x.1 = c.l x.1 := upd_other _ _ _ _ hxt
          rw [e1] at h1; exact Or.inl h1
      · exact Or.inr (hsub _ h1)

theorem dedupT_length_le (ts : List Tid) : (dedupT ts).length ≤ ts.length := by
  induction ts with
  | nil => exact Nat.le_refl _
  | cons a ts ih => simp only [dedupT]; split <;> simp only [List.length_cons] <;> omega

theorem Bc_mono {N N' k k' : Nat} (hN : N ≤ N') (hk : k ≤ k') : Bc N k ≤ Bc N' k' := by
  unfold Bc
  have : k * (16 * N + 15) ≤ k' * (16 * N' + 15) := Nat.mul_le_mul hk (by omega)
  omega

theorem FN_mono2 {N N' k k' m : Nat} (hN : N ≤ N') (hk : k ≤ k') : FN N k m ≤ FN N' k' m := by
  have hB := Bc_mono hN hk
  have h1 : (2 * N + k * (N + 2) + 1) * Bc N k ≤ (2 * N' + k' * (N' + 2) + 1) * Bc N' k' := by
    apply Nat.mul_le_mul _ hB
    have : k * (N + 2) ≤ k' * (N' + 2) := Nat.mul_le_mul hk (by omega)
    omega
  have h2 : (N + 2) * Bc N k ≤ (N' + 2) * Bc N' k' := Nat.mul_le_mul (by omega) hB
  have h3 : m * ((N + 2) * Bc N k + 16 * N + 16) ≤ m * ((N' + 2) * Bc N' k' + 16 * N' + 16) :=
    Nat.mul_le_mul_left _ (by omega)
  unfold FN; omega

theorem FI_mono_k {n k k' m : Nat} (hk : k ≤ k') : FI n k m ≤ FI n k' m :=
  FN_mono2 (by omega) hk

theorem F_mono_k {n k k' : Nat} (hk : k ≤ k') : F n k ≤ F n k' :=
  FN_mono2 (by omega) hk

/-- with at most `m` invocations and `k` threads inside an operation at the start: at most `k + m`
    threads ever move -/
theorem exec_bound_inv_active {m : Nat} {ts : List Tid} {c c' : Config M} {σ : List (Tid × Act)}
    (hc : Reach M c) (hts : ∀ t, atRest (c.l t) = false → t ∈ ts) (h : Exec c σ c') (hm : invs σ ≤ m) :
    σ.length < FI c.g.n (ts.length + m) m := by
  have h1 := exec_bound_inv (ts := dedupT (ts ++ invokers σ)) (nodup_dedupT _) hc h
    (fun x hx => by
      rw [mem_dedupT, List.mem_append]
      rcases exec_movers h x hx with h1 | h1
      · exact Or.inl (hts _ h1)
      · exact Or.inr h1) hm
  have h2 := dedupT_length_le (ts ++ invokers σ)
  rw [List.length_append, invokers_length] at h2
  exact Nat.lt_of_lt_of_le h1 (FI_mono_k (by omega))

/-! ## Infinite schedules: everything returns -/

theorem eff_bound {ts : List Tid} (hnd : ts.Nodup) {c : Config M} (hc : Reach M c)
    (hts : ∀ t, atRest (c.l t) = false → t ∈ ts) (s : Nat → Tid) (j : Nat) :
    (effSched s c j).length < F c.g.n ts.length :=
  exec_bound_active hnd hc hts (exec_eff s c j) (tauOnly_eff s c j)

/-- a thread that has been scheduled `F n k` times (or more) has returned — whatever the other
    threads did in between -/
theorem bounded_fair_returns {ts : List Tid} (hnd : ts.Nodup) {c : Config M} (hc : Reach M c)
    (hts : ∀ t, atRest (c.l t) = false → t ∈ ts) (s : Nat → Tid) (t : Tid) (j : Nat)
    (hocc : F c.g.n ts.length ≤ occ s t j) : atRest ((cfgAt s c j).l t) = true := by
  cases hr : atRest ((cfgAt s c j).l t) with
  | true => rfl
  | false =>
    have hall : ∀ i, i < j → atRest ((cfgAt s c i).l t) = false := by
      intro i hi
      cases hri : atRest ((cfgAt s c i).l t) with
      | false => rfl
      | true => have := cfgAt_rest_stays s c t hri j (by omega); rw [hr] at this; cases this
    have h1 := occ_le_eff s c t j hall
    have h2 := eff_bound hnd hc hts s j
    omega

/-- under a schedule that is fair to `t`, `t`'s operation returns (and `t` stays at rest) -/
theorem fair_returns {ts : List Tid} (hnd : ts.Nodup) {c : Config M} (hc : Reach M c)
    (hts : ∀ t, atRest (c.l t) = false → t ∈ ts) (s : Nat → Tid) (t : Tid)
    (hfair : ∀ i, ∃ j, i ≤ j ∧ s j = t) :
    ∃ j, ∀ j', j ≤ j' → atRest ((cfgAt s c j').l t) = true := by
  obtain ⟨j, hj⟩ := fair_occ s t hfair (F c.g.n ts.length)
  exact ⟨j, fun j' hjj' => cfgAt_rest_stays s c t (bounded_fair_returns hnd hc hts s t j hj) j' hjj'⟩

/-- threads outside `ts` are at rest at `c`, hence forever -/
theorem cfgAt_outside {ts : List Tid} {c : Config M} (hts : ∀ t, atRest (c.l t) = false → t ∈ ts)
    (s : Nat → Tid) {u : Tid} (hu : u ∉ ts) (j : Nat) : atRest ((cfgAt s c j).l u) = true := by
  have h0 : atRest ((cfgAt s c 0).l u) = true := by
    show atRest (c.l u) = true
    cases hr : atRest (c.l u) with
    | true => rfl
    | false => exact absurd (hts u hr) hu
  exact cfgAt_rest_stays s c u h0 j (Nat.zero_le _)

/-- under a schedule that is fair to every thread inside an operation, the system becomes quiescent:
    EVERY operation returns -/
theorem fair_all_return {ts : List Tid} (hnd : ts.Nodup) {c : Config M} (hc : Reach M c)
    (hts : ∀ t, atRest (c.l t) = false → t ∈ ts) (s : Nat → Tid)
    (hfair : ∀ t, t ∈ ts → ∀ i, ∃ j, i ≤ j ∧ s j = t) :
    ∃ j, ∀ j', j ≤ j' → ∀ u, atRest ((cfgAt s c j').l u) = true := by
  have key : ∀ us : List Tid, (∀ u, u ∈ us → u ∈ ts) →
      ∃ j, ∀ j', j ≤ j' → ∀ u, u ∈ us → atRest ((cfgAt s c j').l u) = true := by
    intro us
    induction us with
    | nil => intro _; exact ⟨0, fun _ _ u hu => nomatch hu⟩
    | cons a us ih =>
      intro hsub
      obtain ⟨j1, h1⟩ := ih (fun u hu => hsub u (List.mem_cons_of_mem _ hu))
      obtain ⟨j2, h2⟩ := fair_returns hnd hc hts s a (hfair a (hsub a (List.mem_cons_self ..)))
      refine ⟨j1 + j2, fun j' hj' u hu => ?_⟩
      rcases List.mem_cons.1 hu with e | e
      · rw [e]; exact h2 j' (by omega)
      · exact h1 j' (by omega) u e
  obtain ⟨j, hj⟩ := key ts (fun _ h => h)
  refine ⟨j, fun j' hj' u => ?_⟩
  by_cases hu : u ∈ ts
  · exact hj j' hj' u hu
  · exact cfgAt_outside hts s hu j'

/-- a scheduler that never wastes a slot while some operation is pending (it may be as unfair as it
    likes) brings the system to quiescence within `F n k` slots -/
theorem all_return_within {ts : List Tid} (hnd : ts.Nodup) {c : Config M} (hc : Reach M c)
    (hts : ∀ t, atRest (c.l t) = false → t ∈ ts) (s : Nat → Tid)
    (hsched : ∀ i, (∃ u, atRest ((cfgAt s c i).l u) = false) → atRest ((cfgAt s c i).l (s i)) = false) :
    ∀ u, atRest ((cfgAt s c (F c.g.n ts.length)).l u) = true := by
  intro u
  cases hr : atRest ((cfgAt s c (F c.g.n ts.length)).l u) with
  | true => rfl
  | false =>
    have hall : ∀ i, i < F c.g.n ts.length → atRest ((cfgAt s c i).l (s i)) = false := by
      intro i hi
      refine hsched i ⟨u, ?_⟩
      cases hri : atRest ((cfgAt s c i).l u) with
      | false => rfl
      | true => have := cfgAt_rest_stays s c u hri _ (Nat.le_of_lt hi); rw [hr] at this; cases this
    have h1 := eff_len_eq s c _ hall
    have h2 := eff_bound hnd hc hts s (F c.g.n ts.length)
    omega

/-- a thread that is inside an operation at slot `0` and at rest at slot `j` returned in some slot -/
theorem return_slot (s : Nat → Tid) (c : Config M) (t : Tid) (h0 : atRest (c.l t) = false) :
    ∀ j, atRest ((cfgAt s c j).l t) = true →
    ∃ i, i < j ∧ atRest ((cfgAt s c i).l t) = false ∧ atRest ((cfgAt s c (i + 1)).l t) = true := by
  intro j
  induction j with
  | zero => intro h; rw [show (cfgAt s c 0).l t = c.l t from rfl, h0] at h; cases h
  | succ j ih =>
    intro h
    cases hr : atRest ((cfgAt s c j).l t) with
    | false => exact ⟨j, Nat.lt_succ_self _, hr, h⟩
    | true =>
      obtain ⟨i, hi, h1, h2⟩ := ih hr
      exact ⟨i, by omega, h1, h2⟩


/-! ## Maximal runs exist -/

theorem exists_quiescent_run_aux {N B : Nat} {ts : List Tid} (hnd : ts.Nodup)
    (hB : ts.length * (16 * N + 15) + 1 ≤ B) : ∀ (p : Nat) (c : Config M), Reach M c →
    (∀ t, atRest (c.l t) = false → t ∈ ts) → c.g.n + Pend ts c ≤ N → Phi N B ts c ≤ p →
    ∃ σ c', Exec c σ c' ∧ TauOnly σ ∧ ∀ u, atRest (c'.l u) = true := by
  intro p
  induction p with
  | zero =>
    intro c hc hts hN hp
    by_cases h : ∃ t, atRest (c.l t) = false
    · obtain ⟨t, ht⟩ := h
      obtain ⟨g', l', obs, hs⟩ := can_step c t ht
      have := (tau_step_Phi hnd hB (inv_reach c hc) (hts t ht) hN hs).2
      omega
    · refine ⟨[], c, Exec.nil c, fun x hx => (nomatch hx), fun u => ?_⟩
      cases hr : atRest (c.l u) with
      | true => rfl
      | false => exact absurd ⟨u, hr⟩ h
  | succ p ih =>
    intro c hc hts hN hp
    by_cases h : ∃ t, atRest (c.l t) = false
    · obtain ⟨t, ht⟩ := h
      obtain ⟨g', l', obs, hs⟩ := can_step c t ht
      obtain ⟨h1, h2⟩ := tau_step_Phi hnd hB (inv_reach c hc) (hts t ht) hN hs
      have hts' : ∀ u, atRest ((⟨g', upd c.l t l'⟩ : Config M).l u) = false → u ∈ ts := by
        intro u hu
        by_cases hut : u = t
        · rw [hut]; exact hts t ht
        · have e1 : (⟨g', upd c.l t l'⟩ : Config M).l u = c.l u := upd_other _ _ _ _ hut
          rw [e1] at hu; exact hts u hu
      obtain ⟨σ, c', hex, hτ, hq⟩ := ih ⟨g', upd c.l t l'⟩ (Reach.step (M := M) hc hs) hts'
        (by show g'.n + _ ≤ N; omega) (by omega)
      refine ⟨(t, Act.tau) :: σ, c', Exec.cons hs hex, fun x hx => ?_, hq⟩
      rcases List.mem_cons.1 hx with e | e
      · rw [e]
      · exact hτ x e
    · refine ⟨[], c, Exec.nil c, fun x hx => (nomatch hx), fun u => ?_⟩
      cases hr : atRest (c.l u) with
      | true => rfl
      | false => exact absurd ⟨u, hr⟩ h

/-- from every reachable configuration some run without new invocations leads to quiescence -/
theorem exists_quiescent_run {c : Config M} (hc : Reach M c) :
    ∃ σ c', Exec c σ c' ∧ TauOnly σ ∧ ∀ u, atRest (c'.l u) = true := by
  obtain ⟨ts, hnd, hts⟩ := active_finite hc
  exact exists_quiescent_run_aux (N := c.g.n + Pend ts c) (B := Bc (c.g.n + Pend ts c) ts.length) hnd
    (Nat.le_refl _) _ c hc (fun t ht => (hts t).2 ht) (Nat.le_refl _) (Nat.le_refl _)

end Garr.Queue.LockFree
