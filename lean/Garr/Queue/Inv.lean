import Garr.Queue.Model
/-!
# Structural invariants of the lock-free queue model

`GInv` is the global shape invariant of the linked structure, `LInv` the per-thread invariant
(relative to the shared state), `Guar` the guarantee every step obeys (so that other threads'
`LInv` is stable: `LInv_stable`).  `step_pres` is the single-step preservation lemma and
`inv_reach` lifts it to every reachable configuration (unboundedly many threads, all schedules).
-/
namespace Garr.Queue
open Garr.Conc

/-- global structural invariant -/
structure GInv (g : G) : Prop where
  npos : 0 < g.n
  head_lt : g.head < g.n
  tail_lt : g.tail < g.n
  last : ∀ i, i < g.n → (g.next i = none ↔ i + 1 = g.n)
  fwd : ∀ i j, i < g.n → g.next i = some j → j < g.n ∧ (j = i ∨ (i < j ∧ ∀ k, i < k → k < j → g.live k = false))
  dead_before_head : ∀ i, i < g.head → g.live i = false
  self_before_head : ∀ i, i < g.n → g.next i = some i → i < g.head

def deadBelow (g : G) (p : Nat) : Prop := ∀ k, k < p → g.live k = false

def deadBetween (g : G) (a b : Nat) : Prop := ∀ k, a < k → k < b → g.live k = false

/-- what an iterator object may rely on between calls -/
def ItInv (g : G) (it : Iter) : Prop :=
  (∀ p, it.nextNode = some p → p < g.n) ∧ (∀ l, it.lastRet = some l → l < g.n) ∧
  (∀ r p, it.prev = some r → it.nextNode = some p → r < p ∧ deadBetween g r p)

/-- what a continuation of `updateHead` may rely on -/
def ContInv (g : G) : Cont → Prop
  | .ret _ => True
  | .size none => True
  | .size (some p) => p < g.n
  | .iter it => ItInv g it

/-- thread-local invariant, relative to the shared state -/
def LInv (g : G) : L → Prop
  | .idle => True
  | .o0 _ => True
  | .o1 _ t p => t < g.n ∧ p < g.n
  | .o2 _ t p => t < g.n ∧ p < g.n
  | .o3 t nw => t < g.n ∧ nw < g.n
  | .o4 _ t p => t < g.n ∧ p < g.n
  | .o4b _ t => t < g.n
  | .o5 _ t p q => t < g.n ∧ p < g.n ∧ q < g.n
  | .p0 => True
  | .p1 h p => h ≤ p ∧ p < g.n ∧ deadBelow g p
  | .p2 h p => h ≤ p ∧ p < g.n ∧ deadBelow g p
  | .p3 h p _ => h < p ∧ p < g.n ∧ deadBelow g (p+1)
  | .p4 h p => h ≤ p ∧ p < g.n ∧ deadBelow g (p+1)
  | .k0 _ => True
  | .k1 _ h p => h ≤ p ∧ p < g.n ∧ deadBelow g p
  | .k2 _ h p => h ≤ p ∧ p < g.n ∧ deadBelow g (p+1)
  | .u1 h tgt k => h < tgt ∧ tgt < g.n ∧ deadBelow g tgt ∧ ContInv g k
  | .u2 h k => h < g.head ∧ ContInv g k
  | .s1 p _ => p < g.n
  | .s2 p _ => p < g.n
  | .idleIt it => ItInv g it
  | .n0 it pred => pred < g.n ∧ ItInv g it
  | .n0h it pred => pred < g.head ∧ ItInv g it
  | .n1 it pred p => pred < p ∧ p < g.n ∧ deadBetween g pred p ∧ ItInv g it
  | .n2 it pred p => pred < p ∧ p < g.n ∧ deadBetween g pred (p+1) ∧ ItInv g it
  | .n2h it pred p => pred < p ∧ (p < g.head ∧ p < g.n) ∧ deadBetween g pred (p+1) ∧ ItInv g it
  | .n3 it pred p q => pred < p ∧ p < q ∧ q < g.n ∧ deadBetween g pred q ∧ ItInv g it
  | .r0 it l => l < g.n ∧ ItInv g it

def Inv (c : Config M) : Prop := GInv c.g ∧ ∀ t, LInv c.g (c.l t)

/-- the guarantee: how any step may change the shared state -/
structure Guar (g g' : G) : Prop where
  n_mono : g.n ≤ g'.n
  live_mono : ∀ k, k < g.n → g.live k = false → g'.live k = false
  head_mono : g.head ≤ g'.head
  next_some_mono : ∀ i, i < g.n → g.next i ≠ none → g'.next i ≠ none

theorem Guar.refl (g : G) : Guar g g :=
  ⟨Nat.le_refl _, fun _ _ h => h, Nat.le_refl _, fun _ _ h => h⟩

theorem Guar.trans {g₁ g₂ g₃ : G} (h₁ : Guar g₁ g₂) (h₂ : Guar g₂ g₃) : Guar g₁ g₃ :=
  ⟨Nat.le_trans h₁.n_mono h₂.n_mono,
   fun k hk hd => h₂.live_mono k (Nat.lt_of_lt_of_le hk h₁.n_mono) (h₁.live_mono k hk hd),
   Nat.le_trans h₁.head_mono h₂.head_mono,
   fun i hi hn => h₂.next_some_mono i (Nat.lt_of_lt_of_le hi h₁.n_mono) (h₁.next_some_mono i hi hn)⟩

/-! ## Stability of the thread-local invariants under the guarantee -/

theorem deadBetween_stable {g g' : G} (hG : Guar g g') {a b : Nat} (hb : b ≤ g.n) (h : deadBetween g a b) :
    deadBetween g' a b := fun k h1 h2 => hG.live_mono k (by omega) (h k h1 h2)

theorem deadBelow_stable {g g' : G} (hG : Guar g g') {p : Nat} (hp : p ≤ g.n) (h : deadBelow g p) :
    deadBelow g' p := fun k hk => hG.live_mono k (by omega) (h k hk)

theorem ItInv_stable {g g' : G} (hG : Guar g g') {it : Iter} (h : ItInv g it) : ItInv g' it := by
  have hn := hG.n_mono
  obtain ⟨h1, h2, h3⟩ := h
  refine ⟨fun p hp => by have := h1 p hp; omega, fun l hl => by have := h2 l hl; omega, ?_⟩
  intro r p hr hp
  obtain ⟨a, b⟩ := h3 r p hr hp
  exact ⟨a, deadBetween_stable hG (by have := h1 p hp; omega) b⟩

theorem ContInv_stable {g g' : G} (hG : Guar g g') {k : Cont} (h : ContInv g k) : ContInv g' k := by
  have hn := hG.n_mono
  cases k with
  | ret r => trivial
  | size p =>
    cases p with
    | none => trivial
    | some p => simp only [ContInv] at h ⊢; omega
  | iter it => exact ItInv_stable hG h

theorem LInv_stable {g g' : G} (hG : Guar g g') (l : L) (h : LInv g l) : LInv g' l := by
  have hn := hG.n_mono
  have hh := hG.head_mono
  cases l <;> simp only [LInv] at h ⊢ <;> try trivial
  case o1 => omega
  case o2 => omega
  case o3 => omega
  case o4 => omega
  case o4b => omega
  case o5 => omega
  case p1 => exact ⟨h.1, by omega, deadBelow_stable hG (by omega) h.2.2⟩
  case p2 => exact ⟨h.1, by omega, deadBelow_stable hG (by omega) h.2.2⟩
  case p3 => exact ⟨h.1, by omega, deadBelow_stable hG (by omega) h.2.2⟩
  case p4 => exact ⟨h.1, by omega, deadBelow_stable hG (by omega) h.2.2⟩
  case k1 => exact ⟨h.1, by omega, deadBelow_stable hG (by omega) h.2.2⟩
  case k2 => exact ⟨h.1, by omega, deadBelow_stable hG (by omega) h.2.2⟩
  case u1 => exact ⟨h.1, by omega, deadBelow_stable hG (by omega) h.2.2.1, ContInv_stable hG h.2.2.2⟩
  case u2 => exact ⟨by omega, ContInv_stable hG h.2⟩
  case s1 => omega
  case s2 => omega
  case idleIt => exact ItInv_stable hG h
  case n0 => exact ⟨by omega, ItInv_stable hG h.2⟩
  case n0h => exact ⟨by omega, ItInv_stable hG h.2⟩
  case n1 => exact ⟨h.1, by omega, deadBetween_stable hG (by omega) h.2.2.1, ItInv_stable hG h.2.2.2⟩
  case n2 => exact ⟨h.1, by omega, deadBetween_stable hG (by omega) h.2.2.1, ItInv_stable hG h.2.2.2⟩
  case n2h => exact ⟨h.1, by omega, deadBetween_stable hG (by omega) h.2.2.1, ItInv_stable hG h.2.2.2⟩
  case n3 => exact ⟨h.1, h.2.1, by omega, deadBetween_stable hG (by omega) h.2.2.2.1, ItInv_stable hG h.2.2.2.2⟩
  case r0 => exact ⟨by omega, ItInv_stable hG h.2⟩

/-! ## The shared-state updates preserve `GInv` and obey `Guar` -/

theorem GInv_kill {g : G} (h : GInv g) (p : Nat) : GInv (kill g p) ∧ Guar g (kill g p) := by
  refine ⟨⟨h.npos, h.head_lt, h.tail_lt, h.last, ?_, ?_, h.self_before_head⟩,
    ⟨Nat.le_refl _, ?_, Nat.le_refl _, fun _ _ hn => hn⟩⟩
  · intro i j hi hn
    obtain ⟨a, b⟩ := h.fwd i j hi hn
    refine ⟨a, ?_⟩
    rcases b with b | ⟨b1, b2⟩
    · exact Or.inl b
    · refine Or.inr ⟨b1, fun k hk1 hk2 => ?_⟩
      simp only [kill]; split
      · rfl
      · exact b2 k hk1 hk2
  · intro i hi; simp only [kill]; split
    · rfl
    · exact h.dead_before_head i hi
  · intro k _ hk; simp only [kill]; split
    · rfl
    · exact hk

theorem GInv_link {g : G} (h : GInv g) (p v : Nat) (hp : p < g.n) (hnext : g.next p = none) :
    GInv (link g p v) ∧ Guar g (link g p v) := by
  have hlast : p + 1 = g.n := (h.last p hp).1 hnext
  refine ⟨⟨?_, ?_, ?_, ?_, ?_, ?_, ?_⟩, ⟨?_, ?_, ?_, ?_⟩⟩
  · simp [link]
  · simp [link]; have := h.head_lt; omega
  · simp [link]; have := h.tail_lt; omega
  · intro i hi
    simp only [link] at hi ⊢
    by_cases hip : i = p
    · subst hip; simp; omega
    · by_cases hin : i = g.n
      · subst hin; simp [hip]
      · simp [hip, hin]
        have := h.last i (by omega)
        intro hh; have := this.1 hh; omega
  · intro i j hi hn
    simp only [link] at hi hn ⊢
    by_cases hip : i = p
    · subst hip
      simp at hn; subst hn
      refine ⟨by omega, Or.inr ⟨by omega, fun k hk1 hk2 => by omega⟩⟩
    · by_cases hin : i = g.n
      · subst hin; simp [hip] at hn
      · simp [hip, hin] at hn
        obtain ⟨a, b⟩ := h.fwd i j (by omega) hn
        refine ⟨by omega, ?_⟩
        rcases b with b | ⟨b1, b2⟩
        · exact Or.inl b
        · refine Or.inr ⟨b1, fun k hk1 hk2 => ?_⟩
          have : k ≠ g.n := by omega
          simp [this]; exact b2 k hk1 hk2
  · intro i hi
    simp only [link] at hi ⊢
    have : i ≠ g.n := by have := h.head_lt; omega
    simp [this]; exact h.dead_before_head i hi
  · intro i hi hn
    simp only [link] at hi hn ⊢
    by_cases hip : i = p
    · subst hip; simp at hn; omega
    · by_cases hin : i = g.n
      · subst hin; simp [hip] at hn
      · simp [hip, hin] at hn
        exact h.self_before_head i (by omega) hn
  · simp [link]
  · intro k hk hd
    simp only [link]
    have : k ≠ g.n := by omega
    simp [this, hd]
  · simp [link]
  · intro i hi hn
    simp only [link]
    by_cases hip : i = p
    · simp [hip]
    · have : i ≠ g.n := by omega
      simp [hip, this]; exact hn

theorem GInv_head {g : G} (h : GInv g) (tgt : Nat) (h1 : g.head ≤ tgt) (h2 : tgt < g.n) (h3 : deadBelow g tgt) :
    GInv { g with head := tgt } ∧ Guar g { g with head := tgt } := by
  refine ⟨⟨h.npos, h2, h.tail_lt, h.last, h.fwd, h3, ?_⟩,
    ⟨Nat.le_refl _, fun _ _ hd => hd, h1, fun _ _ hn => hn⟩⟩
  intro i hi hn
  have := h.self_before_head i hi hn
  show i < tgt
  omega

theorem GInv_tail {g : G} (h : GInv g) (nw : Nat) (h2 : nw < g.n) :
    GInv { g with tail := nw } ∧ Guar g { g with tail := nw } :=
  ⟨⟨h.npos, h.head_lt, h2, h.last, h.fwd, h.dead_before_head, h.self_before_head⟩,
   ⟨Nat.le_refl _, fun _ _ hd => hd, Nat.le_refl _, fun _ _ hn => hn⟩⟩

theorem GInv_selflink {g : G} (h : GInv g) (x : Nat) (hx : x < g.head) :
    GInv (setNext g x (some x)) ∧ Guar g (setNext g x (some x)) := by
  have hxn : x < g.n := by have := h.head_lt; omega
  refine ⟨⟨h.npos, h.head_lt, h.tail_lt, ?_, ?_, h.dead_before_head, ?_⟩,
    ⟨Nat.le_refl _, fun _ _ hd => hd, Nat.le_refl _, ?_⟩⟩
  · intro i hi
    simp only [setNext]
    by_cases hix : i = x
    · subst hix; simp; have := h.head_lt; omega
    · simp [hix]; exact h.last i hi
  · intro i j hi hn
    simp only [setNext] at hn ⊢
    by_cases hix : i = x
    · subst hix; simp at hn; subst hn; exact ⟨hxn, Or.inl rfl⟩
    · simp [hix] at hn; exact h.fwd i j hi hn
  · intro i hi hn
    simp only [setNext] at hn ⊢
    by_cases hix : i = x
    · subst hix; exact hx
    · simp [hix] at hn; exact h.self_before_head i hi hn
  · intro i _ hn
    simp only [setNext]
    by_cases hix : i = x
    · simp [hix]
    · simp [hix]; exact hn

theorem GInv_unlink {g : G} (h : GInv g) (pred p q : Nat) (hpq : pred < q) (hq : q < g.n)
    (hd : deadBetween g pred q) (hnext : g.next pred = some p) (hp : pred < p) :
    GInv (setNext g pred (some q)) ∧ Guar g (setNext g pred (some q)) := by
  have hpn : pred < g.n := by omega
  refine ⟨⟨h.npos, h.head_lt, h.tail_lt, ?_, ?_, h.dead_before_head, ?_⟩,
    ⟨Nat.le_refl _, fun _ _ hd => hd, Nat.le_refl _, ?_⟩⟩
  · intro i hi
    simp only [setNext]
    by_cases hix : i = pred
    · subst hix; simp; omega
    · simp [hix]; exact h.last i hi
  · intro i j hi hn
    simp only [setNext] at hn ⊢
    by_cases hix : i = pred
    · subst hix; simp at hn; subst hn
      exact ⟨hq, Or.inr ⟨hpq, hd⟩⟩
    · simp [hix] at hn; exact h.fwd i j hi hn
  · intro i hi hn
    simp only [setNext] at hn ⊢
    by_cases hix : i = pred
    · subst hix; simp at hn; omega
    · simp [hix] at hn; exact h.self_before_head i hi hn
  · intro i _ hn
    simp only [setNext]
    by_cases hix : i = pred
    · simp [hix]
    · simp [hix]; exact hn

/-! ## Traversal lemmas -/

theorem deadBelow_succ {g : G} {p : Nat} (h : deadBelow g p) (hp : g.live p = false) : deadBelow g (p+1) := by
  intro k hk
  by_cases hkp : k = p
  · subst hkp; exact hp
  · exact h k (by omega)

theorem deadBelow_hop {g : G} (hG : GInv g) {p q : Nat} (hp : p < g.n) (h : deadBelow g (p+1))
    (hn : g.next p = some q) (hq : q ≠ p) : p < q ∧ q < g.n ∧ deadBelow g q := by
  obtain ⟨a, b⟩ := hG.fwd p q hp hn
  rcases b with b | ⟨b1, b2⟩
  · exact absurd b hq
  · refine ⟨b1, a, fun k hk => ?_⟩
    by_cases hkp : k < p + 1
    · exact h k hkp
    · exact b2 k (by omega) hk

theorem finish_LInv {g : G} {k : Cont} (hk : ContInv g k) : LInv g (finish k).1 := by
  cases k with
  | ret r => trivial
  | size p =>
    cases p with
    | none => trivial
    | some p => exact hk
  | iter it => exact hk

theorem goUpd_LInv {g : G} {h tgt : Nat} {k : Cont} (h1 : h ≤ tgt) (h2 : tgt < g.n) (h3 : deadBelow g tgt)
    (hk : ContInv g k) : LInv g (goUpd h tgt k).1 := by
  unfold goUpd
  split
  · exact finish_LInv hk
  · simp only [LInv]; exact ⟨by omega, h2, h3, hk⟩

theorem foundLive_ContInv {g : G} (m : Mode) {p : Nat} (v : Nat) (hp : p < g.n) :
    ContInv g (foundLive m p v).2 := by
  cases m
  · trivial
  · trivial
  · exact hp
  · refine ⟨fun q hq => ?_, fun l hl => ?_, fun r q hr _ => ?_⟩
    · simp at hq; omega
    · simp at hl
    · simp at hr

theorem foundNone_ContInv {g : G} (m : Mode) : ContInv g (foundNone m).2 := by
  cases m
  · trivial
  · trivial
  · trivial
  · refine ⟨fun q hq => ?_, fun l hl => ?_, fun r q hr _ => ?_⟩
    · simp at hq
    · simp at hl
    · simp at hr

/-! ## Single-step preservation -/

/-- every enabled step preserves the global invariant, obeys the guarantee, and re-establishes the
    acting thread's local invariant -/
theorem step_pres {t : Tid} {g g' : G} {l l' : L} {a : Act} {obs : List Obs}
    (hG : GInv g) (hL : LInv g l) (hs : step t g l a = some (g', l', obs)) :
    GInv g' ∧ Guar g g' ∧ LInv g' l' := by
  cases l <;> cases a <;> simp only [step] at hs <;> try contradiction
  all_goals simp only [LInv] at hL
  case idle.offer =>
    simp at hs; obtain ⟨rfl, rfl, _⟩ := hs; exact ⟨hG, Guar.refl _, trivial⟩
  case idle.poll =>
    simp at hs; obtain ⟨rfl, rfl, _⟩ := hs; exact ⟨hG, Guar.refl _, trivial⟩
  case idle.peek =>
    simp at hs; obtain ⟨rfl, rfl, _⟩ := hs; exact ⟨hG, Guar.refl _, trivial⟩
  case idle.isEmpty =>
    simp at hs; obtain ⟨rfl, rfl, _⟩ := hs; exact ⟨hG, Guar.refl _, trivial⟩
  case idle.size =>
    simp at hs; obtain ⟨rfl, rfl, _⟩ := hs; exact ⟨hG, Guar.refl _, trivial⟩
  case idle.iterator =>
    simp at hs; obtain ⟨rfl, rfl, _⟩ := hs; exact ⟨hG, Guar.refl _, trivial⟩
  case o0.tau =>
    simp at hs; obtain ⟨rfl, rfl, _⟩ := hs; exact ⟨hG, Guar.refl _, hG.tail_lt, hG.tail_lt⟩
  case o1.tau =>
    rename_i v t p
    split at hs
    · simp at hs; obtain ⟨rfl, rfl, _⟩ := hs; exact ⟨hG, Guar.refl _, hL⟩
    · rename_i q hq
      have hqn := (hG.fwd p q hL.2 hq).1
      split at hs
      · simp at hs; obtain ⟨rfl, rfl, _⟩ := hs; exact ⟨hG, Guar.refl _, hL⟩
      · split at hs <;> (simp at hs; obtain ⟨rfl, rfl, _⟩ := hs)
        · exact ⟨hG, Guar.refl _, hL.1, hL.2, hqn⟩
        · exact ⟨hG, Guar.refl _, hL.1, hqn⟩
  case o2.tau =>
    rename_i v t p
    split at hs
    · rename_i hnil
      obtain ⟨hg, hgu⟩ := GInv_link hG p v hL.2 hnil
      split at hs <;> (simp at hs; obtain ⟨rfl, rfl, _⟩ := hs)
      · refine ⟨hg, hgu, ?_⟩; simp [LInv, link]; omega
      · exact ⟨hg, hgu, trivial⟩
    · simp at hs; obtain ⟨rfl, rfl, _⟩ := hs; exact ⟨hG, Guar.refl _, hL⟩
  case o3.tau =>
    rename_i t nw
    simp at hs; obtain ⟨rfl, rfl, _⟩ := hs
    split
    · obtain ⟨hg, hgu⟩ := GInv_tail hG nw hL.2
      exact ⟨hg, hgu, trivial⟩
    · exact ⟨hG, Guar.refl _, trivial⟩
  case o4.tau =>
    split at hs <;> (simp at hs; obtain ⟨rfl, rfl, _⟩ := hs)
    · exact ⟨hG, Guar.refl _, hG.tail_lt, hG.tail_lt⟩
    · exact ⟨hG, Guar.refl _, hG.tail_lt⟩
  case o4b.tau =>
    simp at hs; obtain ⟨rfl, rfl, _⟩ := hs; exact ⟨hG, Guar.refl _, hL, hG.head_lt⟩
  case o5.tau =>
    split at hs <;> (simp at hs; obtain ⟨rfl, rfl, _⟩ := hs)
    · exact ⟨hG, Guar.refl _, hG.tail_lt, hG.tail_lt⟩
    · exact ⟨hG, Guar.refl _, hG.tail_lt, hL.2.2⟩
  case p0.tau =>
    simp at hs; obtain ⟨rfl, rfl, _⟩ := hs
    exact ⟨hG, Guar.refl _, Nat.le_refl _, hG.head_lt, hG.dead_before_head⟩
  case p1.tau =>
    rename_i h p
    split at hs <;> (simp at hs; obtain ⟨rfl, rfl, _⟩ := hs)
    · exact ⟨hG, Guar.refl _, hL⟩
    · rename_i hdead _
      exact ⟨hG, Guar.refl _, hL.1, hL.2.1, deadBelow_succ hL.2.2 (by simpa using hdead)⟩
  case p2.tau =>
    rename_i h p
    split at hs
    · obtain ⟨hg, hgu⟩ := GInv_kill hG p
      have hdb : deadBelow (kill g p) (p+1) := by
        intro k hk; simp only [kill]; split
        · rfl
        · exact hL.2.2 k (by omega)
      split at hs <;> (simp at hs; obtain ⟨rfl, rfl, _⟩ := hs)
      · exact ⟨hg, hgu, by omega, hL.2.1, hdb⟩
      · exact ⟨hg, hgu, trivial⟩
    · rename_i hdead
      simp at hs; obtain ⟨rfl, rfl, _⟩ := hs
      exact ⟨hG, Guar.refl _, hL.1, hL.2.1, deadBelow_succ hL.2.2 (by simpa using hdead)⟩
  case p3.tau =>
    rename_i h p v
    split at hs
    · rename_i q hq
      simp at hs; obtain ⟨rfl, hl, _⟩ := hs
      refine ⟨hG, Guar.refl _, ?_⟩
      rw [← hl]
      by_cases hqp : q = p
      · subst hqp
        exact goUpd_LInv (by omega) hL.2.1 (fun k hk => hL.2.2 k (by omega)) trivial
      · obtain ⟨a, b, c⟩ := deadBelow_hop hG hL.2.1 hL.2.2 hq hqp
        exact goUpd_LInv (by omega) b c trivial
    · simp at hs; obtain ⟨rfl, hl, _⟩ := hs
      refine ⟨hG, Guar.refl _, ?_⟩
      rw [← hl]
      exact goUpd_LInv (by omega) hL.2.1 (fun k hk => hL.2.2 k (by omega)) trivial
  case p4.tau =>
    rename_i h p
    split at hs
    · simp at hs; obtain ⟨rfl, hl, _⟩ := hs
      refine ⟨hG, Guar.refl _, ?_⟩
      rw [← hl]
      exact goUpd_LInv hL.1 hL.2.1 (fun k hk => hL.2.2 k (by omega)) trivial
    · rename_i q hq
      split at hs <;> (simp at hs; obtain ⟨rfl, rfl, _⟩ := hs)
      · exact ⟨hG, Guar.refl _, trivial⟩
      · rename_i hqp _
        obtain ⟨a, b, c⟩ := deadBelow_hop hG hL.2.1 hL.2.2 hq hqp
        exact ⟨hG, Guar.refl _, by omega, b, c⟩
  case k0.tau =>
    simp at hs; obtain ⟨rfl, rfl, _⟩ := hs
    exact ⟨hG, Guar.refl _, Nat.le_refl _, hG.head_lt, hG.dead_before_head⟩
  case k1.tau =>
    rename_i m h p
    split at hs
    · simp at hs; obtain ⟨rfl, hl, _⟩ := hs
      refine ⟨hG, Guar.refl _, ?_⟩
      rw [← hl]
      exact goUpd_LInv hL.1 hL.2.1 hL.2.2 (foundLive_ContInv m _ hL.2.1)
    · rename_i hdead
      simp at hs; obtain ⟨rfl, rfl, _⟩ := hs
      exact ⟨hG, Guar.refl _, hL.1, hL.2.1, deadBelow_succ hL.2.2 (by simpa using hdead)⟩
  case k2.tau =>
    rename_i m h p
    split at hs
    · simp at hs; obtain ⟨rfl, hl, _⟩ := hs
      refine ⟨hG, Guar.refl _, ?_⟩
      rw [← hl]
      exact goUpd_LInv hL.1 hL.2.1 (fun k hk => hL.2.2 k (by omega)) (foundNone_ContInv m)
    · rename_i q hq
      split at hs <;> (simp at hs; obtain ⟨rfl, rfl, _⟩ := hs)
      · exact ⟨hG, Guar.refl _, trivial⟩
      · rename_i hqp _
        obtain ⟨a, b, c⟩ := deadBelow_hop hG hL.2.1 hL.2.2 hq hqp
        exact ⟨hG, Guar.refl _, by omega, b, c⟩
  case u1.tau =>
    rename_i h tgt k
    split at hs
    · simp at hs; obtain ⟨rfl, rfl, _⟩ := hs
      obtain ⟨hg, hgu⟩ := GInv_head hG tgt (by omega) hL.2.1 hL.2.2.1
      exact ⟨hg, hgu, hL.1, ContInv_stable hgu hL.2.2.2⟩
    · simp at hs; obtain ⟨rfl, hl, _⟩ := hs
      refine ⟨hG, Guar.refl _, ?_⟩
      rw [← hl]
      exact finish_LInv hL.2.2.2
  case u2.tau =>
    rename_i h k
    simp at hs; obtain ⟨rfl, hl, _⟩ := hs
    obtain ⟨hg, hgu⟩ := GInv_selflink hG h hL.1
    refine ⟨hg, hgu, ?_⟩
    rw [← hl]
    exact finish_LInv (ContInv_stable hgu hL.2)
  case s1.tau =>
    rename_i p c
    split at hs
    · split at hs <;> (simp at hs; obtain ⟨rfl, rfl, _⟩ := hs)
      · exact ⟨hG, Guar.refl _, trivial⟩
      · exact ⟨hG, Guar.refl _, hL⟩
    · simp at hs; obtain ⟨rfl, rfl, _⟩ := hs
      exact ⟨hG, Guar.refl _, hL⟩
  case s2.tau =>
    rename_i p c
    split at hs
    · simp at hs; obtain ⟨rfl, rfl, _⟩ := hs; exact ⟨hG, Guar.refl _, trivial⟩
    · rename_i q hq
      have hqn := (hG.fwd p q hL hq).1
      split at hs <;> (simp at hs; obtain ⟨rfl, rfl, _⟩ := hs)
      · exact ⟨hG, Guar.refl _, trivial⟩
      · exact ⟨hG, Guar.refl _, hqn⟩
  case idleIt.hasNext => simp at hs; obtain ⟨rfl, rfl, _⟩ := hs; exact ⟨hG, Guar.refl _, hL⟩
  case idleIt.drop => simp at hs; obtain ⟨rfl, rfl, _⟩ := hs; exact ⟨hG, Guar.refl _, trivial⟩
  case idleIt.next =>
    rename_i it
    split at hs <;> (simp at hs; obtain ⟨rfl, rfl, _⟩ := hs)
    · exact ⟨hG, Guar.refl _, hL⟩
    · rename_i pred hpred _
      refine ⟨hG, Guar.refl _, hL.1 pred hpred, ?_⟩
      exact ⟨hL.1, fun l hl => by simp at hl; subst hl; exact hL.1 _ hpred, hL.2.2⟩
  case n0.tau =>
    rename_i it pred
    obtain ⟨hp, h1, h2, h3⟩ := hL
    split at hs
    · simp at hs; obtain ⟨rfl, rfl, _⟩ := hs
      exact ⟨hG, Guar.refl _, fun q hq => by simp at hq, h2, fun r q _ hq => by simp at hq⟩
    · rename_i q hq
      obtain ⟨hqn, hdisj⟩ := hG.fwd pred q hp hq
      split at hs <;> (simp at hs; obtain ⟨rfl, rfl, _⟩ := hs)
      · rename_i hself _
        subst hself
        exact ⟨hG, Guar.refl _, hG.self_before_head _ hp hq, h1, h2, h3⟩
      · rename_i hne _
        rcases hdisj with e | ⟨a, b⟩
        · exact absurd e hne
        · exact ⟨hG, Guar.refl _, a, hqn, b, h1, h2, h3⟩
  case n0h.tau =>
    rename_i it pred
    simp at hs; obtain ⟨rfl, rfl, _⟩ := hs
    exact ⟨hG, Guar.refl _, hL.1, hG.head_lt, fun k _ hk => hG.dead_before_head k hk, hL.2⟩
  case n1.tau =>
    rename_i it pred p
    obtain ⟨hpp, hpn, hdb, h1, h2, h3⟩ := hL
    split at hs <;> (simp at hs; obtain ⟨rfl, rfl, _⟩ := hs)
    · refine ⟨hG, Guar.refl _, ?_⟩
      exact ⟨fun q hq => by simp at hq; omega, h2, fun r q hr hq => by simp at hr hq; subst hr; subst hq; exact ⟨hpp, hdb⟩⟩
    · rename_i hdead _
      refine ⟨hG, Guar.refl _, hpp, hpn, ?_, h1, h2, h3⟩
      intro k hk1 hk2
      by_cases hkp : k = p
      · subst hkp; simpa using hdead
      · exact hdb k hk1 (by omega)
  case n2.tau =>
    rename_i it pred p
    obtain ⟨hpp, hpn, hdb, h1, h2, h3⟩ := hL
    split at hs
    · simp at hs; obtain ⟨rfl, rfl, _⟩ := hs
      exact ⟨hG, Guar.refl _, fun q hq => by simp at hq, h2, fun r q _ hq => by simp at hq⟩
    · rename_i q hq
      obtain ⟨hqn, hdisj⟩ := hG.fwd p q hpn hq
      split at hs <;> (simp at hs; obtain ⟨rfl, rfl, _⟩ := hs)
      · rename_i hself _
        subst hself
        exact ⟨hG, Guar.refl _, hpp, ⟨hG.self_before_head _ hpn hq, hpn⟩, hdb, h1, h2, h3⟩
      · rename_i hne _
        rcases hdisj with e | ⟨a, b⟩
        · exact absurd e hne
        · refine ⟨hG, Guar.refl _, hpp, a, hqn, ?_, h1, h2, h3⟩
          intro k hk1 hk2
          by_cases hkp : k < p + 1
          · exact hdb k hk1 hkp
          · exact b k (by omega) hk2
  case n2h.tau =>
    rename_i it pred p
    obtain ⟨hpp, ⟨hph, hpn⟩, hdb, h1, h2, h3⟩ := hL
    simp at hs; obtain ⟨rfl, rfl, _⟩ := hs
    refine ⟨hG, Guar.refl _, hpp, hph, hG.head_lt, ?_, h1, h2, h3⟩
    intro k _ hk2
    exact hG.dead_before_head k hk2
  case n3.tau =>
    rename_i it pred p q
    obtain ⟨hpp, hpq, hqn, hdb, h1, h2, h3⟩ := hL
    simp at hs; obtain ⟨rfl, rfl, _⟩ := hs
    split
    · rename_i hnext
      obtain ⟨hg, hgu⟩ := GInv_unlink hG pred p q (by omega) hqn hdb hnext (by omega)
      refine ⟨hg, hgu, by omega, hqn, ?_, ItInv_stable hgu ⟨h1, h2, h3⟩⟩
      exact deadBetween_stable hgu (by omega) hdb
    · exact ⟨hG, Guar.refl _, by omega, hqn, hdb, h1, h2, h3⟩
  case idleIt.remove =>
    rename_i it
    split at hs <;> (simp at hs; obtain ⟨rfl, rfl, _⟩ := hs)
    · exact ⟨hG, Guar.refl _, hL⟩
    · rename_i l hl _
      exact ⟨hG, Guar.refl _, hL.2.1 l hl, hL⟩
  case r0.tau =>
    rename_i it l
    simp at hs; obtain ⟨rfl, rfl, _⟩ := hs
    obtain ⟨hg, hgu⟩ := GInv_kill hG l
    have := ItInv_stable hgu hL.2
    exact ⟨hg, hgu, this.1, fun l' hl' => by simp at hl', this.2.2⟩

/-! ## Every reachable configuration satisfies the invariant -/

theorem inv_init : Inv (Config.init M) := by
  refine ⟨⟨by simp [Config.init, M, init], by simp [Config.init, M, init], by simp [Config.init, M, init],
    ?_, ?_, ?_, ?_⟩, fun t => trivial⟩
  · intro i hi; simp [Config.init, M, init] at hi ⊢; omega
  · intro i j hi hn; simp [Config.init, M, init] at hn
  · intro i hi; simp [Config.init, M, init] at hi
  · intro i hi hn; simp [Config.init, M, init] at hn

theorem inv_reach : ∀ c, Garr.Conc.Reach M c → Inv c := by
  apply inv_of_reach
  · exact inv_init
  · intro c t a g' l' obs hinv hstep
    obtain ⟨hG, hLs⟩ := hinv
    obtain ⟨hg, hgu, hl⟩ := step_pres (t := t) (g := c.g) hG (hLs t) hstep
    refine ⟨hg, fun u => ?_⟩
    by_cases hut : u = t
    · subst hut; simpa using hl
    · simp [hut]; exact LInv_stable hgu _ (hLs u)

end Garr.Queue
