import Garr.Queue.LP
import Garr.Queue.Term
import Garr.Queue.Iter
import Garr.Props.C01
/-!
# C15 (lemmas): one thread running alone sees a plain FIFO list

A *solo call* of thread `t` is the run of the machine under the schedule
`(t, a) :: replicate k (t, .tau)`: the invocation `a` followed by `k` own steps (`k` at least the
bound of C07; own steps of a thread at rest are disabled and skipped by `Garr.Conc.run`).  Nothing is
assumed about the other threads except that they do not move: they may be suspended anywhere inside
their operations, or all be at rest (`Quiet`, "after a concurrent phase has finished").

* `solo_taus` / `solo_call`: the generic rule: an invariant of `t`'s own steps holds when `t` has come
  to rest, which it has after `bound` steps.
* `solo_op_matches_spec`: single-thread refinement for `Offer`/`Poll`/`Peek`/`IsEmpty` (from `step_refines`
  and the LP discipline `disc_*` of `LP.lean`).
* `seq_refines_list`: a list of operations executed one after the other behaves as `runSpec`;
  `solo_drain_run`: polling until nil returns the abstract content.
* `solo_size_run`: `Size` counts exactly the live nodes (saturating at `maxInt32`); invariant `SzPc`.
* `solo_iterator_run`, `solo_next_run`, `solo_iteration_run`: a full iteration returns exactly the
  live nodes in link order; invariants `ItcPc`, `NxPc`, cursor predicate `CurOK`.
* `fifoApply`/`runFifo`, `Call`/`callApply`/`runCalls`: the plain FIFO list (values only, no handles);
  `calls_behave_like_fifo_list`: any single-threaded sequence of operations, `Size` and full iterations.
* `abs_at_live_positions`, `abs_sublist_offered`, `abs_length_accounting`: the abstract content consists of
  the offered values at the live positions.
-/
namespace Garr.Queue
open Garr.Conc

-- `M.G`/`M.L`/`M.Act`/`M.Obs` are `G`/`L`/`Act`/`Obs` only after unfolding `M`
set_option backward.isDefEq.respectTransparency false

/-- every thread is between operations (possibly owning a private iterator) -/
def Quiet (c : Config M) : Prop := ∀ u, atRest (c.l u) = true

/-- `k` own steps of thread `t` -/
abbrev taus (t : Tid) (k : Nat) : List (Tid × M.Act) := List.replicate k (t, Act.tau)

/-- the schedule of a solo call: invocation `a`, then `k` own steps -/
abbrev soloSched (t : Tid) (a : Act) (k : Nat) : List (Tid × M.Act) := (t, a) :: taus t k

/-- tag a list of observations with the thread that made them -/
abbrev tag (t : Tid) (obs : List Obs) : List (Tid × M.Obs) := obs.map (fun o => (t, o))

/-! ## Runs: concatenation, threads at rest -/

theorem run_append {M : Machine} (c : Config M) (s1 s2 : List (Tid × M.Act)) :
    run M c (s1 ++ s2) = ((run M (run M c s1).1 s2).1, (run M c s1).2 ++ (run M (run M c s1).1 s2).2) := by
  induction s1 generalizing c with
  | nil => simp [run]
  | cons ta rest ih =>
    obtain ⟨t, a⟩ := ta
    cases h : M.step t c.g (c.l t) a with
    | none => simp only [List.cons_append, run_cons_none h]; exact ih c
    | some r =>
      obtain ⟨g', l', obs⟩ := r
      simp only [List.cons_append, run_cons_some h, ih, List.append_assoc]

theorem tau_disabled_of_rest {t : Tid} {g : G} {l : L} (h : atRest l = true) : step t g l .tau = none := by
  cases l <;> simp [atRest] at h <;> rfl

theorem rest_no_cur {l : L} (h : atRest l = true) : curOp l = none ∧ doneRet l = none := by
  cases l <;> simp [atRest] at h <;> exact ⟨rfl, rfl⟩

/-- own steps of a thread at rest do nothing -/
theorem run_taus_rest {c : Config M} {t : Tid} (h : atRest (c.l t) = true) (k : Nat) :
    run M c (taus t k) = (c, []) := by
  induction k with
  | zero => rfl
  | succ k ih =>
    have hnone : M.step t c.g (c.l t) Act.tau = none := tau_disabled_of_rest (t := t) h
    show run M c ((t, Act.tau) :: taus t k) = (c, [])
    rw [run_cons_none hnone]; exact ih

/-- after `bound c` own steps the thread is at rest, and further own steps change nothing -/
theorem run_taus_settle {c : Config M} (hc : Reach M c) (t : Tid) :
    ∃ k0, k0 ≤ bound c ∧ atRest ((run M c (taus t k0)).1.l t) = true ∧
      ∀ k, k0 ≤ k → run M c (taus t k) = run M c (taus t k0) := by
  obtain ⟨k0, hk0, hrest⟩ := C07_solo_bound c t hc
  rw [solo_eq_run] at hrest
  refine ⟨k0, hk0, hrest, fun k hk => ?_⟩
  have e : taus t k = taus t k0 ++ taus t (k - k0) := by
    show List.replicate k _ = List.replicate k0 _ ++ List.replicate (k - k0) _
    rw [List.replicate_append_replicate]; congr 1; omega
  rw [e, run_append, run_taus_rest hrest]
  simp

/-! ## The generic rule for solo runs -/

/-- **Solo rule.**  Let `I` relate the shared state, the observations made so far and `t`'s local state;
if `I` holds at `c` and is preserved by every own step of `t` (from states satisfying the structural
invariants), then after `k ≥ bound c` own steps `t` is at rest, nobody else has moved, the log
consists of `t`'s observations only, and `I` holds. -/
theorem solo_taus {c : Config M} (hc : Reach M c) (t : Tid) (I : G → List Obs → L → Prop)
    (h0 : I c.g [] (c.l t))
    (hstep : ∀ g lg l g' l' obs, GInv g → LInv g l → I g lg l →
      step t g l .tau = some (g', l', obs) → I g' (lg ++ obs) l')
    {k : Nat} (hk : bound c ≤ k) :
    Reach M (run M c (taus t k)).1 ∧ atRest ((run M c (taus t k)).1.l t) = true ∧
    (∀ u, u ≠ t → (run M c (taus t k)).1.l u = c.l u) ∧
    ∃ lg, (run M c (taus t k)).2 = tag t lg ∧ I (run M c (taus t k)).1.g lg ((run M c (taus t k)).1.l t) := by
  obtain ⟨k0, hk0, hrest, hstable⟩ := run_taus_settle hc t
  rw [hstable k (Nat.le_trans hk0 hk)]
  refine ⟨reach_run M c hc _, hrest, ?_⟩
  have := run_ind (fun t' a => t' = t ∧ a = Act.tau)
    (fun lg g ls => (∀ u, u ≠ t → ls u = c.l u) ∧ ∃ lg', lg = tag t lg' ∧ I g lg' (ls t))
    ?_ (taus t k0) c hc ⟨fun _ _ => rfl, [], rfl, h0⟩
    (fun e he => by rw [List.eq_of_mem_replicate he]; exact ⟨rfl, rfl⟩)
  · exact this
  · intro lg g ls t' a g' l' obs hr ⟨h1, lg', h2, h3⟩ ⟨ht, ha⟩ hs
    subst ht; subst ha
    obtain ⟨hG, hL, _⟩ := reach_invs hr t'
    refine ⟨fun u hu => by rw [upd_other _ _ _ _ hu]; exact h1 u hu, lg' ++ obs, ?_, ?_⟩
    · rw [h2]; exact (List.map_append ..).symm
    · rw [upd_same]; exact hstep g lg' (ls t') g' l' obs hG hL h3 hs

/-- **Solo call.**  The same for a call: a silent invocation step followed by own steps. -/
theorem solo_call {c : Config M} (hc : Reach M c) {t : Tid} {a : Act} {g1 : G} {l1 : L}
    (hinv : step t c.g (c.l t) a = some (g1, l1, []))
    (I : G → List Obs → L → Prop) (h0 : I g1 [] l1)
    (hstep : ∀ g lg l g' l' obs, GInv g → LInv g l → I g lg l →
      step t g l .tau = some (g', l', obs) → I g' (lg ++ obs) l')
    {k : Nat} (hk : 16 * g1.n + 15 ≤ k) :
    Reach M (run M c (soloSched t a k)).1 ∧ atRest ((run M c (soloSched t a k)).1.l t) = true ∧
    (∀ u, u ≠ t → (run M c (soloSched t a k)).1.l u = c.l u) ∧
    ∃ lg, (run M c (soloSched t a k)).2 = tag t lg ∧
      I (run M c (soloSched t a k)).1.g lg ((run M c (soloSched t a k)).1.l t) := by
  have hinv' : M.step t c.g (c.l t) a = some (g1, l1, []) := hinv
  have hc1 : Reach M ⟨g1, upd c.l t l1⟩ := Reach.step hc hinv'
  have e : run M c (soloSched t a k) = run M ⟨g1, upd c.l t l1⟩ (taus t k) := by
    show run M c ((t, a) :: taus t k) = _
    rw [run_cons_some hinv']; simp
  rw [e]
  obtain ⟨r1, r2, r3, r4⟩ := solo_taus hc1 t I (by show I g1 [] (upd c.l t l1 t); rw [upd_same]; exact h0) hstep (k := k) hk
  exact ⟨r1, r2, fun u hu => by rw [r3 u hu]; exact upd_other _ _ _ _ hu, r4⟩

/-! ## 1. Single-thread refinement for `Offer` / `Poll` / `Peek` / `IsEmpty` -/

open Garr.Props.C01 (plain runSpec)

/-- a step that responds to a specification operation other than the iterator's `Remove` ends in `idle` -/
theorem ret_step_idle {t : Tid} {g g' : G} {l l' : L} {a : Act} {obs : List Obs} {r : Ret}
    (hs : step t g l a = some (g', l', obs)) (hm : Obs.ret r ∈ obs) (hr0 : ∀ it x, l ≠ .r0 it x) :
    l' = .idle := by
  step_cases
  case p3.tau =>
    simp only [goUpd, finish] at hs
    step_split <;> first | rfl | simp at hm
  case p4.tau =>
    simp only [goUpd, finish] at hs
    step_split <;> first | rfl | simp at hm
  case k1.tau =>
    rename_i m h p
    cases m <;> simp only [foundLive, goUpd, finish] at hs <;> step_split <;> first | rfl | simp at hm
  case k2.tau =>
    rename_i m h p
    cases m <;> simp only [foundNone, goUpd, finish] at hs <;> step_split <;> first | rfl | simp at hm
  case u1.tau =>
    rename_i h tgt k
    rcases k with r' | (_ | p) | it <;> simp only [finish] at hs <;> step_split <;> first | rfl | simp at hm
  case u2.tau =>
    rename_i h k
    rcases k with r' | (_ | p) | it <;> simp only [finish] at hs <;> step_split <;> first | rfl | simp at hm
  case r0.tau => exact absurd rfl (hr0 _ _)
  all_goals (step_split <;> first | rfl | simp at hm)

/-- invoking a plain specification operation is a silent step that makes it the current operation -/
theorem invoke_plain {t : Tid} {g : G} {a : Act} {op : Op} (h : invOp .idle a = some op) :
    plain op ∧ ∃ l1, step t g .idle a = some (g, l1, []) ∧ curOp l1 = some op := by
  cases a <;> simp [invOp] at h <;> subst h <;> exact ⟨trivial, _, rfl, rfl⟩

/-- the invariant of a solo specification operation `op` started in abstract state `s0`:
before the LP nothing has been observed and the abstract state is `s0`; at the LP the abstract state
becomes `(specApply s0 op).1` and the result `(specApply s0 op).2` is fixed; the response carries it -/
def OpInv (s0 : SpecSt) (op : Op) (g : G) (lg : List Obs) (l : L) : Prop :=
  (marks lg = [] ∧ curOp l = some op ∧ absS g = s0) ∨
  (marks lg = [.lp (specApply s0 op).2] ∧ doneRet l = some (specApply s0 op).2 ∧ absS g = (specApply s0 op).1) ∨
  (marks lg = [.lp (specApply s0 op).2, .res (specApply s0 op).2] ∧ l = .idle ∧ absS g = (specApply s0 op).1)

theorem marks_append (a b : List Obs) : marks (a ++ b) = marks a ++ marks b := by
  unfold marks; exact List.filterMap_append ..

theorem mem_marks_res {obs : List Obs} {r : Ret} (h : Mark.res r ∈ marks obs) : Obs.ret r ∈ obs := by
  obtain ⟨o, ho, e⟩ := List.mem_filterMap.1 h
  cases o <;> simp [markOf] at e
  subst e; exact ho

/-- the result carried by any response, of a specification operation (`ret`) or not (`retAux`) -/
def Obs.resp : Obs → Option Ret
  | .ret r => some r
  | .retAux r => some r
  | _ => none

/-- all responses among a list of observations, in order -/
def resps (obs : List Obs) : List Ret := obs.filterMap Obs.resp

theorem resps_append (a b : List Obs) : resps (a ++ b) = resps a ++ resps b := by
  unfold resps; exact List.filterMap_append ..

theorem rets_append (a b : List Obs) : rets (a ++ b) = rets a ++ rets b := by
  unfold rets; exact List.filterMap_append ..

/-- a thread inside a specification operation makes no other responses than the one of that operation -/
theorem spec_step_resps {t : Tid} {g g' : G} {l l' : L} {a : Act} {obs : List Obs}
    (hs : step t g l a = some (g', l', obs)) (h : curOp l ≠ none ∨ doneRet l ≠ none) :
    resps obs = rets obs := by
  step_cases
  all_goals try (simp [curOp, doneRet] at h; done)
  case k0.tau =>
    rename_i m
    cases m <;> simp [curOp, doneRet, modeOp] at h <;> step_split <;> rfl
  case k1.tau =>
    rename_i m hh p
    cases m <;> simp [curOp, doneRet, modeOp] at h <;> simp only [foundLive, goUpd, finish] at hs <;>
      step_split <;> rfl
  case k2.tau =>
    rename_i m hh p
    cases m <;> simp [curOp, doneRet, modeOp] at h <;> simp only [foundNone, goUpd, finish] at hs <;>
      step_split <;> rfl
  case u1.tau =>
    rename_i hh tgt k
    rcases k with r | x | it <;> simp [curOp, doneRet, contRet] at h <;> simp only [finish] at hs <;>
      step_split <;> rfl
  case u2.tau =>
    rename_i hh k
    rcases k with r | x | it <;> simp [curOp, doneRet, contRet] at h <;> simp only [finish] at hs <;>
      step_split <;> rfl
  case p3.tau => simp only [goUpd, finish] at hs; step_split <;> rfl
  case p4.tau => simp only [goUpd, finish] at hs; step_split <;> rfl
  all_goals (step_split <;> rfl)

theorem OpInv_step {s0 : SpecSt} {op : Op} (hp : plain op) {t : Tid} {g g' : G} {l l' : L} {lg obs : List Obs}
    (hG : GInv g) (hL : LInv g l) (hI : OpInv s0 op g lg l) (hs : step t g l .tau = some (g', l', obs)) :
    OpInv s0 op g' (lg ++ obs) l' := by
  rcases hI with ⟨h1, h2, h3⟩ | ⟨h1, h2, h3⟩ | ⟨_, h2, _⟩
  · have hr0 : ∀ it x, l ≠ .r0 it x := by
      intro it x e; subst e
      simp only [curOp, Option.some.injEq] at h2; subst h2; exact hp
    rcases (disc_pending_marks hs h2).2 with ⟨hm, hc⟩ | ⟨r, hm, hd, _⟩ | ⟨r, hm, _, _⟩
    · refine Or.inl ⟨by rw [marks_append, h1, hm]; rfl, hc, ?_⟩
      rw [refines_no_lp hG hL hs (fun r h => by rw [hm] at h; cases h), h3]
    · have hsp := refines_lp hG hL hs (r := r) (by rw [hm]; exact List.mem_singleton.2 rfl) h2
      rw [h3] at hsp
      refine Or.inr (Or.inl ⟨by rw [marks_append, h1, hm, hsp]; rfl, by rw [hsp]; exact hd, by rw [hsp]⟩)
    · have hsp := refines_lp hG hL hs (r := r) (by rw [hm]; exact List.mem_cons_self ..) h2
      rw [h3] at hsp
      have hidle : l' = .idle :=
        ret_step_idle hs (mem_marks_res (r := r) (by rw [hm]; simp)) hr0
      refine Or.inr (Or.inr ⟨by rw [marks_append, h1, hm, hsp]; rfl, hidle, by rw [hsp]⟩)
  · have hr0 : ∀ it x, l ≠ .r0 it x := by
      intro it x e; subst e; simp [doneRet] at h2
    rcases (disc_done_marks hs h2).2 with ⟨hm, hd, _⟩ | ⟨hm, _, _⟩
    · refine Or.inr (Or.inl ⟨by rw [marks_append, h1, hm]; rfl, hd, ?_⟩)
      rw [refines_no_lp hG hL hs (fun r h => by rw [hm] at h; cases h), h3]
    · have hidle : l' = .idle :=
        ret_step_idle hs (mem_marks_res (r := (specApply s0 op).2) (by rw [hm]; simp)) hr0
      refine Or.inr (Or.inr ⟨by rw [marks_append, h1, hm]; rfl, hidle, ?_⟩)
      rw [refines_no_lp hG hL hs (fun r h => by rw [hm] at h; simp at h), h3]
  · subst h2; simp [step] at hs

theorem OpInv_step_resps {s0 : SpecSt} {op : Op} {t : Tid} {g g' : G} {l l' : L} {lg obs : List Obs}
    (hI : OpInv s0 op g lg l) (hs : step t g l .tau = some (g', l', obs)) : resps obs = rets obs := by
  rcases hI with ⟨_, h2, _⟩ | ⟨_, h2, _⟩ | ⟨_, h2, _⟩
  · exact spec_step_resps hs (Or.inl (by rw [h2]; simp))
  · exact spec_step_resps hs (Or.inr (by rw [h2]; simp))
  · subst h2; simp [step] at hs

/-- **Single-thread refinement.**  Thread `t` is idle in the reachable configuration `c` and invokes
the specification operation `op` (`Offer v`, `Poll`, `Peek` or `IsEmpty`) by `a`; it then runs alone
for `k ≥ bound c` steps (the others do not move, wherever they are).  Then `t` is idle again, nobody
else has moved, the log consists of exactly one LP marker and one response of `t`, both carrying
the result the sequential specification computes from the abstract state at `c`, and the abstract state
has become the one the specification computes. -/
theorem solo_op_matches_spec {c : Config M} (hc : Reach M c) {t : Tid} (ht : c.l t = .idle)
    {a : Act} {op : Op} (hop : invOp .idle a = some op) {k : Nat} (hk : bound c ≤ k) :
    Reach M (run M c (soloSched t a k)).1 ∧
    (run M c (soloSched t a k)).1.l = c.l ∧
    absS (run M c (soloSched t a k)).1.g = (specApply (absS c.g) op).1 ∧
    ∃ lg, (run M c (soloSched t a k)).2 = tag t lg ∧
      marks lg = [.lp (specApply (absS c.g) op).2, .res (specApply (absS c.g) op).2] ∧
      resps lg = [(specApply (absS c.g) op).2] := by
  obtain ⟨hp, l1, hinv, hcur⟩ := invoke_plain (t := t) (g := c.g) hop
  rw [← ht] at hinv
  obtain ⟨r1, r2, r3, lg, r4, r5, r6⟩ := solo_call hc hinv
    (fun g lg l => OpInv (absS c.g) op g lg l ∧ resps lg = rets lg) ⟨Or.inl ⟨rfl, hcur, rfl⟩, rfl⟩
    (fun g lg l g' l' obs hG hL hI hs =>
      ⟨OpInv_step hp hG hL hI.1 hs, by rw [resps_append, rets_append, hI.2, OpInv_step_resps hI.1 hs]⟩)
    (k := k) hk
  obtain ⟨hcn, hdn⟩ := rest_no_cur r2
  rcases r5 with ⟨_, h, _⟩ | ⟨_, h, _⟩ | ⟨h1, h2, h3⟩
  · rw [hcn] at h; cases h
  · rw [hdn] at h; cases h
  · refine ⟨r1, ?_, h3, lg, r4, h1, ?_⟩
    · funext u
      by_cases hu : u = t
      · subst hu; rw [h2, ht]
      · exact r3 u hu
    · rw [r6, rets_marks, h1]; rfl

/-! ## 2. A sequence of operations executed by one thread behaves like `runSpec` -/

/-- the action that invokes a specification operation -/
def opAct : Op → Act
  | .offer v => .offer v
  | .poll => .poll
  | .peek => .peek
  | .isEmpty => .isEmpty
  | .removeAt _ => .remove

theorem invOp_opAct {op : Op} (h : plain op) : invOp .idle (opAct op) = some op := by
  cases op <;> first | rfl | exact h.elim

/-- the schedule "thread `t` executes `ops` one after the other", each call with `k` own steps -/
def seqSched (t : Tid) (k : Nat) : List Op → List (Tid × M.Act)
  | [] => []
  | op :: ops => soloSched t (opAct op) k ++ seqSched t k ops

/-- the markers of a sequential execution: per operation its LP and its response, with the same result -/
def seqMarks (tr : List (Op × Ret)) : List Mark := tr.flatMap (fun x => [.lp x.2, .res x.2])

theorem specApply_next_le (s : SpecSt) (op : Op) : (specApply s op).1.next ≤ s.next + 1 := by
  obtain ⟨items, nx⟩ := s
  cases op <;> simp only [specApply] <;> first | omega | (split <;> simp)

theorem rets_seqMarks {lg : List Obs} {tr : List (Op × Ret)} (h : marks lg = seqMarks tr) :
    rets lg = tr.map (·.2) := by
  rw [rets_marks, h]
  clear h
  induction tr with
  | nil => rfl
  | cons x tr ih =>
    simp only [seqMarks, List.flatMap_cons] at ih ⊢
    simp only [List.cons_append, List.nil_append, List.filterMap_cons, Mark.res?, ih, List.map_cons]

/-- **Sequential behaviour.**  From a reachable configuration in which `t` is idle (the others do not
move), `t` executes the plain operations `ops` one after the other.  The LP markers / responses are
those of `runSpec` from the abstract state at `c`, and the final abstract state is the one of `runSpec`:
the queue behaves like a plain FIFO list. -/
theorem seq_refines_list {t : Tid} (ops : List Op) (hp : ∀ op ∈ ops, plain op) {k : Nat} :
    ∀ {c : Config M}, Reach M c → c.l t = .idle → 16 * (c.g.n + ops.length) + 15 ≤ k →
    Reach M (run M c (seqSched t k ops)).1 ∧
    (run M c (seqSched t k ops)).1.l = c.l ∧
    absS (run M c (seqSched t k ops)).1.g = (runSpec (absS c.g) ops).1 ∧
    ∃ lg, (run M c (seqSched t k ops)).2 = tag t lg ∧ marks lg = seqMarks (runSpec (absS c.g) ops).2 ∧
      resps lg = (runSpec (absS c.g) ops).2.map (·.2) := by
  induction ops with
  | nil => intro c hc _ _; exact ⟨hc, rfl, rfl, [], rfl, rfl, rfl⟩
  | cons op ops ih =>
    intro c hc ht hk
    have hpop := hp op (List.mem_cons_self ..)
    have hk1 : bound c ≤ k := by simp only [bound, List.length_cons] at hk ⊢; omega
    obtain ⟨a1, a2, a3, lg1, a4, a5, a6⟩ := solo_op_matches_spec hc ht (invOp_opAct hpop) hk1
    have hn : (run M c (soloSched t (opAct op) k)).1.g.n ≤ c.g.n + 1 := by
      have := specApply_next_le (absS c.g) op
      rw [← a3] at this; exact this
    obtain ⟨b1, b2, b3, lg2, b4, b5, b6⟩ := ih (fun o ho => hp o (List.mem_cons_of_mem _ ho)) a1
      (by rw [a2]; exact ht) (by simp only [List.length_cons] at hk; omega)
    have e : seqSched t k (op :: ops) = soloSched t (opAct op) k ++ seqSched t k ops := rfl
    rw [e, run_append]
    refine ⟨b1, b2.trans a2, ?_, lg1 ++ lg2, ?_, ?_, ?_⟩
    · rw [b3, a3]; rfl
    · show _ ++ _ = _
      rw [a4, b4]; exact (List.map_append ..).symm
    · rw [marks_append, a5, b5, a3]; rfl
    · rw [resps_append, a6, b6, a3]; rfl

/-- the responses of a sequential execution are those of `runSpec` -/
theorem seq_refines_list_rets {t : Tid} (ops : List Op) (hp : ∀ op ∈ ops, plain op) {k : Nat}
    {c : Config M} (hc : Reach M c) (ht : c.l t = .idle) (hk : 16 * (c.g.n + ops.length) + 15 ≤ k) :
    ∃ lg, (run M c (seqSched t k ops)).2 = tag t lg ∧ rets lg = (runSpec (absS c.g) ops).2.map (·.2) := by
  obtain ⟨_, _, _, lg, h1, h2, _⟩ := seq_refines_list ops hp hc ht hk
  exact ⟨lg, h1, rets_seqMarks h2⟩

/-! ## 6. Draining -/

/-- polling `items.length + 1` times returns the values in order, then nil, and leaves the queue empty -/
theorem runSpec_drain (items : List (Nat × Nat)) (nx : Nat) :
    runSpec ⟨items, nx⟩ (List.replicate (items.length + 1) Op.poll) =
      (⟨[], nx⟩, items.map (fun x => (Op.poll, Ret.val x.2)) ++ [(Op.poll, Ret.nil)]) := by
  induction items with
  | nil => rfl
  | cons x q ih =>
    obtain ⟨p, v⟩ := x
    rw [List.length_cons, List.replicate_succ]
    simp only [runSpec, specApply, ih, List.map_cons, List.cons_append]

theorem abs_length (g : G) : (abs g).length = (absP g).length := by
  rw [abs_eq_absP, List.length_map]

/-- **Drain.**  Repeated `Poll` by one thread from a reachable configuration (others not moving)
returns exactly the abstract content `abs c.g` in order, then nil; the queue is empty afterwards. -/
theorem solo_drain_run {c : Config M} (hc : Reach M c) {t : Tid} (ht : c.l t = .idle) {k : Nat}
    (hk : 16 * (c.g.n + ((abs c.g).length + 1)) + 15 ≤ k) :
    Reach M (run M c (seqSched t k (List.replicate ((abs c.g).length + 1) Op.poll))).1 ∧
    (run M c (seqSched t k (List.replicate ((abs c.g).length + 1) Op.poll))).1.l = c.l ∧
    abs (run M c (seqSched t k (List.replicate ((abs c.g).length + 1) Op.poll))).1.g = [] ∧
    ∃ lg, (run M c (seqSched t k (List.replicate ((abs c.g).length + 1) Op.poll))).2 = tag t lg ∧
      rets lg = (abs c.g).map Ret.val ++ [Ret.nil] := by
  have hp : ∀ op ∈ List.replicate ((abs c.g).length + 1) Op.poll, plain op := by
    intro op ho; rw [List.eq_of_mem_replicate ho]; trivial
  obtain ⟨a1, a2, a3, lg, a4, a5, _⟩ := seq_refines_list _ hp hc ht (by rw [List.length_replicate]; exact hk)
  have e : runSpec (absS c.g) (List.replicate ((abs c.g).length + 1) Op.poll) =
      (⟨[], c.g.n⟩, (absP c.g).map (fun x => (Op.poll, Ret.val x.2)) ++ [(Op.poll, Ret.nil)]) := by
    rw [abs_length]; exact runSpec_drain (absP c.g) c.g.n
  rw [e] at a3 a5
  refine ⟨a1, a2, ?_, lg, a4, ?_⟩
  · rw [abs_eq_absP]
    have : absP (run M c (seqSched t k (List.replicate ((abs c.g).length + 1) Op.poll))).1.g = [] :=
      congrArg SpecSt.items a3
    rw [this]; rfl
  · rw [rets_seqMarks a5, abs_eq_absP]
    simp [List.map_map, Function.comp_def]

/-! ## 3. `Size` counts the live nodes -/

theorem cnt_zero_of_dead {f : Nat → Bool} {n : Nat} (h : ∀ k, k < n → f k = false) : cnt f n = 0 := by
  induction n with
  | zero => rfl
  | succ n ih => rw [cnt, ih (fun k hk => h k (by omega)), h n (by omega)]; rfl

theorem cnt_skip {f : Nat → Bool} {a b : Nat} (hab : a ≤ b) (h : ∀ k, a ≤ k → k < b → f k = false) :
    cnt f b = cnt f a := by
  induction b with
  | zero => have : a = 0 := by omega
            subst this; rfl
  | succ b ih =>
    rcases Nat.eq_or_lt_of_le hab with e | e
    · subst e; rfl
    · rw [cnt, ih (by omega) (fun k h1 h2 => h k h1 (by omega)), h b (by omega) (by omega)]; rfl

theorem cnt_mono {f : Nat → Bool} {a b : Nat} (hab : a ≤ b) : cnt f a ≤ cnt f b := by
  induction b with
  | zero => have : a = 0 := by omega
            subst this; exact Nat.le_refl _
  | succ b ih =>
    rcases Nat.eq_or_lt_of_le hab with e | e
    · subst e; exact Nat.le_refl _
    · rw [cnt]; have := ih (by omega); omega

/-- the number of elements of the abstract queue is the number of live nodes -/
theorem abs_length_cnt (g : G) : (abs g).length = cnt g.live g.n := by
  rw [abs_length]; unfold absP liveIdx
  rw [List.length_map, filter_range_length]

/-- what `Size` knows about the node `first()` returned -/
def SzCont (g : G) : Option Nat → Prop
  | none => deadBelow g g.n
  | some p => deadBelow g p ∧ g.live p = true

/-- the invariant of a solo `Size`: in the counting loop at node `p` with counter `c`, `c` is the
number of live nodes before `p` (`s1`) resp. up to `p` (`s2`), `p` is not before `head` (so it is not
self-linked and the loop never restarts), and the counter has not saturated -/
def SzPc (g : G) (lg : List Obs) : L → Prop
  | .k0 .size => lg = []
  | .k1 .size _ _ => lg = []
  | .k2 .size _ _ => lg = []
  | .u1 _ _ (.size x) => lg = [] ∧ SzCont g x
  | .u2 _ (.size x) => lg = [] ∧ SzCont g x
  | .s1 p c => lg = [] ∧ g.head ≤ p ∧ c = cnt g.live p ∧ c < maxInt32
  | .s2 p c => lg = [] ∧ g.head ≤ p ∧ c = cnt g.live (p + 1) ∧ c < maxInt32
  | .idle => lg = [.retAux (.int (min (cnt g.live g.n) maxInt32))]
  | _ => False

theorem head_le_of_live {g : G} (hd : ∀ i, i < g.head → g.live i = false) {p : Nat} (hl : g.live p = true) :
    g.head ≤ p := by
  rcases Nat.lt_or_ge p g.head with h | h
  · rw [hd p h] at hl; contradiction
  · exact h

theorem SzPc_finish {g : G} (hd : ∀ i, i < g.head → g.live i = false) {x : Option Nat} (hx : SzCont g x) :
    SzPc g (finish (.size x)).2 (finish (.size x)).1 := by
  cases x with
  | none =>
    show [Obs.retAux (.int 0)] = [Obs.retAux (.int (min (cnt g.live g.n) maxInt32))]
    rw [cnt_zero_of_dead hx]; rfl
  | some p =>
    exact ⟨rfl, head_le_of_live hd hx.2, (cnt_zero_of_dead hx.1).symm, by decide⟩

theorem SzPc_goUpd {g : G} (hd : ∀ i, i < g.head → g.live i = false) (h tgt : Nat) {x : Option Nat}
    (hx : SzCont g x) : SzPc g (goUpd h tgt (.size x)).2 (goUpd h tgt (.size x)).1 := by
  unfold goUpd; split
  · exact SzPc_finish hd hx
  · exact ⟨rfl, hx⟩

theorem Sz_step {t : Tid} {g g' : G} {l l' : L} {lg obs : List Obs}
    (hG : GInv g) (hL : LInv g l) (hI : SzPc g lg l) (hs : step t g l .tau = some (g', l', obs)) :
    g'.n = g.n ∧ g'.live = g.live ∧ g'.val = g.val ∧ SzPc g' (lg ++ obs) l' := by
  have hd := hG.dead_before_head
  cases l <;> simp only [step] at hs <;> try contradiction
  case k0 m =>
    cases m <;> try exact hI.elim
    cases hI
    simp at hs; obtain ⟨rfl, rfl, rfl⟩ := hs
    exact ⟨rfl, rfl, rfl, rfl⟩
  case k1 m h p =>
    cases m <;> try exact hI.elim
    cases hI
    simp only [LInv] at hL
    split at hs
    · rename_i hlive
      simp [foundLive] at hs; obtain ⟨rfl, rfl, rfl⟩ := hs
      exact ⟨rfl, rfl, rfl, SzPc_goUpd hd h p ⟨hL.2.2, hlive⟩⟩
    · simp at hs; obtain ⟨rfl, rfl, rfl⟩ := hs
      exact ⟨rfl, rfl, rfl, rfl⟩
  case k2 m h p =>
    cases m <;> try exact hI.elim
    cases hI
    simp only [LInv] at hL
    split at hs
    · rename_i hnone
      simp [foundNone] at hs; obtain ⟨rfl, rfl, rfl⟩ := hs
      have hlast := (hG.last p hL.2.1).1 hnone
      refine ⟨rfl, rfl, rfl, SzPc_goUpd hd h p (x := none) ?_⟩
      show deadBelow g g.n
      rw [← hlast]; exact hL.2.2
    · split at hs <;> (simp at hs; obtain ⟨rfl, rfl, rfl⟩ := hs) <;> exact ⟨rfl, rfl, rfl, rfl⟩
  case u1 h tgt k =>
    cases k <;> try exact hI.elim
    rename_i x
    obtain ⟨rfl, hx⟩ := hI
    split at hs
    · simp at hs; obtain ⟨rfl, rfl, rfl⟩ := hs
      exact ⟨rfl, rfl, rfl, rfl, hx⟩
    · simp at hs; obtain ⟨rfl, rfl, rfl⟩ := hs
      exact ⟨rfl, rfl, rfl, SzPc_finish hd hx⟩
  case u2 h k =>
    cases k <;> try exact hI.elim
    rename_i x
    obtain ⟨rfl, hx⟩ := hI
    simp at hs; obtain ⟨rfl, rfl, rfl⟩ := hs
    exact ⟨rfl, rfl, rfl, SzPc_finish (g := setNext g h (some h)) hd hx⟩
  case s1 p c =>
    obtain ⟨rfl, hh, hc, hlt⟩ := hI
    split at hs
    · rename_i hlive
      have hc1 : c + 1 = cnt g.live (p + 1) := by rw [cnt, hlive, hc]; rfl
      split at hs
      · rename_i hsat
        simp at hs; obtain ⟨rfl, rfl, rfl⟩ := hs
        refine ⟨rfl, rfl, rfl, ?_⟩
        show [Obs.retAux (.int (c + 1))] = [Obs.retAux (.int (min (cnt g.live g.n) maxInt32))]
        simp only [LInv] at hL
        have := cnt_mono (f := g.live) (a := p + 1) (b := g.n) (by omega)
        rw [Nat.min_eq_right (by omega), hsat]
      · simp at hs; obtain ⟨rfl, rfl, rfl⟩ := hs
        exact ⟨rfl, rfl, rfl, rfl, hh, hc1, by omega⟩
    · rename_i hdead
      simp at hs; obtain ⟨rfl, rfl, rfl⟩ := hs
      refine ⟨rfl, rfl, rfl, rfl, hh, ?_, hlt⟩
      rw [cnt, hc]; simp [hdead]
  case s2 p c =>
    obtain ⟨rfl, hh, hc, hlt⟩ := hI
    simp only [LInv] at hL
    split at hs
    · rename_i hnone
      simp at hs; obtain ⟨rfl, rfl, rfl⟩ := hs
      have hlast := (hG.last p hL).1 hnone
      refine ⟨rfl, rfl, rfl, ?_⟩
      show [Obs.retAux (.int c)] = [Obs.retAux (.int (min (cnt g.live g.n) maxInt32))]
      rw [← hlast, ← hc, Nat.min_eq_left (by omega)]
    · rename_i q hq
      split at hs
      · rename_i hself
        subst hself
        have := hG.self_before_head _ hL hq
        omega
      · rename_i hne
        simp at hs; obtain ⟨rfl, rfl, rfl⟩ := hs
        rcases (hG.fwd p q hL hq).2 with e | ⟨e1, e2⟩
        · exact absurd e hne
        · refine ⟨rfl, rfl, rfl, rfl, by omega, ?_, hlt⟩
          rw [hc]; exact (cnt_skip (by omega) (fun k h1 h2 => e2 k (by omega) h2)).symm
  all_goals exact hI.elim

/-- **Size.**  From a reachable configuration in which `t` is idle (the others do not move), a solo
`Size` returns the number of elements of the abstract queue, saturating at `maxInt32`, and changes
neither the nodes nor their liveness (so the abstract queue is unchanged). -/
theorem solo_size_run {c : Config M} (hc : Reach M c) {t : Tid} (ht : c.l t = .idle) {k : Nat}
    (hk : bound c ≤ k) :
    Reach M (run M c (soloSched t .size k)).1 ∧
    (run M c (soloSched t .size k)).1.l = c.l ∧
    absS (run M c (soloSched t .size k)).1.g = absS c.g ∧
    (run M c (soloSched t .size k)).2 = [(t, .retAux (.int (min (abs c.g).length maxInt32)))] := by
  have hinv : step t c.g (c.l t) .size = some (c.g, .k0 .size, []) := by rw [ht]; rfl
  obtain ⟨r1, r2, r3, lg, r4, r5, r6, r7, r8⟩ := solo_call hc hinv
    (fun g lg l => g.n = c.g.n ∧ g.live = c.g.live ∧ g.val = c.g.val ∧ SzPc g lg l) ⟨rfl, rfl, rfl, rfl⟩
    (fun g lg l g' l' obs hG hL hI hs => by
      obtain ⟨a1, a2, a3, a4⟩ := Sz_step hG hL hI.2.2.2 hs
      exact ⟨a1.trans hI.1, a2.trans hI.2.1, a3.trans hI.2.2.1, a4⟩) (k := k) hk
  have hidle : (run M c (soloSched t .size k)).1.l t = .idle := by
    cases hl : (run M c (soloSched t .size k)).1.l t <;> rw [hl] at r2 r8 <;>
      first | rfl | exact r8.elim | (simp [atRest] at r2)
  refine ⟨r1, ?_, ?_, ?_⟩
  · funext u
    by_cases hu : u = t
    · subst hu; rw [hidle, ht]
    · exact r3 u hu
  · unfold absS absP; rw [r5, r6, r7]
  · rw [hidle] at r8
    rw [r4, show lg = _ from r8, r5, r6, abs_length_cnt]
    rfl

/-! ## 5. A full iteration returns exactly the live nodes, in link order -/

/-- the live positions in `[a, a + k)`, in order -/
def liveFrom (live : Nat → Bool) (a k : Nat) : List Nat := (List.range' a k).filter live

theorem liveIdx_eq_liveFrom (n : Nat) (live : Nat → Bool) : liveIdx n live = liveFrom live 0 n := by
  unfold liveIdx liveFrom; rw [List.range_eq_range']

theorem liveFrom_dead {live : Nat → Bool} {a k : Nat} (h : ∀ j, a ≤ j → j < a + k → live j = false) :
    liveFrom live a k = [] := by
  unfold liveFrom
  rw [List.filter_eq_nil_iff]
  intro x hx
  obtain ⟨h1, h2⟩ := List.mem_range'_1.1 hx
  simp [h x h1 h2]

theorem liveFrom_skip {live : Nat → Bool} {a b n : Nat} (hab : a ≤ b) (hbn : b ≤ n)
    (h : ∀ j, a ≤ j → j < b → live j = false) : liveFrom live a (n - a) = liveFrom live b (n - b) := by
  unfold liveFrom
  have e : List.range' a (n - a) = List.range' a (b - a) ++ List.range' b (n - b) := by
    have := List.range'_append_1 (s := a) (m := b - a) (n := n - b)
    rw [show a + (b - a) = b by omega, show b - a + (n - b) = n - a by omega] at this
    exact this.symm
  rw [e, List.filter_append]
  have : (List.range' a (b - a)).filter live = [] :=
    liveFrom_dead (fun j h1 h2 => h j h1 (by omega))
  rw [this, List.nil_append]

theorem liveFrom_cons {live : Nat → Bool} {q n : Nat} (hq : q < n) (hl : live q = true) :
    liveFrom live q (n - q) = q :: liveFrom live (q + 1) (n - (q + 1)) := by
  unfold liveFrom
  rw [show n - q = (n - (q + 1)) + 1 by omega, List.range'_succ, List.filter_cons, if_pos hl]

/-- the iterator's cursor: `nextNode` is the first live node at or after position `a` (and `nextVal` its
value), or nil if there is none -/
def CurOK (g : G) (a : Nat) (it : Iter) : Prop :=
  (∀ q, it.nextNode = some q → a ≤ q ∧ q < g.n ∧ (∀ j, a ≤ j → j < q → g.live j = false) ∧
    g.live q = true ∧ it.nextVal = g.val q) ∧
  (it.nextNode = none → ∀ j, a ≤ j → j < g.n → g.live j = false)

theorem CurOK_congr {g g' : G} (hn : g'.n = g.n) (hl : g'.live = g.live) (hv : g'.val = g.val) {a : Nat}
    {it : Iter} (h : CurOK g a it) : CurOK g' a it := by
  unfold CurOK; rw [hn, hl, hv]; exact h

theorem CurOK_some {g : G} {a : Nat} {it : Iter} (h : CurOK g a it) {q : Nat} (hq : it.nextNode = some q) :
    liveFrom g.live a (g.n - a) = q :: liveFrom g.live (q + 1) (g.n - (q + 1)) ∧ it.nextVal = g.val q := by
  obtain ⟨h1, h2, h3, h4, h5⟩ := h.1 q hq
  exact ⟨by rw [liveFrom_skip h1 (Nat.le_of_lt h2) h3, liveFrom_cons h2 h4], h5⟩

theorem CurOK_none {g : G} {a : Nat} {it : Iter} (h : CurOK g a it) (hq : it.nextNode = none) :
    liveFrom g.live a (g.n - a) = [] :=
  liveFrom_dead (fun j h1 h2 => h.2 hq j h1 (by omega))

/-- the invariant of a solo `Iterator()` call -/
def ItcPc (g : G) (lg : List Obs) : L → Prop
  | .k0 .iter => lg = []
  | .k1 .iter _ _ => lg = []
  | .k2 .iter _ _ => lg = []
  | .u1 _ _ (.iter it) => lg = [] ∧ CurOK g 0 it
  | .u2 _ (.iter it) => lg = [] ∧ CurOK g 0 it
  | .idleIt it => lg = [.retAux .unit] ∧ CurOK g 0 it
  | _ => False

theorem ItcPc_finish {g : G} {it : Iter} (h : CurOK g 0 it) :
    ItcPc g (finish (.iter it)).2 (finish (.iter it)).1 := ⟨rfl, h⟩

theorem ItcPc_goUpd {g : G} (h tgt : Nat) {it : Iter} (hc : CurOK g 0 it) :
    ItcPc g (goUpd h tgt (.iter it)).2 (goUpd h tgt (.iter it)).1 := by
  unfold goUpd; split
  · exact ItcPc_finish hc
  · exact ⟨rfl, hc⟩

theorem Itc_step {t : Tid} {g g' : G} {l l' : L} {lg obs : List Obs}
    (hG : GInv g) (hL : LInv g l) (hI : ItcPc g lg l) (hs : step t g l .tau = some (g', l', obs)) :
    g'.n = g.n ∧ g'.live = g.live ∧ g'.val = g.val ∧ ItcPc g' (lg ++ obs) l' := by
  cases l <;> simp only [step] at hs <;> try contradiction
  case k0 m =>
    cases m <;> try exact hI.elim
    cases hI
    simp at hs; obtain ⟨rfl, rfl, rfl⟩ := hs
    exact ⟨rfl, rfl, rfl, rfl⟩
  case k1 m h p =>
    cases m <;> try exact hI.elim
    cases hI
    simp only [LInv] at hL
    split at hs
    · rename_i hlive
      simp [foundLive] at hs; obtain ⟨rfl, rfl, rfl⟩ := hs
      refine ⟨rfl, rfl, rfl, ItcPc_goUpd h p ⟨fun q hq => ?_, fun hq => by simp at hq⟩⟩
      simp only [Option.some.injEq] at hq; subst hq
      exact ⟨Nat.zero_le _, hL.2.1, fun j _ hj => hL.2.2 j hj, hlive, rfl⟩
    · simp at hs; obtain ⟨rfl, rfl, rfl⟩ := hs
      exact ⟨rfl, rfl, rfl, rfl⟩
  case k2 m h p =>
    cases m <;> try exact hI.elim
    cases hI
    simp only [LInv] at hL
    split at hs
    · rename_i hnone
      simp [foundNone] at hs; obtain ⟨rfl, rfl, rfl⟩ := hs
      have hlast := (hG.last p hL.2.1).1 hnone
      refine ⟨rfl, rfl, rfl, ItcPc_goUpd h p ⟨fun q hq => by simp at hq, fun _ j _ hj => ?_⟩⟩
      exact hL.2.2 j (by omega)
    · split at hs <;> (simp at hs; obtain ⟨rfl, rfl, rfl⟩ := hs) <;> exact ⟨rfl, rfl, rfl, rfl⟩
  case u1 h tgt k =>
    cases k <;> try exact hI.elim
    rename_i it
    obtain ⟨rfl, hx⟩ := hI
    split at hs
    · simp at hs; obtain ⟨rfl, rfl, rfl⟩ := hs
      exact ⟨rfl, rfl, rfl, rfl, hx⟩
    · simp at hs; obtain ⟨rfl, rfl, rfl⟩ := hs
      exact ⟨rfl, rfl, rfl, ItcPc_finish hx⟩
  case u2 h k =>
    cases k <;> try exact hI.elim
    rename_i it
    obtain ⟨rfl, hx⟩ := hI
    simp at hs; obtain ⟨rfl, rfl, rfl⟩ := hs
    exact ⟨rfl, rfl, rfl, ItcPc_finish (g := setNext g h (some h)) hx⟩
  all_goals exact hI.elim

/-- the invariant of a solo `Next()` call that is about to return the element at position `p`, value `v` -/
def NxPc (g : G) (p v : Nat) (lg : List Obs) : L → Prop
  | .n0 it pred => lg = [] ∧ pred = p ∧ it.nextVal = v
  | .n0h it pred => lg = [] ∧ pred = p ∧ it.nextVal = v
  | .n1 it pred _ => lg = [] ∧ pred = p ∧ it.nextVal = v
  | .n2 it pred _ => lg = [] ∧ pred = p ∧ it.nextVal = v
  | .n2h it pred _ => lg = [] ∧ pred = p ∧ it.nextVal = v
  | .n3 it pred _ _ => lg = [] ∧ pred = p ∧ it.nextVal = v
  | .idleIt it => lg = [.itNext p v, .retAux (.val v)] ∧ CurOK g (p + 1) it
  | _ => False

theorem Nx_step {t : Tid} {g g' : G} {l l' : L} {p v : Nat} {lg obs : List Obs}
    (hG : GInv g) (hL : LInv g l) (hI : NxPc g p v lg l) (hs : step t g l .tau = some (g', l', obs)) :
    g'.n = g.n ∧ g'.live = g.live ∧ g'.val = g.val ∧ NxPc g' p v (lg ++ obs) l' := by
  cases l <;> simp only [step] at hs <;> try contradiction
  case n0 it pred =>
    obtain ⟨rfl, rfl, rfl⟩ := hI
    simp only [LInv] at hL
    split at hs
    · rename_i hnone
      simp at hs; obtain ⟨rfl, rfl, rfl⟩ := hs
      have hlast := (hG.last pred hL.1).1 hnone
      exact ⟨rfl, rfl, rfl, rfl, fun q hq => by simp at hq, fun _ j h1 h2 => by omega⟩
    · split at hs <;> (simp at hs; obtain ⟨rfl, rfl, rfl⟩ := hs) <;> exact ⟨rfl, rfl, rfl, rfl, rfl, rfl⟩
  case n0h it pred =>
    obtain ⟨rfl, rfl, rfl⟩ := hI
    simp at hs; obtain ⟨rfl, rfl, rfl⟩ := hs
    exact ⟨rfl, rfl, rfl, rfl, rfl, rfl⟩
  case n1 it pred q =>
    obtain ⟨rfl, rfl, rfl⟩ := hI
    simp only [LInv] at hL
    obtain ⟨hpq, hqn, hdb, _⟩ := hL
    split at hs
    · rename_i hlive
      simp at hs; obtain ⟨rfl, rfl, rfl⟩ := hs
      refine ⟨rfl, rfl, rfl, rfl, fun q' hq' => ?_, fun hq' => by simp at hq'⟩
      simp only [Option.some.injEq] at hq'; subst hq'
      exact ⟨hpq, hqn, fun j h1 h2 => hdb j (by omega) h2, hlive, rfl⟩
    · simp at hs; obtain ⟨rfl, rfl, rfl⟩ := hs
      exact ⟨rfl, rfl, rfl, rfl, rfl, rfl⟩
  case n2 it pred q =>
    obtain ⟨rfl, rfl, rfl⟩ := hI
    simp only [LInv] at hL
    obtain ⟨hpq, hqn, hdb, _⟩ := hL
    split at hs
    · rename_i hnone
      simp at hs; obtain ⟨rfl, rfl, rfl⟩ := hs
      have hlast := (hG.last q hqn).1 hnone
      exact ⟨rfl, rfl, rfl, rfl, fun q' hq' => by simp at hq', fun _ j h1 h2 => hdb j (by omega) (by omega)⟩
    · split at hs <;> (simp at hs; obtain ⟨rfl, rfl, rfl⟩ := hs) <;> exact ⟨rfl, rfl, rfl, rfl, rfl, rfl⟩
  case n2h it pred q =>
    obtain ⟨rfl, rfl, rfl⟩ := hI
    simp at hs; obtain ⟨rfl, rfl, rfl⟩ := hs
    exact ⟨rfl, rfl, rfl, rfl, rfl, rfl⟩
  case n3 it pred q q' =>
    obtain ⟨rfl, rfl, rfl⟩ := hI
    simp at hs; obtain ⟨rfl, rfl, rfl⟩ := hs
    split <;> exact ⟨rfl, rfl, rfl, rfl, rfl, rfl⟩
  all_goals exact hI.elim

theorem atRest_cases {l : L} (h : atRest l = true) : l = .idle ∨ ∃ it, l = .idleIt it := by
  cases l <;> simp [atRest] at h
  · exact Or.inl rfl
  · exact Or.inr ⟨_, rfl⟩

/-- **`Iterator()`.**  A solo `Iterator()` call positions the cursor on the first live node. -/
theorem solo_iterator_run {c : Config M} (hc : Reach M c) {t : Tid} (ht : c.l t = .idle) {k : Nat}
    (hk : bound c ≤ k) :
    Reach M (run M c (soloSched t .iterator k)).1 ∧
    (∀ u, u ≠ t → (run M c (soloSched t .iterator k)).1.l u = c.l u) ∧
    (run M c (soloSched t .iterator k)).1.g.n = c.g.n ∧
    (run M c (soloSched t .iterator k)).1.g.live = c.g.live ∧
    (run M c (soloSched t .iterator k)).1.g.val = c.g.val ∧
    (∃ it, (run M c (soloSched t .iterator k)).1.l t = .idleIt it ∧ CurOK c.g 0 it) ∧
    (run M c (soloSched t .iterator k)).2 = tag t [.retAux .unit] := by
  have hinv : step t c.g (c.l t) .iterator = some (c.g, .k0 .iter, []) := by rw [ht]; rfl
  obtain ⟨r1, r2, r3, lg, r4, r5, r6, r7, r8⟩ := solo_call hc hinv
    (fun g lg l => g.n = c.g.n ∧ g.live = c.g.live ∧ g.val = c.g.val ∧ ItcPc g lg l) ⟨rfl, rfl, rfl, rfl⟩
    (fun g lg l g' l' obs hG hL hI hs => by
      obtain ⟨a1, a2, a3, a4⟩ := Itc_step hG hL hI.2.2.2 hs
      exact ⟨a1.trans hI.1, a2.trans hI.2.1, a3.trans hI.2.2.1, a4⟩) (k := k) hk
  refine ⟨r1, r3, r5, r6, r7, ?_⟩
  rcases atRest_cases r2 with h | ⟨it, h⟩ <;> rw [h] at r8
  · exact r8.elim
  · exact ⟨⟨it, h, CurOK_congr r5.symm r6.symm r7.symm r8.2⟩, by rw [r4, r8.1]⟩

/-- **`Next()`.**  A solo `Next()` call with the cursor on node `p` returns `p`'s element and moves the
cursor to the first live node after `p`. -/
theorem solo_next_run {c : Config M} (hc : Reach M c) {t : Tid} {it : Iter} (ht : c.l t = .idleIt it)
    {p : Nat} (hp : it.nextNode = some p) {k : Nat} (hk : bound c ≤ k) :
    Reach M (run M c (soloSched t .next k)).1 ∧
    (∀ u, u ≠ t → (run M c (soloSched t .next k)).1.l u = c.l u) ∧
    (run M c (soloSched t .next k)).1.g.n = c.g.n ∧
    (run M c (soloSched t .next k)).1.g.live = c.g.live ∧
    (run M c (soloSched t .next k)).1.g.val = c.g.val ∧
    (∃ it', (run M c (soloSched t .next k)).1.l t = .idleIt it' ∧ CurOK c.g (p + 1) it') ∧
    (run M c (soloSched t .next k)).2 = tag t [.itNext p it.nextVal, .retAux (.val it.nextVal)] := by
  have hinv : step t c.g (c.l t) .next = some (c.g, .n0 { it with lastRet := some p } p, []) := by
    rw [ht]; simp [step, hp]
  obtain ⟨r1, r2, r3, lg, r4, r5, r6, r7, r8⟩ := solo_call hc hinv
    (fun g lg l => g.n = c.g.n ∧ g.live = c.g.live ∧ g.val = c.g.val ∧ NxPc g p it.nextVal lg l)
    ⟨rfl, rfl, rfl, rfl, rfl, rfl⟩
    (fun g lg l g' l' obs hG hL hI hs => by
      obtain ⟨a1, a2, a3, a4⟩ := Nx_step hG hL hI.2.2.2 hs
      exact ⟨a1.trans hI.1, a2.trans hI.2.1, a3.trans hI.2.2.1, a4⟩) (k := k) hk
  refine ⟨r1, r3, r5, r6, r7, ?_⟩
  rcases atRest_cases r2 with h | ⟨it', h⟩ <;> rw [h] at r8
  · exact r8.elim
  · exact ⟨⟨it', h, CurOK_congr r5.symm r6.symm r7.symm r8.2⟩, by rw [r4, r8.1]⟩

/-- `m` rounds of `HasNext(); Next()` (each `Next()` with `k` own steps), then a final `HasNext()` -/
def iterLoop (t : Tid) (k : Nat) : Nat → List (Tid × M.Act)
  | 0 => [(t, Act.hasNext)]
  | m + 1 => (t, Act.hasNext) :: (soloSched t .next k ++ iterLoop t k m)

/-- the schedule of a full iteration with `m` elements: `Iterator()`, then the loop -/
def iterSched (t : Tid) (k m : Nat) : List (Tid × M.Act) := soloSched t .iterator k ++ iterLoop t k m

/-- what the loop over the positions `ps` observes: `HasNext() = true`, the element, …, `HasNext() = false` -/
def iterLoopObs (g : G) : List Nat → List Obs
  | [] => [.retAux (.bool false)]
  | p :: ps => .retAux (.bool true) :: .itNext p (g.val p) :: .retAux (.val (g.val p)) :: iterLoopObs g ps

theorem hasNext_run {c : Config M} {t : Tid} {it : Iter} (ht : c.l t = .idleIt it)
    (rest : List (Tid × M.Act)) :
    run M c ((t, Act.hasNext) :: rest) =
      ((run M ⟨c.g, upd c.l t (.idleIt it)⟩ rest).1,
       (t, Obs.retAux (.bool it.nextNode.isSome)) :: (run M ⟨c.g, upd c.l t (.idleIt it)⟩ rest).2) := by
  have hs : M.step t c.g (c.l t) Act.hasNext =
      some (c.g, .idleIt it, [.retAux (.bool it.nextNode.isSome)]) := by rw [ht]; rfl
  rw [run_cons_some hs]; rfl

theorem solo_loop_run {t : Tid} {k : Nat} : ∀ (rem : List Nat) {c : Config M} {it : Iter} {a : Nat},
    Reach M c → c.l t = .idleIt it → CurOK c.g a it → rem = liveFrom c.g.live a (c.g.n - a) → bound c ≤ k →
    Reach M (run M c (iterLoop t k rem.length)).1 ∧
    (∀ u, u ≠ t → (run M c (iterLoop t k rem.length)).1.l u = c.l u) ∧
    (run M c (iterLoop t k rem.length)).1.g.n = c.g.n ∧
    (run M c (iterLoop t k rem.length)).1.g.live = c.g.live ∧
    (run M c (iterLoop t k rem.length)).1.g.val = c.g.val ∧
    (∃ it', (run M c (iterLoop t k rem.length)).1.l t = .idleIt it' ∧ it'.nextNode = none) ∧
    (run M c (iterLoop t k rem.length)).2 = tag t (iterLoopObs c.g rem) := by
  intro rem
  induction rem with
  | nil =>
    intro c it a hc ht hcur hrem hk
    have hs : M.step t c.g (c.l t) Act.hasNext =
        some (c.g, .idleIt it, [.retAux (.bool it.nextNode.isSome)]) := by rw [ht]; rfl
    have hnone : it.nextNode = none := by
      cases hq : it.nextNode with
      | none => rfl
      | some q => rw [(CurOK_some hcur hq).1] at hrem; cases hrem
    have e : iterLoop t k ([] : List Nat).length = [(t, Act.hasNext)] := rfl
    rw [e, hasNext_run ht, hnone]
    refine ⟨Reach.step hc hs, fun u hu => upd_other _ _ _ _ hu, rfl, rfl, rfl,
      ⟨it, upd_same _ _ _, hnone⟩, rfl⟩
  | cons p rem ih =>
    intro c it a hc ht hcur hrem hk
    have hs : M.step t c.g (c.l t) Act.hasNext =
        some (c.g, .idleIt it, [.retAux (.bool it.nextNode.isSome)]) := by rw [ht]; rfl
    obtain ⟨q, hq⟩ : ∃ q, it.nextNode = some q := by
      cases hq : it.nextNode with
      | none => rw [CurOK_none hcur hq] at hrem; cases hrem
      | some q => exact ⟨q, rfl⟩
    obtain ⟨e1, e2⟩ := CurOK_some hcur hq
    rw [e1] at hrem
    obtain ⟨rfl, hrem'⟩ := List.cons.inj hrem
    have hc1 : Reach M ⟨c.g, upd c.l t (.idleIt it)⟩ := Reach.step hc hs
    have ht1 : (⟨c.g, upd c.l t (.idleIt it)⟩ : Config M).l t = .idleIt it := upd_same _ _ _
    obtain ⟨a1, a2, a3, a4, a5, ⟨it', a6, a7⟩, a8⟩ := solo_next_run hc1 ht1 hq (k := k) hk
    obtain ⟨b1, b2, b3, b4, b5, b6, b7⟩ := ih (c := (run M ⟨c.g, upd c.l t (.idleIt it)⟩ (soloSched t .next k)).1)
      (it := it') (a := p + 1) a1 a6 (CurOK_congr a3 a4 a5 a7) (by rw [a3, a4]; exact hrem')
      (by simp only [bound] at hk ⊢; rw [a3]; exact hk)
    have e : iterLoop t k (p :: rem).length =
        (t, Act.hasNext) :: (soloSched t .next k ++ iterLoop t k rem.length) := rfl
    rw [e, hasNext_run ht, run_append, hq]
    refine ⟨b1, fun u hu => ?_, b3.trans a3, b4.trans a4, b5.trans a5, b6, ?_⟩
    · rw [b2 u hu, a2 u hu]; exact upd_other _ _ _ _ hu
    · show _ :: (_ ++ _) = _
      rw [a8, b7, e2]
      show _ = tag t (iterLoopObs c.g (p :: rem))
      simp only [iterLoopObs, tag, List.map_cons, List.map_nil, List.cons_append, List.nil_append,
        Option.isSome_some]
      congr 3
      have : ∀ ps, iterLoopObs (run M ⟨c.g, upd c.l t (.idleIt it)⟩ (soloSched t .next k)).1.g ps =
          iterLoopObs c.g ps := by
        intro ps; induction ps with
        | nil => rfl
        | cons x xs ihx => simp only [iterLoopObs, ihx, a5]
      rw [this]

/-- **Full iteration.**  From a reachable configuration in which `t` is idle (the others do not move):
`Iterator()`, then `HasNext(); Next()` as many times as the abstract queue has elements, then `HasNext()`.
The log is exactly: the iterator is returned; for every live node in link order `HasNext() = true`
and `Next()` returns its element; the final `HasNext()` is false.  Nodes, values and liveness are
unchanged. -/
theorem solo_iteration_run {c : Config M} (hc : Reach M c) {t : Tid} (ht : c.l t = .idle) {k : Nat}
    (hk : bound c ≤ k) :
    Reach M (run M c (iterSched t k (abs c.g).length)).1 ∧
    (∀ u, u ≠ t → (run M c (iterSched t k (abs c.g).length)).1.l u = c.l u) ∧
    (∃ it, (run M c (iterSched t k (abs c.g).length)).1.l t = .idleIt it ∧ it.nextNode = none) ∧
    absS (run M c (iterSched t k (abs c.g).length)).1.g = absS c.g ∧
    (run M c (iterSched t k (abs c.g).length)).2 =
      tag t (.retAux .unit :: iterLoopObs c.g (liveIdx c.g.n c.g.live)) := by
  obtain ⟨a1, a2, a3, a4, a5, ⟨it, a6, a7⟩, a8⟩ := solo_iterator_run hc ht (k := k) hk
  have hlen : (abs c.g).length = (liveIdx c.g.n c.g.live).length := by
    rw [abs_length]; unfold absP; rw [List.length_map]
  obtain ⟨b1, b2, b3, b4, b5, b6, b7⟩ := solo_loop_run (t := t) (k := k) (liveIdx c.g.n c.g.live)
    (c := (run M c (soloSched t .iterator k)).1) (it := it) (a := 0) a1 a6 (CurOK_congr a3 a4 a5 a7)
    (by rw [a3, a4, liveIdx_eq_liveFrom]; rfl) (by simp only [bound] at hk ⊢; rw [a3]; exact hk)
  unfold iterSched
  rw [hlen, run_append]
  refine ⟨b1, fun u hu => by rw [b2 u hu, a2 u hu], b6, ?_, ?_⟩
  · unfold absS absP; rw [b3, b4, b5, a3, a4, a5]
  · show _ ++ _ = _
    rw [a8, b7]
    have : ∀ ps, iterLoopObs (run M c (soloSched t .iterator k)).1.g ps = iterLoopObs c.g ps := by
      intro ps; induction ps with
      | nil => rfl
      | cons x xs ihx => simp only [iterLoopObs, ihx, a5]
    rw [this]; rfl

/-! ### Reading the log of an iteration -/

def Obs.itPair : Obs → Option (Nat × Nat)
  | .itNext p v => some (p, v)
  | _ => none

/-- the result carried by a response outside the sequential specification (`Size`, iterator calls) -/
def Obs.auxRet : Obs → Option Ret
  | .retAux r => some r
  | _ => none

/-- the `(position, value)` pairs returned by the `Next()` calls of an iteration over `ps` -/
theorem iterLoopObs_itNext (g : G) (ps : List Nat) :
    (iterLoopObs g ps).filterMap Obs.itPair = ps.map (fun i => (i, g.val i)) := by
  induction ps with
  | nil => rfl
  | cons p ps ih => simp only [iterLoopObs, List.filterMap_cons, Obs.itPair, ih, List.map_cons]

/-- the results of the `HasNext()` / `Next()` calls of an iteration over `ps` -/
theorem iterLoopObs_aux (g : G) (ps : List Nat) :
    (iterLoopObs g ps).filterMap Obs.auxRet =
      ps.flatMap (fun i => [Ret.bool true, Ret.val (g.val i)]) ++ [Ret.bool false] := by
  induction ps with
  | nil => rfl
  | cons p ps ih =>
    simp only [iterLoopObs, List.filterMap_cons, Obs.auxRet, ih, List.flatMap_cons, List.cons_append,
      List.nil_append]

theorem map_snd_tag (t : Tid) (lg : List Obs) : (tag t lg).map (·.2) = lg := by
  simp [tag, List.map_map, Function.comp_def]

theorem abs_eq_map_liveIdx (g : G) : abs g = (liveIdx g.n g.live).map g.val := by
  rw [abs_eq_absP]; unfold absP; rw [List.map_map]; rfl

/-! ## The plain FIFO list -/

/-- a plain FIFO list of values (no handles): what `Offer`/`Poll`/`Peek`/`IsEmpty` do and return -/
def fifoApply (q : List Nat) : Op → List Nat × Ret
  | .offer v => (q ++ [v], .unit)
  | .poll =>
    match q with
    | [] => ([], .nil)
    | v :: tl => (tl, .val v)
  | .peek =>
    match q with
    | [] => ([], .nil)
    | v :: tl => (v :: tl, .val v)
  | .isEmpty => (q, .bool (decide (q = [])))
  | .removeAt _ => (q, .unit)

/-- a sequence of operations on the plain FIFO list: final content and the results in order -/
def runFifo : List Nat → List Op → List Nat × List Ret
  | q, [] => (q, [])
  | q, op :: ops => ((runFifo (fifoApply q op).1 ops).1, (fifoApply q op).2 :: (runFifo (fifoApply q op).1 ops).2)

theorem specApply_fifo (s : SpecSt) {op : Op} (hp : plain op) :
    (specApply s op).1.items.map (·.2) = (fifoApply (s.items.map (·.2)) op).1 ∧
    (specApply s op).2 = (fifoApply (s.items.map (·.2)) op).2 := by
  obtain ⟨items, nx⟩ := s
  cases op with
  | offer v => simp [specApply, fifoApply]
  | poll => cases items with
    | nil => simp [specApply, fifoApply]
    | cons x q => obtain ⟨p, v⟩ := x; simp [specApply, fifoApply]
  | peek => cases items with
    | nil => simp [specApply, fifoApply]
    | cons x q => obtain ⟨p, v⟩ := x; simp [specApply, fifoApply]
  | isEmpty => simp [specApply, fifoApply]
  | removeAt p => exact hp.elim

theorem runSpec_fifo (s : SpecSt) (ops : List Op) (hp : ∀ op ∈ ops, plain op) :
    (runSpec s ops).1.items.map (·.2) = (runFifo (s.items.map (·.2)) ops).1 ∧
    (runSpec s ops).2.map (·.2) = (runFifo (s.items.map (·.2)) ops).2 := by
  induction ops generalizing s with
  | nil => exact ⟨rfl, rfl⟩
  | cons op ops ih =>
    obtain ⟨h1, h2⟩ := specApply_fifo s (hp op (List.mem_cons_self ..))
    obtain ⟨i1, i2⟩ := ih (specApply s op).1 (fun o ho => hp o (List.mem_cons_of_mem _ ho))
    simp only [runSpec, runFifo, List.map_cons]
    rw [← h1, ← h2]
    exact ⟨i1, by rw [i2]⟩

theorem abs_eq_items (g : G) : abs g = (absS g).items.map (·.2) := abs_eq_absP g

/-! ## Quiescence, idle threads -/

theorem Quiet_of_l_eq {c c' : Config M} (h : c'.l = c.l) (hq : Quiet c) : Quiet c' :=
  fun u => by rw [h]; exact hq u

theorem Quiet_of_others {c c' : Config M} {t : Tid} (h : ∀ u, u ≠ t → c'.l u = c.l u)
    (ht : atRest (c'.l t) = true) (hq : Quiet c) : Quiet c' := by
  intro u
  by_cases hu : u = t
  · subst hu; exact ht
  · rw [h u hu]; exact hq u

/-- only finitely many threads have ever moved: there is always an idle thread to observe with -/
theorem finite_support {c : Config M} (hc : Reach M c) : ∃ N, ∀ t, N ≤ t → c.l t = .idle := by
  induction hc with
  | init => exact ⟨0, fun _ _ => rfl⟩
  | @step c t a g' l' obs _ _ ih =>
    obtain ⟨N, hN⟩ := ih
    refine ⟨max N (t + 1), fun u hu => ?_⟩
    obtain ⟨hu1, hu2⟩ := Nat.max_le.1 hu
    have h1 : u ≠ t := Nat.ne_of_gt hu2
    show upd c.l t l' u = .idle
    rw [upd_other _ _ _ _ h1]; exact hN u hu1

/-! ## 7. The abstract content is "offered and not yet removed" -/

theorem filterMap_eq_map_of {α β : Type} (f : α → Option β) (g : α → β) (l : List α)
    (h : ∀ x ∈ l, f x = some (g x)) : l.filterMap f = l.map g := by
  induction l with
  | nil => rfl
  | cons x xs ih =>
    rw [List.filterMap_cons, h x (List.mem_cons_self ..), List.map_cons,
      ih (fun y hy => h y (List.mem_cons_of_mem _ hy))]

/-- in any run from the initial state, the abstract queue consists of the offered values at the live
positions (position `i ≥ 1` is the `i`-th `lpOffer` of the log; position 0 is the dummy) -/
theorem abs_at_live_positions (s : List (Tid × M.Act)) :
    abs (run M (Config.init M) s).1.g =
      (liveIdx (run M (Config.init M) s).1.g.n (run M (Config.init M) s).1.g.live).filterMap
        (fun i => (0 :: offeredVals (run M (Config.init M) s).2)[i]?) := by
  rw [abs_eq_map_liveIdx, ← values_are_offered s]
  symm
  apply filterMap_eq_map_of
  intro i hi
  have hin := (mem_liveIdx hi).1
  unfold nodeVals
  rw [List.getElem?_map, List.getElem?_range hin]; rfl

/-- … in particular it is a sub-sequence of the offered values, in the order they were offered -/
theorem abs_sublist_offered (s : List (Tid × M.Act)) :
    (abs (run M (Config.init M) s).1.g).Sublist (offeredVals (run M (Config.init M) s).2) := by
  have hr := reach_run M (Config.init M) Reach.init s
  have h0 := (inv2_reach _ hr).live0
  have hpos := (inv2_reach _ hr).inv.1.npos
  have hv := values_are_offered s
  generalize (run M (Config.init M) s).1.g = g at h0 hpos hv ⊢
  rw [abs_eq_map_liveIdx]
  obtain ⟨m, hm⟩ : ∃ m, g.n = m + 1 := ⟨g.n - 1, by omega⟩
  have e1 : liveIdx g.n g.live = (List.range' 1 m).filter g.live := by
    unfold liveIdx
    rw [hm, List.range_eq_range', show m + 1 = m + 1 from rfl, List.range'_succ, List.filter_cons]
    simp [h0]
  have e2 : (List.range' 1 m).map g.val = offeredVals (run M (Config.init M) s).2 := by
    unfold nodeVals at hv
    rw [hm, List.range_eq_range', List.range'_succ, List.map_cons] at hv
    exact (List.cons.inj hv).2
  rw [e1, ← e2]
  exact List.Sublist.map _ List.filter_sublist

/-- the number of queued elements is the number of offers minus the successful polls and removes -/
theorem abs_length_accounting (s : List (Tid × M.Act)) :
    (abs (run M (Config.init M) s).1.g).length + polled (run M (Config.init M) s).2 +
      removed (run M (Config.init M) s).2 = offered (run M (Config.init M) s).2 := by
  have := (accounting s).1
  rw [abs_length_cnt, ← liveCount_eq_cnt]
  exact this.symm

/-! ## Mixed sequences: operations, `Size` and full iterations by one thread -/

/-- a call of the single-threaded client -/
inductive Call
  | op (o : Op)      -- `Offer v` / `Poll` / `Peek` / `IsEmpty`
  | size             -- `Size`
  | iterate          -- `Iterator()`, then `HasNext(); Next()` until `HasNext()` is false; the iterator is dropped
deriving Repr, DecidableEq

/-- what a plain FIFO list does on a call: new content and the responses, in order -/
def callApply (q : List Nat) : Call → List Nat × List Ret
  | .op o => ((fifoApply q o).1, [(fifoApply q o).2])
  | .size => (q, [.int (min q.length maxInt32)])
  | .iterate => (q, .unit :: (q.flatMap (fun v => [Ret.bool true, Ret.val v]) ++ [Ret.bool false]))

def runCalls : List Nat → List Call → List Nat × List Ret
  | q, [] => (q, [])
  | q, cl :: cls => ((runCalls (callApply q cl).1 cls).1, (callApply q cl).2 ++ (runCalls (callApply q cl).1 cls).2)

/-- the schedule of one call; an iteration over a list with `q.length` elements makes that many rounds -/
def callSched (t : Tid) (k : Nat) (q : List Nat) : Call → List (Tid × M.Act)
  | .op o => soloSched t (opAct o) k
  | .size => soloSched t .size k
  | .iterate => iterSched t k q.length ++ [((t, Act.drop) : Tid × M.Act)]

/-- the schedule of a sequence of calls (the number of rounds of an iteration is the one the plain FIFO
list prescribes) -/
def callsSched (t : Tid) (k : Nat) : List Nat → List Call → List (Tid × M.Act)
  | _, [] => []
  | q, cl :: cls => callSched t k q cl ++ callsSched t k (callApply q cl).1 cls

def Call.plain : Call → Prop
  | .op o => Garr.Props.C01.plain o
  | _ => True

theorem iterLoopObs_resps (g : G) (ps : List Nat) :
    resps (iterLoopObs g ps) = ps.flatMap (fun i => [Ret.bool true, Ret.val (g.val i)]) ++ [Ret.bool false] := by
  unfold resps
  induction ps with
  | nil => rfl
  | cons p ps ih =>
    simp only [iterLoopObs, List.filterMap_cons, Obs.resp, ih, List.flatMap_cons, List.cons_append,
      List.nil_append]

/-- one call, run alone, against the plain FIFO list -/
theorem solo_call_fifo {c : Config M} (hc : Reach M c) {t : Tid} (ht : c.l t = .idle) (cl : Call)
    (hp : cl.plain) {k : Nat} (hk : bound c ≤ k) :
    Reach M (run M c (callSched t k (abs c.g) cl)).1 ∧
    (run M c (callSched t k (abs c.g) cl)).1.l = c.l ∧
    (run M c (callSched t k (abs c.g) cl)).1.g.n ≤ c.g.n + 1 ∧
    abs (run M c (callSched t k (abs c.g) cl)).1.g = (callApply (abs c.g) cl).1 ∧
    ∃ lg, (run M c (callSched t k (abs c.g) cl)).2 = tag t lg ∧ resps lg = (callApply (abs c.g) cl).2 := by
  cases cl with
  | op o =>
    obtain ⟨h1, h2, h3, lg, h4, _, h5⟩ := solo_op_matches_spec hc ht (invOp_opAct hp) hk
    obtain ⟨e1, e2⟩ := specApply_fifo (absS c.g) hp
    refine ⟨h1, h2, ?_, ?_, lg, h4, ?_⟩
    · have := specApply_next_le (absS c.g) o
      rw [← h3] at this; exact this
    · show abs (run M c (soloSched t (opAct o) k)).1.g = _
      rw [abs_eq_items, h3, e1, ← abs_eq_items]; rfl
    · rw [h5, e2, ← abs_eq_items]; rfl
  | size =>
    obtain ⟨h1, h2, h3, h4⟩ := solo_size_run hc ht hk
    refine ⟨h1, h2, ?_, ?_, [.retAux (.int (min (abs c.g).length maxInt32))], h4, rfl⟩
    · exact Nat.le_succ_of_le (Nat.le_of_eq (congrArg SpecSt.next h3))
    · show abs (run M c (soloSched t .size k)).1.g = _
      rw [abs_eq_items, h3, ← abs_eq_items]; rfl
  | iterate =>
    obtain ⟨h1, h2, ⟨it, h3, _⟩, h4, h5⟩ := solo_iteration_run hc ht hk
    have hs : M.step t (run M c (iterSched t k (abs c.g).length)).1.g
        ((run M c (iterSched t k (abs c.g).length)).1.l t) Act.drop =
        some ((run M c (iterSched t k (abs c.g).length)).1.g, .idle, []) := by rw [h3]; rfl
    have e : callSched t k (abs c.g) Call.iterate = iterSched t k (abs c.g).length ++ [((t, Act.drop) : Tid × M.Act)] := rfl
    rw [e, run_append, run_cons_some hs]
    refine ⟨Reach.step h1 hs, ?_, ?_, ?_, Obs.retAux .unit :: iterLoopObs c.g (liveIdx c.g.n c.g.live), ?_, ?_⟩
    · funext u
      by_cases hu : u = t
      · subst hu; exact (upd_same _ _ _).trans ht.symm
      · exact (upd_other _ _ _ _ hu).trans (h2 u hu)
    · exact Nat.le_succ_of_le (Nat.le_of_eq (congrArg SpecSt.next h4))
    · show abs (run M c (iterSched t k (abs c.g).length)).1.g = abs c.g
      rw [abs_eq_items, h4, ← abs_eq_items]
    · show _ ++ ([] ++ []) = _
      rw [h5]; simp
    · show Ret.unit :: resps (iterLoopObs c.g (liveIdx c.g.n c.g.live)) = _
      rw [iterLoopObs_resps, abs_eq_map_liveIdx]
      show _ = Ret.unit :: (List.flatMap _ (List.map _ _) ++ _)
      rw [List.flatMap_map]

/-- **Single-threaded use.**  From a reachable configuration in which `t` is idle (the others do not
move), `t` performs any sequence of `Offer`/`Poll`/`Peek`/`IsEmpty`/`Size` calls and full iterations.
All responses, in order, are exactly those of the plain FIFO list started with `abs c.g`, and the abstract
queue ends as the plain FIFO list does. -/
theorem calls_behave_like_fifo_list {t : Tid} {k : Nat} (cls : List Call) (hp : ∀ cl ∈ cls, cl.plain) :
    ∀ {c : Config M}, Reach M c → c.l t = .idle → 16 * (c.g.n + cls.length) + 15 ≤ k →
    Reach M (run M c (callsSched t k (abs c.g) cls)).1 ∧
    (run M c (callsSched t k (abs c.g) cls)).1.l = c.l ∧
    abs (run M c (callsSched t k (abs c.g) cls)).1.g = (runCalls (abs c.g) cls).1 ∧
    ∃ lg, (run M c (callsSched t k (abs c.g) cls)).2 = tag t lg ∧ resps lg = (runCalls (abs c.g) cls).2 := by
  induction cls with
  | nil => intro c hc _ _; exact ⟨hc, rfl, rfl, [], rfl, rfl⟩
  | cons cl cls ih =>
    intro c hc ht hk
    have hk1 : bound c ≤ k := by simp only [bound, List.length_cons] at hk ⊢; omega
    obtain ⟨a1, a2, a3, a4, lg1, a5, a6⟩ := solo_call_fifo hc ht cl (hp cl (List.mem_cons_self ..)) hk1
    obtain ⟨b1, b2, b3, lg2, b4, b5⟩ := ih (fun o ho => hp o (List.mem_cons_of_mem _ ho)) a1
      (by rw [a2]; exact ht) (by simp only [List.length_cons] at hk; omega)
    rw [a4] at b1 b2 b3 b4 b5
    have e : callsSched t k (abs c.g) (cl :: cls) =
        callSched t k (abs c.g) cl ++ callsSched t k (callApply (abs c.g) cl).1 cls := rfl
    rw [e, run_append]
    refine ⟨b1, b2.trans a2, b3, lg1 ++ lg2, ?_, ?_⟩
    · show _ ++ _ = _
      rw [a5, b4]; exact (List.map_append ..).symm
    · rw [resps_append, a6, b5]; rfl

end Garr.Queue
