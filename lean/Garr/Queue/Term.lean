import Garr.Queue.Inv
/-!
# C07: every queue operation terminates within a bounded number of its own steps

From ANY reachable configuration (the other threads suspended wherever they happen to be inside
their operations), a thread that runs alone finishes its current operation within `bound c` of its
own steps, `bound` an explicit linear function of the number of linked nodes.  No step of any
operation ever waits for another thread (`nonblocking`), so a stalled thread blocks nobody.

The proof is by an explicit measure `mu : G → L → Nat` of the shape
`[t ≠ tail]·(8n+8) + 8·(n − position) + phase` which strictly decreases on every own step that does
not complete the operation (`mu_dec`); the structural invariant `GInv` (`fwd`, `self_before_head`)
supplies "a non-self `next` points strictly forward" and "a self-linked node is before `head`".
-/
namespace Garr.Queue
open Garr.Conc

/-! ## Definitions -/

/-- the thread is between operations -/
def atRest : L → Bool
  | .idle => true
  | .idleIt _ => true
  | _ => false

/-- one own step of thread `t` (the internal action `.tau`); configurations at rest (or with no
    enabled step) stay put -/
def soloStep (t : Tid) (c : Config M) : Config M :=
  match step t c.g (c.l t) .tau with
  | some (g', l', _) => ⟨g', upd c.l t l'⟩
  | none => c

/-- `k` own steps of thread `t`, stopping as soon as `t` is at rest -/
def solo (t : Tid) : Nat → Config M → Config M
  | 0, c => c
  | k + 1, c => if atRest (c.l t) then c else solo t k (soloStep t c)

/-- explicit bound on the number of own steps: a function of the number of linked nodes only -/
def bound (c : Config M) : Nat := 16 * c.g.n + 15

/-! ## The measure -/

/-- weight of the continuation of `updateHead` -/
def contMu (g : G) : Cont → Nat
  | .size (some p) => 8 * (g.n - p) + 2
  | _ => 0

/-- `Offer` still holds a stale snapshot `t` of `tail` (it will re-read `tail` at most once) -/
def flag (g : G) (t : Nat) : Nat := if t = g.tail then 0 else 8 * g.n + 8

/-- the termination measure -/
def mu (g : G) : L → Nat
  | .idle => 0
  | .idleIt _ => 0
  | .o0 _ => 8 * g.n + 6
  | .o1 _ t p => flag g t + 8 * (g.n - p) + 5
  | .o2 _ t p => flag g t + 8 * (g.n - p) + (if g.next p = none then 2 else 6)
  | .o3 _ _ => 1
  | .o4 _ t _ => flag g t + 8 * (g.n - g.head) + 7
  | .o4b _ t => flag g t + 8 * (g.n - g.head) + 6
  | .o5 _ t _ q => flag g t + 8 * (g.n - q) + 6
  | .p0 => 8 * (g.n - g.head) + 7
  | .p1 _ p => 8 * (g.n - p) + 6
  | .p2 _ p => 8 * (g.n - p) + 5
  | .p3 _ p _ => 8 * (g.n - p) + 3
  | .p4 _ p => 8 * (g.n - p) + 4
  | .k0 _ => 8 * (g.n - g.head) + 7
  | .k1 _ _ p => 8 * (g.n - p) + 6
  | .k2 _ _ p => 8 * (g.n - p) + 5
  | .u1 _ _ k => contMu g k + 2
  | .u2 _ k => contMu g k + 1
  | .s1 p _ => 8 * (g.n - p) + 2
  | .s2 p _ => 8 * (g.n - p) + 1
  | .n0 _ pred => 8 * (g.n - pred) + 2
  | .n0h _ pred => 8 * (g.n - pred) + 1
  | .n1 _ _ p => 8 * (g.n - p) + 5
  | .n2 _ _ p => 8 * (g.n - p) + 4
  | .n2h _ _ p => 8 * (g.n - p) + 3
  | .n3 _ _ p _ => 8 * (g.n - p) + 2
  | .r0 _ _ => 1

/-! ## Small facts -/

@[simp] theorem kill_n (g : G) (p : Nat) : (kill g p).n = g.n := rfl
@[simp] theorem setNext_n (g : G) (i : Nat) (x : Option Nat) : (setNext g i x).n = g.n := rfl
@[simp] theorem link_n (g : G) (p v : Nat) : (link g p v).n = g.n + 1 := rfl

theorem flag_tail (g : G) : flag g g.tail = 0 := by simp [flag]

theorem flag_ne {g : G} {t : Nat} (h : g.tail ≠ t) : flag g t = 8 * g.n + 8 := by
  have : ¬ t = g.tail := fun e => h e.symm
  simp [flag, this]

theorem flag_le (g : G) (t : Nat) : flag g t ≤ 8 * g.n + 8 := by
  unfold flag; split <;> omega

theorem contMu_le (g : G) (k : Cont) : contMu g k ≤ 8 * g.n + 2 := by
  cases k with
  | ret r => simp [contMu]
  | size p =>
    cases p with
    | none => simp [contMu]
    | some p => simp only [contMu]; omega
  | iter it => simp [contMu]

theorem contMu_congr {g g' : G} (h : g'.n = g.n) (k : Cont) : contMu g' k = contMu g k := by
  cases k with
  | ret r => rfl
  | size p =>
    cases p with
    | none => rfl
    | some p => simp only [contMu, h]
  | iter it => rfl

/-- a non-self `next` pointer points strictly forward -/
theorem fwd_lt {g : G} (hG : GInv g) {i j : Nat} (hi : i < g.n) (hn : g.next i = some j) (hne : ¬ j = i) :
    i < j ∧ j < g.n := by
  obtain ⟨a, b⟩ := hG.fwd i j hi hn
  rcases b with b | ⟨b1, _⟩
  · exact absurd b hne
  · exact ⟨b1, a⟩

theorem finish_dec (g : G) (k : Cont) (m : Nat) (hm : contMu g k < m) :
    atRest (finish k).1 = true ∨ mu g (finish k).1 < m := by
  cases k with
  | ret r => left; rfl
  | size p =>
    cases p with
    | none => left; rfl
    | some p => right; simp only [finish, mu]; simp only [contMu] at hm; omega
  | iter it => left; rfl

theorem goUpd_dec (g : G) (h tgt : Nat) (k : Cont) (m : Nat) (hm : contMu g k + 2 < m) :
    atRest (goUpd h tgt k).1 = true ∨ mu g (goUpd h tgt k).1 < m := by
  unfold goUpd
  split
  · exact finish_dec g k m (by omega)
  · right; simp only [mu]; exact hm

theorem contMu_foundLive (g : G) (m : Mode) (p v : Nat) : contMu g (foundLive m p v).2 ≤ 8 * (g.n - p) + 2 := by
  cases m <;> simp [foundLive, contMu]

theorem contMu_foundNone (g : G) (m : Mode) : contMu g (foundNone m).2 = 0 := by
  cases m <;> rfl

theorem mu_pos (g : G) (l : L) (h : atRest l = false) : 0 < mu g l := by
  cases l <;> simp [atRest] at h <;> simp only [mu] <;> first | omega | (split <;> omega)

theorem mu_le (g : G) (l : L) : mu g l ≤ 16 * g.n + 15 := by
  cases l <;> simp only [mu]
  case o1 v t p => have := flag_le g t; omega
  case o2 v t p => have := flag_le g t; split <;> omega
  case o4 v t p => have := flag_le g t; omega
  case o4b v t => have := flag_le g t; omega
  case o5 v t p q => have := flag_le g t; omega
  case u1 h tgt k => have := contMu_le g k; omega
  case u2 h k => have := contMu_le g k; omega
  all_goals omega

/-! ## 1. No operation ever waits for another thread -/

/-- a thread inside an operation always has an enabled own step, whatever the shared state -/
theorem nonblocking : ∀ (t : Tid) (g : G) (l : L), atRest l = false → ∃ r, step t g l .tau = some r := by
  intro t g l h
  cases l <;> simp [atRest] at h <;> simp only [step] <;> (repeat' split) <;> exact ⟨_, rfl⟩

/-! ## The measure decreases on every own step that does not complete the operation -/

local macro "fin_mu" : tactic =>
  `(tactic| first | (left; rfl) | (right; simp only [mu, kill_n, setNext_n]; omega))

theorem mu_dec {t : Tid} {g g' : G} {l l' : L} {obs : List Obs}
    (hG : GInv g) (hL : LInv g l) (hs : step t g l .tau = some (g', l', obs)) :
    atRest l' = true ∨ mu g' l' < mu g l := by
  have hhead := hG.head_lt
  have htail := hG.tail_lt
  cases l <;> simp only [step] at hs <;> try contradiction
  all_goals simp only [LInv] at hL
  case o0 =>
    simp at hs; obtain ⟨rfl, rfl, _⟩ := hs
    right; simp only [mu, flag_tail]; omega
  case o1 =>
    rename_i v t0 p
    split at hs
    · rename_i hnone
      simp at hs; obtain ⟨rfl, rfl, _⟩ := hs
      right; simp only [mu, if_pos hnone]; omega
    · rename_i q hq
      split at hs
      · rename_i hself
        subst hself
        simp at hs; obtain ⟨rfl, rfl, _⟩ := hs
        have := hG.self_before_head _ hL.2 hq
        right; simp only [mu]; omega
      · rename_i hne
        have := fwd_lt hG hL.2 hq hne
        split at hs <;> (simp at hs; obtain ⟨rfl, rfl, _⟩ := hs) <;> (right; simp only [mu]; omega)
  case o2 =>
    rename_i v t0 p
    split at hs
    · rename_i hnil
      split at hs <;> (simp at hs; obtain ⟨rfl, rfl, _⟩ := hs)
      · right; simp only [mu, if_pos hnil]; omega
      · left; rfl
    · rename_i hnn
      simp at hs; obtain ⟨rfl, rfl, _⟩ := hs
      right; simp only [mu, if_neg hnn]; omega
  case o3 =>
    simp at hs; obtain ⟨rfl, rfl, _⟩ := hs
    left; rfl
  case o4 =>
    rename_i v t0 p
    split at hs
    · rename_i hne
      simp at hs; obtain ⟨rfl, rfl, _⟩ := hs
      right; simp only [mu, flag_tail, flag_ne hne]; omega
    · simp at hs; obtain ⟨rfl, rfl, _⟩ := hs
      right; simp only [mu, flag_tail]; omega
  case o4b =>
    simp at hs; obtain ⟨rfl, rfl, _⟩ := hs
    right; simp only [mu]; omega
  case o5 =>
    rename_i v t0 p q
    split at hs
    · rename_i hne
      simp at hs; obtain ⟨rfl, rfl, _⟩ := hs
      right; simp only [mu, flag_tail, flag_ne hne]; omega
    · simp at hs; obtain ⟨rfl, rfl, _⟩ := hs
      right; simp only [mu, flag_tail]; omega
  case p0 =>
    simp at hs; obtain ⟨rfl, rfl, _⟩ := hs
    fin_mu
  case p1 =>
    split at hs <;> (simp at hs; obtain ⟨rfl, rfl, _⟩ := hs) <;> fin_mu
  case p2 =>
    split at hs
    · split at hs <;> (simp at hs; obtain ⟨rfl, rfl, _⟩ := hs) <;> fin_mu
    · simp at hs; obtain ⟨rfl, rfl, _⟩ := hs; fin_mu
  case p3 =>
    rename_i h p v
    have hp := hL.2.1
    split at hs <;> (simp at hs; obtain ⟨rfl, hl, _⟩ := hs; rw [← hl]) <;>
      exact goUpd_dec _ _ _ _ _ (by simp only [mu, contMu]; omega)
  case p4 =>
    rename_i h p
    have hp := hL.2.1
    split at hs
    · simp at hs; obtain ⟨rfl, hl, _⟩ := hs; rw [← hl]
      exact goUpd_dec _ _ _ _ _ (by simp only [mu, contMu]; omega)
    · rename_i q hq
      split at hs
      · rename_i hself
        subst hself
        simp at hs; obtain ⟨rfl, rfl, _⟩ := hs
        have := hG.self_before_head _ hp hq
        fin_mu
      · rename_i hne
        have := fwd_lt hG hp hq hne
        simp at hs; obtain ⟨rfl, rfl, _⟩ := hs
        fin_mu
  case k0 =>
    simp at hs; obtain ⟨rfl, rfl, _⟩ := hs
    fin_mu
  case k1 =>
    rename_i m h p
    have hp := hL.2.1
    split at hs
    · simp at hs; obtain ⟨rfl, hl, _⟩ := hs; rw [← hl]
      have := contMu_foundLive g m p (g.val p)
      exact goUpd_dec _ _ _ _ _ (by simp only [mu]; omega)
    · simp at hs; obtain ⟨rfl, rfl, _⟩ := hs; fin_mu
  case k2 =>
    rename_i m h p
    have hp := hL.2.1
    split at hs
    · simp at hs; obtain ⟨rfl, hl, _⟩ := hs; rw [← hl]
      have := contMu_foundNone g m
      exact goUpd_dec _ _ _ _ _ (by simp only [mu]; omega)
    · rename_i q hq
      split at hs
      · rename_i hself
        subst hself
        simp at hs; obtain ⟨rfl, rfl, _⟩ := hs
        have := hG.self_before_head _ hp hq
        fin_mu
      · rename_i hne
        have := fwd_lt hG hp hq hne
        simp at hs; obtain ⟨rfl, rfl, _⟩ := hs
        fin_mu
  case u1 =>
    rename_i h tgt k
    split at hs
    · simp at hs; obtain ⟨rfl, rfl, _⟩ := hs
      have : contMu { g with head := tgt } k = contMu g k := contMu_congr rfl k
      right; simp only [mu, this]; omega
    · simp at hs; obtain ⟨rfl, hl, _⟩ := hs; rw [← hl]
      exact finish_dec _ _ _ (by simp only [mu]; omega)
  case u2 =>
    rename_i h k
    simp at hs; obtain ⟨rfl, hl, _⟩ := hs; rw [← hl]
    have : contMu (setNext g h (some h)) k = contMu g k := contMu_congr rfl k
    exact finish_dec _ _ _ (by simp only [mu, this]; omega)
  case s1 =>
    split at hs
    · split at hs <;> (simp at hs; obtain ⟨rfl, rfl, _⟩ := hs) <;> fin_mu
    · simp at hs; obtain ⟨rfl, rfl, _⟩ := hs; fin_mu
  case s2 =>
    rename_i p c
    split at hs
    · simp at hs; obtain ⟨rfl, rfl, _⟩ := hs; fin_mu
    · rename_i q hq
      split at hs
      · rename_i hself
        subst hself
        simp at hs; obtain ⟨rfl, rfl, _⟩ := hs
        have := hG.self_before_head _ hL hq
        fin_mu
      · rename_i hne
        have := fwd_lt hG hL hq hne
        simp at hs; obtain ⟨rfl, rfl, _⟩ := hs
        fin_mu
  case n0 =>
    rename_i it pred
    have hp := hL.1
    split at hs
    · simp at hs; obtain ⟨rfl, rfl, _⟩ := hs; fin_mu
    · rename_i q hq
      split at hs
      · simp at hs; obtain ⟨rfl, rfl, _⟩ := hs; fin_mu
      · rename_i hne
        have := fwd_lt hG hp hq hne
        simp at hs; obtain ⟨rfl, rfl, _⟩ := hs
        fin_mu
  case n0h =>
    have hp := hL.1
    simp at hs; obtain ⟨rfl, rfl, _⟩ := hs
    fin_mu
  case n1 =>
    split at hs <;> (simp at hs; obtain ⟨rfl, rfl, _⟩ := hs) <;> fin_mu
  case n2 =>
    split at hs
    · simp at hs; obtain ⟨rfl, rfl, _⟩ := hs; fin_mu
    · split at hs <;> (simp at hs; obtain ⟨rfl, rfl, _⟩ := hs) <;> fin_mu
  case n2h =>
    simp at hs; obtain ⟨rfl, rfl, _⟩ := hs
    fin_mu
  case n3 =>
    obtain ⟨_, hpq, hqn, _⟩ := hL
    simp at hs; obtain ⟨rfl, rfl, _⟩ := hs
    split <;> fin_mu
  case r0 =>
    simp at hs; obtain ⟨rfl, rfl, _⟩ := hs
    left; rfl

/-! ## 2. Solo runs stay inside the reachable configurations -/

theorem soloStep_reach {t : Tid} {c : Config M} (h : Reach M c) : Reach M (soloStep t c) := by
  unfold soloStep
  split
  · rename_i g' l' obs hs
    exact Reach.step (M := M) (a := Act.tau) h hs
  · exact h

theorem solo_reach {t : Tid} {k : Nat} {c : Config M} : Reach M c → Reach M (solo t k c) := by
  induction k generalizing c with
  | zero => intro h; exact h
  | succ k ih =>
    intro h
    simp only [solo]
    split
    · exact h
    · exact ih (soloStep_reach h)

/-! ## 3. The bound -/

theorem solo_bound_aux (t : Tid) : ∀ (m : Nat) (c : Config M), Reach M c → mu c.g (c.l t) ≤ m →
    ∃ k, k ≤ m ∧ atRest ((solo t k c).l t) = true := by
  intro m
  induction m with
  | zero =>
    intro c _ hm
    refine ⟨0, Nat.le_refl _, ?_⟩
    cases hr : atRest (c.l t) with
    | true => exact hr
    | false => have := mu_pos c.g _ hr; omega
  | succ m ih =>
    intro c hc hm
    cases hr : atRest (c.l t) with
    | true => exact ⟨0, Nat.zero_le _, hr⟩
    | false =>
      obtain ⟨⟨g', l', obs⟩, hs⟩ := nonblocking t c.g (c.l t) hr
      have hinv := inv_reach c hc
      have hdec := mu_dec hinv.1 (hinv.2 t) hs
      have hc' : Reach M ⟨g', upd c.l t l'⟩ := Reach.step (M := M) (a := Act.tau) hc hs
      have hstep : soloStep t c = ⟨g', upd c.l t l'⟩ := by simp only [soloStep, hs]
      have hsolo : ∀ k, solo t (k + 1) c = solo t k ⟨g', upd c.l t l'⟩ := by
        intro k; simp [solo, hr, hstep]
      have hsame : upd c.l t l' t = l' := upd_same c.l t l'
      rcases hdec with h | h
      · refine ⟨1, by omega, ?_⟩
        rw [hsolo]
        exact (congrArg atRest hsame).trans h
      · have hm' : mu g' (upd c.l t l' t) ≤ m :=
          Nat.le_trans (Nat.le_of_eq (congrArg (mu g') hsame)) (by omega)
        obtain ⟨k, hk, hrest⟩ := ih ⟨g', upd c.l t l'⟩ hc' hm'
        exact ⟨k + 1, by omega, by rw [hsolo]; exact hrest⟩

/-- **C07**: from every reachable configuration, thread `t` running alone reaches rest (completes
    its operation) within `bound c = 16·n + 15` own steps (`n` = number of linked nodes at the
    start) — wherever the other threads are suspended. -/
theorem C07_solo_bound : ∀ (c : Config M) (t : Tid), Reach M c →
    ∃ k, k ≤ bound c ∧ atRest ((solo t k c).l t) = true := by
  intro c t hc
  obtain ⟨k, hk, h⟩ := solo_bound_aux t (mu c.g (c.l t)) c hc (Nat.le_refl _)
  exact ⟨k, Nat.le_trans hk (mu_le c.g (c.l t)), h⟩

/-- the same with the coarser bound `24·n + 40` of the design document -/
theorem C07_solo_bound_coarse : ∀ (c : Config M) (t : Tid), Reach M c →
    ∃ k, k ≤ 24 * c.g.n + 40 ∧ atRest ((solo t k c).l t) = true := by
  intro c t hc
  obtain ⟨k, hk, h⟩ := C07_solo_bound c t hc
  exact ⟨k, by unfold bound at hk; omega, h⟩

/-! ## 4. The other threads are irrelevant (and untouched) -/

theorem soloStep_others {t u : Tid} (hu : u ≠ t) (c : Config M) : (soloStep t c).l u = c.l u := by
  unfold soloStep
  split
  · exact upd_other _ _ _ _ hu
  · rfl

theorem solo_others {t u : Tid} (hu : u ≠ t) : ∀ (k : Nat) (c : Config M), (solo t k c).l u = c.l u := by
  intro k
  induction k with
  | zero => intro c; rfl
  | succ k ih =>
    intro c
    simp only [solo]
    split
    · rfl
    · rw [ih, soloStep_others hu]

theorem soloStep_indep {t : Tid} (c₁ c₂ : Config M) (hg : c₁.g = c₂.g) (hl : c₁.l t = c₂.l t) :
    (soloStep t c₁).g = (soloStep t c₂).g ∧ (soloStep t c₁).l t = (soloStep t c₂).l t := by
  unfold soloStep
  rw [hg, hl]
  cases step t c₂.g (c₂.l t) Act.tau with
  | none => exact ⟨hg, hl⟩
  | some r =>
    obtain ⟨g', l', o⟩ := r
    exact ⟨rfl, (upd_same c₁.l t l').trans (upd_same c₂.l t l').symm⟩

/-- a solo run of `t` depends only on the shared state and `t`'s own local state -/
theorem solo_indep {t : Tid} : ∀ (k : Nat) (c₁ c₂ : Config M), c₁.g = c₂.g → c₁.l t = c₂.l t →
    (solo t k c₁).g = (solo t k c₂).g ∧ (solo t k c₁).l t = (solo t k c₂).l t := by
  intro k
  induction k with
  | zero => intro c₁ c₂ hg hl; exact ⟨hg, hl⟩
  | succ k ih =>
    intro c₁ c₂ hg hl
    simp only [solo, hl]
    split
    · exact ⟨hg, hl⟩
    · exact ih _ _ (soloStep_indep c₁ c₂ hg hl).1 (soloStep_indep c₁ c₂ hg hl).2

/-- the bound holds whatever the other threads' local states are, and the solo run leaves them
    exactly where they were: a stalled thread never blocks anybody -/
theorem frozen_others_irrelevant : ∀ (c : Config M) (t : Tid), Reach M c →
    ∃ k, k ≤ bound c ∧ atRest ((solo t k c).l t) = true ∧ ∀ u, u ≠ t → (solo t k c).l u = c.l u := by
  intro c t hc
  obtain ⟨k, hk, h⟩ := C07_solo_bound c t hc
  exact ⟨k, hk, h, fun u hu => solo_others hu k c⟩

/-- a solo run is an ordinary run of the machine under the schedule "`t` takes `k` internal steps" -/
theorem solo_eq_run (t : Tid) : ∀ (k : Nat) (c : Config M),
    solo t k c = (run M c (List.replicate k (t, Act.tau))).1 := by
  intro k
  induction k with
  | zero => intro c; rfl
  | succ k ih =>
    intro c
    simp only [solo, List.replicate_succ, run]
    cases hr : atRest (c.l t) with
    | true =>
      have hnone : M.step t c.g (c.l t) Act.tau = none := by
        show step t c.g (c.l t) Act.tau = none
        cases hl : c.l t <;> rw [hl] at hr <;> simp [atRest] at hr <;> rfl
      simp only [hnone]
      rw [← ih]
      cases k with
      | zero => rfl
      | succ k => simp [solo, hr]
    | false =>
      obtain ⟨⟨g', l', obs⟩, hs⟩ := nonblocking t c.g (c.l t) hr
      have hs' : M.step t c.g (c.l t) Act.tau = some (g', l', obs) := hs
      simp only [hs']
      rw [← ih]
      simp [soloStep, hs]

end Garr.Queue
