import Garr.Conc
/-!
# Small-step model of `queue.JDKLinkedQueue` (queue/jdkLinkedQueue.go, queue/node.go)

One shared-memory access (`sync/atomic` call) per step, in the order the code performs them.
Nodes are named by their position in *link order* (the order of successful `casNext(nil,new)`);
node 0 is the dummy created by the constructor.  `live i` ⇔ item pointer of node `i` is non-nil;
`next i = some i` is the self-link written by `updateHead`.  A node is materialised at its link.
Values are `Nat` tokens.  Program counters (constructor names) follow the code:

* `o*`  `Offer`      * `p*` `Poll`
* `k*`  the shared "find first live node" traversal of `Peek` / `first()` (`IsEmpty`, `Size`) /
        `newJdkLinkedQueueIter`, parametrised by `Mode`
* `u1`,`u2` `updateHead(h,tgt)`: `casHead`, then the self-link store; then continue with `Cont`
* `s*`  the counting loop of `Size`
* `n*`  iterator `Next` (with `succ` and the unlink `casNext(pred: p → q)`), `r0` iterator `Remove`
-/
namespace Garr.Queue
open Garr.Conc

structure G where
  n : Nat                       -- number of linked nodes (positions 0..n-1)
  val : Nat → Nat
  live : Nat → Bool             -- item != nil
  next : Nat → Option Nat       -- none = nil, some i at i = self link
  head : Nat
  tail : Nat

inductive Ret | unit | nil | val (v : Nat) | bool (b : Bool) | int (n : Nat)
deriving DecidableEq, Repr

/-- the iterator object (confined to one thread) -/
structure Iter where
  nextNode : Option Nat      -- node whose value the next `Next()` returns
  nextVal : Nat
  lastRet : Option Nat       -- node last returned (target of Remove)
  prev : Option Nat          -- ghost: position of the element returned last (not reset by Remove)
deriving Repr, DecidableEq

inductive Mode | peek | isEmpty | size | iter
deriving DecidableEq, Repr

/-- what happens after `updateHead` -/
inductive Cont
  | ret (r : Ret)
  | size (p : Option Nat)    -- `Size`: `first()` returned node `p` (or nil); start counting
  | iter (it : Iter)         -- `Iterator()` returns this iterator
deriving Repr, DecidableEq

inductive L
  | idle
  -- Offer
  | o0 (v : Nat)
  | o1 (v t p : Nat)
  | o2 (v t p : Nat)
  | o3 (t nw : Nat)
  | o4 (v t p : Nat)
  | o4b (v t : Nat)
  | o5 (v t p q : Nat)
  -- Poll
  | p0
  | p1 (h p : Nat)
  | p2 (h p : Nat)
  | p3 (h p v : Nat)
  | p4 (h p : Nat)
  -- Peek / first / iterator construction
  | k0 (m : Mode)
  | k1 (m : Mode) (h p : Nat)
  | k2 (m : Mode) (h p : Nat)
  -- updateHead(h, tgt), then continue
  | u1 (h tgt : Nat) (k : Cont)
  | u2 (h : Nat) (k : Cont)
  -- Size counting loop
  | s1 (p c : Nat)
  | s2 (p c : Nat)
  -- a thread that owns an iterator sits in `idleIt` between iterator calls
  | idleIt (it : Iter)
  | n0 (it : Iter) (pred : Nat)          -- Next(): succ(pred): load next pred
  | n0h (it : Iter) (pred : Nat)         -- succ(pred) fell off: load head
  | n1 (it : Iter) (pred p : Nat)        -- load item p
  | n2 (it : Iter) (pred p : Nat)        -- succ(p): load next p
  | n2h (it : Iter) (pred p : Nat)       -- succ(p) fell off: load head
  | n3 (it : Iter) (pred p q : Nat)      -- unlink: pred.casNext(p, q)
  | r0 (it : Iter) (l : Nat)             -- Remove(): store item l := nil
deriving Repr

inductive Act
  | offer (v : Nat) | poll | peek | isEmpty | size | iterator   -- start an operation (from `idle`)
  | hasNext | next | remove | drop                             -- iterator calls (from `idleIt`)
  | tau                                                          -- the next atomic step of the running operation
deriving Repr, DecidableEq

inductive Obs
  | lpOffer (v : Nat)            -- linearization point of Offer(v)
  | lpPoll (r : Ret)             -- … of Poll returning r (`.val v` or `.nil`)
  | lpPeek (r : Ret)             -- … of Peek
  | lpEmpty (b : Bool)           -- … of IsEmpty
  | lpRemove (pos : Nat) (wasLive : Bool)
  | itNext (pos : Nat) (v : Nat) -- iterator returned the element at position pos
  | ret (r : Ret)                -- response of a specification operation (Offer, Poll, Peek, IsEmpty, effective Remove)
  | retAux (r : Ret)             -- response of an operation outside the sequential specification (Size, Iterator, HasNext, Next, no-op Remove)
deriving Repr, DecidableEq

def maxInt32 : Nat := 2147483647

def setNext (g : G) (i : Nat) (x : Option Nat) : G := { g with next := fun j => if j = i then x else g.next j }
def kill (g : G) (i : Nat) : G := { g with live := fun j => if j = i then false else g.live j }
def link (g : G) (p v : Nat) : G :=
  { g with n := g.n + 1,
           val := fun j => if j = g.n then v else g.val j,
           live := fun j => if j = g.n then true else g.live j,
           next := fun j => if j = p then some g.n else if j = g.n then none else g.next j }

/-- continue after `updateHead` is over -/
def finish : Cont → L × List Obs
  | .ret r => (.idle, [.ret r])
  | .size none => (.idle, [.retAux (.int 0)])
  | .size (some p) => (.s1 p 0, [])
  | .iter it => (.idleIt it, [.retAux .unit])

/-- enter `updateHead(h, tgt)`: `h != p && casHead…` -/
def goUpd (h tgt : Nat) (k : Cont) : L × List Obs :=
  if h = tgt then finish k else (.u1 h tgt k, [])

/-- found the first live node `p` (value `v`) in mode `m`: LP marker and continuation -/
def foundLive (m : Mode) (p v : Nat) : List Obs × Cont :=
  match m with
  | .peek => ([.lpPeek (.val v)], .ret (.val v))
  | .isEmpty => ([.lpEmpty false], .ret (.bool false))
  | .size => ([], .size (some p))
  | .iter => ([], .iter { nextNode := some p, nextVal := v, lastRet := none, prev := none })

/-- reached the end of the list without a live node -/
def foundNone (m : Mode) : List Obs × Cont :=
  match m with
  | .peek => ([.lpPeek .nil], .ret .nil)
  | .isEmpty => ([.lpEmpty true], .ret (.bool true))
  | .size => ([], .size none)
  | .iter => ([], .iter { nextNode := none, nextVal := 0, lastRet := none, prev := none })

def step (_t : Tid) (g : G) : L → Act → Option (G × L × List Obs)
  -- invocations
  | .idle, .offer v => some (g, .o0 v, [])
  | .idle, .poll => some (g, .p0, [])
  | .idle, .peek => some (g, .k0 .peek, [])
  | .idle, .isEmpty => some (g, .k0 .isEmpty, [])
  | .idle, .size => some (g, .k0 .size, [])
  | .idle, .iterator => some (g, .k0 .iter, [])
  -- Offer
  | .o0 v, .tau => some (g, .o1 v g.tail g.tail, [])
  | .o1 v t p, .tau =>
      match g.next p with
      | none => some (g, .o2 v t p, [])
      | some q => if q = p then some (g, .o4 v t p, [])
                  else if p ≠ t then some (g, .o5 v t p q, [])
                  else some (g, .o1 v t q, [])
  | .o2 v t p, .tau =>
      if g.next p = none then
        if p ≠ t then some (link g p v, .o3 t g.n, [.lpOffer v])
        else some (link g p v, .idle, [.lpOffer v, .ret .unit])
      else some (g, .o1 v t p, [])
  | .o3 t nw, .tau =>
      some (if g.tail = t then { g with tail := nw } else g, .idle, [.ret .unit])
  | .o4 v t _p, .tau =>
      if g.tail ≠ t then some (g, .o1 v g.tail g.tail, []) else some (g, .o4b v g.tail, [])
  | .o4b v t, .tau => some (g, .o1 v t g.head, [])
  | .o5 v t _p q, .tau =>
      if g.tail ≠ t then some (g, .o1 v g.tail g.tail, []) else some (g, .o1 v g.tail q, [])
  -- Poll
  | .p0, .tau => some (g, .p1 g.head g.head, [])
  | .p1 h p, .tau => if g.live p then some (g, .p2 h p, []) else some (g, .p4 h p, [])
  | .p2 h p, .tau =>
      if g.live p then
        if p ≠ h then some (kill g p, .p3 h p (g.val p), [.lpPoll (.val (g.val p))])
        else some (kill g p, .idle, [.lpPoll (.val (g.val p)), .ret (.val (g.val p))])
      else some (g, .p4 h p, [])
  | .p3 h p v, .tau =>
      match g.next p with
      | some q => let (l, o) := goUpd h q (.ret (.val v)); some (g, l, o)
      | none => let (l, o) := goUpd h p (.ret (.val v)); some (g, l, o)
  | .p4 h p, .tau =>
      match g.next p with
      | none => let (l, o) := goUpd h p (.ret .nil); some (g, l, .lpPoll .nil :: o)
      | some q => if q = p then some (g, .p0, []) else some (g, .p1 h q, [])
  -- Peek / first / iterator construction
  | .k0 m, .tau => some (g, .k1 m g.head g.head, [])
  | .k1 m h p, .tau =>
      if g.live p then
        let (lp, k) := foundLive m p (g.val p)
        let (l, o) := goUpd h p k
        some (g, l, lp ++ o)
      else some (g, .k2 m h p, [])
  | .k2 m h p, .tau =>
      match g.next p with
      | none =>
        let (lp, k) := foundNone m
        let (l, o) := goUpd h p k
        some (g, l, lp ++ o)
      | some q => if q = p then some (g, .k0 m, []) else some (g, .k1 m h q, [])
  -- updateHead
  | .u1 h tgt k, .tau =>
      if g.head = h then some ({ g with head := tgt }, .u2 h k, [])
      else let (l, o) := finish k; some (g, l, o)
  | .u2 h k, .tau => let (l, o) := finish k; some (setNext g h (some h), l, o)
  -- Size counting loop
  | .s1 p c, .tau =>
      if g.live p then
        if c + 1 = maxInt32 then some (g, .idle, [.retAux (.int (c + 1))]) else some (g, .s2 p (c + 1), [])
      else some (g, .s2 p c, [])
  | .s2 p c, .tau =>
      match g.next p with
      | none => some (g, .idle, [.retAux (.int c)])
      | some q => if q = p then some (g, .k0 .size, []) else some (g, .s1 q c, [])
  -- HasNext: no shared access
  | .idleIt it, .hasNext => some (g, .idleIt it, [.retAux (.bool it.nextNode.isSome)])
  | .idleIt _, .drop => some (g, .idle, [])
  -- Next
  | .idleIt it, .next =>
      match it.nextNode with
      | none => some (g, .idleIt it, [.retAux .nil])
      | some pred => some (g, .n0 { it with lastRet := some pred } pred, [])
  | .n0 it pred, .tau =>
      match g.next pred with
      | none => some (g, .idleIt { it with nextNode := none, prev := some pred }, [.itNext pred it.nextVal, .retAux (.val it.nextVal)])
      | some q => if q = pred then some (g, .n0h it pred, []) else some (g, .n1 it pred q, [])
  | .n0h it pred, .tau => some (g, .n1 it pred g.head, [])
  | .n1 it pred p, .tau =>
      if g.live p then
        some (g, .idleIt { it with nextNode := some p, nextVal := g.val p, prev := some pred },
              [.itNext pred it.nextVal, .retAux (.val it.nextVal)])
      else some (g, .n2 it pred p, [])
  | .n2 it pred p, .tau =>
      match g.next p with
      | none => some (g, .idleIt { it with nextNode := none, prev := some pred }, [.itNext pred it.nextVal, .retAux (.val it.nextVal)])
      | some q => if q = p then some (g, .n2h it pred p, []) else some (g, .n3 it pred p q, [])
  | .n2h it pred p, .tau => some (g, .n3 it pred p g.head, [])
  | .n3 it pred p q, .tau =>
      some (if g.next pred = some p then setNext g pred (some q) else g, .n1 it pred q, [])
  -- Remove
  | .idleIt it, .remove =>
      match it.lastRet with
      | none => some (g, .idleIt it, [.retAux .unit])
      | some l => some (g, .r0 it l, [])
  | .r0 it l, .tau => some (kill g l, .idleIt { it with lastRet := none }, [.lpRemove l (g.live l), .ret .unit])
  | _, _ => none

def init : G := { n := 1, val := fun _ => 0, live := fun _ => false, next := fun _ => none, head := 0, tail := 0 }

def M : Machine where
  G := G
  L := L
  Act := Act
  Obs := Obs
  init := init
  idle := .idle
  step := step

/-- the abstract queue: values of the live nodes in link order -/
def absFrom (g : G) : Nat → Nat → List Nat
  | _, 0 => []
  | i, k + 1 => if g.live i then g.val i :: absFrom g (i + 1) k else absFrom g (i + 1) k

def abs (g : G) : List Nat := absFrom g 0 g.n

end Garr.Queue
