import Garr.Num.F64
/-!
# Model of `CircuitBreakerConfig.Validate` (circuit-breaker/circuitBreakerConfig.go)
Durations are int64 nanoseconds; the threshold is a float64.
-/
namespace Garr.Validate
open Garr

structure Config where
  thr : F64
  minReq : Int
  trial : Int
  openW : Int
  window : Int
  interval : Int
deriving Repr

/-- `Validate() == nil`, tests in the order of the code -/
def valid (c : Config) : Bool :=
  if !(F64.lt (F64.zero false) c.thr && F64.le c.thr F64.one) then false
  else if c.trial ≤ 0 then false
  else if c.openW ≤ 0 then false
  else if c.window ≤ 0 then false
  else if c.interval ≤ 0 then false
  else if c.window ≤ c.interval then false
  else true

end Garr.Validate
