import Garr.Num.F64
import Garr.Retry.Model
import Garr.Retry.Lemmas
import Garr.Validate.Model
import Garr.SpecParse.Model
import Garr.Props.C05
import Garr.Props.C18
import Garr.Props.C20
