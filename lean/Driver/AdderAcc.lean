import Driver.Util
import Garr.Adder.Model
/-!
Trace acceptor for the striped adders (int64 and float64 twins).
-/
namespace Driver.AdderAcc
open Garr Garr.Adder Driver

/-- model-side description of the access a step performs -/
inductive Loc | base | busy | cells | slot (arr j : Nat) | priv | cell (c : Nat) | rnd
deriving Repr, BEq

inductive Val | none | int (v : Int) | tbl (arr len : Nat) | ptbl (len cap : Nat) | cell (c : Nat) | pcell | fresh
deriving Repr, BEq

structure Ev where
  kind : String
  loc : Loc
  a : Val := .none
  b : Val := .none
deriving Repr

/-- the access about to be performed by pc with locals v -/
def expect (alg : Alg) (g : G) (pc : PC) (v : V) : Ev :=
  let ld := if alg.float then "ldu64" else "ld64"
  let cas := if alg.float then "casu64" else "cas64"
  let st := if alg.float then "stu64" else "st64"
  match pc with
  | .a0 | .c0 | .c5a | .c8 | .c11 | .k1 | .k3 | .s1 | .t1 => { kind := "vld", loc := .cells }
  | .a1 | .kb | .s0 => { kind := ld, loc := .base }
  | .a2 | .kb2 => { kind := cas, loc := .base, a := .int v.v, b := .int (alg.view (alg.add v.v v.x)) }
  | .ar | .enter1 | .enter2 => { kind := "rand", loc := .rnd }
  | .a3 => { kind := "vld", loc := .slot v.as.1 v.j }
  | .c1 => { kind := "vld", loc := .slot v.as.1 (mask v.idx (v.as.2 - 1)) }
  | .a4 | .c6 | .s3 => { kind := ld, loc := .cell v.a }
  | .a5 | .c7 => { kind := cas, loc := .cell v.a, a := .int v.v, b := .int (alg.view (alg.add v.v v.x)) }
  | .c2 | .c3 | .c9 | .k0 => { kind := "ld32", loc := .busy }
  | .c4 | .c10 | .k2 => { kind := "cas32", loc := .busy, a := .int 0, b := .int 1 }
  | .c2f | .k3f => { kind := "stu64", loc := .priv, a := .int v.x }
  | .c5b => { kind := "vld", loc := .slot v.rs.1 v.j }
  | .c5c => { kind := "vst", loc := .slot v.rs.1 v.j, a := .pcell }
  | .c5d | .c5e | .c13 | .k3b | .k4c => { kind := "st32", loc := .busy, a := .int 0 }
  | .c12 =>
      let cap := (g.arr v.as.1).cap
      if v.as.2 < cap then { kind := "vst", loc := .cells, a := .tbl v.as.1 cap }
      else { kind := "vst", loc := .cells, a := .ptbl (2*cap) (4*cap) }
  | .k4a => { kind := "vst", loc := .priv, a := .pcell }
  | .k4b => { kind := "vst", loc := .cells, a := .ptbl 2 4 }
  | .s2 => { kind := "vld", loc := .slot v.as.1 v.i }
  | .t0 => { kind := st, loc := .base, a := .int v.x }
  | .t2 => { kind := "vst", loc := .priv, a := .fresh }
  | .t3 => { kind := "vst", loc := .cells, a := .ptbl v.as.2 v.as.2 }

/-- what a load performed at this pc returns, in the model -/
def loadResult (alg : Alg) (g : G) (pc : PC) (v : V) : Val :=
  let tblV : Val := match g.tbl with | none => .none | some t => .tbl t.1 t.2
  let slotV (t : Tbl) (j : Nat) : Val := match slotAt g t j with | none => .none | some c => .cell c
  match pc with
  | .a0 | .c0 | .c5a | .c8 | .c11 | .k1 | .k3 | .s1 | .t1 => tblV
  | .a1 | .kb | .s0 => .int (alg.view g.base)
  | .a3 => slotV v.as v.j
  | .c1 => slotV v.as (mask v.idx (v.as.2 - 1))
  | .c5b => slotV v.rs v.j
  | .s2 => slotV v.as v.i
  | .a4 | .c6 | .s3 => .int (alg.view (g.cell v.a))
  | .c2 | .c3 | .c9 | .k0 => .int (if g.busy then 1 else 0)
  | _ => .none

/-- outcome of the CAS performed at this pc, in the model -/
def casOk (alg : Alg) (g : G) (pc : PC) (v : V) : Option Bool :=
  match pc with
  | .a2 | .kb2 => some (alg.view g.base == v.v)
  | .a5 | .c7 => some (alg.view (g.cell v.a) == v.v)
  | .c4 | .c10 | .k2 => some (!g.busy)
  | _ => none

structure AccSt where
  alg : Alg := intAlg
  maxCells : Nat := 64
  g : G := initG
  ls : List (Nat × L) := []
  locMap : List (Nat × Loc) := []        -- impl address ↦ model location (shared ones)
  arrBase : List (Nat × Nat) := []       -- model array id ↦ impl backing-array base pointer
  cellAddr : List (Nat × Nat) := []      -- model cell id ↦ impl cell pointer
  pendCell : List (Nat × Nat) := []      -- tid ↦ pointer of its private (not yet attached) cell
  pendArr : List (Nat × Nat) := []       -- tid ↦ base pointer of its private array
  pendRet : List (Nat × String) := []
  lps : List (Nat × Int) := []
  steps : Nat := 0

def getL (a : AccSt) (t : Nat) : L := (a.ls.lookup t).getD .idle
def setL (a : AccSt) (t : Nat) (l : L) : AccSt := { a with ls := (t, l) :: a.ls.filter (·.1 != t) }

def pcName (l : L) : String := match l with | .idle => "idle" | .run pc _ => toString (repr pc)

/-- 64-bit pattern → stored representation: signed for int64, raw for float bits -/
def ofWord (alg : Alg) (n : Nat) : Int := if alg.float then (n : Int) else (if n ≥ 2^63 then (n : Int) - 2^64 else n)

def bindLoc (a : AccSt) (loc : Loc) (addr : Nat) : Option AccSt :=
  match a.locMap.lookup addr with
  | some l => if l == loc then some a else none
  | none => if a.locMap.any (·.2 == loc) then none else some { a with locMap := (addr, loc) :: a.locMap }

def bindCell (a : AccSt) (c : Nat) (p : Nat) : Option AccSt :=
  match a.cellAddr.lookup c with
  | some q => if p == q then some a else none
  | none => if p != 0 && !(a.cellAddr.any (·.2 == p)) then some { a with cellAddr := (c, p) :: a.cellAddr } else none

def bindArr (a : AccSt) (arr : Nat) (p : Nat) : Option AccSt :=
  match a.arrBase.lookup arr with
  | some q => if p == q then some a else none
  | none => if p != 0 && !(a.arrBase.any (·.2 == p)) then some { a with arrBase := (arr, p) :: a.arrBase } else none

/-- compare a model value with the implementation's (x, len, cap) triple -/
def matchVal (a : AccSt) (t : Nat) (v : Val) (x len cap : Nat) : Option AccSt :=
  match v with
  | .none => if x == 0 then some a else none
  | .int i => if ofWord a.alg x == i || (x < 2^32 && ofWord a.alg x == i) then some a else none
  | .cell c => bindCell a c x
  | .fresh => if x != 0 then some a else none
  | .pcell =>
    match a.pendCell.lookup t with
    | some y => if x == y then some a else none
    | none => if x != 0 && !(a.cellAddr.any (·.2 == x)) then some { a with pendCell := (t, x) :: a.pendCell } else none
  | .tbl arr l => if len == l && cap == (a.g.arr arr).cap then bindArr a arr x else none
  | .ptbl l c =>
    if len == l && cap == c then
      match a.pendArr.lookup t with
      | some y => if x == y then some a else none
      | none => if x != 0 && !(a.arrBase.any (·.2 == x)) then some { a with pendArr := (t, x) :: a.pendArr } else none
    else none

def retStr (o : Option Int) : String := match o with | none => "unit" | some v => toString v

def applyObs (a : AccSt) (t : Nat) (obs : List Obs) : AccSt :=
  obs.foldl (fun acc o => match o with
    | .ret r => { acc with pendRet := (t, retStr r) :: acc.pendRet.filter (·.1 != t), pendCell := acc.pendCell.filter (·.1 != t) }
    | .lp x => { acc with lps := (t, x) :: acc.lps }) a

def processLine (a : AccSt) (toks : List String) : Except String AccSt :=
  match toks with
  | "inv" :: t :: rest =>
    match t.toNat? with
    | none => .error "bad inv"
    | some t =>
      let act : Option Act := match rest with
        | ["add", x] => x.toInt?.map Act.add
        | ["sum"] => some .sum
        | ["store", x] => x.toInt?.map Act.store
        | ["reset"] => some .reset
        | ["sar"] => some .sumAndReset
        | _ => none
      match act with
      | none => .error "bad inv"
      | some act =>
        match step a.alg a.maxCells t a.g (getL a t) act with
        | none => .error s!"invocation {rest} not enabled (model thread at {pcName (getL a t)}, active={a.g.actv}, maint={a.g.maint})"
        | some (g', l', obs) => .ok (applyObs (setL { a with g := g' } t l') t obs)
  | ["ev", t, _layer, kind, addr, xa, xb, xr, len, cap, ok] =>
    match t.toNat?, hexVal? addr, hexVal? xa, hexVal? xb, hexVal? xr, hexVal? len, hexVal? cap with
    | some t, some addr, some xa, some xb, some xr, some len, some cap =>
      match getL a t with
      | .idle => .error s!"thread {t} is idle in the model but the implementation performed {kind}"
      | .run pc v =>
        let e := expect a.alg a.g pc v
        if e.kind != kind then .error s!"at {repr pc}: model expects {e.kind} on {repr e.loc}, implementation did {kind}" else
        let aLoc : Option AccSt :=
          match e.loc with
          | .rnd => some a
          | .priv => some a          -- private object: address not tracked
          | loc => bindLoc a loc addr
        match aLoc with
        | none => .error s!"at {repr pc}: location mismatch, model expects {repr e.loc}"
        | some a1 =>
        match (matchVal a1 t e.a xa len cap).bind
                (fun a2 => if kind.startsWith "cas" then matchVal a2 t e.b xb 0 0 else some a2) with
        | none => .error s!"at {repr pc}: operand mismatch, model expects {repr e}"
        | some a2 =>
          -- result of the access
          let resOk : Option AccSt :=
            if kind.startsWith "cas" then
              (if casOk a2.alg a2.g pc v == some (ok == "1") then some a2 else none)
            else if kind == "vld" || kind.startsWith "ld" then matchVal a2 t (loadResult a2.alg a2.g pc v) xr len cap
            else some a2
          match resOk with
          | none => .error s!"at {repr pc}: result mismatch, model expects load {repr (loadResult a2.alg a2.g pc v)} / cas {repr (casOk a2.alg a2.g pc v)}"
          | some a3 =>
            let w := if kind == "rand" then xr else 0
            let ncell0 := a3.g.ncell
            let narr0 := a3.g.narr
            let (g', l', obs) := stepRun a3.alg a3.maxCells t a3.g pc v w
            -- materialisation of private objects
            let a4 := if pc == .t3 then
                { a3 with arrBase := (match a3.pendArr.lookup t with | some p => [(0, p)] | none => []),
                          cellAddr := [], pendArr := a3.pendArr.filter (·.1 != t),
                          locMap := a3.locMap.filter (fun (_, l) => match l with | .slot _ _ => false | .cell _ => false | _ => true) }
              else
                let a3' := if g'.ncell > ncell0 then
                    match a3.pendCell.lookup t with
                    | some p => { a3 with cellAddr := (ncell0, p) :: a3.cellAddr, pendCell := a3.pendCell.filter (·.1 != t) }
                    | none => a3
                  else a3
                if g'.narr > narr0 then
                  match a3'.pendArr.lookup t with
                  | some p => { a3' with arrBase := (narr0, p) :: a3'.arrBase, pendArr := a3'.pendArr.filter (·.1 != t) }
                  | none => a3'
                else a3'
            .ok (applyObs (setL { a4 with g := g', steps := a4.steps + 1 } t l') t obs)
    | _, _, _, _, _, _, _ => .error "bad ev line"
  | ["ret", t, v] =>
    match t.toNat? with
    | none => .error "bad ret"
    | some t =>
      match a.pendRet.lookup t with
      | none => .error s!"implementation returned {v} but the model operation of thread {t} is at {pcName (getL a t)}"
      | some r => if r == v then .ok { a with pendRet := a.pendRet.filter (·.1 != t) }
                  else .error s!"return value: model {r} impl {v}"
  | _ => .error "bad line"

def initSt (toks : List String) : AccSt :=
  match toks with
  | [_name, alg, mc] => { alg := if alg == "float" then floatAlg else intAlg, maxCells := mc.toNat?.getD 64 }
  | _ => {}

end Driver.AdderAcc
